import SC.Model.Tree
import SC.Model.Utf8
import SC.Model.Fold
import SC.Model.Spec
import SC.Model.Algo
