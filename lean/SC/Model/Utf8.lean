/-!
Go's `unicode/utf8` as the standard library implements it, over `List UInt8`.

`decodeRune` follows `utf8.DecodeRune` (first-byte class, accept range of the second byte),
`dec` is the forward segmentation a `range` loop performs, `decodeLast` follows
`utf8.DecodeLastRune` (scan back at most `UTFMax` bytes for a rune start, decode, check it ends
at the end), `encode` is `utf8.EncodeRune` for a valid rune.
-/
namespace Utf8
abbrev Bytes := List UInt8
def runeError : Nat := 0xFFFD

def isCont (b : UInt8) : Bool := 0x80 ≤ b && b ≤ 0xBF

/-- second-byte accept range (Go's acceptRanges) -/
def accept (b0 b1 : UInt8) : Bool :=
  (if b0 == 0xE0 then 0xA0 else if b0 == 0xF0 then 0x90 else 0x80) ≤ b1 &&
  b1 ≤ (if b0 == 0xED then 0x9F else if b0 == 0xF4 then 0x8F else 0xBF)

/-- Go's utf8.DecodeRune: (rune, width); width = 0 only for empty input. -/
def decodeRune : Bytes → Nat × Nat
  | [] => (runeError, 0)
  | b0 :: rest =>
    if b0 < 0x80 then (b0.toNat, 1)
    else if b0 < 0xC2 then (runeError, 1)
    else if b0 < 0xE0 then
      match rest with
      | b1 :: _ =>
        if isCont b1 then (((b0.toNat &&& 0x1F) <<< 6) ||| (b1.toNat &&& 0x3F), 2) else (runeError, 1)
      | _ => (runeError, 1)
    else if b0 < 0xF0 then
      match rest with
      | b1 :: b2 :: _ =>
        if accept b0 b1 && isCont b2 then
          (((b0.toNat &&& 0x0F) <<< 12) ||| ((b1.toNat &&& 0x3F) <<< 6) ||| (b2.toNat &&& 0x3F), 3)
        else (runeError, 1)
      | _ => (runeError, 1)
    else if b0 < 0xF5 then
      match rest with
      | b1 :: b2 :: b3 :: _ =>
        if accept b0 b1 && isCont b2 && isCont b3 then
          (((b0.toNat &&& 0x07) <<< 18) ||| ((b1.toNat &&& 0x3F) <<< 12) ||| ((b2.toNat &&& 0x3F) <<< 6) ||| (b3.toNat &&& 0x3F), 4)
        else (runeError, 1)
      | _ => (runeError, 1)
    else (runeError, 1)

def decSkip : Nat → Bytes → List (Nat × Nat)
  | _, [] => []
  | 0, b :: rest => let p := decodeRune (b :: rest); p :: decSkip (p.2 - 1) rest
  | k+1, _ :: rest => decSkip k rest

/-- forward segmentation of a byte string into (rune, width) pairs: what `for i, r := range s` sees -/
def dec (s : Bytes) : List (Nat × Nat) := decSkip 0 s

/-- byte offset of the `k`-th decode boundary -/
def offAt (s : Bytes) (k : Nat) : Nat := (((dec s).take k).map (·.2)).sum

/-- utf8.RuneStart -/
def isStart (b : UInt8) : Bool := (b &&& 0xC0) != 0x80

/-- scan positions `lim + k - 1, …, lim` downwards for a rune start; `lim - 1` if none (Go's loop) -/
def scanBack (s : Bytes) (lim : Nat) : Nat → Int
  | 0 => (lim : Int) - 1
  | k+1 => if isStart (s.getD (lim + k) 0) then ((lim + k : Nat) : Int) else scanBack s lim k

/-- Go's utf8.DecodeLastRune -/
def decodeLast (s : Bytes) : Nat × Nat :=
  let n := s.length
  if n = 0 then (runeError, 0) else
  let last := s.getD (n - 1) 0
  if last < 0x80 then (last.toNat, 1) else
  let lim := n - 4
  let start := (scanBack s lim (n - 1 - lim)).toNat
  let p := decodeRune (s.drop start)
  if start + p.2 ≠ n then (runeError, 1) else p

/-- utf8.EncodeRune for a valid rune, written arithmetically -/
def encode (r : Nat) : Bytes :=
  if r < 0x80 then [UInt8.ofNat r]
  else if r < 0x800 then [UInt8.ofNat (0xC0 + r / 64), UInt8.ofNat (0x80 + r % 64)]
  else if r < 0x10000 then [UInt8.ofNat (0xE0 + r / 4096), UInt8.ofNat (0x80 + r / 64 % 64), UInt8.ofNat (0x80 + r % 64)]
  else [UInt8.ofNat (0xF0 + r / 262144), UInt8.ofNat (0x80 + r / 4096 % 64), UInt8.ofNat (0x80 + r / 64 % 64), UInt8.ofNat (0x80 + r % 64)]

/-- utf8.ValidRune on a non-negative value -/
def validRune (r : Nat) : Prop := r < 0xD800 ∨ (0xDFFF < r ∧ r ≤ 0x10FFFF)
instance (r : Nat) : Decidable (validRune r) := by unfold validRune; infer_instance

/-- utf8.RuneLen on a non-negative value (-1 is rendered as 0; never used as a width by the models) -/
def runeLen (r : Nat) : Nat :=
  if r < 0x80 then 1 else if r < 0x800 then 2
  else if 0xD800 ≤ r ∧ r ≤ 0xDFFF then 0
  else if r < 0x10000 then 3 else if r ≤ 0x10FFFF then 4 else 0

/-- the `_lower` table of strcase.go / bytcase.go as a function (tied to the table by `Proofs/Lower`) -/
def lower (b : UInt8) : UInt8 := if 0x41 ≤ b && b ≤ 0x5A then b + 0x20 else b

def clamp (n : Int) : Int := if n < 0 then -1 else if n > 0 then 1 else 0

/-- lexicographic comparison of (folded) rune lists -/
def lexCmp : List Nat → List Nat → Int
  | [], [] => 0
  | [], _ :: _ => -1
  | _ :: _, [] => 1
  | a :: s, b :: t => if a = b then lexCmp s t else if a < b then -1 else 1

/-- folded rune sequence of a byte string -/
def fdec (fold : Nat → Nat) (s : Bytes) : List Nat := (dec s).map (fun p => fold p.1)

end Utf8
