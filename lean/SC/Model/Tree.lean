/-!
Search-tree containers for the regenerated tables (`SC/Gen/*`).

The generated files contain *balanced BST literals* keyed by table slot (or by code point for
the toolchain dumps).  A look-up is `O(log n)` both in compiled code and in the kernel, which is
what keeps `decide +kernel` over a whole table at `n log n`.
-/

inductive T where
  | leaf : T
  | node (l : T) (k a b : Nat) (r : T) : T

inductive T3 where
  | leaf : T3
  | node (l : T3) (k a b c : Nat) (r : T3) : T3

inductive T4 where
  | leaf : T4
  | node (l : T4) (k a b c d : Nat) (r : T4) : T4

def T.get : T → Nat → Nat × Nat
  | .leaf, _ => (0, 0)
  | .node l k a b r, h => if h < k then l.get h else if k < h then r.get h else (a, b)

def T.toList : T → List (Nat × Nat × Nat)
  | .leaf => []
  | .node l k a b r => l.toList ++ (k, a, b) :: r.toList

def T3.get : T3 → Nat → Nat × Nat × Nat
  | .leaf, _ => (0, 0, 0)
  | .node l k a b c r, h => if h < k then l.get h else if k < h then r.get h else (a, b, c)

def T3.toList : T3 → List (Nat × Nat × Nat × Nat)
  | .leaf => []
  | .node l k a b c r => l.toList ++ (k, a, b, c) :: r.toList

def T4.get : T4 → Nat → Nat × Nat × Nat × Nat
  | .leaf, _ => (0, 0, 0, 0)
  | .node l k a b c d r, h => if h < k then l.get h else if k < h then r.get h else (a, b, c, d)

def T4.toList : T4 → List (Nat × Nat × Nat × Nat × Nat)
  | .leaf => []
  | .node l k a b c d r => l.toList ++ (k, a, b, c, d) :: r.toList

/-- call-by-value for the kernel: reduce `n` to a literal before continuing.  Must be a `match`
    (casesOn): with `Nat.rec` the compiled driver would recurse `n` times per call. -/
def forceNat {α : Type} (n : Nat) (k : Nat → α) : α :=
  match n with
  | 0 => k 0
  | m+1 => k (m+1)
