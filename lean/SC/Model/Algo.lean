import SC.Model.Utf8
import SC.Model.Fold
import SC.Model.Spec
/-!
`A`: function-by-function transliteration of `strcase.go` / `bytcase/bytcase.go`.

Conventions
* One Lean function per Go function (or per loop of a Go function), same branches, same order of
  tests.  A Go string / `[]byte` is a `List UInt8`; `s[i:]` is `s.drop i`, `s[:n]` is `s.take n`.
* Every Go loop is a function with a `fuel` argument; running out of fuel returns the sentinel
  `nofuel = -3`, so termination is a theorem ("never -3"), not an assumption.
* Where the Go code indexes or slices at a *computed* position, the model tests the bound and
  returns the sentinel `fault = -2` where Go would panic.  The refinement theorems `A.F = S.F`
  therefore include panic-freedom (no specification value is `< -1`).
* `Cfg.pkg` selects the places where bytcase.go differs from strcase.go; `Cfg.native` is
  `bytealg.NativeIndex`, `Cfg.arm64` the `Cutover` variant.
* Calls into `internal/bytealg` and the standard library are calls to their scalar
  specifications (`S.kernIndexByte`, `stdIndexByte`, `bytesIndex`, …); C13/C14 discharge that
  assumption separately.
-/
namespace A
open Utf8 Fold

inductive Pkg | str | byt
  deriving DecidableEq, Repr

structure Cfg where
  pkg : Pkg := .str
  native : Bool := true
  arm64 : Bool := false
  maxBruteForce : Nat := 16
  maxLen : Nat := 32
  primeRK : Nat := 16777619
  deriving Repr

def fault : Int := -2
def nofuel : Int := -3

/-- bytealg.Cutover -/
def cutover (cfg : Cfg) (n : Nat) : Nat := if cfg.arm64 then 4 + n / 16 else (n + 16) / 8

/-! ### standard-library / bytealg scalar specifications used by the algorithms -/

/-- strings.IndexByte: first index of byte `c` in `s`, or -1 -/
def stdIndexByte : Bytes → UInt8 → Int
  | [], _ => -1
  | b :: s, c => if b = c then 0 else
      let r := stdIndexByte s c
      if r < 0 then -1 else r + 1

/-- strings.LastIndexByte -/
def stdLastIndexByte : Bytes → UInt8 → Int
  | [], _ => -1
  | b :: s, c =>
      let r := stdLastIndexByte s c
      if r ≥ 0 then r + 1 else if b = c then 0 else -1

/-- exact substring search (strings.Index / bytealg.IndexString): least `i` with `pat <+: s.drop i` -/
def bytesIndex : Bytes → Bytes → Int
  | [], pat => if pat = [] then 0 else -1
  | b :: s, pat =>
    if pat.isPrefixOf (b :: s) then 0
    else
      let r := bytesIndex s pat
      if r < 0 then -1 else r + 1

/-- bytealg.IndexByteString of this repository: ASCII-case-insensitive byte search -/
def kIndexByte (s : Bytes) (c : UInt8) : Int := S.kernIndexByte s c
/-- bytealg.CountString of this repository -/
def kCount (s : Bytes) (c : UInt8) : Nat := S.kernCount s c
/-- bytealg.IndexNonASCII -/
def kIndexNonASCII (s : Bytes) : Int := S.indexNonASCII s

def isAlpha (c : UInt8) : Bool := (0x41 ≤ c && c ≤ 0x5A) || (0x61 ≤ c && c ≤ 0x7A)

/-- the rune at byte offset `i` as the Go code reads it:
    `if s[i] < RuneSelf { rune(s[i]), 1 } else { DecodeRune(s[i:]) }` -/
def runeAt (s : Bytes) (i : Nat) : Nat × Nat := decodeRune (s.drop i)

/-! ### Compare / EqualFold -/

section
variable (fold : Nat → Nat)

/-- rune loop of strcase.Compare (label hasUnicode): `for _, sr := range s` -/
def cmpRunes : Nat → Bytes → Bytes → Int
  | _, [], [] => 0
  | _, [], _ :: _ => -1
  | 0, _ :: _, _ => nofuel
  | fuel+1, a :: s, t =>
    match t with
    | [] => 1
    | b :: t' =>
      let ps := decodeRune (a :: s)
      let sr := ps.1
      let s' := (a :: s).drop ps.2
      let (tr, t'') :=
        if b < 0x80 then ((lower b).toNat, t')
        else let pt := decodeRune (b :: t'); (fold pt.1, (b :: t').drop pt.2)
      if sr = tr ∨ fold sr = tr then cmpRunes fuel s' t''
      else clamp ((fold sr : Int) - (tr : Int))

def cmpAscii : Bytes → Bytes → Int
  | a :: s, b :: t =>
    if (a ||| b) &&& 0x80 ≠ 0 then cmpRunes fold (s.length + 1) (a :: s) (b :: t)
    else if a = b ∨ lower a = lower b then cmpAscii s t
    else if lower a < lower b then -1 else 1
  | s, t => clamp ((s.length : Int) - (t.length : Int))

/-- rune loop of bytcase.Compare: both sides decoded and folded eagerly, `for len(s) != 0` -/
def cmpRunesB : Nat → Bytes → Bytes → Int
  | _, [], [] => 0
  | _, [], _ :: _ => -1
  | 0, _ :: _, _ => nofuel
  | fuel+1, a :: s, t =>
    match t with
    | [] => 1
    | b :: t' =>
      let sr := if a < 0x80 then (lower a).toNat else fold (decodeRune (a :: s)).1
      let s' := if a < 0x80 then s else (a :: s).drop (decodeRune (a :: s)).2
      let tr := if b < 0x80 then (lower b).toNat else fold (decodeRune (b :: t')).1
      let t'' := if b < 0x80 then t' else (b :: t').drop (decodeRune (b :: t')).2
      if sr = tr ∨ fold sr = tr then cmpRunesB fuel s' t''
      else clamp ((fold sr : Int) - (tr : Int))

def cmpAsciiB : Bytes → Bytes → Int
  | a :: s, b :: t =>
    if (a ||| b) &&& 0x80 ≠ 0 then cmpRunesB fold (s.length + 1) (a :: s) (b :: t)
    else if a = b ∨ lower a = lower b then cmpAsciiB s t
    else if lower a < lower b then -1 else 1
  | s, t => clamp ((s.length : Int) - (t.length : Int))
end

def Compare (cfg : Cfg) (s t : Bytes) : Int :=
  match cfg.pkg with
  | .str => cmpAscii caseFold s t
  | .byt => cmpAsciiB caseFold s t

def EqualFold (cfg : Cfg) (s t : Bytes) : Bool := Compare cfg s t == 0

/-! ### indexRuneCase -/

/-- the `!NativeIndex` tail loop: `for ; i < len(s); i++ { if s[i]==c[n-1] && … && s[i-n+1]==c[0] }` -/
def ircTail (enc : Bytes) (s : Bytes) : Nat → Nat → Int
  | 0, _ => nofuel
  | fuel+1, i =>
    if i < s.length then
      if i + 1 < enc.length then fault
      else if enc.isPrefixOf (s.drop (i + 1 - enc.length)) then ((i + 1 - enc.length : Nat) : Int)
      else ircTail enc s fuel (i + 1)
    else -1

/-- `if s[i] != cl { o := IndexByte(s[i+1:], cl); if o < 0 { return -1 }; i += o + 1 }`:
    the next position at or after `i` that holds `cl`, `none` for the early `return -1` -/
def ircNext (cl : UInt8) (s : Bytes) (i : Nat) : Option Nat :=
  if s.getD i 0 ≠ cl then
    let o := stdIndexByte (s.drop (i + 1)) cl
    if o < 0 then none else some (i + o.toNat + 1)
  else some i

/-- the search loop of indexRuneCase for an `n`-byte rune (`n = enc.length ∈ {2,3,4}`):
    search for the last byte, check the preceding bytes, give up on IndexByte after too many
    false positives.  `i` and `fails` are the Go loop variables. -/
def ircLoop (cfg : Cfg) (enc : Bytes) (s : Bytes) : Nat → Nat → Nat → Int
  | 0, _, _ => nofuel
  | fuel+1, i, fails =>
    let n := enc.length
    let cl := enc.getD (n - 1) 0
    if i < s.length then
      match ircNext cl s i with
      | none => -1
      | some i =>
        if i ≥ s.length ∨ i + 1 < n then fault
        else if enc.isPrefixOf (s.drop (i + 1 - n)) then ((i + 1 - n : Nat) : Int)
        else
          let fails := fails + 1
          let i := i + 1
          if (cfg.native ∧ fails > cutover cfg i ∧ i < s.length) ∨
             (¬ cfg.native ∧ fails ≥ 4 + i / 16 ∧ i < s.length) then
            if cfg.native then
              -- 2-byte: search s[i:]; 3/4-byte: search s[i-(n-1):]
              let back := if n = 2 then 0 else n - 1
              if i < back then fault
              else
                let j := bytesIndex (s.drop (i - back)) enc
                if j ≠ -1 then ((i : Int) + j - back) else -1
            else ircTail enc s (s.length + 1) i
          else ircLoop cfg enc s fuel i fails
    else -1

/-- first boundary holding an ill-formed byte or an encoded U+FFFD (`for i, r := range s`) -/
def firstRuneError : Bytes → Nat → Nat → Int
  | _, 0, _ => nofuel
  | s, fuel+1, i =>
    match s with
    | [] => -1
    | b :: rest =>
      let p := decodeRune (b :: rest)
      if p.1 = runeError then (i : Int) else firstRuneError ((b :: rest).drop p.2) fuel (i + p.2)

/-- indexRuneCase: case-sensitive search for rune `r : int32` -/
def indexRuneCase (cfg : Cfg) (s : Bytes) (r : Int) : Int :=
  if 0 ≤ r ∧ r < 0x80 then stdIndexByte s (UInt8.ofNat r.toNat)
  else if r = 0xFFFD then firstRuneError s (s.length + 1) 0
  else if ¬ S.validRuneI r then -1
  else
    let enc := encode r.toNat
    ircLoop cfg enc s (s.length + 1) (enc.length - 1) 0

/-! ### indexByte / IndexByte / LastIndexByte -/

/-- indexByte: (index, size of the matched character) -/
def indexByte (cfg : Cfg) (s : Bytes) (c : UInt8) : Int × Nat :=
  if s.length = 0 then (-1, 1)
  else
    let n := kIndexByte s c
    let special : Option (Int × Nat) :=
      if c = 0x4B ∨ c = 0x6B then some (0x212A, 3)
      else if c = 0x53 ∨ c = 0x73 then some (0x17F, 2)
      else none
    match special with
    | none => (n, 1)
    | some (r, sz) =>
      if n > 0 ∧ n < sz then (n, 1)
      else
        let s' := if n > 0 then s.take n.toNat else s
        let o := indexRuneCase cfg s' r
        if n = -1 ∨ (o ≠ -1 ∧ o < n) then (o, sz) else (n, 1)

def IndexByte (cfg : Cfg) (s : Bytes) (c : UInt8) : Int :=
  if c = 0x4B ∨ c = 0x53 ∨ c = 0x6B ∨ c = 0x73 then (indexByte cfg s c).1 else kIndexByte s c

def IndexByteASCII (_cfg : Cfg) (s : Bytes) (c : UInt8) : Int := kIndexByte s c

/-- backward byte loop `for i := len(s)-1; i >= 0; i-- { if s[i]|' ' == c }` on the reversed list -/
def lastLowerByte (c : UInt8) : Bytes → Nat → Int
  | [], _ => -1
  | b :: rest, i =>
    let r := lastLowerByte c rest (i + 1)
    if r ≥ 0 then r else if (b ||| 0x20) = c then (i : Int) else -1

/-- backward rune loop of LastIndexByte for K/S: ASCII bytes compared lower-cased, other runes
    decoded with DecodeLastRune and compared with `r` -/
def lastByteOrRune (c : UInt8) (r : Nat) (s : Bytes) : Nat → Nat → Int
  | 0, _ => nofuel
  | fuel+1, i =>
    if i > 0 then
      if i > s.length then fault
      else if s.getD (i - 1) 0 < 0x80 then
        if (s.getD (i - 1) 0 ||| 0x20) = c then ((i - 1 : Nat) : Int)
        else lastByteOrRune c r s fuel (i - 1)
      else
        let p := decodeLast (s.take i)
        if p.1 = r then ((i - p.2 : Nat) : Int) else lastByteOrRune c r s fuel (i - p.2)
    else -1

def LastIndexByte (_cfg : Cfg) (s : Bytes) (c : UInt8) : Int :=
  if s.length = 0 then -1
  else if ¬ isAlpha c then stdLastIndexByte s c
  else if c = 0x4B ∨ c = 0x6B then lastByteOrRune (c ||| 0x20) 0x212A s (s.length + 1) s.length
  else if c = 0x53 ∨ c = 0x73 then lastByteOrRune (c ||| 0x20) 0x17F s (s.length + 1) s.length
  else lastLowerByte (c ||| 0x20) s 0

/-! ### indexRune2 / indexRune / IndexRune -/

/-- indexRune2: first instance of `lower` or `upper` (case-sensitive), and the matched size -/
def indexRune2 (cfg : Cfg) (s : Bytes) (lower upper : Nat) : Int × Nat :=
  if (lower ||| upper) < 0x80 then indexByte cfg s (UInt8.ofNat (lower &&& 0x7F))
  else
    let n := indexRuneCase cfg s lower
    if n ≠ 0 ∧ lower ≠ upper then
      let s' := if 0 ≤ n ∧ n < s.length then s.take n.toNat else s
      let o := indexRuneCase cfg s' upper
      if n = -1 ∨ (0 ≤ o ∧ o < n) then (o, runeLen upper) else (n, runeLen lower)
    else (n, runeLen lower)

/-- the loop over the (up to four) members of a FoldMap entry in indexRune -/
def foldsLoop (cfg : Cfg) (r : Nat) : List Nat → Bytes → Int → Nat → Int × Nat
  | [], _, n, size => (n, size)
  | rr :: rest, s, n, size =>
    if rr = r then foldsLoop cfg r rest s n size
    else if rr = 0 then (n, size)
    else
      let o := indexRuneCase cfg s rr
      if o ≠ -1 ∧ (n = -1 ∨ o < n) then foldsLoop cfg r rest (s.take o.toNat) o (runeLen rr)
      else foldsLoop cfg r rest s n size

/-- indexRune: (index of the first rune fold-equal to `r`, its size) -/
def indexRune (cfg : Cfg) (s : Bytes) (r : Int) : Int × Nat :=
  if 0 ≤ r ∧ r < 0x80 then indexByte cfg s (UInt8.ofNat r.toNat)
  else if r = 0xFFFD then
    let i := firstRuneError s (s.length + 1) 0
    if i ≥ 0 then (i, 3) else (-1, 1)
  else if ¬ S.validRuneI r then (-1, 1)
  else
    let u := r.toNat
    match foldMap u with
    | some (a, b, c, d) =>
      let size := runeLen u
      let n := indexRuneCase cfg s r
      if n = 0 then (0, size)
      else
        let s' := if n > 0 then s.take n.toNat else s
        foldsLoop cfg u [a, b, c, d] s' n size
    | none =>
      match toUpperLower u with
      | (up, lo, true) => indexRune2 cfg s lo up
      | (_, _, false) => (indexRuneCase cfg s r, runeLen u)

def IndexRune (cfg : Cfg) (s : Bytes) (r : Int) : Int := (indexRune cfg s r).1
def ContainsRune (cfg : Cfg) (s : Bytes) (r : Int) : Bool := IndexRune cfg s r ≥ 0

/-- containsKelvin (after the D5/D6 repair it also reports U+FFFD / ill-formed bytes) -/
def containsKelvin (cfg : Cfg) (s : Bytes) : Bool :=
  s.length > 0 && (indexRuneCase cfg s 0x212A != -1 || indexRuneCase cfg s 0xFFFD != -1)

/-! ### hasPrefixUnicode / TrimPrefix -/

section
variable (fold : Nat → Nat)

/-- rune loop of hasPrefixUnicode (label hasUnicode).  strcase: `for _, tr := range prefix`
    (raw rune); bytcase: ASCII `tr` is lower-cased first. -/
def hpRunes (byt : Bool) : Nat → Bytes → Bytes → Bool × Bool
  | _, s, [] => (true, s.isEmpty)
  | 0, _, _ :: _ => (false, false)
  | fuel+1, s, c :: p =>
    match s with
    | [] => (false, true)
    | a :: s' =>
      let pt := decodeRune (c :: p)
      let tr := if byt && c < 0x80 then (lower c).toNat else pt.1
      let p' := (c :: p).drop pt.2
      let sr := if a < 0x80 then (lower a).toNat else (decodeRune (a :: s')).1
      let s'' := if a < 0x80 then s' else (a :: s').drop (decodeRune (a :: s')).2
      if tr = sr ∨ fold tr = fold sr then hpRunes byt fuel s'' p' else (false, s''.isEmpty)

/-- ASCII fast path of hasPrefixUnicode; second component is `i == len(s)-1` resp. `i == len(s)` -/
def hpAscii (byt : Bool) : Bytes → Bytes → Bool × Bool
  | a :: s, c :: p =>
    if (a ||| c) &&& 0x80 ≠ 0 then hpRunes fold byt (p.length + 1) (a :: s) (c :: p)
    else if c = a ∨ lower a = lower c then hpAscii byt s p
    else (false, s.isEmpty)
  | s, p => (p.isEmpty, s.isEmpty)

/-- rune loop of TrimPrefix: returns the number of bytes of `s` left (`some rest`) or `none`.
    strcase folds `sr` eagerly and compares `CaseFold(tr) == sr`; bytcase folds both eagerly. -/
def tpRunes (byt : Bool) : Nat → Bytes → Bytes → Option Bytes
  | _, s, [] => some s
  | 0, _, _ :: _ => none
  | fuel+1, s, c :: p =>
    match s with
    | [] => none
    | a :: s' =>
      let pt := decodeRune (c :: p)
      let tr := if byt then (if c < 0x80 then (lower c).toNat else fold pt.1) else pt.1
      let p' := (c :: p).drop pt.2
      let sr := if a < 0x80 then (lower a).toNat else fold (decodeRune (a :: s')).1
      let s'' := if a < 0x80 then s' else (a :: s').drop (decodeRune (a :: s')).2
      if tr = sr ∨ fold tr = sr then tpRunes byt fuel s'' p' else none

/-- ASCII fast path of TrimPrefix (after the D2 repair: `i == len(prefix)` is tested) -/
def tpAscii (byt : Bool) : Bytes → Bytes → Option Bytes
  | a :: s, c :: p =>
    if (a ||| c) &&& 0x80 ≠ 0 then tpRunes fold byt (p.length + 1) (a :: s) (c :: p)
    else if c = a ∨ lower a = lower c then tpAscii byt s p
    else none
  | s, p => if p.isEmpty then some s else none
end

def isByt (cfg : Cfg) : Bool := cfg.pkg == .byt

def hasPrefixUnicode (cfg : Cfg) (s p : Bytes) : Bool × Bool :=
  if p.length > s.length * 3 ∨ (p.length > s.length * 2 ∧ containsKelvin cfg p = false) then (false, true)
  else hpAscii caseFold (isByt cfg) s p

def HasPrefix (cfg : Cfg) (s p : Bytes) : Bool := (hasPrefixUnicode cfg s p).1

/-- TrimPrefix: the result as (offset, length) of `s` -/
def TrimPrefix (cfg : Cfg) (s p : Bytes) : S.Slice :=
  if s.length * 3 < p.length ∨ (s.length * 2 < p.length ∧ containsKelvin cfg p = false) then (0, s.length)
  else
    match tpAscii caseFold (isByt cfg) s p with
    | some rest => (s.length - rest.length, rest.length)
    | none => (0, s.length)

def CutPrefix (cfg : Cfg) (s p : Bytes) : S.Slice × Bool :=
  if p.length = 0 then ((0, s.length), true)
  else
    let ss := TrimPrefix cfg s p
    if ss.2 ≠ s.length then (ss, true) else ((0, s.length), false)

/-! ### hasSuffixUnicode / TrimSuffix / CutSuffix -/

section
variable (fold : Nat → Nat)

/-- rune loop of hasSuffixUnicode (label hasUnicode), on the current prefixes `s`, `t` -/
def hsRunes : Nat → Bytes → Bytes → Bool × Nat
  | 0, _, _ => (false, 0)
  | fuel+1, s, t =>
    if s = [] ∨ t = [] then (t.isEmpty, s.length)
    else
      let ls := s.getLast?.getD 0
      let lt := t.getLast?.getD 0
      let sr := if ls < 0x80 then (lower ls).toNat else (decodeLast s).1
      let s' := if ls < 0x80 then s.take (s.length - 1) else s.take (s.length - (decodeLast s).2)
      let tr := if lt < 0x80 then (lower lt).toNat else (decodeLast t).1
      let t' := if lt < 0x80 then t.take (t.length - 1) else t.take (t.length - (decodeLast t).2)
      if sr = tr ∨ fold sr = fold tr then hsRunes fuel s' t' else (false, 0)

/-- ASCII fast path of hasSuffixUnicode on the reversed strings; `rs`, `rt` are the reversed
    remaining prefixes `s[:i+1]`, `t[:j+1]` -/
def hsAscii : Bytes → Bytes → Bool × Nat
  | a :: rs, c :: rt =>
    if (a ||| c) &&& 0x80 ≠ 0 then hsRunes fold (rs.length + 2) (a :: rs).reverse (c :: rt).reverse
    else if c = a ∨ lower a = lower c then hsAscii rs rt
    else (false, 0)
  | rs, rt => if rt.isEmpty then (true, rs.length) else (false, rs.length)
end

/-- hasSuffixUnicode: (match, start index of the suffix in s).
    NB: when the ASCII loop runs out of `s` first the Go code returns `(false, i+1) = (false, 0)`. -/
def hasSuffixUnicode (cfg : Cfg) (s t : Bytes) : Bool × Nat :=
  if t.length = 0 then (true, s.length)
  else if s.length * 3 < t.length ∨ (s.length * 2 < t.length ∧ containsKelvin cfg t = false) then (false, 0)
  else hsAscii caseFold s.reverse t.reverse

def HasSuffix (cfg : Cfg) (s t : Bytes) : Bool := (hasSuffixUnicode cfg s t).1

def TrimSuffix (cfg : Cfg) (s t : Bytes) : S.Slice :=
  let m := hasSuffixUnicode cfg s t
  if m.1 then (0, m.2) else (0, s.length)

def CutSuffix (cfg : Cfg) (s t : Bytes) : S.Slice × Bool :=
  if t.length = 0 then ((0, s.length), true)
  else
    let m := hasSuffixUnicode cfg s t
    if m.1 then ((0, m.2), true) else ((0, s.length), false)

/-! ### bruteForceIndexUnicode -/

/-- what the loops of bruteForceIndexUnicode use; `skipOK r1` is the test under which the code
    skips two runes -/
structure BEnv where
  cand0 : Nat → Bool
  cand1 : Nat → Bool
  skipOK : Nat → Bool
  hp : Bytes → Bool × Bool
  t : Nat

/-- the loops of bruteForceIndexUnicode, one parametric model for the three variants -/
def bruteLoop (E : BEnv) (s : Bytes) : Nat → Nat → Int
  | 0, _ => nofuel
  | fuel+1, i =>
    if i < E.t then
      if i ≥ s.length then fault else
      let p0 := decodeRune (s.drop i)
      if E.cand0 p0.1 = false then bruteLoop E s fuel (i + p0.2)
      else if i + p0.2 ≥ E.t then -1
      else
        if i + p0.2 ≥ s.length then fault else
        let p1 := decodeRune (s.drop (i + p0.2))
        let next := if E.skipOK p1.1 then i + p0.2 + p1.2 else i + p0.2
        if E.cand1 p1.1 = false then bruteLoop E s fuel next
        else
          if i + p0.2 + p1.2 > s.length then fault else
          let m := E.hp (s.drop (i + p0.2 + p1.2))
          if m.1 then (i : Int)
          else if m.2 then -1
          else bruteLoop E s fuel next
    else -1

/-- upper/lower pair with the İ/ı hack: `(u, l)` as the Go code has them after the `switch` -/
def ulHack (u : Nat) : Nat × Nat :=
  if u = 0x130 ∨ u = 0x131 then (u, u) else ((toUpperLower u).1, (toUpperLower u).2.1)

def bruteForceIndexUnicode (cfg : Cfg) (s sub : Bytes) : Int :=
  if sub.length = 0 then fault else
  let p0 := decodeRune sub
  if p0.2 ≥ sub.length then fault else
  let p1 := decodeRune (sub.drop p0.2)
  let folds0 := foldsExcl p0.1
  let folds1 := foldsExcl p1.1
  let hasFolds0 := folds0.1 ≠ 0
  let hasFolds1 := folds1.1 ≠ 0
  let needle := sub.drop (p0.2 + p1.2)
  let ul0 := ulHack p0.1
  let ul1 := ulHack p1.1
  let u0 := ul0.1; let l0 := ul0.2; let u1 := ul1.1; let l1 := ul1.2
  let t := min s.length (s.length + 2 - sub.length / 3)
  let hp := fun y => hasPrefixUnicode cfg y needle
  if ¬ hasFolds0 ∧ u0 = l0 ∧ ¬ hasFolds1 ∧ u1 = l1 then
    let i0 : Int := if u0 ≠ runeError ∧ u1 ≠ runeError then bytesIndex s (sub.take (p0.2 + p1.2)) else 0
    if i0 < 0 then -1
    else bruteLoop ⟨(· == u0), (· == u1), (· != u0), hp, t⟩ s (s.length + 2) i0.toNat
  else if ¬ hasFolds0 ∧ ¬ hasFolds1 then
    bruteLoop ⟨fun r => r == u0 || r == l0, fun r => r == u1 || r == l1,
               fun r => r != u0 && r != l0, hp, t⟩ s (s.length + 2) 0
  else
    bruteLoop ⟨fun r => r == u0 || r == l0 || (hasFolds0 && (r == folds0.1 || r == folds0.2)),
               fun r => r == u1 || r == l1 || (hasFolds1 && (r == folds1.1 || r == folds1.2)),
               fun r => !hasFolds0 && r != u0 && r != l0, hp, t⟩ s (s.length + 2) 0

/-! ### Rabin–Karp -/

def u32 (n : Nat) : UInt32 := UInt32.ofNat n

/-- folded rune as the hash functions compute it: `_lower` for ASCII, CaseFold otherwise -/
def hfold (r : Nat) : Nat := if r < 0x80 then (lower (UInt8.ofNat r)).toNat else caseFold r

/-- `pow` loop shared by hashStrUnicode / hashStrRevUnicode: primeRK^n by repeated squaring -/
def powLoop : Nat → Nat → UInt32 → UInt32 → UInt32
  | 0, _, pow, _ => pow
  | fuel+1, i, pow, sq =>
    if i > 0 then powLoop fuel (i / 2) (if i % 2 ≠ 0 then pow * sq else pow) (sq * sq) else pow

/-- hashStrUnicode: (hash, pow, number of runes) -/
def hashStrUnicode (cfg : Cfg) (sep : Bytes) : UInt32 × UInt32 × Nat :=
  let rs := (dec sep).map (fun p => hfold p.1)
  let hash := rs.foldl (fun h r => h * u32 cfg.primeRK + u32 r) 0
  (hash, powLoop (rs.length + 1) rs.length 1 (u32 cfg.primeRK), rs.length)

/-- backward segmentation with DecodeLastRune, last rune first -/
def decRev : Nat → Bytes → List (Nat × Nat)
  | 0, _ => []
  | fuel+1, s =>
    if s = [] then []
    else
      let last := s.getLast?.getD 0
      let p := if last < 0x80 then (last.toNat, 1) else decodeLast s
      p :: decRev fuel (s.take (s.length - p.2))

def hashStrRevUnicode (cfg : Cfg) (sep : Bytes) : UInt32 × UInt32 × Nat :=
  let rs := (decRev (sep.length + 1) sep).map (fun p => hfold p.1)
  let hash := rs.foldl (fun h r => h * u32 cfg.primeRK + u32 r) 0
  (hash, powLoop (rs.length + 1) rs.length 1 (u32 cfg.primeRK), rs.length)

/-- first phase of indexRabinKarpUnicode: hash the first `n` runes; returns (h, byte size, n left).
    `n` is a Go `int`: `n--; if n == 0 { break }` never fires when `n` starts at 0. -/
def rkInit (P : UInt32) : Nat → Bytes → UInt32 → Nat → Int → UInt32 × Nat × Int
  | 0, _, h, j, n => (h, j, n)
  | fuel+1, s, h, j, n =>
    match s with
    | [] => (h, j, n)
    | b :: rest =>
      let p := decodeRune (b :: rest)
      let h := h * P + u32 (hfold p.1)
      if n - 1 = 0 then (h, j + p.2, 0) else rkInit P fuel ((b :: rest).drop p.2) h (j + p.2) (n - 1)

/-- rolling phase: `i` start of the window, `j` its end -/
def rkRoll (cfg : Cfg) (P pow hashss : UInt32) (s sub : Bytes) : Nat → UInt32 → Nat → Nat → Int
  | 0, _, _, _ => nofuel
  | fuel+1, h, i, j =>
    if j < s.length then
      let pj := decodeRune (s.drop j)
      let pi := decodeRune (s.drop i)
      let h := h * P + u32 (hfold pj.1) - pow * u32 (hfold pi.1)
      let j := j + pj.2
      let i := i + pi.2
      if i > j ∨ j > s.length then fault
      else if h = hashss ∧ HasPrefix cfg ((s.drop i).take (j - i)) sub then (i : Int)
      else rkRoll cfg P pow hashss s sub fuel h i j
    else -1

def indexRabinKarpUnicode (cfg : Cfg) (s sub : Bytes) : Int :=
  let hs := hashStrUnicode cfg sub
  let P := u32 cfg.primeRK
  let ini := rkInit P (s.length + 1) s 0 0 hs.2.2
  -- strcase: `sz` stays 0 unless the n-th rune was reached; bytcase: `j` is where the scan stopped
  let j0 := if isByt cfg then ini.2.1 else (if ini.2.2 = 0 then ini.2.1 else 0)
  if ini.1 = hs.1 ∧ HasPrefix cfg s sub then 0
  else rkRoll cfg P hs.2.1 hs.1 s sub (s.length + 1) ini.1 0 j0

/-- first phase of indexRabinKarpRevUnicode: hash the last `n` runes; returns (h, i, n left) -/
def rkRevInit (P : UInt32) (s : Bytes) : Nat → UInt32 → Nat → Nat → UInt32 × Nat × Int
  | 0, h, i, n => (h, i, n)
  | fuel+1, h, i, n =>
    if i > 0 then
      let last := s.getD (i - 1) 0
      let p := if last < 0x80 then (last.toNat, 1) else decodeLast (s.take i)
      let h := h * P + u32 (hfold p.1)
      -- `n--; if n == 0 break` with n an int that may already be 0 (then it goes negative)
      if (n : Int) - 1 = 0 then (h, i - p.2, 0) else rkRevInit P s fuel h (i - p.2) (n - 1)
    else (h, i, n)

def rkRevRoll (cfg : Cfg) (P pow hashss : UInt32) (s sub : Bytes) : Nat → UInt32 → Nat → Nat → Int
  | 0, _, _, _ => nofuel
  | fuel+1, h, i, j =>
    if i > 0 then
      if j = 0 ∨ j > s.length then fault else
      let li := s.getD (i - 1) 0
      let p0 := if li < 0x80 then (li.toNat, 1) else decodeLast (s.take i)
      let lj := s.getD (j - 1) 0
      let p1 := if lj < 0x80 then (lj.toNat, 1) else decodeLast (s.take j)
      let h := h * P + u32 (hfold p0.1) - pow * u32 (hfold p1.1)
      if p0.2 > i ∨ p1.2 > j then fault else
      let i := i - p0.2
      let j := j - p1.2
      if i > j then fault
      else if h = hashss ∧ (hasSuffixUnicode cfg ((s.drop i).take (j - i)) sub).1 then (i : Int)
      else rkRevRoll cfg P pow hashss s sub fuel h i j
    else -1

def indexRabinKarpRevUnicode (cfg : Cfg) (s sub : Bytes) : Int :=
  let hs := hashStrRevUnicode cfg sub
  let P := u32 cfg.primeRK
  -- the Go loop is `for i > 0 { …; n--; if n == 0 { break } }; if n > 0 { return -1 }`
  if hs.2.2 = 0 then
    -- empty needle (not reachable from LastIndex): n goes negative, whole string hashed
    fault
  else
    let ini := rkRevInit P s (s.length + 1) 0 s.length hs.2.2
    if ini.2.2 > 0 then -1
    else if ini.1 = hs.1 ∧ HasSuffix cfg s sub then (ini.2.1 : Int)
    else rkRevRoll cfg P hs.2.1 hs.1 s sub (s.length + 1) ini.1 ini.2.1 s.length

/-! ### Index -/

def nonLetterASCII (s : Bytes) : Bool :=
  s.all fun b => let c := b ||| 0x20; !(c &&& 0x80 != 0 || (0x61 ≤ c && c ≤ 0x7A))

/-- what the skip loop of `Index` calls -/
structure Env where
  cand0 : Nat → Bool
  cand1 : Nat → Bool
  idxFirst : Bytes → Int × Nat
  hp : Bytes → Bool × Bool
  rk : Bytes → Int
  t : Nat
  cut : Nat → Nat → Bool

/-- the skip loop of strcase.Index, `i` and `fails` are the Go variables -/
def skipLoop (E : Env) (s : Bytes) : Nat → Nat → Nat → Int
  | 0, _, _ => nofuel
  | fuel+1, i, fails =>
    if i < E.t then
      if i ≥ s.length then fault else
      let p0 := decodeRune (s.drop i)
      let jump : Option (Nat × Nat) :=
        if E.cand0 p0.1 then some (i, p0.2)
        else
          let q := E.idxFirst (s.drop (i + p0.2))
          if q.1 < 0 then none else some (i + p0.2 + q.1.toNat, q.2)
      match jump with
      | none => -1
      | some (i, n0) =>
        if i + n0 ≥ E.t then -1 else
        if i + n0 ≥ s.length then fault else
        let p1 := decodeRune (s.drop (i + n0))
        let verdict : Option Int :=
          if E.cand1 p1.1 then
            let m := E.hp (s.drop (i + n0 + p1.2))
            if m.1 then some (i : Int) else if m.2 then some (-1) else none
          else none
        match verdict with
        | some r => r
        | none =>
          if E.cut (fails + 1) (i + n0) ∧ i + n0 < E.t then
            let j := E.rk (s.drop (i + n0))
            if j < 0 then -1 else ((i + n0 : Nat) : Int) + j
          else skipLoop E s fuel (i + n0) (fails + 1)
    else -1

/-- what the skip loop works with: the candidate sets of the first two needle runes (upper/lower pair with
    the İ/ı hack, plus the extra folds), the first-rune search, the verifier, the Rabin-Karp fall-back,
    the window bound and the cut-over test -/
def skipEnv (cfg : Cfg) (s sub : Bytes) : Env :=
  let p0 := decodeRune sub
  let p1 := decodeRune (sub.drop p0.2)
  let folds0 := foldsExcl p0.1
  let folds1 := foldsExcl p1.1
  let needle := sub.drop (p0.2 + p1.2)
  let ul0 := ulHack p0.1
  let ul1 := ulHack p1.1
  let u0 := ul0.1; let l0 := ul0.2; let u1 := ul1.1; let l1 := ul1.2
  { cand0 := fun r => r == u0 || r == l0 || (folds0.1 != 0 && (r == folds0.1 || r == folds0.2))
    cand1 := fun r => r == u1 || r == l1 || (folds1.1 != 0 && (r == folds1.1 || r == folds1.2))
    idxFirst := fun x => if folds0.1 = 0 then indexRune2 cfg x l0 u0 else indexRune cfg x l0
    hp := fun y => hasPrefixUnicode cfg y needle
    rk := fun x => indexRabinKarpUnicode cfg x sub
    t := min s.length (s.length + 2 - sub.length / 3)
    cut := fun fails i => fails ≥ 4 + i / 16 }

/-- the part of Index after the dispatch `switch` (first two runes valid) -/
def indexSkip (cfg : Cfg) (s sub : Bytes) : Int :=
  if (decodeRune sub).2 ≥ sub.length then fault
  else skipLoop (skipEnv cfg s sub) s (s.length + 2) 0 0

def Index (cfg : Cfg) (s sub : Bytes) : Int :=
  let n := sub.length
  if n = 0 then 0
  else
    let p := decodeRune sub
    if n = 1 ∧ p.1 ≠ runeError then IndexByte cfg s (sub.headD 0)
    else if n = p.2 then IndexRune cfg s p.1
    else if n ≥ s.length then
      if n > s.length * 3 then -1
      else
        let i := IndexRune cfg s p.1
        if i < 0 then -1
        else if n > (s.drop i.toNat).length * 2 ∧ containsKelvin cfg sub = false then -1
        else
          let o := bruteForceIndexUnicode cfg (s.drop i.toNat) sub
          if o ≠ -1 then o + i else -1
    else if n ≤ cfg.maxLen ∧ cfg.native = true ∧ n ≤ 32 ∧ nonLetterASCII sub = true then bytesIndex s sub
    else if n ≤ cfg.maxLen ∧ s.length ≤ cfg.maxBruteForce then bruteForceIndexUnicode cfg s sub
    else if p.1 = runeError ∨ (decodeRune (sub.drop p.2)).1 = runeError then indexRabinKarpUnicode cfg s sub
    else indexSkip cfg s sub

def Contains (cfg : Cfg) (s sub : Bytes) : Bool := Index cfg s sub ≥ 0

/-! ### lastIndexRune / LastIndex -/

/-- backward rune loop: last boundary whose rune satisfies `p` -/
def lastRuneBy (p : Nat → Bool) (s : Bytes) : Nat → Nat → Int
  | 0, _ => nofuel
  | fuel+1, i =>
    if i > 0 then
      if i > s.length then fault else
      let last := s.getD (i - 1) 0
      let q := if last < 0x80 then (last.toNat, 1) else decodeLast (s.take i)
      if q.2 > i then fault
      else if p q.1 then ((i - q.2 : Nat) : Int) else lastRuneBy p s fuel (i - q.2)
    else -1

/-- strcase's backward byte comparison loop for a rune with `u == l` -/
def lastBytes (rs : Bytes) : Bytes → Nat → Int
  | [], _ => -1
  | b :: rest, i =>
    let r := lastBytes rs rest (i + 1)
    if r ≥ 0 then r else if rs.isPrefixOf (b :: rest) then (i : Int) else -1

/-- lastIndexRune, FoldMap hit: `for j := 0; j < len(folds) && folds[j] != 0; j++ { if sr == folds[j] }` -/
def lastIndexRuneMembers (s : Bytes) (a b c d : Nat) : Int :=
  lastRuneBy (fun sr => ([a, b, c, d].takeWhile (· != 0)).contains sr) s (s.length + 1) s.length

/-- lastIndexRune, no FoldMap entry: upper/lower pair (strcase compares bytes backwards when `u == l`) -/
def lastIndexRunePair (cfg : Cfg) (s : Bytes) (u : Nat) : Int :=
  if (toUpperLower u).1 = (toUpperLower u).2.1 ∧ ¬ isByt cfg then lastBytes (encode u) s 0
  else lastRuneBy (fun sr => sr == (toUpperLower u).1 || sr == (toUpperLower u).2.1) s (s.length + 1) s.length

def lastIndexRune (cfg : Cfg) (s : Bytes) (r : Int) : Int :=
  if r = 0xFFFD then lastRuneBy (· == runeError) s (s.length + 1) s.length
  else if ¬ S.validRuneI r then -1
  else
    match foldMap r.toNat with
    | some (a, b, c, d) => lastIndexRuneMembers s a b c d
    | none => lastIndexRunePair cfg s r.toNat

def LastIndex (cfg : Cfg) (s sub : Bytes) : Int :=
  let n := sub.length
  if n = 0 then s.length
  else
    let lastb := sub.getD (n - 1) 0
    let p : Nat × Nat := if lastb < 0x80 then (lastb.toNat, 1) else decodeRune sub
    if n = 1 ∧ p.1 ≠ runeError then LastIndexByte cfg s (sub.headD 0)
    else if n = p.2 then lastIndexRune cfg s p.1
    else if n ≥ s.length ∧ n > s.length * 3 then -1
    else if n ≥ s.length ∧ n > s.length * 2 ∧ containsKelvin cfg sub = false then -1
    else indexRabinKarpRevUnicode cfg s sub

/-! ### Count / Cut -/

def countRune (cfg : Cfg) (r : Nat) : Nat → Bytes → Nat → Int
  | 0, _, _ => nofuel
  | fuel+1, s, n =>
    let i := indexRuneCase cfg s r
    if i = -1 then n
    else if i < 0 then i
    else if i.toNat + runeLen r > s.length then fault
    else countRune cfg r fuel (s.drop (i.toNat + runeLen r)) (n + 1)

/-- advance over `o` runes of `s` (the trim loop of Count / Cut): bytes consumed, or none if
    `s` has fewer than `o` runes -/
def skipRunes : Nat → Bytes → Nat → Option Nat
  | 0, _, j => some j
  | o+1, s, j =>
    match s with
    | [] => none
    | b :: rest =>
      let w := (decodeRune (b :: rest)).2
      skipRunes o ((b :: rest).drop w) (j + w)

/-- the general loop of Count -/
def countLoop (cfg : Cfg) (sub : Bytes) (rc : Nat) : Nat → Bytes → Nat → Int
  | 0, _, _ => nofuel
  | fuel+1, s, n =>
    let i := Index cfg s sub
    if i = -1 then n
    else if i < 0 ∨ i > s.length then fault
    else
      let s1 := s.drop i.toNat
      match skipRunes rc s1 0 with
      | some j => countLoop cfg sub rc fuel (s1.drop j) (n + 1)
      | none =>
        -- strcase: the range loop ends without trimming (s unchanged: would loop forever);
        -- bytcase: `s = s[j:]` with j = len(s)
        if isByt cfg then countLoop cfg sub rc fuel [] (n + 1) else nofuel

def Count (cfg : Cfg) (s sub : Bytes) : Int :=
  if sub.length = 0 then ((dec s).length + 1 : Nat)
  else if sub.length = 1 ∧ sub.headD 0 < 0x80 then
    let c := sub.headD 0
    let n : Int := kCount s c
    if c = 0x4B ∨ c = 0x6B then
      let k := countRune cfg 0x212A (s.length + 1) s 0
      if k < 0 then k else n + k
    else if c = 0x53 ∨ c = 0x73 then
      let k := countRune cfg 0x17F (s.length + 1) s 0
      if k < 0 then k else n + k
    else n
  else countLoop cfg sub (dec sub).length (s.length + 2) s 0

/-- result of Cut: `none` stands for a panic -/
def Cut (cfg : Cfg) (s sep : Bytes) : Option (S.Slice × S.Slice × Bool) :=
  let i := Index cfg s sep
  if i ≥ 0 then
    if i > s.length then none else
    let after := s.drop i.toNat
    match skipRunes (dec sep).length after 0 with
    | some j => some ((0, i.toNat), (i.toNat + j, s.length - (i.toNat + j)), true)
    | none =>
      -- strcase indexes after[0] on an empty string; bytcase stops when `after` is empty
      if isByt cfg then some ((0, i.toNat), (s.length, 0), true) else none
  else if i = -1 then some ((0, s.length), (0, 0), false)
  else none

/-! ### IndexAny / LastIndexAny -/

/-- makeASCIISet: the set as a predicate on bytes, and `ok` -/
def asciiSetLoop (sNonASCII : Bool) : Bytes → (UInt8 → Bool) → Bool → (UInt8 → Bool) × Bool
  | [], as, _ => (as, true)
  | c :: rest, as, fast =>
    if c ≥ 0x80 then (as, false)
    else
      let as1 : UInt8 → Bool := fun b => as b || b == c
      if isAlpha c then
        let c' := c ^^^ 0x20
        let as2 : UInt8 → Bool := fun b => as1 b || b == c'
        if ¬ fast ∧ (c' = 0x4B ∨ c' = 0x6B ∨ c' = 0x53 ∨ c' = 0x73) then
          if ¬ sNonASCII then asciiSetLoop sNonASCII rest as2 true else (as2, false)
        else asciiSetLoop sNonASCII rest as2 fast
      else asciiSetLoop sNonASCII rest as1 fast

def makeASCIISet (s chars : Bytes) : (UInt8 → Bool) × Bool :=
  asciiSetLoop (kIndexNonASCII s ≥ 0) chars (fun _ => false) false

/-- second strategy of IndexAny: for each rune of chars, IndexRune on the shrinking haystack -/
def anyByChars (cfg : Cfg) : List Nat → Bytes → Int → Int
  | [], _, n => n
  | r :: rest, s, n =>
    let i := IndexRune cfg s r
    if i ≠ -1 ∧ (n = -1 ∨ i < n) then
      if i = 0 then 0 else if i < 0 then i else anyByChars cfg rest (s.take i.toNat) i
    else anyByChars cfg rest s n

/-- third strategy: for each rune of s, IndexRune(chars, r) -/
def anyByHay (cfg : Cfg) (chars : Bytes) : Nat → Bytes → Nat → Int
  | 0, _, _ => nofuel
  | fuel+1, s, i =>
    match s with
    | [] => -1
    | b :: rest =>
      let p := decodeRune (b :: rest)
      if IndexRune cfg chars p.1 ≥ 0 then (i : Int)
      else anyByHay cfg chars fuel ((b :: rest).drop p.2) (i + p.2)

def IndexAny (cfg : Cfg) (s chars : Bytes) : Int :=
  if chars.length = 0 then -1
  else if chars.length = 1 then
    let c := chars.headD 0
    IndexRune cfg s (if c ≥ 0x80 then 0xFFFD else c.toNat)
  else
    let viaSet : Option Int :=
      if s.length > 8 then
        let m := makeASCIISet s chars
        if m.2 then some (S.firstAt (fun x => m.1 (x.headD 0)) s 0) else none
      else none
    match viaSet with
    | some r => r
    | none =>
      if s.length > chars.length * 2 then anyByChars cfg ((dec chars).map (·.1)) s (-1)
      else anyByHay cfg chars (s.length + 1) s 0

def ContainsAny (cfg : Cfg) (s chars : Bytes) : Bool := IndexAny cfg s chars ≥ 0

/-- backward loop: last boundary whose rune satisfies `p`, decoding every step with DecodeLastRune -/
def lastRuneByDL (p : Nat → Bool) (s : Bytes) : Nat → Nat → Int
  | 0, _ => nofuel
  | fuel+1, i =>
    if i > 0 then
      if i > s.length then fault else
      let q := decodeLast (s.take i)
      if q.2 > i ∨ q.2 = 0 then fault
      else if p q.1 then ((i - q.2 : Nat) : Int) else lastRuneByDL p s fuel (i - q.2)
    else -1

def LastIndexAny (cfg : Cfg) (s chars : Bytes) : Int :=
  if chars.length = 0 then -1
  else if s.length = 1 then
    let c := s.headD 0
    if IndexRune cfg chars (if c ≥ 0x80 then 0xFFFD else c.toNat) ≥ 0 then 0 else -1
  else
    let viaSet : Option Int :=
      if s.length > 8 then
        let m := makeASCIISet s chars
        if m.2 then some (S.lastAt (fun x => m.1 (x.headD 0)) s 0) else none
      else none
    match viaSet with
    | some r => r
    | none =>
      if chars.length = 1 then
        let c := chars.headD 0
        if c < 0x80 then LastIndexByte cfg s c
        else lastRuneByDL (· == runeError) s (s.length + 1) s.length
      else lastRuneByDL (fun r => IndexRune cfg chars r ≥ 0) s (s.length + 1) s.length

def IndexNonASCII (_cfg : Cfg) (s : Bytes) : Int := kIndexNonASCII s
def ContainsNonASCII (_cfg : Cfg) (s : Bytes) : Bool := kIndexNonASCII s ≥ 0

end A
