import SC.Model.Utf8
import SC.Model.Fold
/-!
`S`: the rune-sequence specification of the 23 exported functions, on **arbitrary** bytes.

Every function is defined through `dec` (Go's forward segmentation: each ill-formed byte is one
U+FFFD of width 1) and `fold = tables.CaseFold` only.  This is the contract C15 states; on valid
UTF-8 it specialises to the statements of C01, C08–C12.
-/
namespace Spec
variable {α : Type} [DecidableEq α]

/-- element index of the first occurrence of `t` as a contiguous block of `s` -/
def findSub : List α → List α → Option Nat
  | [], t => if t = [] then some 0 else none
  | a :: s, t => if t.isPrefixOf (a :: s) then some 0 else (findSub s t).map (· + 1)

/-- greatest `k` with `t` a prefix of `s.drop k` -/
def findSubLast : List α → List α → Option Nat
  | [], t => if t = [] then some 0 else none
  | a :: s, t =>
    match findSubLast s t with
    | some k => some (k + 1)
    | none => if t.isPrefixOf (a :: s) then some 0 else none

/-- greedy non-overlapping count (`t ≠ []`) -/
def countFrom : Nat → List α → List α → Nat
  | 0, _, _ => 0
  | _, [], _ => 0
  | fuel+1, a :: s, t =>
    if t.isPrefixOf (a :: s) then 1 + countFrom fuel ((a :: s).drop t.length) t else countFrom fuel s t
end Spec

namespace S
open Utf8

def fold (r : Nat) : Nat := Fold.caseFold r
def fruns (s : Bytes) : List Nat := fdec fold s
def nrunes (s : Bytes) : Nat := (dec s).length

def compare (s t : Bytes) : Int := lexCmp (fruns s) (fruns t)
def equalFold (s t : Bytes) : Bool := fruns s == fruns t

/-- end offset of the matched prefix, if `p` is a fold-prefix of `s` -/
def prefixLen (s p : Bytes) : Option Nat :=
  if (fruns p).isPrefixOf (fruns s) then some (offAt s (nrunes p)) else none

/-- start offset of the matched suffix -/
def suffixStart (s p : Bytes) : Option Nat :=
  let fs := fruns s; let fp := fruns p
  if fp.length ≤ fs.length ∧ fs.drop (fs.length - fp.length) == fp then some (offAt s (fs.length - fp.length)) else none

def hasPrefix (s p : Bytes) : Bool := (prefixLen s p).isSome
def hasSuffix (s p : Bytes) : Bool := (suffixStart s p).isSome

/-- a sub-slice of the first argument: (offset, length) -/
abbrev Slice := Nat × Nat

def trimPrefix (s p : Bytes) : Slice :=
  match prefixLen s p with
  | some j => (j, s.length - j)
  | none => (0, s.length)
def cutPrefix (s p : Bytes) : Slice × Bool :=
  match prefixLen s p with
  | some j => ((j, s.length - j), true)
  | none => ((0, s.length), false)
def trimSuffix (s p : Bytes) : Slice :=
  match suffixStart s p with
  | some i => (0, i)
  | none => (0, s.length)
def cutSuffix (s p : Bytes) : Slice × Bool :=
  match suffixStart s p with
  | some i => ((0, i), true)
  | none => ((0, s.length), false)

/-- rune index of the leftmost match -/
def indexK (s t : Bytes) : Option Nat := Spec.findSub (fruns s) (fruns t)
def index (s t : Bytes) : Int :=
  match indexK s t with
  | some k => offAt s k
  | none => -1
def contains (s t : Bytes) : Bool := (indexK s t).isSome

def lastIndexK (s t : Bytes) : Option Nat := Spec.findSubLast (fruns s) (fruns t)
def lastIndex (s t : Bytes) : Int :=
  match lastIndexK s t with
  | some k => offAt s k
  | none => -1

def count (s t : Bytes) : Nat :=
  if t = [] then nrunes s + 1 else Spec.countFrom (s.length + 1) (fruns s) (fruns t)

/-- (before, after, found) -/
def cut (s t : Bytes) : Slice × Slice × Bool :=
  match indexK s t with
  | some k =>
    let i := offAt s k
    let j := offAt s (k + nrunes t)
    ((0, i), (j, s.length - j), true)
  | none => ((0, s.length), (0, 0), false)

/-- utf8.ValidRune on an `int32` -/
def validRuneI (r : Int) : Bool := decide (0 ≤ r ∧ validRune r.toNat)

def indexRune (s : Bytes) (r : Int) : Int :=
  if validRuneI r then
    match (fruns s).findIdx? (· == fold r.toNat) with
    | some k => offAt s k
    | none => -1
  else -1
def containsRune (s : Bytes) (r : Int) : Bool := indexRune s r ≥ 0

def indexAny (s cs : Bytes) : Int :=
  let fc := fruns cs
  match (fruns s).findIdx? (fun x => fc.contains x) with
  | some k => offAt s k
  | none => -1
def containsAny (s cs : Bytes) : Bool := indexAny s cs ≥ 0

def lastIndexAny (s cs : Bytes) : Int :=
  let fc := fruns cs
  let fs := fruns s
  match fs.reverse.findIdx? (fun x => fc.contains x) with
  | some k => offAt s (fs.length - 1 - k)
  | none => -1

/-! Byte-level functions (these are specified on bytes, as the property statements do). -/

def isAlpha (c : UInt8) : Bool := (0x41 ≤ c && c ≤ 0x5A) || (0x61 ≤ c && c ≤ 0x7A)

/-- `b` equals `c`, or `c` is an ASCII letter and `b` is its other case -/
def byteEqFold (c b : UInt8) : Bool := b == c || (isAlpha c && (b ||| 0x20) == (c ||| 0x20))

/-- does the byte pattern `p` occur at the head of `s` -/
def headIs (p s : Bytes) : Bool := p.isPrefixOf s

/-- the non-ASCII relative of an ASCII byte, as encoded bytes: K k ↦ U+212A, S s ↦ U+017F -/
def relative (c : UInt8) : Bytes :=
  if c == 0x4B || c == 0x6B then [0xE2, 0x84, 0xAA]
  else if c == 0x53 || c == 0x73 then [0xC5, 0xBF]
  else []

/-- match predicate of IndexByte / LastIndexByte at the head of `s` -/
def byteMatch (uni : Bool) (c : UInt8) : Bytes → Bool
  | [] => false
  | b :: rest => byteEqFold c b || (uni && relative c ≠ [] && headIs (relative c) (b :: rest))

def firstAt (p : Bytes → Bool) : Bytes → Nat → Int
  | [], _ => -1
  | b :: rest, i => if p (b :: rest) then (i : Int) else firstAt p rest (i + 1)

def lastAt (p : Bytes → Bool) : Bytes → Nat → Int
  | [], _ => -1
  | b :: rest, i =>
    let r := lastAt p rest (i + 1)
    if r ≥ 0 then r else if p (b :: rest) then (i : Int) else -1

def indexByte (s : Bytes) (c : UInt8) : Int := firstAt (byteMatch true c) s 0
def lastIndexByte (s : Bytes) (c : UInt8) : Int := lastAt (byteMatch true c) s 0
def indexByteASCII (s : Bytes) (c : UInt8) : Int := firstAt (byteMatch false c) s 0
def indexNonASCII (s : Bytes) : Int := firstAt (fun x => x.headD 0 ≥ 0x80) s 0
def containsNonASCII (s : Bytes) : Bool := indexNonASCII s ≥ 0

/-- the accelerated kernels' scalar definitions (C13): fold-case byte search and count -/
def kernIndexByte (s : Bytes) (c : UInt8) : Int := firstAt (fun x => byteEqFold c (x.headD 0)) s 0
def kernCount (s : Bytes) (c : UInt8) : Nat := (s.filter (byteEqFold c)).length

end S
