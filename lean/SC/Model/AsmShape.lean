/-!
The shape of the amd64 kernels the block model of C13 (`SC/Proofs/Kern*.lean`) was written against:
per (file, TEXT symbol, label) the sequence of (mnemonic, integer operands).  `Gen/AsmFacts.lean` is
regenerated from the repository on every run; `C13.asm_shape` states that the two agree.

How the model reads it (block geometry of each body):
* `CMPQ $16 / JLT small`            — lengths below 16 take the `small` path (`Kern.small`, `Kern.cntSmall`);
* `small`: `LEAQ 16(SI)`, `TESTW $0xff0` — the page test `(base+16) mod 4096 < 16`; `endofpage`: `MOVOU -16(SI)(BX*1)`;
* `sse`: `LEAQ -16(SI)(BX*1)`, `sseloop`: `MOVOU` (16 bytes), `ADDQ $16, DI`  — `LoopP ⟨16,16,16⟩`;
* `avx2` (search): `LEAQ -32(SI)(BX*1)`, `VMOVDQU` (32 bytes), `ADDQ $32, DI` — `LoopP ⟨32,32,32⟩`;
* `avx2` (count): `LEAQ -64(SI)(BX*1)`, two `VMOVDQU`, `ADDQ $64, DI`        — `LoopP ⟨64,64,64⟩`;
* count tails: `ANDQ $15` / `MOVQ $16` / `MOVQ $0xFFFF` / `SARQ` / `SALQ` and `ANDQ $63` / `MOVQ $64` / `SALQ`.
-/
namespace Kern
def expectedShape : List (String × String × String × List (String × List Int)) := [
  ("indexbyte_go122_amd64.s", "IndexByte", "", [("MOVQ", [0]), ("MOVQ", [8]), ("MOVB", [24]), ("LEAQ", [32]), ("LEAL", [(-65)]), ("CMPB", [25]), ("JLS", []), ("ADDL", [(-97)]), ("CMPB", [25]), ("JHI", [])]),
  ("indexbyte_go122_amd64.s", "IndexByte", "index_case", [("MOVB", [24]), ("JMP", [])]),
  ("indexbyte_go122_amd64.s", "IndexByte", "index", [("MOVB", [24]), ("JMP", [])]),
  ("indexbyte_go122_amd64.s", "IndexByteString", "", [("MOVQ", [0]), ("MOVQ", [8]), ("MOVB", [16]), ("LEAQ", [24]), ("LEAL", [(-65)]), ("CMPB", [25]), ("JLS", []), ("ADDL", [(-97)]), ("CMPB", [25]), ("JHI", [])]),
  ("indexbyte_go122_amd64.s", "IndexByteString", "index_case", [("MOVB", [16]), ("JMP", [])]),
  ("indexbyte_go122_amd64.s", "IndexByteString", "index", [("MOVB", [16]), ("JMP", [])]),
  ("indexbyte_go122_amd64.s", "indexbytebodyCase", "", [("ORL", [32]), ("MOVD", []), ("PUNPCKLBW", []), ("PUNPCKLBW", []), ("PSHUFL", [0]), ("MOVQ", [32]), ("MOVQ", []), ("PUNPCKLBW", []), ("PUNPCKLBW", []), ("PSHUFL", [0]), ("CMPQ", [16]), ("JLT", []), ("MOVQ", []), ("CMPQ", [32]), ("JA", [])]),
  ("indexbyte_go122_amd64.s", "indexbytebodyCase", "sse", [("LEAQ", [(-16), 1]), ("JMP", []), ("PCALIGN", [16])]),
  ("indexbyte_go122_amd64.s", "indexbytebodyCase", "sseloop", [("MOVOU", []), ("POR", []), ("PCMPEQB", []), ("PMOVMSKB", []), ("BSFL", []), ("JNZ", []), ("ADDQ", [16])]),
  ("indexbyte_go122_amd64.s", "indexbytebodyCase", "sseloopentry", [("CMPQ", []), ("JB", []), ("MOVQ", []), ("MOVOU", []), ("POR", []), ("PCMPEQB", []), ("PMOVMSKB", []), ("BSFL", []), ("JNZ", [])]),
  ("indexbyte_go122_amd64.s", "indexbytebodyCase", "failure", [("MOVQ", [(-1)]), ("RET", [])]),
  ("indexbyte_go122_amd64.s", "indexbytebodyCase", "ssesuccess", [("SUBQ", []), ("ADDQ", []), ("MOVQ", []), ("RET", [])]),
  ("indexbyte_go122_amd64.s", "indexbytebodyCase", "small", [("TESTQ", []), ("JEQ", []), ("LEAQ", [16]), ("TESTW", [4080]), ("JEQ", []), ("MOVOU", []), ("POR", []), ("PCMPEQB", []), ("PMOVMSKB", []), ("BSFL", []), ("JZ", []), ("CMPL", []), ("JAE", []), ("MOVQ", []), ("RET", [])]),
  ("indexbyte_go122_amd64.s", "indexbytebodyCase", "endofpage", [("MOVOU", [(-16), 1]), ("POR", []), ("PCMPEQB", []), ("PMOVMSKB", []), ("MOVL", []), ("SHLL", []), ("SHRL", [16]), ("BSFL", []), ("JZ", []), ("MOVQ", []), ("RET", [])]),
  ("indexbyte_go122_amd64.s", "indexbytebodyCase", "avx2", [("PP_ifndef_hasAVX2", []), ("CMPB", [1]), ("JNE", []), ("PP_endif", []), ("VPBROADCASTB", []), ("MOVD", []), ("LEAQ", [(-32), 1]), ("VPBROADCASTB", []), ("PCALIGN", [32])]),
  ("indexbyte_go122_amd64.s", "indexbytebodyCase", "avx2_loop", [("VMOVDQU", []), ("VPOR", []), ("VPCMPEQB", []), ("VPTEST", []), ("JNZ", []), ("ADDQ", [32]), ("CMPQ", []), ("JLT", []), ("MOVQ", []), ("VMOVDQU", []), ("VPOR", []), ("VPCMPEQB", []), ("VPTEST", []), ("JNZ", []), ("VZEROUPPER", []), ("MOVQ", [(-1)]), ("RET", [])]),
  ("indexbyte_go122_amd64.s", "indexbytebodyCase", "avx2success", [("VPMOVMSKB", []), ("BSFL", []), ("SUBQ", []), ("ADDQ", []), ("MOVQ", []), ("VZEROUPPER", []), ("RET", [])]),
  ("indexbyte_go122_amd64.s", "indexbytebody", "", [("MOVD", []), ("PUNPCKLBW", []), ("PUNPCKLBW", []), ("PSHUFL", [0]), ("CMPQ", [16]), ("JLT", []), ("MOVQ", []), ("CMPQ", [32]), ("JA", [])]),
  ("indexbyte_go122_amd64.s", "indexbytebody", "sse", [("LEAQ", [(-16), 1]), ("JMP", []), ("PCALIGN", [16])]),
  ("indexbyte_go122_amd64.s", "indexbytebody", "sseloop", [("MOVOU", []), ("PCMPEQB", []), ("PMOVMSKB", []), ("BSFL", []), ("JNZ", []), ("ADDQ", [16])]),
  ("indexbyte_go122_amd64.s", "indexbytebody", "sseloopentry", [("CMPQ", []), ("JB", []), ("MOVQ", []), ("MOVOU", []), ("PCMPEQB", []), ("PMOVMSKB", []), ("BSFL", []), ("JNZ", [])]),
  ("indexbyte_go122_amd64.s", "indexbytebody", "failure", [("MOVQ", [(-1)]), ("RET", [])]),
  ("indexbyte_go122_amd64.s", "indexbytebody", "ssesuccess", [("SUBQ", []), ("ADDQ", []), ("MOVQ", []), ("RET", [])]),
  ("indexbyte_go122_amd64.s", "indexbytebody", "small", [("TESTQ", []), ("JEQ", []), ("LEAQ", [16]), ("TESTW", [4080]), ("JEQ", []), ("MOVOU", []), ("PCMPEQB", []), ("PMOVMSKB", []), ("BSFL", []), ("JZ", []), ("CMPL", []), ("JAE", []), ("MOVQ", []), ("RET", [])]),
  ("indexbyte_go122_amd64.s", "indexbytebody", "endofpage", [("MOVOU", [(-16), 1]), ("PCMPEQB", []), ("PMOVMSKB", []), ("MOVL", []), ("SHLL", []), ("SHRL", [16]), ("BSFL", []), ("JZ", []), ("MOVQ", []), ("RET", [])]),
  ("indexbyte_go122_amd64.s", "indexbytebody", "avx2", [("PP_ifndef_hasAVX2", []), ("CMPB", [1]), ("JNE", []), ("PP_endif", []), ("MOVD", []), ("LEAQ", [(-32), 1]), ("VPBROADCASTB", []), ("PCALIGN", [32])]),
  ("indexbyte_go122_amd64.s", "indexbytebody", "avx2_loop", [("VMOVDQU", []), ("VPCMPEQB", []), ("VPTEST", []), ("JNZ", []), ("ADDQ", [32]), ("CMPQ", []), ("JLT", []), ("MOVQ", []), ("VMOVDQU", []), ("VPCMPEQB", []), ("VPTEST", []), ("JNZ", []), ("VZEROUPPER", []), ("MOVQ", [(-1)]), ("RET", [])]),
  ("indexbyte_go122_amd64.s", "indexbytebody", "avx2success", [("VPMOVMSKB", []), ("BSFL", []), ("SUBQ", []), ("ADDQ", []), ("MOVQ", []), ("VZEROUPPER", []), ("RET", [])]),
  ("count_go122_amd64.s", "Count", "", [("PP_ifndef_hasPOPCNT", []), ("CMPB", [1]), ("JEQ", [2]), ("JMP", []), ("PP_endif", []), ("MOVQ", [0]), ("MOVQ", [8]), ("MOVB", [24]), ("LEAQ", [32]), ("LEAL", [(-65)]), ("CMPB", [25]), ("JLS", []), ("ADDL", [(-97)]), ("CMPB", [25]), ("JHI", [])]),
  ("count_go122_amd64.s", "Count", "count_case", [("MOVB", [24]), ("JMP", [])]),
  ("count_go122_amd64.s", "Count", "count", [("MOVB", [24]), ("JMP", [])]),
  ("count_go122_amd64.s", "CountString", "", [("PP_ifndef_hasPOPCNT", []), ("CMPB", [1]), ("JEQ", [2]), ("JMP", []), ("PP_endif", []), ("MOVQ", [0]), ("MOVQ", [8]), ("MOVB", [16]), ("LEAQ", [24]), ("LEAL", [(-65)]), ("CMPB", [25]), ("JLS", []), ("ADDL", [(-97)]), ("CMPB", [25]), ("JHI", [])]),
  ("count_go122_amd64.s", "CountString", "count_case", [("MOVB", [16]), ("JMP", [])]),
  ("count_go122_amd64.s", "CountString", "count", [("MOVB", [16]), ("JMP", [])]),
  ("count_go122_amd64.s", "countbodyCase", "", [("ORL", [32]), ("MOVD", []), ("PUNPCKLBW", []), ("PUNPCKLBW", []), ("PSHUFL", [0]), ("MOVQ", [32]), ("MOVQ", []), ("PUNPCKLBW", []), ("PUNPCKLBW", []), ("PSHUFL", [0]), ("CMPQ", [16]), ("JLT", []), ("MOVQ", [0]), ("MOVQ", []), ("CMPQ", [64]), ("JA", [])]),
  ("count_go122_amd64.s", "countbodyCase", "sse", [("LEAQ", [(-16), 1]), ("JMP", []), ("PCALIGN", [16])]),
  ("count_go122_amd64.s", "countbodyCase", "sseloop", [("MOVOU", []), ("POR", []), ("PCMPEQB", []), ("PMOVMSKB", []), ("POPCNTL", []), ("ADDQ", []), ("ADDQ", [16])]),
  ("count_go122_amd64.s", "countbodyCase", "sseloopentry", [("CMPQ", []), ("JBE", []), ("ANDQ", [15]), ("JZ", []), ("MOVQ", [16]), ("SUBQ", []), ("MOVQ", [65535]), ("SARQ", []), ("SALQ", []), ("MOVOU", []), ("POR", []), ("PCMPEQB", []), ("PMOVMSKB", []), ("ANDQ", []), ("POPCNTL", []), ("ADDQ", [])]),
  ("count_go122_amd64.s", "countbodyCase", "end", [("MOVQ", []), ("RET", [])]),
  ("count_go122_amd64.s", "countbodyCase", "small", [("TESTQ", []), ("JEQ", []), ("LEAQ", [16]), ("TESTW", [4080]), ("JEQ", []), ("MOVB", []), ("MOVQ", [1]), ("SALQ", []), ("SUBQ", [1]), ("MOVOU", []), ("POR", []), ("PCMPEQB", []), ("PMOVMSKB", []), ("ANDQ", []), ("POPCNTL", []), ("MOVQ", []), ("RET", [])]),
  ("count_go122_amd64.s", "countbodyCase", "endzero", [("MOVQ", [0]), ("RET", [])]),
  ("count_go122_amd64.s", "countbodyCase", "endofpage", [("MOVQ", [16]), ("SUBQ", []), ("MOVQ", [65535]), ("SARQ", []), ("SALQ", []), ("MOVOU", [(-16), 1]), ("POR", []), ("PCMPEQB", []), ("PMOVMSKB", []), ("ANDQ", []), ("POPCNTL", []), ("MOVQ", []), ("RET", [])]),
  ("count_go122_amd64.s", "countbodyCase", "avx2", [("PP_ifndef_hasAVX2", []), ("CMPB", [1]), ("JNE", []), ("PP_endif", []), ("VPBROADCASTB", []), ("MOVD", []), ("LEAQ", [(-64), 1]), ("LEAQ", [1]), ("VPBROADCASTB", []), ("PCALIGN", [32])]),
  ("count_go122_amd64.s", "countbodyCase", "avx2_loop", [("VMOVDQU", []), ("VMOVDQU", [32]), ("VPOR", []), ("VPOR", []), ("VPCMPEQB", []), ("VPCMPEQB", []), ("VPMOVMSKB", []), ("VPMOVMSKB", []), ("POPCNTL", []), ("POPCNTL", []), ("ADDQ", []), ("ADDQ", []), ("ADDQ", [64]), ("CMPQ", []), ("JLE", []), ("CMPQ", []), ("JEQ", []), ("MOVQ", []), ("VMOVDQU", []), ("VMOVDQU", [32]), ("VPOR", []), ("VPOR", []), ("VPCMPEQB", []), ("VPCMPEQB", []), ("VPMOVMSKB", []), ("VPMOVMSKB", []), ("VZEROUPPER", []), ("SALQ", [32]), ("ORQ", []), ("ANDQ", [63]), ("MOVQ", [64]), ("SUBQ", []), ("MOVQ", [18446744073709551615]), ("SALQ", []), ("ANDQ", []), ("POPCNTQ", []), ("ADDQ", []), ("MOVQ", []), ("RET", [])]),
  ("count_go122_amd64.s", "countbodyCase", "endavx", [("VZEROUPPER", []), ("MOVQ", []), ("RET", [])]),
  ("count_go122_amd64.s", "countbody", "", [("MOVD", []), ("PUNPCKLBW", []), ("PUNPCKLBW", []), ("PSHUFL", [0]), ("CMPQ", [16]), ("JLT", []), ("MOVQ", [0]), ("MOVQ", []), ("CMPQ", [64]), ("JAE", [])]),
  ("count_go122_amd64.s", "countbody", "sse", [("LEAQ", [(-16), 1]), ("JMP", []), ("PCALIGN", [16])]),
  ("count_go122_amd64.s", "countbody", "sseloop", [("MOVOU", []), ("PCMPEQB", []), ("PMOVMSKB", []), ("POPCNTL", []), ("ADDQ", []), ("ADDQ", [16])]),
  ("count_go122_amd64.s", "countbody", "sseloopentry", [("CMPQ", []), ("JBE", []), ("ANDQ", [15]), ("JZ", []), ("MOVQ", [16]), ("SUBQ", []), ("MOVQ", [65535]), ("SARQ", []), ("SALQ", []), ("MOVOU", []), ("PCMPEQB", []), ("PMOVMSKB", []), ("ANDQ", []), ("POPCNTL", []), ("ADDQ", [])]),
  ("count_go122_amd64.s", "countbody", "end", [("MOVQ", []), ("RET", [])]),
  ("count_go122_amd64.s", "countbody", "small", [("TESTQ", []), ("JEQ", []), ("LEAQ", [16]), ("TESTW", [4080]), ("JEQ", []), ("MOVB", []), ("MOVQ", [1]), ("SALQ", []), ("SUBQ", [1]), ("MOVOU", []), ("PCMPEQB", []), ("PMOVMSKB", []), ("ANDQ", []), ("POPCNTL", []), ("MOVQ", []), ("RET", [])]),
  ("count_go122_amd64.s", "countbody", "endzero", [("MOVQ", [0]), ("RET", [])]),
  ("count_go122_amd64.s", "countbody", "endofpage", [("MOVQ", [16]), ("SUBQ", []), ("MOVQ", [65535]), ("SARQ", []), ("SALQ", []), ("MOVOU", [(-16), 1]), ("PCMPEQB", []), ("PMOVMSKB", []), ("ANDQ", []), ("POPCNTL", []), ("MOVQ", []), ("RET", [])]),
  ("count_go122_amd64.s", "countbody", "avx2", [("PP_ifndef_hasAVX2", []), ("CMPB", [1]), ("JNE", []), ("PP_endif", []), ("MOVD", []), ("LEAQ", [(-64), 1]), ("LEAQ", [1]), ("VPBROADCASTB", []), ("PCALIGN", [32])]),
  ("count_go122_amd64.s", "countbody", "avx2_loop", [("VMOVDQU", []), ("VMOVDQU", [32]), ("VPCMPEQB", []), ("VPCMPEQB", []), ("VPMOVMSKB", []), ("VPMOVMSKB", []), ("POPCNTL", []), ("POPCNTL", []), ("ADDQ", []), ("ADDQ", []), ("ADDQ", [64]), ("CMPQ", []), ("JLE", []), ("CMPQ", []), ("JEQ", []), ("MOVQ", []), ("VMOVDQU", []), ("VMOVDQU", [32]), ("VPCMPEQB", []), ("VPCMPEQB", []), ("VPMOVMSKB", []), ("VPMOVMSKB", []), ("VZEROUPPER", []), ("SALQ", [32]), ("ORQ", []), ("ANDQ", [63]), ("MOVQ", [64]), ("SUBQ", []), ("MOVQ", [18446744073709551615]), ("SALQ", []), ("ANDQ", []), ("POPCNTQ", []), ("ADDQ", []), ("MOVQ", []), ("RET", [])]),
  ("count_go122_amd64.s", "countbody", "endavx", [("VZEROUPPER", []), ("MOVQ", []), ("RET", [])]),
  ("index_non_ascii_go122_amd64.s", "IndexByteNonASCII", "", [("MOVQ", [0]), ("MOVQ", [8]), ("LEAQ", [24]), ("JMP", [])]),
  ("index_non_ascii_go122_amd64.s", "IndexNonASCII", "", [("MOVQ", [0]), ("MOVQ", [8]), ("LEAQ", [16]), ("JMP", [])]),
  ("index_non_ascii_go122_amd64.s", "indexByteBodyNonASCII", "", [("MOVQ", [128]), ("MOVD", []), ("PUNPCKLBW", []), ("PUNPCKLBW", []), ("PSHUFL", [0]), ("CMPQ", [16]), ("JLT", []), ("MOVQ", []), ("CMPQ", [32]), ("JA", [])]),
  ("index_non_ascii_go122_amd64.s", "indexByteBodyNonASCII", "sse", [("LEAQ", [(-16), 1]), ("JMP", []), ("PCALIGN", [16])]),
  ("index_non_ascii_go122_amd64.s", "indexByteBodyNonASCII", "sseloop", [("MOVOU", []), ("PAND", []), ("PMOVMSKB", []), ("BSFL", []), ("JNZ", []), ("ADDQ", [16])]),
  ("index_non_ascii_go122_amd64.s", "indexByteBodyNonASCII", "sseloopentry", [("CMPQ", []), ("JB", []), ("MOVQ", []), ("MOVOU", []), ("PAND", []), ("PMOVMSKB", []), ("BSFL", []), ("JNZ", [])]),
  ("index_non_ascii_go122_amd64.s", "indexByteBodyNonASCII", "failure", [("MOVQ", [(-1)]), ("RET", [])]),
  ("index_non_ascii_go122_amd64.s", "indexByteBodyNonASCII", "ssesuccess", [("SUBQ", []), ("ADDQ", []), ("MOVQ", []), ("RET", [])]),
  ("index_non_ascii_go122_amd64.s", "indexByteBodyNonASCII", "small", [("TESTQ", []), ("JEQ", []), ("LEAQ", [16]), ("TESTW", [4080]), ("JEQ", []), ("MOVOU", []), ("PAND", []), ("PMOVMSKB", []), ("BSFL", []), ("JZ", []), ("CMPL", []), ("JAE", []), ("MOVQ", []), ("RET", [])]),
  ("index_non_ascii_go122_amd64.s", "indexByteBodyNonASCII", "endofpage", [("MOVOU", [(-16), 1]), ("PAND", []), ("PMOVMSKB", []), ("MOVL", []), ("SHLL", []), ("SHRL", [16]), ("BSFL", []), ("JZ", []), ("MOVQ", []), ("RET", [])]),
  ("index_non_ascii_go122_amd64.s", "indexByteBodyNonASCII", "avx2", [("PP_ifndef_hasAVX2", []), ("CMPB", [1]), ("JNE", []), ("PP_endif", []), ("MOVD", []), ("VPBROADCASTB", []), ("MOVD", []), ("LEAQ", [(-32), 1]), ("VPBROADCASTB", []), ("PCALIGN", [32])]),
  ("index_non_ascii_go122_amd64.s", "indexByteBodyNonASCII", "avx2_loop", [("VMOVDQU", []), ("VPAND", []), ("VPCMPEQB", []), ("VPTEST", []), ("JNZ", []), ("ADDQ", [32]), ("CMPQ", []), ("JLT", []), ("MOVQ", []), ("VMOVDQU", []), ("VPAND", []), ("VPCMPEQB", []), ("VPTEST", []), ("JNZ", []), ("VZEROUPPER", []), ("MOVQ", [(-1)]), ("RET", [])]),
  ("index_non_ascii_go122_amd64.s", "indexByteBodyNonASCII", "avx2success", [("VPMOVMSKB", []), ("BSFL", []), ("SUBQ", []), ("ADDQ", []), ("MOVQ", []), ("VZEROUPPER", []), ("RET", [])])
]
end Kern
