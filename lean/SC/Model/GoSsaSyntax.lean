/-!
`GoSsa` syntax: the deep embedding of the go/ssa form of the Go functions of `strcase.go` and
`bytcase/bytcase.go`.  `harness/ssagen` regenerates `SC/Gen/GoSsa.lean` (one `Fn` literal per Go
function, instruction by instruction) from the repository's working tree on every run;
`SC/Model/GoSsa.lean` is the interpreter.
-/
namespace GoSsa

/-- integer types of the Go code (`int` is 64 bits on the verified platform) -/
inductive Ty | i64 | i32 | u8 | u16 | u32 | u64
  deriving DecidableEq, Repr

inductive Bop | add | sub | mul | quo | rem | and | or | xor | shl | shr | andnot | eq | ne | lt | le | gt | ge
  deriving DecidableEq, Repr

/-- run-time values -/
inductive Val
  | int (v : Int)                          -- a value of any integer type, in that type's range
  | bool (b : Bool)
  | str (b : List UInt8) (root off : Nat)  -- a string, or a `[]byte` that is only read: its bytes, and where they lie — `root` is the index of
                                           -- the argument it is a sub-slice of (99: a constant or a fresh string), `off` the offset within it
  | iter (b : List UInt8) (pos : Nat)      -- iterator of `range` over a string
  | arr (vs : List Int)                    -- array of integers (`asciiSet`, `[2]rune`, `[4]byte`)
  | ptr (cell : Nat)                       -- pointer to a local cell
  | eptr (cell i : Nat)                    -- pointer to element `i` of the array in a local cell
  | sl (cell lo hi : Nat)                  -- slice `[lo:hi]` of the array in a local cell
  | gptr (name : String) (i : Nat)         -- pointer to element `i` of a package-level array
  | cptr (vs : List Int)                   -- pointer to an immutable table row (`tables.FoldMap`)
  | celt (vs : List Int) (i : Nat)         -- pointer to element `i` of such a row
  | bptr (b : List UInt8) (i : Nat)        -- pointer to byte `i` of a read-only byte slice
  | nil
  deriving Repr, Inhabited

/-- operands -/
inductive Opd
  | r (n : Nat) | c (v : Int) | b (v : Bool) | s (v : List UInt8) | nil | g (name : String) | bad (msg : String)
  deriving Repr, Inhabited

inductive Instr
  | phi (dst : Nat) (edges : List (Nat × Opd))
  | bin (dst : Nat) (op : Bop) (ty : Ty) (x y : Opd)
  | eqv (dst : Nat) (neg : Bool) (x y : Opd)          -- `==` / `!=` on booleans and pointers
  | not (dst : Nat) (x : Opd)
  | load (dst : Nat) (p : Opd)
  | store (p v : Opd)
  | conv (dst : Nat) (to : Ty) (x : Opd)
  | runeStr (dst : Nat) (x : Opd)                     -- string(rune)
  | copy (dst : Nat) (x : Opd)                        -- ChangeType, string <-> []byte
  | len (dst : Nat) (x : Opd)
  | call (dst : Nat) (f : String) (args : List Opd)
  | extract (dst : Nat) (x : Opd) (i : Nat)
  | index (dst : Nat) (x i : Opd)
  | indexAddr (dst : Nat) (x i : Opd)
  | slice (dst : Nat) (x : Opd) (lo hi : Option Opd)
  | range (dst : Nat) (x : Opd)
  | next (dst : Nat) (it : Opd)
  | alloc (dst : Nat) (init : Val)
  | stuck (msg : String)                              -- outside the modelled subset
  deriving Repr, Inhabited

inductive Term
  | jump (b : Nat)
  | cond (c : Opd) (t e : Nat)
  | ret (vs : List Opd)
  | panic
  deriving Repr, Inhabited

structure Block where
  instrs : List Instr
  term : Term
  deriving Repr, Inhabited

structure Fn where
  name : String
  nparams : Nat
  nregs : Nat
  blocks : List Block
  deriving Repr, Inhabited

abbrev Prog := List Fn

end GoSsa
