import SC.Model.Utf8
/-!
`Asm`: an instruction-level model of the subset of amd64 (Go assembler syntax) that the `len < 16`
paths of the byte kernels use.  Programs are **regenerated from the .s files** by `tools/asmfacts.py`
(`Gen.Asm.small_*`); `Proofs/AsmSmall.lean` proves that running them computes the block model
`Kern.small`, loads included.

State: 64-bit general registers as naturals `< 2^64`, XMM registers as 16 byte lanes, ZF/CF, a read-only
memory `Nat → UInt8`, the list of 16-byte loads performed, and the value written through `R8` (the result slot).
-/
namespace Asm

inductive Reg | AX | BX | CX | DX | SI | DI | R8 | R10 | R11 | R12 | R13
  deriving DecidableEq, Repr
inductive XReg | X0 | X1 | X2
  deriving DecidableEq, Repr
/-- 256-bit registers, as 32 byte lanes.  **Modelling assumption**: `Y_k` and `X_k` are kept in separate register
    files (on the hardware `X_k` is the low half of `Y_k`).  The kernels never read an `X_k` after writing `Y_k` on the
    same path, and never read `Y_k` lanes they did not write with a 256-bit instruction. -/
inductive YReg | Y1 | Y2 | Y3 | Y4 | Y5 | Y6
  deriving DecidableEq, Repr

inductive Instr
  | TESTQ (a b : Reg)
  | TESTW (imm : Nat) (r : Reg)
  | LEAQ (disp : Int) (base : Reg) (dst : Reg)
  | LEAQx (disp : Int) (base idx : Reg) (dst : Reg)   -- LEAQ disp(base)(idx*1), dst
  | ADDQi (imm : Nat) (dst : Reg)
  | ADDQ (src dst : Reg)
  | CMPQ (a b : Reg)
  | MOVQrr (src dst : Reg)
  | JB (l : String)
  | JBE (l : String)
  | ANDQi (imm : Nat) (dst : Reg)
  | ORLi (imm : Nat) (dst : Reg)          -- 32-bit OR, zero-extends
  | MOVD (src : Reg) (dst : XReg)         -- Go's `MOVD r64, Xn` assembles to the 64-bit move: lanes 0..7, rest cleared
                                          -- (found by the per-instruction hardware validation, harness/cmd/asmstep)
  | MOVQrx (src : Reg) (dst : XReg)       -- 64 bits into lanes 0..7, rest cleared
  | PUNPCKLBW (src dst : XReg)
  | PSHUFL (imm : Nat) (src dst : XReg)
  | CMPQi (a : Reg) (imm : Nat)           -- CMPQ a, $imm
  | JLT (l : String) | JA (l : String) | JNE (l : String)
  | VPBROADCASTB (src : XReg) (dst : YReg)                 -- lane 0 of src into all 32 lanes
  | VMOVDQU (disp : Int) (base : Reg) (dst : YReg)         -- 32-byte load
  | VPOR (a b dst : YReg) | VPAND (a b dst : YReg) | VPCMPEQB (a b dst : YReg)
  | VPTEST (a b : YReg)                                    -- ZF := (a AND b) = 0
  | VPMOVMSKB (src : YReg) (dst : Reg)
  | VZEROUPPER
  | POPCNTQ (src dst : Reg)
  | SALQi (imm : Nat) (dst : Reg)
  | ORQ (src dst : Reg)
  | JLE (l : String)
  -- the ABI wrappers (`TEXT ·IndexByte` …): arguments come from the caller's frame, the kernel body is tail-called
  | MOVQarg (name : String) (dst : Reg)   -- MOVQ name+off(FP), dst
  | MOVBarg (name : String) (dst : Reg)   -- MOVB name+off(FP), dst-low-byte (upper bits of dst kept)
  | LEAQret (dst : Reg)                   -- LEAQ ret+off(FP), dst
  | LEAL (disp : Int) (src dst : Reg)     -- 32-bit add of a displacement, zero-extended
  | ADDLi (imm : Int) (dst : Reg)
  | CMPBi (a : Reg) (imm : Nat)           -- CMPB a-low-byte, $imm
  | JLS (l : String) | JHI (l : String)
  | CMPBpopcnt                            -- CMPB ·X86.HasPOPCNT, $1
  | TAIL (sym : String)                   -- JMP sym(SB)
  | CMPBavx2                              -- CMPB ·X86.HasAVX2, $1
  | STUCK                                 -- an instruction outside the modelled subset
  | MOVOU (disp : Int) (base : Reg) (idx : Option Reg) (dst : XReg)
  | POR (src dst : XReg)
  | PAND (src dst : XReg)
  | PCMPEQB (src dst : XReg)
  | PMOVMSKB (src : XReg) (dst : Reg)
  | BSFL (src dst : Reg)
  | CMPL (a b : Reg)
  | MOVL (src dst : Reg)
  | SHLL (cnt dst : Reg)
  | SHRL (imm : Nat) (dst : Reg)
  | MOVQst (src base : Reg)
  | MOVQimm (imm : Int) (base : Reg)
  | MOVB (src dst : Reg)            -- low byte, upper bits of `dst` kept
  | MOVQri (imm : Nat) (dst : Reg)  -- MOVQ $imm, dst
  | SALQ (cnt dst : Reg)            -- count in CL, masked to 6 bits
  | SARQ (cnt dst : Reg)
  | SUBQi (imm : Nat) (dst : Reg)
  | SUBQ (src dst : Reg)
  | ANDQ (src dst : Reg)
  | POPCNTL (src dst : Reg)
  | JEQ (l : String) | JZ (l : String) | JNZ (l : String) | JAE (l : String) | JMP (l : String)
  | RET
  deriving Repr

structure St where
  r : Reg → Nat
  x : XReg → Nat → UInt8
  y : YReg → Nat → UInt8
  zf : Bool
  cf : Bool
  lt : Bool            -- signed "less" of the last compare (SF ≠ OF); only compares update it
  avx2 : Bool          -- the CPU feature flag the kernels test
  popcnt : Bool        -- the CPU feature flag the counting wrappers test
  args : String → Nat  -- the caller's argument frame, by name
  tail : Option String -- the symbol a wrapper tail-called
  mem : Nat → UInt8
  loads : List (Nat × Nat)
  out : Option Int

def W64 : Nat := 2 ^ 64
def W32 : Nat := 2 ^ 32

def setR (s : St) (d : Reg) (v : Nat) : St := { s with r := fun q => if q = d then v else s.r q }
def setX (s : St) (d : XReg) (v : Nat → UInt8) : St := { s with x := fun q => if q = d then v else s.x q }
def setY (s : St) (d : YReg) (v : Nat → UInt8) : St := { s with y := fun q => if q = d then v else s.y q }

/-- all of the low `n` lanes are zero -/
def lanesZero (f : Nat → UInt8) : Nat → Bool
  | 0 => true
  | n+1 => lanesZero f n && f n == 0

/-- PMOVMSKB on the low `n` lanes: bit `j` is the top bit of lane `j` -/
def mask (f : Nat → UInt8) : Nat → Nat
  | 0 => 0
  | n+1 => mask f n + (if f n ≥ 0x80 then 2 ^ n else 0)

/-- BSF: index of the lowest set bit among bits `j, …, j+n-1` -/
def firstBit (v : Nat) : Nat → Nat → Option Nat
  | _, 0 => none
  | j, n+1 => if v.testBit j then some j else firstBit v (j + 1) n

/-- a displacement as a 64-bit two's-complement addend -/
def dispN (d : Int) : Nat := if d < 0 then W64 - (-d).toNat else d.toNat

/-- a displacement as a 32-bit two's-complement addend -/
def disp32 (d : Int) : Nat := if d < 0 then W32 - (-d).toNat else d.toNat

/-- number of set bits among bits `j, …, j+n-1` -/
def cntBits (v : Nat) : Nat → Nat → Nat
  | _, 0 => 0
  | j, n+1 => (if v.testBit j then 1 else 0) + cntBits v (j + 1) n

def addr (s : St) (disp : Int) (base : Reg) (idx : Option Reg) : Nat :=
  (s.r base + (match idx with | some i => s.r i | none => 0) + dispN disp) % W64

/-- a 64-bit value as a signed integer -/
def sgn (v : Nat) : Int := if v < 2 ^ 63 then (v : Int) else (v : Int) - (W64 : Int)

/-- 32-bit addition of a signed constant, zero-extended to 64 bits.  (The constant is the *first* summand: `Nat.add` recurses on its
    second argument, and a kernel conversion check that falls back to unfolding must not meet a 2³²-sized literal there.) -/
def add32 (x : Nat) (d : Int) : Nat := (disp32 d + x % W32) % W32

/-- one instruction; `none` = `RET` (or stuck), `some (st, jump target)` otherwise -/
def step (s : St) : Instr → Option (St × Option String)
  | .TESTQ a b => let v := s.r a &&& s.r b; some ({ s with zf := v == 0, cf := false }, none)
  | .TESTW imm r => let v := (imm &&& s.r r) % 65536; some ({ s with zf := v == 0, cf := false }, none)
  | .LEAQ d b dst => some (setR s dst (addr s d b none), none)
  | .LEAQx d b i dst => some (setR s dst (addr s d b (some i)), none)
  | .ADDQi imm dst => let v := (s.r dst + imm % W64) % W64; some ({ setR s dst v with zf := v == 0 }, none)
  | .ADDQ src dst => let v := (s.r dst + s.r src) % W64; some ({ setR s dst v with zf := v == 0 }, none)
  | .CMPQ a b => some ({ s with zf := s.r a == s.r b, cf := decide (s.r a < s.r b), lt := decide (sgn (s.r a) < sgn (s.r b)) }, none)
  | .MOVQrr src dst => some (setR s dst (s.r src), none)
  | .JB l => some (s, if s.cf then some l else none)
  | .JBE l => some (s, if s.cf || s.zf then some l else none)
  | .ORLi imm dst => some (setR s dst ((s.r dst % W32) ||| (imm % W32)), none)
  | .MOVD src dst => some (setX s dst (fun j => if j < 8 then UInt8.ofNat (s.r src / 256 ^ j % 256) else 0), none)
  | .MOVQrx src dst => some (setX s dst (fun j => if j < 8 then UInt8.ofNat (s.r src / 256 ^ j % 256) else 0), none)
  | .PUNPCKLBW src dst => some (setX s dst (fun j => if j % 2 = 0 then s.x dst (j / 2) else s.x src (j / 2)), none)
  | .PSHUFL imm src dst => some (setX s dst (fun j => s.x src (4 * (imm / 4 ^ (j / 4 % 4) % 4) + j % 4)), none)
  | .CMPQi a imm => some ({ s with zf := s.r a == imm % W64, cf := decide (s.r a < imm % W64),
                                   lt := decide (sgn (s.r a) < sgn (imm % W64)) }, none)
  | .JLT l => some (s, if s.lt then some l else none)
  | .JA l => some (s, if s.cf || s.zf then none else some l)
  | .JNE l => some (s, if s.zf then none else some l)
  | .VPBROADCASTB src dst => some (setY s dst (fun _ => s.x src 0), none)
  | .VMOVDQU d b dst =>
    let a := addr s d b none
    some ({ setY s dst (fun j => s.mem (a + j)) with loads := s.loads ++ [(a, 32)] }, none)
  | .VPOR a b dst => some (setY s dst (fun j => s.y b j ||| s.y a j), none)
  | .VPAND a b dst => some (setY s dst (fun j => s.y b j &&& s.y a j), none)
  | .VPCMPEQB a b dst => some (setY s dst (fun j => if s.y b j = s.y a j then 0xFF else 0), none)
  | .VPTEST a b => some ({ s with zf := lanesZero (fun j => s.y b j &&& s.y a j) 32, cf := false }, none)
  | .VPMOVMSKB src dst => some (setR s dst (mask (s.y src) 32), none)
  | .VZEROUPPER => some (s, none)
  | .POPCNTQ src dst => let v := cntBits (s.r src) 0 64; some ({ setR s dst v with zf := v == 0, cf := false }, none)
  | .SALQi imm dst => some (setR s dst ((s.r dst <<< (imm % 64)) % W64), none)
  | .ORQ src dst => let v := s.r dst ||| s.r src; some ({ setR s dst v with zf := v == 0, cf := false }, none)
  | .JLE l => some (s, if s.lt || s.zf then some l else none)
  | .MOVQarg n dst => some (setR s dst (s.args n % W64), none)
  | .MOVBarg n dst => some (setR s dst (s.r dst / 256 * 256 + s.args n % 256), none)
  | .LEAQret dst => some (setR s dst (s.args "ret" % W64), none)
  | .LEAL d src dst => some (setR s dst (add32 (s.r src) d), none)
  | .ADDLi imm dst => let v := add32 (s.r dst) imm; some ({ setR s dst v with zf := v == 0 }, none)
  | .CMPBi a imm => some ({ s with zf := s.r a % 256 == imm, cf := decide (s.r a % 256 < imm) }, none)
  | .JLS l => some (s, if s.cf || s.zf then some l else none)
  | .JHI l => some (s, if s.cf || s.zf then none else some l)
  | .CMPBpopcnt => some ({ s with zf := s.popcnt, cf := false }, none)
  | .TAIL sym => some ({ s with tail := some sym }, some "$tail")
  | .CMPBavx2 => some ({ s with zf := s.avx2, cf := false }, none)
  | .STUCK => none
  | .ANDQi imm dst => let v := s.r dst &&& imm; some ({ setR s dst v with zf := v == 0, cf := false }, none)
  | .MOVOU d b i dst =>
    let a := addr s d b i
    some ({ setX s dst (fun j => s.mem (a + j)) with loads := s.loads ++ [(a, 16)] }, none)
  | .POR src dst => some (setX s dst (fun j => s.x dst j ||| s.x src j), none)
  | .PAND src dst => some (setX s dst (fun j => s.x dst j &&& s.x src j), none)
  | .PCMPEQB src dst => some (setX s dst (fun j => if s.x dst j = s.x src j then 0xFF else 0), none)
  | .PMOVMSKB src dst => some (setR s dst (mask (s.x src) 16), none)
  | .BSFL src dst =>
    let v := s.r src % W32
    match firstBit v 0 32 with
    | none => some ({ s with zf := true }, none)
    | some k => some ({ setR s dst k with zf := false }, none)
  | .CMPL a b => some ({ s with zf := s.r a % W32 == s.r b % W32, cf := decide (s.r a % W32 < s.r b % W32) }, none)
  | .MOVL src dst => some (setR s dst (s.r src % W32), none)
  | .SHLL cnt dst => some (setR s dst (((s.r dst % W32) <<< (s.r cnt % 32)) % W32), none)
  | .SHRL imm dst => some (setR s dst ((s.r dst % W32) >>> (imm % 32)), none)
  | .MOVQst src _ => some ({ s with out := some (if s.r src < 2 ^ 63 then (s.r src : Int) else (s.r src : Int) - (W64 : Int)) }, none)
  | .MOVQimm imm _ => some ({ s with out := some imm }, none)
  | .MOVB src dst => some (setR s dst (s.r dst / 256 * 256 + s.r src % 256), none)
  | .MOVQri imm dst => some (setR s dst (imm % W64), none)
  | .SALQ cnt dst => some (setR s dst ((s.r dst <<< (s.r cnt % 64)) % W64), none)
  | .SARQ cnt dst =>
    let v := s.r dst
    let c := s.r cnt % 64
    some (setR s dst (if v < 2 ^ 63 then v >>> c else W64 - 1 - ((W64 - 1 - v) >>> c)), none)
  | .SUBQi imm dst => let v := (s.r dst + W64 - imm % W64) % W64; some ({ setR s dst v with zf := v == 0 }, none)
  | .SUBQ src dst => let v := (s.r dst + W64 - s.r src % W64) % W64; some ({ setR s dst v with zf := v == 0 }, none)
  | .ANDQ src dst => let v := s.r dst &&& s.r src; some ({ setR s dst v with zf := v == 0, cf := false }, none)
  | .POPCNTL src dst => let v := cntBits (s.r src % W32) 0 32; some ({ setR s dst v with zf := v == 0, cf := false }, none)
  | .JEQ l => some (s, if s.zf then some l else none)
  | .JZ l => some (s, if s.zf then some l else none)
  | .JNZ l => some (s, if s.zf then none else some l)
  | .JAE l => some (s, if s.cf then none else some l)
  | .JMP l => some (s, some l)
  | .RET => none

abbrev Prog := List (String × List Instr)

/-- the instructions from label `l` to the end of the program text (execution falls through into the following labels) -/
def block : Prog → String → List Instr
  | [], _ => []
  | (l', is) :: rest, l => if l' == l then is ++ (rest.map (·.2)).flatten else block rest l

/-- run from a point of the program text; a jump continues at the target label; the end of the text stops -/
def run (p : Prog) : Nat → List Instr → St → St
  | 0, _, s => s
  | _, [], s => s
  | fuel+1, i :: rest, s =>
    match step s i with
    | none => s
    | some (s', none) => run p fuel rest s'
    | some (s', some l) => run p fuel (block p l) s'

end Asm
