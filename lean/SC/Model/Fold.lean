import SC.Model.Tree
import SC.Gen.Tables121
import SC.Gen.Tables116
import SC.Gen.Unicode
/-!
`internal/tables`: the five look-up functions, written as the Go code is, over the regenerated
tables.  `u` is the `uint32(r)` the Go code computes; the functions are total on `Nat`.

The `…Of` versions take the table, seed and shift as arguments (so that both shipped table files
can be stated about); the plain names are the Unicode-15 file `tables_go121.go`, which is the one
the installed toolchain compiles.
-/
namespace Fold

/-- `(u * seed) >> shift` in `uint32` -/
def hashMul (seed shift u : Nat) : Nat := ((u * seed) % 4294967296) >>> shift

/-- generic shape of the Go look-up `p := tbl[h]; if p.From == u { r = p.To }` -/
def lookupOr (t : T) (h u : Nat) : Nat :=
  match t.get h with
  | (a, b) => if a = u then b else u

/-- tables.CaseFold -/
def caseFoldOf (t : T) (seed shift u : Nat) : Nat :=
  forceNat (hashMul seed shift u) fun h => lookupOr t h u

/-- tables.FoldMap: `some` of the four `uint16` when the slot's first element equals `u` -/
def foldMapOf (t : T4) (seed shift u : Nat) : Option (Nat × Nat × Nat × Nat) :=
  forceNat (hashMul seed shift u) fun h =>
  match t.get h with
  | (a, b, c, d) => if a = u then some (a, b, c, d) else none

/-- tables.FoldMapExcludingUpperLower -/
def foldsExclOf (t : T3) (seed shift r : Nat) : Nat × Nat :=
  forceNat (hashMul seed shift r) fun h =>
  match t.get h with
  | (k, a0, a1) => if k = r then (a0, a1) else (0, 0)

/-- tables.toUpperLowerSpecial -/
def toUpperLowerSpecial (r : Nat) : Nat × Nat × Bool :=
  if r = 0x1C5 then (0x1C4, 0x1C6, true)
  else if r = 0x1C8 then (0x1C7, 0x1C9, true)
  else if r = 0x1CB then (0x1CA, 0x1CC, true)
  else if r = 0x1F2 then (0x1F1, 0x1F3, true)
  else (r, r, false)

/-- `((u | u<<24) * seed) >> shift` in `uint32` -/
def hashULOf (seed shift u : Nat) : Nat :=
  (((u ||| ((u <<< 24) % 4294967296)) * seed) % 4294967296) >>> shift

/-- tables.ToUpperLower on a non-negative rune value -/
def toUpperLowerOf (t : T) (seed shift r : Nat) : Nat × Nat × Bool :=
  if r ≤ 0x80 then
    if 0x41 ≤ r ∧ r ≤ 0x5A then (r, r + 32, true)
    else if 0x61 ≤ r ∧ r ≤ 0x7A then (r - 32, r, true)
    else (r, r, false)
  else
    forceNat (hashULOf seed shift r) fun h =>
    match t.get h with
    | (p0, p1) => if p0 = r ∨ p1 = r then (p0, p1, true) else toUpperLowerSpecial r

-- the table file the toolchain compiles (go1.21+: Unicode 15)
def hashCF (u : Nat) : Nat := hashMul Gen.T121.cfSeed Gen.T121.cfShift u
def caseFold (u : Nat) : Nat := forceNat (hashCF u) fun h => lookupOr Gen.T121.cfTree h u
def hashFM (u : Nat) : Nat := hashMul Gen.T121.fmSeed Gen.T121.fmShift u
def foldMap (u : Nat) : Option (Nat × Nat × Nat × Nat) := foldMapOf Gen.T121.fmTree Gen.T121.fmSeed Gen.T121.fmShift u
def hashFME (u : Nat) : Nat := hashMul Gen.T121.fmeSeed Gen.T121.fmeShift u
def foldsExcl (r : Nat) : Nat × Nat :=
  forceNat (hashFME r) fun h =>
  match Gen.T121.fmeTree.get h with
  | (k, a0, a1) => if k = r then (a0, a1) else (0, 0)
def hashUL (u : Nat) : Nat := hashULOf Gen.T121.ulSeed Gen.T121.ulShift u
def toUpperLower (r : Nat) : Nat × Nat × Bool :=
  if r ≤ 0x80 then
    if 0x41 ≤ r ∧ r ≤ 0x5A then (r, r + 32, true)
    else if 0x61 ≤ r ∧ r ≤ 0x7A then (r - 32, r, true)
    else (r, r, false)
  else
    forceNat (hashUL r) fun h =>
    match Gen.T121.ulTree.get h with
    | (p0, p1) => if p0 = r ∨ p1 = r then (p0, p1, true) else toUpperLowerSpecial r

-- the Unicode-13 file (go < 1.21); only C03 talks about it
def caseFold116 (u : Nat) : Nat := caseFoldOf Gen.T116.cfTree Gen.T116.cfSeed Gen.T116.cfShift u
def foldMap116 (u : Nat) := foldMapOf Gen.T116.fmTree Gen.T116.fmSeed Gen.T116.fmShift u
def foldsExcl116 (u : Nat) := foldsExclOf Gen.T116.fmeTree Gen.T116.fmeSeed Gen.T116.fmeShift u
def toUpperLower116 (u : Nat) := toUpperLowerOf Gen.T116.ulTree Gen.T116.ulSeed Gen.T116.ulShift u

/-- candidate test from an upper/lower pair and the extra folds (no tables involved) -/
def candOf (ul : Nat × Nat) (fe : Nat × Nat) (c : Nat) : Bool :=
  c == ul.1 || c == ul.2 || (fe.1 != 0 && (c == fe.1 || c == fe.2))

/-- the upper/lower pair `Index`/`bruteForceIndexUnicode` use for a needle rune (with the İ/ı hack) -/
def ulOf (r : Nat) : Nat × Nat :=
  if r = 0x130 ∨ r = 0x131 then (r, r) else ((toUpperLower r).1, (toUpperLower r).2.1)

/-- the candidate test `Index`/`bruteForceIndexUnicode` build for a needle rune `r` -/
def cand (r c : Nat) : Bool := candOf (ulOf r) (foldsExcl r) c

/-! The toolchain's `unicode` package (dumped by the translator): the definition of "orbit". -/

/-- least member of the `unicode.SimpleFold` orbit of `u` -/
def orbMin (u : Nat) : Nat :=
  match Gen.Uni.orbTree.get u with
  | (a, b) => if b = 1 then a else u

/-- unicode.SimpleFold -/
def next (u : Nat) : Nat :=
  match Gen.Uni.nextTree.get u with
  | (a, b) => if b = 1 then a else u

/-- `u` has a non-trivial orbit -/
def inK (u : Nat) : Bool := (Gen.Uni.orbTree.get u).2 == 1

/-- the class of an orbit minimum: at most four members -/
def cls (m : Nat) : List Nat :=
  forceNat (next m) fun a => forceNat (next a) fun b => forceNat (next b) fun c => [m, a, b, c]

/-- (unicode.ToUpper, unicode.ToLower) -/
def uniUpperLower (u : Nat) : Nat × Nat :=
  match Gen.Uni.ulTree.get u with
  | (a, b) => if a = 0 ∧ b = 0 then (u, u) else (a, b)

end Fold
