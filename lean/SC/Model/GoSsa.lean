import SC.Model.GoSsaSyntax
import SC.Model.Algo
import SC.Gen.Consts
/-!
`GoSsa`: an interpreter for the go/ssa form of the Go functions of `strcase.go` / `bytcase/bytcase.go`.
The programs (`Gen.GoSsa.str`, `Gen.GoSsa.byt`) are **regenerated from the repository's working tree on
every run** by `harness/ssagen`; `call` runs them.

Semantics (the trusted statement of what each go/ssa instruction does)
* integers: a value of integer type `t` is an `Int` in `t`'s range; `+ - * << conversions` wrap
  (`wrap`), `/ %` truncate and panic on a zero divisor, shifts by a count ≥ the width give 0 / the sign,
  bitwise operators act on the two's-complement representation;
* strings and read-only byte slices are byte lists; indexing and slicing are **bounds-checked**
  (`Res.panic` where Go would panic), `range`/`next` decode as `utf8.DecodeRuneInString` does;
* local arrays (`asciiSet`, `[2]rune`, `[4]byte`) live in heap cells; a `store` is possible only through a
  pointer into such a cell — a store through anything else (an argument, a package-level table) is
  `Res.stuck`, so the model cannot express a write to shared state;
* calls to functions of the same package are interpreted; calls into `internal/tables`, `unicode/utf8`,
  `strings`/`bytes` and `internal/bytealg` are the models the algorithm layer uses (`Fold.*`, `Utf8.*`,
  `A.std*`, `A.k*`) — tied to the real code elsewhere (exhaustive table correspondence, C13/C14);
* every instruction and every block transfer costs one unit of fuel (`Res.nofuel` when it runs out).
-/
namespace GoSsa
open Utf8

def bits : Ty → Nat
  | .i64 => 64 | .i32 => 32 | .u8 => 8 | .u16 => 16 | .u32 => 32 | .u64 => 64
def signed : Ty → Bool
  | .i64 => true | .i32 => true | _ => false

/-- the two's-complement representation of a value -/
def toU (t : Ty) (v : Int) : Nat := (v % ((2 ^ bits t : Nat) : Int)).toNat

/-- reduce an integer to type `t`'s range -/
def wrap (t : Ty) (v : Int) : Int :=
  let u := toU t v
  if signed t && u ≥ 2 ^ (bits t - 1) then (u : Int) - ((2 ^ bits t : Nat) : Int) else (u : Int)

inductive Res
  | ok (vs : List Val) (heap : Array Val)
  | panic
  | nofuel
  | stuck (msg : String)
  deriving Repr, Inhabited

/-- binary operators on integers of type `t`; `none` = run-time panic -/
def binop (op : Bop) (t : Ty) (x y : Int) : Option Val :=
  match op with
  | .add => some (.int (wrap t (x + y)))
  | .sub => some (.int (wrap t (x - y)))
  | .mul => some (.int (wrap t (x * y)))
  | .quo => if y = 0 then none else some (.int (wrap t (Int.tdiv x y)))
  | .rem => if y = 0 then none else some (.int (wrap t (Int.tmod x y)))
  | .and => some (.int (wrap t ((toU t x &&& toU t y : Nat) : Int)))
  | .or => some (.int (wrap t ((toU t x ||| toU t y : Nat) : Int)))
  | .xor => some (.int (wrap t ((toU t x ^^^ toU t y : Nat) : Int)))
  | .andnot => some (.int (wrap t ((toU t x &&& (2 ^ bits t - 1 - toU t y) : Nat) : Int)))
  | .shl => if y < 0 then none else
      if y ≥ 64 then some (.int 0) else some (.int (wrap t ((toU t x <<< y.toNat : Nat) : Int)))
  | .shr => if y < 0 then none else
      if y ≥ 64 then some (.int (if x < 0 then -1 else 0)) else some (.int (x / ((2 ^ y.toNat : Nat) : Int)))
  | .eq => some (.bool (decide (x = y)))
  | .ne => some (.bool (decide (x ≠ y)))
  | .lt => some (.bool (x < y))
  | .le => some (.bool (x ≤ y))
  | .gt => some (.bool (x > y))
  | .ge => some (.bool (x ≥ y))

/-! ### Go's `unicode/utf8` on the full `int32` range -/
def validRuneGo (r : Int) : Bool := (0 ≤ r && r < 0xD800) || (0xDFFF < r && r ≤ 0x10FFFF)
def runeLenGo (r : Int) : Int :=
  if r < 0 then -1 else if r ≤ 0x7F then 1 else if r ≤ 0x7FF then 2
  else if 0xD800 ≤ r && r ≤ 0xDFFF then -1
  else if r ≤ 0xFFFF then 3 else if r ≤ 0x10FFFF then 4 else -1
/-- `string(r)` / `utf8.EncodeRune`: an invalid rune is encoded as U+FFFD -/
def encodeGo (r : Int) : Bytes := if validRuneGo r then encode r.toNat else [0xEF, 0xBF, 0xBD]

def toU32 (r : Int) : Nat := (r % 4294967296).toNat

/-- the platform configuration the regenerated programs were type-checked for -/
def cfg (byt : Bool) : A.Cfg :=
  { pkg := if byt then .byt else .str, native := true, arm64 := false,
    maxBruteForce := if byt then Gen.Consts.bytMaxBruteForce else Gen.Consts.strMaxBruteForce,
    maxLen := if byt then Gen.Consts.bytMaxLen else Gen.Consts.strMaxLen,
    primeRK := if byt then Gen.Consts.bytPrimeRK else Gen.Consts.strPrimeRK }

/-- package-level arrays the code reads -/
def globalArr (byt : Bool) (name : String) : Option (List Nat) :=
  if name == "_lower" then some (if byt then Gen.Consts.bytLower else Gen.Consts.strLower) else none

abbrev Heap := Array Val

/-- the bytes a string / slice value denotes -/
def bytesOf (h : Heap) : Val → Option Bytes
  | .str b _ _ => some b
  | .nil => some []
  | .sl c lo hi =>
    match h.getD c .nil with
    | .arr vs => some (((vs.drop lo).take (hi - lo)).map fun v => UInt8.ofNat v.toNat)
    | _ => none
  | _ => none

def intOf : Val → Option Int
  | .int v => some v
  | _ => none

def okInt (v : Int) (h : Heap) : Option Res := some (.ok [.int v] h)
def okBool (b : Bool) (h : Heap) : Option Res := some (.ok [.bool b] h)

/-- calls that leave the package: `none` = not a known external function -/
def builtin (byt : Bool) (f : String) (args : List Val) (h : Heap) : Option Res :=
  let b1 := (args.head?.bind (bytesOf h)).getD []
  let b2 := ((args.getD 1 .nil |> bytesOf h)).getD []
  let i1 := (args.head?.bind intOf).getD 0
  let i2 := ((args.getD 1 .nil |> intOf)).getD 0
  match f with
  | "tables.CaseFold" =>
    let u := toU32 i1; let fo := Fold.caseFold u
    okInt (if fo = u then i1 else (fo : Int)) h
  | "tables.FoldMap" =>
    match Fold.foldMap (toU32 i1) with
    | none => some (.ok [.nil] h)
    | some (a, b, c, d) => some (.ok [.cptr [a, b, c, d]] h)
  | "tables.FoldMapExcludingUpperLower" =>
    let p := Fold.foldsExcl (toU32 i1)
    some (.ok [.arr [p.1, p.2]] h)
  | "tables.ToUpperLower" =>
    if i1 < 0 then some (.ok [.int i1, .int i1, .bool false] h) else
    let p := Fold.toUpperLower i1.toNat
    some (.ok [.int p.1, .int p.2.1, .bool p.2.2] h)
  | "unicode/utf8.DecodeRuneInString" | "unicode/utf8.DecodeRune" =>
    let p := decodeRune b1; some (.ok [.int p.1, .int p.2] h)
  | "unicode/utf8.DecodeLastRuneInString" | "unicode/utf8.DecodeLastRune" =>
    let p := decodeLast b1; some (.ok [.int p.1, .int p.2] h)
  | "unicode/utf8.RuneCountInString" | "unicode/utf8.RuneCount" => okInt (dec b1).length h
  | "unicode/utf8.RuneLen" => okInt (runeLenGo i1) h
  | "unicode/utf8.ValidRune" => okBool (validRuneGo i1) h
  | "unicode/utf8.EncodeRune" =>
    -- writes the encoding through the slice (a local array); panics if it does not fit
    match args.head? with
    | some (.sl c lo hi) =>
      let e := encodeGo i2
      if hi - lo < e.length then some .panic else
      match h.getD c .nil with
      | .arr vs =>
        let vs' := vs.take lo ++ e.map (fun b => (b.toNat : Int)) ++ vs.drop (lo + e.length)
        some (.ok [.int e.length] (h.setIfInBounds c (.arr vs')))
      | _ => some (.stuck "EncodeRune: not an array cell")
    | _ => some (.stuck "EncodeRune: destination is not a local slice")
  | "strings.Index" | "bytes.Index" | "bytealg.IndexString" | "bytealg.Index" => okInt (A.bytesIndex b1 b2) h
  | "strings.IndexByte" | "bytes.IndexByte" => okInt (A.stdIndexByte b1 (UInt8.ofNat i2.toNat)) h
  | "strings.LastIndexByte" | "bytes.LastIndexByte" => okInt (A.stdLastIndexByte b1 (UInt8.ofNat i2.toNat)) h
  | "bytealg.IndexByteString" | "bytealg.IndexByte" => okInt (A.kIndexByte b1 (UInt8.ofNat i2.toNat)) h
  | "bytealg.CountString" | "bytealg.Count" => okInt (A.kCount b1 (UInt8.ofNat i2.toNat)) h
  | "bytealg.IndexNonASCII" | "bytealg.IndexByteNonASCII" => okInt (A.kIndexNonASCII b1) h
  | "bytealg.Cutover" => if i1 < 0 then some (.stuck "Cutover of a negative count") else okInt (A.cutover (cfg byt) i1.toNat) h
  | _ => none

structure Frame where
  fn : Fn
  env : Array (List Val)
  cur : Nat
  code : List Instr
  term : Term
  deriving Inhabited

def Frame.val (fr : Frame) : Opd → Val
  | .r n => (fr.env.getD n []).headD .nil
  | .c v => .int v
  | .b v => .bool v
  | .s v => .str v 99 0
  | .nil => .nil
  | .g n => .gptr n 0
  | .bad _ => .nil

def Frame.set (fr : Frame) (dst : Nat) (v : Val) : Frame := { fr with env := fr.env.setIfInBounds dst [v] }
def Frame.setL (fr : Frame) (dst : Nat) (vs : List Val) : Frame := { fr with env := fr.env.setIfInBounds dst vs }

/-- the φ-instructions that open a block, and the rest of it -/
def splitPhis : List Instr → List (Nat × List (Nat × Opd)) × List Instr
  | .phi d es :: rest => let p := splitPhis rest; ((d, es) :: p.1, p.2)
  | is => ([], is)

def edgeOpd (es : List (Nat × Opd)) (pred : Nat) : Opd :=
  match es.find? (fun e => e.1 == pred) with
  | some e => e.2
  | none => .bad "no phi edge"

/-- transfer control to block `b`: all φs read the environment of the edge's source, then are assigned together -/
def Frame.goto (fr : Frame) (b : Nat) : Frame :=
  let blk := fr.fn.blocks.getD b ⟨[.stuck "no such block"], .panic⟩
  let p := splitPhis blk.instrs
  let vals := p.1.map fun (d, es) => (d, fr.val (edgeOpd es fr.cur))
  { fr with env := vals.foldl (fun e (d, v) => e.setIfInBounds d [v]) fr.env, cur := b, code := p.2, term := blk.term }

def Frame.entry (fn : Fn) (args : List Val) : Frame :=
  let env0 : Array (List Val) := Array.replicate fn.nregs []
  let env := (args.zipIdx).foldl (fun e (v, i) => e.setIfInBounds i [v]) env0
  let blk := fn.blocks.getD 0 ⟨[.stuck "no entry block"], .panic⟩
  { fn := fn, env := env, cur := 0, code := blk.instrs, term := blk.term }

inductive Step
  | next (fr : Frame) (h : Heap)
  | panic
  | stuck (msg : String)

/-- one instruction other than a call -/
def step (byt : Bool) (fr : Frame) (h : Heap) : Instr → Step
  | .phi _ _ => .stuck "phi inside a block"
  | .bin d op t x y =>
    match fr.val x, fr.val y with
    | .int a, .int b =>
      match binop op t a b with
      | some v => .next (fr.set d v) h
      | none => .panic
    | _, _ => .stuck "binop on non-integers"
  | .eqv d neg x y =>
    let r : Option Bool := match fr.val x, fr.val y with
      | .bool a, .bool b => some (a == b)
      | .nil, .nil => some true
      | .nil, .cptr _ => some false
      | .cptr _, .nil => some false
      | _, _ => none
    match r with
    | some b => .next (fr.set d (.bool (if neg then !b else b))) h
    | none => .stuck "== on unsupported values"
  | .not d x =>
    match fr.val x with
    | .bool b => .next (fr.set d (.bool !b)) h
    | _ => .stuck "! on a non-boolean"
  | .load d p =>
    match fr.val p with
    | .ptr c => .next (fr.set d (h.getD c .nil)) h
    | .eptr c i =>
      match h.getD c .nil with
      | .arr vs => if i < vs.length then .next (fr.set d (.int (vs.getD i 0))) h else .panic
      | _ => .stuck "load: not an array cell"
    | .gptr n i =>
      match globalArr byt n with
      | some vs => if i < vs.length then .next (fr.set d (.int (vs.getD i 0))) h else .panic
      | none => .stuck "load: unknown global"
    | .cptr vs => .next (fr.set d (.arr vs)) h
    | .celt vs i => if i < vs.length then .next (fr.set d (.int (vs.getD i 0))) h else .panic
    | .bptr b i => if i < b.length then .next (fr.set d (.int (b.getD i 0).toNat)) h else .panic
    | _ => .stuck "load through a non-pointer"
  | .store p v =>
    match fr.val p with
    | .ptr c => if c < h.size then .next fr (h.setIfInBounds c (fr.val v)) else .stuck "store: no such cell"
    | .eptr c i =>
      match h.getD c .nil, fr.val v with
      | .arr vs, .int x => if i < vs.length then .next fr (h.setIfInBounds c (.arr (vs.set i x))) else .panic
      | _, _ => .stuck "store: not an integer into an array cell"
    | _ => .stuck "store outside the function's own cells"
  | .conv d t x =>
    match fr.val x with
    | .int a => .next (fr.set d (.int (wrap t a))) h
    | _ => .stuck "conversion of a non-integer"
  | .runeStr d x =>
    match fr.val x with
    | .int a => .next (fr.set d (.str (encodeGo a) 99 0)) h
    | _ => .stuck "string(x) of a non-integer"
  | .copy d x => .next (fr.set d (fr.val x)) h
  | .len d x =>
    match fr.val x with
    | .str b _ _ => .next (fr.set d (.int b.length)) h
    | .nil => .next (fr.set d (.int 0)) h
    | .sl _ lo hi => .next (fr.set d (.int (hi - lo : Nat))) h
    | _ => .stuck "len of an unsupported value"
  | .call _ _ _ => .stuck "call"
  | .extract d x i =>
    match x with
    | .r n => .next (fr.set d ((fr.env.getD n []).getD i .nil)) h
    | _ => .stuck "extract from a non-register"
  | .index d x i =>
    match fr.val x, fr.val i with
    | .str b _ _, .int k => if 0 ≤ k ∧ k < b.length then .next (fr.set d (.int (b.getD k.toNat 0).toNat)) h else .panic
    | .arr vs, .int k => if 0 ≤ k ∧ k < vs.length then .next (fr.set d (.int (vs.getD k.toNat 0))) h else .panic
    | _, _ => .stuck "index of an unsupported value"
  | .indexAddr d x i =>
    match fr.val x, fr.val i with
    | .gptr n _, .int k =>
      match globalArr byt n with
      | some vs => if 0 ≤ k ∧ k < vs.length then .next (fr.set d (.gptr n k.toNat)) h else .panic
      | none => .stuck "indexAddr: unknown global"
    | .ptr c, .int k =>
      match h.getD c .nil with
      | .arr vs => if 0 ≤ k ∧ k < vs.length then .next (fr.set d (.eptr c k.toNat)) h else .panic
      | _ => .stuck "indexAddr: not an array cell"
    | .cptr vs, .int k => if 0 ≤ k ∧ k < vs.length then .next (fr.set d (.celt vs k.toNat)) h else .panic
    | .sl c lo hi, .int k => if 0 ≤ k ∧ k < (hi - lo : Nat) then .next (fr.set d (.eptr c (lo + k.toNat))) h else .panic
    | .str b _ _, .int k => if 0 ≤ k ∧ k < b.length then .next (fr.set d (.bptr b k.toNat)) h else .panic
    | .nil, .int _ => .panic
    | _, _ => .stuck "indexAddr of an unsupported value"
  | .slice d x lo hi =>
    let lo? : Option Int := match lo with | none => some 0 | some o => intOf (fr.val o)
    match fr.val x with
    | .str b root off =>
      let hi? : Option Int := match hi with | none => some b.length | some o => intOf (fr.val o)
      match lo?, hi? with
      | some l, some u =>
        if 0 ≤ l ∧ l ≤ u ∧ u ≤ b.length then .next (fr.set d (.str ((b.drop l.toNat).take (u.toNat - l.toNat)) root (off + l.toNat))) h else .panic
      | _, _ => .stuck "slice bounds are not integers"
    | .nil =>
      match lo?, (match hi with | none => some (0 : Int) | some o => intOf (fr.val o)) with
      | some l, some u => if l = 0 ∧ u = 0 then .next (fr.set d .nil) h else .panic
      | _, _ => .stuck "slice bounds are not integers"
    | .ptr c =>
      match h.getD c .nil with
      | .arr vs =>
        let hi? : Option Int := match hi with | none => some vs.length | some o => intOf (fr.val o)
        match lo?, hi? with
        | some l, some u => if 0 ≤ l ∧ l ≤ u ∧ u ≤ vs.length then .next (fr.set d (.sl c l.toNat u.toNat)) h else .panic
        | _, _ => .stuck "slice bounds are not integers"
      | _ => .stuck "slice: not an array cell"
    | .sl c l0 h0 =>
      match h.getD c .nil with
      | .arr vs =>
        let hi? : Option Int := match hi with | none => some ((h0 - l0 : Nat) : Int) | some o => intOf (fr.val o)
        match lo?, hi? with
        | some l, some u =>
          -- re-slicing may extend to the capacity (the end of the array)
          if 0 ≤ l ∧ l ≤ u ∧ l0 + u.toNat ≤ vs.length then .next (fr.set d (.sl c (l0 + l.toNat) (l0 + u.toNat))) h else .panic
        | _, _ => .stuck "slice bounds are not integers"
      | _ => .stuck "slice: not an array cell"
    | _ => .stuck "slice of an unsupported value"
  | .range d x =>
    match fr.val x with
    | .str b _ _ => .next (fr.set d (.iter b 0)) h
    | _ => .stuck "range over a non-string"
  | .next d it =>
    match it with
    | .r n =>
      match fr.val it with
      | .iter b pos =>
        if pos ≥ b.length then .next (fr.setL d [.bool false, .int 0, .int 0]) h
        else
          let p := decodeRune (b.drop pos)
          .next ((fr.set n (.iter b (pos + p.2))).setL d [.bool true, .int pos, .int p.1]) h
      | _ => .stuck "next of a non-iterator"
    | _ => .stuck "next of a non-register"
  | .alloc d init => .next (fr.set d (.ptr h.size)) (h.push init)
  | .stuck m => .stuck m

/-- run a frame to its `return` -/
def run (p : Prog) (byt : Bool) : Nat → Frame → Heap → Res
  | 0, _, _ => .nofuel
  | fuel+1, fr, h =>
    match fr.code with
    | [] =>
      match fr.term with
      | .jump b => run p byt fuel (fr.goto b) h
      | .cond c t e =>
        match fr.val c with
        | .bool true => run p byt fuel (fr.goto t) h
        | .bool false => run p byt fuel (fr.goto e) h
        | _ => .stuck "if on a non-boolean"
      | .ret vs => .ok (vs.map fr.val) h
      | .panic => .panic
    | .call d f args :: rest =>
      let vals := args.map fr.val
      match builtin byt f vals h with
      | some (.ok vs h') => run p byt fuel { fr.setL d vs with code := rest } h'
      | some e => e
      | none =>
        match p.find? (fun fn => fn.name == f) with
        | none => .stuck ("no such function: " ++ f)
        | some fn =>
          match run p byt fuel (Frame.entry fn vals) h with
          | .ok vs h' => run p byt fuel { fr.setL d vs with code := rest } h'
          | e => e
    | i :: rest =>
      match step byt fr h i with
      | .next fr' h' => run p byt fuel { fr' with code := rest } h'
      | .panic => .panic
      | .stuck m => .stuck m

/-- call function `f` of program `p` -/
def call (p : Prog) (byt : Bool) (fuel : Nat) (f : String) (args : List Val) : Res :=
  match p.find? (fun fn => fn.name == f) with
  | none => .stuck ("no such function: " ++ f)
  | some fn => run p byt fuel (Frame.entry fn args) #[]

end GoSsa
