import SC.Gen.AsmFacts
/-!
Linking the regenerated programs: an assembly entry point is its ABI wrapper followed by the kernel body the wrapper
tail-calls (`JMP body<>(SB)`).
-/
namespace Asm

/-- the kernel bodies by symbol name -/
def bodyOf : String → Option Prog
  | "indexbytebody" => some Gen.Asm.body_indexbytebody
  | "indexbytebodyCase" => some Gen.Asm.body_indexbytebodyCase
  | "indexByteBodyNonASCII" => some Gen.Asm.body_indexByteBodyNonASCII
  | "countbody" => some Gen.Asm.body_countbody
  | "countbodyCase" => some Gen.Asm.body_countbodyCase
  | _ => none

/-- a call of an assembly entry point: run the wrapper, then the body it tail-calls from its first instruction -/
def call (w : Prog) (f : Nat) (s : St) : St :=
  let s1 := run w f (block w "entry") s
  match s1.tail.bind bodyOf with
  | some p => run p f (block p "entry") s1
  | none => s1

end Asm
