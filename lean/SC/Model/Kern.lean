import SC.Model.Algo
/-!
`internal/bytealg`: the portable Go implementations (`indexbyte_generic.go`, `count_generic.go`,
`index_non_ascii_generic.go`, `countGeneric` of `count_amd64.go` — the no-POPCNT fall-back), written
as the Go code is.  The assembly kernels are modelled at block level in `SC/Proofs/Kern*.lean`.
-/
namespace Kern
open Utf8

/-- `for i, cc := range s { if cc|' ' == c { return i } }` -/
def loopIndexOr (c : UInt8) : Bytes → Nat → Int
  | [], _ => -1
  | b :: rest, i => if (b ||| 0x20) = c then (i : Int) else loopIndexOr c rest (i + 1)

/-- indexbyte_generic.go: IndexByte / IndexByteString -/
def genIndexByte (s : Bytes) (c : UInt8) : Int :=
  if ¬ A.isAlpha c then A.stdIndexByte s c else loopIndexOr (c ||| 0x20) s 0

/-- count_generic.go / countGeneric: Count / CountString -/
def genCount (s : Bytes) (c : UInt8) : Nat :=
  if A.isAlpha c then (s.filter fun b => (b ||| 0x20) == (c ||| 0x20)).length
  else (s.filter fun b => b == c).length

/-- index_non_ascii_generic.go -/
def genIndexNonASCII : Bytes → Nat → Int
  | [], _ => -1
  | b :: rest, i => if b &&& 0x80 ≠ 0 then (i : Int) else genIndexNonASCII rest (i + 1)

end Kern
