import SC.Model.Utf8
import SC.Model.Fold
import SC.Model.Spec
/-!
`Std`: a transliteration of the Go standard library's `strings.EqualFold` / `bytes.EqualFold`
(go1.26 `src/strings/strings.go`, `src/bytes/bytes.go`), over the toolchain's `unicode.SimpleFold`
(`Fold.next`, regenerated from the installed `unicode` package on every run).

`none` stands for "the orbit walk did not terminate within the fuel" (never happens: theorem
`Std.equalFold_eq`).  Tied to the real functions by the correspondence run (third driver column).
-/
namespace Std
open Utf8 Fold

/-- `r := unicode.SimpleFold(sr); for r != sr && r < tr { r = unicode.SimpleFold(r) }; r == tr` -/
def walk (sr tr : Nat) : Nat → Nat → Option Bool
  | 0, _ => none
  | f+1, r => if r ≠ sr ∧ r < tr then walk sr tr f (next r) else some (r == tr)

/-- the body of the rune loop after both runes are extracted -/
def runeEq (sr tr : Nat) : Option Bool :=
  if tr = sr then some true else
  let lo := if tr < sr then tr else sr
  let hi := if tr < sr then sr else tr
  if hi < 0x80 then some (decide (0x41 ≤ lo ∧ lo ≤ 0x5A ∧ hi = lo + 0x20))
  else walk lo hi 8 (next lo)

/-- label `hasUnicode` of strings.EqualFold: `for _, sr := range s { if len(t) == 0 {return false}; … }; return len(t) == 0` -/
def runeLoopS : Nat → Bytes → Bytes → Option Bool
  | 0, _, _ => none
  | _, [], t => some (t.length == 0)
  | _, _ :: _, [] => some false
  | f+1, a :: s, c :: t =>
    let p := decodeRune (a :: s)
    let q := decodeRune (c :: t)
    match runeEq p.1 q.1 with
    | none => none
    | some false => some false
    | some true => runeLoopS f ((a :: s).drop p.2) ((c :: t).drop q.2)

/-- label `hasUnicode` of bytes.EqualFold: `for len(s) != 0 && len(t) != 0 { … }; return len(s) == len(t)` -/
def runeLoopB : Nat → Bytes → Bytes → Option Bool
  | 0, _, _ => none
  | f+1, a :: s, c :: t =>
    let p := decodeRune (a :: s)
    let q := decodeRune (c :: t)
    match runeEq p.1 q.1 with
    | none => none
    | some false => some false
    | some true => runeLoopB f ((a :: s).drop p.2) ((c :: t).drop q.2)
  | _, s, t => some (s.length == t.length)

/-- the ASCII fast path, falling into `hasUnicode` on the first byte ≥ 0x80 in either string -/
def asciiLoop (rl : Bytes → Bytes → Option Bool) : Bytes → Bytes → Option Bool
  | b :: s, c :: t =>
    if (b ||| c) ≥ 0x80 then rl (b :: s) (c :: t)
    else if c = b then asciiLoop rl s t
    else
      let lo := if c < b then c else b
      let hi := if c < b then b else c
      if 0x41 ≤ lo ∧ lo ≤ 0x5A ∧ hi = lo + 0x20 then asciiLoop rl s t else some false
  | s, t => some (s.length == t.length)

def equalFoldS (s t : Bytes) : Option Bool := asciiLoop (runeLoopS (s.length + 1)) s t
def equalFoldB (s t : Bytes) : Option Bool := asciiLoop (runeLoopB (s.length + 1)) s t

end Std

/-!
## The other namesakes of package `strings` / `bytes` (C20), as byte-level specifications

Each is the documented semantics of the standard-library function (the fast paths of the real
implementations are not modelled).  They are compared with the real `strings`/`bytes` results on
every generated op (third driver column), for arbitrary bytes.
-/
namespace Std
open Utf8

/-- the code points `for _, r := range s` yields -/
def runes (s : Bytes) : List Nat := (dec s).map (·.1)

/-- strings.Index: least `i` with `s[i:i+len(t)] == t` -/
def index (s t : Bytes) : Int := match Spec.findSub s t with | some k => (k : Int) | none => -1
def lastIndex (s t : Bytes) : Int := match Spec.findSubLast s t with | some k => (k : Int) | none => -1
def contains (s t : Bytes) : Bool := (Spec.findSub s t).isSome
def hasPrefix (s t : Bytes) : Bool := t.isPrefixOf s
def hasSuffix (s t : Bytes) : Bool := t.isSuffixOf s
def trimPrefix (s t : Bytes) : S.Slice := if hasPrefix s t then (t.length, s.length - t.length) else (0, s.length)
def cutPrefix (s t : Bytes) : S.Slice × Bool :=
  if hasPrefix s t then ((t.length, s.length - t.length), true) else ((0, s.length), false)
def trimSuffix (s t : Bytes) : S.Slice := if hasSuffix s t then (0, s.length - t.length) else (0, s.length)
def cutSuffix (s t : Bytes) : S.Slice × Bool :=
  if hasSuffix s t then ((0, s.length - t.length), true) else ((0, s.length), false)
/-- strings.Count: non-overlapping instances; `utf8.RuneCountInString(s) + 1` for an empty separator -/
def count (s t : Bytes) : Nat := if t = [] then (dec s).length + 1 else Spec.countFrom (s.length + 1) s t
def cut (s t : Bytes) : S.Slice × S.Slice × Bool :=
  match Spec.findSub s t with
  | some i => ((0, i), (i + t.length, s.length - (i + t.length)), true)
  | none => ((0, s.length), (0, 0), false)
/-- strings.Compare: lexicographic on bytes -/
def compare (s t : Bytes) : Int := lexCmp (s.map UInt8.toNat) (t.map UInt8.toNat)
def indexByte (s : Bytes) (c : UInt8) : Int := S.firstAt (fun x => x.headD 0 == c) s 0
def lastIndexByte (s : Bytes) (c : UInt8) : Int := S.lastAt (fun x => x.headD 0 == c) s 0
/-- strings.IndexRune -/
def indexRune (s : Bytes) (r : Int) : Int :=
  if 0 ≤ r ∧ r < 0x80 then indexByte s (UInt8.ofNat r.toNat)
  else if r = 0xFFFD then
    match (runes s).findIdx? (· == 0xFFFD) with | some k => (offAt s k : Int) | none => -1
  else if ¬ (0 ≤ r ∧ validRune r.toNat) then -1
  else index s (encode r.toNat)
def containsRune (s : Bytes) (r : Int) : Bool := indexRune s r ≥ 0
/-- strings.IndexAny: first code point of `s` (ill-formed bytes read as U+FFFD) that occurs among the code points of `chars` -/
def indexAny (s cs : Bytes) : Int :=
  match (runes s).findIdx? (fun x => (runes cs).contains x) with | some k => (offAt s k : Int) | none => -1
def lastIndexAny (s cs : Bytes) : Int :=
  match (runes s).reverse.findIdx? (fun x => (runes cs).contains x) with
  | some k => (offAt s ((runes s).length - 1 - k) : Int) | none => -1
def containsAny (s cs : Bytes) : Bool := indexAny s cs ≥ 0

end Std
