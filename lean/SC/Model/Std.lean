import SC.Model.Utf8
import SC.Model.Fold
/-!
`Std`: a transliteration of the Go standard library's `strings.EqualFold` / `bytes.EqualFold`
(go1.26 `src/strings/strings.go`, `src/bytes/bytes.go`), over the toolchain's `unicode.SimpleFold`
(`Fold.next`, regenerated from the installed `unicode` package on every run).

`none` stands for "the orbit walk did not terminate within the fuel" (never happens: theorem
`Std.equalFold_eq`).  Tied to the real functions by the correspondence run (third driver column).
-/
namespace Std
open Utf8 Fold

/-- `r := unicode.SimpleFold(sr); for r != sr && r < tr { r = unicode.SimpleFold(r) }; r == tr` -/
def walk (sr tr : Nat) : Nat → Nat → Option Bool
  | 0, _ => none
  | f+1, r => if r ≠ sr ∧ r < tr then walk sr tr f (next r) else some (r == tr)

/-- the body of the rune loop after both runes are extracted -/
def runeEq (sr tr : Nat) : Option Bool :=
  if tr = sr then some true else
  let lo := if tr < sr then tr else sr
  let hi := if tr < sr then sr else tr
  if hi < 0x80 then some (decide (0x41 ≤ lo ∧ lo ≤ 0x5A ∧ hi = lo + 0x20))
  else walk lo hi 8 (next lo)

/-- label `hasUnicode` of strings.EqualFold: `for _, sr := range s { if len(t) == 0 {return false}; … }; return len(t) == 0` -/
def runeLoopS : Nat → Bytes → Bytes → Option Bool
  | 0, _, _ => none
  | _, [], t => some (t.length == 0)
  | _, _ :: _, [] => some false
  | f+1, a :: s, c :: t =>
    let p := decodeRune (a :: s)
    let q := decodeRune (c :: t)
    match runeEq p.1 q.1 with
    | none => none
    | some false => some false
    | some true => runeLoopS f ((a :: s).drop p.2) ((c :: t).drop q.2)

/-- label `hasUnicode` of bytes.EqualFold: `for len(s) != 0 && len(t) != 0 { … }; return len(s) == len(t)` -/
def runeLoopB : Nat → Bytes → Bytes → Option Bool
  | 0, _, _ => none
  | f+1, a :: s, c :: t =>
    let p := decodeRune (a :: s)
    let q := decodeRune (c :: t)
    match runeEq p.1 q.1 with
    | none => none
    | some false => some false
    | some true => runeLoopB f ((a :: s).drop p.2) ((c :: t).drop q.2)
  | _, s, t => some (s.length == t.length)

/-- the ASCII fast path, falling into `hasUnicode` on the first byte ≥ 0x80 in either string -/
def asciiLoop (rl : Bytes → Bytes → Option Bool) : Bytes → Bytes → Option Bool
  | b :: s, c :: t =>
    if (b ||| c) ≥ 0x80 then rl (b :: s) (c :: t)
    else if c = b then asciiLoop rl s t
    else
      let lo := if c < b then c else b
      let hi := if c < b then b else c
      if 0x41 ≤ lo ∧ lo ≤ 0x5A ∧ hi = lo + 0x20 then asciiLoop rl s t else some false
  | s, t => some (s.length == t.length)

def equalFoldS (s t : Bytes) : Option Bool := asciiLoop (runeLoopS (s.length + 1)) s t
def equalFoldB (s t : Bytes) : Option Bool := asciiLoop (runeLoopB (s.length + 1)) s t

end Std
