import SC.Proofs.Utf8Thy
namespace Utf8

instance instDecForallUInt8' (P : UInt8 → Prop) [DecidablePred P] : Decidable (∀ x, P x) :=
  decidable_of_iff (∀ n : Fin 256, P (UInt8.ofNat n.val)) (by
    constructor
    · intro h x; have := h ⟨x.toNat, x.toNat_lt⟩; simpa using this
    · intro h n; exact h _)


theorem isCont_not_start : ∀ b : UInt8, isCont b = true → isStart b = false := by decide +kernel
theorem not_start_isCont : ∀ b : UInt8, isStart b = false → isCont b = true := by decide +kernel
theorem ascii_isStart : ∀ b : UInt8, b < 0x80 → isStart b = true := by decide +kernel
theorem accept_isCont (b0 b1 : UInt8) (h : accept b0 b1 = true) : isCont b1 = true := by
  have h1 : ∀ b1 : UInt8, (0x80 ≤ b1 ∧ b1 ≤ 0xBF) → isCont b1 = true := by decide +kernel
  apply h1
  simp only [accept, Bool.and_eq_true, decide_eq_true_eq] at h
  obtain ⟨hl, hh⟩ := h
  constructor
  · have : (0x80 : UInt8) ≤ (if b0 == 0xE0 then 0xA0 else if b0 == 0xF0 then 0x90 else 0x80) := by
      split <;> (try split) <;> decide
    exact UInt8.le_trans this hl
  · have : (if b0 == 0xED then 0x9F else if b0 == 0xF4 then 0x8F else 0xBF) ≤ (0xBF : UInt8) := by
      split <;> (try split) <;> decide
    exact UInt8.le_trans hh this

/-- L2: inside a multi-byte decode every byte after the first is a continuation byte -/
theorem decodeRune_interior (z : Bytes) (j : Nat) (h1 : 0 < j) (h2 : j < (decodeRune z).2) :
    ∃ b, z[j]? = some b ∧ isStart b = false := by
  unfold decodeRune at h2
  split at h2
  · simp at h2
  · rename_i b0 rest
    repeat' split at h2
    all_goals (simp at h2)
    all_goals (try omega)
    · -- width 2
      rename_i b1 _ hc
      have : j = 1 := by omega
      subst this
      exact ⟨b1, by simp, isCont_not_start _ hc⟩
    · -- width 3
      rename_i b1 b2 _ hc
      simp only [Bool.and_eq_true] at hc
      rcases (by omega : j = 1 ∨ j = 2) with h | h <;> subst h
      · exact ⟨b1, by simp, isCont_not_start _ (accept_isCont _ _ hc.1)⟩
      · exact ⟨b2, by simp, isCont_not_start _ hc.2⟩
    · -- width 4
      rename_i b1 b2 b3 _ hc
      simp only [Bool.and_eq_true] at hc
      rcases (by omega : j = 1 ∨ j = 2 ∨ j = 3) with h | h | h <;> subst h
      · exact ⟨b1, by simp, isCont_not_start _ (accept_isCont _ _ hc.1.1)⟩
      · exact ⟨b2, by simp, isCont_not_start _ hc.1.2⟩
      · exact ⟨b3, by simp, isCont_not_start _ hc.2⟩

/-- `i` is a decode boundary of `s` -/
def IsBoundary (s : Bytes) (i : Nat) : Prop := ∃ k, k ≤ (dec s).length ∧ offAt s k = i

/-- L1: a rune-start byte always sits on a boundary (arbitrary bytes) -/
theorem start_is_boundary : ∀ (n : Nat) (s : Bytes), s.length ≤ n → ∀ i b, s[i]? = some b → isStart b = true → IsBoundary s i := by
  intro n
  induction n with
  | zero =>
    intro s hs i b hb
    have : s = [] := by cases s <;> simp_all
    subst this; simp at hb
  | succ n ih =>
    intro s hs i b hb hst
    cases s with
    | nil => simp at hb
    | cons c s =>
      by_cases hi0 : i = 0
      · subst hi0; exact ⟨0, Nat.zero_le _, offAt_zero _⟩
      · have hw1 := decodeRune_width_pos c s
        have hwl := decodeRune_width_le (c :: s)
        by_cases hiw : i < (decodeRune (c :: s)).2
        · obtain ⟨b', hb', hns⟩ := decodeRune_interior (c :: s) i (by omega) hiw
          rw [hb] at hb'; cases hb'
          rw [hst] at hns; cases hns
        · -- recurse into the rest
          have hlen : ((c :: s).drop (decodeRune (c :: s)).2).length ≤ n := by
            simp only [List.length_drop, List.length_cons] at hs ⊢; omega
          have hb2 : ((c :: s).drop (decodeRune (c :: s)).2)[i - (decodeRune (c :: s)).2]? = some b := by
            rw [List.getElem?_drop]
            have : (decodeRune (c :: s)).2 + (i - (decodeRune (c :: s)).2) = i := by omega
            rw [this]; exact hb
          obtain ⟨k, hk1, hk2⟩ := ih _ hlen _ b hb2 hst
          refine ⟨k + 1, ?_, ?_⟩
          · rw [dec_cons c s]; simp; exact hk1
          · rw [offAt_succ_cons, hk2]; omega
end Utf8

namespace Utf8

theorem dec_eq_nil (x : Bytes) : dec x = [] ↔ x = [] := by
  constructor
  · intro h
    cases x with
    | nil => rfl
    | cons b x => rw [dec_cons] at h; cases h
  · intro h; subst h; exact dec_nil

theorem offAt_length (s : Bytes) : offAt s (dec s).length = s.length := by
  have := dec_drop_offAt s (dec s).length
  simp only [List.drop_length] at this
  have h2 := (dec_eq_nil _).mp this
  have h3 := offAt_le s (dec s).length
  have : (s.drop (offAt s (dec s).length)).length = 0 := by rw [h2]; rfl
  simp only [List.length_drop] at this
  omega

theorem offAt_succ (s : Bytes) (k : Nat) (hk : k < (dec s).length) :
    offAt s (k+1) = offAt s k + ((dec s)[k]'hk).2 := by
  show (((dec s).take (k+1)).map (·.2)).sum = (((dec s).take k).map (·.2)).sum + _
  rw [List.take_succ_eq_append_getElem hk, List.map_append, List.sum_append]
  simp only [List.map_cons, List.map_nil, List.sum_cons, List.sum_nil, Nat.add_zero]

theorem seg_width_pos : ∀ (n : Nat) (x : Bytes), x.length ≤ n → ∀ p ∈ dec x, 1 ≤ p.2 := by
  intro n
  induction n with
  | zero =>
    intro x hx p hp
    have : x = [] := by cases x <;> simp_all
    subst this; rw [dec_nil] at hp; cases hp
  | succ n ih =>
    intro x hx p hp
    cases x with
    | nil => rw [dec_nil] at hp; cases hp
    | cons b x =>
      rw [dec_cons] at hp
      rcases List.mem_cons.mp hp with h | h
      · rw [h]; exact decodeRune_width_pos b x
      · have hw := decodeRune_width_pos b x
        exact ih _ (by simp only [List.length_drop, List.length_cons] at hx ⊢; omega) p h

theorem offAt_lt_succ (s : Bytes) (k : Nat) (hk : k < (dec s).length) : offAt s k < offAt s (k+1) := by
  rw [offAt_succ s k hk]
  have := seg_width_pos s.length s (Nat.le_refl _) _ (List.getElem_mem hk)
  omega

theorem offAt_mono (s : Bytes) : ∀ d k, k + d ≤ (dec s).length → offAt s k ≤ offAt s (k + d) := by
  intro d
  induction d with
  | zero => intro k _; exact Nat.le_refl _
  | succ d ih =>
    intro k hk
    have h1 := ih k (by omega)
    have h2 := offAt_lt_succ s (k + d) (by omega)
    have : k + (d + 1) = k + d + 1 := by omega
    rw [this]; omega

theorem decodeRune_single (b : UInt8) (h : ¬ b < 0x80) : decodeRune [b] = (runeError, 1) := by
  simp only [decodeRune]
  repeat' split
  all_goals (first | rfl | contradiction | simp_all)

theorem decodeRune_multi_start (z : Bytes) (h : 2 ≤ (decodeRune z).2) :
    ∃ b0 rest, z = b0 :: rest ∧ isStart b0 = true := by
  have key : ∀ b0 : UInt8, ¬ b0 < 0xC2 → isStart b0 = true := by decide +kernel
  unfold decodeRune at h
  split at h
  · simp at h
  · rename_i b0 rest
    refine ⟨b0, rest, rfl, ?_⟩
    split at h
    · simp at h
    · split at h
      · simp at h
      · rename_i h1 h2; exact key b0 h2


theorem scanBack_found (s : Bytes) (lim : Nat) : ∀ k p, lim ≤ p → p < lim + k →
    isStart (s.getD p 0) = true → (∀ q, p < q → q < lim + k → isStart (s.getD q 0) = false) →
    scanBack s lim k = (p : Int) := by
  intro k
  induction k with
  | zero => intro p h1 h2; omega
  | succ k ih =>
    intro p h1 h2 hp hq
    simp only [scanBack]
    by_cases hpk : p = lim + k
    · subst hpk; rw [if_pos hp]
    · have := hq (lim + k) (by omega) (by omega)
      rw [this]; simp only [Bool.false_eq_true, if_false]
      exact ih p h1 (by omega) hp (fun q h3 h4 => hq q h3 (by omega))

theorem scanBack_le (s : Bytes) (lim : Nat) : ∀ k, scanBack s lim k ≤ (lim : Int) + k - 1 := by
  intro k
  induction k with
  | zero => simp [scanBack]
  | succ k ih =>
    simp only [scanBack]
    split
    · simp; omega
    · have := ih; omega


end Utf8

namespace Utf8

/-- the last segment: its offset, and what is known about it -/
theorem last_seg (s : Bytes) (hs : s ≠ []) :
    ∃ o r w, (dec s).getLast? = some (r, w) ∧ IsBoundary s o ∧ o + w = s.length ∧ 1 ≤ w ∧
      decodeRune (s.drop o) = (r, w) ∧ o = offAt s ((dec s).length - 1) := by
  have hne : dec s ≠ [] := fun h => hs ((dec_eq_nil s).mp h)
  have hlen : 0 < (dec s).length := List.length_pos_iff.mpr hne
  let k := (dec s).length - 1
  have hk : k < (dec s).length := by omega
  have hdrop := dec_drop_offAt s k
  have hd1 : (dec s).drop k = [(dec s)[k]] := by
    rw [List.drop_eq_getElem_cons hk]
    have : k + 1 = (dec s).length := by omega
    rw [this, List.drop_length]
  rw [hd1] at hdrop
  -- s.drop o is nonempty and decodes to exactly that one segment
  have hne2 : s.drop (offAt s k) ≠ [] := by
    intro h0; rw [h0, dec_nil] at hdrop; cases hdrop
  obtain ⟨c, rest, hc⟩ : ∃ c rest, s.drop (offAt s k) = c :: rest := by
    cases h : s.drop (offAt s k) with
    | nil => exact absurd h hne2
    | cons c rest => exact ⟨c, rest, rfl⟩
  rw [hc, dec_cons] at hdrop
  have h1 : decodeRune (c :: rest) = (dec s)[k] := by
    have := List.cons.inj hdrop; exact this.1
  have h2 : dec ((c :: rest).drop (decodeRune (c :: rest)).2) = [] := by
    have := List.cons.inj hdrop; exact this.2
  have h3 := (dec_eq_nil _).mp h2
  have h4 : (c :: rest).length ≤ (decodeRune (c :: rest)).2 := by
    have : ((c :: rest).drop (decodeRune (c :: rest)).2).length = 0 := by rw [h3]; rfl
    simp only [List.length_drop] at this; omega
  have h5 := decodeRune_width_le (c :: rest)
  have h6 : (c :: rest).length = s.length - offAt s k := by rw [← hc]; simp
  have h7 := offAt_le s k
  refine ⟨offAt s k, (dec s)[k].1, (dec s)[k].2, ?_, ⟨k, by omega, rfl⟩, ?_, ?_, ?_, rfl⟩
  · rw [List.getLast?_eq_getElem?]
    simp [k, List.getElem?_eq_getElem hk]
  · rw [← h1]; omega
  · rw [← h1]; exact decodeRune_width_pos c rest
  · rw [hc, h1]

/-- a boundary strictly inside the last segment does not exist -/
theorem boundary_le_last (s : Bytes) (i : Nat) (hb : IsBoundary s i) (hi : i < s.length) :
    i ≤ offAt s ((dec s).length - 1) := by
  obtain ⟨k', hk1, hk2⟩ := hb
  have hlt : k' < (dec s).length := by
    rcases Nat.lt_or_ge k' (dec s).length with h | h
    · exact h
    · have : k' = (dec s).length := by omega
      rw [this, offAt_length] at hk2; omega
  have := offAt_mono s ((dec s).length - 1 - k') k' (by omega)
  have e : k' + ((dec s).length - 1 - k') = (dec s).length - 1 := by omega
  rw [e, hk2] at this; exact this

theorem decodeLast_eq (s : Bytes) (hs : s ≠ []) : (dec s).getLast? = some (decodeLast s) := by
  obtain ⟨o, r, w, hlast, hob, how, hw1, hdec, hoeq⟩ := last_seg s hs
  rw [hlast]; congr 1
  have hn : 0 < s.length := List.length_pos_iff.mpr hs
  unfold decodeLast
  simp only []
  rw [if_neg (by omega)]
  have hgetlast : s[s.length - 1]? = some (s.getD (s.length - 1) 0) := by
    rw [List.getD_eq_getElem?_getD, List.getElem?_eq_getElem (by omega)]; simp
  by_cases hascii : s.getD (s.length - 1) 0 < 0x80
  · -- Case A: the last byte is ASCII, hence a boundary, hence the last segment
    rw [if_pos hascii]
    have hb := start_is_boundary s.length s (Nat.le_refl _) _ _ hgetlast (ascii_isStart _ hascii)
    have hle := boundary_le_last s _ hb (by omega)
    rw [← hoeq] at hle
    have ho : o = s.length - 1 := by omega
    have hdrop : s.drop o = [s.getD (s.length - 1) 0] := by
      rw [ho]
      apply List.ext_getElem?
      intro j
      rw [List.getElem?_drop]
      cases j with
      | zero => simpa using hgetlast
      | succ j =>
        have : s.length ≤ s.length - 1 + (j + 1) := by omega
        simp [List.getElem?_eq_none this]
    rw [hdrop] at hdec
    simp only [decodeRune, hascii, if_true] at hdec
    exact hdec.symm
  · rw [if_neg hascii]
    by_cases hw2 : 2 ≤ w
    · -- Case B1: a complete multi-byte sequence ends the string; the scan finds its first byte
      have hw4 : w ≤ 4 := by have := decodeRune_width_le4 (s.drop o); rw [hdec] at this; exact this
      obtain ⟨b0, rest, hz, hst⟩ := decodeRune_multi_start (s.drop o) (by rw [hdec]; exact hw2)
      have hso : s.getD o 0 = b0 := by
        have : s[o]? = some b0 := by
          have := congrArg (fun l => l[0]?) hz
          simpa [List.getElem?_drop] using this
        rw [List.getD_eq_getElem?_getD, this]; rfl
      have hscan : scanBack s (s.length - 4) (s.length - 1 - (s.length - 4)) = (o : Int) := by
        apply scanBack_found
        · omega
        · omega
        · rw [hso]; exact hst
        · intro q hq1 hq2
          have hint := decodeRune_interior (s.drop o) (q - o) (by omega) (by rw [hdec]; omega)
          obtain ⟨b, hb1, hb2⟩ := hint
          rw [List.getElem?_drop] at hb1
          have : o + (q - o) = q := by omega
          rw [this] at hb1
          rw [List.getD_eq_getElem?_getD, hb1]; exact hb2
      rw [hscan]
      simp only [Int.toNat_natCast]
      rw [hdec]
      simp only []
      rw [if_neg (by omega)]
    · -- Case B2: the last segment is a single ill-formed byte
      have hw : w = 1 := by omega
      subst hw
      have ho : o = s.length - 1 := by omega
      have hr : r = runeError := by
        have hdrop : s.drop o = [s.getD (s.length - 1) 0] := by
          rw [ho]
          apply List.ext_getElem?
          intro j
          rw [List.getElem?_drop]
          cases j with
          | zero => simpa using hgetlast
          | succ j =>
            have : s.length ≤ s.length - 1 + (j + 1) := by omega
            simp [List.getElem?_eq_none this]
        rw [hdrop, decodeRune_single _ hascii] at hdec
        exact (Prod.mk.inj hdec).1.symm
      subst hr
      generalize hstart : (scanBack s (s.length - 4) (s.length - 1 - (s.length - 4))).toNat = start
      by_cases hfit : start + (decodeRune (s.drop start)).2 = s.length
      · rw [if_neg (by omega)]
        -- then `start` begins a segment that reaches the end, so it is the last segment
        by_cases hst1 : start = s.length - 1
        · rw [hst1, ← ho, hdec]
        · exfalso
          have hsle := scanBack_le s (s.length - 4) (s.length - 1 - (s.length - 4))
          have hp2 : 2 ≤ (decodeRune (s.drop start)).2 := by
            have := decodeRune_width_le (s.drop start); simp only [List.length_drop] at this; omega
          obtain ⟨b0, rest, hz, hstb⟩ := decodeRune_multi_start _ hp2
          have hsb : s[start]? = some b0 := by
            have := congrArg (fun l => l[0]?) hz
            simpa [List.getElem?_drop] using this
          have hbnd := start_is_boundary s.length s (Nat.le_refl _) _ _ hsb hstb
          have hle := boundary_le_last s _ hbnd (by
            have := decodeRune_width_le (s.drop start); simp only [List.length_drop] at this; omega)
          rw [← hoeq] at hle
          -- start ≤ o = n-1 and start ≠ n-1, so start < o; but start + width = n means o is strictly inside
          obtain ⟨k', hk1, hk2⟩ := hbnd
          -- the segment at boundary `start` has width n - start ≥ 2, so the next boundary is n, skipping o
          have hk'lt : k' < (dec s).length := by
            rcases Nat.lt_or_ge k' (dec s).length with h | h
            · exact h
            · have : k' = (dec s).length := by omega
              rw [this, offAt_length] at hk2; omega
          have hseg : (dec s)[k'] = decodeRune (s.drop start) := by
            have := dec_drop_offAt s k'
            rw [hk2, hz, dec_cons, List.drop_eq_getElem_cons hk'lt] at this
            rw [hz]; exact (List.cons.inj this).1.symm
          have hnext := offAt_succ s k' hk'lt
          rw [hseg, hk2, hfit] at hnext
          -- so k'+1 = |dec s| and k' is the last index, i.e. start = o
          have hk'last : k' + 1 = (dec s).length := by
            rcases Nat.lt_or_ge (k' + 1) (dec s).length with h | h
            · have := offAt_lt_succ s (k'+1) h
              have := offAt_le s (k'+1+1)
              omega
            · omega
          have : start = o := by rw [hoeq, ← hk2]; congr 1; omega
          omega
      · rw [if_pos hfit]
end Utf8
