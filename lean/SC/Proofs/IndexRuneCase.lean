import SC.Proofs.IrcLoop
import SC.Proofs.IdxRune2
/-!
`indexRuneCase` (all four branches) returns the first boundary holding the rune — arbitrary haystack.
-/
namespace A
open Utf8

theorem stdIndexByte_eq_bytesIndex (c : UInt8) : ∀ s : Bytes, stdIndexByte s c = bytesIndex s [c]
  | [] => by simp [stdIndexByte, bytesIndex]
  | b :: s => by
    have ih := stdIndexByte_eq_bytesIndex c s
    simp only [stdIndexByte, bytesIndex, List.isPrefixOf, ih]
    by_cases h : b = c
    · subst h; simp
    · have : (c == b) = false := by simp; exact fun e => h e.symm
      simp [h, this]

theorem ofNat_toNat_small (n : Nat) (h : n < 256) : (UInt8.ofNat n).toNat = n := ofNat_toNat_lt n h

/-- shape of a multi-byte encoding -/
theorem encode_multi (r : Nat) (h : 0x80 ≤ r) (hv : validRune r) :
    2 ≤ (encode r).length ∧ ((encode r).length = 2 → (encode r).getD 0 0 ≠ (encode r).getD 1 0) := by
  unfold encode
  rw [if_neg (by omega)]
  split
  · refine ⟨by simp, fun _ => ?_⟩
    simp only [List.getD_cons_zero, List.getD_cons_succ]
    intro he
    have := congrArg UInt8.toNat he
    rw [ofNat_toNat_small _ (by omega), ofNat_toNat_small _ (by omega)] at this
    omega
  · split
    · exact ⟨by simp, fun h => by simp at h⟩
    · exact ⟨by simp, fun h => by simp at h⟩

/-- `for i, r := range s { if r == RuneError { return i } }` -/
theorem firstRuneError_correct : ∀ (fuel : Nat) (s : Bytes) (i : Nat), s.length < fuel →
    (firstRuneError s fuel i = -1 ∧ ∀ j, IsBoundary s j → j < s.length → (decodeRune (s.drop j)).1 ≠ runeError) ∨
    (∃ k, firstRuneError s fuel i = ((i + k : Nat) : Int) ∧ IsBoundary s k ∧ k < s.length ∧
        (decodeRune (s.drop k)).1 = runeError ∧ ∀ j, IsBoundary s j → j < k → (decodeRune (s.drop j)).1 ≠ runeError) := by
  intro fuel
  induction fuel with
  | zero => intro s i h; omega
  | succ fuel ih =>
    intro s i hf
    cases s with
    | nil =>
      left
      refine ⟨by simp [firstRuneError], ?_⟩
      intro j _ hj; simp at hj
    | cons b rest =>
      simp only [firstRuneError]
      have hw := decodeRune_width_pos b rest
      have hwl := decodeRune_width_le (b :: rest)
      by_cases he : (decodeRune (b :: rest)).1 = runeError
      · rw [if_pos he]
        right
        exact ⟨0, rfl, isBoundary_zero _, by simp, by simpa using he, fun j _ hj => by omega⟩
      · rw [if_neg he]
        have hb1 : IsBoundary (b :: rest) (decodeRune (b :: rest)).2 := by
          have := isBoundary_next (b :: rest) 0 (isBoundary_zero _) (by simp)
          simpa using this
        -- boundaries of the tail are boundaries of the whole, shifted
        have hshift : ∀ j, IsBoundary (b :: rest) j → 0 < j →
            (decodeRune (b :: rest)).2 ≤ j ∧ IsBoundary ((b :: rest).drop (decodeRune (b :: rest)).2) (j - (decodeRune (b :: rest)).2) := by
          intro j hj hpos
          have hge : (decodeRune (b :: rest)).2 ≤ j := by
            rcases Nat.lt_or_ge j (decodeRune (b :: rest)).2 with h | h
            · have := no_boundary_inside (b :: rest) 0 j (isBoundary_zero _) (by simp) hpos (by simpa using h)
              exact absurd hj this
            · exact h
          exact ⟨hge, isBoundary_drop_sub _ _ _ hb1 hj hge⟩
        rcases ih ((b :: rest).drop (decodeRune (b :: rest)).2) (i + (decodeRune (b :: rest)).2)
            (by simp only [List.length_drop, List.length_cons] at hf ⊢; omega) with ⟨hr, hnone⟩ | ⟨k, hr, hbk, hkl, hek, hmin⟩
        · left
          refine ⟨hr, ?_⟩
          intro j hj hjl
          by_cases hj0 : j = 0
          · subst hj0; simpa using he
          · obtain ⟨hge, hb'⟩ := hshift j hj (by omega)
            have := hnone _ hb' (by simp only [List.length_drop]; omega)
            rw [List.drop_drop] at this
            have e : (decodeRune (b :: rest)).2 + (j - (decodeRune (b :: rest)).2) = j := by omega
            rwa [e] at this
        · right
          simp only [List.length_drop] at hkl
          refine ⟨(decodeRune (b :: rest)).2 + k, ?_, isBoundary_drop_add _ _ _ hb1 hbk, by omega, ?_, ?_⟩
          · rw [hr]; congr 1; omega
          · rw [List.drop_drop] at hek; exact hek
          · intro j hj hjk
            by_cases hj0 : j = 0
            · subst hj0; simpa using he
            · obtain ⟨hge, hb'⟩ := hshift j hj (by omega)
              have := hmin _ hb' (by omega)
              rw [List.drop_drop] at this
              have e : (decodeRune (b :: rest)).2 + (j - (decodeRune (b :: rest)).2) = j := by omega
              rwa [e] at this

/-- C10 core: indexRuneCase finds the first boundary whose segment is the well-formed encoding of `r`
    (valid `r` other than U+FFFD), on every haystack, for both hand-over variants -/
theorem indexRuneCase_isFirstRune (cfg : Cfg) (s : Bytes) (r : Nat) (hv : validRune r) (hr : r ≠ 0xFFFD) :
    IsFirstRune s r (indexRuneCase cfg s (r : Int)) := by
  have hspec := bytesIndex_isFirstRune s r hv
  suffices h : indexRuneCase cfg s (r : Int) = bytesIndex s (encode r) by rw [h]; exact hspec
  unfold indexRuneCase
  by_cases h1 : r < 0x80
  · have : (0 : Int) ≤ r ∧ (r : Int) < 0x80 := ⟨by omega, by omega⟩
    rw [if_pos this]
    have e : encode r = [UInt8.ofNat r] := by simp [encode, h1]
    rw [e, stdIndexByte_eq_bytesIndex]; simp
  · have : ¬ ((0 : Int) ≤ r ∧ (r : Int) < 0x80) := by omega
    rw [if_neg this, if_neg (by omega)]
    have hvi : S.validRuneI (r : Int) = true := by
      simp only [S.validRuneI, decide_eq_true_eq]
      exact ⟨by omega, by simpa using hv⟩
    rw [if_neg (by simp [hvi])]
    simp only [Int.toNat_natCast]
    obtain ⟨hn, h2⟩ := encode_multi r (by omega) hv
    have hloop := ircLoop_correct cfg (encode r) s hn h2 (s.length + 1) ((encode r).length - 1) 0
      (Nat.le_refl _) (by omega) (fun k hk => by omega)
    exact isFirstOcc_unique s (encode r) _ _ hloop (bytesIndex_isFirstOcc s (encode r))

end A
