import SC.Proofs.IndexRuneCase
/-!
Search contract for "first code point of `s` satisfying `P`", and the combination lemma behind
`indexRune2`, `indexRune` (FoldMap loop) and `indexByte`: search one orbit member, truncate the
haystack at the hit, search the next member in the truncated haystack, keep the smaller hit.
-/
namespace A
open Utf8

/-- `res = (offset, width)`: offset of the first boundary whose code point satisfies `P` (and the width
    of the segment there), or offset −1 if there is none -/
def IsFirstBy (P : Nat → Bool) (s : Bytes) (res : Int × Nat) : Prop :=
  (res.1 = -1 ∧ ∀ i, IsBoundary s i → i < s.length → P (decodeRune (s.drop i)).1 = false) ∨
  (∃ i : Nat, res.1 = (i : Int) ∧ IsBoundary s i ∧ i < s.length ∧ P (decodeRune (s.drop i)).1 = true ∧
      res.2 = (decodeRune (s.drop i)).2 ∧
      ∀ j, IsBoundary s j → j < i → P (decodeRune (s.drop j)).1 = false)

theorem isFirstBy_congr (P Q : Nat → Bool) (h : ∀ x, P x = Q x) (s : Bytes) (res : Int × Nat)
    (hr : IsFirstBy P s res) : IsFirstBy Q s res := by
  have : P = Q := funext h
  rw [← this]; exact hr

theorem isFirstBy_unique (P : Nat → Bool) (s : Bytes) (a b : Int × Nat)
    (ha : IsFirstBy P s a) (hb : IsFirstBy P s b) : a.1 = b.1 := by
  rcases ha with ⟨ha, hna⟩ | ⟨i, ha, hbi, hli, hpi, _, hmini⟩ <;> rcases hb with ⟨hb, hnb⟩ | ⟨j, hb, hbj, hlj, hpj, _, hminj⟩
  · rw [ha, hb]
  · have := hna j hbj hlj; rw [hpj] at this; cases this
  · have := hnb i hbi hli; rw [hpi] at this; cases this
  · rw [ha, hb]
    rcases Nat.lt_trichotomy i j with h | h | h
    · have := hminj i hbi h; rw [hpi] at this; cases this
    · rw [h]
    · have := hmini j hbj h; rw [hpj] at this; cases this

/-- the −1 / range facts every caller needs -/
theorem isFirstBy_range (P : Nat → Bool) (s : Bytes) (a : Int × Nat) (ha : IsFirstBy P s a) :
    a.1 = -1 ∨ (0 ≤ a.1 ∧ a.1 < s.length) := by
  rcases ha with ⟨h, _⟩ | ⟨i, h, _, hl, _⟩
  · exact Or.inl h
  · right; rw [h]; omega

/-- nothing is found in the empty string -/
theorem isFirstBy_nil (P : Nat → Bool) (w : Nat) : IsFirstBy P [] (-1, w) :=
  Or.inl ⟨rfl, fun i _ hi => by simp at hi⟩

/-- search `P`, truncate at the hit, search `Q` in what is left, keep the smaller hit -/
theorem firstBy_or (P Q : Nat → Bool) (s : Bytes) (a b : Int × Nat)
    (ha : IsFirstBy P s a)
    (hb : IsFirstBy Q (if 0 ≤ a.1 then s.take a.1.toNat else s) b) :
    IsFirstBy (fun x => P x || Q x) s (if a.1 = -1 ∨ (0 ≤ b.1 ∧ b.1 < a.1) then b else a) := by
  rcases ha with ⟨ha1, hna⟩ | ⟨n, ha1, hbn, hln, hpn, hwn, hminn⟩
  · -- P not found: the whole string was searched for Q
    rw [if_pos (Or.inl ha1)]
    have hneg : ¬ (0 ≤ a.1) := by rw [ha1]; omega
    rw [if_neg hneg] at hb
    rcases hb with ⟨hb1, hnb⟩ | ⟨j, hb1, hbj, hlj, hqj, hwj, hminj⟩
    · left; refine ⟨hb1, ?_⟩
      intro i hi hil
      show (P _ || Q _) = false
      rw [hna i hi hil, hnb i hi hil]; rfl
    · right; refine ⟨j, hb1, hbj, hlj, (by show (P _ || Q _) = true; rw [hqj]; exact Bool.or_true _), hwj, ?_⟩
      intro i hi hij
      show (P _ || Q _) = false
      rw [hna i hi (by omega), hminj i hi hij]; rfl
  · -- P found at n: Q searched in s[:n]
    have hpos : 0 ≤ a.1 := by rw [ha1]; omega
    rw [if_pos hpos] at hb
    have hn : a.1.toNat = n := by rw [ha1]; simp
    rw [hn] at hb
    have htl : (s.take n).length = n := by simp; omega
    rcases hb with ⟨hb1, hnb⟩ | ⟨j, hb1, hbj, hlj, hqj, hwj, hminj⟩
    · -- Q not found before n: the answer is n
      have hc : ¬ (a.1 = -1 ∨ (0 ≤ b.1 ∧ b.1 < a.1)) := by rw [ha1, hb1]; omega
      rw [if_neg hc]
      right; refine ⟨n, ha1, hbn, hln, (by show (P _ || Q _) = true; rw [hpn]; rfl), hwn, ?_⟩
      intro i hi hin
      obtain ⟨hbt, hdt⟩ := decode_take_boundary s n i hbn hi hin
      have := hnb i hbt (by omega)
      rw [hdt] at this
      show (P _ || Q _) = false
      rw [hminn i hi hin, this]; rfl
    · -- Q found at j < n
      rw [htl] at hlj
      have hc : a.1 = -1 ∨ (0 ≤ b.1 ∧ b.1 < a.1) := by right; rw [ha1, hb1]; omega
      rw [if_pos hc]
      have hbj' := isBoundary_take_lift s n j hbn hbj
      obtain ⟨_, hdt⟩ := decode_take_boundary s n j hbn hbj' hlj
      right; refine ⟨j, hb1, hbj', by omega, (by show (P _ || Q _) = true; rw [← hdt, hqj]; exact Bool.or_true _), (by rw [← hdt]; exact hwj), ?_⟩
      intro i hi hij
      obtain ⟨hbt, hdt'⟩ := decode_take_boundary s n i hbn hi (by omega)
      have := hminj i hbt hij
      rw [hdt'] at this
      show (P _ || Q _) = false
      rw [hminn i hi (by omega), this]; rfl

/-- `indexRuneCase` as a first-by search (valid rune other than U+FFFD), with the width `RuneLen` reports -/
theorem indexRuneCase_firstBy (cfg : Cfg) (s : Bytes) (r : Nat) (hv : validRune r) (hr : r ≠ 0xFFFD) :
    IsFirstBy (· == r) s (indexRuneCase cfg s (r : Int), (encode r).length) := by
  have hspec := indexRuneCase_isFirstRune cfg s r hv hr
  generalize indexRuneCase cfg s (r : Int) = res at hspec
  rcases hspec with ⟨h1, hn⟩ | ⟨i, h1, hb, hl, hd, hmin⟩
  · left; refine ⟨h1, ?_⟩
    intro i hi hil
    cases hp : (decodeRune (s.drop i)).1 == r with
    | false => exact hp
    | true =>
      have hne : s.drop i ≠ [] := by intro he; have := congrArg List.length he; simp at this; omega
      exact absurd (decode_of_rune _ _ hne (beq_iff_eq.mp hp) hr) (hn i hi hil)
  · right; refine ⟨i, h1, hb, hl, (by rw [hd]; exact beq_self_eq_true r), (by rw [hd]), ?_⟩
    intro j hj hji
    cases hp : (decodeRune (s.drop j)).1 == r with
    | false => exact hp
    | true =>
      have hne : s.drop j ≠ [] := by intro he; have := congrArg List.length he; simp at this; omega
      exact absurd (decode_of_rune _ _ hne (beq_iff_eq.mp hp) hr) (hmin j hj hji)

/-- utf8.RuneLen of a valid rune is the length of its encoding -/
theorem runeLen_eq_encode (r : Nat) (hv : validRune r) : runeLen r = (encode r).length := by
  unfold runeLen encode
  rcases hv with h | ⟨h1, h2⟩
  · repeat' split
    all_goals first | rfl | omega
  · repeat' split
    all_goals first | rfl | omega

end A
