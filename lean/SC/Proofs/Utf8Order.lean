import SC.Proofs.ValidBytes2
import SC.Proofs.LexCmp
import SC.Proofs.RIndex1
/-!
UTF-8 preserves order: for valid strings, comparing the bytes lexicographically is comparing the code point
sequences lexicographically.  (C20: `Compare` on caseless text = `strings.Compare`.)
-/
namespace Utf8

/-- the bytes of `encode r` as naturals -/
def encL (r : Nat) : List Nat :=
  if r < 0x80 then [r]
  else if r < 0x800 then [0xC0 + r / 64, 0x80 + r % 64]
  else if r < 0x10000 then [0xE0 + r / 4096, 0x80 + r / 64 % 64, 0x80 + r % 64]
  else [0xF0 + r / 262144, 0x80 + r / 4096 % 64, 0x80 + r / 64 % 64, 0x80 + r % 64]

theorem encode_toNat (r : Nat) (h : r ≤ 0x10FFFF) : (encode r).map UInt8.toNat = encL r := by
  unfold encode encL
  split
  · simp only [List.map_cons, List.map_nil]; rw [ofNat_toNat_lt r (by omega)]
  · split
    · simp only [List.map_cons, List.map_nil]
      rw [ofNat_toNat_lt _ (by omega), ofNat_toNat_lt _ (by omega)]
    · split
      · simp only [List.map_cons, List.map_nil]
        rw [ofNat_toNat_lt _ (by omega), ofNat_toNat_lt _ (by omega), ofNat_toNat_lt _ (by omega)]
      · simp only [List.map_cons, List.map_nil]
        rw [ofNat_toNat_lt _ (by omega), ofNat_toNat_lt _ (by omega), ofNat_toNat_lt _ (by omega),
          ofNat_toNat_lt _ (by omega)]

theorem encL_cons (r : Nat) : ∃ a l, encL r = a :: l := by
  unfold encL; repeat' split
  all_goals exact ⟨_, _, rfl⟩

/-- a smaller code point has a lexicographically smaller encoding, whatever follows -/
theorem lex_enc_lt (rx ry : Nat) (hy : ry ≤ 0x10FFFF) (h : rx < ry) (a b : List Nat) :
    lexCmp (encL rx ++ a) (encL ry ++ b) = -1 := by
  unfold encL
  split <;> split <;> (try split) <;> (try split) <;> (try split) <;> (try split)
  all_goals simp only [List.cons_append, List.nil_append, lexCmp]
  all_goals repeat' split
  all_goals first | rfl | (exfalso; omega)

theorem lexCmp_append_left (c a b : List Nat) : lexCmp (c ++ a) (c ++ b) = lexCmp a b := by
  induction c with
  | nil => rfl
  | cons x c ih => simp only [List.cons_append, lexCmp, if_true]; exact ih

theorem lexCmp_enc : ∀ (rs qs : List Nat), (∀ r ∈ rs, r ≤ 0x10FFFF) → (∀ q ∈ qs, q ≤ 0x10FFFF) →
    lexCmp rs qs = lexCmp (rs.flatMap encL) (qs.flatMap encL)
  | [], [], _, _ => rfl
  | [], q :: qs, _, _ => by
    obtain ⟨a, l, e⟩ := encL_cons q
    simp only [List.flatMap_nil, List.flatMap_cons, e, List.cons_append, lexCmp]
  | r :: rs, [], _, _ => by
    obtain ⟨a, l, e⟩ := encL_cons r
    simp only [List.flatMap_nil, List.flatMap_cons, e, List.cons_append, lexCmp]
  | r :: rs, q :: qs, hr, hq => by
    have ih := lexCmp_enc rs qs (fun x hx => hr x (List.mem_cons_of_mem _ hx)) (fun x hx => hq x (List.mem_cons_of_mem _ hx))
    simp only [List.flatMap_cons]
    have e : lexCmp (r :: rs) (q :: qs) = if r = q then lexCmp rs qs else if r < q then -1 else 1 := rfl
    rw [e]
    by_cases hrq : r = q
    · subst hrq
      rw [if_pos rfl, lexCmp_append_left, ih]
    · rw [if_neg hrq]
      by_cases hlt : r < q
      · rw [if_pos hlt, lex_enc_lt r q (hq q (List.mem_cons_self ..)) hlt]
      · rw [if_neg hlt, lexCmp_antisymm, lex_enc_lt q r (hr r (List.mem_cons_self ..)) (by omega)]
        rfl

theorem flatMap_map_toNat (rs : List Nat) (h : ∀ r ∈ rs, r ≤ 0x10FFFF) :
    (enc rs).map UInt8.toNat = rs.flatMap encL := by
  induction rs with
  | nil => rfl
  | cons r rs ih =>
    unfold enc at ih ⊢
    simp only [List.flatMap_cons, List.map_append]
    rw [encode_toNat r (h r (List.mem_cons_self ..)), ih (fun x hx => h x (List.mem_cons_of_mem _ hx))]

theorem runes_le (x : Bytes) : ∀ r ∈ runes x, r ≤ 0x10FFFF := by
  intro r hr
  unfold runes at hr
  obtain ⟨p, hp, rfl⟩ := List.mem_map.mp hr
  obtain ⟨i, _, hil, rfl⟩ := A.mem_dec_boundary x p hp
  have := A.decodeRune_valid (x.drop i) (by intro he; have := congrArg List.length he; simp at this; omega)
  unfold validRune at this; omega

/-- comparing valid strings bytewise is comparing their code point sequences -/
theorem lexCmp_valid (x y : Bytes) (hx : Valid x) (hy : Valid y) :
    lexCmp (runes x) (runes y) = lexCmp (x.map UInt8.toNat) (y.map UInt8.toNat) := by
  rw [lexCmp_enc (runes x) (runes y) (runes_le x) (runes_le y),
    ← flatMap_map_toNat _ (runes_le x), ← flatMap_map_toNat _ (runes_le y),
    ← valid_eq_enc _ x (Nat.le_refl _) hx, ← valid_eq_enc _ y (Nat.le_refl _) hy]

end Utf8
