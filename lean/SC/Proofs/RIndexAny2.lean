import SC.Proofs.RIndexAny1
/-!
IndexAny, part 2: the per-char strategy (`IndexRune(s, r)` for each rune of `chars`, haystack truncated at the
best hit so far).
-/
namespace A
open Utf8 Fold

/-- a hit at offset 0 is the answer for any larger predicate -/
theorem firstBy_zero' (P Q : Nat → Bool) (hPQ : ∀ x, P x = true → Q x = true) (s : Bytes) (a : Int × Nat)
    (ha : IsFirstBy P s a) (h0 : a.1 = 0) : IsFirstBy Q s a := by
  rcases ha with ⟨h1, _⟩ | ⟨i, h1, hb, hl, hp, hw, _⟩
  · rw [h0] at h1; omega
  · have : i = 0 := by rw [h0] at h1; omega
    subst this
    right; exact ⟨0, h1, hb, hl, hPQ _ hp, hw, fun j _ hj => by omega⟩

theorem anyByChars_firstBy (cfg : Cfg) : ∀ (rs : List Nat), (∀ r ∈ rs, validRune r) →
    ∀ (P : Nat → Bool) (s0 : Bytes) (n : Int) (w : Nat), IsFirstBy P s0 (n, w) →
    ∃ w', IsFirstBy (fun x => P x || rs.any (fun r => caseFold x == caseFold r)) s0 (anyByChars cfg rs (cur s0 n) n, w') := by
  intro rs
  induction rs with
  | nil =>
    intro _ P s0 n w ha
    refine ⟨w, ?_⟩
    simp only [anyByChars, List.any_nil, Bool.or_false]
    exact ha
  | cons r rest ih =>
    intro hval P s0 n w ha
    have hvr := hval r (List.mem_cons_self ..)
    have hvrest : ∀ r' ∈ rest, validRune r' := fun r' h => hval r' (List.mem_cons_of_mem _ h)
    simp only [anyByChars]
    have hvi : S.validRuneI (r : Int) = true := by
      simp only [S.validRuneI, decide_eq_true_eq]
      exact ⟨by omega, by simpa using hvr⟩
    obtain ⟨wi, hb⟩ := (IndexRune_spec cfg (cur s0 n) (r : Int)).2 hvi
    simp only [Int.toNat_natCast] at hb
    generalize hi : IndexRune cfg (cur s0 n) (r : Int) = i at hb ⊢
    have hor := firstBy_or P (fun x => caseFold x == caseFold r) s0 (n, w) (i, wi) ha (by simpa [cur] using hb)
    simp only [] at hor
    have hbr := isFirstBy_range _ _ _ hb
    have har := isFirstBy_range _ _ _ ha
    simp only [] at hbr har
    have hpred : ∀ (Q : Nat → Bool) x, (Q x || (r :: rest).any (fun r' => caseFold x == caseFold r')) =
        ((Q x || (caseFold x == caseFold r)) || rest.any (fun r' => caseFold x == caseFold r')) := by
      intro Q x; simp only [List.any_cons, Bool.or_assoc]
    by_cases hc : i ≠ -1 ∧ (n = -1 ∨ i < n)
    · rw [if_pos hc]
      have hc' : n = -1 ∨ (0 ≤ i ∧ i < n) := by
        rcases hc.2 with h | h
        · exact Or.inl h
        · right; rcases hbr with h' | h'
          · exact absurd h' hc.1
          · exact ⟨h'.1, h⟩
      rw [if_pos hc'] at hor
      have hi0 : 0 ≤ i := by rcases hbr with h' | h'; exact absurd h' hc.1; exact h'.1
      by_cases hz : i = 0
      · rw [if_pos hz]
        refine ⟨wi, ?_⟩
        have := firstBy_zero' _ (fun x => P x || (r :: rest).any (fun r' => caseFold x == caseFold r')) ?_ s0 (i, wi) hor hz
        · rw [hz] at this; exact this
        · intro x hx
          rw [hpred P x, hx]; rfl
      · rw [if_neg hz, if_neg (by omega)]
        have hcur : (cur s0 n).take i.toNat = cur s0 i := by
          unfold cur
          rw [if_pos hi0]
          by_cases hn : 0 ≤ n
          · have hlt : i < n := by rcases hc' with h | h; omega; exact h.2
            rw [if_pos hn, List.take_take, Nat.min_eq_left (by omega)]
          · rw [if_neg hn]
        rw [hcur]
        obtain ⟨w', hw'⟩ := ih hvrest (fun x => P x || (caseFold x == caseFold r)) s0 i wi hor
        exact ⟨w', isFirstBy_congr _ _ (fun x => (hpred P x).symm) s0 _ hw'⟩
    · rw [if_neg hc]
      have ha' : IsFirstBy (fun x => P x || (caseFold x == caseFold r)) s0 (n, w) := by
        by_cases hc' : n = -1 ∨ (0 ≤ i ∧ i < n)
        · rw [if_pos hc'] at hor
          have ho : i = -1 := by
            refine Classical.byContradiction fun hne => ?_
            apply hc
            refine ⟨hne, ?_⟩
            rcases hc' with h | h
            · exact Or.inl h
            · exact Or.inr h.2
          have hn : n = -1 := by
            rcases hc' with h | h
            · exact h
            · omega
          subst ho; subst hn
          exact isFirstBy_none_any _ _ _ _ hor
        · rw [if_neg hc'] at hor; exact hor
      obtain ⟨w', hw'⟩ := ih hvrest (fun x => P x || (caseFold x == caseFold r)) s0 n w ha'
      exact ⟨w', isFirstBy_congr _ _ (fun x => (hpred P x).symm) s0 _ hw'⟩

theorem contains_map_eq_any {α : Type} (f : α → Nat) (y : Nat) : ∀ l : List α,
    (l.map f).contains y = l.any (fun p => y == f p)
  | [] => rfl
  | a :: l => by
    rw [List.map_cons, List.contains_cons, List.any_cons, contains_map_eq_any f y l]

/-- the folded-set membership predicate as a disjunction over the decoded runes of `chars` -/
theorem anyP_eq_any (cs : Bytes) (x : Nat) :
    anyP cs x = ((dec cs).map (·.1)).any (fun r => caseFold x == caseFold r) := by
  unfold anyP fdec
  rw [contains_map_eq_any, List.any_map]
  rfl

/-- second strategy of IndexAny: first code point of `s` fold-equal to some code point of `chars` -/
theorem anyByChars_spec (cfg : Cfg) (s cs : Bytes) :
    ∃ w, IsFirstBy (anyP cs) s (anyByChars cfg ((dec cs).map (·.1)) s (-1), w) := by
  have hval : ∀ r ∈ (dec cs).map (·.1), validRune r := by
    intro r hr
    obtain ⟨p, hp, rfl⟩ := List.mem_map.mp hr
    obtain ⟨j, _, hjl, rfl⟩ := mem_dec_boundary cs p hp
    exact decodeRune_valid _ (by intro he; have := congrArg List.length he; simp at this; omega)
  have h0 : IsFirstBy (fun _ => false) s (-1, 0) := Or.inl ⟨rfl, fun _ _ _ => rfl⟩
  obtain ⟨w, hw⟩ := anyByChars_firstBy cfg _ hval (fun _ => false) s (-1) 0 h0
  have hcur : cur s (-1) = s := by unfold cur; rw [if_neg (by omega)]
  rw [hcur] at hw
  exact ⟨w, isFirstBy_congr _ _ (fun x => by rw [anyP_eq_any]; simp) s _ hw⟩

end A
