import SC.Proofs.FoldOrb



theorem T3.get_mem (t : T3) (h : Nat) :
    t.get h = (0, 0, 0) ∨ (h, (t.get h).1, (t.get h).2.1, (t.get h).2.2) ∈ t.toList := by
  induction t with
  | leaf => simp [T3.get]
  | node l k a b c r ihl ihr =>
    simp only [T3.get, T3.toList]
    split
    · rcases ihl with h0 | hm
      · exact Or.inl h0
      · exact Or.inr (by simp [hm])
    · split
      · rcases ihr with h0 | hm
        · exact Or.inl h0
        · exact Or.inr (by simp [hm])
      · have : h = k := by omega
        subst this; right; simp

namespace Fold











theorem inK_iff (u : Nat) : inK u = true ↔ u ∈ orbKeys := by
  constructor
  · intro h
    simp only [inK, beq_iff_eq] at h
    rcases T.get_mem Gen.Uni.orbTree u with h0 | hm
    · rw [h0] at h; simp at h
    · exact List.mem_map.mpr ⟨_, hm, rfl⟩
  · intro h
    -- every stored orbit entry carries flag 1 and is found under its key (checked below)
    exact (List.all_eq_true.mp (by decide +kernel : orbKeys.all inK = true)) u h


/-- per-key check on plain values (no tables involved) -/
def keyLawOf (r m : Nat) (cl : List Nat) (ul fe : Nat × Nat) (mInK : Bool) (minsOK : Bool) : Bool :=
  mInK && cl.contains r && minsOK && cl.all (fun x => candOf ul fe x) &&
  (cl.contains ul.1 && cl.contains ul.2 && (fe.1 == 0 || (cl.contains fe.1 && cl.contains fe.2)))

theorem keyLawOf_spec (r m : Nat) (cl : List Nat) (ul fe : Nat × Nat) (mInK minsOK : Bool)
    (h : keyLawOf r m cl ul fe mInK minsOK = true) :
    mInK = true ∧ r ∈ cl ∧ minsOK = true ∧ (∀ x ∈ cl, candOf ul fe x = true) ∧
    (∀ c, candOf ul fe c = true → c ∈ cl) := by
  simp only [keyLawOf, Bool.and_eq_true, Bool.or_eq_true, beq_iff_eq, List.contains_iff_mem, List.all_eq_true] at h
  obtain ⟨⟨⟨⟨h1, h2⟩, h3⟩, h4⟩, ⟨hu1, hu2⟩, hf⟩ := h
  refine ⟨h1, h2, h3, h4, ?_⟩
  intro c hc
  simp only [candOf, Bool.and_eq_true, Bool.or_eq_true, beq_iff_eq, bne_iff_ne, ne_eq] at hc
  rcases hc with (hc | hc) | ⟨hf0, hc⟩
  · rw [hc]; exact hu1
  · rw [hc]; exact hu2
  · rcases hf with hf | hf
    · exact absurd hf hf0
    · rcases hc with hc | hc
      · rw [hc]; exact hf.1
      · rw [hc]; exact hf.2

/-- per-key checks, all evaluated by the kernel over the 2878 orbit members -/
def keyLaw (r : Nat) : Bool :=
  forceNat (orbMin r) fun m =>
    keyLawOf r m (cls m) (ulOf r) (foldsExcl r) (inK m) ((cls m).all (fun x => orbMin x == m))

set_option maxRecDepth 4000 in
theorem keyLaw_all : orbKeys.all keyLaw = true := by decide +kernel

/-- table-shape checks used for runes outside every orbit -/
def ulShapeOK : Bool :=
  Gen.T121.ulTree.toList.all fun e => (inK e.2.1 && inK e.2.2) || e.2.1 == 0x130 || e.2.2 == 0x131
def fmeShapeOK : Bool :=
  Gen.T121.fmeTree.toList.all fun e => inK e.2.1 || (e.2.2.1 == e.2.1 && e.2.2.2 == e.2.1)
def asciiShapeOK : Bool :=
  (List.range 129).all fun r => !((0x41 ≤ r && r ≤ 0x5A) || (0x61 ≤ r && r ≤ 0x7A)) || inK r
theorem ulShapeOK_true : ulShapeOK = true := by decide +kernel
theorem fmeShapeOK_true : fmeShapeOK = true := by decide +kernel
theorem asciiShapeOK_true : asciiShapeOK = true := by decide +kernel
theorem specialsOK : inK 0x1C5 = true ∧ inK 0x1C8 = true ∧ inK 0x1CB = true ∧ inK 0x1F2 = true := by decide +kernel
end Fold
