import SC.Proofs.Cmp
namespace Utf8
open A

section
variable (fold : Nat → Nat)



variable (hidem : ∀ r, fold (fold r) = fold r)
variable (hascii : ∀ b : UInt8, b < 0x80 → fold b.toNat = (lower b).toNat)

include hidem hascii in
theorem cmpRunesB_spec (fuel : Nat) (s t : Bytes) (hf : s.length ≤ fuel) :
    cmpRunesB fold fuel s t = lexCmp (fdec fold s) (fdec fold t) := by
  induction fuel generalizing s t with
  | zero =>
    have : s = [] := by cases s <;> simp_all
    subst this
    cases t <;> simp [cmpRunesB, fdec, dec, decSkip, lexCmp]
  | succ fuel ih =>
    cases s with
    | nil => cases t <;> simp [cmpRunesB, fdec, dec, decSkip, lexCmp]
    | cons a s =>
      cases t with
      | nil => simp [cmpRunesB, fdec, dec, decSkip, lexCmp]
      | cons b t =>
        have hw := decodeRune_width_pos a s
        simp only [cmpRunesB]
        -- normalise both sides to the general (non-ASCII) form
        have hsr : (if a < 0x80 then (lower a).toNat else fold (decodeRune (a :: s)).1) = fold (decodeRune (a :: s)).1 := by
          split
          · rename_i ha
            have : decodeRune (a :: s) = (a.toNat, 1) := by simp [decodeRune, ha]
            rw [this, hascii _ ha]
          · rfl
        have hs' : (if a < 0x80 then s else (a :: s).drop (decodeRune (a :: s)).2) = (a :: s).drop (decodeRune (a :: s)).2 := by
          split
          · rename_i ha
            have : decodeRune (a :: s) = (a.toNat, 1) := by simp [decodeRune, ha]
            rw [this]; simp
          · rfl
        have htr : (if b < 0x80 then (lower b).toNat else fold (decodeRune (b :: t)).1) = fold (decodeRune (b :: t)).1 := by
          split
          · rename_i hb
            have : decodeRune (b :: t) = (b.toNat, 1) := by simp [decodeRune, hb]
            rw [this, hascii _ hb]
          · rfl
        have ht' : (if b < 0x80 then t else (b :: t).drop (decodeRune (b :: t)).2) = (b :: t).drop (decodeRune (b :: t)).2 := by
          split
          · rename_i hb
            have : decodeRune (b :: t) = (b.toNat, 1) := by simp [decodeRune, hb]
            rw [this]; simp
          · rfl
        rw [hsr, hs', htr, ht', hidem]
        have hlen : ((a :: s).drop (decodeRune (a :: s)).2).length ≤ fuel := by
          simp at hf ⊢; omega
        simp only [fdec]
        rw [dec_cons a s, dec_cons b t]
        simp only [List.map_cons, lexCmp]
        by_cases h1 : fold (decodeRune (a :: s)).1 = fold (decodeRune (b :: t)).1
        · rw [if_pos (Or.inl h1), if_pos h1]
          exact ih _ _ hlen
        · have : ¬ (fold (decodeRune (a :: s)).1 = fold (decodeRune (b :: t)).1 ∨ fold (decodeRune (a :: s)).1 = fold (decodeRune (b :: t)).1) := by
            intro h; rcases h with h | h <;> exact h1 h
          rw [if_neg this, if_neg h1]
          simp only [clamp]
          split <;> split <;> (try split) <;> omega

include hidem hascii in
theorem cmpAsciiB_spec (s t : Bytes) :
    cmpAsciiB fold s t = lexCmp (fdec fold s) (fdec fold t) := by
  induction s generalizing t with
  | nil => cases t with
    | nil => simp [cmpAsciiB, fdec, dec, decSkip, lexCmp, clamp]
    | cons b t =>
      simp only [cmpAsciiB, fdec]
      rw [dec_cons]; simp [lexCmp, clamp, dec, decSkip]
  | cons a s ih =>
    cases t with
    | nil =>
      simp only [cmpAsciiB, fdec]
      rw [dec_cons]; simp [lexCmp, clamp, dec, decSkip]; omega
    | cons b t =>
      simp only [cmpAsciiB]
      by_cases hu : (a ||| b) &&& 0x80 ≠ 0
      · rw [if_pos hu]
        exact cmpRunesB_spec fold hidem hascii _ _ _ (by simp)
      · rw [if_neg hu]
        have hab := or_and_high a b hu
        have ha : a < 0x80 := hab.1
        have hb : b < 0x80 := hab.2
        simp only [fdec]
        rw [dec_ascii a s ha, dec_ascii b t hb]
        simp only [List.map_cons, lexCmp, hascii a ha, hascii b hb]
        by_cases h1 : lower a = lower b
        · have : a = b ∨ lower a = lower b := Or.inr h1
          rw [if_pos this, if_pos (by rw [h1])]
          exact ih t
        · have : ¬ (a = b ∨ lower a = lower b) := by
            intro h; rcases h with h | h
            · exact h1 (by rw [h])
            · exact h1 h
          have h2 : ¬ (lower a).toNat = (lower b).toNat := fun h => h1 (UInt8.toNat_inj.mp h)
          rw [if_neg this, if_neg h2]
          simp [UInt8.lt_iff_toNat_lt]

include hidem hascii in
/-- C07 for Compare: the strcase and bytcase models agree on every pair of byte strings -/
theorem compare_parity (s t : Bytes) : cmpAscii fold s t = cmpAsciiB fold s t := by
  rw [cmpAscii_spec fold hidem hascii, cmpAsciiB_spec fold hidem hascii]
end
#print axioms compare_parity
end Utf8
