import SC.Proofs.SrcNamesB
import SC.Proofs.SrcCountRune
import SC.Proofs.RCountByte
/-!
`countRune` (the K/S relatives counted by `Count` for a one-byte needle) on the regenerated program text of `bytcase/bytcase.go`, relative to
`indexRuneCase`: `utf8.RuneLen`, the loop `indexRuneCase` → count → re-slice `s[i+n:]` (in range because the match is an encoded
occurrence), by induction with an existentially quantified fuel bound.
-/
open GoSsa Gen.Src Utf8

namespace GoSsa.Byt

theorem find_countRune : P.find? (fun fn => fn.name == "countRune") = some byt_countRune := by rfl
theorem bi_RuneLen (i : Int) (h : Heap) : builtin true "unicode/utf8.RuneLen" [.int i] h = some (.ok [.int (runeLenGo i)] h) := rfl


macro "cr_run" "[" ds:Lean.Parser.Tactic.simpLemma,* "]" : tactic =>
  `(tactic| src_run [byt_countRune, byt_countRune_b0, byt_countRune_b1, byt_countRune_b2, byt_countRune_b3, Str.run_call_unfold, bi_RuneLen, nb_indexRuneCase,
      find_indexRuneCase, intOf, $ds,*])

set_option maxHeartbeats 2000000 in
theorem countRune_loop (root : Nat) (r : Nat) (hv : validRune r) (hr : r ≠ 0xFFFD) (h : Heap)
    (hI : ∀ (s' : Bytes) (off' : Nat), ∃ N, ∀ fuel, N ≤ fuel →
      run P true fuel (Frame.entry byt_indexRuneCase [.str s' root off', .int r]) h = .ok [.int (A.indexRuneCase (cfg true) s' r)] h) :
    ∀ (k : Nat) (s' : Bytes) (off' n : Nat), s'.length < k → s'.length < 4611686018427387904 → n + s'.length < 4611686018427387904 →
      ∃ N, ∀ (env : Array (List Val)), env.size = 10 → env.getD 1 [] = [.int r] → env.getD 2 [] = [.int (runeLen r : Nat)] →
        env.getD 3 [] = [.str s' root off'] → env.getD 4 [] = [.int n] → ∀ fuel, N ≤ fuel →
        run P true fuel ⟨byt_countRune, env, 1, [.call 5 "indexRuneCase" [.r 3, .r 1], .bin 6 .eq .i64 (.r 5) (.c (-1))], .cond (.r 6) 2 3⟩ h
          = .ok [.int (A.countRune (cfg true) r k s' n)] h := by
  intro k
  induction k with
  | zero => intro s' off' n hk; omega
  | succ k ih =>
    intro s' off' n hk hsl hnl
    obtain ⟨N1, h1⟩ := hI s' off'
    have hrl := A.runeLen_eq_encode r hv
    rcases A.indexRuneCase_isFirstRune (cfg true) s' r hv hr with ⟨hi, _⟩ | ⟨i, hi, _, hlt, hd, _⟩
    · refine ⟨N1 + 10, fun env hsz e1 e2 e3 e4 fuel hf => ?_⟩
      simp [hsz] at e1 e2 e3 e4
      obtain ⟨m, rfl⟩ : ∃ m, fuel = N1 + m + 10 := ⟨fuel - (N1 + 10), by omega⟩
      simp only [A.countRune, hi, if_true]
      cr_run [hsz, e1, e2, e3, e4, h1, hi]
    · have hw := decodeRune_width_le (s'.drop i)
      rw [hd] at hw
      simp only [List.length_drop] at hw
      have hle : i + runeLen r ≤ s'.length := by omega
      have hel : 1 ≤ runeLen r := by
        have := encode_ne_nil r
        have := List.length_pos_iff.mpr this
        omega
      obtain ⟨N2, h2⟩ := ih (s'.drop (i + runeLen r)) (off' + (i + runeLen r)) (n + 1) (by simp; omega) (by simp; omega) (by simp; omega)
      simp only [byt_countRune, byt_countRune_b0, byt_countRune_b1, byt_countRune_b2, byt_countRune_b3] at h2
      refine ⟨N1 + N2 + 10, fun env hsz e1 e2 e3 e4 fuel hf => ?_⟩
      simp [hsz] at e1 e2 e3 e4
      obtain ⟨m, rfl⟩ : ∃ m, fuel = (N1 + N2 + m) + 7 := ⟨fuel - (N1 + N2 + 7), by omega⟩
      have hne : ¬ ((i : Int) = -1) := by omega
      have hnn : ¬ ((i : Int) < 0) := by omega
      have hA : A.countRune (cfg true) r (k + 1) s' n = A.countRune (cfg true) r k (s'.drop (i + runeLen r)) (n + 1) := by
        simp only [A.countRune, hi, hne, hnn, if_false, Int.toNat_natCast]
        have : ¬ (i + runeLen r > s'.length) := by omega
        simp [this]
      rw [hA]
      have hw1 : wrap .i64 ((n : Int) + 1) = (n : Int) + 1 := Str.wrap_i64_small _ (by omega) (by omega)
      have hw2 : wrap .i64 ((i : Int) + (runeLen r : Int)) = (i : Int) + (runeLen r : Int) := Str.wrap_i64_small _ (by omega) (by omega)
      have hb1 : (0 : Int) ≤ (i : Int) + (runeLen r : Int) := by omega
      have hb2 : (i : Int) + (runeLen r : Int) ≤ (s'.length : Int) := by omega
      have htn : ((i : Int) + (runeLen r : Int)).toNat = i + runeLen r := by omega
      have htk : List.take (s'.length - (i + runeLen r)) (List.drop (i + runeLen r) s') = List.drop (i + runeLen r) s' := List.take_of_length_le (by simp)
      cr_run [hsz, e1, e2, e3, e4, h1, hi, hne, hw1, hw2, hb1, hb2, htn, htk]
      rw [h2 _ (by simp [hsz]) (by simp [hsz, e1]) (by simp [hsz, e2]) (by simp [hsz]) (by simp [hsz]) _ (by omega)]


/-- `countRune(s, r)` on the program text, relative to `indexRuneCase`: for a valid rune other than U+FFFD (the callers pass U+212A and
    U+017F) it returns what the algorithm model's `A.countRune` returns — the number of code points of `s` equal to `r` (`A.countRune_spec`) -/
theorem countRune (s : Bytes) (root off : Nat) (r : Nat) (hv : validRune r) (hr : r ≠ 0xFFFD) (h : Heap) (hls : s.length < 4611686018427387904)
    (hI : ∀ (s' : Bytes) (off' : Nat), ∃ N, ∀ fuel, N ≤ fuel →
      run P true fuel (Frame.entry byt_indexRuneCase [.str s' root off', .int r]) h = .ok [.int (A.indexRuneCase (cfg true) s' r)] h) :
    Ret P true byt_countRune [.str s root off, .int r] h [.int (A.countRune (cfg true) r (s.length + 1) s 0)] h := by
  obtain ⟨N, hN⟩ := countRune_loop root r hv hr h hI (s.length + 1) s off 0 (by omega) hls (by omega)
  simp only [byt_countRune, byt_countRune_b0, byt_countRune_b1, byt_countRune_b2, byt_countRune_b3] at hN
  refine ⟨N + 3, fun fuel hf => ?_⟩
  obtain ⟨m, rfl⟩ : ∃ m, fuel = (N + m) + 2 := ⟨fuel - (N + 2), by omega⟩
  rw [Frame.entry]
  have hrl := Str.runeLenGo_valid r hv
  cr_run [hrl]
  rw [hN _ (by simp) (by simp) (by simp) (by simp) (by simp) _ (by omega)]

end GoSsa.Byt
