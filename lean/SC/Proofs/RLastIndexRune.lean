import SC.Proofs.LastBy
/-!
`lastIndexRune`: the last code point of `s` in the fold orbit of `r` (FoldMap members, upper/lower pair, or —
strcase, caseless rune — a backward byte comparison).
-/
namespace A
open Utf8 Fold

/-- strcase's backward byte comparison: the greatest start of an occurrence of `pat` -/
theorem lastBytes_spec (pat : Bytes) : ∀ (s : Bytes) (o : Nat),
    (lastBytes pat s o = -1 ∧ ∀ i, i < s.length → ¬ pat <+: s.drop i) ∨
    (∃ n, lastBytes pat s o = ((o + n : Nat) : Int) ∧ n < s.length ∧ pat <+: s.drop n ∧
        ∀ i, n < i → i < s.length → ¬ pat <+: s.drop i)
  | [], o => Or.inl ⟨rfl, fun i hi => by simp at hi⟩
  | b :: rest, o => by
    simp only [lastBytes]
    rcases lastBytes_spec pat rest (o + 1) with ⟨h1, hn⟩ | ⟨n, h1, hnl, hocc, hmax⟩
    · rw [h1]
      simp only [show ¬ ((-1 : Int) ≥ 0) by omega, if_false]
      by_cases hp : pat.isPrefixOf (b :: rest) = true
      · rw [if_pos hp]
        right
        refine ⟨0, rfl, by simp, by simpa using List.isPrefixOf_iff_prefix.mp hp, ?_⟩
        intro i hi hil
        cases i with
        | zero => omega
        | succ i => simpa using hn i (by simpa using hil)
      · rw [if_neg hp]
        left; refine ⟨rfl, ?_⟩
        intro i hil
        cases i with
        | zero => intro h; exact hp (List.isPrefixOf_iff_prefix.mpr (by simpa using h))
        | succ i => simpa using hn i (by simpa using hil)
    · rw [h1]
      have : ((o + 1 + n : Nat) : Int) ≥ 0 := Int.natCast_nonneg _
      rw [if_pos this]
      right
      refine ⟨n + 1, by congr 1; omega, by simpa using hnl, by simpa using hocc, ?_⟩
      intro i hi hil
      cases i with
      | zero => omega
      | succ i => simpa using hmax i (by omega) (by simpa using hil)

/-- a byte-pattern search for the encoding of a valid rune is a last-by search for that rune -/
theorem lastBytes_isLastBy (s : Bytes) (u : Nat) (hv : validRune u) (hu : u ≠ 0xFFFD) :
    IsLastBy (· == u) s (lastBytes (encode u) s 0) := by
  have hrune : ∀ i, i < s.length → IsBoundary s i → ((decodeRune (s.drop i)).1 == u) = true → encode u <+: s.drop i := by
    intro i hil hb hp
    have hne : s.drop i ≠ [] := by intro he; have := congrArg List.length he; simp at this; omega
    exact (occurs_iff_rune_at s u hv i).mpr ⟨hb, hil, decode_of_rune _ _ hne (beq_iff_eq.mp hp) hu⟩
  rcases lastBytes_spec (encode u) s 0 with ⟨h1, hn⟩ | ⟨n, h1, hnl, hocc, hmax⟩
  · left; refine ⟨h1, ?_⟩
    intro i hb hil
    cases hp : (decodeRune (s.drop i)).1 == u with
    | false => exact hp
    | true => exact absurd (hrune i hil hb hp) (hn i hil)
  · right
    obtain ⟨hb, _, hd⟩ := (occurs_iff_rune_at s u hv n).mp hocc
    refine ⟨n, by simpa using h1, hb, hnl, by rw [hd]; exact beq_self_eq_true u, ?_⟩
    intro j hbj hlt hjl
    cases hp : (decodeRune (s.drop j)).1 == u with
    | false => exact hp
    | true => exact absurd (hrune j hjl hbj hp) (hmax j hlt hjl)

/-- the members the FoldMap loop compares with are exactly the orbit -/
theorem members_eq_orbit (u a b c d : Nat) (hu0 : u ≠ 0) (h : foldMap u = some (a, b, c, d)) (x : Nat) :
    (([a, b, c, d].takeWhile (· != 0)).contains x) = (caseFold x == caseFold u) := by
  obtain ⟨ha, hz1, hz2, horb⟩ := foldMap_some u a b c d hu0 h
  subst ha
  have ha0 : (a != 0) = true := bne_iff_ne.mpr hu0
  cases hq : ([a, b, c, d].takeWhile (· != 0)).contains x with
  | true =>
    symm; apply beq_iff_eq.mpr; apply (horb x).mpr
    have hm := List.contains_iff_mem.mp hq
    have hm' := mem_takeWhile_pred _ _ _ hm
    have hm'' := (List.takeWhile_sublist _).subset hm
    simp only [bne_iff_ne, ne_eq] at hm'
    simp only [List.mem_cons, List.not_mem_nil, or_false] at hm''
    rcases hm'' with h | h | h | h
    · exact Or.inl h
    · exact Or.inr ⟨hm', Or.inl h⟩
    · exact Or.inr ⟨hm', Or.inr (Or.inl h)⟩
    · exact Or.inr ⟨hm', Or.inr (Or.inr h)⟩
  | false =>
    symm
    cases hb : caseFold x == caseFold a with
    | false => rfl
    | true =>
      exfalso
      have hnm : x ∉ [a, b, c, d].takeWhile (· != 0) := by
        intro hm; rw [List.contains_iff_mem.mpr hm] at hq; cases hq
      apply hnm
      rcases (horb x).mp (beq_iff_eq.mp hb) with h | ⟨hx0, h | h | h⟩
      · subst h; simp [List.takeWhile_cons, ha0]
      · subst h; simp [List.takeWhile_cons, ha0, bne_iff_ne.mpr hx0]
      · subst h
        have hb0 : b ≠ 0 := fun hb0 => hx0 (hz1 hb0).1
        simp [List.takeWhile_cons, ha0, bne_iff_ne.mpr hb0, bne_iff_ne.mpr hx0]
      · subst h
        have hc0 : c ≠ 0 := fun hc0 => hx0 (hz2 hc0)
        have hb0 : b ≠ 0 := fun hb0 => hc0 (hz1 hb0).1
        simp [List.takeWhile_cons, ha0, bne_iff_ne.mpr hb0, bne_iff_ne.mpr hc0, bne_iff_ne.mpr hx0]

theorem fold_fffd (x : Nat) : (caseFold x == caseFold 0xFFFD) = (x == 0xFFFD) := by
  have h1 : caseFold 0xFFFD = 0xFFFD := caseFold_runeError
  rw [h1]
  cases hx : x == 0xFFFD with
  | true => rw [beq_iff_eq.mp hx, h1]; rfl
  | false =>
    cases hc : caseFold x == 0xFFFD with
    | false => rfl
    | true =>
      exfalso
      have hk : (0xFFFD : Nat) ∉ orbKeys := by decide +kernel
      have := (orbit_trivial 0xFFFD x hk).mp (by rw [h1]; exact beq_iff_eq.mp hc)
      rw [this] at hx; simp at hx

/-- C08/C10: `lastIndexRune(s, r)` for a valid non-ASCII rune (or U+FFFD): the last code point in the orbit of `r` -/
theorem lastIndexRune_isLastBy (cfg : Cfg) (s : Bytes) (u : Nat) (hv : validRune u) (h80 : 0x80 ≤ u) :
    IsLastBy (fun x => caseFold x == caseFold u) s (lastIndexRune cfg s (u : Int)) := by
  unfold lastIndexRune
  by_cases hf : (u : Int) = 0xFFFD
  · rw [if_pos hf]
    have hu : u = 0xFFFD := by omega
    have hcongr : ∀ x, (x == runeError) = (caseFold x == caseFold u) := by
      intro x; rw [hu]; exact (fold_fffd x).symm
    exact isLastBy_congr (· == runeError) _ hcongr s _ (lastRuneBy_isLastBy _ s)
  · rw [if_neg hf]
    have hu' : u ≠ 0xFFFD := by omega
    have hvi : S.validRuneI (u : Int) = true := by
      simp only [S.validRuneI, decide_eq_true_eq]
      exact ⟨by omega, by simpa using hv⟩
    rw [if_neg (by simp [hvi])]
    rw [Int.toNat_natCast]
    have hu0 : u ≠ 0 := by omega
    cases hfm : foldMap u with
    | some e =>
      obtain ⟨a, b, c, d⟩ := e
      show IsLastBy _ s (lastIndexRuneMembers s a b c d)
      unfold lastIndexRuneMembers
      apply isLastBy_congr _ _ (members_eq_orbit u a b c d hu0 hfm)
      exact lastRuneBy_isLastBy _ s
    | none =>
      show IsLastBy _ s (lastIndexRunePair cfg s u)
      unfold lastIndexRunePair
      have horb := orbit_of_foldMap_none u hfm
      by_cases hsame : (toUpperLower u).1 = (toUpperLower u).2.1 ∧ ¬ isByt cfg = true
      · rw [if_pos hsame]
        -- the single candidate is the rune itself
        have hself : (toUpperLower u).1 = u := by
          have := horb u
          rw [beq_self_eq_true, ← hsame.1, Bool.or_self] at this
          exact (beq_iff_eq.mp this.symm).symm
        apply isLastBy_congr (· == u) _ _ s _ (lastBytes_isLastBy s u hv hu')
        intro x; rw [horb x, ← hsame.1, Bool.or_self, hself]
      · rw [if_neg hsame]
        apply isLastBy_congr _ _ (fun x => (horb x).symm)
        exact lastRuneBy_isLastBy _ s

end A
