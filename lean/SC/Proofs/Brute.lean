import SC.Proofs.SkipLoop
namespace Utf8
open A

/-- what bruteForceIndexUnicode calls; `skipOK r1` is the test under which the code skips two runes
    (`r1 != u0`, `r1 != u0 && r1 != l0`, or `!hasFolds0 && r1 != u0 && r1 != l0` in the three variants) -/
structure BEnv where
  cand0 : Nat → Bool
  cand1 : Nat → Bool
  skipOK : Nat → Bool
  hp : Bytes → Bool × Bool
  t : Nat

/-- the loops of bruteForceIndexUnicode (strcase.go:359-500), one parametric model for the three variants -/
def bruteLoop (E : BEnv) (s : Bytes) : Nat → Nat → Int
  | 0, _ => -2
  | fuel+1, i =>
    if i < E.t then
      let p0 := decodeRune (s.drop i)
      if E.cand0 p0.1 = false then bruteLoop E s fuel (i + p0.2)
      else if i + p0.2 ≥ E.t then -1
      else
        let p1 := decodeRune (s.drop (i + p0.2))
        let next := if E.skipOK p1.1 then i + p0.2 + p1.2 else i + p0.2
        if E.cand1 p1.1 = false then bruteLoop E s fuel next
        else
          let m := E.hp (s.drop (i + p0.2 + p1.2))
          if m.1 then (i : Int)
          else if m.2 then -1
          else bruteLoop E s fuel next
    else -1

section
variable (fold : Nat → Nat)

structure BHyp (E : BEnv) (s sub : Bytes) (f0 f1 : Nat) (fn : List Nat) : Prop where
  ht : E.t ≤ s.length
  hsub : fdec fold sub = f0 :: f1 :: fn
  hc0 : ∀ r, E.cand0 r = true ↔ fold r = f0
  hc1 : ∀ r, E.cand1 r = true ↔ fold r = f1
  hskip : ∀ r, E.skipOK r = true → E.cand0 r = false
  hB : ∀ i, IsBoundary s i → Match fold (s.drop i) sub → i + (decodeRune (s.drop i)).2 < E.t
  hP : ∀ y, ((E.hp y).1 = true ↔ fn <+: fdec fold y) ∧
            ((E.hp y).1 = false → (E.hp y).2 = true → ∀ k, ¬ fn <+: (fdec fold y).drop k)

variable {fold}

theorem width_pos_of_lt (s : Bytes) (i : Nat) (h : i < s.length) : 1 ≤ (decodeRune (s.drop i)).2 := by
  cases hx : s.drop i with
  | nil => have : (s.drop i).length = 0 := by rw [hx]; rfl
           simp only [List.length_drop] at this; omega
  | cons c r => exact decodeRune_width_pos c r

theorem bruteLoop_correct {E s sub f0 f1 fn} (H : BHyp fold E s sub f0 f1 fn) :
    ∀ fuel i, IsBoundary s i → s.length + 1 ≤ fuel + i →
      (∀ j, IsBoundary s j → j < i → ¬ Match fold (s.drop j) sub) →
      IsIndex fold s sub (bruteLoop E s fuel i) := by
  intro fuel
  induction fuel with
  | zero => intro i hi hf _; have := isBoundary_le s i hi; omega
  | succ fuel ih =>
    intro i hi hf hinv
    simp only [bruteLoop]
    have none_from : ∀ lo, E.t ≤ lo → (∀ j, IsBoundary s j → j < lo → ¬ Match fold (s.drop j) sub) →
        IsIndex fold s sub (-1) := by
      intro lo hlo hbelow
      left; refine ⟨rfl, ?_⟩
      intro j hj hm
      by_cases hjl : j < lo
      · exact hbelow j hj hjl hm
      · have := H.hB j hj hm; omega
    rcases Nat.lt_or_ge i E.t with hit | hit'
    case inr => rw [if_neg (by omega)]; exact none_from i hit' hinv
    rw [if_pos hit]
    have hilen : i < s.length := Nat.lt_of_lt_of_le hit H.ht
    have hw0 := width_pos_of_lt s i hilen
    have hnext := isBoundary_next s i hi hilen
    have hmi := match_iff fold (s.drop i) sub f0 f1 fn H.hsub
    rw [List.drop_drop] at hmi
    -- extending the invariant across the rune at i once ¬Match i is known
    have ext1 : ¬ Match fold (s.drop i) sub →
        ∀ j, IsBoundary s j → j < i + (decodeRune (s.drop i)).2 → ¬ Match fold (s.drop j) sub := by
      intro hnm j hj hlt
      by_cases hji : j < i
      · exact hinv j hj hji
      · by_cases hje : j = i
        · subst hje; exact hnm
        · exact absurd hj (no_boundary_inside s i j hi hilen (by omega) hlt)
    by_cases hc0 : E.cand0 (decodeRune (s.drop i)).1 = false
    · rw [if_pos hc0]
      have hnm : ¬ Match fold (s.drop i) sub := by
        rw [hmi]; rintro ⟨_, h2, _⟩
        rw [(H.hc0 _).mpr h2] at hc0; cases hc0
      exact ih _ hnext (by omega) (ext1 hnm)
    · rw [if_neg hc0]
      by_cases hge : i + (decodeRune (s.drop i)).2 ≥ E.t
      · rw [if_pos hge]
        -- no match at i (second rune would be ≥ t) and none later
        have hnm : ¬ Match fold (s.drop i) sub := fun hm => by have := H.hB i hi hm; omega
        exact none_from _ hge (ext1 hnm)
      · rw [if_neg hge]
        have hp1len : i + (decodeRune (s.drop i)).2 < s.length := by have := H.ht; omega
        have hw1 := width_pos_of_lt s _ hp1len
        have hnext2 := isBoundary_next s _ hnext hp1len
        -- after ¬Match i: the next candidate start, possibly skipping the second rune
        have after : ¬ Match fold (s.drop i) sub →
            IsIndex fold s sub (bruteLoop E s fuel
              (if E.skipOK (decodeRune (s.drop (i + (decodeRune (s.drop i)).2))).1 = true
               then i + (decodeRune (s.drop i)).2 + (decodeRune (s.drop (i + (decodeRune (s.drop i)).2))).2
               else i + (decodeRune (s.drop i)).2)) := by
          intro hnm
          by_cases hsk : E.skipOK (decodeRune (s.drop (i + (decodeRune (s.drop i)).2))).1 = true
          · rw [if_pos hsk]
            apply ih _ hnext2 (by omega)
            intro j hj hlt
            by_cases hj1 : j < i + (decodeRune (s.drop i)).2
            · exact ext1 hnm j hj hj1
            · by_cases hje : j = i + (decodeRune (s.drop i)).2
              · -- the skipped position: its first rune is not a candidate
                subst hje
                intro hm
                have h2 := ((match_iff fold _ sub f0 f1 fn H.hsub).mp hm).2.1
                have := H.hskip _ hsk
                rw [(H.hc0 _).mpr h2] at this; cases this
              · exact absurd hj (no_boundary_inside s _ j hnext hp1len (by omega) hlt)
          · rw [if_neg hsk]
            exact ih _ hnext (by omega) (ext1 hnm)
        by_cases hc1 : E.cand1 (decodeRune (s.drop (i + (decodeRune (s.drop i)).2))).1 = false
        · rw [if_pos hc1]
          have hnm : ¬ Match fold (s.drop i) sub := by
            rw [hmi]; rintro ⟨_, _, _, h4, _⟩
            rw [(H.hc1 _).mpr h4] at hc1; cases hc1
          exact after hnm
        · rw [if_neg hc1]
          have hc0' : E.cand0 (decodeRune (s.drop i)).1 = true := by
            cases h : E.cand0 (decodeRune (s.drop i)).1 with | true => rfl | false => exact absurd h hc0
          have hc1' : E.cand1 (decodeRune (s.drop (i + (decodeRune (s.drop i)).2))).1 = true := by
            cases h : E.cand1 (decodeRune (s.drop (i + (decodeRune (s.drop i)).2))).1 with
            | true => rfl | false => exact absurd h hc1
          by_cases hm1 : (E.hp (s.drop (i + (decodeRune (s.drop i)).2 + (decodeRune (s.drop (i + (decodeRune (s.drop i)).2))).2))).1 = true
          · rw [if_pos hm1]
            right
            refine ⟨i, rfl, hi, ?_, hinv⟩
            rw [hmi]
            have hne1 : s.drop i ≠ [] := by
              intro h0; have : (s.drop i).length = 0 := by rw [h0]; rfl
              simp only [List.length_drop] at this; omega
            have hne2 : s.drop (i + (decodeRune (s.drop i)).2) ≠ [] := by
              intro h0; have : (s.drop (i + (decodeRune (s.drop i)).2)).length = 0 := by rw [h0]; rfl
              simp only [List.length_drop] at this; omega
            refine ⟨hne1, (H.hc0 _).mp hc0', hne2, (H.hc1 _).mp hc1', ?_⟩
            rw [List.drop_drop]
            exact ((H.hP _).1).mp hm1
          · rw [if_neg hm1]
            have hm1' : (E.hp (s.drop (i + (decodeRune (s.drop i)).2 + (decodeRune (s.drop (i + (decodeRune (s.drop i)).2))).2))).1 = false := by
              cases h : (E.hp (s.drop (i + (decodeRune (s.drop i)).2 + (decodeRune (s.drop (i + (decodeRune (s.drop i)).2))).2))).1 with
              | false => rfl | true => exact absurd h hm1
            have hnm : ¬ Match fold (s.drop i) sub := by
              rw [hmi]; rintro ⟨_, _, _, _, h5⟩
              rw [List.drop_drop] at h5
              exact hm1 (((H.hP _).1).mpr h5)
            by_cases hex : (E.hp (s.drop (i + (decodeRune (s.drop i)).2 + (decodeRune (s.drop (i + (decodeRune (s.drop i)).2))).2))).2 = true
            · rw [if_pos hex]
              -- `noMore`: same argument as `exhausted` in the skip loop
              left; refine ⟨rfl, ?_⟩
              intro j hj hm
              by_cases hj1 : j < i + (decodeRune (s.drop i)).2
              · exact ext1 hnm j hj hj1 hm
              · have hmj := (match_iff fold (s.drop j) sub f0 f1 fn H.hsub).mp hm
                obtain ⟨hj1', _, hj3, _, hj5⟩ := hmj
                simp only [List.drop_drop, ← Nat.add_assoc] at hj3 hj5
                have hjlen : j < s.length := by
                  rcases Nat.lt_or_ge j s.length with h | h
                  · exact h
                  · exact absurd (List.drop_eq_nil_of_le h) hj1'
                have hj2len : j + (decodeRune (s.drop j)).2 < s.length := by
                  rcases Nat.lt_or_ge (j + (decodeRune (s.drop j)).2) s.length with h | h
                  · exact h
                  · exact absurd (List.drop_eq_nil_of_le h) hj3
                have hbj1 := isBoundary_next s j hj hjlen
                have hbj2 := isBoundary_next s _ hbj1 hj2len
                have hwj := width_pos_of_lt s j hjlen
                have hwj2 := width_pos_of_lt s _ hj2len
                have hy0e : i + (decodeRune (s.drop i)).2 + (decodeRune (s.drop (i + (decodeRune (s.drop i)).2))).2
                    ≤ j + (decodeRune (s.drop j)).2 + (decodeRune (s.drop (j + (decodeRune (s.drop j)).2))).2 := by
                  by_cases hjp : j = i + (decodeRune (s.drop i)).2
                  · rw [hjp]; omega
                  · have : ¬ (j < i + (decodeRune (s.drop i)).2 + (decodeRune (s.drop (i + (decodeRune (s.drop i)).2))).2) := fun hlt =>
                      no_boundary_inside s _ j hnext hp1len (by omega) hlt hj
                    omega
                have hbsub := isBoundary_drop_sub s _ _ hnext2 hbj2 hy0e
                obtain ⟨k, hk⟩ := fdec_drop_boundary (fold := fold) _ _ hbsub
                rw [List.drop_drop] at hk
                have e : i + (decodeRune (s.drop i)).2 + (decodeRune (s.drop (i + (decodeRune (s.drop i)).2))).2
                    + (j + (decodeRune (s.drop j)).2 + (decodeRune (s.drop (j + (decodeRune (s.drop j)).2))).2
                       - (i + (decodeRune (s.drop i)).2 + (decodeRune (s.drop (i + (decodeRune (s.drop i)).2))).2))
                    = j + (decodeRune (s.drop j)).2 + (decodeRune (s.drop (j + (decodeRune (s.drop j)).2))).2 := by omega
                rw [e] at hk
                rw [hk] at hj5
                exact (H.hP _).2 hm1' hex k hj5
            · rw [if_neg hex]
              exact after hnm
end
#print axioms bruteLoop_correct
end Utf8
