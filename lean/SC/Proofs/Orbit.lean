import SC.Proofs.CandThm
/-!
Orbits as the search code enumerates them: through `FoldMap` (orbits with three or more members
and İ/ı), through `ToUpperLower` (pairs), or the rune alone — proved complete on the regenerated tables.
-/

theorem T4.get_mem (t : T4) (h : Nat) :
    t.get h = (0, 0, 0, 0) ∨ (h, (t.get h).1, (t.get h).2.1, (t.get h).2.2.1, (t.get h).2.2.2) ∈ t.toList := by
  induction t with
  | leaf => simp [T4.get]
  | node l k a b c d r ihl ihr =>
    simp only [T4.get, T4.toList]
    split
    · rcases ihl with h0 | hm
      · exact Or.inl h0
      · exact Or.inr (by simp [hm])
    · split
      · rcases ihr with h0 | hm
        · exact Or.inl h0
        · exact Or.inr (by simp [hm])
      · have : h = k := by omega
        subst this; right; simp

namespace Fold

/-- the fold class of a rune in a non-trivial orbit is the (at most four) `SimpleFold` iterates of its minimum -/
theorem orbit_iff_cls (u x : Nat) (hu : u ∈ orbKeys) : caseFold x = caseFold u ↔ x ∈ cls (orbMin u) := by
  obtain ⟨k1, k2, k3, k4, k5⟩ := keyLaw_of_mem u hu
  rw [← cand_iff]
  exact ⟨k5 x, k4 x⟩

/-- outside the orbit table a rune is fold-equal only to itself -/
theorem orbit_trivial (u x : Nat) (hu : u ∉ orbKeys) : caseFold x = caseFold u ↔ x = u := by
  rw [← cand_iff]; exact cand_trivial u x hu

/-- per-entry law of `_FoldMap`: the key is the first element, zeros only trail, the key lies in a
    non-trivial orbit (or is İ / ı with no other member), and the non-zero elements are exactly the
    members of that orbit -/
def fmEntryOK (e : Nat × Nat × Nat × Nat × Nat) : Bool :=
  let a := e.2.1; let b := e.2.2.1; let c := e.2.2.2.1; let d := e.2.2.2.2
  forceNat (orbMin a) fun m =>
  (a != 0) && (b != 0 || (c == 0 && d == 0)) && (c != 0 || d == 0) &&
  (if inK a then
    (cls m).all (fun x => x == a || x == b || x == c || x == d) &&
    [a, b, c, d].all (fun y => y == 0 || (cls m).contains y)
   else (b == 0 && c == 0 && d == 0))
theorem fmEntries_ok : Gen.T121.fmTree.toList.all fmEntryOK = true := by decide +kernel

theorem fmEntryOK_spec (a b c d : Nat) (e : Nat × Nat × Nat × Nat × Nat) (he : e.2 = (a, b, c, d)) (h : fmEntryOK e = true) :
    a ≠ 0 ∧ (b = 0 → c = 0 ∧ d = 0) ∧ (c = 0 → d = 0) ∧
    (inK a = true → (∀ x ∈ cls (orbMin a), x = a ∨ x = b ∨ x = c ∨ x = d) ∧
                    (∀ y, (y = a ∨ y = b ∨ y = c ∨ y = d) → y ≠ 0 → y ∈ cls (orbMin a))) ∧
    (inK a = false → b = 0 ∧ c = 0 ∧ d = 0) := by
  obtain ⟨slot, a', b', c', d'⟩ := e
  simp only [Prod.mk.injEq] at he
  obtain ⟨rfl, rfl, rfl, rfl⟩ := he
  unfold fmEntryOK at h
  rw [forceNat_eq] at h
  simp only [Bool.and_eq_true, bne_iff_ne, ne_eq, Bool.or_eq_true, beq_iff_eq] at h
  obtain ⟨⟨⟨h1, h2⟩, h3⟩, h4⟩ := h
  refine ⟨h1, ?_, ?_, ?_, ?_⟩
  · intro hb; rcases h2 with h2 | h2
    · exact absurd hb h2
    · exact h2
  · intro hc; rcases h3 with h3 | h3
    · exact absurd hc h3
    · exact h3
  · intro hk
    rw [if_pos hk] at h4
    simp only [Bool.and_eq_true, List.all_eq_true, Bool.or_eq_true, beq_iff_eq, List.mem_cons, List.not_mem_nil,
      or_false, forall_eq_or_imp, forall_eq, List.contains_iff_mem] at h4
    refine ⟨fun x hx => ?_, ?_⟩
    · have := h4.1 x hx
      rcases this with ((h | h) | h) | h
      · exact Or.inl h
      · exact Or.inr (Or.inl h)
      · exact Or.inr (Or.inr (Or.inl h))
      · exact Or.inr (Or.inr (Or.inr h))
    · obtain ⟨_, ha, hb, hc, hd⟩ := h4
      intro y hy hy0
      rcases hy with rfl | rfl | rfl | rfl
      · rcases ha with h | h; exact absurd h hy0; exact h
      · rcases hb with h | h; exact absurd h hy0; exact h
      · rcases hc with h | h; exact absurd h hy0; exact h
      · rcases hd with h | h; exact absurd h hy0; exact h
  · intro hk
    rw [if_neg (by rw [hk]; exact Bool.false_ne_true)] at h4
    simp only [Bool.and_eq_true, beq_iff_eq] at h4
    exact ⟨h4.1.1, h4.1.2, h4.2⟩

/-- FoldMap: a hit at a non-zero `u` stores `u` first, zeros only at the end, and lists exactly the
    orbit of `u` -/
theorem foldMap_some (u a b c d : Nat) (hu0 : u ≠ 0) (h : foldMap u = some (a, b, c, d)) :
    a = u ∧ (b = 0 → c = 0 ∧ d = 0) ∧ (c = 0 → d = 0) ∧
    ∀ x, caseFold x = caseFold u ↔ (x = u ∨ (x ≠ 0 ∧ (x = b ∨ x = c ∨ x = d))) := by
  unfold foldMap foldMapOf at h
  rw [forceNat_eq] at h
  generalize hg : Gen.T121.fmTree.get (hashMul Gen.T121.fmSeed Gen.T121.fmShift u) = g at h
  obtain ⟨ga, gb, gc, gd⟩ := g
  simp only [] at h
  split at h
  · rename_i hau
    simp only [Option.some.injEq, Prod.mk.injEq] at h
    obtain ⟨rfl, rfl, rfl, rfl⟩ := h
    rcases T4.get_mem Gen.T121.fmTree (hashMul Gen.T121.fmSeed Gen.T121.fmShift u) with h0 | hm
    · rw [hg] at h0
      simp only [Prod.mk.injEq] at h0
      exact absurd (hau ▸ h0.1) hu0
    · rw [hg] at hm
      have hok := List.all_eq_true.mp fmEntries_ok _ hm
      obtain ⟨k1, k2, k3, k4, k5⟩ := fmEntryOK_spec ga gb gc gd _ rfl hok
      subst hau
      refine ⟨rfl, k2, k3, ?_⟩
      intro x
      cases hk : inK ga with
      | true =>
        obtain ⟨hin, hout⟩ := k4 hk
        rw [orbit_iff_cls ga x ((inK_iff ga).mp hk)]
        constructor
        · intro hx
          have hx0 : x ≠ 0 := by
            intro h0; subst h0
            -- 0 is not a member of any non-trivial orbit
            have := (keyLaw_of_mem ga ((inK_iff ga).mp hk)).2.2.1 0 hx
            have z : orbMin 0 = 0 := by decide +kernel
            rw [z] at this
            have hm0 := (keyLaw_of_mem ga ((inK_iff ga).mp hk)).1
            rw [← this] at hm0
            exact absurd hm0 (by decide +kernel)
          rcases hin x hx with h | h | h | h
          · exact Or.inl h
          · exact Or.inr ⟨hx0, Or.inl h⟩
          · exact Or.inr ⟨hx0, Or.inr (Or.inl h)⟩
          · exact Or.inr ⟨hx0, Or.inr (Or.inr h)⟩
        · rintro (h | ⟨hx0, h | h | h⟩)
          · exact hout x (Or.inl h) (by rw [h]; exact k1)
          · exact hout x (Or.inr (Or.inl h)) hx0
          · exact hout x (Or.inr (Or.inr (Or.inl h))) hx0
          · exact hout x (Or.inr (Or.inr (Or.inr h))) hx0
      | false =>
        obtain ⟨rfl, rfl, rfl⟩ := k5 hk
        have hnk : ga ∉ orbKeys := fun hm => by rw [(inK_iff ga).mpr hm] at hk; cases hk
        rw [orbit_trivial ga x hnk]
        constructor
        · intro h; exact Or.inl h
        · rintro (h | ⟨hx0, h | h | h⟩)
          · exact h
          · exact absurd h hx0
          · exact absurd h hx0
          · exact absurd h hx0
  · cases h

end Fold
