import SC.Proofs.RIndexAny2
/-!
IndexAny / LastIndexAny, part 3: `makeASCIISet` (the 256-bit set of the ASCII chars and their other cases, with
the K k S s escape that is taken only when `s` is pure ASCII) and the byte scan over it.
-/
namespace A
open Utf8 Fold

/-- the set `makeASCIISet` builds from ASCII `chars`: each byte and, for letters, its other case -/
def setOf (chars : Bytes) (b : UInt8) : Bool := chars.any fun c => b == c || (isAlpha c && b == (c ^^^ 0x20))

def isKS (c : UInt8) : Bool := c == 0x4B || c == 0x6B || c == 0x53 || c == 0x73

theorem xor_isKS : ∀ c : UInt8, ((c ^^^ 0x20) = 0x4B ∨ (c ^^^ 0x20) = 0x6B ∨ (c ^^^ 0x20) = 0x53 ∨ (c ^^^ 0x20) = 0x73) ↔ isKS c = true := by
  decide +kernel

theorem isKS_alpha : ∀ c : UInt8, isKS c = true → isAlpha c = true := by decide +kernel

/-- what a successful `asciiSetLoop` guarantees -/
theorem asciiSetLoop_ok (sNA : Bool) : ∀ (chars : Bytes) (as : UInt8 → Bool) (fast : Bool),
    (fast = true → sNA = false) →
    (asciiSetLoop sNA chars as fast).2 = true →
    (∀ c ∈ chars, c < 0x80) ∧ (∀ b, (asciiSetLoop sNA chars as fast).1 b = (as b || setOf chars b)) ∧
    ((∃ c ∈ chars, isKS c = true) → sNA = false)
  | [], as, fast, _, _ => ⟨fun c hc => by simp at hc, fun b => by simp [asciiSetLoop, setOf], fun ⟨c, hc, _⟩ => by simp at hc⟩
  | c :: rest, as, fast, hfast, hok => by
    simp only [asciiSetLoop] at hok ⊢
    by_cases hc : c ≥ 0x80
    · rw [if_pos hc] at hok; cases hok
    · rw [if_neg hc] at hok ⊢
      have hclt : c < 0x80 := UInt8.not_le.mp hc
      by_cases ha : isAlpha c = true
      · rw [if_pos ha] at hok ⊢
        by_cases hks : ¬ fast = true ∧ ((c ^^^ 0x20) = 0x4B ∨ (c ^^^ 0x20) = 0x6B ∨ (c ^^^ 0x20) = 0x53 ∨ (c ^^^ 0x20) = 0x73)
        · rw [if_pos hks] at hok ⊢
          by_cases hna : ¬ sNA = true
          · rw [if_pos hna] at hok ⊢
            have hna' : sNA = false := by cases sNA <;> simp_all
            obtain ⟨h1, h2, h3⟩ := asciiSetLoop_ok sNA rest _ true (fun _ => hna') hok
            refine ⟨?_, ?_, fun _ => hna'⟩
            · intro x hx
              rcases List.mem_cons.mp hx with rfl | hx
              · exact hclt
              · exact h1 x hx
            · intro b
              rw [h2 b]
              simp only [setOf, List.any_cons, ha, Bool.true_and, Bool.or_assoc]
          · rw [if_neg hna] at hok; cases hok
        · rw [if_neg hks] at hok ⊢
          obtain ⟨h1, h2, h3⟩ := asciiSetLoop_ok sNA rest _ fast hfast hok
          refine ⟨?_, ?_, ?_⟩
          · intro x hx
            rcases List.mem_cons.mp hx with rfl | hx
            · exact hclt
            · exact h1 x hx
          · intro b
            rw [h2 b]
            simp only [setOf, List.any_cons, ha, Bool.true_and, Bool.or_assoc]
          · rintro ⟨x, hx, hxk⟩
            rcases List.mem_cons.mp hx with rfl | hx
            · -- c is K/k/S/s and the escape was not needed: `fast` already held
              have hk := (xor_isKS x).mpr hxk
              have hf : fast = true := by
                cases hfv : fast with
                | true => rfl
                | false => exact absurd ⟨by simp [hfv], hk⟩ hks
              exact hfast hf
            · exact h3 ⟨x, hx, hxk⟩
      · rw [if_neg ha] at hok ⊢
        have ha' : isAlpha c = false := by cases h : isAlpha c <;> simp_all
        obtain ⟨h1, h2, h3⟩ := asciiSetLoop_ok sNA rest _ fast hfast hok
        refine ⟨?_, ?_, ?_⟩
        · intro x hx
          rcases List.mem_cons.mp hx with rfl | hx
          · exact hclt
          · exact h1 x hx
        · intro b
          rw [h2 b]
          simp only [setOf, List.any_cons, ha', Bool.false_and, Bool.or_false, Bool.or_assoc]
        · rintro ⟨x, hx, hxk⟩
          rcases List.mem_cons.mp hx with rfl | hx
          · have := isKS_alpha x hxk; rw [ha'] at this; cases this
          · exact h3 ⟨x, hx, hxk⟩

/-- C11: when `makeASCIISet` succeeds, `chars` is ASCII, the set is its ASCII fold closure, and a K/k/S/s
    in `chars` implies that `s` holds no non-ASCII byte -/
theorem makeASCIISet_ok (s chars : Bytes) (hok : (makeASCIISet s chars).2 = true) :
    (∀ c ∈ chars, c < 0x80) ∧ (∀ b, (makeASCIISet s chars).1 b = setOf chars b) ∧
    ((∃ c ∈ chars, isKS c = true) → ¬ (kIndexNonASCII s ≥ 0)) := by
  unfold makeASCIISet at hok ⊢
  obtain ⟨h1, h2, h3⟩ := asciiSetLoop_ok _ chars (fun _ => false) false (fun h => by cases h) hok
  refine ⟨h1, fun b => by rw [h2 b]; rfl, fun hex => ?_⟩
  have := h3 hex
  simpa using this

end A
