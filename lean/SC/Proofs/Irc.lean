import SC.Proofs.Basic
namespace A
open Utf8

inductive Fault | index | slice | fuel
  deriving DecidableEq, Repr
abbrev M := Except Fault

/-- first index of byte `c` in `s`, or -1 (strings.IndexByte) -/
def stdIndexByte : Bytes → UInt8 → Int
  | [], _ => -1
  | b :: s, c => if b = c then 0 else
      let r := stdIndexByte s c
      if r < 0 then -1 else r + 1

/-- first index at which the two bytes c0 c1 occur consecutively, or -1 (exact substring search) -/
def stdIndex2 : Bytes → UInt8 → UInt8 → Int
  | a :: b :: s, c0, c1 => if a = c0 ∧ b = c1 then 0 else
      let r := stdIndex2 (b :: s) c0 c1
      if r < 0 then -1 else r + 1
  | _, _, _ => -1

/-- indexRuneCase, case n = 2, NativeIndex path.  `i` and `fails` are the Go loop variables. -/
def irc2 (c0 c1 : UInt8) (cut : Nat → Nat) (s : Bytes) : Nat → Nat → Nat → M Int
  | 0, _, _ => .error .fuel
  | fuel+1, i, fails =>
    if i < s.length then
      match s[i]? with
      | none => .error .index
      | some b =>
        -- `if s[i] != c1 { o := IndexByte(s[i+1:], c1); if o < 0 {return -1}; i += o+1 }`
        let skip : M (Option Nat) :=
          if b ≠ c1 then
            if i + 1 ≤ s.length then
              let o := stdIndexByte (s.drop (i+1)) c1
              if o < 0 then .ok none else .ok (some (i + o.toNat + 1))
            else .error .slice
          else .ok (some i)
        match skip with
        | .error e => .error e
        | .ok none => .ok (-1)
        | .ok (some i) =>
          match s[i-1]? with
          | none => .error .index
          | some p =>
            if p = c0 then .ok ((i:Int) - 1)
            else
              let fails := fails + 1
              let i := i + 1
              if fails > cut i ∧ i < s.length then
                -- `if j := IndexString(s[i:], string(r)); j != -1 { return i + j }; return -1`
                let j := stdIndex2 (s.drop i) c0 c1
                if j ≠ -1 then .ok (i + j) else .ok (-1)
              else irc2 c0 c1 cut s fuel i fails
    else .ok (-1)

example : irc2 0xC5 0xBF (fun n => (n+16)/8) [0x61, 0xBF, 0xC5, 0xBF] 10 1 0 = .ok 2 := by rfl
end A
