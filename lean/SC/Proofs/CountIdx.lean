import SC.Proofs.FindLast
namespace Spec
variable {α : Type} [DecidableEq α]

/-- Count as the code computes it: leftmost match, then resume right after the matched runes -/
def countIdx : Nat → List α → List α → Nat
  | 0, _, _ => 0
  | fuel+1, s, t =>
    match findSub s t with
    | none => 0
    | some k => 1 + countIdx fuel (s.drop (k + t.length)) t

theorem findSub_cons_of_not_prefix (a : α) (s t : List α) (h : t.isPrefixOf (a :: s) = false) :
    findSub (a :: s) t = (findSub s t).map (· + 1) := by
  simp [findSub, h]

theorem findSub_of_prefix (s t : List α) (h : t.isPrefixOf s = true) : findSub s t = some 0 := by
  cases s with
  | nil =>
    have : t = [] := by cases t <;> simp_all [List.isPrefixOf]
    simp [findSub, this]
  | cons a s => simp [findSub, h]

/-- the specification's greedy scan and the code's "Index, skip the match, repeat" agree
    (non-empty needle; fuel ≥ length + 1) -/
theorem countIdx_eq_countFrom (t : List α) (ht : t ≠ []) :
    ∀ (fuel : Nat) (s : List α), s.length < fuel → countIdx fuel s t = countFrom fuel s t := by
  intro fuel
  induction fuel with
  | zero => intro s h; omega
  | succ fuel ih =>
    intro s hs
    cases s with
    | nil =>
      have : findSub ([] : List α) t = none := by simp [findSub, ht]
      simp [countIdx, countFrom, this]
    | cons a s =>
      simp only [countFrom]
      by_cases hp : t.isPrefixOf (a :: s) = true
      · rw [if_pos hp]
        simp only [countIdx, findSub_of_prefix _ _ hp, Nat.zero_add]
        congr 1
        have hl : 1 ≤ t.length := by cases t with | nil => exact absurd rfl ht | cons _ _ => simp
        exact ih _ (by simp only [List.length_drop, List.length_cons] at hs ⊢; omega)
      · have hp' : t.isPrefixOf (a :: s) = false := by
          cases h : t.isPrefixOf (a :: s) with | false => rfl | true => exact absurd h hp
        rw [if_neg hp]
        simp only [countIdx, findSub_cons_of_not_prefix a s t hp']
        have hrec := ih s (by simp only [List.length_cons] at hs; omega)
        cases fuel with
        | zero => simp only [List.length_cons] at hs; omega
        | succ fuel =>
          simp only [countIdx] at hrec
          cases hf : findSub s t with
          | none => rw [hf] at hrec; simp only [Option.map_none]; exact hrec
          | some k =>
            rw [hf] at hrec
            simp only [Option.map_some]
            have e : (a :: s).drop (k + 1 + t.length) = s.drop (k + t.length) := by
              have : k + 1 + t.length = (k + t.length) + 1 := by omega
              rw [this]; rfl
            rw [e]
            -- the fuel of the recursive calls differs by one; both are sufficient
            have hk := (findSub_some_iff s t k).mp hf
            have hkl := hk.1.length_le
            simp only [List.length_drop] at hkl
            have hl : 1 ≤ t.length := by cases t with | nil => exact absurd rfl ht | cons _ _ => simp
            have hlen : (s.drop (k + t.length)).length < fuel := by
              simp only [List.length_drop, List.length_cons] at hs ⊢; omega
            rw [← hrec]
            congr 1
            exact countIdx_fuel t ht fuel (fuel + 1) _ hlen (by omega)
where
  /-- more fuel than needed changes nothing -/
  countIdx_fuel (t : List α) (ht : t ≠ []) : ∀ (f1 f2 : Nat) (s : List α), s.length < f1 → f1 ≤ f2 →
      countIdx f2 s t = countIdx f1 s t := by
    intro f1
    induction f1 with
    | zero => intro f2 s h; omega
    | succ f1 ih =>
      intro f2 s h1 h2
      cases f2 with
      | zero => omega
      | succ f2 =>
        simp only [countIdx]
        cases hf : findSub s t with
        | none => rfl
        | some k =>
          simp only []
          congr 1
          have hl : 1 ≤ t.length := by cases t with | nil => exact absurd rfl ht | cons _ _ => simp
          have hk := (findSub_some_iff s t k).mp hf
          have hkl := hk.1.length_le
          simp only [List.length_drop] at hkl
          exact ih f2 _ (by simp only [List.length_drop]; omega) (by omega)
#print axioms countIdx_eq_countFrom
end Spec
