import SC.Proofs.Skel
namespace Utf8
open A

/-- what the skip loop of `Index` calls -/
structure Env where
  cand0 : Nat → Bool
  cand1 : Nat → Bool
  idxFirst : Bytes → Int × Nat      -- indexRune / indexRune2 on a suffix: (offset, size)
  hp : Bytes → Bool × Bool          -- hasPrefixUnicode(·, needle)
  rk : Bytes → Int                  -- indexRabinKarpUnicode(·, substr)
  t : Nat                           -- search window bound
  cut : Nat → Nat → Bool            -- fails, i ↦ fails >= 4 + i>>4

/-- the skip loop of strcase.Index (strcase.go:665-737), `i` and `fails` are the Go variables -/
def skipLoop (E : Env) (s : Bytes) : Nat → Nat → Nat → Int
  | 0, _, _ => -2
  | fuel+1, i, fails =>
    if i < E.t then
      let p0 := decodeRune (s.drop i)
      let jump : Option (Nat × Nat) :=
        if E.cand0 p0.1 then some (i, p0.2)
        else
          let q := E.idxFirst (s.drop (i + p0.2))
          if q.1 < 0 then none else some (i + p0.2 + q.1.toNat, q.2)
      match jump with
      | none => -1
      | some (i, n0) =>
        if i + n0 ≥ E.t then -1 else
        let p1 := decodeRune (s.drop (i + n0))
        let verdict : Option Int :=
          if E.cand1 p1.1 then
            let m := E.hp (s.drop (i + n0 + p1.2))
            if m.1 then some (i : Int) else if m.2 then some (-1) else none
          else none
        match verdict with
        | some r => r
        | none =>
          if E.cut (fails + 1) (i + n0) ∧ i + n0 < E.t then
            let j := E.rk (s.drop (i + n0))
            if j < 0 then -1 else ((i + n0 : Nat) : Int) + j
          else skipLoop E s fuel (i + n0) (fails + 1)
    else -1

section
variable (fold : Nat → Nat)

/-- what is assumed of the callees and of the constants (each is a separate theorem elsewhere) -/
structure Hyp (E : Env) (s sub : Bytes) (f0 f1 : Nat) (fn : List Nat) : Prop where
  ht : E.t ≤ s.length
  hsub : fdec fold sub = f0 :: f1 :: fn
  hc0 : ∀ r, E.cand0 r = true ↔ fold r = f0
  hc1 : ∀ r, E.cand1 r = true ↔ fold r = f1
  /-- window bound: a match at boundary `i` has its second rune strictly below `t` -/
  hB : ∀ i, IsBoundary s i → Match fold (s.drop i) sub → i + (decodeRune (s.drop i)).2 < E.t
  /-- first-rune search -/
  hI : ∀ x, ((E.idxFirst x).1 < 0 →
              ∀ j, IsBoundary x j → j < x.length → E.cand0 (decodeRune (x.drop j)).1 = false) ∧
            (0 ≤ (E.idxFirst x).1 →
              IsBoundary x (E.idxFirst x).1.toNat ∧ (E.idxFirst x).1.toNat < x.length ∧
              E.cand0 (decodeRune (x.drop (E.idxFirst x).1.toNat)).1 = true ∧
              (E.idxFirst x).2 = (decodeRune (x.drop (E.idxFirst x).1.toNat)).2 ∧
              ∀ j, IsBoundary x j → j < (E.idxFirst x).1.toNat → E.cand0 (decodeRune (x.drop j)).1 = false)
  /-- verifier with its `exhausted` flag -/
  hP : ∀ y, ((E.hp y).1 = true ↔ fn <+: fdec fold y) ∧
            ((E.hp y).1 = false → (E.hp y).2 = true → ∀ k, ¬ fn <+: (fdec fold y).drop k)
  /-- Rabin–Karp on a suffix -/
  hR : ∀ x, IsIndex fold x sub (E.rk x)

variable {fold}

theorem match_nonempty {E s sub f0 f1 fn} (H : Hyp fold E s sub f0 f1 fn) (x : Bytes) (h : Match fold x sub) : x ≠ [] :=
  ((match_iff fold x sub f0 f1 fn H.hsub).mp h).1

/-- a match at a boundary at or after `lo` lies below the window bound -/
theorem no_match_from {E s sub f0 f1 fn} (H : Hyp fold E s sub f0 f1 fn) (lo : Nat) (hlo : E.t ≤ lo) :
    ∀ j, IsBoundary s j → lo ≤ j → ¬ Match fold (s.drop j) sub := by
  intro j hj hle hm
  have := H.hB j hj hm
  omega

theorem fdec_drop_boundary (s : Bytes) (i : Nat) (hi : IsBoundary s i) :
    ∃ k, fdec fold (s.drop i) = (fdec fold s).drop k := by
  obtain ⟨k, _, hk⟩ := hi
  refine ⟨k, ?_⟩
  subst hk
  simp [fdec, dec_drop_offAt]

theorem skipLoop_correct {E s sub f0 f1 fn} (H : Hyp fold E s sub f0 f1 fn) :
    ∀ fuel i fails, IsBoundary s i → s.length + 1 ≤ fuel + i →
      (∀ j, IsBoundary s j → j < i → ¬ Match fold (s.drop j) sub) →
      IsIndex fold s sub (skipLoop E s fuel i fails) := by
  intro fuel
  induction fuel with
  | zero =>
    intro i fails hi hf _
    have := isBoundary_le s i hi; omega
  | succ fuel ih =>
    intro i fails hi hf hinv
    have hile := isBoundary_le s i hi
    simp only [skipLoop]
    rcases Nat.lt_or_ge i E.t with hit | hit'
    case inr =>
      -- window exhausted
      rw [if_neg (by omega)]
      left; refine ⟨rfl, ?_⟩
      intro j hj
      by_cases hji : j < i
      · exact hinv j hj hji
      · exact no_match_from H i hit' j hj (by omega)
    rw [if_pos hit]
    have hilen : i < s.length := Nat.lt_of_lt_of_le hit H.ht
    -- facts about the rune at i
    have hw0 : 1 ≤ (decodeRune (s.drop i)).2 := by
      cases hx : s.drop i with
      | nil => have : (s.drop i).length = 0 := by rw [hx]; rfl
               simp only [List.length_drop] at this; omega
      | cons c r => exact decodeRune_width_pos c r
    have hw0le : i + (decodeRune (s.drop i)).2 ≤ s.length := by
      have := decodeRune_width_le (s.drop i); simp only [List.length_drop] at this; omega
    have hnext := isBoundary_next s i hi hilen
    -- common continuation: from a boundary i' with the first rune in cand0, its width n0, and the invariant
    have cont : ∀ i' n0, IsBoundary s i' → i ≤ i' → i' < s.length → n0 = (decodeRune (s.drop i')).2 →
        E.cand0 (decodeRune (s.drop i')).1 = true →
        (∀ j, IsBoundary s j → j < i' → ¬ Match fold (s.drop j) sub) →
        IsIndex fold s sub
          (if i' + n0 ≥ E.t then -1 else
            match (if E.cand1 (decodeRune (s.drop (i' + n0))).1 then
                     (if (E.hp (s.drop (i' + n0 + (decodeRune (s.drop (i' + n0))).2))).1 then some (i' : Int)
                      else if (E.hp (s.drop (i' + n0 + (decodeRune (s.drop (i' + n0))).2))).2 then some (-1) else none)
                   else none : Option Int) with
            | some r => r
            | none =>
              if E.cut (fails + 1) (i' + n0) ∧ i' + n0 < E.t then
                (if E.rk (s.drop (i' + n0)) < 0 then -1 else ((i' + n0 : Nat) : Int) + E.rk (s.drop (i' + n0)))
              else skipLoop E s fuel (i' + n0) (fails + 1)) := by
      intro i' n0 hi' hii' hi'len hn0 hc0 hinv'
      subst hn0
      have hw : 1 ≤ (decodeRune (s.drop i')).2 := by
        cases hx : s.drop i' with
        | nil => have : (s.drop i').length = 0 := by rw [hx]; rfl
                 simp only [List.length_drop] at this; omega
        | cons c r => exact decodeRune_width_pos c r
      have hnext' := isBoundary_next s i' hi' hi'len
      by_cases hge : i' + (decodeRune (s.drop i')).2 ≥ E.t
      · -- C: the second rune would start at or beyond t
        rw [if_pos hge]
        left; refine ⟨rfl, ?_⟩
        intro j hj hm
        by_cases hji : j < i'
        · exact hinv' j hj hji hm
        · have hb := H.hB j hj hm
          by_cases hje : j = i'
          · subst hje; omega
          · -- j > i', hence j ≥ next boundary ≥ t
            have : ¬ (j < i' + (decodeRune (s.drop i')).2) := fun hlt =>
              no_boundary_inside s i' j hi' hi'len (by omega) hlt hj
            have hw' : 1 ≤ (decodeRune (s.drop j)).2 := by
              have hne := match_nonempty H _ hm
              cases hx : s.drop j with
              | nil => exact absurd hx hne
              | cons c r => exact decodeRune_width_pos c r
            omega
      · rw [if_neg hge]
        -- ¬Match at i' is what every non-returning branch establishes; then continue
        have after : ¬ Match fold (s.drop i') sub →
            IsIndex fold s sub
              (if E.cut (fails + 1) (i' + (decodeRune (s.drop i')).2) ∧ i' + (decodeRune (s.drop i')).2 < E.t then
                (if E.rk (s.drop (i' + (decodeRune (s.drop i')).2)) < 0 then -1
                 else ((i' + (decodeRune (s.drop i')).2 : Nat) : Int) + E.rk (s.drop (i' + (decodeRune (s.drop i')).2)))
              else skipLoop E s fuel (i' + (decodeRune (s.drop i')).2) (fails + 1)) := by
          intro hnm
          have hinv'' : ∀ j, IsBoundary s j → j < i' + (decodeRune (s.drop i')).2 → ¬ Match fold (s.drop j) sub := by
            intro j hj hlt
            by_cases hji : j < i'
            · exact hinv' j hj hji
            · by_cases hje : j = i'
              · subst hje; exact hnm
              · exact absurd hj (no_boundary_inside s i' j hi' hi'len (by omega) hlt)
          by_cases hcut : E.cut (fails + 1) (i' + (decodeRune (s.drop i')).2) ∧ i' + (decodeRune (s.drop i')).2 < E.t
          · rw [if_pos hcut]
            exact isIndex_shift fold s sub _ hnext' hinv'' _ (H.hR _)
          · rw [if_neg hcut]
            exact ih _ _ hnext' (by omega) hinv''
        -- unfold Match at i'
        have hmi := match_iff fold (s.drop i') sub f0 f1 fn H.hsub
        rw [List.drop_drop] at hmi
        by_cases hc1 : E.cand1 (decodeRune (s.drop (i' + (decodeRune (s.drop i')).2))).1 = true
        · rw [if_pos hc1]
          by_cases hm1 : (E.hp (s.drop (i' + (decodeRune (s.drop i')).2 + (decodeRune (s.drop (i' + (decodeRune (s.drop i')).2))).2))).1 = true
          · -- verified: return i'
            rw [if_pos hm1]
            right
            refine ⟨i', rfl, hi', ?_, hinv'⟩
            rw [hmi]
            have hne1 : s.drop i' ≠ [] := by
              intro h0; have : (s.drop i').length = 0 := by rw [h0]; rfl
              simp only [List.length_drop] at this; omega
            have hne2 : s.drop (i' + (decodeRune (s.drop i')).2) ≠ [] := by
              intro h0; have : (s.drop (i' + (decodeRune (s.drop i')).2)).length = 0 := by rw [h0]; rfl
              have hht := H.ht
              simp only [List.length_drop] at this; omega
            refine ⟨hne1, (H.hc0 _).mp hc0, hne2, (H.hc1 _).mp hc1, ?_⟩
            rw [List.drop_drop]
            exact ((H.hP _).1).mp hm1
          · rw [if_neg hm1]
            have hm1' : (E.hp (s.drop (i' + (decodeRune (s.drop i')).2 + (decodeRune (s.drop (i' + (decodeRune (s.drop i')).2))).2))).1 = false := by
              simpa using hm1
            have hnm : ¬ Match fold (s.drop i') sub := by
              rw [hmi]; rintro ⟨_, _, _, _, h5⟩
              rw [List.drop_drop] at h5
              exact hm1 (((H.hP _).1).mpr h5)
            by_cases hex : (E.hp (s.drop (i' + (decodeRune (s.drop i')).2 + (decodeRune (s.drop (i' + (decodeRune (s.drop i')).2))).2))).2 = true
            · -- exhausted: return -1
              rw [if_pos hex]
              left; refine ⟨rfl, ?_⟩
              intro j hj hm
              by_cases hji : j < i'
              · exact hinv' j hj hji hm
              · by_cases hje : j = i'
                · subst hje; exact hnm hm
                · -- a later match would put its tail inside the exhausted text
                  have hjge : i' + (decodeRune (s.drop i')).2 ≤ j := by
                    rcases Nat.lt_or_ge j (i' + (decodeRune (s.drop i')).2) with hlt | hge'
                    · exact absurd hj (no_boundary_inside s i' j hi' hi'len (by omega) hlt)
                    · exact hge'
                  have hmj := (match_iff fold (s.drop j) sub f0 f1 fn H.hsub).mp hm
                  obtain ⟨hj1, _, hj3, _, hj5⟩ := hmj
                  simp only [List.drop_drop, ← Nat.add_assoc] at hj3 hj5
                  have hjlen : j < s.length := by
                    rcases Nat.lt_or_ge j s.length with h | h
                    · exact h
                    · exact absurd (List.drop_eq_nil_of_le h) hj1
                  have hj2len : j + (decodeRune (s.drop j)).2 < s.length := by
                    rcases Nat.lt_or_ge (j + (decodeRune (s.drop j)).2) s.length with h | h
                    · exact h
                    · exact absurd (List.drop_eq_nil_of_le h) hj3
                  have hbj1 := isBoundary_next s j hj hjlen
                  have hbj2 := isBoundary_next s _ hbj1 hj2len
                  -- e := end of the first two runes of the match at j; y0 := start of the exhausted text
                  let p := i' + (decodeRune (s.drop i')).2
                  have hp_lt : p < s.length := by show i' + _ < _; omega
                  have hbp : IsBoundary s p := hnext'
                  have hbp2 := isBoundary_next s p hbp hp_lt
                  have hwj : 1 ≤ (decodeRune (s.drop j)).2 := by
                    cases hx : s.drop j with
                    | nil => exact absurd hx hj1
                    | cons c r => exact decodeRune_width_pos c r
                  have hwj2 : 1 ≤ (decodeRune (s.drop (j + (decodeRune (s.drop j)).2))).2 := by
                    cases hx : s.drop (j + (decodeRune (s.drop j)).2) with
                    | nil => exact absurd hx hj3
                    | cons c r => exact decodeRune_width_pos c r
                  have hy0e : p + (decodeRune (s.drop p)).2 ≤ j + (decodeRune (s.drop j)).2 + (decodeRune (s.drop (j + (decodeRune (s.drop j)).2))).2 := by
                    by_cases hjp : j = p
                    · rw [hjp]; omega
                    · -- j > p, so j ≥ next boundary after p
                      have : ¬ (j < p + (decodeRune (s.drop p)).2) := fun hlt =>
                        no_boundary_inside s p j hbp hp_lt (by omega) hlt hj
                      omega
                  have hbsub := isBoundary_drop_sub s _ _ hbp2 hbj2 hy0e
                  obtain ⟨k, hk⟩ := fdec_drop_boundary (fold := fold) _ _ hbsub
                  rw [List.drop_drop] at hk
                  have e : p + (decodeRune (s.drop p)).2 + (j + (decodeRune (s.drop j)).2 + (decodeRune (s.drop (j + (decodeRune (s.drop j)).2))).2 - (p + (decodeRune (s.drop p)).2))
                      = j + (decodeRune (s.drop j)).2 + (decodeRune (s.drop (j + (decodeRune (s.drop j)).2))).2 := by omega
                  rw [e] at hk
                  rw [hk] at hj5
                  exact (H.hP _).2 hm1' hex k hj5
            · rw [if_neg hex]
              exact after hnm
        · rw [if_neg hc1]
          have hnm : ¬ Match fold (s.drop i') sub := by
            rw [hmi]; rintro ⟨_, _, _, h4, _⟩
            exact hc1 ((H.hc1 _).mpr h4)
          exact after hnm
    -- now the first-rune test / jump
    by_cases hc0 : E.cand0 (decodeRune (s.drop i)).1 = true
    · rw [if_pos hc0]
      exact cont i _ hi (Nat.le_refl _) hilen rfl hc0 hinv
    · rw [if_neg hc0]
      have hc0' : E.cand0 (decodeRune (s.drop i)).1 = false := by simpa using hc0
      have hnmi : ¬ Match fold (s.drop i) sub := by
        intro hm
        have := ((match_iff fold (s.drop i) sub f0 f1 fn H.hsub).mp hm).2.1
        exact hc0 ((H.hc0 _).mpr this)
      obtain ⟨hneg, hpos⟩ := H.hI (s.drop (i + (decodeRune (s.drop i)).2))
      -- boundaries of s at or after the next boundary correspond to boundaries of the suffix
      have hcand_false : ∀ j, IsBoundary s j → i + (decodeRune (s.drop i)).2 ≤ j → j < s.length →
          (∀ j', IsBoundary (s.drop (i + (decodeRune (s.drop i)).2)) j' → j' < j - (i + (decodeRune (s.drop i)).2) + 1 →
             j' < (s.drop (i + (decodeRune (s.drop i)).2)).length →
             E.cand0 (decodeRune ((s.drop (i + (decodeRune (s.drop i)).2)).drop j')).1 = false) →
          ¬ Match fold (s.drop j) sub := by
        intro j hj hle hjl hall hm
        have hb := isBoundary_drop_sub s _ j hnext hj hle
        have := hall _ hb (by omega) (by simp only [List.length_drop]; omega)
        rw [List.drop_drop] at this
        have e : i + (decodeRune (s.drop i)).2 + (j - (i + (decodeRune (s.drop i)).2)) = j := by omega
        rw [e] at this
        have h2 := ((match_iff fold (s.drop j) sub f0 f1 fn H.hsub).mp hm).2.1
        rw [(H.hc0 _).mpr h2] at this; cases this
      by_cases hq : (E.idxFirst (s.drop (i + (decodeRune (s.drop i)).2))).1 < 0
      · -- no candidate first rune anywhere later
        rw [if_pos hq]
        left; refine ⟨rfl, ?_⟩
        intro j hj hm
        by_cases hji : j < i
        · exact hinv j hj hji hm
        · by_cases hje : j = i
          · subst hje; exact hnmi hm
          · have hjge : i + (decodeRune (s.drop i)).2 ≤ j := by
              rcases Nat.lt_or_ge j (i + (decodeRune (s.drop i)).2) with hlt | hge'
              · exact absurd hj (no_boundary_inside s i j hi hilen (by omega) hlt)
              · exact hge'
            have hjlen : j < s.length := by
              rcases Nat.lt_or_ge j s.length with h | h
              · exact h
              · exact absurd (List.drop_eq_nil_of_le h) (match_nonempty H _ hm)
            exact hcand_false j hj hjge hjlen (fun j' hb' _ hl' => hneg hq j' hb' hl') hm
      · rw [if_neg hq]
        obtain ⟨hqb, hqlen, hqc, hqsz, hqmin⟩ := hpos (by omega)
        simp only [List.length_drop] at hqlen
        have hbi' := isBoundary_drop_add s _ _ hnext hqb
        have hdd : (s.drop (i + (decodeRune (s.drop i)).2)).drop (E.idxFirst (s.drop (i + (decodeRune (s.drop i)).2))).1.toNat
            = s.drop (i + (decodeRune (s.drop i)).2 + (E.idxFirst (s.drop (i + (decodeRune (s.drop i)).2))).1.toNat) := by
          rw [List.drop_drop]
        rw [hdd] at hqc hqsz
        apply cont _ _ hbi' (by omega) (by omega) hqsz hqc
        intro j hj hlt
        by_cases hji : j < i
        · exact hinv j hj hji
        · by_cases hje : j = i
          · subst hje; exact hnmi
          · have hjge : i + (decodeRune (s.drop i)).2 ≤ j := by
              rcases Nat.lt_or_ge j (i + (decodeRune (s.drop i)).2) with hlt' | hge'
              · exact absurd hj (no_boundary_inside s i j hi hilen (by omega) hlt')
              · exact hge'
            exact hcand_false j hj hjge (by omega) (fun j' hb' hl1 _ => hqmin j' hb' (by omega))
end
end Utf8
