import SC.Proofs.RCount
/-!
`Count` with a one-byte ASCII needle: the byte-count kernel plus `countRune` for K/k → U+212A and
S/s → U+017F count exactly the code points of `s` in the needle's fold orbit.
-/
namespace A
open Utf8 Fold Spec

/-! ### counting on rune lists -/

theorem countFrom_single {α : Type} [DecidableEq α] (x : α) : ∀ (fuel : Nat) (l : List α), l.length < fuel →
    countFrom fuel l [x] = l.count x := by
  intro fuel
  induction fuel with
  | zero => intro l h; omega
  | succ fuel ih =>
    intro l h
    cases l with
    | nil => simp [countFrom]
    | cons a l =>
      simp only [countFrom, List.isPrefixOf, Bool.and_true, List.length_cons, List.length_nil, List.drop_succ_cons, List.drop_zero]
      have hl : l.length < fuel := by simp only [List.length_cons] at h; omega
      by_cases hax : x = a
      · subst hax; simp [ih l hl]; omega
      · have : (x == a) = false := by simp [hax]
        simp only [this, Bool.false_eq_true, if_false, ih l hl]
        rw [List.count_cons_of_ne (fun e => hax e.symm)]

/-! ### the byte kernel counts the ASCII part of the orbit -/

theorem non_ascii_segment (b : UInt8) (rest : Bytes) (hb : ¬ b < 0x80) :
    0x80 ≤ (decodeRune (b :: rest)).1 ∧ ∀ c ∈ (b :: rest).take (decodeRune (b :: rest)).2, ¬ c < 0x80 := by
  constructor
  · rcases Nat.lt_or_ge (decodeRune (b :: rest)).1 0x80 with h | h
    · obtain ⟨b', rest', hy, hb', _⟩ := decode_ascii_head (b :: rest) (by simp) h
      simp only [List.cons.injEq] at hy
      rw [← hy.1] at hb'; exact absurd hb' hb
    · exact h
  · intro c hc
    obtain ⟨j, hj, rfl⟩ := List.getElem_of_mem hc
    simp only [List.length_take] at hj
    rw [List.getElem_take]
    cases j with
    | zero => simpa using hb
    | succ j =>
      obtain ⟨c', hc', hst⟩ := decodeRune_interior (b :: rest) (j + 1) (by omega) (by omega)
      have hcont := not_start_isCont c' hst
      have : ∀ c : UInt8, isCont c = true → ¬ c < 0x80 := by decide +kernel
      have hget : (b :: rest)[j + 1]'(by omega) = c' := by
        have := List.getElem?_eq_some_iff.mp hc'
        exact this.2
      rw [hget]; exact this c' hcont

theorem kCount_spec (c : UInt8) (hc : c < 0x80) : ∀ (n : Nat) (s : Bytes), s.length ≤ n →
    kCount s c = (dec s).countP (fun p => asciiPart c p.1) := by
  intro n
  induction n with
  | zero =>
    intro s hs
    have : s = [] := by cases s <;> simp_all
    subst this; simp [kCount, S.kernCount, dec_nil]
  | succ n ih =>
    intro s hs
    cases s with
    | nil => simp [kCount, S.kernCount, dec_nil]
    | cons b rest =>
      have hw := decodeRune_width_pos b rest
      have hwl := decodeRune_width_le (b :: rest)
      have hsplit : b :: rest = (b :: rest).take (decodeRune (b :: rest)).2 ++ (b :: rest).drop (decodeRune (b :: rest)).2 :=
        (List.take_append_drop _ _).symm
      have ihd := ih ((b :: rest).drop (decodeRune (b :: rest)).2) (by simp only [List.length_drop, List.length_cons] at hs ⊢; omega)
      unfold kCount S.kernCount at ihd ⊢
      rw [dec_cons b rest, List.countP_cons]
      conv => lhs; rw [hsplit, List.filter_append, List.length_append]
      rw [ihd]
      by_cases hb : b < 0x80
      · have hd : decodeRune (b :: rest) = (b.toNat, 1) := by simp [decodeRune, hb]
        rw [hd]
        simp only [List.take_succ_cons, List.take_zero, List.filter_cons, List.filter_nil]
        rw [byteEqFold_iff_asciiPart c b hc hb]
        cases asciiPart c b.toNat <;> simp <;> omega
      · obtain ⟨h1, h2⟩ := non_ascii_segment b rest hb
        have hf : ((b :: rest).take (decodeRune (b :: rest)).2).filter (S.byteEqFold c) = [] := by
          apply List.filter_eq_nil_iff.mpr
          intro x hx hq
          exact h2 x hx (byteEqFold_ascii c hc x hq)
        have ha : asciiPart c (decodeRune (b :: rest)).1 = false := by
          cases hq : asciiPart c (decodeRune (b :: rest)).1 with
          | false => rfl
          | true =>
            exfalso
            unfold asciiPart at hq
            simp only [Bool.or_eq_true, beq_iff_eq, Bool.and_eq_true] at hq
            rcases hq with h | ⟨ha, h⟩
            · have := lt80_toNat c hc; omega
            · have : ∀ c : UInt8, c < 0x80 → isAlpha c = true → (c ^^^ 0x20) < 0x80 := by decide +kernel
              have := lt80_toNat _ (this c hc ha); omega
        rw [hf, ha]; simp

/-! ### countRune counts the occurrences of one rune -/

theorem offAt_strict' (s : Bytes) (j k : Nat) (hjk : j < k) (hk : k ≤ (dec s).length) : offAt s j < offAt s k := by
  have := offAt_strict s (k - j - 1) j (by omega)
  have e : j + (k - j - 1 + 1) = k := by omega
  rwa [e] at this

theorem countRune_spec (cfg : Cfg) (r : Nat) (hv : validRune r) (hr : r ≠ 0xFFFD) :
    ∀ (fuel : Nat) (s : Bytes) (n : Nat), s.length < fuel →
      countRune cfg r fuel s n = ((n + (dec s).countP (fun p => p.1 == r) : Nat) : Int) := by
  intro fuel
  induction fuel with
  | zero => intro s n h; omega
  | succ fuel ih =>
    intro s n hf
    simp only [countRune]
    have hrl := runeLen_eq_encode r hv
    have hel : 1 ≤ (encode r).length := by
      have := encode_ne_nil r
      exact List.length_pos_iff.mpr this
    rcases indexRuneCase_isFirstRune cfg s r hv hr with ⟨h1, hnone⟩ | ⟨i, h1, hb, hl, hd, hmin⟩
    · rw [h1]
      simp only [if_true]
      -- no segment holds r
      have : (dec s).countP (fun p => p.1 == r) = 0 := by
        apply List.countP_eq_zero.mpr
        intro p hp hq
        obtain ⟨j, hbj, hjl, rfl⟩ := mem_dec_boundary s p hp
        have hne : s.drop j ≠ [] := by intro he; have := congrArg List.length he; simp at this; omega
        exact hnone j hbj hjl (decode_of_rune _ _ hne (beq_iff_eq.mp hq) hr)
      rw [this]; rfl
    · rw [h1]
      have hne1 : ¬ ((i : Int) = -1) := by omega
      have hnn : ¬ ((i : Int) < 0) := by omega
      rw [if_neg hne1, if_neg hnn]
      simp only [Int.toNat_natCast]
      have hwl := decodeRune_width_le (s.drop i)
      rw [hd] at hwl
      simp only [List.length_drop] at hwl
      rw [hrl, if_neg (by omega)]
      rw [ih _ _ (by simp only [List.length_drop]; omega)]
      -- split the segmentation at the hit
      obtain ⟨k, hk, hki⟩ := hb
      have hklt : k < (dec s).length := boundary_index_lt s k hk (by rw [hki]; exact hl)
      have hsplit : dec s = (dec s).take k ++ (r, (encode r).length) :: dec (s.drop (i + (encode r).length)) := by
        have h1 : (dec s).drop k = dec (s.drop i) := by rw [← hki, dec_drop_offAt]
        have hne : s.drop i ≠ [] := by intro he; have := congrArg List.length he; simp at this; omega
        cases hx : s.drop i with
        | nil => exact absurd hx hne
        | cons c rest =>
          have h2 : dec (s.drop i) = decodeRune (s.drop i) :: dec ((s.drop i).drop (decodeRune (s.drop i)).2) := by
            rw [hx]; exact dec_cons c rest
          rw [hd, List.drop_drop] at h2
          calc dec s = (dec s).take k ++ (dec s).drop k := (List.take_append_drop k _).symm
            _ = (dec s).take k ++ (r, (encode r).length) :: dec (s.drop (i + (encode r).length)) := by rw [h1, h2]
      have hbefore : ((dec s).take k).countP (fun p => p.1 == r) = 0 := by
        apply List.countP_eq_zero.mpr
        intro p hp hq
        obtain ⟨j, hj, rfl⟩ := List.getElem_of_mem hp
        simp only [List.length_take] at hj
        rw [List.getElem_take] at hq
        have hjlt : j < (dec s).length := by omega
        rw [seg_at s j hjlt] at hq
        have hoff : offAt s j < i := by rw [← hki]; exact offAt_strict' s j k (by omega) hk
        have hne : s.drop (offAt s j) ≠ [] := by
          intro he; have := congrArg List.length he; simp at this; omega
        exact hmin (offAt s j) ⟨j, by omega, rfl⟩ hoff (decode_of_rune _ _ hne (beq_iff_eq.mp hq) hr)
      conv => rhs; rw [hsplit, List.countP_append, List.countP_cons, hbefore]
      simp only [beq_self_eq_true, if_true]
      exact congrArg (fun m : Nat => (m : Int)) (by omega)

/-- the orbit count splits into its ASCII part and the non-ASCII relative -/
theorem countP_orbit (c : UInt8) (hc : c < 0x80) (l : List (Nat × Nat)) :
    l.countP (fun p => caseFold p.1 == caseFold c.toNat) =
      l.countP (fun p => asciiPart c p.1) + l.countP (fun p => specialRune c != 0 && p.1 == specialRune c) := by
  induction l with
  | nil => rfl
  | cons p l ih =>
    simp only [List.countP_cons, ih, ascii_orbit c hc p.1]
    unfold orbP
    -- the two parts are disjoint: the relative is not an ASCII value
    have hdisj : asciiPart c p.1 = true → (specialRune c != 0 && p.1 == specialRune c) = false := by
      intro ha
      cases hq : (specialRune c != 0 && p.1 == specialRune c) with
      | false => rfl
      | true =>
        exfalso
        simp only [Bool.and_eq_true, bne_iff_ne, ne_eq, beq_iff_eq] at hq
        have hlt : p.1 < 0x80 := by
          unfold asciiPart at ha
          simp only [Bool.or_eq_true, beq_iff_eq, Bool.and_eq_true] at ha
          rcases ha with h | ⟨hal, h⟩
          · rw [h]; exact lt80_toNat c hc
          · rw [h]
            have : ∀ c : UInt8, c < 0x80 → isAlpha c = true → (c ^^^ 0x20) < 0x80 := by decide +kernel
            exact lt80_toNat _ (this c hc hal)
        have hsp : specialRune c = 0 ∨ 0x80 ≤ specialRune c := by
          unfold specialRune; split
          · right; decide
          · split
            · right; decide
            · left; rfl
        rcases hsp with h | h
        · exact hq.1 h
        · rw [hq.2] at hlt; omega
    cases ha : asciiPart c p.1 with
    | true => rw [hdisj ha]; simp; omega
    | false => cases (specialRune c != 0 && p.1 == specialRune c) <;> simp <;> omega

theorem count_single_spec (s : Bytes) (x : Nat) :
    countFrom (s.length + 1) (fdec caseFold s) [x] = (dec s).countP (fun p => caseFold p.1 == x) := by
  rw [countFrom_single _ _ _ (by rw [fdec_length]; have := dec_length_le s; omega)]
  unfold fdec
  rw [List.count_eq_countP, List.countP_map]
  rfl

theorem fdec_ascii_single (c : UInt8) (hc : c < 0x80) : fdec caseFold [c] = [caseFold c.toNat] := by
  rw [fdec_cons']
  have : decodeRune [c] = (c.toNat, 1) := by simp [decodeRune, hc]
  rw [this]; simp [fdec_nil']

/-- C12: `Count` with a one-byte ASCII needle -/
theorem Count_eq_byte (cfg : Cfg) (s : Bytes) (c : UInt8) (hc : c < 0x80) : Count cfg s [c] = (S.count s [c] : Nat) := by
  have hS : S.count s [c] = (dec s).countP (fun p => caseFold p.1 == caseFold c.toNat) := by
    unfold S.count S.fruns S.fold
    rw [if_neg (List.cons_ne_nil c []), fdec_ascii_single c hc, count_single_spec]
  rw [hS, countP_orbit c hc, ← kCount_spec c hc s.length s (Nat.le_refl _)]
  unfold Count
  rw [if_neg (by simp), if_pos ⟨by simp, by simpa using hc⟩]
  dsimp only [List.headD_cons]
  by_cases hK : c = 0x4B ∨ c = 0x6B
  · rw [if_pos hK]
    have hsr : specialRune c = 0x212A := by unfold specialRune; rw [if_pos hK]
    rw [countRune_spec cfg 0x212A (by decide) (by decide) (s.length + 1) s 0 (by omega), hsr]
    simp only [Nat.zero_add]
    rw [if_neg (by omega)]
    have : (fun p : Nat × Nat => (8490 : Nat) != 0 && p.1 == 8490) = (fun p => p.1 == 8490) := by
      funext p; simp
    rw [this]; omega
  · rw [if_neg hK]
    by_cases hS' : c = 0x53 ∨ c = 0x73
    · rw [if_pos hS']
      have hsr : specialRune c = 0x17F := by unfold specialRune; rw [if_neg hK, if_pos hS']
      rw [countRune_spec cfg 0x17F (by decide) (by decide) (s.length + 1) s 0 (by omega), hsr]
      simp only [Nat.zero_add]
      rw [if_neg (by omega)]
      have : (fun p : Nat × Nat => (383 : Nat) != 0 && p.1 == 383) = (fun p => p.1 == 383) := by
        funext p; simp
      rw [this]; omega
    · rw [if_neg hS']
      have hsr : specialRune c = 0 := by unfold specialRune; rw [if_neg hK, if_neg hS']
      rw [hsr]
      simp

/-- C12: `Count` equals the specification on every pair of byte strings, both packages -/
theorem Count_eq (cfg : Cfg) (s sub : Bytes) : Count cfg s sub = (S.count s sub : Nat) := by
  by_cases h : sub.length = 1 ∧ sub.headD 0 < 0x80
  · cases sub with
    | nil => simp at h
    | cons c p =>
      have hp : p = [] := by
        have := h.1; simp only [List.length_cons] at this
        exact List.length_eq_zero_iff.mp (by omega)
      subst hp
      exact Count_eq_byte cfg s c (by simpa using h.2)
  · exact Count_eq_general cfg s sub h

end A
