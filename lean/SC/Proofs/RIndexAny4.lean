import SC.Proofs.RIndexAny3
/-!
IndexAny / LastIndexAny, part 4: scanning the bytes of `s` against the ASCII set, and the set's meaning on the
code points that actually occur in `s`.
-/
namespace A
open Utf8 Fold

theorem isFirstBy_congr_on (P Q : Nat → Bool) (s : Bytes) (res : Int × Nat)
    (h : ∀ i, IsBoundary s i → i < s.length → P (decodeRune (s.drop i)).1 = Q (decodeRune (s.drop i)).1)
    (hr : IsFirstBy P s res) : IsFirstBy Q s res := by
  rcases hr with ⟨h1, hn⟩ | ⟨i, h1, hb, hl, hp, hw, hmin⟩
  · left; exact ⟨h1, fun i hi hil => by rw [← h i hi hil]; exact hn i hi hil⟩
  · right
    exact ⟨i, h1, hb, hl, by rw [← h i hb hl]; exact hp, hw,
      fun j hj hji => by rw [← h j hj (by omega)]; exact hmin j hj hji⟩

theorem isLastBy_congr_on (P Q : Nat → Bool) (s : Bytes) (res : Int)
    (h : ∀ i, IsBoundary s i → i < s.length → P (decodeRune (s.drop i)).1 = Q (decodeRune (s.drop i)).1)
    (hr : IsLastBy P s res) : IsLastBy Q s res := by
  rcases hr with ⟨h1, hn⟩ | ⟨i, h1, hb, hl, hp, hmax⟩
  · left; exact ⟨h1, fun i hi hil => by rw [← h i hi hil]; exact hn i hi hil⟩
  · right
    exact ⟨i, h1, hb, hl, by rw [← h i hb hl]; exact hp,
      fun j hj hij hjl => by rw [← h j hj hjl]; exact hmax j hj hij hjl⟩

/-- first byte of `s` satisfying an ASCII-only predicate = first code point that is such an ASCII value -/
theorem firstByte_isFirstBy (Q : UInt8 → Bool) (hQ : ∀ b, Q b = true → b < 0x80) (s : Bytes) :
    IsFirstBy (fun x => decide (x < 0x80) && Q (UInt8.ofNat x)) s (S.firstAt (fun y => Q (y.headD 0)) s 0, 1) := by
  have hrune : ∀ j, j < s.length →
      ((decide ((decodeRune (s.drop j)).1 < 0x80) && Q (UInt8.ofNat (decodeRune (s.drop j)).1)) = true →
        Q ((s.drop j).headD 0) = true) := by
    intro j hjl hP
    simp only [Bool.and_eq_true, decide_eq_true_eq] at hP
    have hne : s.drop j ≠ [] := by intro he; have := congrArg List.length he; simp at this; omega
    obtain ⟨b', rest, hy, hb', hd⟩ := decode_ascii_head _ hne hP.1
    rw [hd] at hP
    rw [hy, List.headD_cons, ← ofNat_toNat_id b']; exact hP.2
  rcases firstAt_spec (fun y => Q (y.headD 0)) s 0 with ⟨h1, hn⟩ | ⟨n, h1, hnl, hp, hmin⟩
  · left; refine ⟨h1, ?_⟩
    intro i _ hil
    cases hP : (decide ((decodeRune (s.drop i)).1 < 0x80) && Q (UInt8.ofNat (decodeRune (s.drop i)).1)) with
    | false => exact hP
    | true => have := hrune i hil hP; rw [hn i hil] at this; cases this
  · right
    simp only [Nat.zero_add] at h1
    cases hy : s.drop n with
    | nil => have := congrArg List.length hy; simp at this; omega
    | cons b rest =>
      rw [hy] at hp
      simp only [List.headD_cons] at hp
      have hb : b < 0x80 := hQ b hp
      have hsn : s[n]? = some b := by
        have := congrArg (fun l => l[0]?) hy
        simpa [List.getElem?_drop] using this
      have hbn : IsBoundary s n := start_is_boundary s.length s (Nat.le_refl _) n b hsn (ascii_isStart b hb)
      have hd : decodeRune (b :: rest) = (b.toNat, 1) := by simp [decodeRune, hb]
      refine ⟨n, h1, hbn, hnl, ?_, by rw [hy, hd], ?_⟩
      · show (decide ((decodeRune (s.drop n)).1 < 0x80) && Q (UInt8.ofNat (decodeRune (s.drop n)).1)) = true
        rw [hy, hd]
        simp only [Bool.and_eq_true, decide_eq_true_eq]
        exact ⟨lt80_toNat b hb, by rw [ofNat_toNat_id]; exact hp⟩
      · intro j _ hjn
        cases hP : (decide ((decodeRune (s.drop j)).1 < 0x80) && Q (UInt8.ofNat (decodeRune (s.drop j)).1)) with
        | false => exact hP
        | true => have := hrune j (by omega) hP; rw [hmin j hjn] at this; cases this

/-- `S.lastAt` on a head-byte predicate: the greatest byte index whose byte satisfies it -/
theorem lastAt_spec (Q : UInt8 → Bool) : ∀ (s : Bytes) (o : Nat),
    (S.lastAt (fun y => Q (y.headD 0)) s o = -1 ∧ ∀ (i : Nat) (b : UInt8), s[i]? = some b → Q b = false) ∨
    (∃ (n : Nat) (b : UInt8), S.lastAt (fun y => Q (y.headD 0)) s o = ((o + n : Nat) : Int) ∧ s[n]? = some b ∧ Q b = true ∧
        ∀ (i : Nat) (b' : UInt8), n < i → s[i]? = some b' → Q b' = false)
  | [], _ => Or.inl ⟨rfl, fun i b h => by simp at h⟩
  | a :: rest, o => by
    have e : S.lastAt (fun y => Q (y.headD 0)) (a :: rest) o =
        (if S.lastAt (fun y => Q (y.headD 0)) rest (o + 1) ≥ 0 then S.lastAt (fun y => Q (y.headD 0)) rest (o + 1)
          else if Q a = true then (o : Int) else -1) := rfl
    rw [e]
    rcases lastAt_spec Q rest (o + 1) with ⟨h1, hn⟩ | ⟨n, b, h1, hb, hq, hmax⟩
    · rw [h1]
      rw [if_neg (show ¬ ((-1 : Int) ≥ 0) by omega)]
      by_cases hac : Q a = true
      · rw [if_pos hac]
        right
        refine ⟨0, a, rfl, by simp, hac, ?_⟩
        intro i b' hi hb'
        cases i with
        | zero => omega
        | succ i => exact hn i b' (by simpa using hb')
      · rw [if_neg hac]
        left; refine ⟨rfl, ?_⟩
        intro i b hb
        cases i with
        | zero =>
          simp at hb; subst hb
          cases h : Q a with
          | false => rfl
          | true => exact absurd h hac
        | succ i => exact hn i b (by simpa using hb)
    · rw [h1]
      have : ((o + 1 + n : Nat) : Int) ≥ 0 := Int.natCast_nonneg _
      rw [if_pos this]
      right
      refine ⟨n + 1, b, by congr 1; omega, by simpa using hb, hq, ?_⟩
      intro i b' hi hb'
      cases i with
      | zero => omega
      | succ i => exact hmax i b' (by omega) (by simpa using hb')

/-- no non-ASCII byte: every code point of `s` is an ASCII value -/
theorem pure_ascii_runes (s : Bytes) (h : ¬ (kIndexNonASCII s ≥ 0)) :
    ∀ i, IsBoundary s i → i < s.length → (decodeRune (s.drop i)).1 < 0x80 := by
  intro i _ hil
  unfold kIndexNonASCII S.indexNonASCII at h
  rcases firstAt_spec (fun x : Bytes => decide (x.headD 0 ≥ 0x80)) s 0 with ⟨_, hn⟩ | ⟨n, h1, _⟩
  · cases hy : s.drop i with
    | nil => have := congrArg List.length hy; simp at this; omega
    | cons b rest =>
      have := hn i hil
      rw [hy] at this
      simp only [List.headD_cons, decide_eq_false_iff_not, ge_iff_le] at this
      have hb : b < 0x80 := UInt8.not_le.mp this
      simp [decodeRune, hb]; exact lt80_toNat b hb
  · exfalso; apply h
    have e : S.firstAt (fun x : Bytes => x.headD 0 ≥ 0x80) s 0 = S.firstAt (fun x : Bytes => decide (x.headD 0 ≥ 0x80)) s 0 := rfl
    rw [e, h1]; exact Int.natCast_nonneg _

/-- the folded rune list of an ASCII string -/
theorem fdec_all_ascii : ∀ (cs : Bytes), (∀ c ∈ cs, c < 0x80) → fdec caseFold cs = cs.map (fun c => caseFold c.toNat)
  | [], _ => by simp [fdec, dec_nil]
  | c :: cs, h => by
    have hc := h c (List.mem_cons_self ..)
    have ih := fdec_all_ascii cs (fun x hx => h x (List.mem_cons_of_mem _ hx))
    unfold fdec at ih ⊢
    rw [dec_ascii c cs hc]
    simp only [List.map_cons, ih]

theorem ofNat_beq (x : Nat) (d : UInt8) (hx : x < 256) : (UInt8.ofNat x == d) = (x == d.toNat) := by
  by_cases he : x = d.toNat
  · have h2 : UInt8.ofNat x = d := by rw [he]; exact ofNat_toNat_id d
    rw [beq_iff_eq.mpr he, beq_iff_eq.mpr h2]
  · have h2 : ¬ UInt8.ofNat x = d := fun h => he (by rw [← h, ofNat_toNat_lt x hx])
    rw [beq_eq_false_iff_ne.mpr he, beq_eq_false_iff_ne.mpr h2]

theorem specialRune_range (c : UInt8) : specialRune c = 0 ∨ 0x80 ≤ specialRune c := by
  unfold specialRune; split
  · right; exact Nat.le_of_ble_eq_true rfl
  · split
    · right; exact Nat.le_of_ble_eq_true rfl
    · left; rfl

theorem isKS_of_special (c : UInt8) (h : specialRune c ≠ 0) : isKS c = true := by
  unfold specialRune at h
  unfold isKS
  by_cases h1 : c = 0x4B ∨ c = 0x6B
  · rcases h1 with h | h <;> subst h <;> rfl
  · rw [if_neg h1] at h
    by_cases h2 : c = 0x53 ∨ c = 0x73
    · rcases h2 with h | h <;> subst h <;> rfl
    · rw [if_neg h2] at h; exact absurd rfl h

theorem alpha_xor_lt : ∀ c : UInt8, c < 0x80 → isAlpha c = true → (c ^^^ 0x20) < 0x80 := by decide +kernel

theorem any_congr_mem {α} (p q : α → Bool) : ∀ (l : List α), (∀ c ∈ l, p c = q c) → l.any p = l.any q
  | [], _ => rfl
  | a :: l, h => by
    rw [List.any_cons, List.any_cons, h a (List.mem_cons_self ..),
      any_congr_mem p q l (fun c hc => h c (List.mem_cons_of_mem _ hc))]

/-- on the code points that occur in `s`, membership in the folded set of ASCII `chars` is membership of the
    byte in the ASCII set — provided K/k/S/s in `chars` implies that `s` is pure ASCII -/
theorem anyP_eq_set (s chars : Bytes) (hasc : ∀ c ∈ chars, c < 0x80)
    (hks : (∃ c ∈ chars, isKS c = true) → ¬ (kIndexNonASCII s ≥ 0)) :
    ∀ i, IsBoundary s i → i < s.length →
      (decide ((decodeRune (s.drop i)).1 < 0x80) && setOf chars (UInt8.ofNat (decodeRune (s.drop i)).1)) =
        anyP chars (decodeRune (s.drop i)).1 := by
  intro i hi hil
  generalize hx : (decodeRune (s.drop i)).1 = x
  unfold anyP
  rw [fdec_all_ascii chars hasc, contains_map_eq_any]
  unfold setOf
  by_cases hlt : x < 0x80
  · rw [decide_eq_true hlt, Bool.true_and]
    -- pointwise: for an ASCII value the orbit test is the set test
    have hpt : ∀ c ∈ chars, (UInt8.ofNat x == c || (isAlpha c && UInt8.ofNat x == (c ^^^ 0x20))) =
        (caseFold x == caseFold c.toNat) := by
      intro c hc
      have hc80 := hasc c hc
      rw [ascii_orbit c hc80 x]
      unfold orbP asciiPart
      have hsp : (specialRune c != 0 && x == specialRune c) = false := by
        cases hq : (specialRune c != 0 && x == specialRune c) with
        | false => rfl
        | true =>
          exfalso
          simp only [Bool.and_eq_true, bne_iff_ne, ne_eq, beq_iff_eq] at hq
          rcases specialRune_range c with h | h
          · exact hq.1 h
          · rw [← hq.2] at h; omega
      rw [hsp, Bool.or_false]
      have e1 := ofNat_beq x c (by omega)
      have e2 := ofNat_beq x (c ^^^ 0x20) (by omega)
      rw [e1, e2]
    exact any_congr_mem _ _ _ hpt
  · rw [decide_eq_false hlt, Bool.false_and]
    symm
    -- a non-ASCII code point of `s` can only match through K/k/S/s, which are excluded here
    cases hq : chars.any (fun c => caseFold x == caseFold c.toNat) with
    | false => rfl
    | true =>
      exfalso
      obtain ⟨c, hc, hcx⟩ := List.any_eq_true.mp hq
      have hc80 := hasc c hc
      rw [ascii_orbit c hc80 x] at hcx
      unfold orbP at hcx
      simp only [Bool.or_eq_true, Bool.and_eq_true, bne_iff_ne, ne_eq, beq_iff_eq] at hcx
      rcases hcx with ha | ⟨hs0, hxs⟩
      · unfold asciiPart at ha
        simp only [Bool.or_eq_true, beq_iff_eq, Bool.and_eq_true] at ha
        rcases ha with h | ⟨hal, h⟩
        · have := lt80_toNat c hc80; omega
        · have := lt80_toNat _ (alpha_xor_lt c hc80 hal); omega
      · have hk : isKS c = true := isKS_of_special c hs0
        have := pure_ascii_runes s (hks ⟨c, hc, hk⟩) i hi hil
        rw [hx] at this; exact hlt this

end A
