import SC.Proofs.AsmWhole2
/-!
The AVX2 counting loops (`countbody`, `countbodyCase`) at instruction level: two 32-byte loads per iteration,
`VPMOVMSKB; POPCNTL` twice, then either `endavx` (length a multiple of 64) or the overlapping 64-byte tail
masked with `(-1) << (64 - len % 64)` and counted with `POPCNTQ`.
-/
namespace Asm
open Kern

def P64 : LoopP := ⟨64, 64, 64⟩

/-- `VPMOVMSKB; POPCNTL` on a 32-lane comparison result counts the matches of the block -/
theorem popcnt_full32 (F : Nat → UInt8) (p : UInt8 → Bool) (mem : Mem) (a : Nat)
    (hF : ∀ j, decide (F j ≥ 0x80) = p (mem (a + j))) :
    cntBits (mask F 32 % W32) 0 32 = cntBlk p mem a 0 32 := by
  rw [mask32_mod]
  apply cntBits_eq_cntBlk
  intro i _ hi
  rw [mask_testBit, ← hF i]
  have : i < 32 := by omega
  simp [this]

/-- bits of the combined 64-lane mask `lo | hi << 32` -/
theorem mask64_testBit (F1 F2 : Nat → UInt8) (i : Nat) (hi : i < 64) :
    (mask F1 32 ||| (mask F2 32 <<< (32 % 64)) % W64).testBit i =
      if i < 32 then decide (F1 i ≥ 0x80) else decide (F2 (i - 32) ≥ 0x80) := by
  have hW : W64 = 2 ^ 64 := rfl
  rw [Nat.testBit_or, hW, Nat.testBit_mod_two_pow, Nat.testBit_shiftLeft, mask_testBit, mask_testBit]
  by_cases h : i < 32
  · have h2 : ¬ i ≥ 32 % 64 := by omega
    simp [h, hi, h2]
  · have h2 : i ≥ 32 % 64 := by omega
    have h3 : i - 32 % 64 = i - 32 := by omega
    have h4 : i - 32 < 32 := by omega
    simp [h, hi, h2, h4]

/-- `MOVQ $-1, R10; SALQ CL, R10` with `CL = 64 − rem` -/
theorem highMask64_testBit (k i : Nat) (hk : k < 64) (hi : i < 64) :
    ((18446744073709551615 <<< (k % 64)) % W64).testBit i = decide (k ≤ i) := by
  have hW : W64 = 2 ^ 64 := rfl
  have e : (18446744073709551615 : Nat) = 2 ^ 64 - 1 := by decide
  rw [hW, Nat.testBit_mod_two_pow, Nat.testBit_shiftLeft, Nat.mod_eq_of_lt hk, e, Nat.testBit_two_pow_sub_one]
  by_cases h : k ≤ i
  · have : i - k < 64 := by omega
    simp [hi, h, this]
  · simp [hi, h]

/-- the masked 64-byte tail: `POPCNTQ` of `(lo | hi << 32) & ((-1) << (64 - rem))` counts the last `rem` lanes -/
theorem popcnt_tail64 (F1 F2 : Nat → UInt8) (p : UInt8 → Bool) (mem : Mem) (a rem : Nat) (h0 : 0 < rem) (h64 : rem < 64)
    (hF1 : ∀ j, decide (F1 j ≥ 0x80) = p (mem (a + j))) (hF2 : ∀ j, decide (F2 j ≥ 0x80) = p (mem (a + 32 + j))) :
    cntBits ((mask F1 32 ||| (mask F2 32 <<< (32 % 64)) % W64) &&& ((18446744073709551615 <<< ((64 - rem) % 64)) % W64)) 0 64 =
      cntBlk p mem a (64 - rem) rem := by
  generalize hv : (mask F1 32 ||| (mask F2 32 <<< (32 % 64)) % W64) &&& ((18446744073709551615 <<< ((64 - rem) % 64)) % W64) = v
  have hbit : ∀ i, i < 64 → v.testBit i = (decide (64 - rem ≤ i) && p (mem (a + i))) := by
    intro i hi
    rw [← hv, Nat.testBit_and, mask64_testBit F1 F2 i hi, highMask64_testBit (64 - rem) i (by omega) hi]
    by_cases h : i < 32
    · rw [if_pos h, hF1 i, Bool.and_comm]
    · rw [if_neg h, hF2 (i - 32), Bool.and_comm]
      have : a + 32 + (i - 32) = a + i := by omega
      rw [this]
  have e : (64 : Nat) = (64 - rem) + rem := by omega
  rw [e, cntBits_append]
  have z1 : cntBits v 0 (64 - rem) = 0 := by
    apply cntBits_zero
    intro i _ hi
    rw [hbit i (by omega)]
    have : ¬ 64 - rem ≤ i := by omega
    simp [this]
  have mid : cntBits v (0 + (64 - rem)) rem = cntBlk p mem a (64 - rem) rem := by
    rw [Nat.zero_add]
    apply cntBits_eq_cntBlk
    intro i h1 h2
    rw [hbit i (by omega)]
    simp [h1]
  rw [z1, mid, ← e]; omega

theorem and63 (n : Nat) : n &&& 63 = n % 64 := by
  have : (63 : Nat) = 2 ^ 6 - 1 := rfl
  rw [this, Nat.and_two_pow_sub_one_eq_mod]

theorem cntLoop_succ64 (p : UInt8 → Bool) (mem : Mem) (base len n di acc : Nat) :
    cntLoop P64 p mem base len (n + 1) di acc =
      if di ≤ len - 64 then
        ((cntLoop P64 p mem base len n (di + 64) (acc + cntBlk p mem (base + di) 0 64)).1,
          (base + di, 64) :: (cntLoop P64 p mem base len n (di + 64) (acc + cntBlk p mem (base + di) 0 64)).2)
      else if len % 64 = 0 then (acc, [])
      else (acc + cntBlk p mem (base + (len - 64)) (64 - len % 64) (len % 64), [(base + (len - 64), 64)]) := rfl

theorem cntBlk_64 (p : UInt8 → Bool) (mem : Mem) (a : Nat) :
    cntBlk p mem a 0 64 = cntBlk p mem a 0 32 + cntBlk p mem (a + 32) 0 32 := by
  have e : (64 : Nat) = 32 + 32 := rfl
  rw [e, cntBlk_add, cntBlk_shift]

theorem dispN32 : dispN 32 = 32 := by decide
theorem dispNm64 : dispN (-64) = W64 - 64 := by decide

def Inside (base len : Nat) (ld : Nat × Nat) : Prop := base ≤ ld.1 ∧ ld.1 + ld.2 ≤ base + len

theorem loads_ok (base len : Nat) (L0 L : List (Nat × Nat)) (h : ∀ ld ∈ L, Inside base len ld) :
    ∀ ld ∈ L0 ++ L, ld ∈ L0 ∨ Inside base len ld := by
  intro ld hld
  rcases List.mem_append.1 hld with h1 | h1
  · exact Or.inl h1
  · exact Or.inr (h ld h1)

theorem loads_ok0 (base len : Nat) (L0 : List (Nat × Nat)) : ∀ ld ∈ L0, ld ∈ L0 ∨ Inside base len ld :=
  fun _ h => Or.inl h

set_option maxRecDepth 8000 in
set_option maxHeartbeats 4000000 in
theorem avxcnt_countbody_inv (mem : Nat → UInt8) (base len : Nat) (c : UInt8) (h64 : 64 ≤ len) (hb : base + len + 128 < 2 ^ 62) :
    ∀ (n di acc : Nat) (s : St) (f : Nat),
      s.r .SI = base → s.r .DI = base + di → s.r .R11 = base + len - 64 → s.r .R13 = base + len → s.r .BX = len → s.r .R12 = acc →
      (∀ j, s.y .Y1 j = c) → (∀ _j : Nat, True) → s.mem = mem → s.out = none →
      di ≤ len - 64 → di % 64 = 0 → acc ≤ di → len < n * 64 + 64 + di → 13 * n + 40 ≤ f →
      (run Gen.Asm.body_countbody f (Lavx Gen.Asm.body_countbody) s).out =
          some (((cntLoop P64 (fun b => b == c) mem base len (n + 1) di acc).1 : Nat) : Int) ∧
      ∀ ld ∈ (run Gen.Asm.body_countbody f (Lavx Gen.Asm.body_countbody) s).loads, ld ∈ s.loads ∨ Inside base len ld := by
  intro n
  induction n with
  | zero => intro di acc s f _ _ _ _ _ _ _ _ _ _ h1 _ _ h2; omega
  | succ n ih =>
    intro di acc s f hSI hDI hR11 hR13 hBX hR12 hY1 hY6 hmem hout hdl hmod hacc hf hfuel
    have hW : W64 = 2 ^ 64 := rfl
    rw [cntLoop_succ64, if_pos hdl]
    have a0 : (base + di + 0 + dispN 0) % W64 = base + di := by rw [dispN0, hW]; omega
    have a32 : (base + di + 0 + dispN 32) % W64 = base + di + 32 := by rw [dispN32, hW]; omega
    have hpc1 := popcnt_full32 (fun j => if mem (base + di + j) = c then (255 : UInt8) else 0) (fun b => b == c) mem (base + di)
      (fun j => by by_cases h : mem (base + di + j) = c <;> simp [h])
    have hpc2 := popcnt_full32 (fun j => if mem (base + di + 32 + j) = c then (255 : UInt8) else 0) (fun b => b == c) mem (base + di + 32)
      (fun j => by by_cases h : mem (base + di + 32 + j) = c <;> simp [h])
    have hq1 := cntBlk_le (fun b => b == c) mem (base + di) 32 0
    have hq2 := cntBlk_le (fun b => b == c) mem (base + di + 32) 32 0
    have hacc1 : (acc + cntBlk (fun b => b == c) mem (base + di) 0 32) % W64 = acc + cntBlk (fun b => b == c) mem (base + di) 0 32 := by
      rw [hW]; omega
    have hacc2 : (acc + cntBlk (fun b => b == c) mem (base + di) 0 32 + cntBlk (fun b => b == c) mem (base + di + 32) 0 32) % W64 =
        acc + cntBlk (fun b => b == c) mem (base + di) 0 32 + cntBlk (fun b => b == c) mem (base + di + 32) 0 32 := by
      rw [hW]; omega
    have e64 : acc + cntBlk (fun b => b == c) mem (base + di) 0 64 =
        acc + cntBlk (fun b => b == c) mem (base + di) 0 32 + cntBlk (fun b => b == c) mem (base + di + 32) 0 32 := by
      rw [cntBlk_64]; omega
    rw [e64]
    have hadd : (base + di + 64 % W64) % W64 = base + (di + 64) := by rw [hW]; omega
    have s1 : sgn (base + (di + 64)) = ((base + (di + 64) : Nat) : Int) := sgn_small _ (by omega)
    have s2 : sgn (base + len - 64) = ((base + len - 64 : Nat) : Int) := sgn_small _ (by omega)
    by_cases hnext : di + 64 ≤ len - 64
    · have hj : (decide (((base + (di + 64) : Nat) : Int) < ((base + len - 64 : Nat) : Int)) || (base + (di + 64) == base + len - 64)) = true := by
        by_cases h : di + 64 = len - 64
        · have : base + (di + 64) = base + len - 64 := by omega
          simp [this]
        · have : ((base + (di + 64) : Nat) : Int) < ((base + len - 64 : Nat) : Int) := by omega
          rw [Bool.or_eq_true]; left; exact decide_eq_true this
      obtain ⟨g, rfl⟩ : ∃ g, f = g + 13 := ⟨f - 13, by omega⟩
      have hstep : ∃ s' : St, run Gen.Asm.body_countbody (g + 13) (Lavx Gen.Asm.body_countbody) s =
            run Gen.Asm.body_countbody g (Lavx Gen.Asm.body_countbody) s' ∧
          s'.r .SI = base ∧ s'.r .DI = base + (di + 64) ∧ s'.r .R11 = base + len - 64 ∧ s'.r .R13 = base + len ∧ s'.r .BX = len ∧
          s'.r .R12 = acc + cntBlk (fun b => b == c) mem (base + di) 0 32 + cntBlk (fun b => b == c) mem (base + di + 32) 0 32 ∧
          (∀ j, s'.y .Y1 j = c) ∧ (∀ _j : Nat, True) ∧ s'.mem = mem ∧ s'.out = none ∧
          s'.loads = s.loads ++ [(base + di, 32), (base + di + 32, 32)] := by
        refine ⟨?_, ?_, ?_, ?_, ?_, ?_, ?_, ?_, ?_, ?_, ?_, ?_, ?_⟩
        case refine_2 =>
          avx_step [Gen.Asm.body_countbody, hSI, hDI, hR11, hR13, hBX, hR12, hY1, hmem, a0, a32, hpc1, hpc2, hacc1, hacc2, hadd, s1, s2, hj]
          rfl
        all_goals simp [hSI, hR11, hR13, hBX, hY1, hout]
      obtain ⟨s', he, i1, i2, i3, i4, i5, i6, i7, i8, i9, i10, i11⟩ := hstep
      have := ih (di + 64) (acc + cntBlk (fun b => b == c) mem (base + di) 0 32 + cntBlk (fun b => b == c) mem (base + di + 32) 0 32) s' g i1 i2 i3 i4 i5 i6 i7 i8 i9 i10 hnext (by omega) (by omega) (by omega) (by omega)
      rw [he, this.1]
      refine ⟨rfl, ?_⟩
      intro ld hld
      rcases this.2 ld hld with h | h
      · rw [i11] at h
        rcases List.mem_append.1 h with h1 | h1
        · exact Or.inl h1
        · right
          simp only [List.mem_cons, List.not_mem_nil, or_false] at h1
          rcases h1 with rfl | rfl <;> (unfold Inside; constructor <;> simp only [] <;> omega)
      · exact Or.inr h
    · have hj : (decide (((base + (di + 64) : Nat) : Int) < ((base + len - 64 : Nat) : Int)) || (base + (di + 64) == base + len - 64)) = false := by
        have h1 : ¬ ((base + (di + 64) : Nat) : Int) < ((base + len - 64 : Nat) : Int) := by omega
        have h2 : ¬ base + (di + 64) = base + len - 64 := by omega
        rw [Bool.or_eq_false_iff]; exact ⟨decide_eq_false h1, beq_eq_false_iff_ne.mpr h2⟩
      rw [cntLoop_succ64, if_neg hnext]
      have hin : ∀ ld ∈ [(base + di, 32), (base + di + 32, 32)], Inside base len ld := by
        intro ld h1
        simp only [List.mem_cons, List.not_mem_nil, or_false] at h1
        rcases h1 with rfl | rfl <;> (unfold Inside; constructor <;> simp only [] <;> omega)
      have hacc63 : acc + cntBlk (fun b => b == c) mem (base + di) 0 32 + cntBlk (fun b => b == c) mem (base + di + 32) 0 32 < 2 ^ 63 := by omega
      obtain ⟨g, rfl⟩ : ∃ g, f = g + 40 := ⟨f - 40, by omega⟩
      by_cases hrem : len % 64 = 0
      · rw [if_pos hrem]
        have hz : (base + (di + 64) == base + len) = true := beq_iff_eq.mpr (by omega)
        refine ⟨?_, ?_⟩
        · avx_step [Gen.Asm.body_countbody, hSI, hDI, hR11, hR13, hBX, hR12, hY1, hmem, hout, a0, a32, hpc1, hpc2, hacc1, hacc2, hadd, s1, s2, hj, hz, hacc63]
        · avx_step [Gen.Asm.body_countbody, hSI, hDI, hR11, hR13, hBX, hR12, hY1, hmem, hout, a0, a32, hpc1, hpc2, hacc1, hacc2, hadd, s1, s2, hj, hz, hacc63]
          exact loads_ok base len _ _ hin
      · rw [if_neg hrem]
        have hz : (base + (di + 64) == base + len) = false := beq_eq_false_iff_ne.mpr (by omega)
        have eaddr : base + (len - 64) = base + len - 64 := by omega
        rw [eaddr]
        have b0 : (base + len - 64 + 0 + dispN 0) % W64 = base + len - 64 := by rw [dispN0, hW]; omega
        have b32 : (base + len - 64 + 0 + dispN 32) % W64 = base + len - 64 + 32 := by rw [dispN32, hW]; omega
        have hand := and63 len
        have e64w : 64 % W64 = 64 := by decide
        have em1 : 18446744073709551615 % W64 = 18446744073709551615 := by decide
        have hcx : (64 + W64 - len % 64 % W64) % W64 = 64 - len % 64 := by rw [hW]; omega
        have hadd' : (base + di + 64) % W64 = base + (di + 64) := by rw [hW]; omega
        have htail := popcnt_tail64 (fun j => if mem (base + len - 64 + j) = c then (255 : UInt8) else 0)
          (fun j => if mem (base + len - 64 + 32 + j) = c then (255 : UInt8) else 0) (fun b => b == c) mem (base + len - 64) (len % 64)
          (by omega) (Nat.mod_lt _ (by omega))
          (fun j => by by_cases h : mem (base + len - 64 + j) = c <;> simp [h])
          (fun j => by by_cases h : mem (base + len - 64 + 32 + j) = c <;> simp [h])
        have hq3 := cntBlk_le (fun b => b == c) mem (base + len - 64) (len % 64) (64 - len % 64)
        have hacc3 : (acc + cntBlk (fun b => b == c) mem (base + di) 0 32 + cntBlk (fun b => b == c) mem (base + di + 32) 0 32 +
            cntBlk (fun b => b == c) mem (base + len - 64) (64 - len % 64) (len % 64)) % W64 =
            acc + cntBlk (fun b => b == c) mem (base + di) 0 32 + cntBlk (fun b => b == c) mem (base + di + 32) 0 32 +
            cntBlk (fun b => b == c) mem (base + len - 64) (64 - len % 64) (len % 64) := by
          rw [hW]; omega
        have hacc63' : acc + cntBlk (fun b => b == c) mem (base + di) 0 32 + cntBlk (fun b => b == c) mem (base + di + 32) 0 32 +
            cntBlk (fun b => b == c) mem (base + len - 64) (64 - len % 64) (len % 64) < 2 ^ 63 := by omega
        have hin2 : ∀ ld ∈ [(base + di, 32), (base + di + 32, 32), (base + len - 64, 32), (base + len - 64 + 32, 32)], Inside base len ld := by
          intro ld h1
          simp only [List.mem_cons, List.not_mem_nil, or_false] at h1
          rcases h1 with rfl | rfl | rfl | rfl <;> (unfold Inside; constructor <;> simp only [] <;> omega)
        refine ⟨?_, ?_⟩
        · avx_step [Gen.Asm.body_countbody, hSI, hDI, hR11, hR13, hBX, hR12, hY1, hmem, hout, a0, a32, b0, b32, hpc1, hpc2, hacc1, hacc2, hadd, s1, s2, hj, hz,
            hand, e64w, em1, hcx, hadd', htail, hacc3, hacc63']
        · avx_step [Gen.Asm.body_countbody, hSI, hDI, hR11, hR13, hBX, hR12, hY1, hmem, hout, a0, a32, b0, b32, hpc1, hpc2, hacc1, hacc2, hadd, s1, s2, hj, hz,
            hand, e64w, em1, hcx, hadd', htail, hacc3, hacc63']
          exact loads_ok base len _ _ hin2

set_option maxRecDepth 8000 in
set_option maxHeartbeats 8000000 in
/-- **`countbody`, AVX2 path, from label `avx2`** (flag set, `SI` = `DI` = data, `BX` = length ≥ 64, `R12` = 0, needle in `AL`) -/
theorem avxcnt_countbody_correct (mem : Nat → UInt8) (base len : Nat) (c : UInt8) (s : St) (f : Nat)
    (h64 : 64 ≤ len) (hb : base + len + 128 < 2 ^ 62) (havx : s.avx2 = true)
    (hSI : s.r .SI = base) (hDI : s.r .DI = base) (hBX : s.r .BX = len) (hR12 : s.r .R12 = 0) (hAL : s.r .AX % 256 = c.toNat)
    (hmem : s.mem = mem) (hout : s.out = none) (hl : s.loads = []) (hf : 13 * len + 40 + 6 ≤ f) :
    (run Gen.Asm.body_countbody f (block Gen.Asm.body_countbody "avx2") s).out =
        some ((specCount (fun b => b == c) mem base len : Nat) : Int) ∧
    ∀ ld ∈ (run Gen.Asm.body_countbody f (block Gen.Asm.body_countbody "avx2") s).loads, base ≤ ld.1 ∧ ld.1 + ld.2 ≤ base + len := by
  have hW : W64 = 2 ^ 64 := rfl
  obtain ⟨g, rfl⟩ : ∃ g, f = g + 6 := ⟨f - 6, by omega⟩
  have alea : (base + len + dispN (-64)) % W64 = base + len - 64 := by rw [dispNm64, hW]; omega
  have alea0 : (base + len + dispN 0) % W64 = base + len := by rw [dispN0, hW]; omega
  have hstep : ∃ s' : St, run Gen.Asm.body_countbody (g + 6) (block Gen.Asm.body_countbody "avx2") s =
        run Gen.Asm.body_countbody g (Lavx Gen.Asm.body_countbody) s' ∧
      s'.r .SI = base ∧ s'.r .DI = base + 0 ∧ s'.r .R11 = base + len - 64 ∧ s'.r .R13 = base + len ∧ s'.r .BX = len ∧ s'.r .R12 = 0 ∧
      (∀ j, s'.y .Y1 j = c) ∧ s'.mem = mem ∧ s'.out = none ∧ s'.loads = [] := by
    refine ⟨?_, ?_, ?_, ?_, ?_, ?_, ?_, ?_, ?_, ?_, ?_, ?_⟩
    case refine_2 =>
      avx_step [Gen.Asm.body_countbody, hSI, hBX, alea, alea0, havx]
      rfl
    case refine_9 => intro j; simp only [if_true]; exact movd_lane0 _ c hAL
    all_goals simp [hSI, hDI, hBX, hR12, hmem, hout, hl]
  obtain ⟨s', he, i1, i2, i3, i4, i5, i6, i7, i8, i9, i10⟩ := hstep
  have hinv := avxcnt_countbody_inv mem base len c h64 hb len 0 0 s' g i1 i2 i3 i4 i5 i6 i7 (fun _ => trivial) i8 i9
    (by omega) (by omega) (by omega) (by omega) (by omega)
  have hcor := cntLoop_correct P64 ⟨rfl, rfl, by decide⟩ (fun b => b == c) mem base len h64 (len + 1) 0 0 (by omega)
    (by show len < (len + 1 + 0) * 64; omega) (by simp [cntBlk])
  have e0 : 0 * P64.width = 0 := by omega
  rw [e0] at hcor
  rw [he, hinv.1, hcor.1]
  refine ⟨rfl, ?_⟩
  intro ld hld
  rcases hinv.2 ld hld with h | h
  · rw [i10] at h; cases h
  · exact h

set_option maxRecDepth 8000 in
set_option maxHeartbeats 4000000 in
theorem avxcnt_countbodyCase_inv (mem : Nat → UInt8) (base len : Nat) (c : UInt8) (h64 : 64 ≤ len) (hb : base + len + 128 < 2 ^ 62) :
    ∀ (n di acc : Nat) (s : St) (f : Nat),
      s.r .SI = base → s.r .DI = base + di → s.r .R11 = base + len - 64 → s.r .R13 = base + len → s.r .BX = len → s.r .R12 = acc →
      (∀ j, s.y .Y1 j = c) → (∀ j, s.y .Y6 j = 0x20) → s.mem = mem → s.out = none →
      di ≤ len - 64 → di % 64 = 0 → acc ≤ di → len < n * 64 + 64 + di → 15 * n + 45 ≤ f →
      (run Gen.Asm.body_countbodyCase f (Lavx Gen.Asm.body_countbodyCase) s).out =
          some (((cntLoop P64 (fun b => (b ||| 0x20) == c) mem base len (n + 1) di acc).1 : Nat) : Int) ∧
      ∀ ld ∈ (run Gen.Asm.body_countbodyCase f (Lavx Gen.Asm.body_countbodyCase) s).loads, ld ∈ s.loads ∨ Inside base len ld := by
  intro n
  induction n with
  | zero => intro di acc s f _ _ _ _ _ _ _ _ _ _ h1 _ _ h2; omega
  | succ n ih =>
    intro di acc s f hSI hDI hR11 hR13 hBX hR12 hY1 hY6 hmem hout hdl hmod hacc hf hfuel
    have hW : W64 = 2 ^ 64 := rfl
    rw [cntLoop_succ64, if_pos hdl]
    have a0 : (base + di + 0 + dispN 0) % W64 = base + di := by rw [dispN0, hW]; omega
    have a32 : (base + di + 0 + dispN 32) % W64 = base + di + 32 := by rw [dispN32, hW]; omega
    have hpc1 := popcnt_full32 (fun j => if mem (base + di + j) ||| 32 = c then (255 : UInt8) else 0) (fun b => (b ||| 0x20) == c) mem (base + di)
      (fun j => by by_cases h : mem (base + di + j) ||| 32 = c <;> simp [h])
    have hpc2 := popcnt_full32 (fun j => if mem (base + di + 32 + j) ||| 32 = c then (255 : UInt8) else 0) (fun b => (b ||| 0x20) == c) mem (base + di + 32)
      (fun j => by by_cases h : mem (base + di + 32 + j) ||| 32 = c <;> simp [h])
    have hq1 := cntBlk_le (fun b => (b ||| 0x20) == c) mem (base + di) 32 0
    have hq2 := cntBlk_le (fun b => (b ||| 0x20) == c) mem (base + di + 32) 32 0
    have hacc1 : (acc + cntBlk (fun b => (b ||| 0x20) == c) mem (base + di) 0 32) % W64 = acc + cntBlk (fun b => (b ||| 0x20) == c) mem (base + di) 0 32 := by
      rw [hW]; omega
    have hacc2 : (acc + cntBlk (fun b => (b ||| 0x20) == c) mem (base + di) 0 32 + cntBlk (fun b => (b ||| 0x20) == c) mem (base + di + 32) 0 32) % W64 =
        acc + cntBlk (fun b => (b ||| 0x20) == c) mem (base + di) 0 32 + cntBlk (fun b => (b ||| 0x20) == c) mem (base + di + 32) 0 32 := by
      rw [hW]; omega
    have e64 : acc + cntBlk (fun b => (b ||| 0x20) == c) mem (base + di) 0 64 =
        acc + cntBlk (fun b => (b ||| 0x20) == c) mem (base + di) 0 32 + cntBlk (fun b => (b ||| 0x20) == c) mem (base + di + 32) 0 32 := by
      rw [cntBlk_64]; omega
    rw [e64]
    have hadd : (base + di + 64 % W64) % W64 = base + (di + 64) := by rw [hW]; omega
    have s1 : sgn (base + (di + 64)) = ((base + (di + 64) : Nat) : Int) := sgn_small _ (by omega)
    have s2 : sgn (base + len - 64) = ((base + len - 64 : Nat) : Int) := sgn_small _ (by omega)
    by_cases hnext : di + 64 ≤ len - 64
    · have hj : (decide (((base + (di + 64) : Nat) : Int) < ((base + len - 64 : Nat) : Int)) || (base + (di + 64) == base + len - 64)) = true := by
        by_cases h : di + 64 = len - 64
        · have : base + (di + 64) = base + len - 64 := by omega
          simp [this]
        · have : ((base + (di + 64) : Nat) : Int) < ((base + len - 64 : Nat) : Int) := by omega
          rw [Bool.or_eq_true]; left; exact decide_eq_true this
      obtain ⟨g, rfl⟩ : ∃ g, f = g + 15 := ⟨f - 15, by omega⟩
      have hstep : ∃ s' : St, run Gen.Asm.body_countbodyCase (g + 15) (Lavx Gen.Asm.body_countbodyCase) s =
            run Gen.Asm.body_countbodyCase g (Lavx Gen.Asm.body_countbodyCase) s' ∧
          s'.r .SI = base ∧ s'.r .DI = base + (di + 64) ∧ s'.r .R11 = base + len - 64 ∧ s'.r .R13 = base + len ∧ s'.r .BX = len ∧
          s'.r .R12 = acc + cntBlk (fun b => (b ||| 0x20) == c) mem (base + di) 0 32 + cntBlk (fun b => (b ||| 0x20) == c) mem (base + di + 32) 0 32 ∧
          (∀ j, s'.y .Y1 j = c) ∧ (∀ j, s'.y .Y6 j = 0x20) ∧ s'.mem = mem ∧ s'.out = none ∧
          s'.loads = s.loads ++ [(base + di, 32), (base + di + 32, 32)] := by
        refine ⟨?_, ?_, ?_, ?_, ?_, ?_, ?_, ?_, ?_, ?_, ?_, ?_, ?_⟩
        case refine_2 =>
          avx_step [Gen.Asm.body_countbodyCase, hSI, hDI, hR11, hR13, hBX, hR12, hY1, hY6, hmem, a0, a32, hpc1, hpc2, hacc1, hacc2, hadd, s1, s2, hj]
          rfl
        all_goals simp [hSI, hR11, hR13, hBX, hY1, hY6, hout]
      obtain ⟨s', he, i1, i2, i3, i4, i5, i6, i7, i8, i9, i10, i11⟩ := hstep
      have := ih (di + 64) (acc + cntBlk (fun b => (b ||| 0x20) == c) mem (base + di) 0 32 + cntBlk (fun b => (b ||| 0x20) == c) mem (base + di + 32) 0 32) s' g i1 i2 i3 i4 i5 i6 i7 i8 i9 i10 hnext (by omega) (by omega) (by omega) (by omega)
      rw [he, this.1]
      refine ⟨rfl, ?_⟩
      intro ld hld
      rcases this.2 ld hld with h | h
      · rw [i11] at h
        rcases List.mem_append.1 h with h1 | h1
        · exact Or.inl h1
        · right
          simp only [List.mem_cons, List.not_mem_nil, or_false] at h1
          rcases h1 with rfl | rfl <;> (unfold Inside; constructor <;> simp only [] <;> omega)
      · exact Or.inr h
    · have hj : (decide (((base + (di + 64) : Nat) : Int) < ((base + len - 64 : Nat) : Int)) || (base + (di + 64) == base + len - 64)) = false := by
        have h1 : ¬ ((base + (di + 64) : Nat) : Int) < ((base + len - 64 : Nat) : Int) := by omega
        have h2 : ¬ base + (di + 64) = base + len - 64 := by omega
        rw [Bool.or_eq_false_iff]; exact ⟨decide_eq_false h1, beq_eq_false_iff_ne.mpr h2⟩
      rw [cntLoop_succ64, if_neg hnext]
      have hin : ∀ ld ∈ [(base + di, 32), (base + di + 32, 32)], Inside base len ld := by
        intro ld h1
        simp only [List.mem_cons, List.not_mem_nil, or_false] at h1
        rcases h1 with rfl | rfl <;> (unfold Inside; constructor <;> simp only [] <;> omega)
      have hacc63 : acc + cntBlk (fun b => (b ||| 0x20) == c) mem (base + di) 0 32 + cntBlk (fun b => (b ||| 0x20) == c) mem (base + di + 32) 0 32 < 2 ^ 63 := by omega
      obtain ⟨g, rfl⟩ : ∃ g, f = g + 45 := ⟨f - 45, by omega⟩
      by_cases hrem : len % 64 = 0
      · rw [if_pos hrem]
        have hz : (base + (di + 64) == base + len) = true := beq_iff_eq.mpr (by omega)
        refine ⟨?_, ?_⟩
        · avx_step [Gen.Asm.body_countbodyCase, hSI, hDI, hR11, hR13, hBX, hR12, hY1, hY6, hmem, hout, a0, a32, hpc1, hpc2, hacc1, hacc2, hadd, s1, s2, hj, hz, hacc63]
        · avx_step [Gen.Asm.body_countbodyCase, hSI, hDI, hR11, hR13, hBX, hR12, hY1, hY6, hmem, hout, a0, a32, hpc1, hpc2, hacc1, hacc2, hadd, s1, s2, hj, hz, hacc63]
          exact loads_ok base len _ _ hin
      · rw [if_neg hrem]
        have hz : (base + (di + 64) == base + len) = false := beq_eq_false_iff_ne.mpr (by omega)
        have eaddr : base + (len - 64) = base + len - 64 := by omega
        rw [eaddr]
        have b0 : (base + len - 64 + 0 + dispN 0) % W64 = base + len - 64 := by rw [dispN0, hW]; omega
        have b32 : (base + len - 64 + 0 + dispN 32) % W64 = base + len - 64 + 32 := by rw [dispN32, hW]; omega
        have hand := and63 len
        have e64w : 64 % W64 = 64 := by decide
        have em1 : 18446744073709551615 % W64 = 18446744073709551615 := by decide
        have hcx : (64 + W64 - len % 64 % W64) % W64 = 64 - len % 64 := by rw [hW]; omega
        have hadd' : (base + di + 64) % W64 = base + (di + 64) := by rw [hW]; omega
        have htail := popcnt_tail64 (fun j => if mem (base + len - 64 + j) ||| 32 = c then (255 : UInt8) else 0)
          (fun j => if mem (base + len - 64 + 32 + j) ||| 32 = c then (255 : UInt8) else 0) (fun b => (b ||| 0x20) == c) mem (base + len - 64) (len % 64)
          (by omega) (Nat.mod_lt _ (by omega))
          (fun j => by by_cases h : mem (base + len - 64 + j) ||| 32 = c <;> simp [h])
          (fun j => by by_cases h : mem (base + len - 64 + 32 + j) ||| 32 = c <;> simp [h])
        have hq3 := cntBlk_le (fun b => (b ||| 0x20) == c) mem (base + len - 64) (len % 64) (64 - len % 64)
        have hacc3 : (acc + cntBlk (fun b => (b ||| 0x20) == c) mem (base + di) 0 32 + cntBlk (fun b => (b ||| 0x20) == c) mem (base + di + 32) 0 32 +
            cntBlk (fun b => (b ||| 0x20) == c) mem (base + len - 64) (64 - len % 64) (len % 64)) % W64 =
            acc + cntBlk (fun b => (b ||| 0x20) == c) mem (base + di) 0 32 + cntBlk (fun b => (b ||| 0x20) == c) mem (base + di + 32) 0 32 +
            cntBlk (fun b => (b ||| 0x20) == c) mem (base + len - 64) (64 - len % 64) (len % 64) := by
          rw [hW]; omega
        have hacc63' : acc + cntBlk (fun b => (b ||| 0x20) == c) mem (base + di) 0 32 + cntBlk (fun b => (b ||| 0x20) == c) mem (base + di + 32) 0 32 +
            cntBlk (fun b => (b ||| 0x20) == c) mem (base + len - 64) (64 - len % 64) (len % 64) < 2 ^ 63 := by omega
        have hin2 : ∀ ld ∈ [(base + di, 32), (base + di + 32, 32), (base + len - 64, 32), (base + len - 64 + 32, 32)], Inside base len ld := by
          intro ld h1
          simp only [List.mem_cons, List.not_mem_nil, or_false] at h1
          rcases h1 with rfl | rfl | rfl | rfl <;> (unfold Inside; constructor <;> simp only [] <;> omega)
        refine ⟨?_, ?_⟩
        · avx_step [Gen.Asm.body_countbodyCase, hSI, hDI, hR11, hR13, hBX, hR12, hY1, hY6, hmem, hout, a0, a32, b0, b32, hpc1, hpc2, hacc1, hacc2, hadd, s1, s2, hj, hz,
            hand, e64w, em1, hcx, hadd', htail, hacc3, hacc63']
        · avx_step [Gen.Asm.body_countbodyCase, hSI, hDI, hR11, hR13, hBX, hR12, hY1, hY6, hmem, hout, a0, a32, b0, b32, hpc1, hpc2, hacc1, hacc2, hadd, s1, s2, hj, hz,
            hand, e64w, em1, hcx, hadd', htail, hacc3, hacc63']
          exact loads_ok base len _ _ hin2


set_option maxRecDepth 8000 in
set_option maxHeartbeats 8000000 in
/-- **`countbodyCase`, AVX2 path, from label `avx2`** (flag set, `SI` = `DI` = data, `BX` = length ≥ 64, `R12` = 0, needle in `AL`) -/
theorem avxcnt_countbodyCase_correct (mem : Nat → UInt8) (base len : Nat) (c : UInt8) (s : St) (f : Nat)
    (h64 : 64 ≤ len) (hb : base + len + 128 < 2 ^ 62) (havx : s.avx2 = true)
    (hSI : s.r .SI = base) (hDI : s.r .DI = base) (hBX : s.r .BX = len) (hR12 : s.r .R12 = 0) (hAL : s.r .AX % 256 = c.toNat) (hX2 : ∀ j, s.x .X2 j = 0x20)
    (hmem : s.mem = mem) (hout : s.out = none) (hl : s.loads = []) (hf : 15 * len + 45 + 7 ≤ f) :
    (run Gen.Asm.body_countbodyCase f (block Gen.Asm.body_countbodyCase "avx2") s).out =
        some ((specCount (fun b => (b ||| 0x20) == c) mem base len : Nat) : Int) ∧
    ∀ ld ∈ (run Gen.Asm.body_countbodyCase f (block Gen.Asm.body_countbodyCase "avx2") s).loads, base ≤ ld.1 ∧ ld.1 + ld.2 ≤ base + len := by
  have hW : W64 = 2 ^ 64 := rfl
  obtain ⟨g, rfl⟩ : ∃ g, f = g + 7 := ⟨f - 7, by omega⟩
  have alea : (base + len + dispN (-64)) % W64 = base + len - 64 := by rw [dispNm64, hW]; omega
  have alea0 : (base + len + dispN 0) % W64 = base + len := by rw [dispN0, hW]; omega
  have hstep : ∃ s' : St, run Gen.Asm.body_countbodyCase (g + 7) (block Gen.Asm.body_countbodyCase "avx2") s =
        run Gen.Asm.body_countbodyCase g (Lavx Gen.Asm.body_countbodyCase) s' ∧
      s'.r .SI = base ∧ s'.r .DI = base + 0 ∧ s'.r .R11 = base + len - 64 ∧ s'.r .R13 = base + len ∧ s'.r .BX = len ∧ s'.r .R12 = 0 ∧
      (∀ j, s'.y .Y1 j = c) ∧ (∀ j, s'.y .Y6 j = 0x20) ∧ s'.mem = mem ∧ s'.out = none ∧ s'.loads = [] := by
    refine ⟨?_, ?_, ?_, ?_, ?_, ?_, ?_, ?_, ?_, ?_, ?_, ?_, ?_⟩
    case refine_2 =>
      avx_step [Gen.Asm.body_countbodyCase, hSI, hBX, alea, alea0, havx]
      rfl
    case refine_9 => intro j; simp only [if_true]; exact movd_lane0 _ c hAL
    all_goals simp [hSI, hDI, hBX, hR12, hmem, hout, hl, hX2]
  obtain ⟨s', he, i1, i2, i3, i4, i5, i6, i7, i7b, i8, i9, i10⟩ := hstep
  have hinv := avxcnt_countbodyCase_inv mem base len c h64 hb len 0 0 s' g i1 i2 i3 i4 i5 i6 i7 i7b i8 i9
    (by omega) (by omega) (by omega) (by omega) (by omega)
  have hcor := cntLoop_correct P64 ⟨rfl, rfl, by decide⟩ (fun b => (b ||| 0x20) == c) mem base len h64 (len + 1) 0 0 (by omega)
    (by show len < (len + 1 + 0) * 64; omega) (by simp [cntBlk])
  have e0 : 0 * P64.width = 0 := by omega
  rw [e0] at hcor
  rw [he, hinv.1, hcor.1]
  refine ⟨rfl, ?_⟩
  intro ld hld
  rcases hinv.2 ld hld with h | h
  · rw [i10] at h; cases h
  · exact h

set_option maxRecDepth 8000 in
set_option maxHeartbeats 8000000 in
/-- **`countbody` from its first instruction, every flag setting and every length** -/
theorem full_countbody (mem : Nat → UInt8) (base len : Nat) (c : UInt8) (s : St) (f : Nat)
    (hb : base + len + 128 < 2 ^ 62)
    (hSI : s.r .SI = base) (hBX : s.r .BX = len) (hAL : s.r .AX % 256 = c.toNat)
    (hmem : s.mem = mem) (hout : s.out = none) (hl : s.loads = [])
    (hf : 15 * (len + 1) + 70 ≤ f) :
    (run Gen.Asm.body_countbody f (block Gen.Asm.body_countbody "entry") s).out =
        some ((specCount (fun b => b == c) mem base len : Nat) : Int) ∧
    Safe base len (run Gen.Asm.body_countbody f (block Gen.Asm.body_countbody "entry") s).loads := by
  by_cases hcfg : s.avx2 = false ∨ len < 64
  · exact whole_countbody mem base len c s f (by omega) hSI hBX hAL hmem hout hl hcfg (by omega)
  · have havx : s.avx2 = true := by
      cases h : s.avx2 with
      | false => exact absurd (Or.inl h) hcfg
      | true => rfl
    have h64 : 64 ≤ len := by
      have : ¬ len < 64 := fun h => hcfg (Or.inr h)
      omega
    have e16 : 16 % W64 = 16 := by decide
    have e32 : 64 % W64 = 64 := by decide
    have e0 : 0 % W64 = 0 := by decide
    have s16 : sgn 16 = 16 := by decide
    have slen : sgn len = (len : Int) := sgn_small len (by omega)
    have hlt : decide ((len : Int) < 16) = false := decide_eq_false (by omega)
    have hcf : decide (len < 64) = false := decide_eq_false (by omega)
    obtain ⟨g, rfl⟩ : ∃ g, f = g + 10 := ⟨f - 10, by omega⟩
    have hstep : ∃ s' : St, run Gen.Asm.body_countbody (g + 10) (block Gen.Asm.body_countbody "entry") s =
          run Gen.Asm.body_countbody g (block Gen.Asm.body_countbody "avx2") s' ∧
        s'.avx2 = true ∧ s'.r .SI = base ∧ s'.r .DI = base ∧ s'.r .BX = len ∧ s'.r .R12 = 0 ∧ s'.r .AX % 256 = c.toNat ∧
        s'.mem = mem ∧ s'.out = none ∧ s'.loads = [] := by
      refine ⟨?_, ?_, ?_, ?_, ?_, ?_, ?_, ?_, ?_, ?_, ?_⟩
      case refine_2 =>
        asm_exec [Gen.Asm.body_countbody, hSI, hBX, e16, e32, e0, s16, slen, hlt, hcf]
        rfl
      all_goals simp [hSI, hBX, hmem, hout, hl, havx, hAL]
    obtain ⟨s', he, i0, i1, i2, i3, ir, i4, i5, i6, i7⟩ := hstep
    rw [he]
    have hlp := avxcnt_countbody_correct mem base len c s' g h64 hb i0 i1 i2 i3 ir i4 i5 i6 i7 (by omega)
    exact ⟨hlp.1, safe_of_inside base len _ hlp.2⟩

set_option maxRecDepth 8000 in
set_option maxHeartbeats 8000000 in
/-- **`countbodyCase` from its first instruction, every flag setting and every length** -/
theorem full_countbodyCase (mem : Nat → UInt8) (base len : Nat) (c : UInt8) (s : St) (f : Nat)
    (hb : base + len + 128 < 2 ^ 62)
    (hSI : s.r .SI = base) (hBX : s.r .BX = len) (hAL : s.r .AX % 256 = c.toNat)
    (hmem : s.mem = mem) (hout : s.out = none) (hl : s.loads = [])
    (hf : 15 * (len + 1) + 80 ≤ f) :
    (run Gen.Asm.body_countbodyCase f (block Gen.Asm.body_countbodyCase "entry") s).out =
        some ((specCount (fun b => (b ||| 0x20) == (c ||| 0x20)) mem base len : Nat) : Int) ∧
    Safe base len (run Gen.Asm.body_countbodyCase f (block Gen.Asm.body_countbodyCase "entry") s).loads := by
  by_cases hcfg : s.avx2 = false ∨ len ≤ 64
  · exact whole_countbodyCase mem base len c s f (by omega) hSI hBX hAL hmem hout hl hcfg (by omega)
  · have havx : s.avx2 = true := by
      cases h : s.avx2 with
      | false => exact absurd (Or.inl h) hcfg
      | true => rfl
    have h64 : 64 < len := by
      have : ¬ len ≤ 64 := fun h => hcfg (Or.inr h)
      omega
    have e16 : 16 % W64 = 16 := by decide
    have e32 : 64 % W64 = 64 := by decide
    have e0 : 0 % W64 = 0 := by decide
    have s16 : sgn 16 = 16 := by decide
    have slen : sgn len = (len : Int) := sgn_small len (by omega)
    have hlt : decide ((len : Int) < 16) = false := decide_eq_false (by omega)
    have hcf : (decide (len < 64) || (len == 64)) = false := by
      have h1 : ¬ len < 64 := by omega
      have h2 : ¬ len = 64 := by omega
      simp [h1, h2]
    obtain ⟨g, rfl⟩ : ∃ g, f = g + 16 := ⟨f - 16, by omega⟩
    have hstep : ∃ s' : St, run Gen.Asm.body_countbodyCase (g + 16) (block Gen.Asm.body_countbodyCase "entry") s =
          run Gen.Asm.body_countbodyCase g (block Gen.Asm.body_countbodyCase "avx2") s' ∧
        s'.avx2 = true ∧ s'.r .SI = base ∧ s'.r .DI = base ∧ s'.r .BX = len ∧ s'.r .R12 = 0 ∧ s'.r .AX % 256 = (c ||| 0x20).toNat ∧
        (∀ j, s'.x .X2 j = 0x20) ∧ s'.mem = mem ∧ s'.out = none ∧ s'.loads = [] := by
      refine ⟨?_, ?_, ?_, ?_, ?_, ?_, ?_, ?_, ?_, ?_, ?_, ?_⟩
      case refine_2 =>
        asm_exec [Gen.Asm.body_countbodyCase, hSI, hBX, e16, e32, e0, s16, slen, hlt, hcf]
        rfl
      case refine_8 => simp only [if_true, reduceCtorEq, if_false]; exact orl_lane _ c hAL
      case refine_9 => intro j; simp only [if_true]; exact broadcast_lane8 _ 0x20 (by decide) j
      all_goals simp [hSI, hBX, hmem, hout, hl, havx]
    obtain ⟨s', he, i0, i1, i2, i3, ir, i4, ix2, i5, i6, i7⟩ := hstep
    rw [he]
    have hlp := avxcnt_countbodyCase_correct mem base len (c ||| 0x20) s' g (by omega) hb i0 i1 i2 i3 ir i4 ix2 i5 i6 i7 (by omega)
    exact ⟨hlp.1, safe_of_inside base len _ hlp.2⟩

end Asm
