import SC.Proofs.RIndexRune
/-!
The rune-list specification of the single-character searches meets the `IsFirstBy` contract, so the
algorithm results (proved to meet it) *equal* the specification.
-/
namespace A
open Utf8 Fold

/-- position-of-first-segment search on the segmentation, as a first-by search on the bytes -/
theorem findIdx_firstBy (P : Nat → Bool) (s : Bytes) :
    ∃ w, IsFirstBy P s ((match (dec s).findIdx? (fun p => P p.1) with | some k => ((offAt s k : Nat) : Int) | none => -1), w) := by
  cases hf : (dec s).findIdx? (fun p => P p.1) with
  | none =>
    refine ⟨0, Or.inl ⟨rfl, ?_⟩⟩
    intro i hi hil
    obtain ⟨k, hk1, hk2⟩ := hi
    have hk : k < (dec s).length := boundary_index_lt s k hk1 (by rw [hk2]; exact hil)
    have := List.findIdx?_eq_none_iff.mp hf _ (List.getElem_mem hk)
    rw [seg_at s k hk, hk2] at this
    simpa using this
  | some k =>
    obtain ⟨hk, hp, hmin⟩ := List.findIdx?_eq_some_iff_getElem.mp hf
    refine ⟨(decodeRune (s.drop (offAt s k))).2, Or.inr ⟨offAt s k, rfl, ⟨k, by omega, rfl⟩, ?_, ?_, rfl, ?_⟩⟩
    · have h1 := offAt_lt_succ s k hk
      have h2 := offAt_le s (k + 1)
      omega
    · rw [← seg_at s k hk]; simpa using hp
    · rintro j ⟨kj, hkj1, rfl⟩ hlt
      have hkk : kj < k := by
        rcases Nat.lt_or_ge kj k with h | h
        · exact h
        · have := offAt_le_of_le s k kj h hkj1; omega
      have := hmin kj hkk
      rw [seg_at s kj (by omega)] at this
      simpa using this

theorem findIdx_map (f : Nat × Nat → Nat) (q : Nat → Bool) (l : List (Nat × Nat)) :
    (l.map f).findIdx? q = l.findIdx? (fun p => q (f p)) := by
  induction l with
  | nil => rfl
  | cons a l ih => simp [List.findIdx?_cons, ih]

/-- C10: `IndexRune` of the algorithm model equals the specification, for every byte string and every `int32` -/
theorem IndexRune_eq (cfg : Cfg) (s : Bytes) (r : Int) : IndexRune cfg s r = S.indexRune s r := by
  obtain ⟨hinv, hval⟩ := IndexRune_spec cfg s r
  unfold S.indexRune
  cases hv : S.validRuneI r with
  | false => simp [hinv hv]
  | true =>
    simp only [if_true]
    obtain ⟨w, hA⟩ := hval hv
    obtain ⟨w', hS⟩ := findIdx_firstBy (fun x => caseFold x == caseFold r.toNat) s
    have := isFirstBy_unique _ s _ _ hA hS
    simp only [] at this
    rw [this]
    unfold S.fruns fdec S.fold
    rw [findIdx_map]
    rfl

theorem ContainsRune_eq (cfg : Cfg) (s : Bytes) (r : Int) : ContainsRune cfg s r = S.containsRune s r := by
  unfold ContainsRune S.containsRune; rw [IndexRune_eq]

end A
