import SC.Proofs.RIndex
import SC.Proofs.CountIdx
/-!
`Cut` and the general loop of `Count` on top of `Index = S.index`: after a match the code skips exactly the
matched code points of `s` (by their decoded widths), which is what the specification's greedy scan does.
-/
namespace A
open Utf8 Fold Spec

/-- the trim loop of Count / Cut: skip `o` code points -/
theorem skipRunes_spec : ∀ (o : Nat) (s : Bytes) (j : Nat),
    skipRunes o s j = if o ≤ (dec s).length then some (j + offAt s o) else none
  | 0, s, j => by simp [skipRunes, offAt_zero]
  | o + 1, [], j => by simp [skipRunes, dec_nil]
  | o + 1, b :: rest, j => by
    simp only [skipRunes]
    rw [skipRunes_spec o _ _]
    have hlen : (dec (b :: rest)).length = (dec ((b :: rest).drop (decodeRune (b :: rest)).2)).length + 1 := by
      rw [dec_cons b rest]; simp
    rw [hlen, offAt_succ_cons]
    by_cases h : o ≤ (dec ((b :: rest).drop (decodeRune (b :: rest)).2)).length
    · rw [if_pos h, if_pos (by omega)]; congr 1; omega
    · rw [if_neg h, if_neg (by omega)]

/-- the text after a match found at rune index `k` -/
theorem drop_after_match (s : Bytes) (k rc : Nat) (h : k + rc ≤ (dec s).length) :
    (s.drop (offAt s k)).drop (offAt (s.drop (offAt s k)) rc) = s.drop (offAt s (k + rc)) := by
  rw [List.drop_drop, offAt_drop s k rc h]
  have := offAt_le_of_le s k (k + rc) (by omega) h
  congr 1; omega

theorem countIdx_fuel {α : Type} [DecidableEq α] (t : List α) (ht : t ≠ []) :
    ∀ (f1 f2 : Nat) (s : List α), s.length < f1 → s.length < f2 → countIdx f1 s t = countIdx f2 s t := by
  intro f1
  induction f1 with
  | zero => intro f2 s h; omega
  | succ f1 ih =>
    intro f2 s h1 h2
    cases f2 with
    | zero => omega
    | succ f2 =>
      simp only [countIdx]
      cases hf : findSub s t with
      | none => rfl
      | some k =>
        simp only []
        have hk := (findSub_some_iff s t k).mp hf
        have hl : 0 < t.length := List.length_pos_iff.mpr ht
        have hkt := hk.1.length_le
        simp only [List.length_drop] at hkt
        congr 1
        apply ih
        · simp only [List.length_drop]; omega
        · simp only [List.length_drop]; omega

/-- the general loop of Count -/
theorem countLoop_spec (cfg : Cfg) (sub : Bytes) (hne : sub ≠ []) :
    ∀ (fuel : Nat) (s : Bytes) (n : Nat), (dec s).length < fuel →
      countLoop cfg sub (dec sub).length fuel s n = ((n + countIdx fuel (fdec caseFold s) (fdec caseFold sub) : Nat) : Int) := by
  have hrc : 1 ≤ (dec sub).length := by
    cases sub with
    | nil => exact absurd rfl hne
    | cons c p => rw [dec_cons]; simp
  intro fuel
  induction fuel with
  | zero => intro s n h; omega
  | succ fuel ih =>
    intro s n hf
    simp only [countLoop, countIdx]
    rw [Index_eq]
    unfold S.index S.indexK S.fruns S.fold
    cases hfs : findSub (fdec caseFold s) (fdec caseFold sub) with
    | none => simp
    | some k =>
      simp only []
      have hk := (findSub_some_iff _ _ _).mp hfs
      have hkl : k + (dec sub).length ≤ (dec s).length := by
        have := hk.1.length_le
        simp only [List.length_drop, fdec_length] at this
        have := hk.2.1; simp only [fdec_length] at this
        omega
      have hole := offAt_le s k
      rw [if_neg (by omega), if_neg (by omega)]
      simp only [Int.toNat_natCast]
      rw [skipRunes_spec, dec_drop_offAt, if_pos (by simp only [List.length_drop]; omega)]
      simp only [Nat.zero_add]
      rw [drop_after_match s k _ hkl]
      rw [ih _ _ (by rw [dec_drop_offAt]; simp only [List.length_drop]; omega)]
      rw [fdec_drop_offAt, fdec_length]
      congr 1; omega

/-- C12: `Count` for a needle that is not a single ASCII byte (the general path), every byte string -/
theorem Count_eq_general (cfg : Cfg) (s sub : Bytes) (h : ¬ (sub.length = 1 ∧ sub.headD 0 < 0x80)) :
    Count cfg s sub = (S.count s sub : Nat) := by
  unfold Count S.count
  by_cases h0 : sub.length = 0
  · have : sub = [] := List.length_eq_zero_iff.mp h0
    subst this
    simp [S.nrunes]
  · have hne : sub ≠ [] := fun he => h0 (by rw [he]; rfl)
    rw [if_neg h0, if_neg h, if_neg hne]
    have hdl := dec_length_le s
    rw [countLoop_spec cfg sub hne (s.length + 2) s 0 (by omega)]
    have hft : fdec caseFold sub ≠ [] := by
      intro he
      have : dec sub = [] := by simpa [fdec] using he
      exact hne ((dec_eq_nil sub).mp this)
    rw [Nat.zero_add]
    congr 1
    unfold S.fruns S.fold
    rw [← countIdx_eq_countFrom _ hft (s.length + 1) (fdec caseFold s) (by rw [fdec_length]; omega)]
    exact countIdx_fuel _ hft _ _ _ (by rw [fdec_length]; omega) (by rw [fdec_length]; omega)

/-- C12: `Cut` equals the specification (and never takes the panic branch), every pair of byte strings -/
theorem Cut_eq (cfg : Cfg) (s sep : Bytes) : Cut cfg s sep = some (S.cut s sep) := by
  unfold Cut S.cut
  rw [Index_eq]
  unfold S.index
  cases hk : S.indexK s sep with
  | none => simp
  | some k =>
    simp only []
    have hk' := (findSub_some_iff _ _ _).mp hk
    have hkl : k + (dec sep).length ≤ (dec s).length := by
      have := hk'.1.length_le
      simp only [List.length_drop, S.fruns, fdec_length] at this
      have := hk'.2.1; simp only [S.fruns, fdec_length] at this
      omega
    have hole := offAt_le s k
    rw [if_pos (by omega), if_neg (by omega)]
    simp only [Int.toNat_natCast]
    rw [skipRunes_spec, dec_drop_offAt, if_pos (by simp only [List.length_drop]; omega)]
    simp only [Nat.zero_add, S.nrunes]
    rw [offAt_drop s k _ hkl]
    have := offAt_le_of_le s k (k + (dec sep).length) (by omega) hkl
    have e : offAt s k + (offAt s (k + (dec sep).length) - offAt s k) = offAt s (k + (dec sep).length) := by omega
    rw [e]

end A
