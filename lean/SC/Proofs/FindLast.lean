import SC.Proofs.Find
namespace Spec
variable {α : Type} [DecidableEq α]



theorem findSubLast_some_iff (s t : List α) (k : Nat) :
    findSubLast s t = some k ↔ (t <+: s.drop k ∧ k ≤ s.length ∧ ∀ j, k < j → j ≤ s.length → ¬ t <+: s.drop j) := by
  induction s generalizing k with
  | nil =>
    simp only [findSubLast]
    by_cases ht : t = []
    · subst ht; simp
      constructor
      · intro h; subst h; exact ⟨rfl, fun j h1 h2 => by omega⟩
      · intro h; exact h.1.symm
    · simp [ht]
  | cons a s ih =>
    simp only [findSubLast]
    cases hrec : findSubLast s t with
    | some k0 =>
      simp only []
      have h0 := (ih k0).mp hrec
      constructor
      · intro h; cases h
        refine ⟨by simpa using h0.1, by simp; exact h0.2.1, ?_⟩
        intro j hj1 hj2
        cases j with
        | zero => omega
        | succ j => simpa using h0.2.2 j (by omega) (by simpa using hj2)
      · rintro ⟨h1, h2, h3⟩
        cases k with
        | zero =>
          exfalso
          have := h3 (k0 + 1) (by omega) (by simp; exact h0.2.1)
          exact this (by simpa using h0.1)
        | succ k =>
          have hk : findSubLast s t = some k := (ih k).mpr ⟨by simpa using h1, by simpa using h2, fun j hj1 hj2 => by
            simpa using h3 (j + 1) (by omega) (by simpa using hj2)⟩
          rw [hrec] at hk; cases hk; rfl
    | none =>
      simp only []
      have hnone : ∀ j, j ≤ s.length → ¬ t <+: s.drop j := by
        intro j hj hp
        -- some greatest such j exists; contradiction with none — by induction hypothesis in iff form
        have : ∃ k, findSubLast s t = some k := by
          -- take the largest index ≥ j with the property, by strong induction on (s.length - j)
          induction hn : s.length - j using Nat.strongRecOn generalizing j with
          | _ n ihn =>
            by_cases hex : ∃ j', j < j' ∧ j' ≤ s.length ∧ t <+: s.drop j'
            · obtain ⟨j', hj1, hj2, hj3⟩ := hex
              exact ihn (s.length - j') (by omega) j' hj2 hj3 rfl
            · exact ⟨j, (ih j).mpr ⟨hp, hj, fun j' h1 h2 h3 => hex ⟨j', h1, h2, h3⟩⟩⟩
        obtain ⟨k, hk⟩ := this
        rw [hrec] at hk; cases hk
      by_cases hp : t.isPrefixOf (a :: s) = true
      · rw [if_pos hp]
        have hp' := (isPrefixOf_iff _ _).mp hp
        constructor
        · intro h; cases h
          refine ⟨by simpa using hp', by simp, ?_⟩
          intro j hj1 hj2
          cases j with
          | zero => omega
          | succ j => simpa using hnone j (by simpa using hj2)
        · rintro ⟨h1, h2, h3⟩
          cases k with
          | zero => rfl
          | succ k => exact absurd (by simpa using h1) (hnone k (by simpa using h2))
      · rw [if_neg hp]
        have hp' : ¬ t <+: a :: s := fun h => hp ((isPrefixOf_iff _ _).mpr h)
        constructor
        · intro h; cases h
        · rintro ⟨h1, h2, _⟩
          cases k with
          | zero => exact absurd (by simpa using h1) hp'
          | succ k => exact absurd (by simpa using h1) (hnone k (by simpa using h2))
end Spec

namespace Spec
variable {α : Type} [DecidableEq α]

theorem findSub_none_iff (s t : List α) : findSub s t = none ↔ ∀ k, k ≤ s.length → ¬ t <+: s.drop k := by
  constructor
  · intro h k hk hp
    -- a least index with the property exists and findSub returns it
    have : ∃ k', findSub s t = some k' := by
      induction k using Nat.strongRecOn with
      | _ k ihk =>
        by_cases hex : ∃ j, j < k ∧ t <+: s.drop j
        · obtain ⟨j, hj1, hj2⟩ := hex
          exact ihk j hj1 (by omega) hj2
        · exact ⟨k, (findSub_some_iff s t k).mpr ⟨hp, hk, fun j hj hpj => hex ⟨j, hj, hpj⟩⟩⟩
    obtain ⟨k', hk'⟩ := this
    rw [h] at hk'; cases hk'
  · intro h
    cases hf : findSub s t with
    | none => rfl
    | some k =>
      have := (findSub_some_iff s t k).mp hf
      exact absurd this.1 (h k this.2.1)

theorem findSubLast_none_iff (s t : List α) : findSubLast s t = none ↔ ∀ k, k ≤ s.length → ¬ t <+: s.drop k := by
  constructor
  · intro h k hk hp
    have : ∃ k', findSubLast s t = some k' := by
      induction hn : s.length - k using Nat.strongRecOn generalizing k with
      | _ n ihn =>
        by_cases hex : ∃ j, k < j ∧ j ≤ s.length ∧ t <+: s.drop j
        · obtain ⟨j, hj1, hj2, hj3⟩ := hex
          exact ihn (s.length - j) (by omega) j hj2 hj3 rfl
        · exact ⟨k, (findSubLast_some_iff s t k).mpr ⟨hp, hk, fun j h1 h2 h3 => hex ⟨j, h1, h2, h3⟩⟩⟩
    obtain ⟨k', hk'⟩ := this
    rw [h] at hk'; cases hk'
  · intro h
    cases hf : findSubLast s t with
    | none => rfl
    | some k =>
      have := (findSubLast_some_iff s t k).mp hf
      exact absurd this.1 (h k this.2.1)

/-- C17: Index finds something iff LastIndex does, and then Index ≤ LastIndex -/
theorem index_lastIndex (s t : List α) :
    ((findSub s t).isSome ↔ (findSubLast s t).isSome) ∧
    (∀ i j, findSub s t = some i → findSubLast s t = some j → i ≤ j) := by
  constructor
  · constructor
    · intro h
      cases hf : findSubLast s t with
      | some _ => rfl
      | none =>
        have hn := (findSubLast_none_iff s t).mp hf
        have : findSub s t = none := (findSub_none_iff s t).mpr hn
        rw [this] at h; cases h
    · intro h
      cases hf : findSub s t with
      | some _ => rfl
      | none =>
        have hn := (findSub_none_iff s t).mp hf
        have : findSubLast s t = none := (findSubLast_none_iff s t).mpr hn
        rw [this] at h; cases h
  · intro i j hi hj
    have h1 := (findSub_some_iff s t i).mp hi
    have h2 := (findSubLast_some_iff s t j).mp hj
    rcases Nat.lt_or_ge j i with h | h
    · exact absurd h2.1 (h1.2.2 j h)
    · exact h

/-- C17: HasPrefix ⇔ Index = 0 -/
theorem hasPrefix_iff_index_zero (s t : List α) : t <+: s ↔ findSub s t = some 0 := by
  rw [findSub_some_iff]
  constructor
  · intro h; exact ⟨by simpa using h, Nat.zero_le _, fun j hj => by omega⟩
  · intro h; simpa using h.1
#print axioms index_lastIndex
end Spec
