import SC.Proofs.SrcBase
import SC.Gen.GoSsa
/-!
The whole regenerated program of `strcase.go` and the look-up facts "it has a function of this name" (`rfl` over the function list).
Imported by the cheap per-function proofs and by `Properties/Src/*`; the expensive loop proofs (`SrcCompare*`) are parametric in the
program and import only the modules of the functions they are about, so they are re-checked only when those functions change.
-/
namespace GoSsa.Str
open GoSsa Gen.Src

abbrev P := Gen.Src.str

/-! ### look-up facts for the callees -/
theorem find_Compare : P.find? (fun fn => fn.name == "Compare") = some str_Compare := by rfl
theorem find_hasPrefixUnicode : P.find? (fun fn => fn.name == "hasPrefixUnicode") = some str_hasPrefixUnicode := by rfl
theorem find_hasSuffixUnicode : P.find? (fun fn => fn.name == "hasSuffixUnicode") = some str_hasSuffixUnicode := by rfl
theorem find_Index : P.find? (fun fn => fn.name == "Index") = some str_Index := by rfl
theorem find_IndexAny : P.find? (fun fn => fn.name == "IndexAny") = some str_IndexAny := by rfl
theorem find_IndexRune : P.find? (fun fn => fn.name == "IndexRune") = some str_IndexRune := by rfl
theorem find_indexRune : P.find? (fun fn => fn.name == "indexRune") = some str_indexRune := by rfl
theorem find_indexByte : P.find? (fun fn => fn.name == "indexByte") = some str_indexByte := by rfl
theorem find_TrimPrefix : P.find? (fun fn => fn.name == "TrimPrefix") = some str_TrimPrefix := by rfl
theorem find_indexRuneCase : P.find? (fun fn => fn.name == "indexRuneCase") = some str_indexRuneCase := by rfl

theorem find_clamp : P.find? (fun fn => fn.name == "clamp") = some str_clamp := by rfl



end GoSsa.Str
