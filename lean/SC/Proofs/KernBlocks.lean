import SC.Proofs.KernSmall
/-!
C13, block-level model of the remaining paths of the amd64 kernels, generic in the block geometry:

* `idxLoop`  — the search loops of `indexbytebody`, `indexbytebodyCase`, `indexByteBodyNonASCII`
               (SSE: 16-byte blocks, AVX2: 32-byte blocks; overlapping last block);
* `cntLoop`  — the counting loops of `countbody`, `countbodyCase` (SSE: 16, AVX2: 2×32 = 64 bytes per
               iteration; the overlapping last block masked to its top `len mod width` lanes);
* `cntSmall` — the `len < 16` counting path (low mask, or high mask at the end of a page).

Each returns the result **and the list of loads** `(address, size)`; the theorems state the scalar
definition and that every load lies inside `[base, base+len)` (loops) or inside a page holding an
argument byte (small paths) — for every memory, base address and length.
-/
namespace Kern

structure LoopP where
  width : Nat      -- bytes examined per iteration
  step : Nat       -- `ADDQ $step, DI`
  lastOff : Nat    -- `LEAQ -lastOff(SI)(BX*1), …`: the last block starts at `len - lastOff`
  deriving DecidableEq

def LoopP.ok (P : LoopP) : Prop := P.step = P.width ∧ P.lastOff = P.width ∧ 1 ≤ P.width

/-- search loop: `while DI < last { block; DI += step }; block at last` -/
def idxLoop (P : LoopP) (p : UInt8 → Bool) (mem : Mem) (base len : Nat) : Nat → Nat → Int × List (Nat × Nat)
  | 0, _ => (-2, [])
  | fuel+1, di =>
    if di < len - P.lastOff then
      match blk p mem (base + di) 0 P.width with
      | some j => ((di + j : Nat), [(base + di, P.width)])
      | none =>
        let r := idxLoop P p mem base len fuel (di + P.step)
        (r.1, (base + di, P.width) :: r.2)
    else
      match blk p mem (base + (len - P.lastOff)) 0 P.width with
      | some j => ((len - P.lastOff + j : Nat), [(base + (len - P.lastOff), P.width)])
      | none => (-1, [(base + (len - P.lastOff), P.width)])

theorem idxLoop_correct (P : LoopP) (hP : P.ok) (p : UInt8 → Bool) (mem : Mem) (base len : Nat) (hlen : P.width ≤ len) :
    ∀ fuel di, di < len → len ≤ fuel * P.width + di → (∀ i, i < di → i < len → p (mem (base + i)) = false) →
      (idxLoop P p mem base len fuel di).1 = specIndex p mem base len ∧
      ∀ ld ∈ (idxLoop P p mem base len fuel di).2, base ≤ ld.1 ∧ ld.1 + ld.2 ≤ base + len := by
  obtain ⟨hs, hl, hw⟩ := hP
  intro fuel
  induction fuel with
  | zero => intro di h1 h2; omega
  | succ fuel ih =>
    intro di hdl hf hno
    simp only [idxLoop, hs, hl]
    split
    · rename_i hdi
      cases hb : blk p mem (base + di) 0 P.width with
      | some j =>
        obtain ⟨_, h2, h3, h4⟩ := blk_some hb
        simp only []
        refine ⟨?_, ?_⟩
        · rw [specIndex_eq_of_first p mem base len (di + j) (by omega) (by rw [← Nat.add_assoc]; exact h3)]
          intro i hi
          by_cases h : i < di
          · exact hno i h (by omega)
          · have := h4 (i - di) (by omega) (by omega)
            have e : base + di + (i - di) = base + i := by omega
            rwa [e] at this
        · intro ld hld
          simp only [List.mem_singleton] at hld; subst hld
          simp only []; omega
      | none =>
        simp only []
        have hrec := ih (di + P.width) (by omega) (by rw [Nat.add_mul] at hf; omega) (by
          intro i hi hil
          by_cases h : i < di
          · exact hno i h hil
          · have := blk_none hb (i - di) (by omega) (by omega)
            have e : base + di + (i - di) = base + i := by omega
            rwa [e] at this)
        refine ⟨hrec.1, ?_⟩
        intro ld hld
        rcases List.mem_cons.mp hld with h | h
        · subst h; simp only []; omega
        · exact hrec.2 ld h
    · rename_i hdi
      cases hb : blk p mem (base + (len - P.width)) 0 P.width with
      | some j =>
        obtain ⟨_, h2, h3, h4⟩ := blk_some hb
        simp only []
        refine ⟨?_, ?_⟩
        · rw [specIndex_eq_of_first p mem base len (len - P.width + j) (by omega) (by rw [← Nat.add_assoc]; exact h3)]
          intro i hi
          by_cases h : i < len - P.width
          · exact hno i (by omega) (by omega)
          · have := h4 (i - (len - P.width)) (by omega) (by omega)
            have e : base + (len - P.width) + (i - (len - P.width)) = base + i := by omega
            rwa [e] at this
        · intro ld hld
          simp only [List.mem_singleton] at hld; subst hld
          simp only []; omega
      | none =>
        simp only []
        refine ⟨?_, ?_⟩
        · rw [specIndex_eq_neg]
          intro i hi
          by_cases h : i < len - P.width
          · exact hno i (by omega) hi
          · have := blk_none hb (i - (len - P.width)) (by omega) (by omega)
            have e : base + (len - P.width) + (i - (len - P.width)) = base + i := by omega
            rwa [e] at this
        · intro ld hld
          simp only [List.mem_singleton] at hld; subst hld
          simp only []; omega

/-! ### counting -/

/-- number of `j ∈ [lo, lo+n)` with `p (mem (addr + j))`: PCMPEQB / PMOVMSKB / (mask) / POPCNT on one block -/
def cntBlk (p : UInt8 → Bool) (mem : Mem) (addr : Nat) : Nat → Nat → Nat
  | _, 0 => 0
  | lo, n+1 => (if p (mem (addr + lo)) then 1 else 0) + cntBlk p mem addr (lo + 1) n

/-- scalar definition of the byte count -/
def specCount (p : UInt8 → Bool) (mem : Mem) (base len : Nat) : Nat := cntBlk p mem base 0 len

theorem cntBlk_add (p : UInt8 → Bool) (mem : Mem) (addr : Nat) : ∀ (n m lo : Nat),
    cntBlk p mem addr lo (n + m) = cntBlk p mem addr lo n + cntBlk p mem addr (lo + n) m := by
  intro n
  induction n with
  | zero => intro m lo; simp [cntBlk]
  | succ n ih =>
    intro m lo
    have e : n + 1 + m = (n + m) + 1 := by omega
    rw [e]
    simp only [cntBlk]
    rw [ih m (lo + 1)]
    have e2 : lo + 1 + n = lo + (n + 1) := by omega
    rw [e2]; omega

theorem cntBlk_shift (p : UInt8 → Bool) (mem : Mem) (addr d : Nat) : ∀ (n lo : Nat),
    cntBlk p mem (addr + d) lo n = cntBlk p mem addr (d + lo) n := by
  intro n
  induction n with
  | zero => intro lo; rfl
  | succ n ih =>
    intro lo
    simp only [cntBlk]
    rw [ih (lo + 1)]
    have e : addr + d + lo = addr + (d + lo) := by omega
    rw [e]; rfl

/-- counting loop: `while DI ≤ last { acc += popcnt(block); DI += step }`, then the last block masked to its
    top `len mod width` lanes (skipped when `len` is a multiple of the width) -/
def cntLoop (P : LoopP) (p : UInt8 → Bool) (mem : Mem) (base len : Nat) : Nat → Nat → Nat → Nat × List (Nat × Nat)
  | 0, _, acc => (acc, [])
  | fuel+1, di, acc =>
    if di ≤ len - P.lastOff then
      let r := cntLoop P p mem base len fuel (di + P.step) (acc + cntBlk p mem (base + di) 0 P.width)
      (r.1, (base + di, P.width) :: r.2)
    else
      let rem := len % P.width
      if rem = 0 then (acc, [])
      else (acc + cntBlk p mem (base + (len - P.lastOff)) (P.width - rem) rem, [(base + (len - P.lastOff), P.width)])

theorem cntLoop_correct (P : LoopP) (hP : P.ok) (p : UInt8 → Bool) (mem : Mem) (base len : Nat) (hlen : P.width ≤ len) :
    ∀ fuel k acc, k * P.width ≤ len → len < (fuel + k) * P.width → acc = cntBlk p mem base 0 (k * P.width) →
      (cntLoop P p mem base len fuel (k * P.width) acc).1 = specCount p mem base len ∧
      ∀ ld ∈ (cntLoop P p mem base len fuel (k * P.width) acc).2, base ≤ ld.1 ∧ ld.1 + ld.2 ≤ base + len := by
  obtain ⟨hs, hl, hw⟩ := hP
  intro fuel
  induction fuel with
  | zero => intro k acc h1 h2; simp at h2; omega
  | succ fuel ih =>
    intro k acc hk hf hacc
    simp only [cntLoop, hs, hl]
    by_cases hdi : k * P.width ≤ len - P.width
    · rw [if_pos hdi]
      simp only []
      have e : k * P.width + P.width = (k + 1) * P.width := by rw [Nat.add_mul]; omega
      rw [e]
      have hrec := ih (k + 1) (acc + cntBlk p mem (base + k * P.width) 0 P.width) (by rw [← e]; omega)
        (by have : fuel + (k + 1) = fuel + 1 + k := by omega
            rw [this]; exact hf)
        (by rw [hacc, ← e, cntBlk_add, cntBlk_shift]; simp)
      refine ⟨hrec.1, ?_⟩
      intro ld hld
      rcases List.mem_cons.mp hld with h | h
      · subst h; simp only []; omega
      · exact hrec.2 ld h
    · rw [if_neg hdi]
      -- k*width ≤ len < (k+1)*width
      have hlt : len < (k + 1) * P.width := by rw [Nat.add_mul]; omega
      have hrem : len % P.width = len - k * P.width := by
        have h2 : len - k * P.width < P.width := by rw [Nat.add_mul] at hlt; omega
        calc len % P.width = ((len - k * P.width) + k * P.width) % P.width := by rw [Nat.sub_add_cancel hk]
          _ = (len - k * P.width) % P.width := Nat.add_mul_mod_self_right _ _ _
          _ = len - k * P.width := Nat.mod_eq_of_lt h2
      by_cases hr0 : len % P.width = 0
      · rw [if_pos hr0]
        refine ⟨?_, fun ld h => by simp at h⟩
        simp only []
        have : len = k * P.width := by omega
        rw [hacc, specCount, ← this]
      · rw [if_neg hr0]
        refine ⟨?_, ?_⟩
        · simp only []
          rw [hacc, specCount, hrem, cntBlk_shift]
          have e1 : len - P.width + (P.width - (len - k * P.width)) = k * P.width := by omega
          rw [e1]
          have e2 : len = k * P.width + (len - k * P.width) := by omega
          conv => rhs; rw [e2, cntBlk_add]
          simp
        · intro ld hld
          simp only [List.mem_singleton] at hld; subst hld
          simp only []; omega

/-- `len < 16` counting path.  Forward: load `[base, base+16)`, keep lanes `< len` (mask `(1<<len)−1`).
    End of page: load `[base+len−16, base+len)`, keep the top `len` lanes (mask `(0xFFFF >> (16−len)) << (16−len)`). -/
def cntSmall (p : UInt8 → Bool) (mem : Mem) (base len : Nat) : Nat × List (Nat × Nat) :=
  if len = 0 then (0, [])
  else if (base + 16) % 4096 / 16 = 0 then
    (cntBlk p mem (base + len - 16) (16 - len) len, [(base + len - 16, 16)])
  else (cntBlk p mem base 0 len, [(base, 16)])

theorem cntSmall_correct (p : UInt8 → Bool) (mem : Mem) (base len : Nat) (hlen : len < 16) :
    (cntSmall p mem base len).1 = specCount p mem base len := by
  unfold cntSmall specCount
  by_cases h0 : len = 0
  · subst h0; simp [cntBlk]
  · rw [if_neg h0]
    by_cases hp : (base + 16) % 4096 / 16 = 0
    · rw [if_pos hp]
      simp only []
      have h16 : 16 ≤ base + len := by omega
      have : base + len - 16 = base - (16 - len) := by omega
      have e : base = (base - (16 - len)) + (16 - len) := by omega
      conv => rhs; rw [e, cntBlk_shift]
      rw [this]; simp
    · rw [if_neg hp]

theorem cntSmall_loads_safe (p : UInt8 → Bool) (mem : Mem) (base len : Nat) (hlen : len < 16) (h0 : 0 < len) :
    ∀ ld ∈ (cntSmall p mem base len).2, ∀ a, ld.1 ≤ a → a < ld.1 + ld.2 →
      ∃ b, base ≤ b ∧ b < base + len ∧ a / 4096 = b / 4096 := by
  unfold cntSmall
  rw [if_neg (by omega)]
  by_cases hp : (base + 16) % 4096 / 16 = 0
  · rw [if_pos hp]
    intro ld hld a h1 h2
    simp only [List.mem_singleton] at hld
    subst hld
    simp only [] at h1 h2
    have hm : 4080 ≤ base % 4096 := by omega
    by_cases hab : base ≤ a
    · exact ⟨a, hab, by omega, rfl⟩
    · refine ⟨base, Nat.le_refl _, by omega, ?_⟩
      omega
  · rw [if_neg hp]
    intro ld hld a h1 h2
    simp only [List.mem_singleton] at hld
    subst hld
    simp only [] at h1 h2
    have hm : base % 4096 < 4080 := by omega
    refine ⟨base, Nat.le_refl _, by omega, ?_⟩
    omega

/-! ### the mask arithmetic of the assembly -/

/-- `MOVQ $0xFFFF, R10; SARQ CL, R10; SALQ CL, R10` keeps exactly the lanes `≥ c` -/
theorem highMask16 : ∀ c : Fin 17, ∀ j : Fin 16, ((0xFFFF >>> c.val) <<< c.val).testBit j.val = decide (c.val ≤ j.val) := by
  decide +kernel
/-- `MOVQ $1, R10; SALQ CL, R10; SUBQ $1, R10` keeps exactly the lanes `< len` -/
theorem lowMask16 : ∀ n : Fin 16, ∀ j : Fin 16, ((1 <<< n.val) - 1).testBit j.val = decide (j.val < n.val) := by
  decide +kernel
/-- `MOVQ $-1, R10; SALQ CL, R10` (64-bit) keeps exactly the lanes `≥ c` -/
theorem highMask64 : ∀ c : Fin 65, ∀ j : Fin 64, ((0xFFFFFFFFFFFFFFFF <<< c.val) % 2 ^ 64).testBit j.val = decide (c.val ≤ j.val) := by
  decide +kernel
/-- endofpage of the search kernels: `SHLL CX, DX; SHRL $16, DX` moves lane `16−len+i` to bit `i` (32-bit register) -/
theorem shiftDown16 : ∀ n : Fin 16, ∀ i : Fin 16, ∀ m : Fin 16,
    ((((1 <<< m.val) <<< n.val) % 2 ^ 32) >>> 16).testBit i.val = decide (m.val + n.val = 16 + i.val) := by
  decide +kernel

end Kern
