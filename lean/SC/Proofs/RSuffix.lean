import SC.Proofs.RPrefix
import SC.Proofs.HasSuffix
/-!
Refinement of the suffix family: `A.hasSuffixUnicode` (ASCII loop on the reversed strings, rune loop
with DecodeLastRune, length pre-check), `HasSuffix`, `TrimSuffix`, `CutSuffix` equal the
specification on every pair of byte strings.
-/
namespace A
open Utf8 Fold

/-- what hasSuffixUnicode must return: (match, byte offset where the matched suffix starts) -/
def suffSpec (fold : Nat → Nat) (s t : Bytes) : Bool × Nat :=
  if (fdec fold t).isSuffixOf (fdec fold s) then (true, offAt s ((dec s).length - (dec t).length)) else (false, 0)

section
variable (fold : Nat → Nat)
variable (hidem : ∀ r, fold (fold r) = fold r)
variable (hascii : ∀ b : UInt8, b < 0x80 → fold b.toNat = (lower b).toNat)

theorem suffSpec_nil_t (s : Bytes) : suffSpec fold s [] = (true, s.length) := by
  simp [suffSpec, fdec, dec_nil, offAt_length]

theorem suffSpec_nil_s (t : Bytes) (ht : t ≠ []) : suffSpec fold [] t = (false, 0) := by
  have : dec t ≠ [] := fun h => ht ((dec_eq_nil t).mp h)
  unfold suffSpec
  rw [if_neg]
  simp only [fdec, dec_nil, List.map_nil, List.isSuffixOf_iff_suffix, List.suffix_nil, List.map_eq_nil_iff]
  exact this

/-- peel the last segment of both strings -/
theorem suffSpec_peel (s t : Bytes) (hs : s ≠ []) (ht : t ≠ []) :
    suffSpec fold s t =
      if fold (decodeLast s).1 = fold (decodeLast t).1
      then suffSpec fold (s.take (s.length - (decodeLast s).2)) (t.take (t.length - (decodeLast t).2))
      else (false, 0) := by
  obtain ⟨hsw1, hswl, hsd⟩ := dec_peel_last s hs
  obtain ⟨htw1, htwl, htd⟩ := dec_peel_last t ht
  have hfs : fdec fold s = fdec fold (s.take (s.length - (decodeLast s).2)) ++ [fold (decodeLast s).1] := by
    show (dec s).map _ = (dec (s.take (s.length - (decodeLast s).2))).map _ ++ [_]
    conv => lhs; rw [hsd]
    rw [List.map_append]; rfl
  have hft : fdec fold t = fdec fold (t.take (t.length - (decodeLast t).2)) ++ [fold (decodeLast t).1] := by
    show (dec t).map _ = (dec (t.take (t.length - (decodeLast t).2))).map _ ++ [_]
    conv => lhs; rw [htd]
    rw [List.map_append]; rfl
  unfold suffSpec
  by_cases heq : fold (decodeLast s).1 = fold (decodeLast t).1
  · rw [if_pos heq]
    have hiff : (fdec fold t).isSuffixOf (fdec fold s) = true ↔
        (fdec fold (t.take (t.length - (decodeLast t).2))).isSuffixOf (fdec fold (s.take (s.length - (decodeLast s).2))) = true := by
      rw [List.isSuffixOf_iff_suffix, List.isSuffixOf_iff_suffix, hfs, hft, heq]
      constructor
      · rintro ⟨z, hz⟩
        rw [← List.append_assoc] at hz
        exact ⟨z, List.append_inj_left' hz rfl⟩
      · rintro ⟨z, hz⟩
        exact ⟨z, by rw [← List.append_assoc, hz]⟩
    by_cases hsuf : (fdec fold t).isSuffixOf (fdec fold s) = true
    · rw [if_pos hsuf, if_pos (hiff.mp hsuf)]
      -- the segment index is unchanged and lies within the shortened string
      have hl1 : (dec s).length = (dec (s.take (s.length - (decodeLast s).2))).length + 1 := by
        conv => lhs; rw [hsd]
        simp
      have hl2 : (dec t).length = (dec (t.take (t.length - (decodeLast t).2))).length + 1 := by
        conv => lhs; rw [htd]
        simp
      have hle : (dec (t.take (t.length - (decodeLast t).2))).length ≤ (dec (s.take (s.length - (decodeLast s).2))).length := by
        have := (List.isSuffixOf_iff_suffix.mp (hiff.mp hsuf)).length_le
        simpa [fdec] using this
      congr 1
      have e : (dec s).length - (dec t).length =
          (dec (s.take (s.length - (decodeLast s).2))).length - (dec (t.take (t.length - (decodeLast t).2))).length := by omega
      rw [e]
      unfold offAt
      conv => lhs; rw [hsd]
      rw [List.take_append_of_le_length (by omega)]
    · rw [if_neg hsuf, if_neg (fun h => hsuf (hiff.mpr h))]
  · rw [if_neg heq, if_neg]
    rw [List.isSuffixOf_iff_suffix, hfs, hft]
    rintro ⟨z, hz⟩
    rw [← List.append_assoc] at hz
    have := List.append_inj_right' hz rfl
    exact heq (List.singleton_inj.mp this).symm

include hidem hascii in
theorem hsRunes_eq : ∀ (fuel : Nat) (s t : Bytes), s.length < fuel → hsRunes fold fuel s t = suffSpec fold s t := by
  intro fuel
  induction fuel with
  | zero => intro s t h; omega
  | succ fuel ih =>
    intro s t hf
    simp only [hsRunes]
    by_cases h0 : s = [] ∨ t = []
    · rw [if_pos h0]
      by_cases ht : t = []
      · subst ht; rw [suffSpec_nil_t]; rfl
      · have hs : s = [] := by rcases h0 with h | h; exact h; exact absurd h ht
        subst hs
        rw [suffSpec_nil_s fold t ht]
        have : t.isEmpty = false := by cases t <;> simp_all
        simp [this]
    · rw [if_neg h0]
      have hs : s ≠ [] := fun h => h0 (Or.inl h)
      have ht : t ≠ [] := fun h => h0 (Or.inr h)
      obtain ⟨hsw1, hswl, _⟩ := dec_peel_last s hs
      have hsr : fold (if s.getLast?.getD 0 < 0x80 then (lower (s.getLast?.getD 0)).toNat else (decodeLast s).1) = fold (decodeLast s).1 := by
        split
        · rename_i ha; rw [decodeLast_ascii s hs ha, ← hascii _ ha, hidem]
        · rfl
      have hs' : (if s.getLast?.getD 0 < 0x80 then s.take (s.length - 1) else s.take (s.length - (decodeLast s).2)) = s.take (s.length - (decodeLast s).2) := by
        split
        · rename_i ha; rw [decodeLast_ascii s hs ha]
        · rfl
      have htr : fold (if t.getLast?.getD 0 < 0x80 then (lower (t.getLast?.getD 0)).toNat else (decodeLast t).1) = fold (decodeLast t).1 := by
        split
        · rename_i ha; rw [decodeLast_ascii t ht ha, ← hascii _ ha, hidem]
        · rfl
      have ht' : (if t.getLast?.getD 0 < 0x80 then t.take (t.length - 1) else t.take (t.length - (decodeLast t).2)) = t.take (t.length - (decodeLast t).2) := by
        split
        · rename_i ha; rw [decodeLast_ascii t ht ha]
        · rfl
      rw [hs', ht', suffSpec_peel fold s t hs ht]
      by_cases heq : fold (decodeLast s).1 = fold (decodeLast t).1
      · have hcond : (if s.getLast?.getD 0 < 0x80 then (lower (s.getLast?.getD 0)).toNat else (decodeLast s).1) =
            (if t.getLast?.getD 0 < 0x80 then (lower (t.getLast?.getD 0)).toNat else (decodeLast t).1) ∨
            fold (if s.getLast?.getD 0 < 0x80 then (lower (s.getLast?.getD 0)).toNat else (decodeLast s).1) =
            fold (if t.getLast?.getD 0 < 0x80 then (lower (t.getLast?.getD 0)).toNat else (decodeLast t).1) :=
          Or.inr (by rw [hsr, htr]; exact heq)
        rw [if_pos hcond, if_pos heq]
        exact ih _ _ (by simp only [List.length_take]; omega)
      · have hcond : ¬ ((if s.getLast?.getD 0 < 0x80 then (lower (s.getLast?.getD 0)).toNat else (decodeLast s).1) =
            (if t.getLast?.getD 0 < 0x80 then (lower (t.getLast?.getD 0)).toNat else (decodeLast t).1) ∨
            fold (if s.getLast?.getD 0 < 0x80 then (lower (s.getLast?.getD 0)).toNat else (decodeLast s).1) =
            fold (if t.getLast?.getD 0 < 0x80 then (lower (t.getLast?.getD 0)).toNat else (decodeLast t).1)) := by
          rw [hsr, htr]
          intro h; rcases h with h | h
          · apply heq; rw [← hsr, ← htr, h]
          · exact heq h
        rw [if_neg hcond, if_neg heq]

theorem getLast_reverse_cons (a : UInt8) (rs : Bytes) : ((a :: rs).reverse).getLast?.getD 0 = a := by simp

include hidem hascii in
theorem hsAscii_eq : ∀ (rs rt : Bytes), hsAscii fold rs rt = suffSpec fold rs.reverse rt.reverse
  | [], [] => by simp [hsAscii, suffSpec_nil_t]
  | [], c :: rt => by
    rw [List.reverse_nil, suffSpec_nil_s fold _ (by simp)]; simp [hsAscii]
  | a :: rs, [] => by simp [hsAscii, suffSpec_nil_t]
  | a :: rs, c :: rt => by
    simp only [hsAscii]
    by_cases hu : (a ||| c) &&& 0x80 ≠ 0
    · rw [if_pos hu]
      exact hsRunes_eq fold hidem hascii _ _ _ (by simp)
    · rw [if_neg hu]
      have hab := or_and_high a c hu
      have ha : a < 0x80 := hab.1
      have hc : c < 0x80 := hab.2
      have hsne : (a :: rs).reverse ≠ [] := by simp
      have htne : (c :: rt).reverse ≠ [] := by simp
      have hla : decodeLast (a :: rs).reverse = (a.toNat, 1) := by
        have := decodeLast_ascii (a :: rs).reverse hsne (by rw [getLast_reverse_cons]; exact ha)
        rw [getLast_reverse_cons] at this; exact this
      have hlc : decodeLast (c :: rt).reverse = (c.toNat, 1) := by
        have := decodeLast_ascii (c :: rt).reverse htne (by rw [getLast_reverse_cons]; exact hc)
        rw [getLast_reverse_cons] at this; exact this
      rw [suffSpec_peel fold _ _ hsne htne, hla, hlc]
      have e1 : ((a :: rs).reverse).take ((a :: rs).reverse.length - 1) = rs.reverse := by simp
      have e2 : ((c :: rt).reverse).take ((c :: rt).reverse.length - 1) = rt.reverse := by simp
      simp only [e1, e2, hascii a ha, hascii c hc]
      by_cases h1 : lower a = lower c
      · rw [if_pos (Or.inr h1), if_pos (by rw [h1])]
        exact hsAscii_eq rs rt
      · have : ¬ (c = a ∨ lower a = lower c) := by
          rintro (h | h)
          · exact h1 (by rw [h])
          · exact h1 h
        rw [if_neg this, if_neg (fun h => h1 (UInt8.toNat_inj.mp h))]
end

/-- a fold-suffix is a fold-prefix at some rune offset -/
theorem suffix_as_prefix_drop {α : Type} (t s : List α) (h : t <:+ s) : t <+: s.drop (s.length - t.length) := by
  obtain ⟨z, hz⟩ := h
  subst hz
  simp

/-- C09: `hasSuffixUnicode` of the algorithm model is the specification (all byte strings, both packages) -/
theorem hasSuffixUnicode_eq (cfg : Cfg) (s t : Bytes) : hasSuffixUnicode cfg s t = suffSpec caseFold s t := by
  unfold hasSuffixUnicode
  by_cases ht0 : t.length = 0
  · have : t = [] := List.length_eq_zero_iff.mp ht0
    subst this
    rw [if_pos ht0, suffSpec_nil_t]
  · rw [if_neg ht0]
    by_cases hpc : s.length * 3 < t.length ∨ (s.length * 2 < t.length ∧ containsKelvin cfg t = false)
    · rw [if_pos hpc]
      -- the pre-check only rejects pairs that cannot match at any rune offset
      have hnone : ∀ k, ¬ fdec caseFold t <+: (fdec caseFold s).drop k := by
        have hc := hasPrefixUnicode_contract cfg s t
        have hv : hasPrefixUnicode cfg s t = (false, true) := by
          unfold hasPrefixUnicode
          rw [if_pos]
          rcases hpc with h | ⟨h, hk⟩
          · exact Or.inl h
          · exact Or.inr ⟨h, hk⟩
        exact hc.2 (by rw [hv]) (by rw [hv])
      unfold suffSpec
      rw [if_neg]
      intro hsuf
      exact hnone _ (suffix_as_prefix_drop _ _ (List.isSuffixOf_iff_suffix.mp hsuf))
    · rw [if_neg hpc]
      have := hsAscii_eq caseFold caseFold_idem' caseFold_lower s.reverse t.reverse
      simpa using this

theorem suffixStart_eq (s t : Bytes) :
    S.suffixStart s t = if (suffSpec caseFold s t).1 then some (suffSpec caseFold s t).2 else none := by
  unfold S.suffixStart suffSpec S.fruns S.fold
  simp only []
  by_cases hsuf : (fdec caseFold t).isSuffixOf (fdec caseFold s) = true
  · rw [if_pos hsuf]
    have hs := List.isSuffixOf_iff_suffix.mp hsuf
    have hle := hs.length_le
    have hd : (fdec caseFold s).drop ((fdec caseFold s).length - (fdec caseFold t).length) = fdec caseFold t := by
      obtain ⟨z, hz⟩ := hs
      rw [← hz]; simp
    rw [if_pos ⟨hle, by rw [hd]; exact beq_self_eq_true _⟩]
    simp [fdec]
  · rw [if_neg hsuf]
    rw [if_neg]
    · simp
    · rintro ⟨hle, hd⟩
      apply hsuf
      rw [List.isSuffixOf_iff_suffix]
      have := List.take_append_drop ((fdec caseFold s).length - (fdec caseFold t).length) (fdec caseFold s)
      rw [beq_iff_eq.mp hd] at this
      exact ⟨_, this⟩

theorem HasSuffix_eq (cfg : Cfg) (s t : Bytes) : HasSuffix cfg s t = S.hasSuffix s t := by
  unfold HasSuffix S.hasSuffix
  rw [hasSuffixUnicode_eq, suffixStart_eq]
  generalize suffSpec caseFold s t = m
  obtain ⟨b, n⟩ := m
  cases b <;> simp

theorem TrimSuffix_eq (cfg : Cfg) (s t : Bytes) : TrimSuffix cfg s t = S.trimSuffix s t := by
  unfold TrimSuffix S.trimSuffix
  rw [hasSuffixUnicode_eq, suffixStart_eq]
  generalize suffSpec caseFold s t = m
  obtain ⟨b, n⟩ := m
  cases b <;> simp

theorem CutSuffix_eq (cfg : Cfg) (s t : Bytes) : CutSuffix cfg s t = S.cutSuffix s t := by
  unfold CutSuffix S.cutSuffix
  rw [hasSuffixUnicode_eq, suffixStart_eq]
  by_cases ht0 : t.length = 0
  · have : t = [] := List.length_eq_zero_iff.mp ht0
    subst this
    rw [if_pos ht0, suffSpec_nil_t]
    simp
  · rw [if_neg ht0]
    generalize suffSpec caseFold s t = m
    obtain ⟨b, n⟩ := m
    cases b <;> simp
end A
