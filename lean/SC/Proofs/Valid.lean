import SC.Proofs.Width
import SC.Proofs.SpecIndex
/-!
Well-formed UTF-8 and concatenation: the segmentation of `x ++ y` is the concatenation of the
segmentations when `x` is well formed (no segment of `x` is an ill-formed byte).
-/
namespace Utf8

/-- well-formed UTF-8: no segment is an ill-formed byte (those are exactly the segments `(U+FFFD, 1)`;
    an encoded U+FFFD is `(U+FFFD, 3)`) -/
def Valid (s : Bytes) : Prop := ∀ p ∈ dec s, p ≠ (0xFFFD, 1)

theorem valid_nil : Valid [] := by intro p hp; simp [dec_nil] at hp

theorem valid_cons (b : UInt8) (x : Bytes) (h : Valid (b :: x)) :
    decodeRune (b :: x) ≠ (0xFFFD, 1) ∧ Valid ((b :: x).drop (decodeRune (b :: x)).2) := by
  unfold Valid at h
  rw [dec_cons] at h
  exact ⟨h _ (List.mem_cons_self ..), fun p hp => h p (List.mem_cons_of_mem _ hp)⟩

/-- a width-1 decode of a non-ASCII first byte is an ill-formed byte -/
theorem decodeRune_w1_high (b : UInt8) (x : Bytes) (hb : ¬ b < 0x80) (h : (decodeRune (b :: x)).2 = 1) :
    decodeRune (b :: x) = (runeError, 1) := by
  generalize hp : decodeRune (b :: x) = p at h ⊢
  unfold decodeRune at hp
  simp only [hb, if_false] at hp
  repeat' split at hp
  all_goals subst hp
  all_goals first | rfl | (simp at h; done)

/-- a decode that is not an ill-formed byte does not depend on what follows the string -/
theorem decodeRune_append_valid (x y : Bytes) (hx : x ≠ []) (h : decodeRune x ≠ (0xFFFD, 1)) :
    decodeRune (x ++ y) = decodeRune x := by
  have hwl := decodeRune_width_le x
  rcases Nat.lt_or_ge (decodeRune x).2 2 with hw | hw
  · -- width 1 (width 0 is impossible for non-empty x): ASCII
    cases x with
    | nil => exact absurd rfl hx
    | cons b x' =>
      have hp := decodeRune_width_pos b x'
      have hw1 : (decodeRune (b :: x')).2 = 1 := by omega
      rcases decodeRune_w1 _ hw1 with hlt | he
      · -- ASCII first byte
        have hb : b < 0x80 := by
          by_cases hb : b < 0x80
          · exact hb
          · exfalso
            have := decodeRune_w1_high b x' hb hw1
            rw [this] at hlt; simp [runeError] at hlt
        simp [decodeRune, hb]
      · exfalso; apply h
        rw [← he, ← hw1]
  · -- multi-byte: the first `w` bytes are a complete sequence
    have hsplit : x = x.take (decodeRune x).2 ++ x.drop (decodeRune x).2 := (List.take_append_drop _ _).symm
    have htl : (x.take (decodeRune x).2).length = (decodeRune x).2 := by simp; omega
    have hne : x.take (decodeRune x).2 ≠ [] := by
      intro he; rw [he] at htl; simp at htl; omega
    have h1 : decodeRune (x.take (decodeRune x).2) = decodeRune x := by
      have := decodeRune_append (x.take (decodeRune x).2) (x.drop (decodeRune x).2) hne
        (by rw [← hsplit, htl]; exact Nat.le_refl _)
      rw [← hsplit] at this; exact this
    have h2 := decodeRune_extend (x.take (decodeRune x).2) (x.drop (decodeRune x).2 ++ y) (decodeRune x).1
      (by rw [h1, htl]) (by omega)
    rw [← List.append_assoc, ← hsplit, htl] at h2
    exact h2

/-- segmentation distributes over concatenation when the left part is well formed -/
theorem dec_append_valid : ∀ (n : Nat) (x y : Bytes), x.length ≤ n → Valid x → dec (x ++ y) = dec x ++ dec y := by
  intro n
  induction n with
  | zero =>
    intro x y hx _
    have : x = [] := by cases x <;> simp_all
    subst this; simp [dec_nil]
  | succ n ih =>
    intro x y hx hv
    cases x with
    | nil => simp [dec_nil]
    | cons b x' =>
      obtain ⟨h1, h2⟩ := valid_cons b x' hv
      have hd := decodeRune_append_valid (b :: x') y (by simp) h1
      have hw := decodeRune_width_pos b x'
      have hwl := decodeRune_width_le (b :: x')
      rw [List.cons_append, dec_cons, dec_cons b x']
      rw [← List.cons_append, hd]
      simp only [List.cons_append]
      congr 1
      rw [← List.cons_append, List.drop_append_of_le_length hwl]
      apply ih _ _ _ h2
      simp only [List.length_drop, List.length_cons] at hx ⊢
      omega

theorem fdec_append_valid (fold : Nat → Nat) (x y : Bytes) (hx : Valid x) :
    fdec fold (x ++ y) = fdec fold x ++ fdec fold y := by
  simp [fdec, dec_append_valid x.length x y (Nat.le_refl _) hx]

theorem valid_append (x y : Bytes) (hx : Valid x) (hy : Valid y) : Valid (x ++ y) := by
  intro p hp
  rw [dec_append_valid x.length x y (Nat.le_refl _) hx] at hp
  rcases List.mem_append.mp hp with h | h
  · exact hx p h
  · exact hy p h

/-- byte offsets of boundaries inside the left part are unchanged by appending -/
theorem offAt_append_valid (x y : Bytes) (hx : Valid x) (k : Nat) (hk : k ≤ (dec x).length) :
    offAt (x ++ y) k = offAt x k := by
  unfold offAt
  rw [dec_append_valid x.length x y (Nat.le_refl _) hx, List.take_append_of_le_length hk]

/-- boundaries of the right part are shifted by `len x` -/
theorem offAt_append_valid_right (x y : Bytes) (hx : Valid x) (k : Nat) :
    offAt (x ++ y) ((dec x).length + k) = x.length + offAt y k := by
  unfold offAt
  rw [dec_append_valid x.length x y (Nat.le_refl _) hx, List.take_append]
  simp only [List.take_of_length_le (Nat.le_add_right _ _), Nat.add_sub_cancel_left, List.map_append, List.sum_append]
  have := offAt_length x
  unfold offAt at this
  simp only [List.take_length] at this
  rw [this]

end Utf8
