import SC.Proofs.RLastIndexRune
import SC.Proofs.SpecLast
/-!
`indexRabinKarpRevUnicode` (backward hash of the needle, backward first window, backward rolling window
verified by `hasSuffixUnicode`) returns the rightmost match.  The backward search on `s` is the forward
search on the reversed rune lists, so the rune-level `slide` theorem is reused.
-/
namespace A
open Utf8 Fold RK

/-- backward segmentation with DecodeLastRune = the forward segmentation reversed (arbitrary bytes) -/
theorem decRev_eq : ∀ (fuel : Nat) (s : Bytes), s.length < fuel → decRev fuel s = (dec s).reverse := by
  intro fuel
  induction fuel with
  | zero => intro s h; omega
  | succ fuel ih =>
    intro s hf
    simp only [decRev]
    by_cases hs : s = []
    · subst hs; simp [dec_nil]
    · rw [if_neg hs]
      obtain ⟨hw1, hwl, hd⟩ := dec_peel_last s hs
      have hp : (if s.getLast?.getD 0 < 0x80 then ((s.getLast?.getD 0).toNat, 1) else decodeLast s) = decodeLast s := by
        split
        · rename_i ha; rw [decodeLast_ascii s hs ha]
        · rfl
      rw [hp, ih _ (by simp only [List.length_take]; omega)]
      conv => rhs; rw [hd]
      simp

theorem hashStrRevUnicode_spec (cfg : Cfg) (sep : Bytes) :
    hashStrRevUnicode cfg sep =
      (hashRunes (u32 cfg.primeRK) (fdec caseFold sep).reverse, powP (u32 cfg.primeRK) (dec sep).length, (dec sep).length) := by
  unfold hashStrRevUnicode
  simp only []
  rw [decRev_eq _ _ (by omega)]
  have hm : (dec sep).reverse.map (fun p => hfold p.1) = (fdec caseFold sep).reverse := by
    unfold fdec; rw [List.map_reverse]; congr 1
    apply List.map_congr_left; intro p _; exact hfold_eq p.1
  rw [hm, foldl_hash, powLoop_spec _ _ _ _ (lt_two_pow_succ _)]
  simp [hashRunes, fdec]

/-- the folded rune just before the `m`-th boundary is the `(L − m)`-th rune of the reversed list -/
theorem rev_getElem (s : Bytes) (m : Nat) (hm1 : 1 ≤ m) (hm : m ≤ (dec s).length) :
    (fdec caseFold s).reverse[(dec s).length - m]? = some (caseFold ((dec s)[m - 1]'(by omega)).1) := by
  rw [List.getElem?_reverse (by rw [fdec_length]; omega), fdec_length]
  have e : (dec s).length - 1 - ((dec s).length - m) = m - 1 := by omega
  rw [e]
  simp [fdec, List.getElem?_eq_getElem (show m - 1 < (dec s).length by omega)]

/-- `last_before` with the segment named, plus its place in the reversed folded list -/
theorem last_before' (s : Bytes) (m : Nat) (hm1 : 1 ≤ m) (hm : m ≤ (dec s).length) :
    ∃ p : Nat × Nat,
      (if s.getD (offAt s m - 1) 0 < 0x80 then ((s.getD (offAt s m - 1) 0).toNat, 1) else decodeLast (s.take (offAt s m))) = p ∧
      0 < offAt s m ∧ offAt s m ≤ s.length ∧ offAt s m - p.2 = offAt s (m - 1) ∧ p.2 ≤ offAt s m ∧
      (fdec caseFold s).reverse[(dec s).length - m]? = some (caseFold p.1) := by
  obtain ⟨h1, h2, h3, _, h5, h6⟩ := last_before s m hm1 hm
  exact ⟨(dec s)[m - 1]'(by omega), h3, h1, h2, h5, h6, rev_getElem s m hm1 hm⟩

/-- first phase: hash the last `n` runes, walking back from the `m`-th boundary -/
theorem rkRevInit_spec (P : UInt32) (s : Bytes) : ∀ (fuel m n : Nat) (h : UInt32), 1 ≤ n → m ≤ (dec s).length → m < fuel →
    rkRevInit P s fuel h (offAt s m) n =
      if n ≤ m
      then (hashList P ((((fdec caseFold s).reverse.drop ((dec s).length - m)).take n).map UInt32.ofNat) h, offAt s (m - n), 0)
      else (hashList P (((fdec caseFold s).reverse.drop ((dec s).length - m)).map UInt32.ofNat) h, 0, ((n - m : Nat) : Int)) := by
  intro fuel
  induction fuel with
  | zero => intro m n h _ _ hf; omega
  | succ fuel ih =>
    intro m n h hn hm hf
    simp only [rkRevInit]
    by_cases hm0 : m = 0
    · subst hm0
      rw [offAt_zero, if_neg (by omega), if_neg (by omega)]
      have : (fdec caseFold s).reverse.drop ((dec s).length - 0) = [] := by
        apply List.drop_eq_nil_of_le; simp [fdec_length]
      rw [this]; simp [hashList]
    · obtain ⟨hipos, hile, hq, _, hoff, hwle⟩ := last_before s m (by omega) hm
      rw [if_pos hipos, hq, hoff, hfold_eq]
      have hget := rev_getElem s m (by omega) hm
      have hdrop : (fdec caseFold s).reverse.drop ((dec s).length - m) =
          caseFold ((dec s)[m - 1]'(by omega)).1 :: (fdec caseFold s).reverse.drop ((dec s).length - (m - 1)) := by
        have hlt : (dec s).length - m < (fdec caseFold s).reverse.length := by simp [fdec_length]; omega
        rw [List.drop_eq_getElem_cons hlt]
        have := List.getElem?_eq_getElem hlt
        rw [hget] at this
        rw [← Option.some.inj this]
        congr 2; omega
      by_cases hn1 : (n : Int) - 1 = 0
      · have : n = 1 := by omega
        subst this
        rw [if_pos hn1, if_pos (by omega), hdrop]
        simp [hashList, u32]
      · rw [if_neg hn1]
        have := ih (m - 1) (n - 1) (h * P + u32 (caseFold ((dec s)[m - 1]'(by omega)).1)) (by omega) (by omega) (by omega)
        rw [this, hdrop]
        obtain ⟨n', rfl⟩ : ∃ n', n = n' + 1 := ⟨n - 1, by omega⟩
        simp only [Nat.add_sub_cancel]
        by_cases hle : n' ≤ m - 1
        · rw [if_pos hle, if_pos (by omega)]
          simp only [List.take_succ_cons, List.map_cons, hashList, u32]
          have e : m - 1 - n' = m - (n' + 1) := by omega
          rw [e]
        · rw [if_neg hle, if_neg (by omega)]
          simp only [List.map_cons, hashList, u32]
          have e : n' - (m - 1) = n' + 1 - m := by omega
          rw [e]

/-! ### windows and their reversed rune lists -/

/-- for lists of equal length, being a suffix is being equal -/
theorem suffix_of_length_eq {α : Type} (a b : List α) (h : a.length = b.length) : a <:+ b ↔ a = b := by
  constructor
  · intro hs; exact hs.eq_of_length h
  · intro e; rw [e]; exact List.suffix_refl _

theorem prefix_take_iff_eq {α : Type} [DecidableEq α] (p l : List α) (h : p.length ≤ l.length) :
    p.isPrefixOf l = true ↔ l.take p.length = p := by
  rw [List.isPrefixOf_iff_prefix, List.prefix_iff_eq_take]
  exact eq_comm

/-- the `n` runes starting at index `a`, read from the reversed list -/
theorem rev_window {α : Type} (fs : List α) (a n : Nat) (h : a + n ≤ fs.length) :
    (fs.reverse.drop (fs.length - a - n)).take n = ((fs.drop a).take n).reverse := by
  rw [List.drop_reverse]
  have e1 : fs.length - (fs.length - a - n) = a + n := by omega
  rw [e1, List.take_reverse, List.length_take, Nat.min_eq_left h]
  have e2 : a + n - n = a := by omega
  rw [e2, List.drop_take]
  have e3 : a + n - a = n := by omega
  rw [e3]

/-- verifying the window `s[o_a : o_{a+n}]` with hasSuffixUnicode is testing the reversed rune lists -/
theorem hasSuffix_window (cfg : Cfg) (s sub : Bytes) (a : Nat) (ha : a + (dec sub).length ≤ (dec s).length) :
    (hasSuffixUnicode cfg ((s.drop (offAt s a)).take (offAt s (a + (dec sub).length) - offAt s a)) sub).1 =
      (fdec caseFold sub).reverse.isPrefixOf ((fdec caseFold s).reverse.drop ((dec s).length - a - (dec sub).length)) := by
  have e : offAt s (a + (dec sub).length) - offAt s a = offAt (s.drop (offAt s a)) (dec sub).length :=
    (offAt_drop s a _ ha).symm
  rw [e, hasSuffixUnicode_eq]
  unfold suffSpec
  rw [window_fdec s sub a]
  -- both sides: the window's runes equal the needle's
  have hL : (fdec caseFold s).length = (dec s).length := fdec_length _ _
  have hn' : (fdec caseFold sub).length = (dec sub).length := fdec_length _ _
  have hwl : (((fdec caseFold s).drop a).take (fdec caseFold sub).length).length = (fdec caseFold sub).length := by
    simp only [List.length_take, List.length_drop, hL, hn']; omega
  have hwin := rev_window (fdec caseFold s) a (dec sub).length (by rw [hL]; exact ha)
  rw [hL] at hwin
  have hdl : (fdec caseFold sub).reverse.length ≤ ((fdec caseFold s).reverse.drop ((dec s).length - a - (dec sub).length)).length := by
    simp only [List.length_reverse, List.length_drop, hL, hn']; omega
  have hpre : (fdec caseFold sub).reverse.isPrefixOf ((fdec caseFold s).reverse.drop ((dec s).length - a - (dec sub).length)) = true ↔
      (((fdec caseFold s).drop a).take (dec sub).length).reverse = (fdec caseFold sub).reverse := by
    have h0 := prefix_take_iff_eq (fdec caseFold sub).reverse _ hdl
    rw [List.length_reverse, hn', hwin] at h0
    exact h0
  rw [hn'] at hwl ⊢
  cases hb : (fdec caseFold sub).isSuffixOf (((fdec caseFold s).drop a).take (dec sub).length) with
  | true =>
    have heq := (suffix_of_length_eq _ _ (by rw [hwl, hn'])).mp (List.isSuffixOf_iff_suffix.mp hb)
    simp only [if_true]
    symm
    rw [hpre, ← heq]
  | false =>
    simp only [Bool.false_eq_true, if_false]
    symm
    cases hq : (fdec caseFold sub).reverse.isPrefixOf ((fdec caseFold s).reverse.drop ((dec s).length - a - (dec sub).length)) with
    | false => rfl
    | true =>
      exfalso
      have := hpre.mp hq
      have heq : ((fdec caseFold s).drop a).take (dec sub).length = fdec caseFold sub := by
        have := congrArg List.reverse this
        simpa using this
      rw [heq] at hb
      have : (fdec caseFold sub).isSuffixOf (fdec caseFold sub) = true := List.isSuffixOf_iff_suffix.mpr (List.suffix_refl _)
      rw [this] at hb; cases hb

/-! ### rolling phase = `slide` on the reversed rune lists -/

theorem ite_match_step (C : Prop) (i1 i2 : Decidable C) (k : Nat) (f : Nat → Int) (r : Option Nat) (a X : Int)
    (ha : a = f (k + 1)) (hX : X = match r with | some k' => f k' | none => -1) :
    (@ite Int C i1 a X) = (match (@ite (Option Nat) C i2 (some (k + 1)) r) with | some k' => f k' | none => -1) := by
  cases i1 with
  | isTrue h1 =>
    cases i2 with
    | isTrue h2 => exact ha
    | isFalse h2 => exact absurd h1 h2
  | isFalse h1 =>
    cases i2 with
    | isTrue h2 => exact absurd h2 h1
    | isFalse h2 => exact hX

theorem rkRevRoll_slide (cfg : Cfg) (P pw hs : UInt32) (s sub : Bytes) (hn : 1 ≤ (dec sub).length) :
    ∀ (fuel k : Nat) (h : UInt32), k + (dec sub).length ≤ (dec s).length →
      (dec s).length + 1 ≤ fuel + (k + (dec sub).length) →
      rkRevRoll cfg P pw hs s sub fuel h (offAt s ((dec s).length - (dec sub).length - k)) (offAt s ((dec s).length - k)) =
        (match slide P pw hs (fdec caseFold sub).reverse ((fdec caseFold s).reverse.drop k)
            ((fdec caseFold s).reverse.drop (k + (dec sub).length)) h k with
          | some k' => ((offAt s ((dec s).length - (dec sub).length - k') : Nat) : Int)
          | none => -1) := by
  intro fuel
  induction fuel with
  | zero => intro k h hk hf; omega
  | succ fuel ih =>
    intro k h hk hf
    simp only [rkRevRoll]
    have hL : (fdec caseFold s).reverse.length = (dec s).length := by simp [fdec_length]
    by_cases hend : k + (dec sub).length = (dec s).length
    · -- the window touches the start of `s`
      have hi0 : offAt s ((dec s).length - (dec sub).length - k) = 0 := by
        have : (dec s).length - (dec sub).length - k = 0 := by omega
        rw [this, offAt_zero]
      rw [hi0, if_neg (by omega)]
      have : (fdec caseFold s).reverse.drop (k + (dec sub).length) = [] := by
        apply List.drop_eq_nil_of_le; rw [hL]; omega
      rw [this]
      cases (fdec caseFold s).reverse.drop k <;> rfl
    · have hlt : k + (dec sub).length < (dec s).length := by omega
      -- positions of the two boundaries
      have hmi : 1 ≤ (dec s).length - (dec sub).length - k := by omega
      have hmj : 1 ≤ (dec s).length - k := by omega
      obtain ⟨pi, hqi, hipos, hile, hoffi, hwi, hgi⟩ := last_before' s ((dec s).length - (dec sub).length - k) hmi (by omega)
      obtain ⟨pj, hqj, hjpos, hjle, hoffj, hwj, hgj⟩ := last_before' s ((dec s).length - k) hmj (by omega)
      rw [if_pos hipos, if_neg (by omega), hqi, hqj, hfold_eq, hfold_eq, if_neg (by omega), hoffi, hoffj]
      have hij := offAt_le_of_le s ((dec s).length - (dec sub).length - k - 1) ((dec s).length - k - 1) (by omega) (by omega)
      rw [if_neg (by omega)]
      -- the runes leaving / entering the window, in reversed-list terms
      have hold : (fdec caseFold s).reverse.drop k = caseFold pj.1 :: (fdec caseFold s).reverse.drop (k + 1) := by
        have hklt : k < (fdec caseFold s).reverse.length := by rw [hL]; omega
        rw [List.drop_eq_getElem_cons hklt]
        have e : (dec s).length - ((dec s).length - k) = k := by omega
        rw [e, List.getElem?_eq_getElem hklt] at hgj
        rw [Option.some.inj hgj]
      have hnew : (fdec caseFold s).reverse.drop (k + (dec sub).length) =
          caseFold pi.1 :: (fdec caseFold s).reverse.drop (k + (dec sub).length + 1) := by
        have hklt : k + (dec sub).length < (fdec caseFold s).reverse.length := by rw [hL]; omega
        rw [List.drop_eq_getElem_cons hklt]
        have e : (dec s).length - ((dec s).length - (dec sub).length - k) = k + (dec sub).length := by omega
        rw [e, List.getElem?_eq_getElem hklt] at hgi
        rw [Option.some.inj hgi]
      rw [hold, hnew, slide_cons]
      unfold u32
      -- the verification of the new window
      have hwin := hasSuffix_window cfg s sub ((dec s).length - (dec sub).length - k - 1) (by omega)
      have e1 : (dec s).length - (dec sub).length - k - 1 + (dec sub).length = (dec s).length - k - 1 := by omega
      have e2 : (dec s).length - ((dec s).length - (dec sub).length - k - 1) - (dec sub).length = k + 1 := by omega
      rw [e1, e2] at hwin
      rw [hwin]
      have e3 : (dec s).length - (dec sub).length - k - 1 = (dec s).length - (dec sub).length - (k + 1) := by omega
      have e4 : (dec s).length - k - 1 = (dec s).length - (k + 1) := by omega
      have e5 : k + (dec sub).length + 1 = k + 1 + (dec sub).length := by omega
      rw [e3, e4, e5]
      split
      · rfl
      · exact ih (k + 1) _ (by omega) (by omega)

/-- a forward occurrence at rune index `m` is an occurrence of the reversed needle in the reversed text -/
theorem rev_match_iff {α : Type} (fs fp : List α) (m : Nat) (h : m + fp.length ≤ fs.length) :
    fp <+: fs.drop m ↔ fp.reverse <+: fs.reverse.drop (fs.length - m - fp.length) := by
  have hw := rev_window fs m fp.length h
  rw [List.prefix_iff_eq_take, List.prefix_iff_eq_take, List.length_reverse, hw]
  constructor
  · intro e; rw [← e]
  · intro e
    have := congrArg List.reverse e
    simpa using this

/-- C08: `indexRabinKarpRevUnicode` returns the rightmost match (non-empty needle; all byte strings; both packages) -/
theorem indexRabinKarpRevUnicode_isLastIndex (cfg : Cfg) (s sub : Bytes) (hsub : sub ≠ []) :
    IsLastIndex caseFold s sub (indexRabinKarpRevUnicode cfg s sub) := by
  have hn : 1 ≤ (dec sub).length := by
    cases sub with
    | nil => exact absurd rfl hsub
    | cons c p => rw [dec_cons]; simp
  have hL : (fdec caseFold s).length = (dec s).length := fdec_length _ _
  have hN : (fdec caseFold sub).length = (dec sub).length := fdec_length _ _
  -- a match at a boundary, in rune-index terms
  have hmatch : ∀ m, m ≤ (dec s).length → (Match caseFold (s.drop (offAt s m)) sub ↔ fdec caseFold sub <+: (fdec caseFold s).drop m) := by
    intro m _; unfold Match; rw [fdec_drop_offAt]
  have hfit : ∀ m, fdec caseFold sub <+: (fdec caseFold s).drop m → m + (dec sub).length ≤ (dec s).length := by
    intro m hm
    have := hm.length_le
    simp only [List.length_drop, hL, hN] at this
    omega
  unfold indexRabinKarpRevUnicode
  simp only []
  rw [hashStrRevUnicode_spec]
  simp only []
  rw [if_neg (by omega)]
  have hini := rkRevInit_spec (u32 cfg.primeRK) s (s.length + 1) (dec s).length (dec sub).length 0 hn (Nat.le_refl _)
    (by have := dec_length_le s; omega)
  rw [offAt_length] at hini
  rw [hini]
  by_cases hle : (dec sub).length ≤ (dec s).length
  · rw [if_pos hle]
    simp only [Nat.sub_self, List.drop_zero]
    rw [if_neg (by omega)]
    have hh0 : hashList (u32 cfg.primeRK) (((fdec caseFold s).reverse.take (dec sub).length).map UInt32.ofNat) 0 =
        hashRunes (u32 cfg.primeRK) ((fdec caseFold s).reverse.take (fdec caseFold sub).reverse.length) := by
      rw [List.length_reverse, hN]; rfl
    -- the suffix test in reversed terms
    have hsuf : HasSuffix cfg s sub = (fdec caseFold sub).reverse.isPrefixOf (fdec caseFold s).reverse := by
      rw [HasSuffix_eq]
      unfold S.hasSuffix
      rw [suffixStart_eq]
      unfold suffSpec
      cases hb : (fdec caseFold sub).isSuffixOf (fdec caseFold s) with
      | true =>
        simp only [if_true, Option.isSome_some]
        symm
        rw [List.isPrefixOf_iff_prefix, List.reverse_prefix]
        exact List.isSuffixOf_iff_suffix.mp hb
      | false =>
        simp only [Bool.false_eq_true, if_false, Option.isSome_none]
        symm
        cases hq : (fdec caseFold sub).reverse.isPrefixOf (fdec caseFold s).reverse with
        | false => rfl
        | true =>
          rw [List.isPrefixOf_iff_prefix, List.reverse_prefix] at hq
          rw [List.isSuffixOf_iff_suffix.mpr hq] at hb; cases hb
    rw [hsuf]
    by_cases hfirst : hashList (u32 cfg.primeRK) (((fdec caseFold s).reverse.take (dec sub).length).map UInt32.ofNat) 0 =
        hashRunes (u32 cfg.primeRK) (fdec caseFold sub).reverse ∧
        (fdec caseFold sub).reverse.isPrefixOf (fdec caseFold s).reverse = true
    · rw [if_pos hfirst]
      -- the suffix itself matches: the rightmost possible position
      right
      have hm0 : fdec caseFold sub <+: (fdec caseFold s).drop ((dec s).length - (dec sub).length) := by
        rw [rev_match_iff (fdec caseFold s) (fdec caseFold sub) ((dec s).length - (dec sub).length) (by rw [hL, hN]; omega), hL, hN]
        have e : (dec s).length - ((dec s).length - (dec sub).length) - (dec sub).length = 0 := by omega
        rw [e, List.drop_zero]
        exact List.isPrefixOf_iff_prefix.mp hfirst.2
      refine ⟨offAt s ((dec s).length - (dec sub).length), rfl, ⟨_, by omega, rfl⟩, (hmatch _ (by omega)).mpr hm0, ?_⟩
      rintro j ⟨mj, hmj, rfl⟩ hlt hmj'
      have := hfit mj ((hmatch mj hmj).mp hmj')
      have := offAt_le_of_le s mj ((dec s).length - (dec sub).length) (by omega) (by omega)
      omega
    · rw [if_neg hfirst]
      have hnp : (fdec caseFold sub).reverse.isPrefixOf (fdec caseFold s).reverse = false := by
        cases hp : (fdec caseFold sub).reverse.isPrefixOf (fdec caseFold s).reverse with
        | false => rfl
        | true =>
          exfalso; apply hfirst
          refine ⟨?_, hp⟩
          rw [hh0, isPrefixOf_take_eq _ _ hp]
      have hroll := rkRevRoll_slide cfg (u32 cfg.primeRK) (powP (u32 cfg.primeRK) (dec sub).length)
        (hashRunes (u32 cfg.primeRK) (fdec caseFold sub).reverse) s sub hn (s.length + 1) 0
        (hashList (u32 cfg.primeRK) (((fdec caseFold s).reverse.take (dec sub).length).map UInt32.ofNat) 0)
        (by omega) (by have := dec_length_le s; omega)
      simp only [Nat.sub_zero, Nat.zero_add, List.drop_zero, offAt_length] at hroll
      rw [hroll]
      have hsl := slide_correct (u32 cfg.primeRK) (fdec caseFold sub).reverse (by rw [List.length_reverse, hN]; exact hn)
        (fdec caseFold s).reverse ((fdec caseFold s).reverse.drop (fdec caseFold sub).reverse.length)
        (hashList (u32 cfg.primeRK) (((fdec caseFold s).reverse.take (dec sub).length).map UInt32.ofNat) 0) 0
        (slide (u32 cfg.primeRK) (powP (u32 cfg.primeRK) (fdec caseFold sub).reverse.length)
          (hashRunes (u32 cfg.primeRK) (fdec caseFold sub).reverse) (fdec caseFold sub).reverse (fdec caseFold s).reverse
          ((fdec caseFold s).reverse.drop (fdec caseFold sub).reverse.length)
          (hashList (u32 cfg.primeRK) (((fdec caseFold s).reverse.take (dec sub).length).map UInt32.ofNat) 0) 0)
        rfl (by simp only [List.length_reverse, hL, hN]; exact hle) hh0 hnp rfl
      simp only [List.length_reverse, hN] at hsl
      -- reversed-list verdicts ↦ rightmost-match contract
      have hconv : ∀ d, d + (dec sub).length ≤ (dec s).length →
          ((fdec caseFold sub).reverse <+: (fdec caseFold s).reverse.drop d ↔
            fdec caseFold sub <+: (fdec caseFold s).drop ((dec s).length - (dec sub).length - d)) := by
        intro d hd
        rw [rev_match_iff (fdec caseFold s) (fdec caseFold sub) ((dec s).length - (dec sub).length - d) (by rw [hL, hN]; omega), hL, hN]
        have e : (dec s).length - ((dec s).length - (dec sub).length - d) - (dec sub).length = d := by omega
        rw [e]
      rcases hsl with ⟨hres, hno⟩ | ⟨d, hres, hm, hmin⟩
      · rw [hres]
        left; refine ⟨rfl, ?_⟩
        rintro i ⟨m, hm, rfl⟩ hmi
        have hf := (hmatch m hm).mp hmi
        have hfit' := hfit m hf
        have := (hconv ((dec s).length - (dec sub).length - m) (by omega)).mpr (by
          have e : (dec s).length - (dec sub).length - ((dec s).length - (dec sub).length - m) = m := by omega
          rw [e]; exact hf)
        exact hno _ this
      · rw [hres]
        simp only [Nat.zero_add]
        have hdl : d + (dec sub).length ≤ (dec s).length := by
          have := hm.length_le
          simp only [List.length_drop, List.length_reverse, hL, hN] at this
          omega
        right
        refine ⟨offAt s ((dec s).length - (dec sub).length - d), rfl, ⟨_, by omega, rfl⟩,
          (hmatch _ (by omega)).mpr ((hconv d hdl).mp hm), ?_⟩
        rintro j ⟨mj, hmj, rfl⟩ hlt hmj'
        have hf := (hmatch mj hmj).mp hmj'
        have hfit' := hfit mj hf
        have hmm : (dec s).length - (dec sub).length - d < mj := by
          rcases Nat.lt_or_ge ((dec s).length - (dec sub).length - d) mj with h | h
          · exact h
          · have := offAt_le_of_le s mj _ h (by omega); omega
        have := (hconv ((dec s).length - (dec sub).length - mj) (by omega)).mpr (by
          have e : (dec s).length - (dec sub).length - ((dec s).length - (dec sub).length - mj) = mj := by omega
          rw [e]; exact hf)
        exact hmin _ (by omega) this
  · -- fewer runes in s than in the needle
    rw [if_neg hle]
    have hpos : (((dec sub).length - (dec s).length : Nat) : Int) > 0 := by omega
    simp only []
    rw [if_pos hpos]
    left; refine ⟨rfl, ?_⟩
    rintro i ⟨m, hm, rfl⟩ hmi
    have := hfit m ((hmatch m hm).mp hmi)
    omega

end A
