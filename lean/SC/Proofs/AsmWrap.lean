import SC.Proofs.AsmAvxCount
import SC.Model.Spec
import SC.Model.AsmLink
/-!
The ABI wrappers (`TEXT ·IndexByte`, `·IndexByteString`, `·Count`, `·CountString`, `·IndexByteNonASCII`, `·IndexNonASCII`) at
instruction level: they load `SI`/`BX`/`AL`/`R8` from the caller's frame, test whether the needle is an ASCII letter
(`LEAL -65(AX), CX; CMPB CL, $25; JLS …; ADDL $-97, AX; CMPB AL, $25; JHI …`) and tail-call the letter body or the exact body.
The upper bits of `AX` are junk throughout (only `AL` is ever loaded).
-/
namespace Asm
open Kern

theorem disp32_m65 : disp32 (-65) = W32 - 65 := by decide
theorem disp32_m97 : disp32 (-97) = W32 - 97 := by decide

theorem lowbyte_add (x c d : Nat) (hc : c < 256) (hd : d ≤ 256) :
    ((W32 - d) + (x / 256 * 256 + c) % W32) % W32 % 256 = (c + 256 - d) % 256 := by
  unfold W32; omega

theorem lowbyte_add2 (x c d e : Nat) :
    (((W32 - d) + (x / 256 * 256 + c) % W32) % W32 / 256 * 256 + e) % 256 = e % 256 := by
  omega

/-- the final `MOVB c, AL` puts the needle back in the low byte, whatever `ADDL` left above it -/
theorem lowbyte_set (y e : Nat) : (y / 256 * 256 + e % 256) % 256 = e % 256 := by omega

def letter (v : Nat) : Bool := (decide (65 ≤ v) && decide (v ≤ 90)) || (decide (97 ≤ v) && decide (v ≤ 122))

theorem letter_isAlpha : ∀ c : UInt8, letter c.toNat = S.isAlpha c := by decide +kernel

/-- what a wrapper hands to the body it tail-calls -/
structure Handoff (s s1 : St) (sym : String) (base len : Nat) (c : UInt8) : Prop where
  tail : s1.tail = some sym
  si : s1.r .SI = base
  bx : s1.r .BX = len
  al : s1.r .AX % 256 = c.toNat
  mem : s1.mem = s.mem
  out : s1.out = s.out
  loads : s1.loads = s.loads
  avx2 : s1.avx2 = s.avx2


theorem le25_true (k : Nat) (h : k ≤ 25) : (decide (k < 25) || (k == 25)) = true := by
  rw [Bool.or_eq_true]
  by_cases e : k = 25
  · right; exact beq_iff_eq.mpr e
  · left; exact decide_eq_true (by omega)

theorem le25_false (k : Nat) (h : ¬ k ≤ 25) : (decide (k < 25) || (k == 25)) = false := by
  rw [Bool.or_eq_false_iff]
  exact ⟨decide_eq_false (by omega), beq_eq_false_iff_ne.mpr (by omega)⟩

set_option maxRecDepth 8000 in
set_option maxHeartbeats 4000000 in
theorem wrap_IndexByte_dispatch (s : St) (c : UInt8) (base len : Nat) (f : Nat)
    (hbase : s.args "b_base" = base) (hlen : s.args "b_len" = len) (hc : s.args "c" % 256 = c.toNat)
    (hb : base < 2 ^ 64) (hl : len < 2 ^ 64) (hf : 16 ≤ f) :
    Handoff s (run Gen.Asm.wrap_IndexByte f (block Gen.Asm.wrap_IndexByte "entry") s)
      (if S.isAlpha c then "indexbytebodyCase" else "indexbytebody") base len c := by
  have hW : W64 = 2 ^ 64 := rfl
  have hv : c.toNat < 256 := c.toNat_lt
  obtain ⟨g, rfl⟩ : ∃ g, f = g + 16 := ⟨f - 16, by omega⟩
  have e1 := lowbyte_add (s.r .AX) c.toNat 65 hv (by omega)
  have e2 := lowbyte_add (s.r .AX) c.toNat 97 hv (by omega)
  have hbm : base % W64 = base := Nat.mod_eq_of_lt (by rw [hW]; exact hb)
  have hlm : len % W64 = len := Nat.mod_eq_of_lt (by rw [hW]; exact hl)
  rw [← letter_isAlpha]
  by_cases hup : 65 ≤ c.toNat ∧ c.toNat ≤ 90
  · have hlet : letter c.toNat = true := by unfold letter; simp [hup.1, hup.2]
    have k1 := le25_true ((c.toNat + 256 - 65) % 256) (by omega)
    rw [hlet, if_pos rfl]
    constructor <;>
      (asm_exec [Gen.Asm.wrap_IndexByte, hbase, hlen, hc, hbm, hlm, add32, disp32_m65, disp32_m97, e1, k1, lowbyte_set] <;> omega)
  · have k1 := le25_false ((c.toNat + 256 - 65) % 256) (by omega)
    by_cases hlo : 97 ≤ c.toNat ∧ c.toNat ≤ 122
    · have hlet : letter c.toNat = true := by unfold letter; simp [hlo.1, hlo.2]
      have k2 := le25_true ((c.toNat + 256 - 97) % 256) (by omega)
      rw [hlet, if_pos rfl]
      constructor <;>
        (asm_exec [Gen.Asm.wrap_IndexByte, hbase, hlen, hc, hbm, hlm, add32, disp32_m65, disp32_m97, e1, e2, k1, k2, lowbyte_set] <;> omega)
    · have hlet : letter c.toNat = false := by
        unfold letter
        rw [Bool.or_eq_false_iff, Bool.and_eq_false_iff, Bool.and_eq_false_iff]
        refine ⟨?_, ?_⟩
        · by_cases h : 65 ≤ c.toNat
          · right; exact decide_eq_false (by omega)
          · left; exact decide_eq_false h
        · by_cases h : 97 ≤ c.toNat
          · right; exact decide_eq_false (by omega)
          · left; exact decide_eq_false h
      have k2 := le25_false ((c.toNat + 256 - 97) % 256) (by omega)
      rw [hlet, if_neg (by decide)]
      constructor <;>
        (asm_exec [Gen.Asm.wrap_IndexByte, hbase, hlen, hc, hbm, hlm, add32, disp32_m65, disp32_m97, e1, e2, k1, k2, lowbyte_set] <;> omega)
set_option maxRecDepth 8000 in
set_option maxHeartbeats 4000000 in
theorem wrap_IndexByteString_dispatch (s : St) (c : UInt8) (base len : Nat) (f : Nat)
    (hbase : s.args "s_base" = base) (hlen : s.args "s_len" = len) (hc : s.args "c" % 256 = c.toNat)
    (hb : base < 2 ^ 64) (hl : len < 2 ^ 64) (hf : 16 ≤ f) :
    Handoff s (run Gen.Asm.wrap_IndexByteString f (block Gen.Asm.wrap_IndexByteString "entry") s)
      (if S.isAlpha c then "indexbytebodyCase" else "indexbytebody") base len c := by
  have hW : W64 = 2 ^ 64 := rfl
  have hv : c.toNat < 256 := c.toNat_lt
  obtain ⟨g, rfl⟩ : ∃ g, f = g + 16 := ⟨f - 16, by omega⟩
  have e1 := lowbyte_add (s.r .AX) c.toNat 65 hv (by omega)
  have e2 := lowbyte_add (s.r .AX) c.toNat 97 hv (by omega)
  have hbm : base % W64 = base := Nat.mod_eq_of_lt (by rw [hW]; exact hb)
  have hlm : len % W64 = len := Nat.mod_eq_of_lt (by rw [hW]; exact hl)
  rw [← letter_isAlpha]
  by_cases hup : 65 ≤ c.toNat ∧ c.toNat ≤ 90
  · have hlet : letter c.toNat = true := by unfold letter; simp [hup.1, hup.2]
    have k1 := le25_true ((c.toNat + 256 - 65) % 256) (by omega)
    rw [hlet, if_pos rfl]
    constructor <;>
      (asm_exec [Gen.Asm.wrap_IndexByteString, hbase, hlen, hc, hbm, hlm, add32, disp32_m65, disp32_m97, e1, k1, lowbyte_set] <;> omega)
  · have k1 := le25_false ((c.toNat + 256 - 65) % 256) (by omega)
    by_cases hlo : 97 ≤ c.toNat ∧ c.toNat ≤ 122
    · have hlet : letter c.toNat = true := by unfold letter; simp [hlo.1, hlo.2]
      have k2 := le25_true ((c.toNat + 256 - 97) % 256) (by omega)
      rw [hlet, if_pos rfl]
      constructor <;>
        (asm_exec [Gen.Asm.wrap_IndexByteString, hbase, hlen, hc, hbm, hlm, add32, disp32_m65, disp32_m97, e1, e2, k1, k2, lowbyte_set] <;> omega)
    · have hlet : letter c.toNat = false := by
        unfold letter
        rw [Bool.or_eq_false_iff, Bool.and_eq_false_iff, Bool.and_eq_false_iff]
        refine ⟨?_, ?_⟩
        · by_cases h : 65 ≤ c.toNat
          · right; exact decide_eq_false (by omega)
          · left; exact decide_eq_false h
        · by_cases h : 97 ≤ c.toNat
          · right; exact decide_eq_false (by omega)
          · left; exact decide_eq_false h
      have k2 := le25_false ((c.toNat + 256 - 97) % 256) (by omega)
      rw [hlet, if_neg (by decide)]
      constructor <;>
        (asm_exec [Gen.Asm.wrap_IndexByteString, hbase, hlen, hc, hbm, hlm, add32, disp32_m65, disp32_m97, e1, e2, k1, k2, lowbyte_set] <;> omega)
set_option maxRecDepth 8000 in
set_option maxHeartbeats 4000000 in
theorem wrap_Count_dispatch (s : St) (c : UInt8) (base len : Nat) (f : Nat)
    (hbase : s.args "b_base" = base) (hlen : s.args "b_len" = len) (hc : s.args "c" % 256 = c.toNat)
    (hb : base < 2 ^ 64) (hl : len < 2 ^ 64) (hpop : s.popcnt = true) (hf : 16 ≤ f) :
    Handoff s (run Gen.Asm.wrap_Count f (block Gen.Asm.wrap_Count "entry") s)
      (if S.isAlpha c then "countbodyCase" else "countbody") base len c := by
  have hW : W64 = 2 ^ 64 := rfl
  have hv : c.toNat < 256 := c.toNat_lt
  obtain ⟨g, rfl⟩ : ∃ g, f = g + 16 := ⟨f - 16, by omega⟩
  have e1 := lowbyte_add (s.r .AX) c.toNat 65 hv (by omega)
  have e2 := lowbyte_add (s.r .AX) c.toNat 97 hv (by omega)
  have hbm : base % W64 = base := Nat.mod_eq_of_lt (by rw [hW]; exact hb)
  have hlm : len % W64 = len := Nat.mod_eq_of_lt (by rw [hW]; exact hl)
  rw [← letter_isAlpha]
  by_cases hup : 65 ≤ c.toNat ∧ c.toNat ≤ 90
  · have hlet : letter c.toNat = true := by unfold letter; simp [hup.1, hup.2]
    have k1 := le25_true ((c.toNat + 256 - 65) % 256) (by omega)
    rw [hlet, if_pos rfl]
    constructor <;>
      (asm_exec [Gen.Asm.wrap_Count, hbase, hlen, hc, hbm, hlm, add32, disp32_m65, disp32_m97, e1, k1, lowbyte_set, hpop] <;> omega)
  · have k1 := le25_false ((c.toNat + 256 - 65) % 256) (by omega)
    by_cases hlo : 97 ≤ c.toNat ∧ c.toNat ≤ 122
    · have hlet : letter c.toNat = true := by unfold letter; simp [hlo.1, hlo.2]
      have k2 := le25_true ((c.toNat + 256 - 97) % 256) (by omega)
      rw [hlet, if_pos rfl]
      constructor <;>
        (asm_exec [Gen.Asm.wrap_Count, hbase, hlen, hc, hbm, hlm, add32, disp32_m65, disp32_m97, e1, e2, k1, k2, lowbyte_set, hpop] <;> omega)
    · have hlet : letter c.toNat = false := by
        unfold letter
        rw [Bool.or_eq_false_iff, Bool.and_eq_false_iff, Bool.and_eq_false_iff]
        refine ⟨?_, ?_⟩
        · by_cases h : 65 ≤ c.toNat
          · right; exact decide_eq_false (by omega)
          · left; exact decide_eq_false h
        · by_cases h : 97 ≤ c.toNat
          · right; exact decide_eq_false (by omega)
          · left; exact decide_eq_false h
      have k2 := le25_false ((c.toNat + 256 - 97) % 256) (by omega)
      rw [hlet, if_neg (by decide)]
      constructor <;>
        (asm_exec [Gen.Asm.wrap_Count, hbase, hlen, hc, hbm, hlm, add32, disp32_m65, disp32_m97, e1, e2, k1, k2, lowbyte_set, hpop] <;> omega)
set_option maxRecDepth 8000 in
set_option maxHeartbeats 4000000 in
theorem wrap_CountString_dispatch (s : St) (c : UInt8) (base len : Nat) (f : Nat)
    (hbase : s.args "s_base" = base) (hlen : s.args "s_len" = len) (hc : s.args "c" % 256 = c.toNat)
    (hb : base < 2 ^ 64) (hl : len < 2 ^ 64) (hpop : s.popcnt = true) (hf : 16 ≤ f) :
    Handoff s (run Gen.Asm.wrap_CountString f (block Gen.Asm.wrap_CountString "entry") s)
      (if S.isAlpha c then "countbodyCase" else "countbody") base len c := by
  have hW : W64 = 2 ^ 64 := rfl
  have hv : c.toNat < 256 := c.toNat_lt
  obtain ⟨g, rfl⟩ : ∃ g, f = g + 16 := ⟨f - 16, by omega⟩
  have e1 := lowbyte_add (s.r .AX) c.toNat 65 hv (by omega)
  have e2 := lowbyte_add (s.r .AX) c.toNat 97 hv (by omega)
  have hbm : base % W64 = base := Nat.mod_eq_of_lt (by rw [hW]; exact hb)
  have hlm : len % W64 = len := Nat.mod_eq_of_lt (by rw [hW]; exact hl)
  rw [← letter_isAlpha]
  by_cases hup : 65 ≤ c.toNat ∧ c.toNat ≤ 90
  · have hlet : letter c.toNat = true := by unfold letter; simp [hup.1, hup.2]
    have k1 := le25_true ((c.toNat + 256 - 65) % 256) (by omega)
    rw [hlet, if_pos rfl]
    constructor <;>
      (asm_exec [Gen.Asm.wrap_CountString, hbase, hlen, hc, hbm, hlm, add32, disp32_m65, disp32_m97, e1, k1, lowbyte_set, hpop] <;> omega)
  · have k1 := le25_false ((c.toNat + 256 - 65) % 256) (by omega)
    by_cases hlo : 97 ≤ c.toNat ∧ c.toNat ≤ 122
    · have hlet : letter c.toNat = true := by unfold letter; simp [hlo.1, hlo.2]
      have k2 := le25_true ((c.toNat + 256 - 97) % 256) (by omega)
      rw [hlet, if_pos rfl]
      constructor <;>
        (asm_exec [Gen.Asm.wrap_CountString, hbase, hlen, hc, hbm, hlm, add32, disp32_m65, disp32_m97, e1, e2, k1, k2, lowbyte_set, hpop] <;> omega)
    · have hlet : letter c.toNat = false := by
        unfold letter
        rw [Bool.or_eq_false_iff, Bool.and_eq_false_iff, Bool.and_eq_false_iff]
        refine ⟨?_, ?_⟩
        · by_cases h : 65 ≤ c.toNat
          · right; exact decide_eq_false (by omega)
          · left; exact decide_eq_false h
        · by_cases h : 97 ≤ c.toNat
          · right; exact decide_eq_false (by omega)
          · left; exact decide_eq_false h
      have k2 := le25_false ((c.toNat + 256 - 97) % 256) (by omega)
      rw [hlet, if_neg (by decide)]
      constructor <;>
        (asm_exec [Gen.Asm.wrap_CountString, hbase, hlen, hc, hbm, hlm, add32, disp32_m65, disp32_m97, e1, e2, k1, k2, lowbyte_set, hpop] <;> omega)

/-- without POPCNT the counting wrappers leave to the Go fallback before touching any register -/
theorem wrap_Count_nopopcnt (s : St) (f : Nat) (hpop : s.popcnt = false) (hf : 3 ≤ f) :
    (run Gen.Asm.wrap_Count f (block Gen.Asm.wrap_Count "entry") s).tail = some "countGeneric" ∧
    (run Gen.Asm.wrap_CountString f (block Gen.Asm.wrap_CountString "entry") s).tail = some "countGenericString" := by
  obtain ⟨g, rfl⟩ : ∃ g, f = g + 3 := ⟨f - 3, by omega⟩
  constructor <;> (asm_exec [Gen.Asm.wrap_Count, Gen.Asm.wrap_CountString, hpop]; cases g <;> rfl)

set_option maxRecDepth 8000 in
theorem wrap_NonASCII_dispatch (s : St) (base len : Nat) (f : Nat)
    (hb : base < 2 ^ 64) (hl : len < 2 ^ 64) (hf : 5 ≤ f) :
    (s.args "b_base" = base → s.args "b_len" = len →
      Handoff s (run Gen.Asm.wrap_IndexByteNonASCII f (block Gen.Asm.wrap_IndexByteNonASCII "entry") s)
        "indexByteBodyNonASCII" base len (UInt8.ofNat (s.r .AX))) ∧
    (s.args "s_base" = base → s.args "s_len" = len →
      Handoff s (run Gen.Asm.wrap_IndexNonASCII f (block Gen.Asm.wrap_IndexNonASCII "entry") s)
        "indexByteBodyNonASCII" base len (UInt8.ofNat (s.r .AX))) := by
  have hW : W64 = 2 ^ 64 := rfl
  obtain ⟨g, rfl⟩ : ∃ g, f = g + 5 := ⟨f - 5, by omega⟩
  have hbm : base % W64 = base := Nat.mod_eq_of_lt (by rw [hW]; exact hb)
  have hlm : len % W64 = len := Nat.mod_eq_of_lt (by rw [hW]; exact hl)
  constructor <;> intro hbase hlen <;> constructor <;>
    (asm_exec [Gen.Asm.wrap_IndexByteNonASCII, Gen.Asm.wrap_IndexNonASCII, hbase, hlen, hbm, hlm] <;> simp)

theorem eqFold_pred (c : UInt8) :
    (if S.isAlpha c then (fun b : UInt8 => (b ||| 0x20) == (c ||| 0x20)) else (fun b => b == c)) = S.byteEqFold c := by
  funext b
  by_cases h : S.isAlpha c = true
  · rw [if_pos h]
    have := (by decide +kernel : ∀ c : UInt8, S.isAlpha c = true → ∀ b : UInt8, ((b ||| 0x20) == (c ||| 0x20)) = S.byteEqFold c b)
    exact this c h b
  · rw [if_neg h]
    have h' : S.isAlpha c = false := by simpa using h
    simp [S.byteEqFold, h']

/-- **search entry points** (`·IndexByte`, `·IndexByteString`): from the caller's frame to the stored result -/
theorem entry_index (w : Prog) (mem : Nat → UInt8) (base len : Nat) (c : UInt8) (s : St) (f : Nat)
    (h : Handoff s (run w f (block w "entry") s) (if S.isAlpha c then "indexbytebodyCase" else "indexbytebody") base len c)
    (hb : base + len + 128 < 2 ^ 62) (hmem : s.mem = mem) (hout : s.out = none) (hl : s.loads = [])
    (hf : 15 * (len + 1) + 80 ≤ f) :
    (call w f s).out = some (specIndex (S.byteEqFold c) mem base len) ∧ Safe base len (call w f s).loads := by
  rw [← eqFold_pred]
  unfold call
  simp only []
  rw [h.tail]
  by_cases ha : S.isAlpha c = true
  · rw [if_pos ha, if_pos ha]
    exact full_indexbytebodyCase mem base len c _ f (by omega) h.si h.bx h.al (h.mem.trans hmem) (h.out.trans hout) (h.loads.trans hl) (by omega)
  · rw [if_neg ha, if_neg ha]
    exact full_indexbytebody mem base len c _ f (by omega) h.si h.bx h.al (h.mem.trans hmem) (h.out.trans hout) (h.loads.trans hl) (by omega)

/-- **counting entry points** (`·Count`, `·CountString`, POPCNT available) -/
theorem entry_count (w : Prog) (mem : Nat → UInt8) (base len : Nat) (c : UInt8) (s : St) (f : Nat)
    (h : Handoff s (run w f (block w "entry") s) (if S.isAlpha c then "countbodyCase" else "countbody") base len c)
    (hb : base + len + 128 < 2 ^ 62) (hmem : s.mem = mem) (hout : s.out = none) (hl : s.loads = [])
    (hf : 15 * (len + 1) + 80 ≤ f) :
    (call w f s).out = some ((specCount (S.byteEqFold c) mem base len : Nat) : Int) ∧ Safe base len (call w f s).loads := by
  rw [← eqFold_pred]
  unfold call
  simp only []
  rw [h.tail]
  by_cases ha : S.isAlpha c = true
  · rw [if_pos ha, if_pos ha]
    exact full_countbodyCase mem base len c _ f hb h.si h.bx h.al (h.mem.trans hmem) (h.out.trans hout) (h.loads.trans hl) (by omega)
  · rw [if_neg ha, if_neg ha]
    exact full_countbody mem base len c _ f hb h.si h.bx h.al (h.mem.trans hmem) (h.out.trans hout) (h.loads.trans hl) (by omega)

/-- **non-ASCII entry points** (`·IndexByteNonASCII`, `·IndexNonASCII`) -/
theorem entry_nonascii (w : Prog) (mem : Nat → UInt8) (base len : Nat) (s : St) (f : Nat)
    (h : Handoff s (run w f (block w "entry") s) "indexByteBodyNonASCII" base len (UInt8.ofNat (s.r .AX)))
    (hb : base + len + 128 < 2 ^ 62) (hmem : s.mem = mem) (hout : s.out = none) (hl : s.loads = [])
    (hf : 15 * (len + 1) + 80 ≤ f) :
    (call w f s).out = some (specIndex (fun b => decide (b ≥ 0x80)) mem base len) ∧ Safe base len (call w f s).loads := by
  unfold call
  simp only []
  rw [h.tail]
  exact full_indexByteBodyNonASCII mem base len 0 _ f (by omega) h.si h.bx (h.mem.trans hmem) (h.out.trans hout) (h.loads.trans hl) (by omega)

end Asm
