import SC.Proofs.RIndexAny5
/-!
C11: `A.LastIndexAny` equals the specification on every pair of byte strings.
-/
namespace A
open Utf8 Fold

/-- the backward loop of LastIndexAny (always DecodeLastRune) -/
theorem lastRuneByDL_spec (P : Nat → Bool) (s : Bytes) : ∀ (fuel m : Nat) (hm : m ≤ (dec s).length), m < fuel →
    (lastRuneByDL P s fuel (offAt s m) = -1 ∧ ∀ k, ∀ hk : k < m, P ((dec s)[k]'(by omega)).1 = false) ∨
    (∃ k, ∃ hk : k < m, lastRuneByDL P s fuel (offAt s m) = ((offAt s k : Nat) : Int) ∧ P ((dec s)[k]'(by omega)).1 = true ∧
        ∀ k', ∀ hk' : k' < m, k < k' → P ((dec s)[k']'(by omega)).1 = false) := by
  intro fuel
  induction fuel with
  | zero => intro m _ h; omega
  | succ fuel ih =>
    intro m hm hf
    simp only [lastRuneByDL]
    by_cases hm0 : m = 0
    · subst hm0
      rw [offAt_zero, if_neg (by omega)]
      left; exact ⟨rfl, fun k hk => by omega⟩
    · obtain ⟨hipos, hile, _, hq, hoff, hwle⟩ := last_before s m (by omega) hm
      have hstrict := offAt_strict' s (m - 1) m (by omega) hm
      rw [if_pos hipos, if_neg (by omega), hq, if_neg (by omega)]
      by_cases hp : P ((dec s)[m - 1]'(by omega)).1 = true
      · rw [if_pos hp, hoff]
        right
        exact ⟨m - 1, by omega, rfl, hp, fun k' hk' hlt => by omega⟩
      · rw [if_neg hp, hoff]
        have hp' : P ((dec s)[m - 1]'(by omega)).1 = false := by
          cases h : P ((dec s)[m - 1]'(by omega)).1 with
          | false => rfl
          | true => exact absurd h hp
        rcases ih (m - 1) (by omega) (by omega) with ⟨h1, hn⟩ | ⟨k, hk, h1, hpk, hmax⟩
        · left; refine ⟨h1, ?_⟩
          intro k hk
          by_cases hkm : k = m - 1
          · subst hkm; exact hp'
          · exact hn k (by omega)
        · right
          refine ⟨k, by omega, h1, hpk, ?_⟩
          intro k' hk' hlt
          by_cases hkm : k' = m - 1
          · subst hkm; exact hp'
          · exact hmax k' (by omega) hlt

theorem lastRuneByDL_isLastBy (P : Nat → Bool) (s : Bytes) :
    IsLastBy P s (lastRuneByDL P s (s.length + 1) s.length) := by
  have h := lastRuneByDL_spec P s (s.length + 1) (dec s).length (Nat.le_refl _) (by have := dec_length_le s; omega)
  rw [offAt_length] at h
  exact lastBy_of_segments P s _ h

/-- the specification meets the last-by contract for the folded-set predicate -/
theorem S_lastIndexAny_lastBy (s cs : Bytes) : IsLastBy (anyP cs) s (S.lastIndexAny s cs) := by
  apply lastBy_of_segments
  have e : S.lastIndexAny s cs =
      (match (dec s).reverse.findIdx? (fun p => anyP cs p.1) with
        | some k => ((offAt s ((dec s).length - 1 - k) : Nat) : Int) | none => -1) := by
    unfold S.lastIndexAny S.fruns fdec S.fold
    dsimp only
    rw [← List.map_reverse, findIdx_map, List.length_map]
    rfl
  rw [e]
  cases hf : (dec s).reverse.findIdx? (fun p => anyP cs p.1) with
  | none =>
    left; refine ⟨rfl, ?_⟩
    intro k hk
    have := List.findIdx?_eq_none_iff.mp hf _ (List.mem_reverse.mpr (List.getElem_mem hk))
    simpa using this
  | some k =>
    obtain ⟨hk, hp, hmin⟩ := List.findIdx?_eq_some_iff_getElem.mp hf
    rw [List.length_reverse] at hk
    right
    refine ⟨(dec s).length - 1 - k, by omega, rfl, ?_, ?_⟩
    · rw [List.getElem_reverse] at hp; simpa using hp
    · intro k' hk' hlt
      have := hmin ((dec s).length - 1 - k') (by omega)
      rw [List.getElem_reverse] at this
      have e2 : (dec s).length - 1 - ((dec s).length - 1 - k') = k' := by omega
      simp only [e2] at this
      simpa using this

theorem eq_S_lastIndexAny (s cs : Bytes) (res : Int) (h : IsLastBy (anyP cs) s res) : res = S.lastIndexAny s cs :=
  isLastBy_unique _ s _ _ h (S_lastIndexAny_lastBy s cs)

/-- the ASCII-set strategy, backward -/
theorem anySet_lastBy (s chars : Bytes) (hok : (makeASCIISet s chars).2 = true) :
    IsLastBy (anyP chars) s (S.lastAt (fun x => (makeASCIISet s chars).1 (x.headD 0)) s 0) := by
  obtain ⟨hasc, hset, hks⟩ := makeASCIISet_ok s chars hok
  have hfun : (makeASCIISet s chars).1 = setOf chars := funext hset
  rw [hfun]
  have hb : IsLastByte (setOf chars) s (S.lastAt (fun x => setOf chars (x.headD 0)) s 0) := by
    rcases lastAt_spec (setOf chars) s 0 with ⟨h1, hn⟩ | ⟨n, b, h1, hb, hq, hmax⟩
    · exact Or.inl ⟨h1, hn⟩
    · exact Or.inr ⟨n, b, by rw [h1, Nat.zero_add], hb, hq, hmax⟩
  have := lastByte_isLastBy (setOf chars) (setOf_lt chars hasc) s _ hb
  exact isLastBy_congr_on _ _ s _ (anyP_eq_set s chars hasc hks) this

/-- C11: `LastIndexAny` of the algorithm model equals the specification, for all byte strings, both packages -/
theorem LastIndexAny_eq (cfg : Cfg) (s chars : Bytes) : LastIndexAny cfg s chars = S.lastIndexAny s chars := by
  unfold LastIndexAny
  by_cases h0 : chars.length = 0
  · rw [if_pos h0]
    have : chars = [] := List.length_eq_zero_iff.mp h0
    subst this
    exact eq_S_lastIndexAny s [] (-1) (Or.inl ⟨rfl, fun i _ _ => anyP_nil _⟩)
  rw [if_neg h0]
  by_cases hs1 : s.length = 1
  · rw [if_pos hs1]
    cases s with
    | nil => simp at hs1
    | cons c p =>
      have hp : p = [] := by
        simp only [List.length_cons] at hs1
        exact List.length_eq_zero_iff.mp (by omega)
      subst hp
      show (if IndexRune cfg chars (if c ≥ 0x80 then (0xFFFD : Int) else (c.toNat : Int)) ≥ 0 then (0 : Int) else -1) = _
      have hcast : ((if c ≥ 0x80 then 0xFFFD else (c.toNat : Int)) : Int) =
          (((if c ≥ 0x80 then 0xFFFD else c.toNat : Nat)) : Int) := by
        split <;> rfl
      rw [hcast]
      have hd : (decodeRune [c]).1 = (if c ≥ 0x80 then 0xFFFD else c.toNat : Nat) := by
        by_cases hc : c < 0x80
        · rw [if_neg (UInt8.not_le.mpr hc)]; simp [decodeRune, hc]
        · rw [if_pos (UInt8.not_lt.mp hc), decodeRune_single c hc]; rfl
      rw [← hd]
      have hv := decodeRune_valid [c] (by simp)
      have hmem := IndexRune_mem cfg chars (decodeRune [c]).1 hv
      apply eq_S_lastIndexAny
      by_cases hge : IndexRune cfg chars ((decodeRune [c]).1 : Int) ≥ 0
      · rw [if_pos hge]
        rw [decide_eq_true hge] at hmem
        right
        refine ⟨0, rfl, isBoundary_zero _, by simp, hmem.symm, ?_⟩
        intro j hj h0j hjl
        simp at hjl; omega
      · rw [if_neg hge]
        rw [decide_eq_false hge] at hmem
        left
        refine ⟨rfl, ?_⟩
        intro i hi hil
        have : i = 0 := by simp at hil; omega
        subst this
        exact hmem.symm
  rw [if_neg hs1]
  by_cases hset : s.length > 8 ∧ (makeASCIISet s chars).2 = true
  · simp only [hset.1, hset.2, if_true]
    exact eq_S_lastIndexAny s chars _ (anySet_lastBy s chars hset.2)
  · have hnone : (if s.length > 8 then
          (if (makeASCIISet s chars).2 = true then
            some (S.lastAt (fun x => (makeASCIISet s chars).1 (x.headD 0)) s 0) else none) else (none : Option Int)) = none := by
      by_cases h8 : s.length > 8
      · rw [if_pos h8, if_neg (fun h => hset ⟨h8, h⟩)]
      · rw [if_neg h8]
    simp only [hnone]
    by_cases h1 : chars.length = 1
    · rw [if_pos h1]
      cases chars with
      | nil => simp at h0
      | cons c p =>
        have hp : p = [] := by
          simp only [List.length_cons] at h1
          exact List.length_eq_zero_iff.mp (by omega)
        subst hp
        show (if c < 0x80 then LastIndexByte cfg s c else lastRuneByDL (· == runeError) s (s.length + 1) s.length) = _
        apply eq_S_lastIndexAny
        by_cases hc : c < 0x80
        · rw [if_pos hc]
          apply isLastBy_congr _ _ _ s _ (LastIndexByte_isLastBy cfg s c hc)
          intro x; rw [anyP_single, if_neg (UInt8.not_le.mpr hc)]
        · rw [if_neg hc]
          apply isLastBy_congr _ _ _ s _ (lastRuneByDL_isLastBy _ s)
          intro x; rw [anyP_single, if_pos (UInt8.not_lt.mp hc), fold_fffd]; rfl
    · rw [if_neg h1]
      apply eq_S_lastIndexAny
      have := lastRuneByDL_isLastBy (fun r : Nat => decide (IndexRune cfg chars (r : Int) ≥ 0)) s
      refine isLastBy_congr_on _ _ s _ ?_ this
      intro i hi hil
      exact IndexRune_mem cfg chars _
        (decodeRune_valid _ (by intro he; have := congrArg List.length he; simp at this; omega))

end A
