import SC.Proofs.Enc
namespace Utf8

theorem ofNat_toNat_id (b : UInt8) : UInt8.ofNat b.toNat = b := by
  apply UInt8.toNat_inj.mp
  rw [ofNat_toNat_lt _ b.toNat_lt]

theorem accept_toNat (b0 b1 : UInt8) (h : accept b0 b1 = true) :
    (if b0.toNat = 0xE0 then 0xA0 else if b0.toNat = 0xF0 then 0x90 else 0x80) ≤ b1.toNat ∧
    b1.toNat ≤ (if b0.toNat = 0xED then 0x9F else if b0.toNat = 0xF4 then 0x8F else 0xBF) := by
  have beq_iff : ∀ (c : UInt8), (b0 == c) = true ↔ b0.toNat = c.toNat := by
    intro c; rw [beq_iff_eq]; exact ⟨fun h => by rw [h], fun h => uint8_eq_of_toNat _ _ h⟩
  simp only [accept, Bool.and_eq_true, decide_eq_true_eq, UInt8.le_iff_toNat_le] at h
  obtain ⟨hl, hh⟩ := h
  constructor
  · by_cases h1 : b0.toNat = 0xE0
    · have : (b0 == 0xE0) = true := (beq_iff 0xE0).mpr (by simpa using h1)
      simp only [this, if_true] at hl; simp only [h1, if_true]; simpa using hl
    · have n1 : ¬ (b0 == 0xE0) = true := fun h => h1 (by simpa using (beq_iff 0xE0).mp h)
      by_cases h2 : b0.toNat = 0xF0
      · have : (b0 == 0xF0) = true := (beq_iff 0xF0).mpr (by simpa using h2)
        simp only [n1, this, if_true, if_false] at hl; simp only [h1, h2, if_true, if_false]; simpa using hl
      · have n2 : ¬ (b0 == 0xF0) = true := fun h => h2 (by simpa using (beq_iff 0xF0).mp h)
        simp only [n1, n2, if_false] at hl; simp only [h1, h2, if_false]; simpa using hl
  · by_cases h1 : b0.toNat = 0xED
    · have : (b0 == 0xED) = true := (beq_iff 0xED).mpr (by simpa using h1)
      simp only [this, if_true] at hh; simp only [h1, if_true]; simpa using hh
    · have n1 : ¬ (b0 == 0xED) = true := fun h => h1 (by simpa using (beq_iff 0xED).mp h)
      by_cases h2 : b0.toNat = 0xF4
      · have : (b0 == 0xF4) = true := (beq_iff 0xF4).mpr (by simpa using h2)
        simp only [n1, this, if_true, if_false] at hh; simp only [h1, h2, if_true, if_false]; simpa using hh
      · have n2 : ¬ (b0 == 0xF4) = true := fun h => h2 (by simpa using (beq_iff 0xF4).mp h)
        simp only [n1, n2, if_false] at hh; simp only [h1, h2, if_false]; simpa using hh

theorem lt_toNat (b c : UInt8) : b < c ↔ b.toNat < c.toNat := UInt8.lt_iff_toNat_lt
theorem not_lt_toNat (b c : UInt8) (h : ¬ b < c) : c.toNat ≤ b.toNat := by
  have : ¬ b.toNat < c.toNat := fun hh => h ((lt_toNat b c).mpr hh)
  omega

/-- E2: a well-formed decode (not an ill-formed byte) consumed exactly the encoding of a valid rune -/
theorem encode_decode (x : Bytes) (r w : Nat) (h : decodeRune x = (r, w))
    (hgood : 2 ≤ w ∨ r < 0x80) : x.take w = encode r ∧ validRune r := by
  match x with
  | [] => simp [decodeRune, runeError] at h; omega
  | b0 :: rest =>
    by_cases c1 : b0 < 0x80
    · have hd : decodeRune (b0 :: rest) = (b0.toNat, 1) := by simp [decodeRune, c1]
      rw [hd] at h; obtain ⟨hr, hw⟩ := Prod.mk.inj h
      subst hr; subst hw
      have hb : b0.toNat < 0x80 := by simpa using (lt_toNat b0 0x80).mp c1
      refine ⟨?_, Or.inl (by omega)⟩
      simp [encode, hb, ofNat_toNat_id]
    have n1 : ¬ b0.toNat < 0x80 := fun hh => c1 ((lt_toNat b0 0x80).mpr (by simpa using hh))
    by_cases c2 : b0 < 0xC2
    · have hd : decodeRune (b0 :: rest) = (runeError, 1) := by simp [decodeRune, c1, c2]
      rw [hd] at h; obtain ⟨hr, hw⟩ := Prod.mk.inj h
      subst hr; subst hw; simp [runeError] at hgood
    by_cases c3 : b0 < 0xE0
    · -- two bytes
      match rest with
      | [] => simp [decodeRune, c1, c2, c3, runeError] at h; omega
      | b1 :: tl =>
        by_cases hc : isCont b1 = true
        · have hd : decodeRune (b0 :: b1 :: tl) = (((b0.toNat &&& 0x1F) <<< 6) ||| (b1.toNat &&& 0x3F), 2) := by
            simp [decodeRune, c1, c2, c3, hc]
          rw [hd, decode2_val b0 b1 c2 c3 hc] at h
          obtain ⟨hr, hw⟩ := Prod.mk.inj h
          subst hw
          have k := cont6 b1 hc
          have k0 : 0xC2 ≤ b0.toNat := by
            have := not_lt_toNat b0 0xC2 c2; simpa using this
          have k0' : b0.toNat < 0xE0 := by simpa using (lt_toNat b0 0xE0).mp c3
          have hr1 : ¬ r < 0x80 := by omega
          have hr2 : r < 0x800 := by omega
          refine ⟨?_, Or.inl (by omega)⟩
          have q0 : 0xC0 + r / 64 = b0.toNat := by omega
          have q1 : 0x80 + r % 64 = b1.toNat := by omega
          simp [encode, hr1, hr2, q0, q1, ofNat_toNat_id]
        · simp [decodeRune, c1, c2, c3, hc, runeError] at h; omega
    by_cases c4 : b0 < 0xF0
    · -- three bytes
      match rest with
      | [] => simp [decodeRune, c1, c2, c3, c4, runeError] at h; omega
      | [b1] => simp [decodeRune, c1, c2, c3, c4, runeError] at h; omega
      | b1 :: b2 :: tl =>
        by_cases hc : (accept b0 b1 && isCont b2) = true
        · have hd : decodeRune (b0 :: b1 :: b2 :: tl) =
              (((b0.toNat &&& 0x0F) <<< 12) ||| ((b1.toNat &&& 0x3F) <<< 6) ||| (b2.toNat &&& 0x3F), 3) := by
            simp [decodeRune, c1, c2, c3, c4, hc]
          simp only [Bool.and_eq_true] at hc
          have hc1 := accept_isCont _ _ hc.1
          rw [hd, decode3_val b0 b1 b2 c3 c4 hc1 hc.2] at h
          obtain ⟨hr, hw⟩ := Prod.mk.inj h
          subst hw
          have k1 := cont6 b1 hc1
          have k2 := cont6 b2 hc.2
          have ka := accept_toNat b0 b1 hc.1
          have k0 : 0xE0 ≤ b0.toNat := by
            have := not_lt_toNat b0 0xE0 c3; simpa using this
          have k0' : b0.toNat < 0xF0 := by simpa using (lt_toNat b0 0xF0).mp c4
          have hr2 : ¬ r < 0x800 := by
            rcases ka with ⟨kl, _⟩
            split at kl <;> omega
          have hr3 : r < 0x10000 := by omega
          have hval : validRune r := by
            rcases ka with ⟨_, kh⟩
            by_cases hed : b0.toNat = 0xED
            · simp only [hed, if_true] at kh; left; omega
            · by_cases hlt : b0.toNat < 0xED
              · left; omega
              · right; constructor <;> omega
          refine ⟨?_, hval⟩
          have q0 : 0xE0 + r / 4096 = b0.toNat := by omega
          have q1 : 0x80 + r / 64 % 64 = b1.toNat := by omega
          have q2 : 0x80 + r % 64 = b2.toNat := by omega
          simp [encode, show ¬ r < 0x80 by omega, hr2, hr3, q0, q1, q2, ofNat_toNat_id]
        · simp [decodeRune, c1, c2, c3, c4, hc, runeError] at h; omega
    by_cases c5 : b0 < 0xF5
    · -- four bytes
      match rest with
      | [] => simp [decodeRune, c1, c2, c3, c4, c5, runeError] at h; omega
      | [b1] => simp [decodeRune, c1, c2, c3, c4, c5, runeError] at h; omega
      | [b1, b2] => simp [decodeRune, c1, c2, c3, c4, c5, runeError] at h; omega
      | b1 :: b2 :: b3 :: tl =>
        by_cases hc : (accept b0 b1 && isCont b2 && isCont b3) = true
        · have hd : decodeRune (b0 :: b1 :: b2 :: b3 :: tl) =
              (((b0.toNat &&& 0x07) <<< 18) ||| ((b1.toNat &&& 0x3F) <<< 12) ||| ((b2.toNat &&& 0x3F) <<< 6) ||| (b3.toNat &&& 0x3F), 4) := by
            simp [decodeRune, c1, c2, c3, c4, c5, hc]
          simp only [Bool.and_eq_true] at hc
          have hc1 := accept_isCont _ _ hc.1.1
          rw [hd, decode4_val b0 b1 b2 b3 c4 c5 hc1 hc.1.2 hc.2] at h
          obtain ⟨hr, hw⟩ := Prod.mk.inj h
          subst hw
          have k1 := cont6 b1 hc1
          have k2 := cont6 b2 hc.1.2
          have k3 := cont6 b3 hc.2
          have ka := accept_toNat b0 b1 hc.1.1
          have k0 : 0xF0 ≤ b0.toNat := by
            have := not_lt_toNat b0 0xF0 c4; simpa using this
          have k0' : b0.toNat < 0xF5 := by simpa using (lt_toNat b0 0xF5).mp c5
          have hr3 : ¬ r < 0x10000 := by
            rcases ka with ⟨kl, _⟩
            split at kl
            · omega
            · split at kl <;> omega
          have hr4 : r ≤ 0x10FFFF := by
            rcases ka with ⟨_, kh⟩
            split at kh
            · omega
            · split at kh <;> omega
          refine ⟨?_, Or.inr ⟨by omega, hr4⟩⟩
          have q0 : 0xF0 + r / 262144 = b0.toNat := by omega
          have q1 : 0x80 + r / 4096 % 64 = b1.toNat := by omega
          have q2 : 0x80 + r / 64 % 64 = b2.toNat := by omega
          have q3 : 0x80 + r % 64 = b3.toNat := by omega
          simp [encode, show ¬ r < 0x80 by omega, show ¬ r < 0x800 by omega, hr3, q0, q1, q2, q3, ofNat_toNat_id]
        · simp [decodeRune, c1, c2, c3, c4, c5, hc, runeError] at h; omega
    · have hd : decodeRune (b0 :: rest) = (runeError, 1) := by simp [decodeRune, c1, c2, c3, c4, c5]
      rw [hd] at h; obtain ⟨hr, hw⟩ := Prod.mk.inj h
      subst hr; subst hw; simp [runeError] at hgood
#print axioms encode_decode
end Utf8
