import SC.Proofs.Bnd
import SC.Proofs.Cmp
namespace Utf8
open A

section
variable (fold : Nat → Nat)

/-- `sub` matches at the front of `x` (fold-prefix on decoded runes) -/
def Match (x sub : Bytes) : Prop := fdec fold sub <+: fdec fold x

/-- `res` is the leftmost-match byte offset of `sub` in `s`, or -1 -/
def IsIndex (s sub : Bytes) (res : Int) : Prop :=
  (res = -1 ∧ ∀ i, IsBoundary s i → ¬ Match fold (s.drop i) sub) ∨
  (∃ i : Nat, res = (i : Int) ∧ IsBoundary s i ∧ Match fold (s.drop i) sub ∧
      ∀ j, IsBoundary s j → j < i → ¬ Match fold (s.drop j) sub)

/-- hand-over lemma: once every boundary below `i` is excluded, searching the suffix is exact -/
theorem isIndex_shift (s sub : Bytes) (i : Nat) (hi : IsBoundary s i)
    (hno : ∀ j, IsBoundary s j → j < i → ¬ Match fold (s.drop j) sub)
    (r : Int) (h : IsIndex fold (s.drop i) sub r) :
    IsIndex fold s sub (if r < 0 then -1 else (i : Int) + r) := by
  rcases h with ⟨hr, hall⟩ | ⟨i', hr, hb, hm, hmin⟩
  · subst hr
    left
    refine ⟨by simp, ?_⟩
    intro j hj
    by_cases hji : j < i
    · exact hno j hj hji
    · have hb := isBoundary_drop_sub s i j hi hj (by omega)
      have := hall _ hb
      rw [List.drop_drop] at this
      have e : i + (j - i) = j := by omega
      rwa [e] at this
  · subst hr
    right
    have hneg : ¬ ((i' : Int) < 0) := by omega
    rw [if_neg hneg]
    refine ⟨i + i', by simp, isBoundary_drop_add s i i' hi hb, ?_, ?_⟩
    · rw [List.drop_drop] at hm; exact hm
    · intro j hj hlt
      by_cases hji : j < i
      · exact hno j hj hji
      · have hb' := isBoundary_drop_sub s i j hi hj (by omega)
        have := hmin _ hb' (by omega)
        rw [List.drop_drop] at this
        have e : i + (j - i) = j := by omega
        rwa [e] at this

theorem fdec_cons' (b : UInt8) (x : Bytes) :
    fdec fold (b :: x) = fold (decodeRune (b :: x)).1 :: fdec fold ((b :: x).drop (decodeRune (b :: x)).2) := by
  simp [fdec, dec_cons b x]

theorem fdec_nil' : fdec fold [] = [] := by simp [fdec, dec_nil]

/-- unfolding a match against a needle whose folded runes are `f0 :: f1 :: fn` -/
theorem match_iff (x sub : Bytes) (f0 f1 : Nat) (fn : List Nat) (hsub : fdec fold sub = f0 :: f1 :: fn) :
    Match fold x sub ↔
      x ≠ [] ∧ fold (decodeRune x).1 = f0 ∧
      x.drop (decodeRune x).2 ≠ [] ∧ fold (decodeRune (x.drop (decodeRune x).2)).1 = f1 ∧
      fn <+: fdec fold ((x.drop (decodeRune x).2).drop (decodeRune (x.drop (decodeRune x).2)).2) := by
  unfold Match
  rw [hsub]
  cases x with
  | nil => simp [fdec_nil']
  | cons b x =>
    rw [fdec_cons']
    cases hx1 : (b :: x).drop (decodeRune (b :: x)).2 with
    | nil => simp [fdec_nil', List.cons_prefix_cons]
    | cons c y =>
      rw [fdec_cons']
      simp only [List.cons_prefix_cons, ne_eq, reduceCtorEq, not_false_eq_true, true_and]
      constructor
      · rintro ⟨h0, h1, h2⟩; exact ⟨h0.symm, h1.symm, h2⟩
      · rintro ⟨h0, h1, h2⟩; exact ⟨h0.symm, h1.symm, h2⟩
end
end Utf8
