import SC.Proofs.RSkip
/-!
C01: `A.Index` (dispatch + every strategy) equals the specification `S.index` on every pair of byte strings,
for both packages and both `NativeIndex` settings; `Contains` likewise.
-/
namespace A
open Utf8 Fold

def mkD (cfg : Cfg) : Utf8.DEnv where
  indexByte := fun s c => IndexByte cfg s c
  indexRune := fun s r => IndexRune cfg s (r : Int)
  brute := bruteForceIndexUnicode cfg
  rk := indexRabinKarpUnicode cfg
  skip := indexSkip cfg
  bytesIdx := bytesIndex
  nonLetterASCII := fun sub => decide (sub.length ≤ 32) && nonLetterASCII sub
  containsKelvin := containsKelvin cfg
  nativeIndex := cfg.native
  maxLen := cfg.maxLen
  maxBruteForce := cfg.maxBruteForce

theorem Index_eq_dispatch (cfg : Cfg) (s sub : Bytes) : Index cfg s sub = Utf8.Index (mkD cfg) s sub := by
  unfold Index Utf8.Index mkD
  simp only [Bool.and_eq_true, decide_eq_true_eq]

/-- a match of a non-empty needle starts with a rune fold-equal to the needle's first rune -/
theorem match_first (x sub : Bytes) (hne : sub ≠ []) (h : Match caseFold x sub) :
    x ≠ [] ∧ caseFold (decodeRune x).1 = caseFold (decodeRune sub).1 := by
  unfold Match at h
  cases sub with
  | nil => exact absurd rfl hne
  | cons c p =>
    rw [fdec_cons'] at h
    cases x with
    | nil => simp [fdec, dec_nil] at h
    | cons b x' =>
      rw [fdec_cons'] at h
      exact ⟨by simp, (List.cons_prefix_cons.mp h).1.symm⟩

theorem bytesIndex_nil (x : Bytes) : bytesIndex x [] = 0 := by
  cases x <;> simp [bytesIndex, List.isPrefixOf]

/-- the contracts of everything `Index` dispatches to -/
theorem dispatch_hyp (cfg : Cfg) (sub : Bytes) : Utf8.DHyp caseFold (mkD cfg) sub := by
  refine ⟨?_, ?_, ?_, ?_, ?_, ?_, ?_, ?_, ?_⟩
  · -- one ASCII byte
    intro s h1 hne
    cases sub with
    | nil => simp at h1
    | cons c p =>
      have hp : p = [] := by
        simp only [List.length_cons] at h1
        exact List.length_eq_zero_iff.mp (by omega)
      subst hp
      have hc : c < 0x80 := by
        by_cases hc : c < 0x80
        · exact hc
        · exact absurd (by rw [decodeRune_single c hc]) hne
      obtain ⟨w, hfb⟩ := IndexByte_firstBy cfg s c hc
      have hsub : fdec caseFold [c] = [caseFold c.toNat] := by simp [fdec, dec_ascii c [] hc, dec_nil]
      dsimp only [mkD, List.headD_cons]
      generalize IndexByte cfg s c = res at hfb ⊢
      exact isIndex_of_firstBy caseFold s [c] _ hsub (res, w) hfb
  · -- one code point
    intro s hne hlen
    have hv := decodeRune_valid sub hne
    have hvi : S.validRuneI ((decodeRune sub).1 : Int) = true := by
      simp only [S.validRuneI, decide_eq_true_eq]
      exact ⟨by omega, by simpa using hv⟩
    obtain ⟨w, hfb⟩ := (IndexRune_spec cfg s ((decodeRune sub).1 : Int)).2 hvi
    simp only [Int.toNat_natCast] at hfb
    dsimp only [mkD]
    generalize IndexRune cfg s ((decodeRune sub).1 : Int) = res at hfb ⊢
    exact isIndex_of_firstBy caseFold s sub _ (fdec_single sub hne hlen) (res, w) hfb
  · -- IndexRune on the first needle rune as a filter
    intro s hne
    have hv := decodeRune_valid sub hne
    have hvi : S.validRuneI ((decodeRune sub).1 : Int) = true := by
      simp only [S.validRuneI, decide_eq_true_eq]
      exact ⟨by omega, by simpa using hv⟩
    obtain ⟨w, hfb⟩ := (IndexRune_spec cfg s ((decodeRune sub).1 : Int)).2 hvi
    simp only [Int.toNat_natCast] at hfb
    dsimp only [mkD]
    generalize IndexRune cfg s ((decodeRune sub).1 : Int) = res at hfb ⊢
    have hnm : ∀ j, j < s.length → (caseFold (decodeRune (s.drop j)).1 == caseFold (decodeRune sub).1) = false →
        ¬ Match caseFold (s.drop j) sub := by
      intro j _ hf hm
      rw [(match_first _ sub hne hm).2] at hf; simp at hf
    have hend : ∀ j, s.length ≤ j → ¬ Match caseFold (s.drop j) sub := by
      intro j hj hm
      exact (match_first _ sub hne hm).1 (List.drop_eq_nil_of_le hj)
    rcases hfb with ⟨h1, hn⟩ | ⟨i, h1, hb, hl, _, _, hmin⟩
    · simp only [] at h1
      refine ⟨fun _ j hj => ?_, fun h0 => by omega⟩
      rcases Nat.lt_or_ge j s.length with h | h
      · exact hnm j h (hn j hj h)
      · exact hend j h
    · simp only [] at h1
      refine ⟨fun h0 => by omega, fun _ => ?_⟩
      have : res.toNat = i := by rw [h1]; simp
      rw [this]
      exact ⟨hb, fun j hj hji => hnm j (by omega) (hmin j hj hji)⟩
  · intro x hlen
    have := decodeRune_width_le sub
    exact bruteForce_isIndex cfg x sub (by omega)
  · intro x hlen
    apply indexRabinKarpUnicode_isIndex cfg x sub
    intro h; subst h; simp [decodeRune] at hlen
  · intro x hlen _ hu0 _
    have := decodeRune_width_le sub
    exact indexSkip_isIndex cfg x sub (by omega) hu0
  · intro x hnl
    by_cases hne : sub = []
    · subst hne
      show IsIndex caseFold x [] (bytesIndex x [])
      rw [bytesIndex_nil]
      right
      exact ⟨0, rfl, isBoundary_zero x, by simp [Match, fdec, dec_nil], fun j _ hj => by omega⟩
    · have hnl' : nonLetterASCII sub = true := by
        have : (decide (sub.length ≤ 32) && nonLetterASCII sub) = true := hnl
        simp only [Bool.and_eq_true] at this
        exact this.2
      exact bytesIndex_isIndex x sub hne hnl'
  · intro x hm
    exact (match_widths cfg x sub hm).1
  · intro x hk hm
    exact (match_widths cfg x sub hm).2 hk

/-- C01: `Index` of the algorithm model meets the leftmost-match contract … -/
theorem Index_isIndex (cfg : Cfg) (s sub : Bytes) : IsIndex caseFold s sub (Index cfg s sub) := by
  rw [Index_eq_dispatch]
  exact Utf8.Index_correct (dispatch_hyp cfg sub) s

/-- … hence equals the specification, for every pair of byte strings, both packages, both `NativeIndex` settings -/
theorem Index_eq (cfg : Cfg) (s sub : Bytes) : Index cfg s sub = S.index s sub :=
  eq_S_index_of_isIndex s sub _ (Index_isIndex cfg s sub)

theorem Contains_eq (cfg : Cfg) (s sub : Bytes) : Contains cfg s sub = S.contains s sub := by
  unfold Contains S.contains
  rw [Index_eq]
  unfold S.index
  cases S.indexK s sub <;> simp

end A
