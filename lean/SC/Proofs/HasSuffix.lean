import SC.Proofs.Utf8Last
import SC.Proofs.Cmp
namespace Utf8
open A

/-- peeling the last segment with DecodeLastRune: what is left decodes to all but the last segment -/
theorem dec_peel_last (s : Bytes) (hs : s ≠ []) :
    1 ≤ (decodeLast s).2 ∧ (decodeLast s).2 ≤ s.length ∧
    dec s = dec (s.take (s.length - (decodeLast s).2)) ++ [decodeLast s] := by
  obtain ⟨o, r, w, hlast, _, how, hw1, _, hoeq⟩ := last_seg s hs
  have hdl := decodeLast_eq s hs
  rw [hlast] at hdl
  have hp : decodeLast s = (r, w) := (Option.some.inj hdl).symm
  rw [hp]
  refine ⟨hw1, by omega, ?_⟩
  have ho : s.length - w = o := by omega
  show dec s = dec (s.take (s.length - w)) ++ [(r, w)]
  rw [ho, hoeq, dec_take_offAt]
  have hne : dec s ≠ [] := fun h => hs ((dec_eq_nil s).mp h)
  have hl : (dec s).getLast? = some (r, w) := hlast
  rw [List.getLast?_eq_some_iff] at hl
  obtain ⟨ys, hys⟩ := hl
  rw [hys]; simp

section
variable (fold : Nat → Nat)


variable (hidem : ∀ r, fold (fold r) = fold r)
variable (hascii : ∀ b : UInt8, b < 0x80 → fold b.toNat = (lower b).toNat)

/-- an ASCII last byte is the last segment -/
theorem decodeLast_ascii (s : Bytes) (hs : s ≠ []) (h : s.getLast?.getD 0 < 0x80) :
    decodeLast s = ((s.getLast?.getD 0).toNat, 1) := by
  have hn : 0 < s.length := List.length_pos_iff.mpr hs
  have hg : s.getD (s.length - 1) 0 = s.getLast?.getD 0 := by
    rw [List.getD_eq_getElem?_getD, List.getLast?_eq_getElem?]
  unfold decodeLast
  simp only []
  rw [if_neg (by omega), hg, if_pos h]

include hidem hascii in
theorem hsRunes_spec (fuel : Nat) (s t : Bytes) (hf : s.length < fuel) :
    (hsRunes fold fuel s t).1 = true ↔ fdec fold t <:+ fdec fold s := by
  induction fuel generalizing s t with
  | zero => omega
  | succ fuel ih =>
    simp only [hsRunes]
    by_cases h0 : s = [] ∨ t = []
    · rw [if_pos h0]
      rcases h0 with h0 | h0
      · subst h0
        simp only [List.isEmpty_iff, fdec, dec_nil, List.map_nil, List.suffix_nil]
        constructor
        · intro h; subst h; simp [dec_nil]
        · intro h
          have : dec t = [] := by simpa using h
          exact (dec_eq_nil t).mp this
      · subst h0; simp [fdec, dec_nil]
    · rw [if_neg h0]
      have hs : s ≠ [] := fun h => h0 (Or.inl h)
      have ht : t ≠ [] := fun h => h0 (Or.inr h)
      obtain ⟨hsw1, hswl, hsd⟩ := dec_peel_last s hs
      obtain ⟨htw1, htwl, htd⟩ := dec_peel_last t ht
      -- normalise the ASCII shortcuts to the general form
      have hsr : fold (if s.getLast?.getD 0 < 0x80 then (lower (s.getLast?.getD 0)).toNat else (decodeLast s).1) = fold (decodeLast s).1 := by
        split
        · rename_i ha; rw [decodeLast_ascii s hs ha, ← hascii _ ha, hidem]
        · rfl
      have hs' : (if s.getLast?.getD 0 < 0x80 then s.take (s.length - 1) else s.take (s.length - (decodeLast s).2)) = s.take (s.length - (decodeLast s).2) := by
        split
        · rename_i ha; rw [decodeLast_ascii s hs ha]
        · rfl
      have htr : fold (if t.getLast?.getD 0 < 0x80 then (lower (t.getLast?.getD 0)).toNat else (decodeLast t).1) = fold (decodeLast t).1 := by
        split
        · rename_i ha; rw [decodeLast_ascii t ht ha, ← hascii _ ha, hidem]
        · rfl
      have ht' : (if t.getLast?.getD 0 < 0x80 then t.take (t.length - 1) else t.take (t.length - (decodeLast t).2)) = t.take (t.length - (decodeLast t).2) := by
        split
        · rename_i ha; rw [decodeLast_ascii t ht ha]
        · rfl
      have hfs : fdec fold s = fdec fold (s.take (s.length - (decodeLast s).2)) ++ [fold (decodeLast s).1] := by
        show (dec s).map _ = (dec (s.take (s.length - (decodeLast s).2))).map _ ++ [_]
        conv => lhs; rw [hsd]
        rw [List.map_append]; rfl
      have hft : fdec fold t = fdec fold (t.take (t.length - (decodeLast t).2)) ++ [fold (decodeLast t).1] := by
        show (dec t).map _ = (dec (t.take (t.length - (decodeLast t).2))).map _ ++ [_]
        conv => lhs; rw [htd]
        rw [List.map_append]; rfl
      rw [hs', ht']
      by_cases heq : fold (decodeLast s).1 = fold (decodeLast t).1
      · have hcond : (if s.getLast?.getD 0 < 0x80 then (lower (s.getLast?.getD 0)).toNat else (decodeLast s).1) =
            (if t.getLast?.getD 0 < 0x80 then (lower (t.getLast?.getD 0)).toNat else (decodeLast t).1) ∨
            fold (if s.getLast?.getD 0 < 0x80 then (lower (s.getLast?.getD 0)).toNat else (decodeLast s).1) =
            fold (if t.getLast?.getD 0 < 0x80 then (lower (t.getLast?.getD 0)).toNat else (decodeLast t).1) :=
          Or.inr (by rw [hsr, htr]; exact heq)
        rw [if_pos hcond]
        rw [ih _ _ (by simp only [List.length_take]; omega), hfs, hft, heq]
        constructor
        · intro h
          obtain ⟨z, hz⟩ := h
          exact ⟨z, by rw [← List.append_assoc, hz]⟩
        · intro h
          obtain ⟨z, hz⟩ := h
          rw [← List.append_assoc] at hz
          exact ⟨z, List.append_inj_left' hz rfl⟩
      · have hcond : ¬ ((if s.getLast?.getD 0 < 0x80 then (lower (s.getLast?.getD 0)).toNat else (decodeLast s).1) =
            (if t.getLast?.getD 0 < 0x80 then (lower (t.getLast?.getD 0)).toNat else (decodeLast t).1) ∨
            fold (if s.getLast?.getD 0 < 0x80 then (lower (s.getLast?.getD 0)).toNat else (decodeLast s).1) =
            fold (if t.getLast?.getD 0 < 0x80 then (lower (t.getLast?.getD 0)).toNat else (decodeLast t).1)) := by
          rw [hsr, htr]
          intro h; rcases h with h | h
          · apply heq; rw [← hsr, ← htr, h]
          · exact heq h
        rw [if_neg hcond]
        simp only [Bool.false_eq_true, false_iff]
        rw [hfs, hft]
        intro h
        obtain ⟨z, hz⟩ := h
        rw [← List.append_assoc] at hz
        have := List.append_inj_right' hz rfl
        exact heq (List.singleton_inj.mp this).symm
end
end Utf8
