import SC.Proofs.Enc2
import SC.Proofs.Bnd
namespace Utf8

theorem encode_ne_nil (r : Nat) : encode r ≠ [] := by
  unfold encode; repeat' split
  all_goals simp

/-- the first byte of an encoding is a rune-start byte -/
theorem encode_head_start (r : Nat) (hv : validRune r) :
    ∃ b tl, encode r = b :: tl ∧ isStart b = true := by
  have key : ∀ b : UInt8, (b.toNat < 0x80 ∨ 0xC0 ≤ b.toNat) → isStart b = true := by
    intro b
    have : ∀ b : UInt8, (b < 0x80 ∨ 0xC0 ≤ b) → isStart b = true := by decide +kernel
    intro h; apply this
    rcases h with h | h
    · left; rw [UInt8.lt_iff_toNat_lt]; simpa using h
    · right; rw [UInt8.le_iff_toNat_le]; simpa using h
  unfold encode
  split
  · rename_i h; exact ⟨_, _, rfl, key _ (Or.inl (by rw [ofNat_toNat_lt _ (by omega)]; exact h))⟩
  · split
    · exact ⟨_, _, rfl, key _ (Or.inr (by rw [ofNat_toNat_lt _ (by omega)]; omega))⟩
    · split
      · exact ⟨_, _, rfl, key _ (Or.inr (by rw [ofNat_toNat_lt _ (by omega)]; omega))⟩
      · have : r ≤ 0x10FFFF := by rcases hv with h | h; omega; exact h.2
        exact ⟨_, _, rfl, key _ (Or.inr (by rw [ofNat_toNat_lt _ (by omega)]; omega))⟩

/-- byte-pattern occurrence ⇔ rune at a boundary: the bridge used by every rune search -/
theorem occurs_iff_rune_at (s : Bytes) (r : Nat) (hv : validRune r) (i : Nat) :
    (encode r <+: s.drop i) ↔
      (IsBoundary s i ∧ i < s.length ∧ decodeRune (s.drop i) = (r, (encode r).length)) := by
  constructor
  · rintro ⟨y, hy⟩
    have hne : s.drop i ≠ [] := by rw [← hy]; simp [encode_ne_nil]
    have hil : i < s.length := by
      rcases Nat.lt_or_ge i s.length with h | h
      · exact h
      · exact absurd (List.drop_eq_nil_of_le h) hne
    obtain ⟨b, tl, hb, hst⟩ := encode_head_start r hv
    have hsi : s[i]? = some b := by
      have := congrArg (fun l => l[0]?) hy
      simp only [hb, List.cons_append, List.getElem?_cons_zero, List.getElem?_drop, Nat.add_zero] at this
      exact this.symm
    refine ⟨start_is_boundary s.length s (Nat.le_refl _) i b hsi hst, hil, ?_⟩
    rw [← hy]; exact decode_encode r hv y
  · rintro ⟨_, hil, hd⟩
    have hgood : 2 ≤ (encode r).length ∨ r < 0x80 := by
      by_cases h : r < 0x80
      · exact Or.inr h
      · left; unfold encode; rw [if_neg h]; repeat' split
        all_goals simp
    obtain ⟨ht, _⟩ := encode_decode (s.drop i) r _ hd hgood
    rw [← ht]; exact List.take_prefix _ _
#print axioms occurs_iff_rune_at
end Utf8
