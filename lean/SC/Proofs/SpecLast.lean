import SC.Proofs.SpecIndex
/-!
The specification `S.lastIndex` meets the rightmost-match contract `IsLastIndex`, which has a unique solution.
-/
namespace Utf8
open Spec

/-- `res` is the rightmost-match byte offset of `sub` in `s`, or −1 -/
def IsLastIndex (fold : Nat → Nat) (s sub : Bytes) (res : Int) : Prop :=
  (res = -1 ∧ ∀ i, IsBoundary s i → ¬ Match fold (s.drop i) sub) ∨
  (∃ i : Nat, res = (i : Int) ∧ IsBoundary s i ∧ Match fold (s.drop i) sub ∧
      ∀ j, IsBoundary s j → i < j → ¬ Match fold (s.drop j) sub)

theorem S_lastIndex_isLastIndex (s sub : Bytes) : IsLastIndex S.fold s sub (S.lastIndex s sub) := by
  unfold S.lastIndex S.lastIndexK S.fruns
  cases h : findSubLast (fdec S.fold s) (fdec S.fold sub) with
  | none =>
    left
    refine ⟨rfl, ?_⟩
    rintro i ⟨k, hk, rfl⟩ hm
    rw [findSubLast_none_iff] at h
    apply h k (by rw [fdec_length]; exact hk)
    unfold Match at hm
    rwa [fdec_drop_offAt] at hm
  | some k =>
    right
    rw [findSubLast_some_iff] at h
    obtain ⟨hp, hk, hmax⟩ := h
    rw [fdec_length] at hk
    refine ⟨offAt s k, rfl, ⟨k, hk, rfl⟩, ?_, ?_⟩
    · unfold Match; rwa [fdec_drop_offAt]
    · rintro j ⟨k', hk', rfl⟩ hlt hm
      have hkk : k < k' := by
        rcases Nat.lt_or_ge k k' with h | h
        · exact h
        · have := offAt_le_of_le s k' k h hk; omega
      apply hmax k' hkk (by rw [fdec_length]; exact hk')
      unfold Match at hm
      rwa [fdec_drop_offAt] at hm

theorem isLastIndex_unique (fold : Nat → Nat) (s sub : Bytes) (a b : Int)
    (ha : IsLastIndex fold s sub a) (hb : IsLastIndex fold s sub b) : a = b := by
  rcases ha with ⟨ha, hna⟩ | ⟨i, ha, hbi, hmi, hmaxi⟩ <;> rcases hb with ⟨hb, hnb⟩ | ⟨j, hb, hbj, hmj, hmaxj⟩
  · rw [ha, hb]
  · exact absurd hmj (hna j hbj)
  · exact absurd hmi (hnb i hbi)
  · subst ha; subst hb
    rcases Nat.lt_trichotomy i j with h | h | h
    · exact absurd hmj (hmaxi j hbj h)
    · rw [h]
    · exact absurd hmi (hmaxj i hbi h)

theorem eq_S_lastIndex_of_isLastIndex (s sub : Bytes) (r : Int) (h : IsLastIndex S.fold s sub r) : r = S.lastIndex s sub :=
  isLastIndex_unique S.fold s sub r _ h (S_lastIndex_isLastIndex s sub)

end Utf8
