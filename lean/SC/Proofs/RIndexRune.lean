import SC.Proofs.RIndexByte
/-!
`indexRune2`, `indexRune` (FoldMap loop / ToUpperLower pair / single rune) and `IndexRune` return the
first code point in the fold orbit of `r` — every haystack, every `int32` rune, both hand-over variants.
-/
namespace A
open Utf8 Fold

/-! ### table facts used below (kernel-checked on the regenerated tables) -/

def validNat (x : Nat) : Bool := (x < 0xD800 || (0xDFFF < x && x ≤ 0x10FFFF)) && x != 0xFFFD

theorem validNat_spec (x : Nat) (h : validNat x = true) : validRune x ∧ x ≠ 0xFFFD := by
  unfold validNat at h
  simp only [Bool.and_eq_true, Bool.or_eq_true, decide_eq_true_eq, bne_iff_ne, ne_eq] at h
  refine ⟨?_, h.2⟩
  unfold validRune
  rcases h.1 with h1 | ⟨h1, h2⟩
  · exact Or.inl h1
  · exact Or.inr ⟨h1, h2⟩

theorem orbKeys_valid : orbKeys.all (fun x => validNat x && x != 0) = true := by decide +kernel

/-- every fold-equal partner of a valid rune other than U+FFFD is a valid rune other than U+FFFD -/
theorem orbit_valid (u x : Nat) (hu : validRune u) (hu' : u ≠ 0xFFFD) (h : caseFold x = caseFold u) :
    validRune x ∧ x ≠ 0xFFFD := by
  by_cases hk : x ∈ orbKeys
  · have := List.all_eq_true.mp orbKeys_valid x hk
    simp only [Bool.and_eq_true] at this
    exact validNat_spec x this.1
  · have := (orbit_trivial x u hk).mp h.symm
    subst this; exact ⟨hu, hu'⟩

/-- keys of `_FoldMapExcludingUpperLower` have a `_FoldMap` entry, so a `FoldMap` miss means no extra folds;
    the four title-case specials and İ ı have entries too -/
theorem fme_keys_in_fm : Gen.T121.fmeTree.toList.all (fun e => e.2.2.1 == 0 || (foldMap e.2.1).isSome) = true := by
  decide +kernel
theorem specials_in_fm : (foldMap 0x1C5).isSome ∧ (foldMap 0x1C8).isSome ∧ (foldMap 0x1CB).isSome ∧ (foldMap 0x1F2).isSome ∧
    (foldMap 0x130).isSome ∧ (foldMap 0x131).isSome := by decide +kernel

theorem foldsExcl_of_foldMap_none (u : Nat) (h : foldMap u = none) : (foldsExcl u).1 = 0 := by
  unfold foldsExcl
  rw [forceNat_eq]
  rcases T3.get_mem Gen.T121.fmeTree (hashFME u) with h0 | hm
  · rw [h0]; simp only []; split <;> rfl
  · generalize hg : Gen.T121.fmeTree.get (hashFME u) = g at hm ⊢
    obtain ⟨k, a0, a1⟩ := g
    simp only []
    split
    · rename_i hku
      have := List.all_eq_true.mp fme_keys_in_fm _ hm
      simp only [Bool.or_eq_true, beq_iff_eq] at this
      rcases this with h0 | h1
      · exact h0
      · rw [hku, h] at h1; cases h1
    · rfl

/-- the orbit of a rune without a `FoldMap` entry is its upper/lower pair -/
theorem orbit_of_foldMap_none (u : Nat) (h : foldMap u = none) (x : Nat) :
    (caseFold x == caseFold u) = (x == (toUpperLower u).1 || x == (toUpperLower u).2.1) := by
  have hiff : (caseFold x == caseFold u) = cand u x := by
    cases hcd : cand u x with
    | true => exact beq_iff_eq.mpr ((cand_iff _ _).mp hcd)
    | false =>
      cases hb : caseFold x == caseFold u with
      | false => rfl
      | true => rw [(cand_iff _ _).mpr (beq_iff_eq.mp hb)] at hcd; cases hcd
  rw [hiff]
  have hne : ¬ (u = 0x130 ∨ u = 0x131) := by
    rintro (h1 | h1) <;> subst h1
    · have := specials_in_fm.2.2.2.2.1; rw [h] at this; cases this
    · have := specials_in_fm.2.2.2.2.2; rw [h] at this; cases this
  unfold cand candOf ulOf
  rw [if_neg hne]
  have hf := foldsExcl_of_foldMap_none u h
  simp only [hf, bne_self_eq_false, Bool.false_and, Bool.or_false]

/-- a `ToUpperLower` miss returns the rune itself twice -/
theorem toUpperLower_false (u up lo : Nat) (h : toUpperLower u = (up, lo, false)) : up = u ∧ lo = u := by
  unfold toUpperLower at h
  split at h
  · split at h
    · cases h
    · split at h
      · cases h
      · simp only [Prod.mk.injEq] at h; exact ⟨h.1.symm, h.2.1.symm⟩
  · rw [forceNat_eq] at h
    generalize Gen.T121.ulTree.get (hashUL u) = g at h
    obtain ⟨p0, p1⟩ := g
    simp only [] at h
    split at h
    · cases h
    · unfold toUpperLowerSpecial at h
      repeat' split at h
      all_goals first | (cases h; done) | (simp only [Prod.mk.injEq] at h; exact ⟨h.1.symm, h.2.1.symm⟩)

/-! ### indexRune2 -/

/-- `indexRune2(s, lower, upper)` when `{lower, upper}` is the whole orbit of `lower` -/
theorem indexRune2_firstBy (cfg : Cfg) (s : Bytes) (lo up : Nat)
    (hl : validRune lo) (hl' : lo ≠ 0xFFFD) (hu : validRune up) (hu' : up ≠ 0xFFFD)
    (hpair : ∀ x, (caseFold x == caseFold lo) = (x == lo || x == up)) :
    IsFirstBy (fun x => caseFold x == caseFold lo) s (indexRune2 cfg s lo up) := by
  unfold indexRune2
  by_cases hasc : (lo ||| up) < 0x80
  · rw [if_pos hasc]
    have hlo : lo < 0x80 := by
      have : lo ≤ lo ||| up := Nat.left_le_or
      omega
    have e : lo &&& 0x7F = lo := by
      have : lo &&& 0x7F = lo % 128 := Nat.and_two_pow_sub_one_eq_mod lo 7
      rw [this]; omega
    rw [e]
    have hc : UInt8.ofNat lo < 0x80 := by
      rw [UInt8.lt_iff_toNat_lt, ofNat_toNat_lt lo (by omega)]; simpa using hlo
    have := indexByte_firstBy cfg s (UInt8.ofNat lo) hc
    rw [ofNat_toNat_lt lo (by omega)] at this
    exact this
  · rw [if_neg hasc]
    apply isFirstBy_congr (fun x => x == lo || x == up) _ (fun x => (hpair x).symm)
    have ha := indexRuneCase_firstBy cfg s lo hl hl'
    rw [← runeLen_eq_encode lo hl] at ha
    simp only []
    generalize hn : indexRuneCase cfg s (lo : Int) = n at ha ⊢
    by_cases hc : n ≠ 0 ∧ lo ≠ up
    · rw [if_pos hc]
      have hrange := isFirstBy_range _ _ _ ha
      simp only [] at hrange
      have hs' : (if 0 ≤ n ∧ n < (s.length : Int) then s.take n.toNat else s) =
          (if 0 ≤ (n, runeLen lo).1 then s.take (n, runeLen lo).1.toNat else s) := by
        simp only []
        by_cases hp : 0 ≤ n
        · rw [if_pos hp, if_pos ⟨hp, by omega⟩]
        · rw [if_neg hp, if_neg (fun h => hp h.1)]
      rw [hs']
      have hb := indexRuneCase_firstBy cfg (if 0 ≤ (n, runeLen lo).1 then s.take (n, runeLen lo).1.toNat else s) up hu hu'
      rw [← runeLen_eq_encode up hu] at hb
      generalize indexRuneCase cfg (if 0 ≤ (n, runeLen lo).1 then s.take (n, runeLen lo).1.toNat else s) (up : Int) = o at hb ⊢
      have hor := firstBy_or (· == lo) (· == up) s (n, runeLen lo) (o, runeLen up) ha hb
      simp only [] at hor
      exact hor
    · rw [if_neg hc]
      by_cases hn0 : n = 0
      · exact firstBy_zero _ _ s _ ha hn0
      · have : lo = up := by
          by_cases h : lo = up
          · exact h
          · exact absurd ⟨hn0, h⟩ hc
        subst this
        exact isFirstBy_congr (· == lo) _ (fun x => by simp) s _ ha

/-! ### the FoldMap loop of indexRune -/

/-- the haystack the loop currently searches: truncated at the best hit so far -/
def cur (s0 : Bytes) (n : Int) : Bytes := if 0 ≤ n then s0.take n.toNat else s0

theorem isFirstBy_none_any (P : Nat → Bool) (s : Bytes) (w w' : Nat) (h : IsFirstBy P s (-1, w)) : IsFirstBy P s (-1, w') := by
  rcases h with ⟨_, hn⟩ | ⟨i, h1, _⟩
  · exact Or.inl ⟨rfl, hn⟩
  · simp only [] at h1; omega

theorem foldsLoop_firstBy (cfg : Cfg) (u : Nat) (hu0 : u ≠ 0) : ∀ (ms : List Nat) (P : Nat → Bool) (s0 : Bytes) (n : Int) (size : Nat),
    IsFirstBy P s0 (n, size) →
    (∀ rr ∈ ms, rr ≠ 0 → rr ≠ u → validRune rr ∧ rr ≠ 0xFFFD) →
    IsFirstBy (fun x => P x || ((ms.takeWhile (· != 0)).any fun rr => rr != u && x == rr)) s0
      (foldsLoop cfg u ms (cur s0 n) n size) := by
  intro ms
  induction ms with
  | nil =>
    intro P s0 n size ha _
    simp only [foldsLoop, List.takeWhile_nil, List.any_nil, Bool.or_false]
    exact ha
  | cons rr rest ih =>
    intro P s0 n size ha hval
    have hvalrest : ∀ r' ∈ rest, r' ≠ 0 → r' ≠ u → validRune r' ∧ r' ≠ 0xFFFD :=
      fun r' hr' => hval r' (List.mem_cons_of_mem _ hr')
    simp only [foldsLoop]
    by_cases hru : rr = u
    · rw [if_pos hru]
      have := ih P s0 n size ha hvalrest
      apply isFirstBy_congr _ _ _ s0 _ this
      intro x
      subst hru
      have hne : (rr != 0) = true := bne_iff_ne.mpr hu0
      simp only [List.takeWhile_cons, hne, if_true, List.any_cons, bne_self_eq_false, Bool.false_and, Bool.false_or]
    · rw [if_neg hru]
      by_cases hr0 : rr = 0
      · rw [if_pos hr0]
        apply isFirstBy_congr _ _ _ s0 _ ha
        intro x
        have hne : (rr != 0) = false := by rw [hr0]; rfl
        simp [List.takeWhile_cons, hne]
      · rw [if_neg hr0]
        obtain ⟨hv, hv'⟩ := hval rr (List.mem_cons_self ..) hr0 hru
        have hb := indexRuneCase_firstBy cfg (cur s0 n) rr hv hv'
        rw [← runeLen_eq_encode rr hv] at hb
        generalize ho : indexRuneCase cfg (cur s0 n) (rr : Int) = o at hb ⊢
        have hor := firstBy_or P (· == rr) s0 (n, size) (o, runeLen rr) ha (by simpa [cur] using hb)
        simp only [] at hor
        have hbr := isFirstBy_range _ _ _ hb
        have har := isFirstBy_range _ _ _ ha
        simp only [] at hbr har
        -- predicate bookkeeping
        have hpred : ∀ (Q : Nat → Bool) x, (Q x || (((rr :: rest).takeWhile (· != 0)).any fun r' => r' != u && x == r')) =
            ((Q x || x == rr) || ((rest.takeWhile (· != 0)).any fun r' => r' != u && x == r')) := by
          intro Q x
          have h1 : (rr != 0) = true := bne_iff_ne.mpr hr0
          have h2 : (rr != u) = true := bne_iff_ne.mpr hru
          simp only [List.takeWhile_cons, h1, if_true, List.any_cons, h2, Bool.true_and, Bool.or_assoc]
        by_cases hc : o ≠ -1 ∧ (n = -1 ∨ o < n)
        · rw [if_pos hc]
          have hc' : n = -1 ∨ (0 ≤ o ∧ o < n) := by
            rcases hc.2 with h | h
            · exact Or.inl h
            · right; rcases hbr with h' | h'
              · exact absurd h' hc.1
              · exact ⟨h'.1, h⟩
          rw [if_pos hc'] at hor
          have ho0 : 0 ≤ o := by rcases hbr with h' | h'; exact absurd h' hc.1; exact h'.1
          have hcur : (cur s0 n).take o.toNat = cur s0 o := by
            unfold cur
            rw [if_pos ho0]
            by_cases hn : 0 ≤ n
            · have hlt : o < n := by rcases hc' with h | h; omega; exact h.2
              rw [if_pos hn, List.take_take, Nat.min_eq_left (by omega)]
            · rw [if_neg hn]
          rw [hcur]
          have := ih (fun x => P x || x == rr) s0 o (runeLen rr) hor hvalrest
          apply isFirstBy_congr _ _ _ s0 _ this
          intro x; exact (hpred P x).symm
        · rw [if_neg hc]
          have ha' : IsFirstBy (fun x => P x || x == rr) s0 (n, size) := by
            by_cases hc' : n = -1 ∨ (0 ≤ o ∧ o < n)
            · rw [if_pos hc'] at hor
              -- only possible when both searches found nothing
              have ho : o = -1 := by
                refine Classical.byContradiction fun hne => ?_
                apply hc
                refine ⟨hne, ?_⟩
                rcases hc' with h | h
                · exact Or.inl h
                · exact Or.inr h.2
              have hn : n = -1 := by
                rcases hc' with h | h
                · exact h
                · omega
              subst ho; subst hn
              exact isFirstBy_none_any _ _ _ _ hor
            · rw [if_neg hc'] at hor; exact hor
          have := ih (fun x => P x || x == rr) s0 n size ha' hvalrest
          apply isFirstBy_congr _ _ _ s0 _ this
          intro x; exact (hpred P x).symm

/-! ### indexRune / IndexRune -/

theorem mem_takeWhile_pred {α : Type} (p : α → Bool) : ∀ (l : List α) (x : α), x ∈ l.takeWhile p → p x = true
  | [], x, h => by simp at h
  | a :: l, x, h => by
    simp only [List.takeWhile_cons] at h
    split at h
    · rename_i ha
      rcases List.mem_cons.mp h with rfl | h'
      · exact ha
      · exact mem_takeWhile_pred p l x h'
    · simp at h

theorem validRuneI_spec (r : Int) (h : S.validRuneI r = true) : 0 ≤ r ∧ validRune r.toNat := by
  simpa [S.validRuneI] using h

/-- C10: `indexRune(s, r)` for a valid rune other than U+FFFD: offset of the first code point in the fold
    orbit of `r`, and the width of the code point found there -/
theorem indexRune_firstBy (cfg : Cfg) (s : Bytes) (u : Nat) (hv : validRune u) (hu' : u ≠ 0xFFFD) :
    IsFirstBy (fun x => caseFold x == caseFold u) s (indexRune cfg s (u : Int)) := by
  unfold indexRune
  by_cases h1 : u < 0x80
  · have : (0 : Int) ≤ u ∧ (u : Int) < 0x80 := ⟨by omega, by omega⟩
    rw [if_pos this]
    simp only [Int.toNat_natCast]
    have hc : UInt8.ofNat u < 0x80 := by
      rw [UInt8.lt_iff_toNat_lt, ofNat_toNat_lt u (by omega)]; simpa using h1
    have := indexByte_firstBy cfg s (UInt8.ofNat u) hc
    rw [ofNat_toNat_lt u (by omega)] at this
    exact this
  · have : ¬ ((0 : Int) ≤ u ∧ (u : Int) < 0x80) := by omega
    rw [if_neg this, if_neg (by omega)]
    have hvi : S.validRuneI (u : Int) = true := by
      simp only [S.validRuneI, decide_eq_true_eq]
      exact ⟨by omega, by simpa using hv⟩
    rw [if_neg (by simp [hvi])]
    simp only [Int.toNat_natCast]
    have hu0 : u ≠ 0 := by omega
    cases hfm : foldMap u with
    | some e =>
      obtain ⟨a, b, c, d⟩ := e
      simp only []
      obtain ⟨ha, hz1, hz2, horb⟩ := foldMap_some u a b c d hu0 hfm
      have hirc := indexRuneCase_firstBy cfg s u hv hu'
      rw [← runeLen_eq_encode u hv] at hirc
      generalize hn : indexRuneCase cfg s (u : Int) = n at hirc ⊢
      -- the orbit as the loop enumerates it
      have hpred : ∀ x, (caseFold x == caseFold u) =
          ((x == u) || (([a, b, c, d].takeWhile (· != 0)).any fun rr => rr != u && x == rr)) := by
        intro x
        have hx := horb x
        subst ha
        cases hq : (x == a) || (([a, b, c, d].takeWhile (· != 0)).any fun rr => rr != a && x == rr) with
        | true =>
          apply beq_iff_eq.mpr
          apply hx.mpr
          simp only [Bool.or_eq_true, beq_iff_eq, List.any_eq_true, Bool.and_eq_true, bne_iff_ne, ne_eq] at hq
          rcases hq with h | ⟨rr, hm, hne, hxr⟩
          · exact Or.inl h
          · subst hxr
            have hm' := mem_takeWhile_pred _ _ _ hm
            have hm'' := (List.takeWhile_sublist _).subset hm
            simp only [bne_iff_ne, ne_eq] at hm'
            simp only [List.mem_cons, List.not_mem_nil, or_false] at hm''
            rcases hm'' with h | h | h | h
            · exact absurd h hne
            · exact Or.inr ⟨hm', Or.inl h⟩
            · exact Or.inr ⟨hm', Or.inr (Or.inl h)⟩
            · exact Or.inr ⟨hm', Or.inr (Or.inr h)⟩
        | false =>
          cases hb : caseFold x == caseFold a with
          | false => rfl
          | true =>
            exfalso
            have := hx.mp (beq_iff_eq.mp hb)
            simp only [Bool.or_eq_false_iff, beq_eq_false_iff_ne, ne_eq, List.any_eq_false, Bool.and_eq_true, bne_iff_ne,
              beq_iff_eq, not_and] at hq
            rcases this with h | ⟨hx0, h⟩
            · exact hq.1 h
            · -- x is one of b c d, non-zero, so it survives takeWhile
              have hmem : x ∈ [a, b, c, d].takeWhile (· != 0) := by
                have ha0 : (a != 0) = true := bne_iff_ne.mpr hu0
                rcases h with h | h | h
                · subst h
                  simp [List.takeWhile_cons, ha0, bne_iff_ne.mpr hx0]
                · subst h
                  have hb0 : b ≠ 0 := fun hb0 => hx0 (hz1 hb0).1
                  simp [List.takeWhile_cons, ha0, bne_iff_ne.mpr hb0, bne_iff_ne.mpr hx0]
                · subst h
                  have hc0 : c ≠ 0 := fun hc0 => hx0 (hz2 hc0)
                  have hb0 : b ≠ 0 := fun hb0 => hc0 (hz1 hb0).1
                  simp [List.takeWhile_cons, ha0, bne_iff_ne.mpr hb0, bne_iff_ne.mpr hc0, bne_iff_ne.mpr hx0]
              exact hq.2 x hmem (fun e => hq.1 e) rfl
      apply isFirstBy_congr _ _ (fun x => (hpred x).symm)
      by_cases hn0 : n = 0
      · rw [if_pos hn0]
        have := firstBy_zero (· == u) (fun x => ([a, b, c, d].takeWhile (· != 0)).any fun rr => rr != u && x == rr) s (n, runeLen u) hirc hn0
        rw [hn0] at this; exact this
      · rw [if_neg hn0]
        have hrange := isFirstBy_range _ _ _ hirc
        simp only [] at hrange
        have hs' : (if n > 0 then s.take n.toNat else s) = cur s n := by
          unfold cur
          by_cases hp : n > 0
          · rw [if_pos hp, if_pos (by omega)]
          · rw [if_neg hp, if_neg (by omega)]
        rw [hs']
        apply foldsLoop_firstBy cfg u hu0 [a, b, c, d] (· == u) s n (runeLen u) hirc
        intro rr hrr hr0 hru
        have : caseFold rr = caseFold u := by
          apply (horb rr).mpr
          simp only [List.mem_cons, List.not_mem_nil, or_false] at hrr
          rcases hrr with h | h | h | h
          · rw [h, ha]; exact Or.inl rfl
          · exact Or.inr ⟨hr0, Or.inl h⟩
          · exact Or.inr ⟨hr0, Or.inr (Or.inl h)⟩
          · exact Or.inr ⟨hr0, Or.inr (Or.inr h)⟩
        exact orbit_valid u rr hv hu' this
    | none =>
      simp only []
      have horb := orbit_of_foldMap_none u hfm
      generalize htul : toUpperLower u = tul at horb ⊢
      obtain ⟨up, lo, found⟩ := tul
      simp only [] at horb
      cases found with
      | true =>
        simp only []
        -- the pair is the orbit of u, hence of lo
        have hlo : caseFold lo = caseFold u := by
          have := horb lo; rw [beq_self_eq_true, Bool.or_true] at this; exact beq_iff_eq.mp this
        have hup : caseFold up = caseFold u := by
          have := horb up; rw [beq_self_eq_true, Bool.true_or] at this; exact beq_iff_eq.mp this
        obtain ⟨hlv, hlv'⟩ := orbit_valid u lo hv hu' hlo
        obtain ⟨huv, huv'⟩ := orbit_valid u up hv hu' hup
        have := indexRune2_firstBy cfg s lo up hlv hlv' huv huv' (fun x => by rw [hlo, horb x, Bool.or_comm])
        rw [hlo] at this; exact this
      | false =>
        simp only []
        obtain ⟨e1, e2⟩ := toUpperLower_false u up lo htul
        rw [e1, e2] at horb
        have hirc := indexRuneCase_firstBy cfg s u hv hu'
        rw [← runeLen_eq_encode u hv] at hirc
        apply isFirstBy_congr (· == u) _ _ s _ hirc
        intro x; rw [horb x, Bool.or_self]

/-- C10: `IndexRune(s, r)`, every `int32` value of `r`: −1 for an invalid rune, else the offset of the first
    code point in the fold orbit of `r` (U+FFFD: the first ill-formed byte or encoded U+FFFD) -/
theorem IndexRune_spec (cfg : Cfg) (s : Bytes) (r : Int) :
    (S.validRuneI r = false → IndexRune cfg s r = -1) ∧
    (S.validRuneI r = true → ∃ w, IsFirstBy (fun x => caseFold x == caseFold r.toNat) s (IndexRune cfg s r, w)) := by
  constructor
  · intro hinv
    unfold IndexRune indexRune
    have h1 : ¬ (0 ≤ r ∧ r < 0x80) := by
      rintro ⟨h0, h1⟩
      have : S.validRuneI r = true := by
        simp only [S.validRuneI, decide_eq_true_eq]; exact ⟨h0, Or.inl (by omega)⟩
      rw [this] at hinv; cases hinv
    have h2 : r ≠ 0xFFFD := by
      intro h; subst h
      have : S.validRuneI 0xFFFD = true := by decide
      rw [this] at hinv; cases hinv
    rw [if_neg h1, if_neg h2, if_pos (by simp [hinv])]
  · intro hval
    obtain ⟨h0, hv⟩ := validRuneI_spec r hval
    have hr : r = ((r.toNat : Nat) : Int) := by omega
    by_cases hf : r = 0xFFFD
    · subst hf
      unfold IndexRune indexRune
      rw [if_neg (by omega), if_pos rfl]
      have hfold : ∀ x, (caseFold x == caseFold (0xFFFD : Int).toNat) = (x == 0xFFFD) := by
        intro x
        have h1 : caseFold 0xFFFD = 0xFFFD := caseFold_runeError
        show (caseFold x == caseFold 0xFFFD) = _
        rw [h1]
        cases hx : x == 0xFFFD with
        | true => rw [beq_iff_eq.mp hx, h1]; rfl
        | false =>
          cases hc : caseFold x == 0xFFFD with
          | false => rfl
          | true =>
            exfalso
            have hk : (0xFFFD : Nat) ∉ orbKeys := by decide +kernel
            have := (orbit_trivial 0xFFFD x hk).mp (by rw [h1]; exact beq_iff_eq.mp hc)
            rw [this] at hx; simp at hx
      rcases firstRuneError_correct (s.length + 1) s 0 (by omega) with ⟨he, hnone⟩ | ⟨k, he, hb, hl, hek, hmin⟩
      · refine ⟨1, ?_⟩
        rw [he]; simp only []
        left; refine ⟨by simp, ?_⟩
        intro i hi hil
        show (caseFold (decodeRune (s.drop i)).1 == caseFold (0xFFFD : Int).toNat) = false
        rw [hfold]; exact beq_false_of_ne (hnone i hi hil)
      · refine ⟨(decodeRune (s.drop k)).2, ?_⟩
        rw [he]; simp only [Nat.zero_add]
        have hpos : ((k : Nat) : Int) ≥ 0 := by omega
        rw [if_pos hpos]
        right
        refine ⟨k, rfl, hb, hl, ?_, rfl, ?_⟩
        · show (caseFold (decodeRune (s.drop k)).1 == caseFold (0xFFFD : Int).toNat) = true
          rw [hfold]; exact beq_iff_eq.mpr hek
        · intro j hj hjk
          show (caseFold (decodeRune (s.drop j)).1 == caseFold (0xFFFD : Int).toNat) = false
          rw [hfold]; exact beq_false_of_ne (hmin j hj hjk)
    · have hu' : r.toNat ≠ 0xFFFD := by omega
      refine ⟨(indexRune cfg s r).2, ?_⟩
      have := indexRune_firstBy cfg s r.toNat hv hu'
      rw [← hr] at this
      exact this

end A
