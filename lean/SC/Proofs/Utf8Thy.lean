import SC.Proofs.Basic
namespace Utf8

theorem decodeRune_width_le4 (s : Bytes) : (decodeRune s).2 ≤ 4 := by
  unfold decodeRune
  split
  · simp
  · repeat' split
    all_goals simp

/-- decoding looks at no more bytes than it consumes, except to *reject*:
    if the decode of `x ++ y` fits inside `x`, then `x` alone decodes the same way. -/
theorem decodeRune_append (x y : Bytes) (hx : x ≠ []) (h : (decodeRune (x ++ y)).2 ≤ x.length) :
    decodeRune x = decodeRune (x ++ y) := by
  match x, hx with
  | [b0], _ =>
    simp only [List.cons_append, List.nil_append, decodeRune] at h ⊢
    repeat' split
    all_goals (try (repeat' split at h))
    all_goals (first | rfl | contradiction | (simp at h; done) | (simp_all; done) | (simp_all; rename_i hh; exact (hh _ _ _ _ rfl rfl rfl rfl).elim))
  | [b0, b1], _ =>
    simp only [List.cons_append, List.nil_append, decodeRune] at h ⊢
    repeat' split
    all_goals (try (repeat' split at h))
    all_goals (first | rfl | contradiction | (simp at h; done) | (simp_all; done) | (simp_all; rename_i hh; exact (hh _ _ _ _ rfl rfl rfl rfl).elim))
  | [b0, b1, b2], _ =>
    simp only [List.cons_append, List.nil_append, decodeRune] at h ⊢
    repeat' split
    all_goals (try (repeat' split at h))
    all_goals (first | rfl | contradiction | (simp at h; done) | (simp_all; done) | (simp_all; rename_i hh; exact (hh _ _ _ _ rfl rfl rfl rfl).elim))
  | b0 :: b1 :: b2 :: b3 :: rest, _ =>
    simp only [List.cons_append, decodeRune]

end Utf8

namespace Utf8

/-- a complete multi-byte sequence decodes the same whatever follows it -/
theorem decodeRune_extend (x y : Bytes) (r : Nat) (h : decodeRune x = (r, x.length)) (h2 : 2 ≤ x.length) :
    decodeRune (x ++ y) = (r, x.length) := by
  match x, h2 with
  | [b0, b1], _ =>
    simp only [List.cons_append, List.nil_append, decodeRune, List.length_cons, List.length_nil] at h ⊢
    repeat' split
    all_goals (try (repeat' split at h))
    all_goals (first | rfl | contradiction | (simp at h; done) | (simp_all; done))
  | [b0, b1, b2], _ =>
    simp only [List.cons_append, List.nil_append, decodeRune, List.length_cons, List.length_nil] at h ⊢
    repeat' split
    all_goals (try (repeat' split at h))
    all_goals (first | rfl | contradiction | (simp at h; done) | (simp_all; done))
  | [b0, b1, b2, b3], _ =>
    simp only [List.cons_append, List.nil_append, decodeRune, List.length_cons, List.length_nil] at h ⊢
    repeat' split
    all_goals (try (repeat' split at h))
    all_goals (first | rfl | contradiction | (simp at h; done) | (simp_all; done))
  | b0 :: b1 :: b2 :: b3 :: b4 :: rest, _ =>
    exfalso
    have := decodeRune_width_le4 (b0 :: b1 :: b2 :: b3 :: b4 :: rest)
    rw [h] at this; simp at this
end Utf8

namespace Utf8

/-- truncating the look-ahead does not change a decode that fits in `x` -/
theorem decodeRune_trunc (x y y' : Bytes) (hx : x ≠ []) (hy : y' <+: y)
    (h : (decodeRune (x ++ y)).2 ≤ x.length) : decodeRune (x ++ y') = decodeRune (x ++ y) := by
  have hp : decodeRune x = decodeRune (x ++ y) := decodeRune_append x y hx h
  by_cases hq : (decodeRune (x ++ y')).2 ≤ x.length
  · rw [← decodeRune_append x y' hx hq, hp]
  · exfalso
    -- the decode of x ++ y' is a complete multi-byte sequence longer than x
    have hq' : x.length < (decodeRune (x ++ y')).2 := by omega
    have hxl : 1 ≤ x.length := by cases x <;> simp_all
    obtain ⟨w, hw⟩ : ∃ w, w = (decodeRune (x ++ y')).2 := ⟨_, rfl⟩
    rw [← hw] at hq'
    have hwle : w ≤ (x ++ y').length := by rw [hw]; exact decodeRune_width_le _
    let x2 := (x ++ y').take w
    have hx2len : x2.length = w := by
      simp only [x2, List.length_take]; omega
    have hx2 : decodeRune x2 = decodeRune (x ++ y') := by
      have e : x ++ y' = x2 ++ (x ++ y').drop w := (List.take_append_drop w _).symm
      have : (decodeRune (x2 ++ (x ++ y').drop w)).2 ≤ x2.length := by rw [← e, hx2len, ← hw]; exact Nat.le_refl _
      have hne : x2 ≠ [] := by intro h0; rw [h0] at hx2len; simp at hx2len; omega
      rw [decodeRune_append x2 _ hne this, ← e]
    obtain ⟨z, hz⟩ := hy
    -- x ++ y = x2 ++ rest
    have e2 : x ++ y = x2 ++ ((x ++ y').drop w ++ z) := by
      rw [← List.append_assoc, List.take_append_drop, ← hz, List.append_assoc]
    have hfull : decodeRune x2 = ((decodeRune (x ++ y')).1, x2.length) := by
      rw [hx2, hx2len, hw]
    have := decodeRune_extend x2 ((x ++ y').drop w ++ z) _ hfull (by rw [hx2len]; omega)
    rw [← e2] at this
    rw [this, hx2len] at h
    omega


theorem offAt_zero (s : Bytes) : offAt s 0 = 0 := by simp [offAt]

theorem offAt_succ_cons (b : UInt8) (s : Bytes) (k : Nat) :
    offAt (b :: s) (k+1) = (decodeRune (b :: s)).2 + offAt ((b :: s).drop (decodeRune (b :: s)).2) k := by
  simp [offAt, dec_cons b s]

theorem dec_nil : dec [] = [] := by simp [dec, decSkip]

/-- Lemma A: dropping at a boundary drops segments -/
theorem dec_drop_offAt (s : Bytes) (k : Nat) : dec (s.drop (offAt s k)) = (dec s).drop k := by
  induction k generalizing s with
  | zero => simp [offAt_zero]
  | succ k ih =>
    cases s with
    | nil => simp [dec_nil]
    | cons b s =>
      rw [offAt_succ_cons, ← List.drop_drop, ih, dec_cons b s]
      simp

theorem offAt_le (s : Bytes) (k : Nat) : offAt s k ≤ s.length := by
  induction k generalizing s with
  | zero => simp [offAt_zero]
  | succ k ih =>
    cases s with
    | nil => simp [offAt, dec_nil]
    | cons b s =>
      rw [offAt_succ_cons]
      have h1 := decodeRune_width_le (b :: s)
      have h2 := ih ((b :: s).drop (decodeRune (b :: s)).2)
      simp only [List.length_drop] at h2
      omega

/-- Lemma B: truncating at a boundary truncates the segment list (arbitrary bytes) -/
theorem dec_take_offAt (s : Bytes) (k : Nat) : dec (s.take (offAt s k)) = (dec s).take k := by
  induction k generalizing s with
  | zero => simp [offAt_zero, dec_nil]
  | succ k ih =>
    cases s with
    | nil => simp [dec_nil]
    | cons b s =>
      have hw1 := decodeRune_width_pos b s
      have hwl := decodeRune_width_le (b :: s)
      generalize hwdef : (decodeRune (b :: s)).2 = w at hw1 hwl
      let x := (b :: s).take w
      let y := (b :: s).drop w
      have hxy : b :: s = x ++ y := (List.take_append_drop w _).symm
      have hxlen : x.length = w := by
        simp only [x, List.length_take]; omega
      have hxne : x ≠ [] := by intro h0; rw [h0] at hxlen; simp at hxlen; omega
      rw [offAt_succ_cons, hwdef]
      have ho := offAt_le y k
      -- (b::s).take (w + o) = x ++ y.take o
      have htake : (b :: s).take (w + offAt y k) = x ++ y.take (offAt y k) := by
        conv => lhs; rw [hxy]
        rw [List.take_append, hxlen]
        rw [List.take_of_length_le (by omega : x.length ≤ w + offAt y k)]
        congr 1
        simp
      rw [htake]
      -- first segment unchanged by the truncation
      have hfit : (decodeRune (x ++ y)).2 ≤ x.length := by rw [← hxy, hwdef, hxlen]; exact Nat.le_refl _
      have hfirst : decodeRune (x ++ y.take (offAt y k)) = decodeRune (b :: s) := by
        rw [decodeRune_trunc x y _ hxne (List.take_prefix _ _) hfit, ← hxy]
      -- unfold dec on both sides
      obtain ⟨c, x', hx'⟩ : ∃ c x', x = c :: x' := by
        cases hx : x with
        | nil => exact absurd hx hxne
        | cons c x' => exact ⟨c, x', rfl⟩
      have hcons : x ++ y.take (offAt y k) = c :: (x' ++ y.take (offAt y k)) := by rw [hx']; rfl
      rw [hcons, dec_cons, ← hcons, hfirst, hwdef, dec_cons b s, hwdef]
      simp only [List.take_succ_cons]
      congr 1
      -- the rest: drop w of (x ++ y.take o) = y.take o
      have hdrop : (x ++ y.take (offAt y k)).drop w = y.take (offAt y k) := by
        rw [List.drop_append, hxlen]; simp [List.drop_of_length_le (Nat.le_of_eq hxlen)]
      rw [hdrop]
      exact ih y
end Utf8
