import SC.Proofs.RIndex2
import SC.Proofs.Brute
/-!
`bruteForceIndexUnicode` (three variants, with the initial exact search of the caseless variant) returns
the leftmost match — every haystack, every needle of at least two code points, both packages.
-/
namespace A
open Utf8 Fold

def BEnv.toU (E : BEnv) : Utf8.BEnv := ⟨E.cand0, E.cand1, E.skipOK, E.hp, E.t⟩

/-- within the window `t ≤ len(s)` the bounds tests of the model never fire, so the model's loop is the
    proved loop (whenever the latter does not run out of fuel) -/
theorem bruteLoop_bridge (E : BEnv) (s : Bytes) (ht : E.t ≤ s.length) :
    ∀ fuel i, Utf8.bruteLoop E.toU s fuel i ≠ -2 → bruteLoop E s fuel i = Utf8.bruteLoop E.toU s fuel i := by
  obtain ⟨c0, c1, sk, hp, t⟩ := E
  dsimp only [BEnv.toU] at ht ⊢
  generalize hE : (⟨c0, c1, sk, hp, t⟩ : BEnv) = E
  generalize hU : (⟨c0, c1, sk, hp, t⟩ : Utf8.BEnv) = U
  have e0 : U.cand0 = E.cand0 := by rw [← hE, ← hU]
  have e1 : U.cand1 = E.cand1 := by rw [← hE, ← hU]
  have e2 : U.skipOK = E.skipOK := by rw [← hE, ← hU]
  have e3 : U.hp = E.hp := by rw [← hE, ← hU]
  have e4 : U.t = E.t := by rw [← hE, ← hU]
  have ht : E.t ≤ s.length := by rw [← hE]; exact ht
  clear hE hU
  intro fuel
  induction fuel with
  | zero => intro i h; simp [Utf8.bruteLoop] at h
  | succ fuel ih =>
    intro i h
    simp only [bruteLoop, Utf8.bruteLoop, e0, e1, e2, e3, e4] at h ⊢
    by_cases hit : i < E.t
    · rw [if_pos hit] at h
      rw [if_pos hit, if_pos hit, if_neg (by omega)]
      by_cases hc0 : E.cand0 (decodeRune (s.drop i)).1 = false
      · rw [if_pos hc0] at h
        rw [if_pos hc0, if_pos hc0]; exact ih _ h
      · rw [if_neg hc0] at h
        rw [if_neg hc0, if_neg hc0]
        by_cases hge : i + (decodeRune (s.drop i)).2 ≥ E.t
        · rw [if_pos hge, if_pos hge]
        · rw [if_neg hge] at h
          rw [if_neg hge, if_neg hge, if_neg (by omega)]
          by_cases hc1 : E.cand1 (decodeRune (s.drop (i + (decodeRune (s.drop i)).2))).1 = false
          · rw [if_pos hc1] at h
            rw [if_pos hc1, if_pos hc1]; exact ih _ h
          · rw [if_neg hc1] at h
            rw [if_neg hc1, if_neg hc1]
            have hw := decodeRune_width_le (s.drop (i + (decodeRune (s.drop i)).2))
            simp only [List.length_drop] at hw
            rw [if_neg (by omega)]
            by_cases hm : (E.hp (s.drop (i + (decodeRune (s.drop i)).2 + (decodeRune (s.drop (i + (decodeRune (s.drop i)).2))).2))).1 = true
            · rw [if_pos hm, if_pos hm]
            · rw [if_neg hm] at h
              rw [if_neg hm, if_neg hm]
              by_cases hx : (E.hp (s.drop (i + (decodeRune (s.drop i)).2 + (decodeRune (s.drop (i + (decodeRune (s.drop i)).2))).2))).2 = true
              · rw [if_pos hx, if_pos hx]
              · rw [if_neg hx] at h
                rw [if_neg hx, if_neg hx]; exact ih _ h
    · rw [if_neg hit, if_neg hit]

theorem isIndex_ne_m2 (fold : Nat → Nat) (s sub : Bytes) (r : Int) (h : IsIndex fold s sub r) : r ≠ -2 := by
  rcases h with ⟨h, _⟩ | ⟨i, h, _⟩ <;> omega

/-- B: with `t = min(len s, len s + 2 − n/3)` (as the code computes it) a match at boundary `i` has its
    second rune below `t` — for the real fold table, arbitrary bytes -/
theorem window_bound' (s sub : Bytes) (f0 f1 : Nat) (fn : List Nat)
    (hsub : fdec caseFold sub = f0 :: f1 :: fn)
    (i : Nat) (hi : IsBoundary s i) (hm : Match caseFold (s.drop i) sub) :
    i + (decodeRune (s.drop i)).2 < min s.length (s.length + 2 - sub.length / 3) := by
  have hW := widthRel_caseFold s sub
  have hmi := (match_iff caseFold (s.drop i) sub f0 f1 fn hsub).mp hm
  obtain ⟨hx0, _, hx1, _, _⟩ := hmi
  cases hx : s.drop i with
  | nil => exact absurd hx hx0
  | cons c xr =>
    cases hs : sub with
    | nil => rw [hs, fdec_nil'] at hsub; cases hsub
    | cons d sr =>
      have hm' : fdec caseFold sub <+: fdec caseFold (s.drop i) := hm
      rw [hx, hs, fdec_cons', fdec_cons'] at hm'
      have htail := (List.cons_prefix_cons.mp hm').2
      have hWt : ∀ p ∈ dec ((d :: sr).drop (decodeRune (d :: sr)).2), ∀ q ∈ dec ((c :: xr).drop (decodeRune (c :: xr)).2),
          caseFold p.1 = caseFold q.1 → p.2 ≤ 3 * q.2 := by
        intro p hp q hq hpq
        apply hW p _ q _ hpq
        · rw [hs, dec_cons]; exact List.mem_cons_of_mem _ hp
        · apply mem_dec_drop s i hi
          rw [hx, dec_cons]; exact List.mem_cons_of_mem _ hq
      have hlen := wsum_le_of_prefix caseFold _ _ (by simpa [fdec] using htail) hWt
      rw [wsum_dec, wsum_dec] at hlen
      simp only [List.length_drop] at hlen
      have h4 := decodeRune_width_le4 (d :: sr)
      have hwd := decodeRune_width_le (d :: sr)
      have hwc := decodeRune_width_le (c :: xr)
      have hxl : (c :: xr).length = s.length - i := by rw [← hx]; simp
      have hsl : (d :: sr).length = sub.length := by rw [hs]
      have hile := isBoundary_le s i hi
      rw [hx] at hx1
      have hx1len : 0 < ((c :: xr).drop (decodeRune (c :: xr)).2).length := List.length_pos_iff.mpr hx1
      simp only [List.length_drop] at hx1len
      omega

/-- the candidate tests the three variants build are the table-driven `cand` -/
theorem ulHack_eq (u : Nat) : ulHack u = ulOf u := rfl

theorem cand_variant3 (u r : Nat) :
    (r == (ulHack u).1 || r == (ulHack u).2 || (decide ((foldsExcl u).1 ≠ 0) && (r == (foldsExcl u).1 || r == (foldsExcl u).2))) = cand u r := by
  unfold cand candOf
  rw [ulHack_eq]
  congr 2
  cases h : (foldsExcl u).1 != 0 <;> simp_all

theorem cand_fold (u r : Nat) : cand u r = true ↔ caseFold r = caseFold u := cand_iff u r

/-- a needle of at least two code points: first two folded runes, then the rest -/
theorem needle_split (sub : Bytes) (h2 : (decodeRune sub).2 < sub.length) :
    fdec caseFold sub = caseFold (decodeRune sub).1 :: caseFold (decodeRune (sub.drop (decodeRune sub).2)).1 ::
      fdec caseFold (sub.drop ((decodeRune sub).2 + (decodeRune (sub.drop (decodeRune sub).2)).2)) := by
  cases sub with
  | nil => simp at h2
  | cons c p =>
    rw [fdec_cons']
    cases hd : (c :: p).drop (decodeRune (c :: p)).2 with
    | nil =>
      have := congrArg List.length hd
      simp only [List.length_drop, List.length_nil] at this
      omega
    | cons d q =>
      rw [fdec_cons', ← hd, List.drop_drop]

/-- the common part of the three variants: a loop environment whose candidate tests are the table-driven
    ones, started at a boundary with nothing to its left -/
theorem bruteLoop_isIndex (cfg : Cfg) (s sub : Bytes) (h2 : (decodeRune sub).2 < sub.length) (E : BEnv)
    (ht : E.t = min s.length (s.length + 2 - sub.length / 3))
    (hhp : E.hp = fun y => hasPrefixUnicode cfg y (sub.drop ((decodeRune sub).2 + (decodeRune (sub.drop (decodeRune sub).2)).2)))
    (hc0 : ∀ r, E.cand0 r = cand (decodeRune sub).1 r)
    (hc1 : ∀ r, E.cand1 r = cand (decodeRune (sub.drop (decodeRune sub).2)).1 r)
    (hskip : ∀ r, E.skipOK r = true → E.cand0 r = false)
    (i0 : Nat) (hb : IsBoundary s i0) (hbefore : ∀ j, IsBoundary s j → j < i0 → ¬ Match caseFold (s.drop j) sub) :
    IsIndex caseFold s sub (bruteLoop E s (s.length + 2) i0) := by
  have hsplit := needle_split sub h2
  have H : Utf8.BHyp caseFold E.toU s sub (caseFold (decodeRune sub).1) (caseFold (decodeRune (sub.drop (decodeRune sub).2)).1)
      (fdec caseFold (sub.drop ((decodeRune sub).2 + (decodeRune (sub.drop (decodeRune sub).2)).2))) := by
    refine ⟨?_, hsplit, ?_, ?_, ?_, ?_, ?_⟩
    · show E.t ≤ s.length; rw [ht]; exact Nat.min_le_left _ _
    · intro r; show E.cand0 r = true ↔ _; rw [hc0]; exact cand_iff _ _
    · intro r; show E.cand1 r = true ↔ _; rw [hc1]; exact cand_iff _ _
    · exact hskip
    · intro i hi hm
      show _ < E.t
      rw [ht]; exact window_bound' s sub _ _ _ hsplit i hi hm
    · intro y
      have he : E.toU.hp y = hasPrefixUnicode cfg y (sub.drop ((decodeRune sub).2 + (decodeRune (sub.drop (decodeRune sub).2)).2)) := by
        show E.hp y = _; rw [hhp]
      rw [he]; exact hasPrefixUnicode_contract cfg y _
  have hcorrect := Utf8.bruteLoop_correct H (s.length + 2) i0 hb (by omega) hbefore
  rw [bruteLoop_bridge E s (by rw [ht]; exact Nat.min_le_left _ _) _ _ (isIndex_ne_m2 _ _ _ _ hcorrect)]
  exact hcorrect

/-- a decode to a rune other than U+FFFD consumed exactly that rune's encoding -/
theorem take_eq_encode (x : Bytes) (r : Nat) (hx : x ≠ []) (h : (decodeRune x).1 = r) (hr : r ≠ 0xFFFD) :
    (decodeRune x).2 = (encode r).length ∧ x.take (encode r).length = encode r := by
  have hd := decode_of_rune x r hx h hr
  have hv : validRune r := by rw [← h]; exact decodeRune_valid x hx
  have hgood : 2 ≤ (encode r).length ∨ r < 0x80 := by
    by_cases hlt : r < 0x80
    · exact Or.inr hlt
    · exact Or.inl (encode_multi r (by omega) hv).1
  have := (encode_decode x r _ hd hgood).1
  exact ⟨by rw [hd], this⟩

/-- the caseless variant's initial `strings.Index(s, substr[:sz0+sz1])`: when the first two needle runes
    have singleton orbits (and are not U+FFFD), a match starts with exactly those bytes -/
theorem exact_pair_occurs (s sub : Bytes) (h2 : (decodeRune sub).2 < sub.length)
    (hu0 : (decodeRune sub).1 ≠ 0xFFFD) (hu1 : (decodeRune (sub.drop (decodeRune sub).2)).1 ≠ 0xFFFD)
    (horb0 : ∀ r, cand (decodeRune sub).1 r = (r == (decodeRune sub).1))
    (horb1 : ∀ r, cand (decodeRune (sub.drop (decodeRune sub).2)).1 r = (r == (decodeRune (sub.drop (decodeRune sub).2)).1))
    (x : Bytes) (hm : Match caseFold x sub) :
    sub.take ((decodeRune sub).2 + (decodeRune (sub.drop (decodeRune sub).2)).2) <+: x := by
  have hsplit := needle_split sub h2
  obtain ⟨hx0, hf0, hx1, hf1, _⟩ := (match_iff caseFold x sub _ _ _ hsplit).mp hm
  have hsne : sub ≠ [] := by intro h; subst h; simp at h2
  have hs1ne : sub.drop (decodeRune sub).2 ≠ [] := by
    intro h; have := congrArg List.length h; simp only [List.length_drop, List.length_nil] at this; omega
  -- the haystack runes are the needle runes themselves
  have hr0 : (decodeRune x).1 = (decodeRune sub).1 := by
    have := (cand_iff (decodeRune sub).1 (decodeRune x).1).mpr hf0
    rw [horb0] at this; exact beq_iff_eq.mp this
  have hr1 : (decodeRune (x.drop (decodeRune x).2)).1 = (decodeRune (sub.drop (decodeRune sub).2)).1 := by
    have := (cand_iff _ _).mpr hf1
    rw [horb1] at this; exact beq_iff_eq.mp this
  obtain ⟨hw0x, ht0x⟩ := take_eq_encode x _ hx0 hr0 hu0
  obtain ⟨hw0s, ht0s⟩ := take_eq_encode sub _ hsne rfl hu0
  obtain ⟨hw1x, ht1x⟩ := take_eq_encode _ _ hx1 hr1 hu1
  obtain ⟨hw1s, ht1s⟩ := take_eq_encode _ _ hs1ne rfl hu1
  rw [hw0x, ← hw0s] at ht1x hw1x hx1
  have hxe : x.take ((decodeRune sub).2 + (decodeRune (sub.drop (decodeRune sub).2)).2) =
      sub.take ((decodeRune sub).2 + (decodeRune (sub.drop (decodeRune sub).2)).2) := by
    rw [List.take_add, List.take_add, hw0s, ht0x, ht0s, ← hw0s, hw1s, ht1x, ht1s]
  rw [← hxe]; exact List.take_prefix _ _

/-- C01: `bruteForceIndexUnicode` returns the leftmost match (needle of at least two code points) -/
theorem bruteForce_isIndex (cfg : Cfg) (s sub : Bytes) (h2 : (decodeRune sub).2 < sub.length) :
    IsIndex caseFold s sub (bruteForceIndexUnicode cfg s sub) := by
  have hsne : sub ≠ [] := by intro h; subst h; simp at h2
  unfold bruteForceIndexUnicode
  rw [if_neg (by intro h; exact hsne (List.length_eq_zero_iff.mp h)), if_neg (by omega)]
  simp only []
  have hz : ∀ u, (foldsExcl u).1 = 0 → ∀ r, cand u r = (r == (ulHack u).1 || r == (ulHack u).2) := by
    intro u h r
    rw [← cand_variant3, h]; simp
  by_cases hv1 : ¬ (foldsExcl (decodeRune sub).1).1 ≠ 0 ∧ (ulHack (decodeRune sub).1).1 = (ulHack (decodeRune sub).1).2 ∧
      ¬ (foldsExcl (decodeRune (sub.drop (decodeRune sub).2)).1).1 ≠ 0 ∧
      (ulHack (decodeRune (sub.drop (decodeRune sub).2)).1).1 = (ulHack (decodeRune (sub.drop (decodeRune sub).2)).1).2
  · rw [if_pos hv1]
    obtain ⟨hf0, hul0, hf1, hul1⟩ := hv1
    have hf0' : (foldsExcl (decodeRune sub).1).1 = 0 := Decidable.not_not.mp hf0
    have hf1' : (foldsExcl (decodeRune (sub.drop (decodeRune sub).2)).1).1 = 0 := Decidable.not_not.mp hf1
    have hc0 : ∀ r, cand (decodeRune sub).1 r = (r == (ulHack (decodeRune sub).1).1) := by
      intro r; rw [hz _ hf0', ← hul0, Bool.or_self]
    have hc1 : ∀ r, cand (decodeRune (sub.drop (decodeRune sub).2)).1 r = (r == (ulHack (decodeRune (sub.drop (decodeRune sub).2)).1).1) := by
      intro r; rw [hz _ hf1', ← hul1, Bool.or_self]
    -- the rune itself is a candidate, so the single candidate is the rune
    have hself0 : (ulHack (decodeRune sub).1).1 = (decodeRune sub).1 := by
      have := (cand_iff (decodeRune sub).1 (decodeRune sub).1).mpr rfl
      rw [hc0] at this; exact (beq_iff_eq.mp this).symm
    have hself1 : (ulHack (decodeRune (sub.drop (decodeRune sub).2)).1).1 = (decodeRune (sub.drop (decodeRune sub).2)).1 := by
      have := (cand_iff _ (decodeRune (sub.drop (decodeRune sub).2)).1).mpr rfl
      rw [hc1] at this; exact (beq_iff_eq.mp this).symm
    by_cases hne : (ulHack (decodeRune sub).1).1 ≠ runeError ∧ (ulHack (decodeRune (sub.drop (decodeRune sub).2)).1).1 ≠ runeError
    · rw [if_pos hne]
      have hocc := exact_pair_occurs s sub h2 (by rw [← hself0]; exact hne.1) (by rw [← hself1]; exact hne.2)
        (by intro r; rw [hc0, hself0]) (by intro r; rw [hc1, hself1])
      rcases bytesIndex_isFirstOcc s (sub.take ((decodeRune sub).2 + (decodeRune (sub.drop (decodeRune sub).2)).2)) with ⟨hi0, hnone⟩ | ⟨k, hi0, hkl, hkocc, hkmin⟩
      · rw [hi0]
        rw [if_pos (by omega)]
        left; refine ⟨rfl, ?_⟩
        intro j hj hm
        exact hnone j (isBoundary_le s j hj) (hocc _ hm)
      · rw [hi0, if_neg (by omega)]
        simp only [Int.toNat_natCast]
        -- the hit is a boundary: it starts with the encoding of the first needle rune
        have hkb : IsBoundary s k := by
          have hv0 : validRune (decodeRune sub).1 := decodeRune_valid sub hsne
          obtain ⟨hw0s, ht0s⟩ := take_eq_encode sub _ hsne rfl (by rw [← hself0]; exact hne.1)
          have hpre : encode (decodeRune sub).1 <+: s.drop k := by
            refine List.IsPrefix.trans ?_ hkocc
            rw [← ht0s, ← hw0s]
            rw [List.prefix_take_iff]
            exact ⟨List.take_prefix _ _, by simp; omega⟩
          exact ((occurs_iff_rune_at s _ hv0 k).mp hpre).1
        apply bruteLoop_isIndex cfg s sub h2 _ rfl rfl _ _ _ k hkb
        · intro j hj hjk hm; exact hkmin j hjk (hocc _ hm)
        · intro r; exact (hc0 r).symm
        · intro r; exact (hc1 r).symm
        · intro r hr
          simp only [bne_iff_ne, ne_eq] at hr
          exact beq_false_of_ne hr
    · rw [if_neg hne, if_neg (by omega)]
      simp only [Int.toNat_zero]
      apply bruteLoop_isIndex cfg s sub h2 _ rfl rfl _ _ _ 0 (isBoundary_zero s) (fun j _ hj => by omega)
      · intro r; exact (hc0 r).symm
      · intro r; exact (hc1 r).symm
      · intro r hr
        simp only [bne_iff_ne, ne_eq] at hr
        exact beq_false_of_ne hr
  · rw [if_neg hv1]
    by_cases hv2 : ¬ (foldsExcl (decodeRune sub).1).1 ≠ 0 ∧ ¬ (foldsExcl (decodeRune (sub.drop (decodeRune sub).2)).1).1 ≠ 0
    · rw [if_pos hv2]
      have hf0' : (foldsExcl (decodeRune sub).1).1 = 0 := Decidable.not_not.mp hv2.1
      have hf1' : (foldsExcl (decodeRune (sub.drop (decodeRune sub).2)).1).1 = 0 := Decidable.not_not.mp hv2.2
      apply bruteLoop_isIndex cfg s sub h2 _ rfl rfl _ _ _ 0 (isBoundary_zero s) (fun j _ hj => by omega)
      · intro r; exact (hz _ hf0' r).symm
      · intro r; exact (hz _ hf1' r).symm
      · intro r hr
        simp only [Bool.and_eq_true, bne_iff_ne, ne_eq] at hr
        simp [hr.1, hr.2]
    · rw [if_neg hv2]
      apply bruteLoop_isIndex cfg s sub h2 _ rfl rfl _ _ _ 0 (isBoundary_zero s) (fun j _ hj => by omega)
      · intro r; exact cand_variant3 _ r
      · intro r; exact cand_variant3 _ r
      · intro r hr
        simp only [Bool.and_eq_true, Bool.not_eq_true', decide_eq_false_iff_not, bne_iff_ne, ne_eq] at hr
        obtain ⟨⟨h1, h2'⟩, h3⟩ := hr
        simp [h1, h2', h3]

end A
