import SC.Proofs.FoldOrb
import SC.Proofs.Bound
namespace Utf8
open A
open Fold

/-- facts about one decoded segment that the ×3 width relation needs -/
theorem decodeRune_w4 (x : Bytes) (h : (decodeRune x).2 = 4) : 0x10000 ≤ (decodeRune x).1 := by
  have k1 : ∀ b1 : UInt8, 0x90 ≤ b1 → 0x10 ≤ b1.toNat &&& 0x3F ∨ 0xC0 ≤ b1 := by decide +kernel
  have k0 : ∀ b0 : UInt8, ¬ b0 < 0xF0 → b0 < 0xF5 → (b0 == 0xF0) = false → 1 ≤ b0.toNat &&& 0x07 := by decide +kernel
  have kc : ∀ b1 : UInt8, isCont b1 = true → ¬ 0xC0 ≤ b1 := by decide +kernel
  match x with
  | [] => simp [decodeRune] at h
  | [a] => have := decodeRune_width_le [a]; simp at this; omega
  | [a, b] => have := decodeRune_width_le [a, b]; simp at this; omega
  | [a, b, c] => have := decodeRune_width_le [a, b, c]; simp at this; omega
  | b0 :: b1 :: b2 :: b3 :: tl =>
    simp only [decodeRune] at h ⊢
    by_cases c1 : b0 < 0x80
    · simp [c1] at h
    simp only [c1, if_false] at h ⊢
    by_cases c2 : b0 < 0xC2
    · simp [c2] at h
    simp only [c2, if_false] at h ⊢
    by_cases c3 : b0 < 0xE0
    · simp only [c3, if_true] at h; split at h <;> simp at h
    simp only [c3, if_false] at h ⊢
    by_cases c4 : b0 < 0xF0
    · simp only [c4, if_true] at h; split at h <;> simp at h
    simp only [c4, if_false] at h ⊢
    by_cases c5 : ¬ b0 < 0xF5
    · simp [c5] at h
    have c5 : b0 < 0xF5 := Classical.not_not.mp c5
    simp only [c5, if_true] at h ⊢
    by_cases hc : ¬ (accept b0 b1 && isCont b2 && isCont b3) = true
    · simp [hc] at h
    have hc : (accept b0 b1 && isCont b2 && isCont b3) = true := Classical.not_not.mp hc
    simp only [hc, if_true] at h ⊢
    simp only [Bool.and_eq_true] at hc
    have hacc := hc.1.1
    have hb1c := accept_isCont _ _ hacc
    by_cases hf0 : (b0 == 0xF0) = true
    · -- b0 = F0: accept forces b1 ≥ 0x90
      have hlo : (0x90 : UInt8) ≤ b1 := by
        simp only [accept, Bool.and_eq_true, decide_eq_true_eq] at hacc
        have := hacc.1
        have e : b0 = 0xF0 := by simpa using hf0
        subst e
        simpa using this
      rcases k1 b1 hlo with h1 | h1
      · have : 0x10 <<< 12 ≤ (b1.toNat &&& 0x3F) <<< 12 := by
          simp only [Nat.shiftLeft_eq]; exact Nat.mul_le_mul_right _ h1
        have h2 : (b1.toNat &&& 0x3F) <<< 12 ≤ (b0.toNat &&& 7) <<< 18 ||| (b1.toNat &&& 63) <<< 12 := Nat.right_le_or
        have h3 : (b0.toNat &&& 7) <<< 18 ||| (b1.toNat &&& 63) <<< 12 ≤ ((b0.toNat &&& 7) <<< 18 ||| (b1.toNat &&& 63) <<< 12) ||| (b2.toNat &&& 63) <<< 6 := Nat.left_le_or
        have h4 : ((b0.toNat &&& 7) <<< 18 ||| (b1.toNat &&& 63) <<< 12) ||| (b2.toNat &&& 63) <<< 6 ≤ (((b0.toNat &&& 7) <<< 18 ||| (b1.toNat &&& 63) <<< 12) ||| (b2.toNat &&& 63) <<< 6) ||| (b3.toNat &&& 63) := Nat.left_le_or
        have : (0x10 : Nat) <<< 12 = 0x10000 := by decide
        omega
      · exact absurd h1 (kc b1 hb1c)
    · have hf0' : (b0 == 0xF0) = false := by simpa using hf0
      have h1 := k0 b0 c4 c5 hf0'
      have : 1 <<< 18 ≤ (b0.toNat &&& 7) <<< 18 := by
        simp only [Nat.shiftLeft_eq]; exact Nat.mul_le_mul_right _ h1
      have h2 : (b0.toNat &&& 7) <<< 18 ≤ (b0.toNat &&& 7) <<< 18 ||| (b1.toNat &&& 63) <<< 12 := Nat.left_le_or
      have h3 : (b0.toNat &&& 7) <<< 18 ||| (b1.toNat &&& 63) <<< 12 ≤ ((b0.toNat &&& 7) <<< 18 ||| (b1.toNat &&& 63) <<< 12) ||| (b2.toNat &&& 63) <<< 6 := Nat.left_le_or
      have h4 : ((b0.toNat &&& 7) <<< 18 ||| (b1.toNat &&& 63) <<< 12) ||| (b2.toNat &&& 63) <<< 6 ≤ (((b0.toNat &&& 7) <<< 18 ||| (b1.toNat &&& 63) <<< 12) ||| (b2.toNat &&& 63) <<< 6) ||| (b3.toNat &&& 63) := Nat.left_le_or
      have : (1 : Nat) <<< 18 = 0x40000 := by decide
      omega
end Utf8

namespace Utf8
open A
open Fold

theorem decodeRune_w1 (x : Bytes) (h : (decodeRune x).2 = 1) :
    (decodeRune x).1 < 0x80 ∨ (decodeRune x).1 = 0xFFFD := by
  have kb : ∀ b : UInt8, b < 0x80 → b.toNat < 0x80 := by decide +kernel
  generalize hp : decodeRune x = p at h ⊢
  unfold decodeRune at hp
  split at hp
  · subst hp; simp at h
  · repeat' split at hp
    all_goals subst hp
    all_goals (first | (right; rfl) | (simp at h; done) | (left; apply kb; assumption))

theorem mem_dec_decode : ∀ (n : Nat) (x : Bytes), x.length ≤ n → ∀ q ∈ dec x, ∃ y, y ≠ [] ∧ q = decodeRune y := by
  intro n
  induction n with
  | zero =>
    intro x hx q hq
    have : x = [] := by cases x <;> simp_all
    subst this; rw [dec_nil] at hq; cases hq
  | succ n ih =>
    intro x hx q hq
    cases x with
    | nil => rw [dec_nil] at hq; cases hq
    | cons b x =>
      rw [dec_cons] at hq
      rcases List.mem_cons.mp hq with h | h
      · exact ⟨b :: x, by simp, h⟩
      · have hw := decodeRune_width_pos b x
        exact ih _ (by simp only [List.length_drop, List.length_cons] at hx ⊢; omega) q h

/-- table facts, by the generic "a look-up that changes its argument returned a stored entry" + a linear check -/
def cfEntriesOK : Bool :=
  Gen.T121.cfTree.toList.all fun e => (e.2.1 < 0x10000 || 0x10000 ≤ e.2.2) && (0x80 ≤ e.2.1 || e.2.2 < 0x80)

theorem cfEntriesOK_true : cfEntriesOK = true := by decide +kernel

theorem caseFold_entry (r : Nat) (h : caseFold r ≠ r) :
    (r < 0x10000 ∨ 0x10000 ≤ caseFold r) ∧ (0x80 ≤ r ∨ caseFold r < 0x80) := by
  unfold caseFold at h ⊢
  rw [forceNat_eq] at h ⊢
  have hm := lookupOr_ne Gen.T121.cfTree (hashCF r) r h
  have := List.all_eq_true.mp cfEntriesOK_true _ hm
  simpa using this

theorem caseFold_high (r : Nat) (h : 0x10000 ≤ r) : 0x10000 ≤ caseFold r := by
  by_cases hr : caseFold r = r
  · rw [hr]; exact h
  · rcases (caseFold_entry r hr).1 with h1 | h1
    · omega
    · exact h1

theorem caseFold_ascii (r : Nat) (h : r < 0x80) : caseFold r < 0x80 := by
  by_cases hr : caseFold r = r
  · rw [hr]; exact h
  · rcases (caseFold_entry r hr).2 with h1 | h1
    · omega
    · exact h1

theorem caseFold_runeError : caseFold 0xFFFD = 0xFFFD := by decide +kernel

/-- W (×3) for the real fold table: fold-equal segments differ in width by at most a factor 3 -/
theorem widthRel_caseFold (s sub : Bytes) : WidthRel caseFold s sub := by
  intro p hp q hq hpq
  obtain ⟨y, hy, hpy⟩ := mem_dec_decode _ sub (Nat.le_refl _) p hp
  obtain ⟨z, hz, hqz⟩ := mem_dec_decode _ s (Nat.le_refl _) q hq
  have hp4 : p.2 ≤ 4 := by rw [hpy]; exact decodeRune_width_le4 y
  have hq1 : 1 ≤ q.2 := by
    rw [hqz]; cases z with
    | nil => exact absurd rfl hz
    | cons c z => exact decodeRune_width_pos c z
  by_cases hq2 : 2 ≤ q.2
  · omega
  · have hq1' : q.2 = 1 := by omega
    by_cases hp4' : p.2 = 4
    · exfalso
      have h1 : 0x10000 ≤ p.1 := by rw [hpy]; exact decodeRune_w4 y (by rw [← hpy]; exact hp4')
      have h2 := caseFold_high _ h1
      rcases (by rw [hqz]; exact decodeRune_w1 z (by rw [← hqz]; exact hq1') : q.1 < 0x80 ∨ q.1 = 0xFFFD) with h3 | h3
      · have := caseFold_ascii _ h3; omega
      · rw [h3, caseFold_runeError] at hpq; omega
    · omega
end Utf8
