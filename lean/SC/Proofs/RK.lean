import SC.Proofs.Find
namespace RK

def hashList (P : UInt32) : List UInt32 → UInt32 → UInt32
  | [], acc => acc
  | r :: rs, acc => hashList P rs (acc * P + r)

def powP (P : UInt32) : Nat → UInt32
  | 0 => 1
  | n+1 => powP P n * P

theorem hashList_append (P : UInt32) (xs ys : List UInt32) (acc : UInt32) :
    hashList P (xs ++ ys) acc = hashList P ys (hashList P xs acc) := by
  induction xs generalizing acc with
  | nil => rfl
  | cons x xs ih => simp [hashList, ih]

theorem hashList_acc (P : UInt32) (xs : List UInt32) (acc : UInt32) :
    hashList P xs acc = hashList P xs 0 + acc * powP P xs.length := by
  induction xs generalizing acc with
  | nil => simp [hashList, powP]
  | cons x xs ih =>
    simp only [hashList, List.length_cons, powP]
    rw [ih (acc * P + x), ih (0 * P + x)]
    grind

theorem roll (P : UInt32) (old new : UInt32) (mid : List UInt32) :
    hashList P (mid ++ [new]) 0 = hashList P (old :: mid) 0 * P + new - powP P (mid.length + 1) * old := by
  rw [hashList_append]
  simp only [hashList]
  rw [hashList_acc P mid (0 * P + old)]
  simp only [powP]
  grind

/-- hash of a list of folded runes, as hashStrUnicode computes it -/
def hashRunes (P : UInt32) (l : List Nat) : UInt32 := hashList P (l.map UInt32.ofNat) 0

/-- sliding phase of indexRabinKarpUnicode at the level of folded rune lists:
    `old` starts at the current window start `k`, `new` just after the window -/
def slide (P pw hs : UInt32) (fp : List Nat) : List Nat → List Nat → UInt32 → Nat → Option Nat
  | o :: old', nw :: new', h, k =>
      let h' := h * P + UInt32.ofNat nw - pw * UInt32.ofNat o
      if h' = hs ∧ fp.isPrefixOf old' = true then some (k + 1)
      else slide P pw hs fp old' new' h' (k + 1)
  | _, _, _, _ => none

def rabinKarp (P : UInt32) (fs fp : List Nat) : Option Nat :=
  let n := fp.length
  let hs := hashRunes P fp
  let h0 := hashRunes P (fs.take n)
  if h0 = hs ∧ fp.isPrefixOf fs = true then some 0
  else slide P (powP P n) hs fp fs (fs.drop n) h0 0

theorem isPrefixOf_take_eq (fp l : List Nat) (h : fp.isPrefixOf l = true) : l.take fp.length = fp := by
  have := List.isPrefixOf_iff_prefix.mp h
  exact List.prefix_iff_eq_take.mp this |>.symm

theorem slide_correct (P : UInt32) (fp : List Nat) (hn : 1 ≤ fp.length) :
    ∀ (old new : List Nat) (h : UInt32) (k : Nat) (res : Option Nat),
      new = old.drop fp.length → fp.length ≤ old.length →
      h = hashRunes P (old.take fp.length) →
      fp.isPrefixOf old = false →
      slide P (powP P fp.length) (hashRunes P fp) fp old new h k = res →
      (res = none ∧ ∀ d, ¬ fp <+: old.drop d) ∨
      (∃ d, res = some (k + d) ∧ fp <+: old.drop d ∧ ∀ d' < d, ¬ fp <+: old.drop d') := by
  intro old
  induction old with
  | nil => intro new h k res _ hl; simp only [List.length_nil] at hl; omega
  | cons o old' ih =>
    intro new h k res hnew hlen hh hnp hres
    have hnp0 : ¬ fp <+: (o :: old') := by
      intro hp; rw [List.isPrefixOf_iff_prefix.mpr hp] at hnp; cases hnp
    cases new with
    | nil =>
      -- the window reaches the end: no later start has enough runes
      simp only [slide] at hres
      left
      refine ⟨hres.symm, ?_⟩
      intro d hp
      have hl := hp.length_le
      simp only [List.length_drop] at hl
      have : (o :: old').length ≤ fp.length := by
        have : ((o :: old').drop fp.length).length = 0 := by rw [← hnew]; rfl
        simp only [List.length_drop] at this; omega
      cases d with
      | zero => exact hnp0 (by simpa using hp)
      | succ d => simp only [List.length_cons] at hl this; omega
    | cons nw new' =>
      simp only [slide] at hres
      -- the rolled hash is the hash of the next window
      have hwin : (o :: old').take fp.length = o :: old'.take (fp.length - 1) := by
        obtain ⟨m, hm⟩ : ∃ m, fp.length = m + 1 := ⟨fp.length - 1, by omega⟩
        rw [hm]; simp
      have hnext : old'.take fp.length = old'.take (fp.length - 1) ++ [nw] := by
        have hd : (o :: old').drop fp.length = nw :: new' := hnew.symm
        obtain ⟨m, hm⟩ : ∃ m, fp.length = m + 1 := ⟨fp.length - 1, by omega⟩
        rw [hm] at hd ⊢
        simp only [List.drop_succ_cons] at hd
        have hml : m < old'.length := by
          have : (old'.drop m).length = (nw :: new').length := by rw [hd]
          simp only [List.length_drop, List.length_cons] at this; omega
        rw [List.take_succ_eq_append_getElem hml]
        have : old'[m] = nw := by
          have := congrArg (fun l => l[0]?) hd
          simpa [List.getElem?_drop, List.getElem?_eq_getElem hml] using this
        simp [this]
      have hroll : h * P + UInt32.ofNat nw - powP P fp.length * UInt32.ofNat o = hashRunes P (old'.take fp.length) := by
        rw [hh, hwin, hnext]
        simp only [hashRunes, List.map_cons, List.map_append, List.map_nil]
        have := roll P (UInt32.ofNat o) (UInt32.ofNat nw) ((old'.take (fp.length - 1)).map UInt32.ofNat)
        have hl : ((old'.take (fp.length - 1)).map UInt32.ofNat).length + 1 = fp.length := by
          have : fp.length - 1 ≤ old'.length := by simp only [List.length_cons] at hlen; omega
          simp [List.length_take, Nat.min_eq_left this]; omega
        rw [hl] at this
        rw [this]
      rw [hroll] at hres
      have hlen' : fp.length ≤ old'.length := by
        have : (old'.take fp.length).length = fp.length := by
          rw [hnext]; simp
          have : fp.length - 1 ≤ old'.length := by simp only [List.length_cons] at hlen; omega
          omega
        have := List.length_take_le' fp.length old'
        omega
      by_cases hm : fp.isPrefixOf old' = true
      · -- a match at the next start: the hashes agree, so it is reported
        have heq : hashRunes P (old'.take fp.length) = hashRunes P fp := by rw [isPrefixOf_take_eq fp old' hm]
        rw [if_pos ⟨heq, hm⟩] at hres
        right
        refine ⟨1, hres.symm, by simpa using List.isPrefixOf_iff_prefix.mp hm, ?_⟩
        intro d' hd'
        have : d' = 0 := by omega
        subst this; simpa using hnp0
      · have hm' : fp.isPrefixOf old' = false := by
          cases hx : fp.isPrefixOf old' with
          | false => rfl
          | true => exact absurd hx hm
        have hcond : ¬ (hashRunes P (old'.take fp.length) = hashRunes P fp ∧ fp.isPrefixOf old' = true) := fun hc => hm hc.2
        rw [if_neg hcond] at hres
        have hnew' : new' = old'.drop fp.length := by
          have hd : (o :: old').drop fp.length = nw :: new' := hnew.symm
          obtain ⟨m, hm2⟩ : ∃ m, fp.length = m + 1 := ⟨fp.length - 1, by omega⟩
          rw [hm2] at hd ⊢
          simp only [List.drop_succ_cons] at hd
          have := congrArg List.tail hd
          simpa [List.tail_drop] using this.symm
        rcases ih new' _ (k + 1) res hnew' hlen' rfl hm' hres with ⟨h1, h2⟩ | ⟨d, h1, h2, h3⟩
        · left
          refine ⟨h1, ?_⟩
          intro d
          cases d with
          | zero => simpa using hnp0
          | succ d => simpa using h2 d
        · right
          refine ⟨d + 1, by rw [h1]; congr 1; omega, by simpa using h2, ?_⟩
          intro d' hd'
          cases d' with
          | zero => simpa using hnp0
          | succ d' => simpa using h3 d' (by omega)
end RK
