import SC.Proofs.SrcNames
/-!
Loops of the regenerated source, by invariants over interpreter frames (the pattern of `Proofs/Asm*.lean`, one level up):
the frame at the loop head is characterised by what its registers hold, the induction is over the distance to the end of the string,
and one `simp` call executes one whole iteration symbolically.
-/
namespace GoSsa.Str
open GoSsa Gen.Src

/-- what one iteration of `nonLetterASCII` computes for byte `b`, as the source does it, against the model's test -/
theorem nla_byte_all : (List.range 256).all (fun n =>
    let x : Int := (n : Int)
    let c := wrap .u8 ((toU .u8 x ||| toU .u8 32 : Nat) : Int)
    let m := wrap .u8 ((toU .u8 c &&& toU .u8 128 : Nat) : Int)
    (decide (m ≠ 0) || (decide (97 ≤ c) && decide (c ≤ 122))) ==
      (let cc := UInt8.ofNat n ||| 0x20; (cc &&& 0x80 != 0 || (0x61 ≤ cc && cc ≤ 0x7A)))) = true := by decide +kernel

def nlaBad (b : UInt8) : Bool := let c := b ||| 0x20; (c &&& 0x80 != 0 || (0x61 ≤ c && c ≤ 0x7A))

theorem nla_byte (b : UInt8) :
    (decide (wrap .u8 ((toU .u8 (wrap .u8 ((toU .u8 (b.toNat : Int) ||| toU .u8 32 : Nat) : Int)) &&& toU .u8 128 : Nat) : Int) ≠ 0) ||
      (decide (97 ≤ wrap .u8 ((toU .u8 (b.toNat : Int) ||| toU .u8 32 : Nat) : Int)) &&
       decide (wrap .u8 ((toU .u8 (b.toNat : Int) ||| toU .u8 32 : Nat) : Int) ≤ 122))) = nlaBad b := by
  have h := List.all_eq_true.1 nla_byte_all b.toNat (List.mem_range.2 b.toNat_lt)
  rw [Utf8.ofNat_toNat_id] at h
  exact eq_of_beq h

theorem nla_loop (s : Utf8.Bytes) (r o : Nat) (h : Heap) (hlen : s.length < 4611686018427387904) :
    ∀ (d i : Nat) (env : Array (List Val)), s.length - i = d → i ≤ s.length → env.size = 11 →
      (env.getD 0 [] = [.str s r o]) → (env.getD 5 [] = [.int i]) →
      ∀ fuel, 14 * d + 6 ≤ fuel →
        run P false fuel ⟨str_nonLetterASCII, env, 3, [.len 6 (.r 0), .bin 7 .lt .i64 (.r 5) (.r 6)], .cond (.r 7) 1 2⟩ h
        = .ok [.bool ((s.drop i).all fun b => !nlaBad b)] h := by
  intro d
  induction d with
  | zero =>
    intro i env hd hi hsz h0 h5 fuel hf
    simp [hsz] at h0 h5
    have hi' : i = s.length := by omega
    subst hi'
    obtain ⟨m, rfl⟩ : ∃ m, fuel = m + 6 := ⟨fuel - 6, by omega⟩
    src_run [str_nonLetterASCII, str_nonLetterASCII_b2, hsz, h0, h5]
  | succ d ih =>
    intro i env hd hi hsz h0 h5 fuel hf
    simp [hsz] at h0 h5
    have hlt : i < s.length := by omega
    have hlt' : (i : Int) < s.length := by omega
    have hw : wrap .i64 ((i : Int) + 1) = (i : Int) + 1 := wrap_i64_small _ (by omega) (by omega)
    have hdrop : s.drop i = s[i] :: s.drop (i + 1) := List.drop_eq_getElem_cons hlt
    have hb := nla_byte s[i]
    simp only [str_nonLetterASCII, str_nonLetterASCII_b1, str_nonLetterASCII_b2, str_nonLetterASCII_b3, str_nonLetterASCII_b4, str_nonLetterASCII_b5, str_nonLetterASCII_b6, str_nonLetterASCII_b7] at ih
    rw [hdrop, List.all_cons, ← hb]
    by_cases c1 : wrap .u8 ((toU .u8 (wrap .u8 ((toU .u8 (s[i].toNat : Int) ||| toU .u8 32 : Nat) : Int)) &&& toU .u8 128 : Nat) : Int) = 0
    · by_cases c2 : 97 ≤ wrap .u8 ((toU .u8 (s[i].toNat : Int) ||| toU .u8 32 : Nat) : Int)
      · by_cases c3 : wrap .u8 ((toU .u8 (s[i].toNat : Int) ||| toU .u8 32 : Nat) : Int) ≤ 122
        · obtain ⟨m, rfl⟩ : ∃ m, fuel = m + 14 := ⟨fuel - 14, by omega⟩
          src_run [str_nonLetterASCII, str_nonLetterASCII_b1, str_nonLetterASCII_b2, str_nonLetterASCII_b3, str_nonLetterASCII_b4, str_nonLetterASCII_b5, str_nonLetterASCII_b6, str_nonLetterASCII_b7, hsz, h0, h5, hlt, hlt', hw, c1, c2, c3]
        · -- the longest path: through block 7 and back to the loop head
          obtain ⟨m, rfl⟩ : ∃ m, fuel = m + 14 := ⟨fuel - 14, by omega⟩
          src_run [str_nonLetterASCII, str_nonLetterASCII_b1, str_nonLetterASCII_b2, str_nonLetterASCII_b3, str_nonLetterASCII_b4, str_nonLetterASCII_b5, str_nonLetterASCII_b6, str_nonLetterASCII_b7, hsz, h0, h5, hlt, hlt', hw, c1, c2, c3]
          rw [ih (i + 1) _ (by omega) (by omega) (by simp [hsz]) (by simp [hsz, h0]) (by simp [hsz, hw]) _ (by omega)]
      · obtain ⟨m, rfl⟩ : ∃ m, fuel = m + 12 := ⟨fuel - 12, by omega⟩
        src_run [str_nonLetterASCII, str_nonLetterASCII_b1, str_nonLetterASCII_b2, str_nonLetterASCII_b3, str_nonLetterASCII_b4, str_nonLetterASCII_b5, str_nonLetterASCII_b6, str_nonLetterASCII_b7, hsz, h0, h5, hlt, hlt', hw, c1, c2]
        rw [ih (i + 1) _ (by omega) (by omega) (by simp [hsz]) (by simp [hsz, h0]) (by simp [hsz, hw]) _ (by omega)]
    · obtain ⟨m, rfl⟩ : ∃ m, fuel = m + 14 := ⟨fuel - 14, by omega⟩
      src_run [str_nonLetterASCII, str_nonLetterASCII_b1, str_nonLetterASCII_b2, str_nonLetterASCII_b3, str_nonLetterASCII_b4, str_nonLetterASCII_b5, str_nonLetterASCII_b6, str_nonLetterASCII_b7, hsz, h0, h5, hlt, hlt', hw, c1]

/-- `nonLetterASCII`: the source's loop is the model's `List.all` — for every string shorter than 2^62 bytes -/
theorem nonLetterASCII (s : Utf8.Bytes) (r o : Nat) (h : Heap) (hlen : s.length < 4611686018427387904) :
    Ret P false str_nonLetterASCII [.str s r o] h [.bool (A.nonLetterASCII s)] h := by
  refine ⟨14 * s.length + 7, fun fuel hf => ?_⟩
  obtain ⟨m, rfl⟩ : ∃ m, fuel = (14 * s.length + 6 + m) + 1 := ⟨fuel - (14 * s.length + 7), by omega⟩
  rw [Frame.entry]
  have hl := nla_loop s r o h hlen s.length 0
  simp only [str_nonLetterASCII, str_nonLetterASCII_b0, str_nonLetterASCII_b1, str_nonLetterASCII_b2, str_nonLetterASCII_b3, str_nonLetterASCII_b4, str_nonLetterASCII_b5, str_nonLetterASCII_b6, str_nonLetterASCII_b7] at hl
  src_run [str_nonLetterASCII, str_nonLetterASCII_b0, str_nonLetterASCII_b1, str_nonLetterASCII_b2, str_nonLetterASCII_b3, str_nonLetterASCII_b4, str_nonLetterASCII_b5, str_nonLetterASCII_b6, str_nonLetterASCII_b7]
  rw [hl _ (by omega) (by omega) (by simp) (by simp) (by simp) _ (by omega)]
  rfl

end GoSsa.Str
