import SC.Proofs.RCountByte
import SC.Proofs.RSuffix
/-!
Backward searches: decoding the last rune before a boundary, the `lastRuneBy` loops of
`lastIndexRune` / `LastIndexAny`, and the contract "last code point of `s` satisfying `P`".
-/
namespace A
open Utf8 Fold

/-- offset of the last boundary whose code point satisfies `P`, or −1 -/
def IsLastBy (P : Nat → Bool) (s : Bytes) (res : Int) : Prop :=
  (res = -1 ∧ ∀ i, IsBoundary s i → i < s.length → P (decodeRune (s.drop i)).1 = false) ∨
  (∃ i : Nat, res = (i : Int) ∧ IsBoundary s i ∧ i < s.length ∧ P (decodeRune (s.drop i)).1 = true ∧
      ∀ j, IsBoundary s j → i < j → j < s.length → P (decodeRune (s.drop j)).1 = false)

theorem isLastBy_congr (P Q : Nat → Bool) (h : ∀ x, P x = Q x) (s : Bytes) (res : Int)
    (hr : IsLastBy P s res) : IsLastBy Q s res := by
  have : P = Q := funext h
  rw [← this]; exact hr

theorem isLastBy_unique (P : Nat → Bool) (s : Bytes) (a b : Int) (ha : IsLastBy P s a) (hb : IsLastBy P s b) : a = b := by
  rcases ha with ⟨ha, hna⟩ | ⟨i, ha, hbi, hli, hpi, hmaxi⟩ <;> rcases hb with ⟨hb, hnb⟩ | ⟨j, hb, hbj, hlj, hpj, hmaxj⟩
  · rw [ha, hb]
  · have := hna j hbj hlj; rw [hpj] at this; cases this
  · have := hnb i hbi hli; rw [hpi] at this; cases this
  · rw [ha, hb]
    rcases Nat.lt_trichotomy i j with h | h | h
    · have := hmaxi j hbj h hlj; rw [hpj] at this; cases this
    · rw [h]
    · have := hmaxj i hbi h hli; rw [hpi] at this; cases this

/-- the rune before the `m`-th boundary, as the backward loops read it (ASCII shortcut or DecodeLastRune) -/
theorem last_before (s : Bytes) (m : Nat) (hm1 : 1 ≤ m) (hm : m ≤ (dec s).length) :
    let i := offAt s m
    let last := s.getD (i - 1) 0
    0 < i ∧ i ≤ s.length ∧
    (if last < 0x80 then (last.toNat, 1) else decodeLast (s.take i)) = (dec s)[m - 1]'(by omega) ∧
    decodeLast (s.take i) = (dec s)[m - 1]'(by omega) ∧
    i - ((dec s)[m - 1]'(by omega)).2 = offAt s (m - 1) ∧ ((dec s)[m - 1]'(by omega)).2 ≤ i := by
  intro i last
  have hipos : 0 < i := by
    have := offAt_strict' s 0 m (by omega) hm
    rw [offAt_zero] at this; exact this
  have hile : i ≤ s.length := offAt_le s m
  have htne : s.take i ≠ [] := by
    intro he; have := congrArg List.length he
    simp only [List.length_take, List.length_nil] at this; omega
  have hdt : dec (s.take i) = (dec s).take m := dec_take_offAt s m
  have hdl := decodeLast_eq (s.take i) htne
  rw [hdt] at hdl
  have hlast : decodeLast (s.take i) = (dec s)[m - 1]'(by omega) := by
    rw [List.getLast?_eq_getElem?, List.length_take, Nat.min_eq_left hm] at hdl
    rw [List.getElem?_take_of_lt (by omega), List.getElem?_eq_getElem (by omega)] at hdl
    exact (Option.some.inj hdl).symm
  have hsucc := offAt_succ s (m - 1) (by omega)
  have e : m - 1 + 1 = m := by omega
  rw [e] at hsucc
  refine ⟨hipos, hile, ?_, hlast, by omega, by omega⟩
  by_cases hl : last < 0x80
  · rw [if_pos hl, ← hlast]
    have hg : (s.take i).getLast?.getD 0 = last := by
      rw [List.getLast?_eq_getElem?, List.length_take, Nat.min_eq_left hile, List.getElem?_take_of_lt (by omega)]
      rw [← List.getD_eq_getElem?_getD]
    have := decodeLast_ascii (s.take i) htne (by rw [hg]; exact hl)
    rw [hg] at this; exact this.symm
  · rw [if_neg hl]; exact hlast

/-- the backward rune loop of lastIndexRune (ASCII shortcut + DecodeLastRune) -/
theorem lastRuneBy_spec (P : Nat → Bool) (s : Bytes) : ∀ (fuel m : Nat) (hm : m ≤ (dec s).length), m < fuel →
    (lastRuneBy P s fuel (offAt s m) = -1 ∧ ∀ k, ∀ hk : k < m, P ((dec s)[k]'(by omega)).1 = false) ∨
    (∃ k, ∃ hk : k < m, lastRuneBy P s fuel (offAt s m) = ((offAt s k : Nat) : Int) ∧ P ((dec s)[k]'(by omega)).1 = true ∧
        ∀ k', ∀ hk' : k' < m, k < k' → P ((dec s)[k']'(by omega)).1 = false) := by
  intro fuel
  induction fuel with
  | zero => intro m _ h; omega
  | succ fuel ih =>
    intro m hm hf
    simp only [lastRuneBy]
    by_cases hm0 : m = 0
    · subst hm0
      rw [offAt_zero, if_neg (by omega)]
      left; exact ⟨rfl, fun k hk => by omega⟩
    · obtain ⟨hipos, hile, hq, _, hoff, hwle⟩ := last_before s m (by omega) hm
      rw [if_pos hipos, if_neg (by omega), hq, if_neg (by omega)]
      by_cases hp : P ((dec s)[m - 1]'(by omega)).1 = true
      · rw [if_pos hp, hoff]
        right
        exact ⟨m - 1, by omega, rfl, hp, fun k' hk' hlt => by omega⟩
      · rw [if_neg hp, hoff]
        have hp' : P ((dec s)[m - 1]'(by omega)).1 = false := by
          cases h : P ((dec s)[m - 1]'(by omega)).1 with
          | false => rfl
          | true => exact absurd h hp
        rcases ih (m - 1) (by omega) (by omega) with ⟨h1, hn⟩ | ⟨k, hk, h1, hpk, hmax⟩
        · left; refine ⟨h1, ?_⟩
          intro k hk
          by_cases hkm : k = m - 1
          · subst hkm; exact hp'
          · exact hn k (by omega)
        · right
          refine ⟨k, by omega, h1, hpk, ?_⟩
          intro k' hk' hlt
          by_cases hkm : k' = m - 1
          · subst hkm; exact hp'
          · exact hmax k' (by omega) hlt

/-- from segment indices to the byte-level contract -/
theorem lastBy_of_segments (P : Nat → Bool) (s : Bytes) (res : Int)
    (h : (res = -1 ∧ ∀ k, ∀ hk : k < (dec s).length, P ((dec s)[k]).1 = false) ∨
         (∃ k, ∃ hk : k < (dec s).length, res = ((offAt s k : Nat) : Int) ∧ P ((dec s)[k]).1 = true ∧
            ∀ k', ∀ hk' : k' < (dec s).length, k < k' → P ((dec s)[k']).1 = false)) :
    IsLastBy P s res := by
  rcases h with ⟨h1, hn⟩ | ⟨k, hk, h1, hp, hmax⟩
  · left; refine ⟨h1, ?_⟩
    rintro i ⟨ki, hki, rfl⟩ hil
    have hlt := boundary_index_lt s ki hki hil
    rw [← seg_at s ki hlt]; exact hn ki hlt
  · right
    have h1' := offAt_lt_succ s k hk
    have h2' := offAt_le s (k + 1)
    refine ⟨offAt s k, h1, ⟨k, by omega, rfl⟩, by omega, by rw [← seg_at s k hk]; exact hp, ?_⟩
    rintro j ⟨kj, hkj, rfl⟩ hlt hjl
    have hkjlt := boundary_index_lt s kj hkj hjl
    have hkk : k < kj := by
      rcases Nat.lt_or_ge k kj with h | h
      · exact h
      · have := offAt_le_of_le s kj k h (by omega); omega
    rw [← seg_at s kj hkjlt]; exact hmax kj hkjlt hkk

theorem lastRuneBy_isLastBy (P : Nat → Bool) (s : Bytes) :
    IsLastBy P s (lastRuneBy P s (s.length + 1) s.length) := by
  have h := lastRuneBy_spec P s (s.length + 1) (dec s).length (Nat.le_refl _) (by have := dec_length_le s; omega)
  rw [offAt_length] at h
  exact lastBy_of_segments P s _ h

end A
