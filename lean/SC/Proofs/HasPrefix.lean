import SC.Proofs.Cmp
import SC.Proofs.Utf8Thy
namespace Utf8
open A

section
variable (fold : Nat → Nat)

/-- rune loop of strcase.hasPrefixUnicode (label hasUnicode): `for _, tr := range prefix` -/
def hpRunes : Nat → Bytes → Bytes → Bool × Bool
  | _, s, [] => (true, s.isEmpty)
  | 0, _, _ :: _ => (false, false)          -- out of fuel (unreachable)
  | fuel+1, s, c :: p =>
    match s with
    | [] => (false, true)
    | a :: s' =>
      let pt := decodeRune (c :: p)
      let tr := pt.1
      let p' := (c :: p).drop pt.2
      let sr := if a < 0x80 then (lower a).toNat else (decodeRune (a :: s')).1
      let s'' := if a < 0x80 then s' else (a :: s').drop (decodeRune (a :: s')).2
      if tr = sr ∨ fold tr = fold sr then hpRunes fuel s'' p' else (false, s''.isEmpty)

/-- ASCII fast path of hasPrefixUnicode; second component is `i == len(s)-1` resp. `i == len(s)` -/
def hpAscii : Bytes → Bytes → Bool × Bool
  | a :: s, c :: p =>
    if (a ||| c) &&& 0x80 ≠ 0 then hpRunes fold (p.length + 1) (a :: s) (c :: p)
    else if c = a ∨ lower a = lower c then hpAscii s p
    else (false, s.isEmpty)
  | s, p => (p.isEmpty, s.isEmpty)

variable (hidem : ∀ r, fold (fold r) = fold r)
variable (hascii : ∀ b : UInt8, b < 0x80 → fold b.toNat = (lower b).toNat)

theorem lower_lt (b : UInt8) : b < 0x80 → lower b < 0x80 := by
  revert b; decide +kernel

include hidem hascii in
theorem hpRunes_spec (fuel : Nat) (s p : Bytes) (hf : p.length ≤ fuel) :
    (hpRunes fold fuel s p).1 = (fdec fold p).isPrefixOf (fdec fold s) ∧
    ((hpRunes fold fuel s p).1 = false → (hpRunes fold fuel s p).2 = true → (dec s).length ≤ (dec p).length) := by
  induction fuel generalizing s p with
  | zero =>
    have : p = [] := by cases p <;> simp_all
    subst this
    simp [hpRunes, fdec, dec_nil]
  | succ fuel ih =>
    cases p with
    | nil => simp [hpRunes, fdec, dec_nil]
    | cons c p =>
      cases s with
      | nil => simp [hpRunes, fdec, dec_nil, dec_cons c p]
      | cons a s =>
        have hw := decodeRune_width_pos c p
        have hlen : ((c :: p).drop (decodeRune (c :: p)).2).length ≤ fuel := by
          simp at hf ⊢; omega
        simp only [hpRunes]
        have hsfold : fold (if a < 0x80 then (lower a).toNat else (decodeRune (a :: s)).1) = fold (decodeRune (a :: s)).1 := by
          split
          · rename_i ha
            have : decodeRune (a :: s) = (a.toNat, 1) := by simp [decodeRune, ha]
            rw [this, ← hascii _ ha, hidem]
          · rfl
        have hsrest : dec (if a < 0x80 then s else (a :: s).drop (decodeRune (a :: s)).2) = dec ((a :: s).drop (decodeRune (a :: s)).2) := by
          split
          · rename_i ha
            have : decodeRune (a :: s) = (a.toNat, 1) := by simp [decodeRune, ha]
            rw [this]; simp
          · rfl
        have hdp : fdec fold (c :: p) = fold (decodeRune (c :: p)).1 :: fdec fold ((c :: p).drop (decodeRune (c :: p)).2) := by
          simp [fdec, dec_cons c p]
        have hds : fdec fold (a :: s) = fold (decodeRune (a :: s)).1 :: fdec fold ((a :: s).drop (decodeRune (a :: s)).2) := by
          simp [fdec, dec_cons a s]
        by_cases heq : fold (decodeRune (c :: p)).1 = fold (decodeRune (a :: s)).1
        · have hcond : (decodeRune (c :: p)).1 = (if a < 0x80 then (lower a).toNat else (decodeRune (a :: s)).1) ∨
              fold (decodeRune (c :: p)).1 = fold (if a < 0x80 then (lower a).toNat else (decodeRune (a :: s)).1) :=
            Or.inr (by rw [hsfold]; exact heq)
          rw [if_pos hcond]
          obtain ⟨ih1, ih2⟩ := ih (if a < 0x80 then s else (a :: s).drop (decodeRune (a :: s)).2) _ hlen
          constructor
          · rw [ih1, hdp, hds]
            simp only [List.isPrefixOf, heq, beq_self_eq_true, Bool.true_and]
            simp only [fdec, hsrest]
          · intro h1 h2
            have := ih2 h1 h2
            rw [hsrest] at this
            rw [dec_cons a s, dec_cons c p]; simp; exact this
        · have hcond : ¬ ((decodeRune (c :: p)).1 = (if a < 0x80 then (lower a).toNat else (decodeRune (a :: s)).1) ∨
              fold (decodeRune (c :: p)).1 = fold (if a < 0x80 then (lower a).toNat else (decodeRune (a :: s)).1)) := by
            rw [hsfold]
            intro h; rcases h with h | h
            · apply heq; rw [h, hsfold]
            · exact heq h
          rw [if_neg hcond]
          constructor
          · rw [hdp, hds]
            simp [List.isPrefixOf, heq]
          · intro _ h2
            simp only [List.isEmpty_iff] at h2
            have : dec ((a :: s).drop (decodeRune (a :: s)).2) = [] := by rw [← hsrest, h2, dec_nil]
            rw [dec_cons a s, this, dec_cons c p]; simp

include hidem hascii in
theorem hpAscii_spec (s p : Bytes) :
    (hpAscii fold s p).1 = (fdec fold p).isPrefixOf (fdec fold s) ∧
    ((hpAscii fold s p).1 = false → (hpAscii fold s p).2 = true → (dec s).length ≤ (dec p).length) := by
  induction s generalizing p with
  | nil =>
    cases p with
    | nil => simp [hpAscii, fdec, dec_nil]
    | cons c p => simp [hpAscii, fdec, dec_nil, dec_cons c p]
  | cons a s ih =>
    cases p with
    | nil => simp [hpAscii, fdec, dec_nil]
    | cons c p =>
      simp only [hpAscii]
      by_cases hu : (a ||| c) &&& 0x80 ≠ 0
      · rw [if_pos hu]
        exact hpRunes_spec fold hidem hascii _ _ _ (by simp)
      · rw [if_neg hu]
        have hab := or_and_high a c hu
        have ha : a < 0x80 := hab.1
        have hc : c < 0x80 := hab.2
        have hds : fdec fold (a :: s) = (lower a).toNat :: fdec fold s := by
          simp [fdec, dec_ascii a s ha, hascii a ha]
        have hdp : fdec fold (c :: p) = (lower c).toNat :: fdec fold p := by
          simp [fdec, dec_ascii c p hc, hascii c hc]
        by_cases h1 : lower a = lower c
        · have : c = a ∨ lower a = lower c := Or.inr h1
          rw [if_pos this]
          obtain ⟨ih1, ih2⟩ := ih p
          constructor
          · rw [ih1, hdp, hds]; simp [List.isPrefixOf, h1]
          · intro h1' h2'
            have := ih2 h1' h2'
            rw [dec_ascii a s ha, dec_ascii c p hc]; simp; exact this
        · have : ¬ (c = a ∨ lower a = lower c) := by
            intro h; rcases h with h | h
            · exact h1 (by rw [h])
            · exact h1 h
          rw [if_neg this]
          have h2 : ¬ (lower c).toNat = (lower a).toNat := fun h => h1 (UInt8.toNat_inj.mp h).symm
          constructor
          · rw [hdp, hds]; simp [List.isPrefixOf, h2]
          · intro _ he
            simp only [List.isEmpty_iff] at he
            subst he
            rw [dec_ascii a [] ha, dec_ascii c p hc]; simp [dec_nil]

/-- what `exhausted` buys the caller: with no more runes than the needle and no match at the front,
    no later rune offset can match either -/
theorem exhausted_sound (fs fp : List Nat) (h0 : fp.isPrefixOf fs = false) (hl : fs.length ≤ fp.length) :
    ∀ k, ¬ fp <+: fs.drop k := by
  intro k hk
  cases k with
  | zero =>
    have : fp.isPrefixOf fs = true := by simpa [List.isPrefixOf_iff_prefix] using hk
    rw [h0] at this; cases this
  | succ k =>
    have h1 := hk.length_le
    simp only [List.length_drop] at h1
    -- fp.length ≤ fs.length - (k+1) < fs.length ≤ fp.length unless fs = [] = fp, but then k=0 case matched
    by_cases hfs : fs.length = 0
    · have hfp : fp.length = 0 := by omega
      have e1 : fs = [] := List.length_eq_zero_iff.mp hfs
      have e2 : fp = [] := List.length_eq_zero_iff.mp hfp
      subst e1; subst e2; simp [List.isPrefixOf] at h0
    · omega
end
end Utf8
