import SC.Proofs.FirstBy
import SC.Proofs.Orbit
import SC.Proofs.Valid
/-!
`indexByte` / `IndexByte`: the ASCII-case-insensitive byte kernel plus the K/k → U+212A and
S/s → U+017F relatives return the first code point of the needle byte's fold orbit.
-/
namespace A
open Utf8 Fold

/-- `S.firstAt` returns the least position whose suffix satisfies `p` -/
theorem firstAt_spec (p : Bytes → Bool) : ∀ (s : Bytes) (o : Nat),
    (S.firstAt p s o = -1 ∧ ∀ i, i < s.length → p (s.drop i) = false) ∨
    (∃ n, S.firstAt p s o = ((o + n : Nat) : Int) ∧ n < s.length ∧ p (s.drop n) = true ∧ ∀ i, i < n → p (s.drop i) = false)
  | [], o => Or.inl ⟨rfl, fun i hi => by simp at hi⟩
  | b :: rest, o => by
    simp only [S.firstAt]
    by_cases hp : p (b :: rest) = true
    · rw [if_pos hp]
      exact Or.inr ⟨0, rfl, by simp, by simpa using hp, fun i hi => by omega⟩
    · rw [if_neg hp]
      rcases firstAt_spec p rest (o + 1) with ⟨h1, h2⟩ | ⟨n, h1, h2, h3, h4⟩
      · left; refine ⟨h1, ?_⟩
        intro i hi
        cases i with
        | zero => simpa using hp
        | succ i => simpa using h2 i (by simpa using hi)
      · right; refine ⟨n + 1, ?_, by simpa using h2, by simpa using h3, ?_⟩
        · rw [h1]; congr 1; omega
        · intro i hi
          cases i with
          | zero => simpa using hp
          | succ i => simpa using h4 i (by omega)

/-- the ASCII part of the orbit of an ASCII byte -/
def asciiPart (c : UInt8) (x : Nat) : Bool := x == c.toNat || (isAlpha c && x == (c ^^^ 0x20).toNat)

theorem byteEqFold_ascii : ∀ c : UInt8, c < 0x80 → ∀ b : UInt8, S.byteEqFold c b = true → b < 0x80 := by
  intro c hc b
  unfold S.byteEqFold
  intro h
  simp only [Bool.or_eq_true, beq_iff_eq, Bool.and_eq_true] at h
  rcases h with h | ⟨ha, h⟩
  · rw [h]; exact hc
  · have k : ∀ c : UInt8, S.isAlpha c = true → ∀ b : UInt8, (b ||| 0x20) = (c ||| 0x20) → b < 0x80 := by
      intro c
      have : ∀ c : UInt8, S.isAlpha c = true → (c ||| 0x20) < 0x80 := by decide +kernel
      intro hca b hb
      have h1 := this c hca
      rw [← hb] at h1
      have : ∀ b : UInt8, (b ||| 0x20) < 0x80 → b < 0x80 := by decide +kernel
      exact this b h1
    exact k c ha b h

theorem byteEqFold_asciiPart_fin : ∀ c b : Fin 128,
    S.byteEqFold (UInt8.ofNat c.val) (UInt8.ofNat b.val) = asciiPart (UInt8.ofNat c.val) b.val := by decide +kernel

theorem lt80_toNat (b : UInt8) (h : b < 0x80) : b.toNat < 128 := by
  have := UInt8.lt_iff_toNat_lt.mp h; simpa using this

theorem byteEqFold_iff_asciiPart (c b : UInt8) (hc : c < 0x80) (hb : b < 0x80) :
    S.byteEqFold c b = asciiPart c b.toNat := by
  have := byteEqFold_asciiPart_fin ⟨c.toNat, lt80_toNat c hc⟩ ⟨b.toNat, lt80_toNat b hb⟩
  simpa [ofNat_toNat_id] using this

/-- a decoded ASCII value is the first byte -/
theorem decode_ascii_head (y : Bytes) (hy : y ≠ []) (h : (decodeRune y).1 < 0x80) :
    ∃ b rest, y = b :: rest ∧ b < 0x80 ∧ decodeRune y = (b.toNat, 1) := by
  cases y with
  | nil => exact absurd rfl hy
  | cons b rest =>
    refine ⟨b, rest, rfl, ?_⟩
    by_cases hb : b < 0x80
    · exact ⟨hb, by simp [decodeRune, hb]⟩
    · exfalso
      have hd := decode_of_rune (b :: rest) (decodeRune (b :: rest)).1 (by simp) rfl (by omega)
      -- the encoding of an ASCII value is that byte
      have he : encode (decodeRune (b :: rest)).1 = [UInt8.ofNat (decodeRune (b :: rest)).1] := by simp [encode, h]
      have hw : (decodeRune (b :: rest)).2 = 1 := by rw [hd, he]; rfl
      have := decodeRune_w1_high b rest hb hw
      rw [this] at h; simp [runeError] at h

/-- the byte kernel `IndexByteString` on an ASCII needle is a first-by search for the ASCII part of the orbit -/
theorem kIndexByte_firstBy (s : Bytes) (c : UInt8) (hc : c < 0x80) :
    IsFirstBy (asciiPart c) s (kIndexByte s c, 1) := by
  unfold kIndexByte S.kernIndexByte
  rcases firstAt_spec (fun x => S.byteEqFold c (x.headD 0)) s 0 with ⟨h1, hn⟩ | ⟨n, h1, hnl, hp, hmin⟩
  · left; refine ⟨h1, ?_⟩
    intro i hi hil
    cases hP : asciiPart c (decodeRune (s.drop i)).1 with
    | false => rfl
    | true =>
      exfalso
      have hne : s.drop i ≠ [] := by intro he; have := congrArg List.length he; simp at this; omega
      have hlt : (decodeRune (s.drop i)).1 < 0x80 := by
        unfold asciiPart at hP
        simp only [Bool.or_eq_true, beq_iff_eq, Bool.and_eq_true] at hP
        rcases hP with h | ⟨_, h⟩
        · rw [h]; exact lt80_toNat c hc
        · rw [h]
          have : ∀ c : UInt8, c < 0x80 → isAlpha c = true → (c ^^^ 0x20) < 0x80 := by decide +kernel
          exact lt80_toNat _ (this c hc (by simp_all [asciiPart]))
      obtain ⟨b, rest, hy, hb, hd⟩ := decode_ascii_head _ hne hlt
      have := hn i hil
      simp only [hy, List.headD_cons] at this
      rw [byteEqFold_iff_asciiPart c b hc hb] at this
      rw [hd] at hP
      rw [this] at hP; cases hP
  · right
    simp only [Nat.zero_add] at h1
    have hne : s.drop n ≠ [] := by intro he; have := congrArg List.length he; simp at this; omega
    cases hy : s.drop n with
    | nil => exact absurd hy hne
    | cons b rest =>
      rw [hy] at hp
      simp only [List.headD_cons] at hp
      have hb : b < 0x80 := byteEqFold_ascii c hc b hp
      have hsn : s[n]? = some b := by
        have := congrArg (fun l => l[0]?) hy
        simpa [List.getElem?_drop] using this
      have hbn : IsBoundary s n := start_is_boundary s.length s (Nat.le_refl _) n b hsn (ascii_isStart b hb)
      have hd : decodeRune (b :: rest) = (b.toNat, 1) := by simp [decodeRune, hb]
      refine ⟨n, h1, hbn, hnl, ?_, ?_, ?_⟩
      · rw [hy, hd, ← byteEqFold_iff_asciiPart c b hc hb]; exact hp
      · rw [hy, hd]
      · intro j hj hjn
        cases hP : asciiPart c (decodeRune (s.drop j)).1 with
        | false => rfl
        | true =>
          exfalso
          have hnej : s.drop j ≠ [] := by intro he; have := congrArg List.length he; simp at this; omega
          have hlt : (decodeRune (s.drop j)).1 < 0x80 := by
            unfold asciiPart at hP
            simp only [Bool.or_eq_true, beq_iff_eq, Bool.and_eq_true] at hP
            rcases hP with h | ⟨ha, h⟩
            · rw [h]; exact lt80_toNat c hc
            · rw [h]
              have : ∀ c : UInt8, c < 0x80 → isAlpha c = true → (c ^^^ 0x20) < 0x80 := by decide +kernel
              exact lt80_toNat _ (this c hc ha)
          obtain ⟨b', rest', hy', hb', hd'⟩ := decode_ascii_head _ hnej hlt
          have := hmin j hjn
          simp only [hy', List.headD_cons] at this
          rw [byteEqFold_iff_asciiPart c b' hc hb'] at this
          rw [hd'] at hP
          rw [this] at hP; cases hP

/-! ### the orbit of an ASCII byte, from the tables -/

def specialRune (c : UInt8) : Nat :=
  if c = 0x4B ∨ c = 0x6B then 0x212A else if c = 0x53 ∨ c = 0x73 then 0x17F else 0

def upperA (c : UInt8) : Nat := if 0x61 ≤ c ∧ c ≤ 0x7A then c.toNat - 32 else c.toNat
def lowerA (c : UInt8) : Nat := if 0x41 ≤ c ∧ c ≤ 0x5A then c.toNat + 32 else c.toNat

theorem ascii_tables : ∀ c : UInt8, c < 0x80 →
    foldsExcl c.toNat = (specialRune c, specialRune c) ∧ ulOf c.toNat = (upperA c, lowerA c) := by decide +kernel

theorem ascii_ul_shape : ∀ c : UInt8, c < 0x80 →
    (isAlpha c = true → (upperA c = c.toNat ∧ lowerA c = (c ^^^ 0x20).toNat) ∨ (upperA c = (c ^^^ 0x20).toNat ∧ lowerA c = c.toNat)) ∧
    (isAlpha c = false → upperA c = c.toNat ∧ lowerA c = c.toNat) := by decide +kernel

/-- the fold orbit of an ASCII byte: itself, its other case if it is a letter, U+212A for K/k, U+017F for S/s -/
def orbP (c : UInt8) (x : Nat) : Bool := asciiPart c x || (specialRune c != 0 && x == specialRune c)

theorem ascii_orbit (c : UInt8) (hc : c < 0x80) (x : Nat) : (caseFold x == caseFold c.toNat) = orbP c x := by
  have hiff : (caseFold x == caseFold c.toNat) = cand c.toNat x := by
    cases hcd : cand c.toNat x with
    | true => exact beq_iff_eq.mpr ((cand_iff _ _).mp hcd)
    | false =>
      cases hb : caseFold x == caseFold c.toNat with
      | false => rfl
      | true => rw [(cand_iff _ _).mpr (beq_iff_eq.mp hb)] at hcd; cases hcd
  rw [hiff]
  obtain ⟨hfe, hul⟩ := ascii_tables c hc
  obtain ⟨ha, hna⟩ := ascii_ul_shape c hc
  unfold cand candOf orbP asciiPart
  rw [hfe, hul]
  simp only []
  cases hal : isAlpha c with
  | true =>
    rcases ha hal with ⟨h1, h2⟩ | ⟨h1, h2⟩
    · rw [h1, h2]; simp only [Bool.true_and, Bool.or_self]
    · rw [h1, h2]; simp only [Bool.true_and, Bool.or_self]
      rw [Bool.or_comm (x == (c ^^^ 0x20).toNat)]
  | false =>
    obtain ⟨h1, h2⟩ := hna hal
    rw [h1, h2]; simp only [Bool.false_and, Bool.or_false, Bool.or_self]

/-- a string shorter than a rune's encoding does not contain the rune -/
theorem firstBy_short (r : Nat) (hv : validRune r) (hr : r ≠ 0xFFFD) (s : Bytes) (h : s.length < (encode r).length) (w : Nat) :
    IsFirstBy (· == r) s (-1, w) := by
  left; refine ⟨rfl, ?_⟩
  intro i _ hil
  cases hp : (decodeRune (s.drop i)).1 == r with
  | false => exact hp
  | true =>
    exfalso
    have hne : s.drop i ≠ [] := by intro he; have := congrArg List.length he; simp at this; omega
    have hd := decode_of_rune _ _ hne (beq_iff_eq.mp hp) hr
    have := decodeRune_width_le (s.drop i)
    rw [hd] at this
    simp only [List.length_drop] at this
    omega

/-- a hit at offset 0 is the answer whatever else is searched for -/
theorem firstBy_zero (P Q : Nat → Bool) (s : Bytes) (a : Int × Nat) (ha : IsFirstBy P s a) (h0 : a.1 = 0) :
    IsFirstBy (fun x => P x || Q x) s a := by
  rcases ha with ⟨h1, _⟩ | ⟨i, h1, hb, hl, hp, hw, _⟩
  · rw [h0] at h1; omega
  · have : i = 0 := by rw [h0] at h1; omega
    subst this
    right; exact ⟨0, h1, hb, hl, (by show (P _ || Q _) = true; rw [hp]; rfl), hw, fun j _ hj => by omega⟩

/-- the K/k → U+212A and S/s → U+017F step of indexByte -/
theorem indexByte_special (cfg : Cfg) (s : Bytes) (c : UInt8) (hc : c < 0x80) (r sz : Nat)
    (hv : validRune r) (hr : r ≠ 0xFFFD) (hr0 : r ≠ 0) (hsz : (encode r).length = sz) (hsr : specialRune c = r)
    (hk : IsFirstBy (asciiPart c) s (kIndexByte s c, 1)) :
    IsFirstBy (orbP c) s
      (if kIndexByte s c > 0 ∧ kIndexByte s c < (sz : Int) then (kIndexByte s c, 1)
       else
        let s' := if kIndexByte s c > 0 then s.take (kIndexByte s c).toNat else s
        let o := indexRuneCase cfg s' (r : Int)
        if kIndexByte s c = -1 ∨ (o ≠ -1 ∧ o < kIndexByte s c) then (o, sz) else (kIndexByte s c, 1)) := by
  have horb : ∀ x, orbP c x = (asciiPart c x || (x == r)) := by
    intro x; unfold orbP; rw [hsr, bne_iff_ne.mpr hr0, Bool.true_and]
  apply isFirstBy_congr (fun x => asciiPart c x || (x == r)) _ (fun x => (horb x).symm)
  generalize hn : kIndexByte s c = n at hk ⊢
  have hrange := isFirstBy_range _ _ _ hk
  simp only [] at hrange
  by_cases hsmall : n > 0 ∧ n < (sz : Int)
  · -- the rune cannot fit before the ASCII hit
    rw [if_pos hsmall]
    have hb : IsFirstBy (· == r) (if 0 ≤ (n, 1).1 then s.take (n, 1).1.toNat else s) (-1, sz) := by
      rw [if_pos (by show (0 : Int) ≤ n; omega)]
      apply firstBy_short r hv hr
      rw [hsz]; simp only [List.length_take]; omega
    have := firstBy_or (asciiPart c) (· == r) s (n, 1) (-1, sz) hk hb
    rw [if_neg (by simp only []; omega)] at this
    exact this
  · rw [if_neg hsmall]
    simp only []
    by_cases hn0 : n = 0
    · -- hit at offset 0
      subst hn0
      have hs0 : (if (0 : Int) > 0 then s.take (Int.toNat 0) else s) = s := if_neg (by omega)
      rw [hs0]
      have hbr := isFirstBy_range _ _ _ (indexRuneCase_firstBy cfg s r hv hr)
      simp only [] at hbr
      rw [if_neg (by omega)]
      exact firstBy_zero _ _ s _ hk rfl
    · have hs' : (if n > 0 then s.take n.toNat else s) = (if 0 ≤ (n, (1 : Nat)).1 then s.take (n, (1 : Nat)).1.toNat else s) := by
        simp only []
        by_cases hp : n > 0
        · rw [if_pos hp, if_pos (by omega)]
        · rw [if_neg hp, if_neg (by omega)]
      rw [hs']
      have hb := indexRuneCase_firstBy cfg (if 0 ≤ (n, (1 : Nat)).1 then s.take (n, (1 : Nat)).1.toNat else s) r hv hr
      rw [hsz] at hb
      have hor := firstBy_or (asciiPart c) (· == r) s (n, 1) _ hk hb
      have hbr := isFirstBy_range _ _ _ hb
      simp only [] at hbr hor
      generalize indexRuneCase cfg (if 0 ≤ n then s.take n.toNat else s) (r : Int) = o at hor hbr ⊢
      have hcond : (n = -1 ∨ (o ≠ -1 ∧ o < n)) ↔ (n = -1 ∨ (0 ≤ o ∧ o < n)) := by
        constructor
        · rintro (h | ⟨h1, h2⟩)
          · exact Or.inl h
          · right; rcases hbr with h | h
            · exact absurd h h1
            · exact ⟨h.1, h2⟩
        · rintro (h | ⟨h1, h2⟩)
          · exact Or.inl h
          · exact Or.inr ⟨by omega, h2⟩
      by_cases hc2 : n = -1 ∨ (0 ≤ o ∧ o < n)
      · rw [if_pos (hcond.mpr hc2)]; rw [if_pos hc2] at hor; exact hor
      · rw [if_neg (fun h => hc2 (hcond.mp h))]; rw [if_neg hc2] at hor; exact hor

/-- C10: `indexByte` returns the first code point in the fold orbit of the ASCII byte `c`, and its width -/
theorem indexByte_firstBy (cfg : Cfg) (s : Bytes) (c : UInt8) (hc : c < 0x80) :
    IsFirstBy (fun x => caseFold x == caseFold c.toNat) s (indexByte cfg s c) := by
  apply isFirstBy_congr (orbP c) _ (fun x => (ascii_orbit c hc x).symm)
  unfold indexByte
  by_cases hs : s.length = 0
  · rw [if_pos hs]
    have : s = [] := List.length_eq_zero_iff.mp hs
    subst this; exact isFirstBy_nil _ _
  rw [if_neg hs]
  have hk := kIndexByte_firstBy s c hc
  simp only []
  -- no non-ASCII relative: the byte kernel alone
  by_cases hK : c = 0x4B ∨ c = 0x6B
  · rw [if_pos hK]
    simp only []
    have hsr : specialRune c = 0x212A := by unfold specialRune; rw [if_pos hK]
    exact indexByte_special cfg s c hc 0x212A 3 (by decide) (by decide) (by decide) (by decide) hsr hk
  · rw [if_neg hK]
    by_cases hS : c = 0x53 ∨ c = 0x73
    · rw [if_pos hS]
      simp only []
      have hsr : specialRune c = 0x17F := by unfold specialRune; rw [if_neg hK, if_pos hS]
      exact indexByte_special cfg s c hc 0x17F 2 (by decide) (by decide) (by decide) (by decide) hsr hk
    · rw [if_neg hS]
      simp only []
      have hsr : specialRune c = 0 := by unfold specialRune; rw [if_neg hK, if_neg hS]
      apply isFirstBy_congr (asciiPart c) _ _ s _ hk
      intro x; unfold orbP; rw [hsr]; simp

end A
