import SC.Proofs.SrcLoops
import SC.Proofs.SrcNamesB
/-!
`nonLetterASCII` of the regenerated `bytcase/bytcase.go`: the strcase proof with the register numbers of the `[]byte` version (`indexAddr` +
`load` instead of `index`: one more step per iteration).
-/
namespace GoSsa.Byt
open GoSsa Gen.Src

theorem nla_loop (s : Utf8.Bytes) (r o : Nat) (h : Heap) (hlen : s.length < 4611686018427387904) :
    ∀ (d i : Nat) (env : Array (List Val)), s.length - i = d → i ≤ s.length → env.size = 12 →
      (env.getD 0 [] = [.str s r o]) → (env.getD 6 [] = [.int i]) →
      ∀ fuel, 16 * d + 6 ≤ fuel →
        run P true fuel ⟨byt_nonLetterASCII, env, 3, [.len 7 (.r 0), .bin 8 .lt .i64 (.r 6) (.r 7)], .cond (.r 8) 1 2⟩ h
        = .ok [.bool ((s.drop i).all fun b => !Str.nlaBad b)] h := by
  intro d
  induction d with
  | zero =>
    intro i env hd hi hsz h0 h5 fuel hf
    simp [hsz] at h0 h5
    have hi' : i = s.length := by omega
    subst hi'
    obtain ⟨m, rfl⟩ : ∃ m, fuel = m + 6 := ⟨fuel - 6, by omega⟩
    src_run [byt_nonLetterASCII, byt_nonLetterASCII_b2, hsz, h0, h5]
  | succ d ih =>
    intro i env hd hi hsz h0 h5 fuel hf
    simp [hsz] at h0 h5
    have hlt : i < s.length := by omega
    have hlt' : (i : Int) < s.length := by omega
    have hw : wrap .i64 ((i : Int) + 1) = (i : Int) + 1 := Str.wrap_i64_small _ (by omega) (by omega)
    have hdrop : s.drop i = s[i] :: s.drop (i + 1) := List.drop_eq_getElem_cons hlt
    have hb := Str.nla_byte s[i]
    simp only [byt_nonLetterASCII, byt_nonLetterASCII_b1, byt_nonLetterASCII_b2, byt_nonLetterASCII_b3, byt_nonLetterASCII_b4, byt_nonLetterASCII_b5, byt_nonLetterASCII_b6, byt_nonLetterASCII_b7] at ih
    rw [hdrop, List.all_cons, ← hb]
    by_cases c1 : wrap .u8 ((toU .u8 (wrap .u8 ((toU .u8 (s[i].toNat : Int) ||| toU .u8 32 : Nat) : Int)) &&& toU .u8 128 : Nat) : Int) = 0
    · by_cases c2 : 97 ≤ wrap .u8 ((toU .u8 (s[i].toNat : Int) ||| toU .u8 32 : Nat) : Int)
      · by_cases c3 : wrap .u8 ((toU .u8 (s[i].toNat : Int) ||| toU .u8 32 : Nat) : Int) ≤ 122
        · obtain ⟨m, rfl⟩ : ∃ m, fuel = m + 15 := ⟨fuel - 15, by omega⟩
          src_run [byt_nonLetterASCII, byt_nonLetterASCII_b1, byt_nonLetterASCII_b2, byt_nonLetterASCII_b3, byt_nonLetterASCII_b4, byt_nonLetterASCII_b5, byt_nonLetterASCII_b6, byt_nonLetterASCII_b7, hsz, h0, h5, hlt, hlt', hw, c1, c2, c3]
        · -- the longest path: through block 7 and back to the loop head
          obtain ⟨m, rfl⟩ : ∃ m, fuel = m + 15 := ⟨fuel - 15, by omega⟩
          src_run [byt_nonLetterASCII, byt_nonLetterASCII_b1, byt_nonLetterASCII_b2, byt_nonLetterASCII_b3, byt_nonLetterASCII_b4, byt_nonLetterASCII_b5, byt_nonLetterASCII_b6, byt_nonLetterASCII_b7, hsz, h0, h5, hlt, hlt', hw, c1, c2, c3]
          rw [ih (i + 1) _ (by omega) (by omega) (by simp [hsz]) (by simp [hsz, h0]) (by simp [hsz, hw]) _ (by omega)]
      · obtain ⟨m, rfl⟩ : ∃ m, fuel = m + 13 := ⟨fuel - 13, by omega⟩
        src_run [byt_nonLetterASCII, byt_nonLetterASCII_b1, byt_nonLetterASCII_b2, byt_nonLetterASCII_b3, byt_nonLetterASCII_b4, byt_nonLetterASCII_b5, byt_nonLetterASCII_b6, byt_nonLetterASCII_b7, hsz, h0, h5, hlt, hlt', hw, c1, c2]
        rw [ih (i + 1) _ (by omega) (by omega) (by simp [hsz]) (by simp [hsz, h0]) (by simp [hsz, hw]) _ (by omega)]
    · obtain ⟨m, rfl⟩ : ∃ m, fuel = m + 15 := ⟨fuel - 15, by omega⟩
      src_run [byt_nonLetterASCII, byt_nonLetterASCII_b1, byt_nonLetterASCII_b2, byt_nonLetterASCII_b3, byt_nonLetterASCII_b4, byt_nonLetterASCII_b5, byt_nonLetterASCII_b6, byt_nonLetterASCII_b7, hsz, h0, h5, hlt, hlt', hw, c1]

/-- `bytcase.nonLetterASCII`: the source's loop is the model's `List.all` — for every string shorter than 2^62 bytes -/
theorem nonLetterASCII (s : Utf8.Bytes) (r o : Nat) (h : Heap) (hlen : s.length < 4611686018427387904) :
    Ret P true byt_nonLetterASCII [.str s r o] h [.bool (A.nonLetterASCII s)] h := by
  refine ⟨16 * s.length + 7, fun fuel hf => ?_⟩
  obtain ⟨m, rfl⟩ : ∃ m, fuel = (16 * s.length + 6 + m) + 1 := ⟨fuel - (16 * s.length + 7), by omega⟩
  rw [Frame.entry]
  have hl := nla_loop s r o h hlen s.length 0
  simp only [byt_nonLetterASCII, byt_nonLetterASCII_b0, byt_nonLetterASCII_b1, byt_nonLetterASCII_b2, byt_nonLetterASCII_b3, byt_nonLetterASCII_b4, byt_nonLetterASCII_b5, byt_nonLetterASCII_b6, byt_nonLetterASCII_b7] at hl
  src_run [byt_nonLetterASCII, byt_nonLetterASCII_b0, byt_nonLetterASCII_b1, byt_nonLetterASCII_b2, byt_nonLetterASCII_b3, byt_nonLetterASCII_b4, byt_nonLetterASCII_b5, byt_nonLetterASCII_b6, byt_nonLetterASCII_b7]
  rw [hl _ (by omega) (by omega) (by simp) (by simp) (by simp) _ (by omega)]
  rfl

end GoSsa.Byt
