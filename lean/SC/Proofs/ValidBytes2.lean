import SC.Proofs.ValidBytes
/-!
Valid UTF-8, continued: suffixes and the greedy count on bytes and on code points.
-/
namespace Utf8
open Spec

theorem runes_take (x : Bytes) (k : Nat) : runes (x.take (offAt x k)) = (runes x).take k := by
  unfold runes; rw [dec_take_offAt, List.map_take]

/-- L4: suffix on bytes ⇔ suffix on code points; the suffix starts at the boundary `n − m` -/
theorem suffix_iff (x y : Bytes) (hx : Valid x) (hy : Valid y) :
    (y <:+ x ↔ runes y <:+ runes x) ∧
    (y <:+ x → offAt x ((runes x).length - (runes y).length) = x.length - y.length) := by
  have fwd : y <:+ x → runes y <:+ runes x ∧ offAt x ((runes x).length - (runes y).length) = x.length - y.length := by
    rintro ⟨p, hp⟩
    by_cases hne : y = []
    · subst hne
      rw [runes_nil]
      refine ⟨List.nil_suffix, ?_⟩
      rw [runes_length]; simp [offAt_length]
    · have hpre : y <+: x.drop p.length := by rw [← hp, List.drop_left]; exact List.prefix_refl _
      obtain ⟨k, hk, hoff⟩ := boundary_of_prefix x y p.length hy hne hpre
      have hpt : x.take (offAt x k) = p := by rw [hoff, ← hp, List.take_left]
      have hvp : Valid p := by rw [← hpt]; exact valid_take x k hx
      have hr : runes x = runes p ++ runes y := by rw [← hp]; exact runes_append p y hvp
      have hpl : (runes p).length = k := by
        rw [← hpt, runes_take, List.length_take, runes_length]; omega
      refine ⟨⟨runes p, hr.symm⟩, ?_⟩
      rw [hr, List.length_append, hpl, Nat.add_sub_cancel, hoff, ← hp]
      simp
  refine ⟨⟨fun h => (fwd h).1, ?_⟩, fun h => (fwd h).2⟩
  rintro ⟨rs, hrs⟩
  have hk : rs.length ≤ (dec x).length := by
    rw [← runes_length, ← hrs]; simp
  have hv := valid_drop x rs.length hx
  have hr : runes (x.drop (offAt x rs.length)) = runes y := by
    rw [runes_drop, ← hrs, List.drop_left]
  have : x.drop (offAt x rs.length) = y := by
    rw [valid_eq_enc _ _ (Nat.le_refl _) hv, hr, ← valid_eq_enc _ y (Nat.le_refl _) hy]
  rw [← this]; exact List.drop_suffix _ _

/-- after a match of `y` at the boundary `k`, the bytes resume at the boundary `k + |runes y|` -/
theorem drop_after_match (x y : Bytes) (hx : Valid x) (hy : Valid y) (k : Nat)
    (hp : y <+: x.drop (offAt x k)) :
    Valid (x.drop (offAt x k + y.length)) ∧ runes (x.drop (offAt x k + y.length)) = (runes x).drop (k + (runes y).length) := by
  obtain ⟨z, hz⟩ := hp
  have hv1 := valid_drop x k hx
  have e : x.drop (offAt x k + y.length) = (x.drop (offAt x k)).drop (offAt (x.drop (offAt x k)) (dec y).length) := by
    rw [← hz, offAt_append_valid y z hy _ (Nat.le_refl _), offAt_length, hz, List.drop_drop]
  rw [e]
  refine ⟨valid_drop _ _ hv1, ?_⟩
  rw [runes_drop, runes_drop, List.drop_drop, runes_length]

/-- L5: the "leftmost match, resume after it" count is the same on bytes and on code points -/
theorem countIdx_valid (y : Bytes) (hy : Valid y) (hne : y ≠ []) :
    ∀ (f : Nat) (x : Bytes), Valid x → x.length < f → countIdx f x y = countIdx f (runes x) (runes y) := by
  intro f
  induction f with
  | zero => intro x _ h; omega
  | succ f ih =>
    intro x hx hf
    simp only [countIdx]
    rw [findSub_valid x y hx hy]
    cases hk : findSub (runes x) (runes y) with
    | none => rfl
    | some k =>
      simp only [Option.map_some]
      have hp := ((findSub_some_iff _ _ _).mp hk).1
      have hpb : y <+: x.drop (offAt x k) := by
        apply (prefix_iff _ y (valid_drop x k hx) hy).mpr
        rw [runes_drop]; exact hp
      obtain ⟨hv, hr⟩ := drop_after_match x y hx hy k hpb
      have hyl : 1 ≤ y.length := List.length_pos_iff.mpr hne
      have hle := hpb.length_le
      simp only [List.length_drop] at hle
      rw [ih _ hv (by simp only [List.length_drop]; omega), hr]

theorem runes_ne_nil (y : Bytes) (hne : y ≠ []) : runes y ≠ [] := by
  cases y with
  | nil => exact absurd rfl hne
  | cons b y => unfold runes; rw [dec_cons]; simp

theorem cnt_valid (x y : Bytes) (hx : Valid x) (hy : Valid y) (hne : y ≠ []) : cnt y x = cnt (runes y) (runes x) := by
  have hrl : (runes x).length ≤ x.length := by rw [runes_length]; exact A.dec_length_le x
  unfold cnt
  rw [← countIdx_eq_countFrom y hne _ x (by omega),
    ← countIdx_eq_countFrom (runes y) (runes_ne_nil y hne) _ (runes x) (by omega),
    countIdx_valid y hy hne _ x hx (by omega)]
  rw [countIdx_eq_countFrom (runes y) (runes_ne_nil y hne) _ (runes x) (by omega),
    countIdx_eq_countFrom (runes y) (runes_ne_nil y hne) _ (runes x) (by omega)]
  exact countFrom_fuel _ (runes_ne_nil y hne) _ _ _ (by omega) (by omega)

end Utf8
