import SC.Model.Asm
import SC.Proofs.KernBlocks
/-!
Lemmas about the instruction-level model: PMOVMSKB masks, BSF as a first-set-bit search, the
page test `TESTW $0xff0`, and the `SHLL`/`SHRL $16` re-alignment of the end-of-page path.
-/
namespace Asm
open Kern

theorem mask_lt (f : Nat → UInt8) : ∀ n, mask f n < 2 ^ n
  | 0 => by simp [mask]
  | n+1 => by
    have ih := mask_lt f n
    simp only [mask]
    split <;> rw [Nat.pow_succ] <;> omega

theorem mask_testBit (f : Nat → UInt8) : ∀ n j, (mask f n).testBit j = (decide (j < n) && decide (f j ≥ 0x80))
  | 0, j => by simp [mask]
  | n+1, j => by
    have ih := mask_testBit f n
    have hlt := mask_lt f n
    simp only [mask]
    by_cases hf : f n ≥ 0x80
    · rw [if_pos hf]
      rcases Nat.lt_trichotomy j n with h | h | h
      · rw [Nat.add_comm, Nat.testBit_two_pow_add_gt h, ih]
        simp [h, Nat.lt_succ_of_lt h]
      · subst h
        rw [Nat.add_comm, Nat.testBit_two_pow_add_eq, Nat.testBit_lt_two_pow hlt]
        simp [hf]
      · have : (mask f n + 2 ^ n) < 2 ^ j := by
          have : 2 ^ (n + 1) ≤ 2 ^ j := Nat.pow_le_pow_right (by omega) (by omega)
          rw [Nat.pow_succ] at this; omega
        rw [Nat.testBit_lt_two_pow this]
        have : ¬ j < n + 1 := by omega
        simp [this]
    · rw [if_neg hf, Nat.add_zero, ih]
      by_cases hj : j = n
      · subst hj; simp [hf]
      · have : (j < n + 1) = (j < n) := by apply propext; omega
        simp [this]

/-- BSF over a window of bits is the block search when the bits are the block's predicate values -/
theorem firstBit_eq_blk (p : UInt8 → Bool) (mem : Mem) (a v : Nat) : ∀ (n j : Nat),
    (∀ i, j ≤ i → i < j + n → v.testBit i = p (mem (a + i))) → firstBit v j n = blk p mem a j n
  | 0, _, _ => rfl
  | n+1, j, h => by
    simp only [firstBit, blk]
    rw [h j (Nat.le_refl _) (by omega)]
    by_cases hp : p (mem (a + j)) = true
    · rw [if_pos hp, if_pos hp]
    · rw [if_neg hp, if_neg hp]
      exact firstBit_eq_blk p mem a v n (j + 1) (fun i h1 h2 => h i (by omega) (by omega))

/-- bits that are all clear contribute nothing -/
theorem firstBit_none (v : Nat) : ∀ (n j : Nat), (∀ i, j ≤ i → i < j + n → v.testBit i = false) → firstBit v j n = none
  | 0, _, _ => rfl
  | n+1, j, h => by
    simp only [firstBit]
    rw [h j (Nat.le_refl _) (by omega)]
    simp only [Bool.false_eq_true, if_false]
    exact firstBit_none v n (j + 1) (fun i h1 h2 => h i (by omega) (by omega))

theorem firstBit_append (v : Nat) : ∀ (n m j : Nat),
    firstBit v j (n + m) = (match firstBit v j n with | some k => some k | none => firstBit v (j + n) m)
  | 0, m, j => by simp [firstBit]
  | n+1, m, j => by
    have e : n + 1 + m = (n + m) + 1 := by omega
    rw [e]
    simp only [firstBit]
    by_cases hb : v.testBit j = true
    · rw [if_pos hb, if_pos hb]
    · rw [if_neg hb, if_neg hb, firstBit_append v n m (j + 1)]
      have e2 : j + 1 + n = j + (n + 1) := by omega
      rw [e2]

/-- the same window seen through a shift of the bit positions -/
theorem firstBit_shift (v w d : Nat) : ∀ (n j : Nat),
    (∀ i, j ≤ i → i < j + n → w.testBit i = v.testBit (i + d)) →
    firstBit w j n = (firstBit v (j + d) n).map (· - d)
  | 0, _, _ => rfl
  | n+1, j, h => by
    simp only [firstBit]
    rw [h j (Nat.le_refl _) (by omega)]
    by_cases hb : v.testBit (j + d) = true
    · rw [if_pos hb, if_pos hb]; simp
    · rw [if_neg hb, if_neg hb, firstBit_shift v w d n (j + 1) (fun i h1 h2 => h i (by omega) (by omega))]
      have e : j + 1 + d = j + d + 1 := by omega
      rw [e]

theorem pageTest_all : (List.range 4096).all (fun r => ((4080 &&& r) % 65536 == 0) == (r / 16 == 0)) = true := by decide +kernel

/-- `TESTW $0xff0, AX` is the page test of the block model -/
theorem pageTest (n : Nat) : ((4080 &&& n) % 65536 == 0) = (n % 4096 / 16 == 0) := by
  have h1 : 4080 &&& n = 4080 &&& (n % 4096) := by
    have hle : 4080 &&& n ≤ 4080 := Nat.and_le_left
    have : (4080 &&& n) % 4096 = (4080 % 4096) &&& (n % 4096) := Nat.and_mod_two_pow (n := 12)
    rw [Nat.mod_eq_of_lt (by omega)] at this
    exact this
  rw [h1]
  have := List.all_eq_true.mp pageTest_all (n % 4096) (List.mem_range.mpr (Nat.mod_lt _ (by omega)))
  exact beq_iff_eq.mp this

/-- `SHLL len, DX; SHRL $16, DX` on a 16-lane mask: bit `i` of the result is lane `i + 16 − len` -/
theorem shiftDown (m len i : Nat) (hm : m < 2 ^ 16) (hl : len < 16) :
    ((((m % W32) <<< (len % 32)) % W32) >>> (16 % 32)).testBit i = (decide (i < 16) && m.testBit (i + 16 - len)) := by
  have e1 : m % W32 = m := Nat.mod_eq_of_lt (by unfold W32; omega)
  have e2 : len % 32 = len := Nat.mod_eq_of_lt (by omega)
  rw [e1, e2]
  have e3 : (16 : Nat) % 32 = 16 := rfl
  rw [e3]
  unfold W32
  rw [Nat.testBit_shiftRight, Nat.testBit_mod_two_pow, Nat.testBit_shiftLeft]
  by_cases hi : i < 16
  · have h1 : 16 + i < 32 := by omega
    have h2 : 16 + i ≥ len := by omega
    have e : 16 + i - len = i + 16 - len := by omega
    simp [hi, h1, h2, e]
  · have : 16 + i - len ≥ 16 := by omega
    have hb : m.testBit (16 + i - len) = false := Nat.testBit_lt_two_pow (Nat.lt_of_lt_of_le hm (Nat.pow_le_pow_right (by omega) this))
    simp [hi, hb]

end Asm

namespace Asm
open Kern

theorem mask_mod (F : Nat → UInt8) : mask F 16 % W32 = mask F 16 :=
  Nat.mod_eq_of_lt (Nat.lt_of_lt_of_le (mask_lt F 16) (by unfold W32; exact Nat.pow_le_pow_right (by omega) (by omega)))

/-- `PMOVMSKB; BSFL` on a 16-lane comparison result is the block search -/
theorem bsf_mask (F : Nat → UInt8) (p : UInt8 → Bool) (mem : Mem) (a : Nat)
    (hF : ∀ j, decide (F j ≥ 0x80) = p (mem (a + j))) :
    firstBit (mask F 16 % W32) 0 32 = blk p mem a 0 16 := by
  rw [mask_mod]
  have e : (32 : Nat) = 16 + 16 := rfl
  rw [e, firstBit_append]
  have h1 : firstBit (mask F 16) 0 16 = blk p mem a 0 16 := by
    apply firstBit_eq_blk
    intro i _ hi
    rw [mask_testBit, ← hF i]
    have : i < 16 := by omega
    simp [this]
  have h2 : firstBit (mask F 16) (0 + 16) 16 = none := by
    apply firstBit_none
    intro i hi _
    rw [mask_testBit]
    have : ¬ i < 16 := by omega
    simp [this]
  rw [h1, h2]
  cases blk p mem a 0 16 <;> rfl

/-- the end-of-page path: `SHLL len; SHRL $16; BSFL` finds the first match among the top `len` lanes, re-based to 0 -/
theorem bsf_shifted (F : Nat → UInt8) (p : UInt8 → Bool) (mem : Mem) (a len : Nat) (hl : len < 16)
    (hF : ∀ j, decide (F j ≥ 0x80) = p (mem (a + j))) :
    firstBit ((((((mask F 16) % W32) <<< (len % 32)) % W32) >>> (16 % 32)) % W32) 0 32 =
      (blk p mem a (16 - len) len).map (· - (16 - len)) := by
  have hm := mask_lt F 16
  generalize hw : (((((mask F 16) % W32) <<< (len % 32)) % W32) >>> (16 % 32)) = w
  have hbit : ∀ i, w.testBit i = (decide (i < 16) && (mask F 16).testBit (i + 16 - len)) := by
    intro i; rw [← hw]; exact shiftDown (mask F 16) len i hm hl
  -- w < 2^16
  have hwlt : w < 2 ^ 16 := by
    apply Nat.lt_pow_two_of_testBit
    intro i hi
    rw [hbit i]
    have : ¬ i < 16 := by omega
    simp [this]
  have hwm : w % W32 = w := Nat.mod_eq_of_lt (Nat.lt_of_lt_of_le hwlt (by unfold W32; exact Nat.pow_le_pow_right (by omega) (by omega)))
  rw [hwm]
  -- bits len … 31 of w are clear; bits 0 … len−1 are lanes 16−len … 15
  have e : (32 : Nat) = len + (32 - len) := by omega
  rw [e, firstBit_append]
  have h2 : firstBit w (0 + len) (32 - len) = none := by
    apply firstBit_none
    intro i hi _
    rw [hbit i, mask_testBit]
    by_cases h16 : i < 16
    · have : ¬ (i + 16 - len < 16) := by omega
      simp [this]
    · simp [h16]
  have h1 : firstBit w 0 len = (firstBit (mask F 16) (0 + (16 - len)) len).map (· - (16 - len)) := by
    apply firstBit_shift
    intro i _ hi
    rw [hbit i]
    have : i < 16 := by omega
    have e2 : i + 16 - len = i + (16 - len) := by omega
    simp [this, e2]
  have h3 : firstBit (mask F 16) (0 + (16 - len)) len = blk p mem a (16 - len) len := by
    rw [Nat.zero_add]
    apply firstBit_eq_blk
    intro i hi1 hi2
    rw [mask_testBit, ← hF i]
    have : i < 16 := by omega
    simp [this]
  rw [h1, h2, h3]
  cases blk p mem a (16 - len) len <;> rfl

end Asm

namespace Asm
open Kern

theorem cntBits_eq_cntBlk (p : UInt8 → Bool) (mem : Mem) (a v : Nat) : ∀ (n j : Nat),
    (∀ i, j ≤ i → i < j + n → v.testBit i = p (mem (a + i))) → cntBits v j n = cntBlk p mem a j n
  | 0, _, _ => rfl
  | n+1, j, h => by
    simp only [cntBits, cntBlk]
    rw [h j (Nat.le_refl _) (by omega), cntBits_eq_cntBlk p mem a v n (j + 1) (fun i h1 h2 => h i (by omega) (by omega))]

theorem cntBits_zero (v : Nat) : ∀ (n j : Nat), (∀ i, j ≤ i → i < j + n → v.testBit i = false) → cntBits v j n = 0
  | 0, _, _ => rfl
  | n+1, j, h => by
    simp only [cntBits]
    rw [h j (Nat.le_refl _) (by omega), cntBits_zero v n (j + 1) (fun i h1 h2 => h i (by omega) (by omega))]
    simp

theorem cntBits_append (v : Nat) : ∀ (n m j : Nat), cntBits v j (n + m) = cntBits v j n + cntBits v (j + n) m
  | 0, m, j => by simp [cntBits]
  | n+1, m, j => by
    have e : n + 1 + m = (n + m) + 1 := by omega
    rw [e]
    simp only [cntBits]
    rw [cntBits_append v n m (j + 1)]
    have e2 : j + 1 + n = j + (n + 1) := by omega
    rw [e2]; omega

/-- `PMOVMSKB; ANDQ mask; POPCNTL` with a mask selecting the lanes `lo … lo+n−1` counts the matches among them -/
theorem popcnt_masked (F : Nat → UInt8) (p : UInt8 → Bool) (mem : Mem) (a m lo n : Nat) (hlo : lo + n ≤ 16)
    (hm : ∀ i, i < 16 → m.testBit i = (decide (lo ≤ i) && decide (i < lo + n)))
    (hF : ∀ j, decide (F j ≥ 0x80) = p (mem (a + j))) :
    cntBits ((mask F 16 &&& m) % W32) 0 32 = cntBlk p mem a lo n := by
  have hlt : mask F 16 &&& m < 2 ^ 16 := Nat.lt_of_le_of_lt Nat.and_le_left (mask_lt F 16)
  have hmod : (mask F 16 &&& m) % W32 = mask F 16 &&& m :=
    Nat.mod_eq_of_lt (Nat.lt_of_lt_of_le hlt (by unfold W32; exact Nat.pow_le_pow_right (by omega) (by omega)))
  rw [hmod]
  have hbit : ∀ i, (mask F 16 &&& m).testBit i =
      (decide (lo ≤ i) && decide (i < lo + n) && p (mem (a + i))) := by
    intro i
    rw [Nat.testBit_and, mask_testBit, ← hF i]
    by_cases h16 : i < 16
    · rw [hm i h16]; simp [h16, Bool.and_comm]
    · have : ¬ i < lo + n := by omega
      simp [h16, this]
  have e : (32 : Nat) = lo + (n + (32 - lo - n)) := by omega
  rw [e, cntBits_append, cntBits_append]
  have z1 : cntBits (mask F 16 &&& m) 0 lo = 0 := by
    apply cntBits_zero
    intro i _ hi
    rw [hbit i]
    have : ¬ lo ≤ i := by omega
    simp [this]
  have z3 : cntBits (mask F 16 &&& m) (0 + lo + n) (32 - lo - n) = 0 := by
    apply cntBits_zero
    intro i hi _
    rw [hbit i]
    have : ¬ i < lo + n := by omega
    simp [this]
  have mid : cntBits (mask F 16 &&& m) (0 + lo) n = cntBlk p mem a lo n := by
    rw [Nat.zero_add]
    apply cntBits_eq_cntBlk
    intro i h1 h2
    rw [hbit i]
    simp [h1, h2]
  rw [z1, z3, mid]; omega

/-- `MOVQ $1, R10; SALQ CL, R10; SUBQ $1, R10` : the lanes below `len` -/
theorem lowMask_bits (len : Nat) (hl : len < 16) (i : Nat) (_hi : i < 16) :
    (2 ^ len - 1).testBit i = (decide (0 ≤ i) && decide (i < 0 + len)) := by
  rw [Nat.testBit_two_pow_sub_one]; simp

/-- `MOVQ $0xFFFF, R10; SARQ CL, R10; SALQ CL, R10` with `CL = 16 − len` : the top `len` lanes -/
theorem highMask_bits (c : Nat) (hc : c ≤ 16) (i : Nat) (hi : i < 16) :
    ((65535 >>> c) <<< c).testBit i = (decide (c ≤ i) && decide (i < c + (16 - c))) := by
  rw [Nat.testBit_shiftLeft, Nat.testBit_shiftRight]
  have e : (65535 : Nat) = 2 ^ 16 - 1 := rfl
  rw [e, Nat.testBit_two_pow_sub_one]
  by_cases h : c ≤ i
  · have h1 : c + (i - c) < 16 := by omega
    have h2 : i < c + (16 - c) := by omega
    simp [h, h2]; omega
  · simp [h]

end Asm

namespace Asm

theorem cntBits_le (v : Nat) : ∀ (n j : Nat), cntBits v j n ≤ n
  | 0, _ => Nat.le_refl _
  | n+1, j => by
    simp only [cntBits]
    have := cntBits_le v n (j + 1)
    split <;> omega

/-- the low mask as the instruction sequence computes it (whatever was in the upper bits of `CX`) -/
theorem lowMask_val (jcx len : Nat) (hl : len < 16) :
    ((1 % W64) <<< ((jcx / 256 * 256 + len % 256) % 64) % W64 + W64 - 1 % W64) % W64 = 2 ^ len - 1 := by
  have e1 : (jcx / 256 * 256 + len % 256) % 64 = len := by omega
  have e2 : (1 : Nat) % W64 = 1 := by decide
  rw [e1, e2, Nat.one_shiftLeft]
  have hp : 2 ^ len < 2 ^ 16 := Nat.pow_lt_pow_right (by omega) hl
  have hp1 : 1 ≤ 2 ^ len := Nat.one_le_two_pow
  have hw : W64 = 2 ^ 64 := rfl
  have e3 : 2 ^ len % W64 = 2 ^ len := Nat.mod_eq_of_lt (by rw [hw]; omega)
  rw [e3]
  have e4 : 2 ^ len + W64 - 1 = (2 ^ len - 1) + W64 := by omega
  rw [e4, Nat.add_mod_right]
  exact Nat.mod_eq_of_lt (by rw [hw]; omega)

/-- the high mask as the instruction sequence computes it -/
theorem highMask_val (len : Nat) (hl : len < 16) (h0 : 0 < len) :
    (if 65535 % W64 < 2 ^ 63 then (65535 % W64) >>> ((16 % W64 + W64 - len % W64) % W64 % 64)
      else W64 - 1 - (W64 - 1 - 65535 % W64) >>> ((16 % W64 + W64 - len % W64) % W64 % 64)) <<<
        ((16 % W64 + W64 - len % W64) % W64 % 64) % W64 = (65535 >>> (16 - len)) <<< (16 - len) := by
  have hw : W64 = 2 ^ 64 := rfl
  have e1 : (16 % W64 + W64 - len % W64) % W64 % 64 = 16 - len := by rw [hw]; omega
  have e2 : (65535 : Nat) % W64 = 65535 := by decide
  rw [e1, e2, if_pos (by omega)]
  apply Nat.mod_eq_of_lt
  have h1 : 65535 >>> (16 - len) ≤ 65535 := Nat.shiftRight_le _ _
  rw [Nat.shiftLeft_eq]
  have h2 : 2 ^ (16 - len) ≤ 2 ^ 16 := Nat.pow_le_pow_right (by omega) (by omega)
  calc 65535 >>> (16 - len) * 2 ^ (16 - len) ≤ 65535 * 2 ^ 16 := Nat.mul_le_mul h1 h2
    _ < W64 := by rw [hw]; omega

end Asm

namespace Asm
open Kern

theorem cntBlk_le (p : UInt8 → Bool) (mem : Mem) (a : Nat) : ∀ (n lo : Nat), cntBlk p mem a lo n ≤ n
  | 0, _ => Nat.le_refl _
  | n+1, lo => by
    simp only [cntBlk]
    have := cntBlk_le p mem a n (lo + 1)
    split <;> omega

/-- `PMOVMSKB; POPCNTL` on a full 16-lane comparison result counts the matches of the block -/
theorem popcnt_full (F : Nat → UInt8) (p : UInt8 → Bool) (mem : Mem) (a : Nat)
    (hF : ∀ j, decide (F j ≥ 0x80) = p (mem (a + j))) :
    cntBits (mask F 16 % W32) 0 32 = cntBlk p mem a 0 16 := by
  rw [mask_mod]
  have e : (32 : Nat) = 16 + 16 := rfl
  rw [e, cntBits_append]
  have h1 : cntBits (mask F 16) 0 16 = cntBlk p mem a 0 16 := by
    apply cntBits_eq_cntBlk
    intro i _ hi
    rw [mask_testBit, ← hF i]
    have : i < 16 := by omega
    simp [this]
  have h2 : cntBits (mask F 16) (0 + 16) 16 = 0 := by
    apply cntBits_zero
    intro i hi _
    rw [mask_testBit]
    have : ¬ i < 16 := by omega
    simp [this]
  rw [h1, h2]; omega

/-- the high mask with the shift count as the counting loops compute it (`CX = 16 − rem`) -/
theorem highMask_val' (c : Nat) (hc : c ≤ 16) :
    (if 65535 % W64 < 2 ^ 63 then (65535 % W64) >>> (c % 64) else W64 - 1 - (W64 - 1 - 65535 % W64) >>> (c % 64)) <<< (c % 64) % W64 =
      (65535 >>> c) <<< c := by
  have hw : W64 = 2 ^ 64 := rfl
  have e1 : c % 64 = c := Nat.mod_eq_of_lt (by omega)
  have e2 : (65535 : Nat) % W64 = 65535 := by decide
  rw [e1, e2, if_pos (by omega)]
  apply Nat.mod_eq_of_lt
  have h1 : 65535 >>> c ≤ 65535 := Nat.shiftRight_le _ _
  rw [Nat.shiftLeft_eq]
  have h2 : 2 ^ c ≤ 2 ^ 16 := Nat.pow_le_pow_right (by omega) hc
  calc 65535 >>> c * 2 ^ c ≤ 65535 * 2 ^ 16 := Nat.mul_le_mul h1 h2
    _ < W64 := by rw [hw]; omega

theorem and15 (n : Nat) : n &&& 15 = n % 16 := by
  have : (15 : Nat) = 2 ^ 4 - 1 := rfl
  rw [this, Nat.and_two_pow_sub_one_eq_mod]

theorem cntLoop_succ16 (p : UInt8 → Bool) (mem : Mem) (base len n di acc : Nat) :
    cntLoop ⟨16, 16, 16⟩ p mem base len (n + 1) di acc =
      if di ≤ len - 16 then
        ((cntLoop ⟨16, 16, 16⟩ p mem base len n (di + 16) (acc + cntBlk p mem (base + di) 0 16)).1,
          (base + di, 16) :: (cntLoop ⟨16, 16, 16⟩ p mem base len n (di + 16) (acc + cntBlk p mem (base + di) 0 16)).2)
      else if len % 16 = 0 then (acc, [])
      else (acc + cntBlk p mem (base + (len - 16)) (16 - len % 16) (len % 16), [(base + (len - 16), 16)]) := rfl

end Asm
