import SC.Proofs.ByteIndex
import SC.Proofs.Width
namespace Utf8

/-- a decode whose rune value is a given valid non-U+FFFD rune is the well-formed segment of that rune -/
theorem decode_of_rune (y : Bytes) (r : Nat) (hy : y ≠ []) (h : (decodeRune y).1 = r) (hr : r ≠ 0xFFFD) :
    decodeRune y = (r, (encode r).length) := by
  have hw1 : 1 ≤ (decodeRune y).2 := by
    cases y with
    | nil => exact absurd rfl hy
    | cons c y => exact decodeRune_width_pos c y
  have hgood : 2 ≤ (decodeRune y).2 ∨ r < 0x80 := by
    by_cases h2 : 2 ≤ (decodeRune y).2
    · exact Or.inl h2
    · right
      have : (decodeRune y).2 = 1 := by omega
      rcases decodeRune_w1 y this with h3 | h3
      · rw [← h]; exact h3
      · rw [h] at h3; exact absurd h3 hr
  obtain ⟨ht, _⟩ := encode_decode y r (decodeRune y).2 (by rw [← h]) hgood
  have hl : (encode r).length = (decodeRune y).2 := by
    rw [← ht, List.length_take]
    exact Nat.min_eq_left (decodeRune_width_le y)
  rw [hl, ← h]

/-- strcase.indexRune2, non-ASCII branch; `irc` is indexRuneCase, `rl` is utf8.RuneLen -/
def indexRune2 (irc : Bytes → Nat → Int) (rl : Nat → Nat) (s : Bytes) (lower upper : Nat) : Int × Nat :=
  let n := irc s lower
  if n ≠ 0 ∧ lower ≠ upper then
    let s' := if 0 ≤ n ∧ n < s.length then s.take n.toNat else s
    let o := irc s' upper
    if n = -1 ∨ (0 ≤ o ∧ o < n) then (o, rl upper) else (n, rl lower)
  else (n, rl lower)

/-- segments of a boundary-truncated string are segments of the string -/
theorem decode_take_boundary (s : Bytes) (n j : Nat) (hn : IsBoundary s n) (hj : IsBoundary s j) (hjn : j < n) :
    IsBoundary (s.take n) j ∧ decodeRune ((s.take n).drop j) = decodeRune (s.drop j) := by
  obtain ⟨kn, hkn1, hkn2⟩ := hn
  obtain ⟨kj, hkj1, hkj2⟩ := hj
  subst hkn2; subst hkj2
  have hlt : kj < kn := by
    rcases Nat.lt_or_ge kj kn with h | h
    · exact h
    · have := offAt_mono s (kj - kn) kn (by omega)
      have e : kn + (kj - kn) = kj := by omega
      rw [e] at this; omega
  have hdt := dec_take_offAt s kn
  have hoff : ∀ m, m ≤ kn → offAt (s.take (offAt s kn)) m = offAt s m := by
    intro m hm
    show (((dec (s.take (offAt s kn))).take m).map (·.2)).sum = (((dec s).take m).map (·.2)).sum
    rw [hdt, List.take_take, Nat.min_eq_left hm]
  have hlenT : (dec (s.take (offAt s kn))).length = kn := by rw [hdt, List.length_take]; omega
  have hbT : IsBoundary (s.take (offAt s kn)) (offAt s kj) := ⟨kj, by omega, hoff kj (by omega)⟩
  refine ⟨hbT, ?_⟩
  have h1 := seg_at (s.take (offAt s kn)) kj (by omega)
  have h2 := seg_at s kj (by omega)
  rw [hoff kj (by omega)] at h1
  rw [← h1, ← h2]
  simp [hdt, List.getElem_take]

theorem isBoundary_take_lift (s : Bytes) (n j : Nat) (hn : IsBoundary s n) (hj : IsBoundary (s.take n) j) :
    IsBoundary s j := by
  obtain ⟨kn, hkn1, hkn2⟩ := hn
  subst hkn2
  obtain ⟨kj, hkj1, hkj2⟩ := hj
  have hdt := dec_take_offAt s kn
  rw [hdt, List.length_take] at hkj1
  have hkj1' : kj ≤ kn := by
    have := Nat.min_le_left kn (dec s).length; omega
  refine ⟨kj, by omega, ?_⟩
  rw [← hkj2]
  show (((dec s).take kj).map (·.2)).sum = (((dec (s.take (offAt s kn))).take kj).map (·.2)).sum
  rw [hdt, List.take_take, Nat.min_eq_left hkj1']


theorem candOf_false (lower upper r : Nat) (h1 : (r == lower) = false) (h2 : (r == upper) = false) :
    (r == lower || r == upper) = false := by rw [h1, h2]; rfl

theorem indexRune2_spec (irc : Bytes → Nat → Int) (rl : Nat → Nat) (s : Bytes) (lower upper : Nat)
    (hl : validRune lower) (hu : validRune upper) (hl' : lower ≠ 0xFFFD) (hu' : upper ≠ 0xFFFD)
    (hirc : ∀ x r, validRune r → IsFirstRune x r (irc x r))
    (hrl : ∀ r, rl r = (encode r).length) :
    ((indexRune2 irc rl s lower upper).1 < 0 →
        ∀ j, IsBoundary s j → j < s.length → ((decodeRune (s.drop j)).1 == lower || (decodeRune (s.drop j)).1 == upper) = false) ∧
    (0 ≤ (indexRune2 irc rl s lower upper).1 →
        IsBoundary s (indexRune2 irc rl s lower upper).1.toNat ∧ (indexRune2 irc rl s lower upper).1.toNat < s.length ∧
        ((decodeRune (s.drop (indexRune2 irc rl s lower upper).1.toNat)).1 == lower ||
         (decodeRune (s.drop (indexRune2 irc rl s lower upper).1.toNat)).1 == upper) = true ∧
        (indexRune2 irc rl s lower upper).2 = (decodeRune (s.drop (indexRune2 irc rl s lower upper).1.toNat)).2 ∧
        ∀ j, IsBoundary s j → j < (indexRune2 irc rl s lower upper).1.toNat →
          ((decodeRune (s.drop j)).1 == lower || (decodeRune (s.drop j)).1 == upper) = false) := by
  -- "not r" at a position, from the segment form
  have notr : ∀ (x : Bytes) (r : Nat), r ≠ 0xFFFD → ∀ j, j < x.length → decodeRune (x.drop j) ≠ (r, (encode r).length) →
      ((decodeRune (x.drop j)).1 == r) = false := by
    intro x r hr j hj hne
    cases hb : ((decodeRune (x.drop j)).1 == r) with
    | false => rfl
    | true =>
      exfalso; apply hne
      have hy : x.drop j ≠ [] := by
        intro h0; have : (x.drop j).length = 0 := by rw [h0]; rfl
        simp only [List.length_drop] at this; omega
      exact decode_of_rune _ r hy (by simpa using hb) hr
  have hL := hirc s lower hl
  unfold indexRune2
  try simp only []
  generalize hn : irc s lower = n at hL ⊢
  by_cases hc : ¬ (n ≠ 0 ∧ lower ≠ upper)
  · -- no second search
    rw [if_neg hc]
    try simp only []
    rcases hL with ⟨hn1, hall⟩ | ⟨i, hni, hb, hi, hd, hmin⟩
    · -- n = -1, hence lower = upper
      have hlu : lower = upper := by
        refine Classical.byContradiction fun h => hc ⟨by omega, h⟩
      subst hlu
      refine ⟨fun _ j hj hjl => ?_, fun h => by omega⟩
      have := notr s lower hl' j hjl (hall j hj hjl)
      rw [this]; rfl
    · refine ⟨fun h => by omega, fun _ => ?_⟩
      have hti : n.toNat = i := by omega
      rw [hti]
      refine ⟨hb, hi, by rw [hd]; simp, by rw [hd, hrl], ?_⟩
      intro j hj hji
      have h1 := notr s lower hl' j (by omega) (hmin j hj hji)
      by_cases hlu : lower = upper
      · subst hlu; rw [h1]; rfl
      · -- then n = 0 = i, nothing below
        have : n = 0 := Classical.byContradiction fun h => hc ⟨h, hlu⟩
        omega
  · have hc : n ≠ 0 ∧ lower ≠ upper := Classical.not_not.mp hc
    rw [if_pos hc]
    try simp only []
    rcases hL with ⟨hn1, hall⟩ | ⟨i, hni, hb, hi, hd, hmin⟩
    · -- B1: lower absent; the second search runs on all of s
      have hs' : (if 0 ≤ n ∧ n < (s.length : Int) then s.take n.toNat else s) = s := by
        rw [if_neg (by omega)]
      rw [hs']
      have hU := hirc s upper hu
      rw [if_pos (Or.inl hn1)]
      try simp only []
      rcases hU with ⟨ho1, hallu⟩ | ⟨i', hoi, hb', hi', hd', hmin'⟩
      · refine ⟨fun _ j hj hjl => candOf_false _ _ _ (notr s lower hl' j hjl (hall j hj hjl)) (notr s upper hu' j hjl (hallu j hj hjl)),
          fun h => by omega⟩
      · refine ⟨fun h => by omega, fun _ => ?_⟩
        have hti : (irc s upper).toNat = i' := by omega
        rw [hti]
        refine ⟨hb', hi', by rw [hd']; simp, by rw [hd', hrl], ?_⟩
        intro j hj hji
        exact candOf_false _ _ _ (notr s lower hl' j (by omega) (hall j hj (by omega))) (notr s upper hu' j (by omega) (hmin' j hj hji))
    · -- B2: lower first at i > 0; the second search runs on s.take i
      have hipos : 0 < i := by have := hc.1; omega
      have hs' : (if 0 ≤ n ∧ n < (s.length : Int) then s.take n.toNat else s) = s.take i := by
        rw [if_pos ⟨by omega, by omega⟩]
        have : n.toNat = i := by omega
        rw [this]
      rw [hs']
      have hU := hirc (s.take i) upper hu
      have htl : (s.take i).length = i := by rw [List.length_take]; omega
      -- facts about boundaries below i
      have below : ∀ j, IsBoundary s j → j < i →
          IsBoundary (s.take i) j ∧ decodeRune ((s.take i).drop j) = decodeRune (s.drop j) :=
        fun j hj hji => decode_take_boundary s i j hb hj hji
      generalize ho : irc (s.take i) upper = o at hU ⊢
      rcases hU with ⟨ho1, hallu⟩ | ⟨i', hoi, hb', hi', hd', hmin'⟩
      · -- upper absent below i: keep n
        have hcond : ¬ (n = -1 ∨ (0 ≤ o ∧ o < n)) := by omega
        rw [if_neg hcond]
        try simp only []
        refine ⟨fun h => by omega, fun _ => ?_⟩
        have hti : n.toNat = i := by omega
        rw [hti]
        refine ⟨hb, hi, by rw [hd]; simp, by rw [hd, hrl], ?_⟩
        intro j hj hji
        obtain ⟨hbt, hdt⟩ := below j hj hji
        have h2 := notr (s.take i) upper hu' j (by omega) (hallu j hbt (by omega))
        rw [hdt] at h2
        exact candOf_false _ _ _ (notr s lower hl' j (by omega) (hmin j hj hji)) h2
      · -- upper found at i' < i
        rw [htl] at hi'
        have hcond : n = -1 ∨ (0 ≤ o ∧ o < n) := Or.inr ⟨by omega, by omega⟩
        rw [if_pos hcond]
        try simp only []
        refine ⟨fun h => by omega, fun _ => ?_⟩
        have hti : o.toNat = i' := by omega
        rw [hti]
        have hbs : IsBoundary s i' := isBoundary_take_lift s i i' hb hb'
        obtain ⟨_, hdt⟩ := below i' hbs hi'
        rw [hdt] at hd'
        refine ⟨hbs, by omega, by rw [hd']; simp, by rw [hd', hrl], ?_⟩
        intro j hj hji
        obtain ⟨hbt, hdt'⟩ := below j hj (by omega)
        have h2 := notr (s.take i) upper hu' j (by omega) (hmin' j hbt hji)
        rw [hdt'] at h2
        exact candOf_false _ _ _ (notr s lower hl' j (by omega) (hmin j hj (by omega))) h2
#print axioms indexRune2_spec
end Utf8
