import SC.Proofs.ByteIndex
/-!
`indexRuneCase`'s search loops (the 2-, 3- and 4-byte copies, both the `NativeIndex` and the
portable hand-over) return the first occurrence of the encoded rune's bytes — for every haystack.
-/
namespace A
open Utf8

/-- `res` is the least start of an occurrence of `pat` in `s`, or -1 -/
def IsFirstOcc (s pat : Bytes) (res : Int) : Prop :=
  (res = -1 ∧ ∀ i, i ≤ s.length → ¬ pat <+: s.drop i) ∨
  (∃ k : Nat, res = (k : Int) ∧ k ≤ s.length ∧ pat <+: s.drop k ∧ ∀ i, i < k → ¬ pat <+: s.drop i)

theorem bytesIndex_isFirstOcc (s pat : Bytes) : IsFirstOcc s pat (bytesIndex s pat) := by
  rcases Int.lt_or_le (bytesIndex s pat) 0 with h | h
  · left
    have := bytesIndex_ge s pat
    exact ⟨by omega, bytesIndex_neg s pat h⟩
  · right
    obtain ⟨h1, h2, h3⟩ := bytesIndex_nonneg s pat h
    exact ⟨(bytesIndex s pat).toNat, by omega, h1, h2, h3⟩

theorem isFirstOcc_unique (s pat : Bytes) (a b : Int) (ha : IsFirstOcc s pat a) (hb : IsFirstOcc s pat b) : a = b := by
  rcases ha with ⟨ha, hna⟩ | ⟨i, ha, hli, hmi, hmini⟩ <;> rcases hb with ⟨hb, hnb⟩ | ⟨j, hb, hlj, hmj, hminj⟩
  · rw [ha, hb]
  · exact absurd hmj (hna j hlj)
  · exact absurd hmi (hnb i hli)
  · subst ha; subst hb
    rcases Nat.lt_trichotomy i j with h | h | h
    · exact absurd hmi (hminj i h)
    · rw [h]
    · exact absurd hmj (hmini j h)

theorem stdIndexByte_neg (s : Bytes) (c : UInt8) (h : stdIndexByte s c < 0) : ∀ j : Nat, s[j]? ≠ some c := by
  induction s with
  | nil => intro j; simp
  | cons b s ih =>
    simp only [stdIndexByte] at h
    split at h
    · omega
    · rename_i hb
      split at h
      · rename_i hr
        intro j
        cases j with
        | zero => simpa using hb
        | succ j => simpa using ih hr j
      · omega

theorem stdIndexByte_nonneg (s : Bytes) (c : UInt8) (h : 0 ≤ stdIndexByte s c) :
    s[(stdIndexByte s c).toNat]? = some c ∧ ∀ j, j < (stdIndexByte s c).toNat → s[j]? ≠ some c := by
  induction s with
  | nil => simp [stdIndexByte] at h
  | cons b s ih =>
    by_cases hb : b = c
    · have e : stdIndexByte (b :: s) c = 0 := by simp [stdIndexByte, hb]
      rw [e]; subst hb; simp
    · by_cases hr : stdIndexByte s c < 0
      · have e : stdIndexByte (b :: s) c = -1 := by simp [stdIndexByte, hb, hr]
        rw [e] at h; omega
      · have e : stdIndexByte (b :: s) c = stdIndexByte s c + 1 := by simp [stdIndexByte, hb, hr]
        rw [e]
        obtain ⟨h1, h2⟩ := ih (by omega)
        have : (stdIndexByte s c + 1).toNat = (stdIndexByte s c).toNat + 1 := by omega
        rw [this]
        refine ⟨by simpa using h1, ?_⟩
        intro j hj
        cases j with
        | zero => simpa using hb
        | succ j => simpa using h2 j (by omega)

/-- an occurrence of `enc` at `k` fits in `s` and shows the bytes of `enc` -/
theorem occ_getElem (s enc : Bytes) (k : Nat) (h : enc <+: s.drop k) (j : Nat) (hj : j < enc.length) :
    s[k + j]? = some (enc[j]'hj) := by
  obtain ⟨t, ht⟩ := h
  have : (s.drop k)[j]? = some (enc[j]'hj) := by
    rw [← ht, List.getElem?_append_left hj, List.getElem?_eq_getElem hj]
  simpa [List.getElem?_drop] using this

theorem occ_len (s enc : Bytes) (k : Nat) (h : enc <+: s.drop k) : k + enc.length ≤ s.length ∨ enc = [] := by
  by_cases he : enc = []
  · exact Or.inr he
  · left
    have := h.length_le
    simp only [List.length_drop] at this
    have hpos : 0 < enc.length := List.length_pos_iff.mpr he
    omega

theorem getD_eq (s : Bytes) (i : Nat) (hi : i < s.length) : s[i]? = some (s.getD i 0) := by
  simp [List.getD, List.getElem?_eq_getElem hi]

section
variable (cfg : Cfg) (enc s : Bytes)

/-- the portable tail loop -/
theorem ircTail_correct (hn : 1 ≤ enc.length) :
    ∀ fuel i, enc.length - 1 ≤ i → s.length + 1 ≤ fuel + min i s.length →
      (∀ k, k + enc.length ≤ i → ¬ enc <+: s.drop k) →
      IsFirstOcc s enc (ircTail enc s fuel i) := by
  intro fuel
  induction fuel with
  | zero => intro i _ hf _; omega
  | succ fuel ih =>
    intro i hi hf hinv
    simp only [ircTail]
    by_cases hil : i < s.length
    · rw [if_pos hil, if_neg (by omega)]
      by_cases hp : enc.isPrefixOf (s.drop (i + 1 - enc.length)) = true
      · rw [if_pos hp]
        right
        refine ⟨i + 1 - enc.length, rfl, by omega, List.isPrefixOf_iff_prefix.mp hp, ?_⟩
        intro k hk; exact hinv k (by omega)
      · rw [if_neg hp]
        apply ih (i + 1) (by omega) (by omega)
        intro k hk
        rcases Nat.lt_or_ge (k + enc.length) (i + 1) with h | h
        · exact hinv k (by omega)
        · have : k = i + 1 - enc.length := by omega
          subst this
          exact fun hh => hp (List.isPrefixOf_iff_prefix.mpr hh)
    · rw [if_neg hil]
      left; refine ⟨rfl, ?_⟩
      intro k _ hocc
      rcases occ_len s enc k hocc with h | h
      · exact hinv k (by omega) hocc
      · rw [h] at hn; simp at hn

/-- the next candidate position keeps the invariant "no occurrence ends before `i`" -/
theorem ircNext_spec (hn : 1 ≤ enc.length) (i : Nat) (hil : i < s.length)
    (hinv : ∀ k, k + enc.length ≤ i → ¬ enc <+: s.drop k) :
    (ircNext (enc.getD (enc.length - 1) 0) s i = none → ∀ k, k ≤ s.length → ¬ enc <+: s.drop k) ∧
    (∀ i', ircNext (enc.getD (enc.length - 1) 0) s i = some i' →
        i ≤ i' ∧ i' < s.length ∧ s[i']? = some (enc.getD (enc.length - 1) 0) ∧
        ∀ k, k + enc.length ≤ i' → ¬ enc <+: s.drop k) := by
  have hlast : ∀ k, enc <+: s.drop k → s[k + (enc.length - 1)]? = some (enc.getD (enc.length - 1) 0) := by
    intro k hk
    have := occ_getElem s enc k hk (enc.length - 1) (by omega)
    rw [this]; simp [List.getD, List.getElem?_eq_getElem (show enc.length - 1 < enc.length by omega)]
  unfold ircNext
  by_cases hsi : s.getD i 0 ≠ enc.getD (enc.length - 1) 0
  · simp only [if_pos hsi]
    by_cases ho : stdIndexByte (s.drop (i + 1)) (enc.getD (enc.length - 1) 0) < 0
    · rw [if_pos ho]
      refine ⟨fun _ => ?_, fun i' h => by cases h⟩
      intro k _ hocc
      have hl := hlast k hocc
      rcases Nat.lt_trichotomy (k + (enc.length - 1)) i with h | h | h
      · exact hinv k (by omega) hocc
      · rw [h, getD_eq s i hil] at hl
        exact hsi (Option.some.inj hl)
      · have := stdIndexByte_neg _ _ ho (k + (enc.length - 1) - (i + 1))
        rw [List.getElem?_drop] at this
        have e : i + 1 + (k + (enc.length - 1) - (i + 1)) = k + (enc.length - 1) := by omega
        rw [e] at this
        exact this hl
    · rw [if_neg ho]
      refine ⟨fun h => (by cases h), ?_⟩
      intro i' hi'
      have ho' : 0 ≤ stdIndexByte (s.drop (i + 1)) (enc.getD (enc.length - 1) 0) := by omega
      obtain ⟨hat, hbefore⟩ := stdIndexByte_nonneg _ _ ho'
      generalize (stdIndexByte (s.drop (i + 1)) (enc.getD (enc.length - 1) 0)).toNat = o at hat hbefore hi'
      have hi'e : i' = i + o + 1 := (Option.some.inj hi').symm
      subst hi'e
      rw [List.getElem?_drop] at hat
      have e : i + 1 + o = i + o + 1 := by omega
      rw [e] at hat
      have hlen : i + o + 1 < s.length := (List.getElem?_eq_some_iff.mp hat).1
      refine ⟨by omega, hlen, hat, ?_⟩
      intro k hk hocc
      have hl := hlast k hocc
      rcases Nat.lt_trichotomy (k + (enc.length - 1)) i with h | h | h
      · exact hinv k (by omega) hocc
      · rw [h, getD_eq s i hil] at hl
        exact hsi (Option.some.inj hl)
      · have := hbefore (k + (enc.length - 1) - (i + 1)) (by omega)
        rw [List.getElem?_drop] at this
        have e : i + 1 + (k + (enc.length - 1) - (i + 1)) = k + (enc.length - 1) := by omega
        rw [e] at this
        exact this hl
  · have hsi' : s.getD i 0 = enc.getD (enc.length - 1) 0 := Decidable.not_not.mp hsi
    simp only [if_neg hsi]
    refine ⟨fun h => (by cases h), ?_⟩
    intro i' hi'
    have : i' = i := (Option.some.inj hi').symm
    subst this
    exact ⟨Nat.le_refl _, hil, by rw [getD_eq s i' hil, hsi'], hinv⟩

/-- the search loop of indexRuneCase returns the first occurrence of `enc` -/
theorem ircLoop_correct (hn : 2 ≤ enc.length) (h2 : enc.length = 2 → enc.getD 0 0 ≠ enc.getD 1 0) :
    ∀ fuel i fails, enc.length - 1 ≤ i → s.length + 1 ≤ fuel + min i s.length →
      (∀ k, k + enc.length ≤ i → ¬ enc <+: s.drop k) →
      IsFirstOcc s enc (ircLoop cfg enc s fuel i fails) := by
  intro fuel
  induction fuel with
  | zero => intro i _ _ hf _; omega
  | succ fuel ih =>
    intro i fails hi hf hinv
    simp only [ircLoop]
    by_cases hil : i < s.length
    case neg =>
      rw [if_neg hil]
      left; refine ⟨rfl, ?_⟩
      intro k _ hocc
      rcases occ_len s enc k hocc with h | h
      · exact hinv k (by omega) hocc
      · rw [h] at hn; simp at hn
    rw [if_pos hil]
    obtain ⟨hnone, hsome⟩ := ircNext_spec enc s (by omega) i hil hinv
    cases hnx : ircNext (enc.getD (enc.length - 1) 0) s i with
    | none => exact Or.inl ⟨rfl, hnone hnx⟩
    | some i' =>
      obtain ⟨hii', hi'len, hat, hinv'⟩ := hsome i' hnx
      simp only []
      rw [if_neg (by omega)]
      by_cases hp : enc.isPrefixOf (s.drop (i' + 1 - enc.length)) = true
      · rw [if_pos hp]
        right
        refine ⟨i' + 1 - enc.length, rfl, by omega, List.isPrefixOf_iff_prefix.mp hp, ?_⟩
        intro k hk; exact hinv' k (by omega)
      · rw [if_neg hp]
        -- invariant after the failed candidate
        have hinv'' : ∀ k, k + enc.length ≤ i' + 1 → ¬ enc <+: s.drop k := by
          intro k hk
          rcases Nat.lt_or_ge (k + enc.length) (i' + 1) with h | h
          · exact hinv' k (by omega)
          · have : k = i' + 1 - enc.length := by omega
            subst this
            exact fun hh => hp (List.isPrefixOf_iff_prefix.mpr hh)
        split
        · -- hand-over
          split
          · -- native: bytealg.IndexString on a suffix
            rename_i hnat
            have hback : (if enc.length = 2 then 0 else enc.length - 1) ≤ i' + 1 := by split <;> omega
            rw [if_neg (by omega)]
            generalize hb : (if enc.length = 2 then 0 else enc.length - 1) = back at hback
            -- no occurrence starts before the hand-over point
            have hbefore : ∀ k, k < i' + 1 - back → ¬ enc <+: s.drop k := by
              intro k hk hocc
              by_cases hn2 : enc.length = 2
              · rw [if_pos hn2] at hb; subst hb
                rcases Nat.lt_or_ge (k + 2) (i' + 2) with h | h
                · exact hinv'' k (by omega) hocc
                · -- k = i': the byte at i' is the last byte of enc, not its first
                  have hk' : k = i' := by omega
                  subst hk'
                  have h0 := occ_getElem s enc k hocc 0 (by omega)
                  rw [Nat.add_zero, hat] at h0
                  have e1 : enc.getD (enc.length - 1) 0 = enc.getD 1 0 := by rw [hn2]
                  have e0 : enc[0]'(by omega) = enc.getD 0 0 := by
                    simp [List.getD, List.getElem?_eq_getElem (show 0 < enc.length by omega)]
                  rw [e1, e0] at h0
                  exact h2 hn2 (Option.some.inj h0).symm
              · rw [if_neg hn2] at hb; subst hb
                exact hinv'' k (by omega) hocc
            have hspec := bytesIndex_isFirstOcc (s.drop (i' + 1 - back)) enc
            rcases hspec with ⟨hj, hnone'⟩ | ⟨j, hj, hjl, hocc, hmin⟩
            · rw [hj]; simp only [ne_eq, not_true_eq_false, if_false]
              left; refine ⟨rfl, ?_⟩
              intro k hk hocc
              rcases Nat.lt_or_ge k (i' + 1 - back) with h | h
              · exact hbefore k h hocc
              · apply hnone' (k - (i' + 1 - back)) (by simp only [List.length_drop]; omega)
                rw [List.drop_drop]
                have e : i' + 1 - back + (k - (i' + 1 - back)) = k := by omega
                rwa [e]
            · rw [hj]
              have hne : ¬ ((j : Int) = -1) := by omega
              simp only [ne_eq, hne, not_false_eq_true, if_true]
              right
              simp only [List.length_drop] at hjl
              rw [List.drop_drop] at hocc
              refine ⟨i' + 1 - back + j, by omega, by omega, hocc, ?_⟩
              intro k hk hocc'
              rcases Nat.lt_or_ge k (i' + 1 - back) with h | h
              · exact hbefore k h hocc'
              · apply hmin (k - (i' + 1 - back)) (by omega)
                rw [List.drop_drop]
                have e : i' + 1 - back + (k - (i' + 1 - back)) = k := by omega
                rwa [e]
          · exact ircTail_correct enc s (by omega) (s.length + 1) (i' + 1) (by omega) (by omega) hinv''
        · exact ih (i' + 1) (fails + 1) (by omega) (by omega) hinv''
end
end A
