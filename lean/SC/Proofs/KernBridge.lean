import SC.Proofs.KernBlocks
import SC.Model.Spec
/-!
Bridge between the two views of a kernel's argument: the block models read a memory `Nat → UInt8` at
`base … base+len`, the algorithm model and the portable Go kernels read a list of bytes.  When the memory holds
the list, the scalar definitions coincide — so every backend (portable Go, no-POPCNT fall-back, SSE blocks, AVX2
blocks) computes the same function of the argument.
-/
namespace Kern
open Utf8

/-- the memory holds `s` at `base` -/
def Holds (mem : Mem) (base : Nat) (s : Bytes) : Prop := ∀ i (h : i < s.length), mem (base + i) = s[i]

theorem blk_list (q : UInt8 → Bool) (mem : Mem) (a : Nat) : ∀ (s : Bytes) (j : Nat),
    (∀ k (h : k < s.length), mem (a + j + k) = s[k]) →
    (match blk q mem a j s.length with | some i => (i : Int) | none => -1) = S.firstAt (fun x => q (x.headD 0)) s j
  | [], _, _ => rfl
  | b :: rest, j, h => by
    have hb : mem (a + j) = b := by have := h 0 (by simp); simpa using this
    have ih := blk_list q mem a rest (j + 1) (fun k hk => by
      have := h (k + 1) (by simpa using hk)
      have e : a + j + (k + 1) = a + (j + 1) + k := by omega
      rw [e] at this; simpa using this)
    have e1 : blk q mem a j (b :: rest).length = if q b = true then some j else blk q mem a (j + 1) rest.length := by
      simp only [List.length_cons, blk, hb]
    have e2 : S.firstAt (fun x => q (x.headD 0)) (b :: rest) j =
        if q b = true then (j : Int) else S.firstAt (fun x => q (x.headD 0)) rest (j + 1) := rfl
    rw [e1, e2]
    by_cases hq : q b = true
    · rw [if_pos hq, if_pos hq]
    · rw [if_neg hq, if_neg hq]; exact ih

/-- the memory-level search definition is the list-level one -/
theorem specIndex_list (q : UInt8 → Bool) (mem : Mem) (base : Nat) (s : Bytes) (h : Holds mem base s) :
    specIndex q mem base s.length = S.firstAt (fun x => q (x.headD 0)) s 0 := by
  unfold specIndex
  exact blk_list q mem base s 0 (fun k hk => by simpa using h k hk)

theorem cntBlk_list (q : UInt8 → Bool) (mem : Mem) (a : Nat) : ∀ (s : Bytes) (j : Nat),
    (∀ k (h : k < s.length), mem (a + j + k) = s[k]) → cntBlk q mem a j s.length = (s.filter q).length
  | [], _, _ => rfl
  | b :: rest, j, h => by
    have hb : mem (a + j) = b := by have := h 0 (by simp); simpa using this
    have ih := cntBlk_list q mem a rest (j + 1) (fun k hk => by
      have := h (k + 1) (by simpa using hk)
      have e : a + j + (k + 1) = a + (j + 1) + k := by omega
      rw [e] at this; simpa using this)
    simp only [List.length_cons, cntBlk, hb, ih, List.filter_cons]
    by_cases hq : q b = true
    · rw [if_pos hq, if_pos hq]; simp; omega
    · rw [if_neg hq, if_neg hq]; simp

/-- the memory-level count definition is the list-level one -/
theorem specCount_list (q : UInt8 → Bool) (mem : Mem) (base : Nat) (s : Bytes) (h : Holds mem base s) :
    specCount q mem base s.length = (s.filter q).length := by
  unfold specCount
  exact cntBlk_list q mem base s 0 (fun k hk => by simpa using h k hk)

end Kern
