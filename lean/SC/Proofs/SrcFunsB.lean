import SC.Proofs.SrcNamesB
/-!
The theorems of `Proofs/SrcFuns.lean` for the regenerated `bytcase/bytcase.go` (`Gen.Src.byt`): generated from that file by
renaming (the wrappers of the two packages have the same go/ssa shape; where they do not, this file stops compiling).
-/
namespace GoSsa.Byt
open GoSsa Gen.Src

/-! ### leaf functions -/

/-- `clamp` -/
theorem clamp (n : Int) (h : Heap) : Ret P true byt_clamp [.int n] h [.int (Utf8.clamp n)] h := by
  refine ⟨6, fun fuel hf => ?_⟩
  obtain ⟨m, rfl⟩ : ∃ m, fuel = m + 6 := ⟨fuel - 6, by omega⟩
  rw [Frame.entry]
  by_cases h1 : n < 0
  · src_run [byt_clamp, byt_clamp_b0, byt_clamp_b1, byt_clamp_b2, byt_clamp_b3, byt_clamp_b4, Utf8.clamp, h1]
  · by_cases h2 : 0 < n
    · src_run [byt_clamp, byt_clamp_b0, byt_clamp_b1, byt_clamp_b2, byt_clamp_b3, byt_clamp_b4, Utf8.clamp, h1, h2]
    · src_run [byt_clamp, byt_clamp_b0, byt_clamp_b1, byt_clamp_b2, byt_clamp_b3, byt_clamp_b4, Utf8.clamp, h1, h2]

/-- `isAlpha`: `'A' <= c && c <= 'Z' || 'a' <= c && c <= 'z'` -/
theorem isAlpha (c : Int) (h : Heap) :
    Ret P true byt_isAlpha [.int c] h [.bool (decide ((65 ≤ c ∧ c ≤ 90) ∨ (97 ≤ c ∧ c ≤ 122)))] h := by
  refine ⟨12, fun fuel hf => ?_⟩
  obtain ⟨m, rfl⟩ : ∃ m, fuel = m + 12 := ⟨fuel - 12, by omega⟩
  rw [Frame.entry]
  by_cases h1 : 65 ≤ c <;> by_cases h2 : c ≤ 90 <;> by_cases h3 : 97 ≤ c <;> by_cases h4 : c ≤ 122 <;>
    src_run [byt_isAlpha, byt_isAlpha_b0, byt_isAlpha_b1, byt_isAlpha_b2, byt_isAlpha_b3, byt_isAlpha_b4, byt_isAlpha_b5, h1, h2, h3, h4] <;>
    omega


/-! ### thin wrappers, relative to what the function they call returns -/

/-- `EqualFold(s, t) = Compare(s, t) == 0` -/
theorem EqualFold (s t : Val) (h h' : Heap) (c : Int) (hC : Ret P true byt_Compare [s, t] h [.int c] h') :
    Ret P true byt_EqualFold [s, t] h [.bool (decide (c = 0))] h' := by
  obtain ⟨n, hn⟩ := hC
  refine ⟨n + 3, fun fuel hf => ?_⟩
  obtain ⟨m, rfl⟩ : ∃ m, fuel = m + 3 := ⟨fuel - 3, by omega⟩
  have hC' := hn (m + 2) (by omega)
  rw [Frame.entry]
  src_run [byt_EqualFold, byt_EqualFold_b0, run_call_fn (hb := nb_Compare) (hf := find_Compare), hC']

/-- `Contains(s, t) = Index(s, t) >= 0` -/
theorem Contains (s t : Val) (h h' : Heap) (i : Int) (hC : Ret P true byt_Index [s, t] h [.int i] h') :
    Ret P true byt_Contains [s, t] h [.bool (decide (0 ≤ i))] h' := by
  obtain ⟨n, hn⟩ := hC
  refine ⟨n + 3, fun fuel hf => ?_⟩
  obtain ⟨m, rfl⟩ : ∃ m, fuel = m + 3 := ⟨fuel - 3, by omega⟩
  have hC' := hn (m + 2) (by omega)
  rw [Frame.entry]
  src_run [byt_Contains, byt_Contains_b0, run_call_fn (hb := nb_Index) (hf := find_Index), hC']

/-- `ContainsAny(s, chars) = IndexAny(s, chars) >= 0` -/
theorem ContainsAny (s t : Val) (h h' : Heap) (i : Int) (hC : Ret P true byt_IndexAny [s, t] h [.int i] h') :
    Ret P true byt_ContainsAny [s, t] h [.bool (decide (0 ≤ i))] h' := by
  obtain ⟨n, hn⟩ := hC
  refine ⟨n + 3, fun fuel hf => ?_⟩
  obtain ⟨m, rfl⟩ : ∃ m, fuel = m + 3 := ⟨fuel - 3, by omega⟩
  have hC' := hn (m + 2) (by omega)
  rw [Frame.entry]
  src_run [byt_ContainsAny, byt_ContainsAny_b0, run_call_fn (hb := nb_IndexAny) (hf := find_IndexAny), hC']

/-- `IndexRune(s, r)` is the first result of `indexRune(s, r)` -/
theorem IndexRune (s r : Val) (h h' : Heap) (i w : Val) (hC : Ret P true byt_indexRune [s, r] h [i, w] h') :
    Ret P true byt_IndexRune [s, r] h [i] h' := by
  obtain ⟨n, hn⟩ := hC
  refine ⟨n + 4, fun fuel hf => ?_⟩
  obtain ⟨m, rfl⟩ : ∃ m, fuel = m + 4 := ⟨fuel - 4, by omega⟩
  have hC' := hn (m + 3) (by omega)
  rw [Frame.entry]
  src_run [byt_IndexRune, byt_IndexRune_b0, run_call_fn (hb := nb_indexRune) (hf := find_indexRune), hC']

/-- `ContainsRune(s, r) = IndexRune(s, r) >= 0` -/
theorem ContainsRune (s r : Val) (h h' : Heap) (i : Int) (hC : Ret P true byt_IndexRune [s, r] h [.int i] h') :
    Ret P true byt_ContainsRune [s, r] h [.bool (decide (0 ≤ i))] h' := by
  obtain ⟨n, hn⟩ := hC
  refine ⟨n + 3, fun fuel hf => ?_⟩
  obtain ⟨m, rfl⟩ : ∃ m, fuel = m + 3 := ⟨fuel - 3, by omega⟩
  have hC' := hn (m + 2) (by omega)
  rw [Frame.entry]
  src_run [byt_ContainsRune, byt_ContainsRune_b0, run_call_fn (hb := nb_IndexRune) (hf := find_IndexRune), hC']

/-- `HasPrefix(s, p)` is the first result of `hasPrefixUnicode(s, p)` -/
theorem HasPrefix (s t : Val) (h h' : Heap) (b e : Val) (hC : Ret P true byt_hasPrefixUnicode [s, t] h [b, e] h') :
    Ret P true byt_HasPrefix [s, t] h [b] h' := by
  obtain ⟨n, hn⟩ := hC
  refine ⟨n + 4, fun fuel hf => ?_⟩
  obtain ⟨m, rfl⟩ : ∃ m, fuel = m + 4 := ⟨fuel - 4, by omega⟩
  have hC' := hn (m + 3) (by omega)
  rw [Frame.entry]
  src_run [byt_HasPrefix, byt_HasPrefix_b0, run_call_fn (hb := nb_hasPrefixUnicode) (hf := find_hasPrefixUnicode), hC']

/-- `HasSuffix(s, t)` is the first result of `hasSuffixUnicode(s, t)` -/
theorem HasSuffix (s t : Val) (h h' : Heap) (b e : Val) (hC : Ret P true byt_hasSuffixUnicode [s, t] h [b, e] h') :
    Ret P true byt_HasSuffix [s, t] h [b] h' := by
  obtain ⟨n, hn⟩ := hC
  refine ⟨n + 4, fun fuel hf => ?_⟩
  obtain ⟨m, rfl⟩ : ∃ m, fuel = m + 4 := ⟨fuel - 4, by omega⟩
  have hC' := hn (m + 3) (by omega)
  rw [Frame.entry]
  src_run [byt_HasSuffix, byt_HasSuffix_b0, run_call_fn (hb := nb_hasSuffixUnicode) (hf := find_hasSuffixUnicode), hC']

/-- `IndexNonASCII(s) = bytealg.IndexNonASCII(s)` -/
theorem IndexNonASCII (s : Utf8.Bytes) (r o : Nat) (h : Heap) :
    Ret P true byt_IndexNonASCII [.str s r o] h [.int (A.kIndexNonASCII s)] h := by
  refine ⟨3, fun fuel hf => ?_⟩
  obtain ⟨m, rfl⟩ : ∃ m, fuel = m + 3 := ⟨fuel - 3, by omega⟩
  rw [Frame.entry]
  have hb : ∀ (fr : Frame), builtin true "bytealg.IndexByteNonASCII" [.str s r o] h = some (.ok [.int (A.kIndexNonASCII s)] h) := fun _ => rfl
  src_run [byt_IndexNonASCII, byt_IndexNonASCII_b0]
  rw [run_call_ext (hb := by simpa [Frame.val] using hb default)]
  src_run []


/-- `ContainsNonASCII(s) = bytealg.IndexNonASCII(s) >= 0` -/
theorem ContainsNonASCII (s : Utf8.Bytes) (r o : Nat) (h : Heap) :
    Ret P true byt_ContainsNonASCII [.str s r o] h [.bool (decide (0 ≤ A.kIndexNonASCII s))] h := by
  refine ⟨4, fun fuel hf => ?_⟩
  obtain ⟨m, rfl⟩ : ∃ m, fuel = m + 4 := ⟨fuel - 4, by omega⟩
  rw [Frame.entry]
  have hb : builtin true "bytealg.IndexByteNonASCII" [.str s r o] h = some (.ok [.int (A.kIndexNonASCII s)] h) := rfl
  src_run [byt_ContainsNonASCII, byt_ContainsNonASCII_b0]
  rw [run_call_ext (hb := by simpa [Frame.val] using hb)]
  src_run []

/-- `IndexByteASCII(s, c) = bytealg.IndexByteString(s, c)` -/
theorem IndexByteASCII (s : Utf8.Bytes) (r o : Nat) (c : Int) (h : Heap) :
    Ret P true byt_IndexByteASCII [.str s r o, .int c] h [.int (A.kIndexByte s (UInt8.ofNat c.toNat))] h := by
  refine ⟨3, fun fuel hf => ?_⟩
  obtain ⟨m, rfl⟩ : ∃ m, fuel = m + 3 := ⟨fuel - 3, by omega⟩
  rw [Frame.entry]
  have hb : builtin true "bytealg.IndexByte" [.str s r o, .int c] h = some (.ok [.int (A.kIndexByte s (UInt8.ofNat c.toNat))] h) := rfl
  src_run [byt_IndexByteASCII, byt_IndexByteASCII_b0]
  rw [run_call_ext (hb := by simpa [Frame.val] using hb)]
  src_run []

/-- `IndexByte(s, c)`: `indexByte` for `K S k s`, the byte kernel otherwise -/
theorem IndexByte (s : Utf8.Bytes) (r o : Nat) (c : Int) (h h' : Heap) (i w : Val)
    (hC : (c = 75 ∨ c = 83 ∨ c = 107 ∨ c = 115) → Ret P true byt_indexByte [.str s r o, .int c] h [i, w] h') :
    Ret P true byt_IndexByte [.str s r o, .int c] h
      (if c = 75 ∨ c = 83 ∨ c = 107 ∨ c = 115 then [i] else [.int (A.kIndexByte s (UInt8.ofNat c.toNat))])
      (if c = 75 ∨ c = 83 ∨ c = 107 ∨ c = 115 then h' else h) := by
  by_cases hk : c = 75 ∨ c = 83 ∨ c = 107 ∨ c = 115
  · obtain ⟨n, hn⟩ := hC hk
    refine ⟨n + 14, fun fuel hf => ?_⟩
    obtain ⟨m, rfl⟩ : ∃ m, fuel = m + 14 := ⟨fuel - 14, by omega⟩
    rw [Frame.entry, if_pos hk, if_pos hk]
    rcases hk with h1 | h1 | h1 | h1 <;> subst h1
    · have hC' := hn (m + 11) (by omega)
      src_run [byt_IndexByte, byt_IndexByte_b0, byt_IndexByte_b1, byt_IndexByte_b2, byt_IndexByte_b3, byt_IndexByte_b4, byt_IndexByte_b5,
        run_call_fn (hb := nb_indexByte) (hf := find_indexByte), hC']
    · have hC' := hn (m + 9) (by omega)
      src_run [byt_IndexByte, byt_IndexByte_b0, byt_IndexByte_b1, byt_IndexByte_b2, byt_IndexByte_b3, byt_IndexByte_b4, byt_IndexByte_b5,
        run_call_fn (hb := nb_indexByte) (hf := find_indexByte), hC']
    · have hC' := hn (m + 7) (by omega)
      src_run [byt_IndexByte, byt_IndexByte_b0, byt_IndexByte_b1, byt_IndexByte_b2, byt_IndexByte_b3, byt_IndexByte_b4, byt_IndexByte_b5,
        run_call_fn (hb := nb_indexByte) (hf := find_indexByte), hC']
    · have hC' := hn (m + 5) (by omega)
      src_run [byt_IndexByte, byt_IndexByte_b0, byt_IndexByte_b1, byt_IndexByte_b2, byt_IndexByte_b3, byt_IndexByte_b4, byt_IndexByte_b5,
        run_call_fn (hb := nb_indexByte) (hf := find_indexByte), hC']
  · refine ⟨14, fun fuel hf => ?_⟩
    obtain ⟨m, rfl⟩ : ∃ m, fuel = m + 14 := ⟨fuel - 14, by omega⟩
    rw [Frame.entry, if_neg hk, if_neg hk]
    have h1 : ¬ c = 75 := fun e => hk (Or.inl e)
    have h2 : ¬ c = 83 := fun e => hk (Or.inr (Or.inl e))
    have h3 : ¬ c = 107 := fun e => hk (Or.inr (Or.inr (Or.inl e)))
    have h4 : ¬ c = 115 := fun e => hk (Or.inr (Or.inr (Or.inr e)))
    have hb : builtin true "bytealg.IndexByte" [.str s r o, .int c] h = some (.ok [.int (A.kIndexByte s (UInt8.ofNat c.toNat))] h) := rfl
    src_run [byt_IndexByte, byt_IndexByte_b0, byt_IndexByte_b1, byt_IndexByte_b2, byt_IndexByte_b3, byt_IndexByte_b4, byt_IndexByte_b5, h1, h2, h3, h4]
    rw [run_call_ext (hb := by simpa [Frame.val] using hb)]
    src_run []


/-- `TrimSuffix(s, t)`: `s[:i]` when `hasSuffixUnicode` matched at `i`, otherwise `s` -/
theorem TrimSuffix (s : Utf8.Bytes) (r o : Nat) (t : Val) (h h' : Heap) (b : Bool) (k : Nat) (hk : b = true → k ≤ s.length)
    (hC : Ret P true byt_hasSuffixUnicode [.str s r o, t] h [.bool b, .int k] h') :
    Ret P true byt_TrimSuffix [.str s r o, t] h [if b then .str (s.take k) r o else .str s r o] h' := by
  obtain ⟨n, hn⟩ := hC
  refine ⟨n + 8, fun fuel hf => ?_⟩
  obtain ⟨m, rfl⟩ : ∃ m, fuel = m + 8 := ⟨fuel - 8, by omega⟩
  have hC' := hn (m + 7) (by omega)
  rw [Frame.entry]
  cases b
  · src_run [byt_TrimSuffix, byt_TrimSuffix_b0, byt_TrimSuffix_b1, byt_TrimSuffix_b2, run_call_fn (hb := nb_hasSuffixUnicode) (hf := find_hasSuffixUnicode),
      hC', intOf]
  · have hk' := hk rfl
    src_run [byt_TrimSuffix, byt_TrimSuffix_b0, byt_TrimSuffix_b1, byt_TrimSuffix_b2, run_call_fn (hb := nb_hasSuffixUnicode) (hf := find_hasSuffixUnicode),
      hC', intOf, hk']

/-- `CutSuffix(s, t)` -/
theorem CutSuffix (s t : Utf8.Bytes) (r o r2 o2 : Nat) (h h' : Heap) (b : Bool) (k : Nat) (hk : b = true → k ≤ s.length)
    (hC : t ≠ [] → Ret P true byt_hasSuffixUnicode [.str s r o, .str t r2 o2] h [.bool b, .int k] h') :
    Ret P true byt_CutSuffix [.str s r o, .str t r2 o2] h
      (if t = [] then [.str s r o, .bool true] else if b then [.str (s.take k) r o, .bool true] else [.str s r o, .bool false])
      (if t = [] then h else h') := by
  by_cases ht : t = []
  · subst ht
    refine ⟨8, fun fuel hf => ?_⟩
    obtain ⟨m, rfl⟩ : ∃ m, fuel = m + 8 := ⟨fuel - 8, by omega⟩
    rw [Frame.entry]
    src_run [byt_CutSuffix, byt_CutSuffix_b0, byt_CutSuffix_b1]
  · obtain ⟨n, hn⟩ := hC ht
    refine ⟨n + 12, fun fuel hf => ?_⟩
    obtain ⟨m, rfl⟩ : ∃ m, fuel = m + 12 := ⟨fuel - 12, by omega⟩
    have hC' := hn (m + 8) (by omega)
    have hl : ¬ (t.length : Int) = 0 := by
      intro e; exact ht (List.eq_nil_of_length_eq_zero (by omega))
    rw [Frame.entry, if_neg ht, if_neg ht]
    cases b
    · src_run [byt_CutSuffix, byt_CutSuffix_b0, byt_CutSuffix_b1, byt_CutSuffix_b2, byt_CutSuffix_b3, byt_CutSuffix_b4,
        run_call_fn (hb := nb_hasSuffixUnicode) (hf := find_hasSuffixUnicode), hC', intOf, hl, ht]
    · have hk' := hk rfl
      src_run [byt_CutSuffix, byt_CutSuffix_b0, byt_CutSuffix_b1, byt_CutSuffix_b2, byt_CutSuffix_b3, byt_CutSuffix_b4,
        run_call_fn (hb := nb_hasSuffixUnicode) (hf := find_hasSuffixUnicode), hC', intOf, hk', hl, ht]

/-- `CutPrefix(s, p)`: through `TrimPrefix` and a comparison of lengths -/
theorem CutPrefix (s t : Utf8.Bytes) (r o r2 o2 : Nat) (h h' : Heap) (u : Utf8.Bytes) (ru ou : Nat)
    (hC : t ≠ [] → Ret P true byt_TrimPrefix [.str s r o, .str t r2 o2] h [.str u ru ou] h') :
    Ret P true byt_CutPrefix [.str s r o, .str t r2 o2] h
      (if t = [] then [.str s r o, .bool true] else if u.length ≠ s.length then [.str u ru ou, .bool true] else [.str s r o, .bool false])
      (if t = [] then h else h') := by
  by_cases ht : t = []
  · subst ht
    refine ⟨8, fun fuel hf => ?_⟩
    obtain ⟨m, rfl⟩ : ∃ m, fuel = m + 8 := ⟨fuel - 8, by omega⟩
    rw [Frame.entry]
    src_run [byt_CutPrefix, byt_CutPrefix_b0, byt_CutPrefix_b1]
  · obtain ⟨n, hn⟩ := hC ht
    refine ⟨n + 12, fun fuel hf => ?_⟩
    obtain ⟨m, rfl⟩ : ∃ m, fuel = m + 12 := ⟨fuel - 12, by omega⟩
    have hC' := hn (m + 8) (by omega)
    have hl : ¬ (t.length : Int) = 0 := by
      intro e; exact ht (List.eq_nil_of_length_eq_zero (by omega))
    rw [Frame.entry, if_neg ht, if_neg ht]
    by_cases hu : u.length = s.length
    · have hu' : (u.length : Int) = s.length := by omega
      src_run [byt_CutPrefix, byt_CutPrefix_b0, byt_CutPrefix_b1, byt_CutPrefix_b2, byt_CutPrefix_b3, byt_CutPrefix_b4,
        run_call_fn (hb := nb_TrimPrefix) (hf := find_TrimPrefix), hC', hl, hu, hu', ht]
    · have hu' : ¬ (u.length : Int) = s.length := by omega
      src_run [byt_CutPrefix, byt_CutPrefix_b0, byt_CutPrefix_b1, byt_CutPrefix_b2, byt_CutPrefix_b3, byt_CutPrefix_b4,
        run_call_fn (hb := nb_TrimPrefix) (hf := find_TrimPrefix), hC', hl, hu, hu', ht]

/-- `containsKelvin(s)`: `len(s) > 0 && (indexRuneCase(s, 'K') != -1 || indexRuneCase(s, U+FFFD) != -1)` -/
theorem containsKelvin (s : Utf8.Bytes) (r o : Nat) (h : Heap) (i j : Int)
    (hK : Ret P true byt_indexRuneCase [.str s r o, .int 8490] h [.int i] h)
    (hF : Ret P true byt_indexRuneCase [.str s r o, .int 65533] h [.int j] h) :
    Ret P true byt_containsKelvin [.str s r o] h [.bool (decide (0 < s.length) && (decide (i ≠ -1) || decide (j ≠ -1)))] h := by
  obtain ⟨n1, hn1⟩ := hK
  obtain ⟨n2, hn2⟩ := hF
  refine ⟨n1 + n2 + 16, fun fuel hf => ?_⟩
  obtain ⟨m, rfl⟩ : ∃ m, fuel = n1 + n2 + m + 16 := ⟨fuel - (n1 + n2 + 16), by omega⟩
  rw [Frame.entry]
  by_cases h0 : 0 < s.length
  · have h0' : (0 : Int) < s.length := by omega
    by_cases hi : i = -1
    · by_cases hj : j = -1 <;>
        src_run [byt_containsKelvin, byt_containsKelvin_b0, byt_containsKelvin_b1, byt_containsKelvin_b2, byt_containsKelvin_b3, byt_containsKelvin_b4,
          run_call_fn (hb := nb_indexRuneCase) (hf := find_indexRuneCase), hn1, hn2, h0, h0', hi, hj]
    · src_run [byt_containsKelvin, byt_containsKelvin_b0, byt_containsKelvin_b1, byt_containsKelvin_b2, byt_containsKelvin_b3, byt_containsKelvin_b4,
        run_call_fn (hb := nb_indexRuneCase) (hf := find_indexRuneCase), hn1, hn2, h0, h0', hi]
  · have h0' : ¬ (0 : Int) < s.length := by omega
    src_run [byt_containsKelvin, byt_containsKelvin_b0, byt_containsKelvin_b1, byt_containsKelvin_b2, byt_containsKelvin_b3, byt_containsKelvin_b4, h0, h0']

end GoSsa.Byt
