import SC.Proofs.Skel
namespace Utf8
open A

/-- the callees of strcase.Index -/
structure DEnv where
  indexByte : Bytes → UInt8 → Int
  indexRune : Bytes → Nat → Int
  brute : Bytes → Bytes → Int
  rk : Bytes → Bytes → Int
  skip : Bytes → Bytes → Int
  bytesIdx : Bytes → Bytes → Int
  nonLetterASCII : Bytes → Bool
  containsKelvin : Bytes → Bool
  nativeIndex : Bool
  maxLen : Nat
  maxBruteForce : Nat

/-- the dispatch of strcase.Index (strcase.go:541-628), thresholds as parameters -/
def Index (E : DEnv) (s sub : Bytes) : Int :=
  let n := sub.length
  if n = 0 then 0
  else
    let p := decodeRune sub
    if n = 1 ∧ p.1 ≠ runeError then E.indexByte s (sub.headD 0)
    else if n = p.2 then E.indexRune s p.1
    else if n ≥ s.length then
      if n > s.length * 3 then -1
      else
        let i := E.indexRune s p.1
        if i < 0 then -1
        else if n > (s.drop i.toNat).length * 2 ∧ E.containsKelvin sub = false then -1
        else
          let o := E.brute (s.drop i.toNat) sub
          if o ≠ -1 then o + i else -1
    else if n ≤ E.maxLen ∧ E.nativeIndex = true ∧ E.nonLetterASCII sub = true then E.bytesIdx s sub
    else if n ≤ E.maxLen ∧ s.length ≤ E.maxBruteForce then E.brute s sub
    else if p.1 = runeError ∨ (decodeRune (sub.drop p.2)).1 = runeError then E.rk s sub
    else E.skip s sub

section
variable (fold : Nat → Nat)

/-- contracts of the callees (each a theorem of its own) -/
structure DHyp (E : DEnv) (sub : Bytes) : Prop where
  hIB : ∀ s, sub.length = 1 → (decodeRune sub).1 ≠ runeError → IsIndex fold s sub (E.indexByte s (sub.headD 0))
  hIR : ∀ s, sub ≠ [] → sub.length = (decodeRune sub).2 → IsIndex fold s sub (E.indexRune s (decodeRune sub).1)
  /-- as a first-rune filter -/
  hIR2 : ∀ s, sub ≠ [] → (E.indexRune s (decodeRune sub).1 < 0 → ∀ j, IsBoundary s j → ¬ Match fold (s.drop j) sub) ∧
              (0 ≤ E.indexRune s (decodeRune sub).1 →
                IsBoundary s (E.indexRune s (decodeRune sub).1).toNat ∧
                ∀ j, IsBoundary s j → j < (E.indexRune s (decodeRune sub).1).toNat → ¬ Match fold (s.drop j) sub)
  hBF : ∀ x, sub.length ≠ (decodeRune sub).2 → IsIndex fold x sub (E.brute x sub)
  hRK : ∀ x, sub.length ≠ (decodeRune sub).2 → IsIndex fold x sub (E.rk x sub)
  hSK : ∀ x, sub.length ≠ (decodeRune sub).2 → sub.length < x.length →
          (decodeRune sub).1 ≠ runeError → (decodeRune (sub.drop (decodeRune sub).2)).1 ≠ runeError →
          IsIndex fold x sub (E.skip x sub)
  hBI : ∀ x, E.nonLetterASCII sub = true → IsIndex fold x sub (E.bytesIdx x sub)
  hW3 : ∀ x, Match fold x sub → sub.length ≤ 3 * x.length
  hW2 : ∀ x, E.containsKelvin sub = false → Match fold x sub → sub.length ≤ 2 * x.length

variable {fold}

theorem isIndex_none_of_short {s sub : Bytes} (h : ∀ j, IsBoundary s j → ¬ Match fold (s.drop j) sub) :
    IsIndex fold s sub (-1) := Or.inl ⟨rfl, h⟩

theorem Index_correct {E : DEnv} {sub : Bytes} (H : DHyp fold E sub) (s : Bytes) :
    IsIndex fold s sub (Index E s sub) := by
  unfold Index
  simp only []
  by_cases h0 : sub.length = 0
  · rw [if_pos h0]
    have : sub = [] := List.length_eq_zero_iff.mp h0
    subst this
    right
    refine ⟨0, rfl, isBoundary_zero s, ?_, fun j _ hj => by omega⟩
    simp [Match, fdec, dec_nil]
  rw [if_neg h0]
  have hsne : sub ≠ [] := fun h => h0 (by rw [h]; rfl)
  by_cases h1 : sub.length = 1 ∧ (decodeRune sub).1 ≠ runeError
  · rw [if_pos h1]; exact H.hIB s h1.1 h1.2
  rw [if_neg h1]
  by_cases h2 : sub.length = (decodeRune sub).2
  · rw [if_pos h2]; exact H.hIR s hsne h2
  rw [if_neg h2]
  by_cases h3 : sub.length ≥ s.length
  · rw [if_pos h3]
    by_cases h4 : sub.length > s.length * 3
    · rw [if_pos h4]
      apply isIndex_none_of_short
      intro j hj hm
      have := H.hW3 _ hm
      simp only [List.length_drop] at this; omega
    rw [if_neg h4]
    obtain ⟨hneg, hpos⟩ := H.hIR2 s hsne
    by_cases h5 : E.indexRune s (decodeRune sub).1 < 0
    · rw [if_pos h5]; exact isIndex_none_of_short (hneg h5)
    rw [if_neg h5]
    obtain ⟨hbi, hmin⟩ := hpos (by omega)
    by_cases h6 : sub.length > (s.drop (E.indexRune s (decodeRune sub).1).toNat).length * 2 ∧ E.containsKelvin sub = false
    · rw [if_pos h6]
      apply isIndex_none_of_short
      intro j hj hm
      by_cases hji : j < (E.indexRune s (decodeRune sub).1).toNat
      · exact hmin j hj hji hm
      · have := H.hW2 _ h6.2 hm
        simp only [List.length_drop] at this h6
        omega
    rw [if_neg h6]
    have hbf := H.hBF (s.drop (E.indexRune s (decodeRune sub).1).toNat) h2
    have hsh := isIndex_shift fold s sub _ hbi hmin _ hbf
    -- the code's `if o != -1 { return o + i }; return -1` is the shift's `if o < 0 then -1 else i + o`
    have hge : -1 ≤ E.brute (s.drop (E.indexRune s (decodeRune sub).1).toNat) sub := by
      rcases hbf with ⟨h, _⟩ | ⟨i, h, _⟩ <;> omega
    by_cases h7 : E.brute (s.drop (E.indexRune s (decodeRune sub).1).toNat) sub ≠ -1
    · rw [if_pos h7]
      rw [if_neg (by omega)] at hsh
      have e : ((E.indexRune s (decodeRune sub).1).toNat : Int) = E.indexRune s (decodeRune sub).1 := by omega
      rw [e] at hsh
      rw [Int.add_comm]; exact hsh
    · rw [if_neg h7]
      have : E.brute (s.drop (E.indexRune s (decodeRune sub).1).toNat) sub = -1 := Classical.not_not.mp h7
      rw [this] at hsh
      simpa using hsh
  rw [if_neg h3]
  by_cases h8 : sub.length ≤ E.maxLen ∧ E.nativeIndex = true ∧ E.nonLetterASCII sub = true
  · rw [if_pos h8]; exact H.hBI s h8.2.2
  rw [if_neg h8]
  by_cases h9 : sub.length ≤ E.maxLen ∧ s.length ≤ E.maxBruteForce
  · rw [if_pos h9]; exact H.hBF s h2
  rw [if_neg h9]
  by_cases h10 : (decodeRune sub).1 = runeError ∨ (decodeRune (sub.drop (decodeRune sub).2)).1 = runeError
  · rw [if_pos h10]; exact H.hRK s h2
  · rw [if_neg h10]
    exact H.hSK s h2 (by omega) (fun h => h10 (Or.inl h)) (fun h => h10 (Or.inr h))
end
#print axioms Index_correct
end Utf8
