import SC.Proofs.RLastIndexByte
/-!
C08: `A.LastIndex` (dispatch, `LastIndexByte`, `lastIndexRune`, length pre-checks, reverse Rabin-Karp) equals the
specification `S.lastIndex` on every pair of byte strings, both packages.
-/
namespace A
open Utf8 Fold

/-- a last-by search for the orbit of the needle's only rune is a LastIndex -/
theorem isLastIndex_of_lastBy (fold : Nat → Nat) (s sub : Bytes) (f : Nat) (hsub : fdec fold sub = [f]) (res : Int)
    (h : IsLastBy (fun x => fold x == f) s res) : IsLastIndex fold s sub res := by
  have hm : ∀ i, i < s.length → (Match fold (s.drop i) sub ↔ fold (decodeRune (s.drop i)).1 = f) := by
    intro i hi
    rw [match_single fold _ sub f hsub]
    have : s.drop i ≠ [] := by intro he; have := congrArg List.length he; simp at this; omega
    simp [this]
  have hend : ∀ i, s.length ≤ i → ¬ Match fold (s.drop i) sub := by
    intro i hi
    rw [match_single fold _ sub f hsub, List.drop_eq_nil_of_le hi]; simp
  rcases h with ⟨h1, hn⟩ | ⟨i, h1, hb, hl, hp, hmax⟩
  · left; refine ⟨h1, ?_⟩
    intro i hi hmi
    rcases Nat.lt_or_ge i s.length with hlt | hge
    · have : (fold (decodeRune (s.drop i)).1 == f) = false := hn i hi hlt
      rw [(hm i hlt).mp hmi] at this; simp at this
    · exact hend i hge hmi
  · right; refine ⟨i, h1, hb, (hm i hl).mpr (beq_iff_eq.mp hp), ?_⟩
    intro j hj hij hmj
    rcases Nat.lt_or_ge j s.length with hlt | hge
    · have : (fold (decodeRune (s.drop j)).1 == f) = false := hmax j hj hij hlt
      rw [(hm j hlt).mp hmj] at this; simp at this
    · exact hend j hge hmj

/-- C08: `LastIndex` of the algorithm model meets the rightmost-match contract … -/
theorem LastIndex_isLastIndex (cfg : Cfg) (s sub : Bytes) : IsLastIndex caseFold s sub (LastIndex cfg s sub) := by
  unfold LastIndex
  simp only []
  by_cases h0 : sub.length = 0
  · rw [if_pos h0]
    have : sub = [] := List.length_eq_zero_iff.mp h0
    subst this
    right
    refine ⟨s.length, rfl, ⟨(dec s).length, Nat.le_refl _, offAt_length s⟩, by simp [Match, fdec, dec_nil], ?_⟩
    intro j hj hlt; have := isBoundary_le s j hj; omega
  rw [if_neg h0]
  have hsne : sub ≠ [] := fun h => h0 (by rw [h]; rfl)
  -- no match where the pre-checks say so
  have hnone : (s.length * 3 < sub.length ∨ (s.length * 2 < sub.length ∧ containsKelvin cfg sub = false)) →
      IsLastIndex caseFold s sub (-1) := by
    intro hpc
    left; refine ⟨rfl, ?_⟩
    intro i _ hm
    obtain ⟨h3, h2⟩ := match_widths cfg (s.drop i) sub hm
    simp only [List.length_drop] at h3 h2
    rcases hpc with h | ⟨h, hk⟩
    · omega
    · have := h2 hk; omega
  by_cases h1 : sub.length = 1 ∧
      (if sub.getD (sub.length - 1) 0 < 0x80 then ((sub.getD (sub.length - 1) 0).toNat, 1) else decodeRune sub).1 ≠ runeError
  · rw [if_pos h1]
    -- one ASCII byte
    cases sub with
    | nil => exact absurd rfl hsne
    | cons c p =>
      have hp : p = [] := by
        have := h1.1; simp only [List.length_cons] at this
        exact List.length_eq_zero_iff.mp (by omega)
      subst hp
      have hc : c < 0x80 := by
        by_cases hc : c < 0x80
        · exact hc
        · exfalso
          have := h1.2
          simp only [List.length_cons, List.length_nil, Nat.zero_add, Nat.sub_self, List.getD_cons_zero, hc, if_false] at this
          exact this (by rw [decodeRune_single c hc])
      simp only [List.headD_cons]
      have hsub : fdec caseFold [c] = [caseFold c.toNat] := fdec_ascii_single c hc
      exact isLastIndex_of_lastBy caseFold s [c] _ hsub _ (LastIndexByte_isLastBy cfg s c hc)
  rw [if_neg h1]
  by_cases h2 : sub.length =
      (if sub.getD (sub.length - 1) 0 < 0x80 then ((sub.getD (sub.length - 1) 0).toNat, 1) else decodeRune sub).2
  · rw [if_pos h2]
    -- one code point that is not an ASCII byte
    have hl : ¬ sub.getD (sub.length - 1) 0 < 0x80 := by
      intro hl
      rw [if_pos hl] at h2 h1
      exact h1 ⟨h2, by have := lt80_toNat _ hl; show (sub.getD (sub.length - 1) 0).toNat ≠ 0xFFFD; omega⟩
    rw [if_neg hl] at h2 ⊢
    have hv := decodeRune_valid sub hsne
    have h80 : 0x80 ≤ (decodeRune sub).1 := by
      cases sub with
      | nil => exact absurd rfl hsne
      | cons b rest =>
        by_cases hb : b < 0x80
        · exfalso
          have hd : decodeRune (b :: rest) = (b.toNat, 1) := by simp [decodeRune, hb]
          rw [hd] at h2
          have hr : rest = [] := by
            simp only [List.length_cons] at h2
            exact List.length_eq_zero_iff.mp (by omega)
          subst hr
          simp only [List.length_cons, List.length_nil, Nat.zero_add, Nat.sub_self, List.getD_cons_zero] at hl
          exact hl hb
        · exact (non_ascii_segment b rest hb).1
    have hfb := lastIndexRune_isLastBy cfg s (decodeRune sub).1 hv h80
    exact isLastIndex_of_lastBy caseFold s sub _ (fdec_single sub hsne h2) _ hfb
  rw [if_neg h2]
  by_cases h3 : sub.length ≥ s.length ∧ sub.length > s.length * 3
  · rw [if_pos h3]; exact hnone (Or.inl h3.2)
  rw [if_neg h3]
  by_cases h4 : sub.length ≥ s.length ∧ sub.length > s.length * 2 ∧ containsKelvin cfg sub = false
  · rw [if_pos h4]; exact hnone (Or.inr ⟨h4.2.1, h4.2.2⟩)
  rw [if_neg h4]
  exact indexRabinKarpRevUnicode_isLastIndex cfg s sub hsne

/-- … hence equals the specification, for every pair of byte strings, both packages -/
theorem LastIndex_eq (cfg : Cfg) (s sub : Bytes) : LastIndex cfg s sub = S.lastIndex s sub :=
  eq_S_lastIndex_of_isLastIndex s sub _ (LastIndex_isLastIndex cfg s sub)

end A
