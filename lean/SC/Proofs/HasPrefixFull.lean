import SC.Proofs.HasPrefix
import SC.Proofs.Width2
import SC.Proofs.FoldFacts
namespace Utf8
open A
open Fold

/-- fold-prefix + pairwise width ratio `c` ⇒ total width ratio `c` -/
theorem wsum_le_of_prefix_c (fold : Nat → Nat) (c : Nat) (P X : List (Nat × Nat))
    (hpre : P.map (fun p => fold p.1) <+: X.map (fun p => fold p.1))
    (hW : ∀ p ∈ P, ∀ q ∈ X, fold p.1 = fold q.1 → p.2 ≤ c * q.2) :
    wsum P ≤ c * wsum X := by
  induction P generalizing X with
  | nil => simp [wsum]
  | cons p P ih =>
    cases X with
    | nil => simp at hpre
    | cons q X =>
      simp only [List.map_cons, List.cons_prefix_cons] at hpre
      have h1 := hW p (List.mem_cons_self ..) q (List.mem_cons_self ..) hpre.1
      have h2 := ih X hpre.2 (fun p' hp' q' hq' => hW p' (List.mem_cons_of_mem _ hp') q' (List.mem_cons_of_mem _ hq'))
      simp only [wsum, List.map_cons, List.sum_cons] at h1 h2 ⊢
      rw [Nat.mul_add]; omega

/-- strcase.hasPrefixUnicode, whole function: length pre-check, then the loops.
    `mayShrink3 p` is `containsKelvin(prefix)` *after the repair of D5/D6*: it must be true whenever `p`
    contains U+212A or U+FFFD (an ill-formed byte decodes to U+FFFD as well). -/
def hasPrefixUnicode (mayShrink3 : Bytes → Bool) (s p : Bytes) : Bool × Bool :=
  if p.length > s.length * 3 ∨ (p.length > s.length * 2 ∧ mayShrink3 p = false) then (false, true)
  else hpAscii caseFold s p

/-- the verifier's contract, for the real fold table and arbitrary bytes: exactly what the search loops assume -/
theorem hasPrefixUnicode_spec (mayShrink3 : Bytes → Bool)
    (hms : ∀ p, mayShrink3 p = false → ∀ q ∈ dec p, q.1 ≠ 0x212A ∧ q.1 ≠ 0xFFFD) (s p : Bytes) :
    ((hasPrefixUnicode mayShrink3 s p).1 = true ↔ fdec caseFold p <+: fdec caseFold s) ∧
    ((hasPrefixUnicode mayShrink3 s p).1 = false → (hasPrefixUnicode mayShrink3 s p).2 = true →
        ∀ k, ¬ fdec caseFold p <+: (fdec caseFold s).drop k) := by
  unfold hasPrefixUnicode
  -- a match at rune offset k of s implies the length relations the pre-check tests
  have hlen : ∀ k, fdec caseFold p <+: (fdec caseFold s).drop k →
      p.length ≤ 3 * s.length ∧ (mayShrink3 p = false → p.length ≤ 2 * s.length) := by
    intro k hk
    have hpre : (dec p).map (fun q => caseFold q.1) <+: ((dec s).drop k).map (fun q => caseFold q.1) := by
      simpa [fdec, List.map_drop] using hk
    have hsub : ∀ q ∈ (dec s).drop k, q ∈ dec s := fun q hq => List.mem_of_mem_drop hq
    have hws : wsum ((dec s).drop k) ≤ s.length := by
      have h1 := wsum_dec s
      have : wsum ((dec s).drop k) ≤ wsum (dec s) := by
        have e : wsum (dec s) = wsum ((dec s).take k) + wsum ((dec s).drop k) := by
          simp only [wsum]
          rw [← List.sum_append, ← List.map_append, List.take_append_drop]
        omega
      omega
    constructor
    · have := wsum_le_of_prefix_c caseFold 3 _ _ hpre
        (fun a ha b hb hab => widthRel_caseFold s p a ha b (hsub b hb) hab)
      rw [wsum_dec] at this
      have := Nat.mul_le_mul_left 3 hws
      omega
    · intro hms0
      have hq := hms p hms0
      have := wsum_le_of_prefix_c caseFold 2 _ _ hpre
        (fun a ha b hb hab => widthRel2_caseFold s p a ha b (hsub b hb) hab (hq a ha).1 (hq a ha).2)
      rw [wsum_dec] at this
      have := Nat.mul_le_mul_left 2 hws
      omega
  by_cases hpc : p.length > s.length * 3 ∨ (p.length > s.length * 2 ∧ mayShrink3 p = false)
  · rw [if_pos hpc]
    have hnone : ∀ k, ¬ fdec caseFold p <+: (fdec caseFold s).drop k := by
      intro k hk
      obtain ⟨h3, h2⟩ := hlen k hk
      rcases hpc with h | ⟨h, hm⟩
      · omega
      · have := h2 hm; omega
    refine ⟨?_, fun _ _ => hnone⟩
    simp only [Bool.false_eq_true, false_iff]
    intro h; exact hnone 0 (by simpa using h)
  · rw [if_neg hpc]
    obtain ⟨h1, h2⟩ := hpAscii_spec caseFold caseFold_idem' caseFold_lower s p
    constructor
    · rw [h1]; exact List.isPrefixOf_iff_prefix
    · intro hf he
      have hf' : (fdec caseFold p).isPrefixOf (fdec caseFold s) = false := by rw [← h1]; exact hf
      have hl := h2 hf he
      exact exhausted_sound _ _ hf' (by simpa [fdec] using hl)
#print axioms hasPrefixUnicode_spec
end Utf8
