import SC.Proofs.RByteLevel
import SC.Proofs.CountIdx
/-!
C17: identities between the specification functions that relate different cores
(Count / Cut / Index, HasSuffix / LastIndex / EqualFold, TrimPrefix, EqualFold / HasPrefix,
IndexRune / Index / IndexAny on an encoded rune, IndexByte / Index on a one-byte needle).
-/
namespace A
open Utf8 Fold Spec

theorem fruns_ne_nil (t : Bytes) (ht : t ≠ []) : S.fruns t ≠ [] := by
  cases t with
  | nil => exact absurd rfl ht
  | cons b x => unfold S.fruns; rw [fdec_cons']; simp

theorem fruns_nil : S.fruns [] = [] := by simp [S.fruns, fdec, dec_nil]

/-- Count > 0 ⇔ Contains -/
theorem count_pos_iff (s t : Bytes) : 0 < S.count s t ↔ S.contains s t = true := by
  by_cases ht : t = []
  · subst ht
    have : S.contains s [] = true := by
      unfold S.contains S.indexK
      rw [fruns_nil]
      cases h : S.fruns s <;> simp [findSub]
    simp [S.count, this]
  · have hne := fruns_ne_nil t ht
    unfold S.count S.contains S.indexK
    rw [if_neg ht, ← countIdx_eq_countFrom _ hne _ _ (by
      have : (S.fruns s).length ≤ s.length := by
        rw [show (S.fruns s).length = (dec s).length from fdec_length _ _]; exact dec_length_le s
      omega)]
    simp only [countIdx]
    cases findSub (S.fruns s) (S.fruns t) with
    | none => simp
    | some k => simp; omega

/-- Cut-found ⇔ Contains -/
theorem cut_found_iff (s t : Bytes) : (S.cut s t).2.2 = S.contains s t := by
  unfold S.cut S.contains
  cases S.indexK s t <;> rfl

/-- HasSuffix(s,t) ⇔ LastIndex(s,t) = i ≥ 0 ∧ EqualFold(s[i:], t), and then `i` is where TrimSuffix/CutSuffix cut -/
theorem suffixStart_iff (s t : Bytes) (i : Nat) :
    S.suffixStart s t = some i ↔ (S.lastIndex s t = (i : Int) ∧ S.equalFold (s.drop i) t = true) := by
  have hlen : (S.fruns s).length = (dec s).length := fdec_length _ _
  unfold S.suffixStart S.lastIndex S.lastIndexK S.equalFold
  simp only []
  constructor
  · intro h
    by_cases hc : (S.fruns t).length ≤ (S.fruns s).length ∧
        ((S.fruns s).drop ((S.fruns s).length - (S.fruns t).length) == S.fruns t) = true
    · rw [if_pos hc] at h
      have hi : offAt s ((S.fruns s).length - (S.fruns t).length) = i := Option.some.inj h
      have heq : (S.fruns s).drop ((S.fruns s).length - (S.fruns t).length) = S.fruns t := beq_iff_eq.mp hc.2
      have hk : findSubLast (S.fruns s) (S.fruns t) = some ((S.fruns s).length - (S.fruns t).length) := by
        rw [findSubLast_some_iff]
        refine ⟨by rw [heq]; exact List.prefix_refl _, by omega, ?_⟩
        intro j hj hjl hp
        have := hp.length_le
        simp only [List.length_drop] at this; omega
      rw [hk]
      refine ⟨by simp only []; rw [hi], ?_⟩
      rw [← hi]
      unfold S.fruns
      rw [fdec_drop_offAt]
      exact hc.2
    · rw [if_neg hc] at h; cases h
  · rintro ⟨h1, h2⟩
    cases hk : findSubLast (S.fruns s) (S.fruns t) with
    | none => rw [hk] at h1; simp only [] at h1; omega
    | some k =>
      rw [hk] at h1
      simp only [] at h1
      have hki : offAt s k = i := by omega
      obtain ⟨hp, hkl, _⟩ := (findSubLast_some_iff _ _ _).mp hk
      have heq : (S.fruns s).drop k = S.fruns t := by
        have := beq_iff_eq.mp h2
        rw [← hki] at this
        unfold S.fruns at this ⊢
        rw [fdec_drop_offAt] at this
        exact this
      have hm : (S.fruns t).length = (S.fruns s).length - k := by rw [← heq]; simp
      have hkk : (S.fruns s).length - (S.fruns t).length = k := by omega
      rw [if_pos ⟨by omega, by rw [hkk, heq]; exact beq_self_eq_true _⟩, hkk, hki]

theorem hasSuffix_iff_lastIndex (s t : Bytes) :
    S.hasSuffix s t = true ↔ ∃ i : Nat, S.lastIndex s t = (i : Int) ∧ S.equalFold (s.drop i) t = true := by
  unfold S.hasSuffix
  constructor
  · intro h
    cases hs : S.suffixStart s t with
    | none => rw [hs] at h; cases h
    | some i => exact ⟨i, (suffixStart_iff s t i).mp hs⟩
  · rintro ⟨i, h⟩
    rw [(suffixStart_iff s t i).mpr h]; rfl

/-- HasPrefix ⇔ TrimPrefix shortened `s` or the prefix is empty -/
theorem hasPrefix_iff_trim (s t : Bytes) :
    S.hasPrefix s t = true ↔ ((S.trimPrefix s t).2 < s.length ∨ t = []) := by
  unfold S.hasPrefix S.trimPrefix
  cases hp : S.prefixLen s t with
  | none =>
    simp only [Option.isSome_none, Bool.false_eq_true, Nat.lt_irrefl, false_or, false_iff]
    intro ht; subst ht
    unfold S.prefixLen at hp
    rw [fruns_nil] at hp
    simp at hp
  | some j =>
    simp only [Option.isSome_some, true_iff]
    by_cases ht : t = []
    · exact Or.inr ht
    · left
      unfold S.prefixLen at hp
      by_cases hpre : (S.fruns t).isPrefixOf (S.fruns s) = true
      · rw [if_pos hpre] at hp
        have hj : offAt s (S.nrunes t) = j := Option.some.inj hp
        have hpl := ((isPrefixOf_iff _ _).mp hpre).length_le
        have hn : 1 ≤ S.nrunes t := by
          have := fruns_ne_nil t ht
          unfold S.nrunes
          rw [← fdec_length S.fold t]
          exact List.length_pos_iff.mpr this
        have hlen : (S.fruns s).length = (dec s).length := fdec_length _ _
        have hlt : (S.fruns t).length = S.nrunes t := fdec_length _ _
        have h0 := offAt_strict' s 0 (S.nrunes t) (by omega) (by omega)
        rw [offAt_zero] at h0
        have := offAt_le s (S.nrunes t)
        show s.length - j < s.length
        omega
      · rw [if_neg hpre] at hp; cases hp

/-- EqualFold ⇔ HasPrefix with equal code-point counts (⇔ … ∧ HasSuffix) -/
theorem equalFold_iff_prefix_count (s t : Bytes) :
    S.equalFold s t = true ↔ (S.hasPrefix s t = true ∧ S.nrunes s = S.nrunes t) := by
  have hls : (S.fruns s).length = S.nrunes s := fdec_length _ _
  have hlt : (S.fruns t).length = S.nrunes t := fdec_length _ _
  unfold S.equalFold S.hasPrefix S.prefixLen
  constructor
  · intro h
    have e : S.fruns s = S.fruns t := beq_iff_eq.mp h
    refine ⟨?_, by rw [← hls, ← hlt, e]⟩
    rw [if_pos (by rw [e]; exact (isPrefixOf_iff _ _).mpr (List.prefix_refl _))]; rfl
  · rintro ⟨hp, hn⟩
    by_cases hpre : (S.fruns t).isPrefixOf (S.fruns s) = true
    · have := ((isPrefixOf_iff _ _).mp hpre).eq_of_length (by omega)
      rw [this]; exact beq_self_eq_true _
    · rw [if_neg hpre] at hp; cases hp

theorem equalFold_iff_affixes (s t : Bytes) :
    S.equalFold s t = true ↔ (S.hasPrefix s t = true ∧ S.hasSuffix s t = true ∧ S.nrunes s = S.nrunes t) := by
  constructor
  · intro h
    obtain ⟨h1, h2⟩ := (equalFold_iff_prefix_count s t).mp h
    refine ⟨h1, ?_, h2⟩
    have e : S.fruns s = S.fruns t := beq_iff_eq.mp h
    unfold S.hasSuffix S.suffixStart
    simp only []
    rw [if_pos ⟨by rw [e]; omega, by rw [e]; simp⟩]; rfl
  · rintro ⟨h1, _, h3⟩
    exact (equalFold_iff_prefix_count s t).mpr ⟨h1, h3⟩

/-- IndexRune(s, r) = Index(s, string(r)) = IndexAny(s, string(r)) for a valid rune -/
theorem indexRune_eq_index_encode (s : Bytes) (r : Int) (hv : S.validRuneI r = true) :
    S.indexRune s r = S.index s (encode r.toNat) ∧ S.indexRune s r = S.indexAny s (encode r.toNat) := by
  have hvn : validRune r.toNat := by
    simp only [S.validRuneI, decide_eq_true_eq] at hv; exact hv.2
  obtain ⟨w, hfb⟩ := (IndexRune_spec {} s r).2 hv
  rw [IndexRune_eq] at hfb
  have hdec := decode_encode r.toNat hvn []
  rw [List.append_nil] at hdec
  have hsub : fdec caseFold (encode r.toNat) = [caseFold r.toNat] := by
    rw [fdec_single (encode r.toNat) (encode_ne_nil _) (by rw [hdec]), hdec]
  constructor
  · exact eq_S_index_of_isIndex s _ _ (isIndex_of_firstBy caseFold s _ _ hsub (S.indexRune s r, w) hfb)
  · apply eq_S_indexAny s _ _ w
    apply isFirstBy_congr _ _ _ s _ hfb
    intro x
    unfold anyP; rw [hsub]; simp [List.contains_cons, Bool.beq_comm]; first | rfl | exact (beq_eq_decide _ _)

/-- IndexByte(s, c) = Index(s, string(c)) for an ASCII byte -/
theorem indexByte_eq_index (s : Bytes) (c : UInt8) (hc : c < 0x80) : S.indexByte s c = S.index s [c] := by
  obtain ⟨w, hfb⟩ := IndexByte_firstBy {} s c hc
  rw [IndexByte_eq] at hfb
  have hsub : fdec caseFold [c] = [caseFold c.toNat] := by simp [fdec, dec_ascii c [] hc, dec_nil]
  exact eq_S_index_of_isIndex s _ _ (isIndex_of_firstBy caseFold s [c] _ hsub (S.indexByte s c, w) hfb)

end A
