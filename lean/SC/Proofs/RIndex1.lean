import SC.Proofs.SpecFirstBy
import SC.Proofs.RRabinKarp
import SC.Proofs.Dispatch
/-!
Index, part 1: single-byte and single-rune needles, the width pre-checks, the non-letter-ASCII fast path.
-/
namespace A
open Utf8 Fold

theorem decodeRune_valid (y : Bytes) (hy : y ≠ []) : validRune (decodeRune y).1 := by
  have hw1 : 1 ≤ (decodeRune y).2 := by
    cases y with
    | nil => exact absurd rfl hy
    | cons c y => exact decodeRune_width_pos c y
  rcases Nat.lt_or_ge (decodeRune y).2 2 with h | h
  · rcases decodeRune_w1 y (by omega) with h1 | h1
    · exact Or.inl (by omega)
    · rw [h1]; decide
  · exact (encode_decode y _ _ rfl (Or.inl h)).2

/-- a match of a one-rune needle at the front of `x` -/
theorem match_single (fold : Nat → Nat) (x sub : Bytes) (f : Nat) (hsub : fdec fold sub = [f]) :
    Match fold x sub ↔ x ≠ [] ∧ fold (decodeRune x).1 = f := by
  unfold Match
  rw [hsub]
  cases x with
  | nil => simp [fdec, dec_nil]
  | cons b x' =>
    rw [fdec_cons']
    simp only [List.cons_prefix_cons, List.nil_prefix, and_true, ne_eq, reduceCtorEq, not_false_eq_true, true_and]
    exact eq_comm

/-- a first-by search for the orbit of the needle's only rune is an Index -/
theorem isIndex_of_firstBy (fold : Nat → Nat) (s sub : Bytes) (f : Nat) (hsub : fdec fold sub = [f]) (res : Int × Nat)
    (h : IsFirstBy (fun x => fold x == f) s res) : IsIndex fold s sub res.1 := by
  have hm : ∀ i, i < s.length → (Match fold (s.drop i) sub ↔ fold (decodeRune (s.drop i)).1 = f) := by
    intro i hi
    rw [match_single fold _ sub f hsub]
    have : s.drop i ≠ [] := by intro he; have := congrArg List.length he; simp at this; omega
    simp [this]
  have hend : ¬ Match fold (s.drop s.length) sub := by
    rw [match_single fold _ sub f hsub]; simp
  rcases h with ⟨h1, hn⟩ | ⟨i, h1, hb, hl, hp, _, hmin⟩
  · left; refine ⟨h1, ?_⟩
    intro i hi hmi
    have hile := isBoundary_le s i hi
    rcases Nat.lt_or_ge i s.length with hlt | hge
    · have : (fold (decodeRune (s.drop i)).1 == f) = false := hn i hi hlt
      rw [(hm i hlt).mp hmi] at this; simp at this
    · have : i = s.length := by omega
      subst this; exact hend hmi
  · right; refine ⟨i, h1, hb, (hm i hl).mpr (beq_iff_eq.mp hp), ?_⟩
    intro j hj hji hmj
    have : (fold (decodeRune (s.drop j)).1 == f) = false := hmin j hj hji
    rw [(hm j (by omega)).mp hmj] at this; simp at this

/-- `IndexByte` on an ASCII byte: first-by search for its orbit -/
theorem IndexByte_firstBy (cfg : Cfg) (s : Bytes) (c : UInt8) (hc : c < 0x80) :
    ∃ w, IsFirstBy (fun x => caseFold x == caseFold c.toNat) s (IndexByte cfg s c, w) := by
  unfold IndexByte
  by_cases hk : c = 0x4B ∨ c = 0x53 ∨ c = 0x6B ∨ c = 0x73
  · rw [if_pos hk]
    exact ⟨(indexByte cfg s c).2, indexByte_firstBy cfg s c hc⟩
  · rw [if_neg hk]
    refine ⟨1, ?_⟩
    apply isFirstBy_congr (orbP c) _ (fun x => (ascii_orbit c hc x).symm)
    have hsr : specialRune c = 0 := by
      unfold specialRune
      rw [if_neg (fun h => hk (by rcases h with h | h; exact Or.inl h; exact Or.inr (Or.inr (Or.inl h)))),
          if_neg (fun h => hk (by rcases h with h | h; exact Or.inr (Or.inl h); exact Or.inr (Or.inr (Or.inr h))))]
    apply isFirstBy_congr (asciiPart c) _ _ s _ (kIndexByte_firstBy s c hc)
    intro x; unfold orbP; rw [hsr]; simp

/-- the needle is one code point: its folded rune list is the fold of that rune -/
theorem fdec_single (sub : Bytes) (hne : sub ≠ []) (h : sub.length = (decodeRune sub).2) :
    fdec caseFold sub = [caseFold (decodeRune sub).1] := by
  cases sub with
  | nil => exact absurd rfl hne
  | cons c p =>
    rw [fdec_cons']
    have : (c :: p).drop (decodeRune (c :: p)).2 = [] := by
      apply List.drop_eq_nil_of_le; omega
    rw [this, fdec_nil']

end A
