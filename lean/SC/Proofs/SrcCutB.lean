import SC.Proofs.SrcNamesB
import SC.Proofs.Basic
import SC.Proofs.RRabinKarp
/-!
`bytcase.Cut` on the regenerated program text, relative to `Index`: a counter loop (`n := utf8.RuneCount(sep); n > 0 && len(after) > 0; n--`)
instead of strcase's `range` loop — it stops when `after` is exhausted and cannot panic.
-/
open GoSsa Gen.Src Utf8

namespace GoSsa.Byt

/-- what is left of `s` after skipping up to `o` code points (bytcase's loop stops when `s` is exhausted) -/
def skipB : Nat → Bytes → Bytes
  | 0, s => s
  | _+1, [] => []
  | o+1, b :: rest => skipB o ((b :: rest).drop (decodeRune (b :: rest)).2)

theorem skipB_length_le : ∀ (o : Nat) (s : Bytes), (skipB o s).length ≤ s.length
  | 0, s => by simp [skipB]
  | o+1, [] => by simp [skipB]
  | o+1, b :: r => by
    simp only [skipB]
    have := skipB_length_le o ((b :: r).drop (decodeRune (b :: r)).2)
    simp at this ⊢; omega

theorem bi_DecodeRune' (b : Bytes) (r o : Nat) (h : Heap) :
    builtin true "unicode/utf8.DecodeRune" [.str b r o] h = some (.ok [.int (decodeRune b).1, .int (decodeRune b).2] h) := rfl
theorem bi_RuneCount (b : Bytes) (r o : Nat) (h : Heap) :
    builtin true "unicode/utf8.RuneCount" [.str b r o] h = some (.ok [.int ((dec b).length : Nat)] h) := rfl

macro "cutb_run" "[" ds:Lean.Parser.Tactic.simpLemma,* "]" : tactic =>
  `(tactic| src_run [byt_Cut, byt_Cut_b0, byt_Cut_b1, byt_Cut_b2, byt_Cut_b3, byt_Cut_b4, byt_Cut_b5, byt_Cut_b6, byt_Cut_b7, byt_Cut_b8, byt_Cut_b9,
      Str.run_call_unfold, bi_DecodeRune', bi_RuneCount, intOf, $ds,*])

set_option maxHeartbeats 2000000 in
theorem cut_loopB (s : Bytes) (r0 o0 : Nat) (i : Nat) (hi : i ≤ s.length) (h : Heap) :
    ∀ (o : Nat) (after : Bytes) (off : Nat) (env : Array (List Val)), o < 4611686018427387904 →
      after.length < 4611686018427387904 → env.size = 22 →
      env.getD 0 [] = [.str s r0 o0] → env.getD 2 [] = [.int i] → env.getD 10 [] = [.str after r0 off] → env.getD 11 [] = [.int o] →
      ∀ fuel, 20 * o + 20 ≤ fuel →
      run P true fuel ⟨byt_Cut, env, 5, [.bin 12 .gt .i64 (.r 11) (.c 0)], .cond (.r 12) 6 4⟩ h
        = .ok [.str (s.take i) r0 o0, .str (skipB o after) r0 (off + (after.length - (skipB o after).length)), .bool true] h := by
  intro o
  induction o with
  | zero =>
    intro after off env ho hal hsz h0 h2 h10 h11 fuel hf
    simp [hsz] at h0 h2 h10 h11
    obtain ⟨m, rfl⟩ : ∃ m, fuel = m + 20 := ⟨fuel - 20, by omega⟩
    have hi' : (i : Int) ≤ s.length := by omega
    cutb_run [hsz, h0, h2, h10, h11, skipB, hi']
  | succ o ih =>
    intro after off env ho hal hsz h0 h2 h10 h11 fuel hf
    simp [hsz] at h0 h2 h10 h11
    simp only [byt_Cut, byt_Cut_b0, byt_Cut_b1, byt_Cut_b2, byt_Cut_b3, byt_Cut_b4, byt_Cut_b5, byt_Cut_b6, byt_Cut_b7, byt_Cut_b8, byt_Cut_b9] at ih
    have hpos : (0 : Int) < (o : Int) + 1 := by omega
    have hi' : (i : Int) ≤ s.length := by omega
    have hw : wrap .i64 ((o : Int) + 1 - 1) = (o : Int) := by
      have : (o : Int) + 1 - 1 = o := by omega
      rw [this]; exact Str.wrap_i64_small _ (by omega) (by omega)
    have hw0 : wrap .i64 (o : Int) = (o : Int) := Str.wrap_i64_small _ (by omega) (by omega)
    cases after with
    | nil =>
      obtain ⟨m, rfl⟩ : ∃ m, fuel = m + 20 := ⟨fuel - 20, by omega⟩
      cutb_run [hsz, h0, h2, h10, h11, skipB, hi', hpos]
    | cons b rest' =>
      have hl1 : (1 : Int) ≤ (rest'.length : Int) + 1 := by omega
      have hl0 : (0 : Int) < (rest'.length : Int) + 1 := by omega
      by_cases hb : b < 0x80
      · have hb' : (b.toNat : Int) < 128 := by have : b.toNat < 128 := hb; omega
        obtain ⟨m, rfl⟩ : ∃ m, fuel = m + 13 := ⟨fuel - 13, by omega⟩
        cutb_run [hsz, h0, h2, h10, h11, hi', hpos, hl1, hl0, hb', hw, hw0]
        rw [ih rest' (off + 1) _ (by omega) (by simp at hal; omega) (by simp [hsz]) (by simp [hsz, h0]) (by simp [hsz, h2]) (by simp [hsz]) (by simp [hsz]) _ (by omega)]
        have e : skipB (o + 1) (b :: rest') = skipB o rest' := by
          have hw1 : (decodeRune (b :: rest')).2 = 1 := by simp [decodeRune, hb]
          simp [skipB, hw1]
        rw [e]
        have := skipB_length_le o rest'
        have e2 : off + 1 + (rest'.length - (skipB o rest').length) = off + ((b :: rest').length - (skipB o rest').length) := by
          simp only [List.length_cons]; omega
        rw [e2]
        simp only [List.length_cons]
      · have hb' : ¬ ((b.toNat : Int) < 128) := by intro x; apply hb; show b.toNat < 128; omega
        have hq1 : 1 ≤ (decodeRune (b :: rest')).2 := decodeRune_width_pos _ _
        have hq2 : (decodeRune (b :: rest')).2 ≤ rest'.length + 1 := by have := decodeRune_width_le (b :: rest'); simpa using this
        have hq3 : ((decodeRune (b :: rest')).2 : Int) ≤ (rest'.length : Int) + 1 := by omega
        have htk : List.take (rest'.length + 1 - (decodeRune (b :: rest')).2) (List.drop (decodeRune (b :: rest')).2 (b :: rest')) = List.drop (decodeRune (b :: rest')).2 (b :: rest') :=
          List.take_of_length_le (by simp)
        obtain ⟨m, rfl⟩ : ∃ m, fuel = m + 16 := ⟨fuel - 16, by omega⟩
        cutb_run [hsz, h0, h2, h10, h11, hi', hpos, hl1, hl0, hb', hw, hw0, hq3, htk]
        rw [ih (List.drop (decodeRune (b :: rest')).2 (b :: rest')) (off + (decodeRune (b :: rest')).2) _ (by omega) (by simp at hal ⊢; omega) (by simp [hsz])
          (by simp [hsz, h0]) (by simp [hsz, h2]) (by simp [hsz]) (by simp [hsz]) _ (by omega)]
        have e : skipB (o + 1) (b :: rest') = skipB o (List.drop (decodeRune (b :: rest')).2 (b :: rest')) := by simp [skipB]
        rw [e]
        have := skipB_length_le o (List.drop (decodeRune (b :: rest')).2 (b :: rest'))
        simp only [List.length_drop, List.length_cons] at this
        have e2 : off + (decodeRune (b :: rest')).2 + ((List.drop (decodeRune (b :: rest')).2 (b :: rest')).length - (skipB o (List.drop (decodeRune (b :: rest')).2 (b :: rest'))).length) =
            off + ((b :: rest').length - (skipB o (List.drop (decodeRune (b :: rest')).2 (b :: rest'))).length) := by
          simp only [List.length_drop, List.length_cons]; omega
        rw [e2]
        simp only [List.length_cons]


/-- `bytcase.Cut` on the program text, relative to `Index`: a negative `i` returns `(s, nil, false)`; otherwise `before = s[:i]` and `after`
    is `s[i:]` with up to `RuneCount(sep)` code points skipped (the loop stops when `after` is exhausted — unlike strcase's, it cannot panic) -/
theorem Cut (s sep : Bytes) (r0 o0 r1 o1 : Nat) (h h' : Heap) (i : Int) (hi : -1 ≤ i ∧ i ≤ s.length) (hls : s.length < 4611686018427387904)
    (hlp : sep.length < 4611686018427387904)
    (hC : Ret P true byt_Index [.str s r0 o0, .str sep r1 o1] h [.int i] h') :
    Ret P true byt_Cut [.str s r0 o0, .str sep r1 o1] h
      (if i < 0 then [.str s r0 o0, .nil, .bool false]
       else [.str (s.take i.toNat) r0 o0,
             .str (skipB (dec sep).length (s.drop i.toNat)) r0 (o0 + i.toNat + ((s.drop i.toNat).length - (skipB (dec sep).length (s.drop i.toNat)).length)),
             .bool true]) h' := by
  obtain ⟨n, hn⟩ := hC
  refine ⟨n + 20 * (dec sep).length + 30, fun fuel hf => ?_⟩
  rw [Frame.entry]
  by_cases hneg : i < 0
  · obtain ⟨m, rfl⟩ : ∃ m, fuel = n + m + 6 := ⟨fuel - (n + 6), by omega⟩
    have hge : ¬ (0 ≤ i) := by omega
    src_run [byt_Cut, byt_Cut_b0, byt_Cut_b2, run_call_fn (hb := nb_Index) (hf := find_Index), hn, hneg, hge]
  · obtain ⟨m, rfl⟩ : ∃ m, fuel = (n + 20 * (dec sep).length + 20 + m) + 6 := ⟨fuel - (n + 20 * (dec sep).length + 26), by omega⟩
    have hge : 0 ≤ i := by omega
    obtain ⟨k, rfl⟩ : ∃ k : Nat, i = k := ⟨i.toNat, by omega⟩
    have hk : k ≤ s.length := by omega
    have hk' : (k : Int) ≤ s.length := by omega
    have hdl : (dec sep).length ≤ sep.length := by
      exact A.dec_length_le sep
    have hl := cut_loopB s r0 o0 k hk h' (dec sep).length (s.drop k) (o0 + k)
    simp only [byt_Cut, byt_Cut_b0, byt_Cut_b1, byt_Cut_b2, byt_Cut_b3, byt_Cut_b4, byt_Cut_b5, byt_Cut_b6, byt_Cut_b7, byt_Cut_b8, byt_Cut_b9] at hl
    have htk : List.take (s.length - k) (List.drop k s) = List.drop k s := List.take_of_length_le (by simp)
    src_run [byt_Cut, byt_Cut_b0, byt_Cut_b1, byt_Cut_b2, byt_Cut_b3, byt_Cut_b4, byt_Cut_b5, byt_Cut_b6, byt_Cut_b7, byt_Cut_b8, byt_Cut_b9,
      run_call_fn (hb := nb_Index) (hf := find_Index), hn, hneg, hge, intOf, hk', htk, Str.run_call_unfold, bi_RuneCount]
    rw [hl _ (by omega) (by simp; omega) (by simp) (by simp) (by simp) (by simp) (by simp) _ (by omega)]
    simp [hneg]

end GoSsa.Byt
