import SC.Model.GoSsa
import SC.Gen.GoSsa
/-!
Static facts about the regenerated go/ssa programs `Gen.Src.str` / `Gen.Src.byt`, decided by evaluating
checkers written in Lean over the program literals (so the analysis itself is inside the proof, the Go
side only translates).
-/
namespace GoSsa

def Instr.dst? : Instr → Option Nat
  | .phi d _ | .bin d _ _ _ _ | .eqv d _ _ _ | .not d _ | .load d _ | .conv d _ _ | .runeStr d _ | .copy d _
  | .len d _ | .call d _ _ | .extract d _ _ | .index d _ _ | .indexAddr d _ _ | .slice d _ _ _ | .range d _
  | .next d _ | .alloc d _ => some d
  | .store _ _ | .stuck _ => none

def Fn.instrs (fn : Fn) : List Instr := (fn.blocks.map (·.instrs)).flatten

def Fn.defOf (fn : Fn) (n : Nat) : Option Instr := fn.instrs.find? (fun i => i.dst? == some n)

/-- is the address operand rooted at a cell the function allocated itself? -/
def Fn.localRoot (fn : Fn) : Nat → Opd → Bool
  | 0, _ => false
  | k+1, .r n =>
    match fn.defOf n with
    | some (.alloc _ _) => true
    | some (.indexAddr _ x _) => fn.localRoot k x
    | some (.slice _ x _ _) => fn.localRoot k x
    | some (.copy _ x) => fn.localRoot k x
    | some (.phi _ es) => es.all (fun e => fn.localRoot k e.2)
    | _ => false
  | _, _ => false

/-- every store of the function goes through a pointer into a cell it allocated itself -/
def Fn.storesLocal (fn : Fn) : Bool :=
  fn.instrs.all fun i => match i with
    | .store p _ => fn.localRoot 8 p
    | _ => true

def Opd.ok : Opd → Bool
  | .bad _ => false
  | _ => true

def Instr.opds : Instr → List Opd
  | .phi _ es => es.map (·.2)
  | .bin _ _ _ x y | .eqv _ _ x y | .index _ x y | .indexAddr _ x y | .store x y => [x, y]
  | .not _ x | .load _ x | .conv _ _ x | .runeStr _ x | .copy _ x | .len _ x | .extract _ x _ | .range _ x | .next _ x => [x]
  | .call _ _ as => as
  | .slice _ x lo hi => x :: (lo.toList ++ hi.toList)
  | .alloc _ _ | .stuck _ => []

def Term.opds : Term → List Opd
  | .cond c _ _ => [c]
  | .ret vs => vs
  | _ => []

def Term.targets : Term → List Nat
  | .jump b => [b]
  | .cond _ t e => [t, e]
  | _ => []

/-- the function lies inside the modelled subset and is well formed: no `.stuck`, no `.bad` operand, every register
    below `nregs`, every jump target a block of the function, φs only at the head of a block -/
def Fn.wf (fn : Fn) : Bool :=
  fn.blocks.all fun b =>
    (b.instrs.all fun i =>
      (match i with | .stuck _ => false | _ => true) &&
      (i.opds.all fun o => o.ok && (match o with | .r n => n < fn.nregs | _ => true)) &&
      (match i.dst? with | some d => d < fn.nregs | none => true)) &&
    ((splitPhis b.instrs).2.all fun i => match i with | .phi _ _ => false | _ => true) &&
    (b.term.opds.all fun o => o.ok && (match o with | .r n => n < fn.nregs | _ => true)) &&
    (b.term.targets.all fun t => t < fn.blocks.length)

/-- the external functions the interpreter gives a meaning to (all of them read-only, none allocating;
    `utf8.EncodeRune` writes through its first argument, which `storesLocal`'s companion `encodeLocal` confines to a local array) -/
def externs : List String :=
  ["tables.CaseFold", "tables.FoldMap", "tables.FoldMapExcludingUpperLower", "tables.ToUpperLower",
   "unicode/utf8.DecodeRuneInString", "unicode/utf8.DecodeRune", "unicode/utf8.DecodeLastRuneInString",
   "unicode/utf8.DecodeLastRune", "unicode/utf8.RuneCountInString", "unicode/utf8.RuneCount", "unicode/utf8.RuneLen",
   "unicode/utf8.ValidRune", "unicode/utf8.EncodeRune",
   "strings.Index", "bytes.Index", "bytealg.IndexString", "bytealg.Index", "strings.IndexByte", "bytes.IndexByte",
   "strings.LastIndexByte", "bytes.LastIndexByte", "bytealg.IndexByteString", "bytealg.IndexByte",
   "bytealg.CountString", "bytealg.Count", "bytealg.IndexNonASCII", "bytealg.IndexByteNonASCII", "bytealg.Cutover"]

/-- every call goes to a function of the program or to a known external function -/
def callsClosed (p : Prog) : Bool :=
  p.all fun fn => fn.instrs.all fun i => match i with
    | .call _ f _ => externs.contains f || p.any (fun g => g.name == f)
    | _ => true

/-- `utf8.EncodeRune` only ever writes into an array the calling function allocated -/
def Fn.encodeLocal (fn : Fn) : Bool :=
  fn.instrs.all fun i => match i with
    | .call _ "unicode/utf8.EncodeRune" (p :: _) => fn.localRoot 8 p
    | .call _ "unicode/utf8.EncodeRune" [] => false
    | _ => true

def Prog.sound (p : Prog) : Bool :=
  p.all (fun fn => fn.wf && fn.storesLocal && fn.encodeLocal) && callsClosed p &&
  -- function names are unique, so `call` finds the function it names
  (p.map (·.name)).Nodup

theorem str_sound : Prog.sound Gen.Src.str = true := by decide +kernel
theorem byt_sound : Prog.sound Gen.Src.byt = true := by decide +kernel

/-- both packages define the same function names (exported and unexported) -/
theorem same_functions :
    (Gen.Src.str.all fun f => Gen.Src.byt.any fun g => g.name == f.name) = true ∧
    (Gen.Src.byt.all fun f => Gen.Src.str.any fun g => g.name == f.name) = true := by decide +kernel

/-- the external names are exactly the ones `builtin` interprets -/
theorem externs_interpreted : externs.all (fun f => (builtin false f [] #[]).isSome) = true := by decide +kernel

end GoSsa
