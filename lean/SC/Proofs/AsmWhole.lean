import SC.Proofs.AsmCountLoop
import SC.Proofs.Enc2
/-!
The kernel bodies from their first instruction: lane broadcast of the needle, dispatch on the length
(`< 16` → `small`; otherwise the SSE loop unless the AVX2 path is taken), then the path theorems.
Covers every length when the CPU feature flag is off, and every length up to the AVX2 threshold (32 for the
searches, 64 for the counts) when it is on.
-/
namespace Asm
open Kern

/-- `MOVD AX, X0; PUNPCKLBW X0, X0; PUNPCKLBW X0, X0; PSHUFL $0, X0, X0` puts the low byte in every lane -/
theorem broadcast_lane (ax : Nat) (c : UInt8) (hAL : ax % 256 = c.toNat) (j : Nat) :
    (if (4 * (0 / 4 ^ (j / 4 % 4) % 4) + j % 4) / 2 / 2 < 8 then
        UInt8.ofNat (ax / 256 ^ ((4 * (0 / 4 ^ (j / 4 % 4) % 4) + j % 4) / 2 / 2) % 256) else 0) = c := by
  have e : (4 * (0 / 4 ^ (j / 4 % 4) % 4) + j % 4) / 2 / 2 = 0 := by
    rw [Nat.zero_div]; omega
  rw [e, if_pos (by omega), Nat.pow_zero, Nat.div_one, hAL]
  exact Utf8.ofNat_toNat_id c

/-- the same idiom after `MOVQ CX, X2` (eight source lanes) -/
theorem broadcast_lane8 (cx : Nat) (c : UInt8) (hCL : cx % 256 = c.toNat) (j : Nat) :
    (if (4 * (0 / 4 ^ (j / 4 % 4) % 4) + j % 4) / 2 / 2 < 8 then
        UInt8.ofNat (cx / 256 ^ ((4 * (0 / 4 ^ (j / 4 % 4) % 4) + j % 4) / 2 / 2) % 256) else 0) = c := by
  have e : (4 * (0 / 4 ^ (j / 4 % 4) % 4) + j % 4) / 2 / 2 = 0 := by
    rw [Nat.zero_div]; omega
  rw [e, if_pos (by omega), Nat.pow_zero, Nat.div_one, hCL]
  exact Utf8.ofNat_toNat_id c

theorem sgn_small (n : Nat) (h : n < 2 ^ 63) : sgn n = (n : Int) := by
  unfold sgn; rw [if_pos h]

/-- page-safety of a list of loads: every byte loaded lies in a page that holds a byte of the argument -/
def Safe (base len : Nat) (loads : List (Nat × Nat)) : Prop :=
  ∀ ld ∈ loads, ∀ a, ld.1 ≤ a → a < ld.1 + ld.2 → ∃ b, base ≤ b ∧ b < base + len ∧ a / 4096 = b / 4096

theorem safe_of_inside (base len : Nat) (loads : List (Nat × Nat))
    (h : ∀ ld ∈ loads, base ≤ ld.1 ∧ ld.1 + ld.2 ≤ base + len) : Safe base len loads := by
  intro ld hld a h1 h2
  have := h ld hld
  exact ⟨a, by omega, by omega, rfl⟩

theorem safe_nil (base len : Nat) : Safe base len [] := by intro ld h; cases h

/-- `ORL $32, AX` then the broadcast: the lane value is the needle with bit 5 set -/
theorem orl_lane (ax : Nat) (c : UInt8) (hAL : ax % 256 = c.toNat) : ((ax % W32) ||| (32 % W32)) % 256 = (c ||| 0x20).toNat := by
  have e : (32 : Nat) % W32 = 32 := by decide
  rw [e, show (256 : Nat) = 2 ^ 8 from rfl, Nat.or_mod_two_pow]
  have h1 : ax % W32 % 2 ^ 8 = ax % 256 := by unfold W32; omega
  rw [h1, hAL, UInt8.toNat_or]
  rfl

set_option maxRecDepth 8000 in
set_option maxHeartbeats 8000000 in
/-- **`indexbytebody` from its first instruction.** -/
theorem whole_indexbytebody (mem : Nat → UInt8) (base len : Nat) (c : UInt8) (s : St) (f : Nat)
    (hb : base + len + 32 < 2 ^ 62)
    (hSI : s.r .SI = base) (hBX : s.r .BX = len) (hAL : s.r .AX % 256 = c.toNat)
    (hmem : s.mem = mem) (hout : s.out = none) (hl : s.loads = [])
    (hcfg : s.avx2 = false ∨ len ≤ 32) (hf : 9 * (len + 1) + 40 ≤ f) :
    (run Gen.Asm.body_indexbytebody f (block Gen.Asm.body_indexbytebody "entry") s).out =
        some (specIndex (fun b => b == c) mem base len) ∧
    Safe base len (run Gen.Asm.body_indexbytebody f (block Gen.Asm.body_indexbytebody "entry") s).loads := by
  have e16 : 16 % W64 = 16 := by decide
  have e32 : 32 % W64 = 32 := by decide
  have s16 : sgn 16 = 16 := by decide
  have slen : sgn len = (len : Int) := sgn_small len (by omega)
  by_cases hlen : len < 16
  · -- small path
    obtain ⟨g, rfl⟩ : ∃ g, f = g + 6 := ⟨f - 6, by omega⟩
    have hlt : decide ((len : Int) < 16) = true := decide_eq_true (by omega)
    have hstep : ∃ s' : St, run Gen.Asm.body_indexbytebody (g + 6) (block Gen.Asm.body_indexbytebody "entry") s =
          run Gen.Asm.body_indexbytebody g (block Gen.Asm.body_indexbytebody "small") s' ∧
        s'.r .SI = base ∧ s'.r .BX = len ∧ (∀ j, s'.x .X0 j = c) ∧ s'.mem = mem ∧ s'.out = none ∧ s'.loads = [] := by
      refine ⟨?_, ?_, ?_, ?_, ?_, ?_, ?_, ?_⟩
      case refine_2 =>
        asm_exec [Gen.Asm.body_indexbytebody, hSI, hBX, e16, s16, slen, hlt]
        rfl
      case refine_5 => intro j; simp only [if_true]; exact broadcast_lane _ c hAL j
      all_goals simp [hSI, hBX, hmem, hout, hl]
    obtain ⟨s', he, i1, i2, i3, i4, i5, i6⟩ := hstep
    rw [he]
    have hsm := small_indexbytebody_correct mem base len c s' g hlen (by omega) i1 i2 i3 (fun _ => trivial) i4 i5 i6 (by omega)
    rw [hsm.1, hsm.2, small_correct _ mem base len hlen]
    refine ⟨rfl, ?_⟩
    by_cases h0 : 0 < len
    · exact small_loads_safe _ mem base len hlen h0
    · have : len = 0 := by omega
      subst this; simp [small]; exact safe_nil base 0
  · -- SSE loop (directly, or back from the AVX2 label when the feature is off)
    have hge : ¬ ((len : Int) < 16) := by omega
    have hlt : decide ((len : Int) < 16) = false := decide_eq_false hge
    have hsse : ∃ s' : St, ∃ g : Nat, 9 * (len + 1) + 16 ≤ g ∧
        run Gen.Asm.body_indexbytebody f (block Gen.Asm.body_indexbytebody "entry") s =
          run Gen.Asm.body_indexbytebody g (block Gen.Asm.body_indexbytebody "sse") s' ∧
        s'.r .SI = base ∧ s'.r .DI = base ∧ s'.r .BX = len ∧ (∀ j, s'.x .X0 j = c) ∧ s'.mem = mem ∧ s'.out = none ∧ s'.loads = [] := by
      by_cases h32 : len ≤ 32
      · obtain ⟨g, rfl⟩ : ∃ g, f = g + 9 := ⟨f - 9, by omega⟩
        have hcf : (decide (len < 32) || (len == 32)) = true := by
          by_cases h : len = 32
          · subst h; rfl
          · have : len < 32 := by omega
            simp [this]
        refine ⟨?_, g, by omega, ?_, ?_, ?_, ?_, ?_, ?_, ?_, ?_⟩
        case refine_2 =>
          asm_exec [Gen.Asm.body_indexbytebody, hSI, hBX, e16, e32, s16, slen, hlt, hcf]
          rfl
        case refine_6 => intro j; simp only [if_true]; exact broadcast_lane _ c hAL j
        all_goals simp [hSI, hBX, hmem, hout, hl]
      · have havx : s.avx2 = false := by rcases hcfg with h | h; exact h; omega
        obtain ⟨g, rfl⟩ : ∃ g, f = g + 11 := ⟨f - 11, by omega⟩
        have hcf : (decide (len < 32) || (len == 32)) = false := by
          have h1 : ¬ len < 32 := by omega
          have h2 : ¬ len = 32 := by omega
          simp [h1, h2]
        refine ⟨?_, g, by omega, ?_, ?_, ?_, ?_, ?_, ?_, ?_, ?_⟩
        case refine_2 =>
          asm_exec [Gen.Asm.body_indexbytebody, hSI, hBX, e16, e32, s16, slen, hlt, hcf, havx]
          rfl
        case refine_6 => intro j; simp only [if_true]; exact broadcast_lane _ c hAL j
        all_goals simp [hSI, hBX, hmem, hout, hl]
    obtain ⟨s', g, hg, he, i1, i2, i3, i4, i5, i6, i7⟩ := hsse
    rw [he]
    have hlp := sse_indexbytebody_correct mem base len c s' g (by omega) (by omega) i1 i2 i3 i4 (fun _ => trivial) i5 i6 i7 (by omega)
    exact ⟨hlp.1, safe_of_inside base len _ hlp.2⟩

set_option maxRecDepth 8000 in
set_option maxHeartbeats 8000000 in
/-- **`indexbytebodyCase` from its first instruction** (the needle is lower-cased with `ORL $32`, the data with `POR`). -/
theorem whole_indexbytebodyCase (mem : Nat → UInt8) (base len : Nat) (c : UInt8) (s : St) (f : Nat)
    (hb : base + len + 32 < 2 ^ 62)
    (hSI : s.r .SI = base) (hBX : s.r .BX = len) (hAL : s.r .AX % 256 = c.toNat)
    (hmem : s.mem = mem) (hout : s.out = none) (hl : s.loads = [])
    (hcfg : s.avx2 = false ∨ len ≤ 32) (hf : 9 * (len + 1) + 50 ≤ f) :
    (run Gen.Asm.body_indexbytebodyCase f (block Gen.Asm.body_indexbytebodyCase "entry") s).out =
        some (specIndex (fun b => (b ||| 0x20) == (c ||| 0x20)) mem base len) ∧
    Safe base len (run Gen.Asm.body_indexbytebodyCase f (block Gen.Asm.body_indexbytebodyCase "entry") s).loads := by
  have e16 : 16 % W64 = 16 := by decide
  have e32 : 32 % W64 = 32 := by decide
  have s16 : sgn 16 = 16 := by decide
  have slen : sgn len = (len : Int) := sgn_small len (by omega)
  by_cases hlen : len < 16
  · -- small path
    obtain ⟨g, rfl⟩ : ∃ g, f = g + 12 := ⟨f - 12, by omega⟩
    have hlt : decide ((len : Int) < 16) = true := decide_eq_true (by omega)
    have hstep : ∃ s' : St, run Gen.Asm.body_indexbytebodyCase (g + 12) (block Gen.Asm.body_indexbytebodyCase "entry") s =
          run Gen.Asm.body_indexbytebodyCase g (block Gen.Asm.body_indexbytebodyCase "small") s' ∧
        s'.r .SI = base ∧ s'.r .BX = len ∧ (∀ j, s'.x .X0 j = (c ||| 0x20)) ∧ (∀ j, s'.x .X2 j = 0x20) ∧ s'.mem = mem ∧ s'.out = none ∧ s'.loads = [] := by
      refine ⟨?_, ?_, ?_, ?_, ?_, ?_, ?_, ?_, ?_⟩
      case refine_2 =>
        asm_exec [Gen.Asm.body_indexbytebodyCase, hSI, hBX, e16, s16, slen, hlt]
        rfl
      case refine_5 => intro j; simp only [if_true, reduceCtorEq, if_false]; exact broadcast_lane _ (c ||| 0x20) (orl_lane _ c hAL) j
      case refine_6 => intro j; simp only [if_true]; exact broadcast_lane8 _ 0x20 (by decide) j
      all_goals simp [hSI, hBX, hmem, hout, hl]
    obtain ⟨s', he, i1, i2, i3, ix2, i4, i5, i6⟩ := hstep
    rw [he]
    have hsm := small_indexbytebodyCase_correct mem base len (c ||| 0x20) s' g hlen (by omega) i1 i2 i3 ix2 i4 i5 i6 (by omega)
    rw [hsm.1, hsm.2, small_correct _ mem base len hlen]
    refine ⟨rfl, ?_⟩
    by_cases h0 : 0 < len
    · exact small_loads_safe _ mem base len hlen h0
    · have : len = 0 := by omega
      subst this; simp [small]; exact safe_nil base 0
  · -- SSE loop (directly, or back from the AVX2 label when the feature is off)
    have hge : ¬ ((len : Int) < 16) := by omega
    have hlt : decide ((len : Int) < 16) = false := decide_eq_false hge
    have hsse : ∃ s' : St, ∃ g : Nat, 9 * (len + 1) + 16 ≤ g ∧
        run Gen.Asm.body_indexbytebodyCase f (block Gen.Asm.body_indexbytebodyCase "entry") s =
          run Gen.Asm.body_indexbytebodyCase g (block Gen.Asm.body_indexbytebodyCase "sse") s' ∧
        s'.r .SI = base ∧ s'.r .DI = base ∧ s'.r .BX = len ∧ (∀ j, s'.x .X0 j = (c ||| 0x20)) ∧ (∀ j, s'.x .X2 j = 0x20) ∧ s'.mem = mem ∧ s'.out = none ∧ s'.loads = [] := by
      by_cases h32 : len ≤ 32
      · obtain ⟨g, rfl⟩ : ∃ g, f = g + 15 := ⟨f - 15, by omega⟩
        have hcf : (decide (len < 32) || (len == 32)) = true := by
          by_cases h : len = 32
          · subst h; rfl
          · have : len < 32 := by omega
            simp [this]
        refine ⟨?_, g, by omega, ?_, ?_, ?_, ?_, ?_, ?_, ?_, ?_, ?_⟩
        case refine_2 =>
          asm_exec [Gen.Asm.body_indexbytebodyCase, hSI, hBX, e16, e32, s16, slen, hlt, hcf]
          rfl
        case refine_6 => intro j; simp only [if_true, reduceCtorEq, if_false]; exact broadcast_lane _ (c ||| 0x20) (orl_lane _ c hAL) j
        case refine_7 => intro j; simp only [if_true]; exact broadcast_lane8 _ 0x20 (by decide) j
        all_goals simp [hSI, hBX, hmem, hout, hl]
      · have havx : s.avx2 = false := by rcases hcfg with h | h; exact h; omega
        obtain ⟨g, rfl⟩ : ∃ g, f = g + 17 := ⟨f - 17, by omega⟩
        have hcf : (decide (len < 32) || (len == 32)) = false := by
          have h1 : ¬ len < 32 := by omega
          have h2 : ¬ len = 32 := by omega
          simp [h1, h2]
        refine ⟨?_, g, by omega, ?_, ?_, ?_, ?_, ?_, ?_, ?_, ?_, ?_⟩
        case refine_2 =>
          asm_exec [Gen.Asm.body_indexbytebodyCase, hSI, hBX, e16, e32, s16, slen, hlt, hcf, havx]
          rfl
        case refine_6 => intro j; simp only [if_true, reduceCtorEq, if_false]; exact broadcast_lane _ (c ||| 0x20) (orl_lane _ c hAL) j
        case refine_7 => intro j; simp only [if_true]; exact broadcast_lane8 _ 0x20 (by decide) j
        all_goals simp [hSI, hBX, hmem, hout, hl]
    obtain ⟨s', g, hg, he, i1, i2, i3, i4, ix2, i5, i6, i7⟩ := hsse
    rw [he]
    have hlp := sse_indexbytebodyCase_correct mem base len (c ||| 0x20) s' g (by omega) (by omega) i1 i2 i3 i4 ix2 i5 i6 i7 (by omega)
    exact ⟨hlp.1, safe_of_inside base len _ hlp.2⟩

set_option maxRecDepth 8000 in
set_option maxHeartbeats 8000000 in
/-- **`indexByteBodyNonASCII` from its first instruction.** -/
theorem whole_indexByteBodyNonASCII (mem : Nat → UInt8) (base len : Nat) (c : UInt8) (s : St) (f : Nat)
    (hb : base + len + 32 < 2 ^ 62)
    (hSI : s.r .SI = base) (hBX : s.r .BX = len)
    (hmem : s.mem = mem) (hout : s.out = none) (hl : s.loads = [])
    (hcfg : s.avx2 = false ∨ len ≤ 32) (hf : 9 * (len + 1) + 40 ≤ f) :
    (run Gen.Asm.body_indexByteBodyNonASCII f (block Gen.Asm.body_indexByteBodyNonASCII "entry") s).out =
        some (specIndex (fun b => decide (b ≥ 0x80)) mem base len) ∧
    Safe base len (run Gen.Asm.body_indexByteBodyNonASCII f (block Gen.Asm.body_indexByteBodyNonASCII "entry") s).loads := by
  have e16 : 16 % W64 = 16 := by decide
  have e32 : 32 % W64 = 32 := by decide
  have s16 : sgn 16 = 16 := by decide
  have slen : sgn len = (len : Int) := sgn_small len (by omega)
  by_cases hlen : len < 16
  · -- small path
    obtain ⟨g, rfl⟩ : ∃ g, f = g + 7 := ⟨f - 7, by omega⟩
    have hlt : decide ((len : Int) < 16) = true := decide_eq_true (by omega)
    have hstep : ∃ s' : St, run Gen.Asm.body_indexByteBodyNonASCII (g + 7) (block Gen.Asm.body_indexByteBodyNonASCII "entry") s =
          run Gen.Asm.body_indexByteBodyNonASCII g (block Gen.Asm.body_indexByteBodyNonASCII "small") s' ∧
        s'.r .SI = base ∧ s'.r .BX = len ∧ (∀ _j : Nat, True) ∧ s'.mem = mem ∧ s'.out = none ∧ s'.loads = [] := by
      refine ⟨?_, ?_, ?_, ?_, ?_, ?_, ?_, ?_⟩
      case refine_2 =>
        asm_exec [Gen.Asm.body_indexByteBodyNonASCII, hSI, hBX, e16, s16, slen, hlt]
        rfl
      case refine_5 => intro _; trivial
      all_goals simp [hSI, hBX, hmem, hout, hl]
    obtain ⟨s', he, i1, i2, i3, i4, i5, i6⟩ := hstep
    rw [he]
    have hsm := small_indexByteBodyNonASCII_correct mem base len c s' g hlen (by omega) i1 i2 i3 (fun _ => trivial) i4 i5 i6 (by omega)
    rw [hsm.1, hsm.2, small_correct _ mem base len hlen]
    refine ⟨rfl, ?_⟩
    by_cases h0 : 0 < len
    · exact small_loads_safe _ mem base len hlen h0
    · have : len = 0 := by omega
      subst this; simp [small]; exact safe_nil base 0
  · -- SSE loop (directly, or back from the AVX2 label when the feature is off)
    have hge : ¬ ((len : Int) < 16) := by omega
    have hlt : decide ((len : Int) < 16) = false := decide_eq_false hge
    have hsse : ∃ s' : St, ∃ g : Nat, 9 * (len + 1) + 16 ≤ g ∧
        run Gen.Asm.body_indexByteBodyNonASCII f (block Gen.Asm.body_indexByteBodyNonASCII "entry") s =
          run Gen.Asm.body_indexByteBodyNonASCII g (block Gen.Asm.body_indexByteBodyNonASCII "sse") s' ∧
        s'.r .SI = base ∧ s'.r .DI = base ∧ s'.r .BX = len ∧ (∀ _j : Nat, True) ∧ s'.mem = mem ∧ s'.out = none ∧ s'.loads = [] := by
      by_cases h32 : len ≤ 32
      · obtain ⟨g, rfl⟩ : ∃ g, f = g + 10 := ⟨f - 10, by omega⟩
        have hcf : (decide (len < 32) || (len == 32)) = true := by
          by_cases h : len = 32
          · subst h; rfl
          · have : len < 32 := by omega
            simp [this]
        refine ⟨?_, g, by omega, ?_, ?_, ?_, ?_, ?_, ?_, ?_, ?_⟩
        case refine_2 =>
          asm_exec [Gen.Asm.body_indexByteBodyNonASCII, hSI, hBX, e16, e32, s16, slen, hlt, hcf]
          rfl
        case refine_6 => intro _; trivial
        all_goals simp [hSI, hBX, hmem, hout, hl]
      · have havx : s.avx2 = false := by rcases hcfg with h | h; exact h; omega
        obtain ⟨g, rfl⟩ : ∃ g, f = g + 12 := ⟨f - 12, by omega⟩
        have hcf : (decide (len < 32) || (len == 32)) = false := by
          have h1 : ¬ len < 32 := by omega
          have h2 : ¬ len = 32 := by omega
          simp [h1, h2]
        refine ⟨?_, g, by omega, ?_, ?_, ?_, ?_, ?_, ?_, ?_, ?_⟩
        case refine_2 =>
          asm_exec [Gen.Asm.body_indexByteBodyNonASCII, hSI, hBX, e16, e32, s16, slen, hlt, hcf, havx]
          rfl
        case refine_6 => intro _; trivial
        all_goals simp [hSI, hBX, hmem, hout, hl]
    obtain ⟨s', g, hg, he, i1, i2, i3, i4, i5, i6, i7⟩ := hsse
    rw [he]
    have hlp := sse_indexByteBodyNonASCII_correct mem base len c s' g (by omega) (by omega) i1 i2 i3 i4 (fun _ => trivial) i5 i6 i7 (by omega)
    exact ⟨hlp.1, safe_of_inside base len _ hlp.2⟩

set_option maxRecDepth 8000 in
set_option maxHeartbeats 8000000 in
/-- **`countbody` from its first instruction (count).** -/
theorem whole_countbody (mem : Nat → UInt8) (base len : Nat) (c : UInt8) (s : St) (f : Nat)
    (hb : base + len + 32 < 2 ^ 62)
    (hSI : s.r .SI = base) (hBX : s.r .BX = len) (hAL : s.r .AX % 256 = c.toNat)
    (hmem : s.mem = mem) (hout : s.out = none) (hl : s.loads = [])
    (hcfg : s.avx2 = false ∨ len < 64) (hf : 9 * (len + 1) + 40 ≤ f) :
    (run Gen.Asm.body_countbody f (block Gen.Asm.body_countbody "entry") s).out =
        some ((specCount (fun b => b == c) mem base len : Nat) : Int) ∧
    Safe base len (run Gen.Asm.body_countbody f (block Gen.Asm.body_countbody "entry") s).loads := by
  have e16 : 16 % W64 = 16 := by decide
  have e32 : 64 % W64 = 64 := by decide
  have e0 : 0 % W64 = 0 := by decide
  have s16 : sgn 16 = 16 := by decide
  have slen : sgn len = (len : Int) := sgn_small len (by omega)
  by_cases hlen : len < 16
  · -- small path
    obtain ⟨g, rfl⟩ : ∃ g, f = g + 6 := ⟨f - 6, by omega⟩
    have hlt : decide ((len : Int) < 16) = true := decide_eq_true (by omega)
    have hstep : ∃ s' : St, run Gen.Asm.body_countbody (g + 6) (block Gen.Asm.body_countbody "entry") s =
          run Gen.Asm.body_countbody g (block Gen.Asm.body_countbody "small") s' ∧
        s'.r .SI = base ∧ s'.r .BX = len ∧ (∀ j, s'.x .X0 j = c) ∧ s'.mem = mem ∧ s'.out = none ∧ s'.loads = [] := by
      refine ⟨?_, ?_, ?_, ?_, ?_, ?_, ?_, ?_⟩
      case refine_2 =>
        asm_exec [Gen.Asm.body_countbody, hSI, hBX, e16, s16, slen, hlt]
        rfl
      case refine_5 => intro j; simp only [if_true]; exact broadcast_lane _ c hAL j
      all_goals simp [hSI, hBX, hmem, hout, hl]
    obtain ⟨s', he, i1, i2, i3, i4, i5, i6⟩ := hstep
    rw [he]
    have hsm := small_countbody_correct mem base len c s' g hlen (by omega) i1 i2 i3 (fun _ => trivial) i4 i5 i6 (by omega)
    rw [hsm.1, hsm.2, cntSmall_correct _ mem base len hlen]
    refine ⟨rfl, ?_⟩
    by_cases h0 : 0 < len
    · exact cntSmall_loads_safe _ mem base len hlen h0
    · have : len = 0 := by omega
      subst this; simp [cntSmall]; exact safe_nil base 0
  · -- SSE loop (directly, or back from the AVX2 label when the feature is off)
    have hge : ¬ ((len : Int) < 16) := by omega
    have hlt : decide ((len : Int) < 16) = false := decide_eq_false hge
    have hsse : ∃ s' : St, ∃ g : Nat, 9 * (len + 1) + 24 ≤ g ∧
        run Gen.Asm.body_countbody f (block Gen.Asm.body_countbody "entry") s =
          run Gen.Asm.body_countbody g (block Gen.Asm.body_countbody "sse") s' ∧
        s'.r .SI = base ∧ s'.r .DI = base ∧ s'.r .BX = len ∧ s'.r .R12 = 0 ∧ (∀ j, s'.x .X0 j = c) ∧ s'.mem = mem ∧ s'.out = none ∧ s'.loads = [] := by
      by_cases h32 : len < 64
      · obtain ⟨g, rfl⟩ : ∃ g, f = g + 10 := ⟨f - 10, by omega⟩
        have hcf : decide (len < 64) = true := decide_eq_true h32
        refine ⟨?_, g, by omega, ?_, ?_, ?_, ?_, ?_, ?_, ?_, ?_, ?_⟩
        case refine_2 =>
          asm_exec [Gen.Asm.body_countbody, hSI, hBX, e16, e32, e0, s16, slen, hlt, hcf]
          rfl
        case refine_7 => intro j; simp only [if_true]; exact broadcast_lane _ c hAL j
        all_goals simp [hSI, hBX, hmem, hout, hl]
      · have havx : s.avx2 = false := by rcases hcfg with h | h; exact h; omega
        obtain ⟨g, rfl⟩ : ∃ g, f = g + 12 := ⟨f - 12, by omega⟩
        have hcf : decide (len < 64) = false := decide_eq_false h32
        refine ⟨?_, g, by omega, ?_, ?_, ?_, ?_, ?_, ?_, ?_, ?_, ?_⟩
        case refine_2 =>
          asm_exec [Gen.Asm.body_countbody, hSI, hBX, e16, e32, e0, s16, slen, hlt, hcf, havx]
          rfl
        case refine_7 => intro j; simp only [if_true]; exact broadcast_lane _ c hAL j
        all_goals simp [hSI, hBX, hmem, hout, hl]
    obtain ⟨s', g, hg, he, i1, i2, i3, ir, i4, i5, i6, i7⟩ := hsse
    rw [he]
    have hlp := ssecnt_countbody_correct mem base len c s' g (by omega) (by omega) i1 i2 i3 ir i4 (fun _ => trivial) i5 i6 i7 (by omega)
    exact ⟨hlp.1, safe_of_inside base len _ hlp.2⟩

set_option maxRecDepth 8000 in
set_option maxHeartbeats 8000000 in
/-- **`countbodyCase` from its first instruction (count)** (the needle is lower-cased with `ORL $32`, the data with `POR`). -/
theorem whole_countbodyCase (mem : Nat → UInt8) (base len : Nat) (c : UInt8) (s : St) (f : Nat)
    (hb : base + len + 32 < 2 ^ 62)
    (hSI : s.r .SI = base) (hBX : s.r .BX = len) (hAL : s.r .AX % 256 = c.toNat)
    (hmem : s.mem = mem) (hout : s.out = none) (hl : s.loads = [])
    (hcfg : s.avx2 = false ∨ len ≤ 64) (hf : 9 * (len + 1) + 50 ≤ f) :
    (run Gen.Asm.body_countbodyCase f (block Gen.Asm.body_countbodyCase "entry") s).out =
        some ((specCount (fun b => (b ||| 0x20) == (c ||| 0x20)) mem base len : Nat) : Int) ∧
    Safe base len (run Gen.Asm.body_countbodyCase f (block Gen.Asm.body_countbodyCase "entry") s).loads := by
  have e16 : 16 % W64 = 16 := by decide
  have e32 : 64 % W64 = 64 := by decide
  have e0 : 0 % W64 = 0 := by decide
  have s16 : sgn 16 = 16 := by decide
  have slen : sgn len = (len : Int) := sgn_small len (by omega)
  by_cases hlen : len < 16
  · -- small path
    obtain ⟨g, rfl⟩ : ∃ g, f = g + 12 := ⟨f - 12, by omega⟩
    have hlt : decide ((len : Int) < 16) = true := decide_eq_true (by omega)
    have hstep : ∃ s' : St, run Gen.Asm.body_countbodyCase (g + 12) (block Gen.Asm.body_countbodyCase "entry") s =
          run Gen.Asm.body_countbodyCase g (block Gen.Asm.body_countbodyCase "small") s' ∧
        s'.r .SI = base ∧ s'.r .BX = len ∧ (∀ j, s'.x .X0 j = (c ||| 0x20)) ∧ (∀ j, s'.x .X2 j = 0x20) ∧ s'.mem = mem ∧ s'.out = none ∧ s'.loads = [] := by
      refine ⟨?_, ?_, ?_, ?_, ?_, ?_, ?_, ?_, ?_⟩
      case refine_2 =>
        asm_exec [Gen.Asm.body_countbodyCase, hSI, hBX, e16, s16, slen, hlt]
        rfl
      case refine_5 => intro j; simp only [if_true, reduceCtorEq, if_false]; exact broadcast_lane _ (c ||| 0x20) (orl_lane _ c hAL) j
      case refine_6 => intro j; simp only [if_true]; exact broadcast_lane8 _ 0x20 (by decide) j
      all_goals simp [hSI, hBX, hmem, hout, hl]
    obtain ⟨s', he, i1, i2, i3, ix2, i4, i5, i6⟩ := hstep
    rw [he]
    have hsm := small_countbodyCase_correct mem base len (c ||| 0x20) s' g hlen (by omega) i1 i2 i3 ix2 i4 i5 i6 (by omega)
    rw [hsm.1, hsm.2, cntSmall_correct _ mem base len hlen]
    refine ⟨rfl, ?_⟩
    by_cases h0 : 0 < len
    · exact cntSmall_loads_safe _ mem base len hlen h0
    · have : len = 0 := by omega
      subst this; simp [cntSmall]; exact safe_nil base 0
  · -- SSE loop (directly, or back from the AVX2 label when the feature is off)
    have hge : ¬ ((len : Int) < 16) := by omega
    have hlt : decide ((len : Int) < 16) = false := decide_eq_false hge
    have hsse : ∃ s' : St, ∃ g : Nat, 9 * (len + 1) + 24 ≤ g ∧
        run Gen.Asm.body_countbodyCase f (block Gen.Asm.body_countbodyCase "entry") s =
          run Gen.Asm.body_countbodyCase g (block Gen.Asm.body_countbodyCase "sse") s' ∧
        s'.r .SI = base ∧ s'.r .DI = base ∧ s'.r .BX = len ∧ s'.r .R12 = 0 ∧ (∀ j, s'.x .X0 j = (c ||| 0x20)) ∧ (∀ j, s'.x .X2 j = 0x20) ∧ s'.mem = mem ∧ s'.out = none ∧ s'.loads = [] := by
      by_cases h32 : len ≤ 64
      · obtain ⟨g, rfl⟩ : ∃ g, f = g + 16 := ⟨f - 16, by omega⟩
        have hcf : (decide (len < 64) || (len == 64)) = true := by
          by_cases h : len = 64
          · subst h; rfl
          · have : len < 64 := by omega
            simp [this]
        refine ⟨?_, g, by omega, ?_, ?_, ?_, ?_, ?_, ?_, ?_, ?_, ?_, ?_⟩
        case refine_2 =>
          asm_exec [Gen.Asm.body_countbodyCase, hSI, hBX, e16, e32, e0, s16, slen, hlt, hcf]
          rfl
        case refine_7 => intro j; simp only [if_true, reduceCtorEq, if_false]; exact broadcast_lane _ (c ||| 0x20) (orl_lane _ c hAL) j
        case refine_8 => intro j; simp only [if_true]; exact broadcast_lane8 _ 0x20 (by decide) j
        all_goals simp [hSI, hBX, hmem, hout, hl]
      · have havx : s.avx2 = false := by rcases hcfg with h | h; exact h; omega
        obtain ⟨g, rfl⟩ : ∃ g, f = g + 18 := ⟨f - 18, by omega⟩
        have hcf : (decide (len < 64) || (len == 64)) = false := by
          have h1 : ¬ len < 64 := by omega
          have h2 : ¬ len = 64 := by omega
          simp [h1, h2]
        refine ⟨?_, g, by omega, ?_, ?_, ?_, ?_, ?_, ?_, ?_, ?_, ?_, ?_⟩
        case refine_2 =>
          asm_exec [Gen.Asm.body_countbodyCase, hSI, hBX, e16, e32, e0, s16, slen, hlt, hcf, havx]
          rfl
        case refine_7 => intro j; simp only [if_true, reduceCtorEq, if_false]; exact broadcast_lane _ (c ||| 0x20) (orl_lane _ c hAL) j
        case refine_8 => intro j; simp only [if_true]; exact broadcast_lane8 _ 0x20 (by decide) j
        all_goals simp [hSI, hBX, hmem, hout, hl]
    obtain ⟨s', g, hg, he, i1, i2, i3, ir, i4, ix2, i5, i6, i7⟩ := hsse
    rw [he]
    have hlp := ssecnt_countbodyCase_correct mem base len (c ||| 0x20) s' g (by omega) (by omega) i1 i2 i3 ir i4 ix2 i5 i6 i7 (by omega)
    exact ⟨hlp.1, safe_of_inside base len _ hlp.2⟩

end Asm
