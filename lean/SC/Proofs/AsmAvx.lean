import SC.Proofs.AsmWhole
/-!
The AVX2 search loops at instruction level: running the regenerated instructions from label `avx2`
(taken for `len > 32` when the CPU flag is set) computes the block-level loop `Kern.idxLoop ⟨32,32,32⟩`.

The loop is a do-while (`load; test; DI += 32; if DI < R11 goto loop`), entered with `0 < len - 32`, followed by
one block at `len - 32`.  `Y_k` registers are a separate register file in the model (see `Asm.YReg`).
-/
namespace Asm
open Kern

def P32 : LoopP := ⟨32, 32, 32⟩

theorem lanesZero_iff (f : Nat → UInt8) : ∀ n, lanesZero f n = true ↔ ∀ i, i < n → f i = 0
  | 0 => by simp [lanesZero]
  | n+1 => by
    simp only [lanesZero, Bool.and_eq_true, beq_iff_eq, lanesZero_iff f n]
    constructor
    · rintro ⟨h1, h2⟩ i hi
      by_cases h : i = n
      · subst h; exact h2
      · exact h1 i (by omega)
    · intro h
      exact ⟨fun i hi => h i (by omega), h n (by omega)⟩

theorem blk_eq_none_iff (p : UInt8 → Bool) (mem : Mem) (a : Nat) : ∀ (n j : Nat),
    blk p mem a j n = none ↔ ∀ i, j ≤ i → i < j + n → p (mem (a + i)) = false
  | 0, j => by simp [blk]; intro i h1 h2; omega
  | n+1, j => by
    simp only [blk]
    by_cases hp : p (mem (a + j)) = true
    · rw [if_pos hp]
      constructor
      · intro h; cases h
      · intro h; have := h j (Nat.le_refl _) (by omega); rw [hp] at this; cases this
    · rw [if_neg hp, blk_eq_none_iff p mem a n (j + 1)]
      constructor
      · intro h i h1 h2
        by_cases e : i = j
        · subst e; simpa using hp
        · exact h i (by omega) (by omega)
      · intro h i h1 h2
        exact h i (by omega) (by omega)

/-- `VPTEST Y3, Y3` after a comparison: ZF is set exactly when the 32-byte block has no match -/
theorem vptest_blk (F : Nat → UInt8) (p : UInt8 → Bool) (mem : Mem) (a : Nat)
    (hF : ∀ j, decide (F j ≥ 0x80) = p (mem (a + j))) (hz : ∀ j, F j = 0 ∨ F j ≥ 0x80) :
    lanesZero F 32 = (blk p mem a 0 32).isNone := by
  by_cases h : blk p mem a 0 32 = none
  · rw [h]
    have h' := (blk_eq_none_iff p mem a 32 0).1 h
    apply (lanesZero_iff F 32).2
    intro i hi
    have := h' i (Nat.zero_le _) (by omega)
    rw [← hF i] at this
    rcases hz i with h0 | h1
    · exact h0
    · simp [h1] at this
  · have hne : lanesZero F 32 ≠ true := by
      intro hl
      apply h
      apply (blk_eq_none_iff p mem a 32 0).2
      intro i _ hi
      have := (lanesZero_iff F 32).1 hl i (by omega)
      rw [← hF i, this]; rfl
    cases hb : blk p mem a 0 32 with
    | none => exact absurd hb h
    | some k => simpa using hne

theorem mask32_mod (F : Nat → UInt8) : mask F 32 % W32 = mask F 32 :=
  Nat.mod_eq_of_lt (by have := mask_lt F 32; unfold W32; exact this)

/-- `VPMOVMSKB; BSFL` on a 32-lane comparison result is the block search -/
theorem bsf_mask32 (F : Nat → UInt8) (p : UInt8 → Bool) (mem : Mem) (a : Nat)
    (hF : ∀ j, decide (F j ≥ 0x80) = p (mem (a + j))) :
    firstBit (mask F 32 % W32) 0 32 = blk p mem a 0 32 := by
  rw [mask32_mod]
  apply firstBit_eq_blk
  intro i _ hi
  rw [mask_testBit, ← hF i]
  have : i < 32 := by omega
  simp [this]

theorem idxLoop_succ32 (p : UInt8 → Bool) (mem : Mem) (base len n di : Nat) :
    idxLoop P32 p mem base len (n + 1) di =
      if di < len - 32 then
        (match blk p mem (base + di) 0 32 with
          | some j => (((di + j : Nat) : Int), [(base + di, 32)])
          | none => ((idxLoop P32 p mem base len n (di + 32)).1, (base + di, 32) :: (idxLoop P32 p mem base len n (di + 32)).2))
      else
        (match blk p mem (base + (len - 32)) 0 32 with
          | some j => (((len - 32 + j : Nat) : Int), [(base + (len - 32), 32)])
          | none => (-1, [(base + (len - 32), 32)])) := rfl

/-- program text from label `avx2_loop` on -/
def Lavx (p : Prog) : List Instr := block p "avx2_loop"

macro "avx_step" "[" ts:Lean.Parser.Tactic.simpLemma,* "]" : tactic =>
  `(tactic| simp only [Lavx, block, String.reduceBEq, List.map, List.flatten, List.append_eq, List.append_nil, List.cons_append,
      List.nil_append, run, step, setR, setX, setY, addr, reduceCtorEq, if_false, if_true, Bool.false_eq_true, decide_true, decide_false,
      List.append_assoc, UInt8.and_self, Bool.not_true, Bool.not_false, Option.isNone_none, Option.isNone_some, Bool.or_false, Bool.or_true,
      Bool.false_or, Bool.true_or, $ts,*])

set_option maxRecDepth 8000 in
set_option maxHeartbeats 8000000 in
theorem avx_indexbytebody_inv (mem : Nat → UInt8) (base len : Nat) (c : UInt8) (h32 : 32 < len) (hb : base + len + 64 < 2 ^ 63) :
    ∀ (n di : Nat) (s : St) (f : Nat),
      s.r .SI = base → s.r .DI = base + di → s.r .R11 = base + len - 32 → (∀ j, s.y .Y1 j = c) → (∀ _j : Nat, True) →
      s.mem = mem → s.out = none →
      di < len - 32 → len ≤ n * 32 + di → 7 * n + 20 ≤ f →
      (run Gen.Asm.body_indexbytebody f (Lavx Gen.Asm.body_indexbytebody) s).out =
          some (idxLoop P32 (fun b => b == c) mem base len (n + 1) di).1 ∧
      (run Gen.Asm.body_indexbytebody f (Lavx Gen.Asm.body_indexbytebody) s).loads =
          s.loads ++ (idxLoop P32 (fun b => b == c) mem base len (n + 1) di).2 := by
  intro n
  induction n with
  | zero => intro di s f _ _ _ _ _ _ _ h1 h2; omega
  | succ n ih =>
    intro di s f hSI hDI hR11 hY1 hY4 hmem hout hlt hf hfuel
    have hW : W64 = 2 ^ 64 := rfl
    rw [idxLoop_succ32, if_pos hlt]
    have a0 : (base + di + 0 + dispN 0) % W64 = base + di := by rw [dispN0, hW]; omega
    have hfb := bsf_mask32 (fun j => if mem (base + di + j) = c then (255 : UInt8) else 0) (fun b => b == c) mem (base + di)
      (fun j => by by_cases h : mem (base + di + j) = c <;> simp [h])
    have hzf := vptest_blk (fun j => if mem (base + di + j) = c then (255 : UInt8) else 0) (fun b => b == c) mem (base + di)
      (fun j => by by_cases h : mem (base + di + j) = c <;> simp [h])
      (fun j => by by_cases h : mem (base + di + j) = c <;> simp [h])
    cases hblk : blk (fun b => b == c) mem (base + di) 0 32 with
    | none =>
      rw [hblk] at hfb hzf
      simp only []
      have hadd : (base + di + 32 % W64) % W64 = base + (di + 32) := by rw [hW]; omega
      have s1 : sgn (base + (di + 32)) = ((base + (di + 32) : Nat) : Int) := sgn_small _ (by omega)
      have s2 : sgn (base + len - 32) = ((base + len - 32 : Nat) : Int) := sgn_small _ (by omega)
      by_cases hnext : di + 32 < len - 32
      · -- one full iteration, then the invariant again at di + 32
        have hcmp : decide (((base + (di + 32) : Nat) : Int) < ((base + len - 32 : Nat) : Int)) = true := decide_eq_true (by omega)
        obtain ⟨g, rfl⟩ : ∃ g, f = g + 7 := ⟨f - 7, by omega⟩
        have hstep : ∃ s' : St, run Gen.Asm.body_indexbytebody (g + 7) (Lavx Gen.Asm.body_indexbytebody) s =
              run Gen.Asm.body_indexbytebody g (Lavx Gen.Asm.body_indexbytebody) s' ∧
            s'.r .SI = base ∧ s'.r .DI = base + (di + 32) ∧ s'.r .R11 = base + len - 32 ∧ (∀ j, s'.y .Y1 j = c) ∧
            (∀ _j : Nat, True) ∧ s'.mem = mem ∧ s'.out = none ∧ s'.loads = s.loads ++ [(base + di, 32)] := by
          refine ⟨?_, ?_, ?_, ?_, ?_, ?_, ?_, ?_, ?_, ?_⟩
          case refine_2 =>
            avx_step [Gen.Asm.body_indexbytebody, hSI, hDI, hR11, hY1, hmem, a0, hzf, hadd, s1, s2, hcmp]
            rfl
          all_goals simp [hSI, hR11, hY1, hout]
        obtain ⟨s', he, i1, i2, i3, i4, i5, i6, i7, i8⟩ := hstep
        have := ih (di + 32) s' g i1 i2 i3 i4 i5 i6 i7 hnext (by omega) (by omega)
        rw [he, this.1, this.2, i8]
        exact ⟨rfl, by simp⟩
      · -- last iteration of the loop, then the final block at len - 32
        have hcmp : decide (((base + (di + 32) : Nat) : Int) < ((base + len - 32 : Nat) : Int)) = false := decide_eq_false (by omega)
        obtain ⟨m, rfl⟩ : ∃ m, n = m + 1 := ⟨n - 1, by omega⟩
        rw [idxLoop_succ32, if_neg hnext]
        have eaddr : base + (len - 32) = base + len - 32 := by omega
        rw [eaddr]
        have a1 : (base + len - 32 + 0 + dispN 0) % W64 = base + len - 32 := by rw [dispN0, hW]; omega
        have hfb' := bsf_mask32 (fun j => if mem (base + len - 32 + j) = c then (255 : UInt8) else 0) (fun b => b == c) mem (base + len - 32)
          (fun j => by by_cases h : mem (base + len - 32 + j) = c <;> simp [h])
        have hzf' := vptest_blk (fun j => if mem (base + len - 32 + j) = c then (255 : UInt8) else 0) (fun b => b == c) mem (base + len - 32)
          (fun j => by by_cases h : mem (base + len - 32 + j) = c <;> simp [h])
          (fun j => by by_cases h : mem (base + len - 32 + j) = c <;> simp [h])
        obtain ⟨g, rfl⟩ : ∃ g, f = g + 20 := ⟨f - 20, by omega⟩
        cases hblk' : blk (fun b => b == c) mem (base + len - 32) 0 32 with
        | none =>
          rw [hblk'] at hfb' hzf'
          simp only []
          constructor <;> avx_step [Gen.Asm.body_indexbytebody, hSI, hDI, hR11, hY1, hmem, hout, a0, a1, hzf, hzf', hadd, s1, s2, hcmp]
        | some k =>
          rw [hblk'] at hfb' hzf'
          obtain ⟨_, hk32, _, _⟩ := blk_some hblk'
          simp only []
          have hsub : (base + len - 32 + W64 - base % W64) % W64 = len - 32 := by rw [hW]; omega
          have haddk : (k + (len - 32)) % W64 = len - 32 + k := by rw [hW]; omega
          have h63 : len - 32 + k < 2 ^ 63 := by omega
          constructor <;> avx_step [Gen.Asm.body_indexbytebody, hSI, hDI, hR11, hY1, hmem, hout, a0, a1, hzf, hzf', hfb', hadd, s1, s2, hcmp, hsub, haddk, h63]
    | some k =>
      rw [hblk] at hfb hzf
      obtain ⟨_, hk32, _, _⟩ := blk_some hblk
      simp only []
      have hsub : (base + di + W64 - base % W64) % W64 = di := by rw [hW]; omega
      have haddk : (k + di) % W64 = di + k := by rw [hW]; omega
      have h63 : di + k < 2 ^ 63 := by omega
      obtain ⟨g, rfl⟩ : ∃ g, f = g + 20 := ⟨f - 20, by omega⟩
      constructor <;> avx_step [Gen.Asm.body_indexbytebody, hSI, hDI, hR11, hY1, hmem, hout, a0, hzf, hfb, hsub, haddk, h63]

theorem movd_lane0 (ax : Nat) (c : UInt8) (hAL : ax % 256 = c.toNat) :
    (if 0 < 8 then UInt8.ofNat (ax / 256 ^ 0 % 256) else 0) = c := by
  rw [if_pos (by omega), Nat.pow_zero, Nat.div_one, hAL]
  exact Utf8.ofNat_toNat_id c

theorem dispNm32 : dispN (-32) = W64 - 32 := by decide

set_option maxRecDepth 8000 in
set_option maxHeartbeats 8000000 in
/-- **`indexbytebody`, AVX2 path, from label `avx2`** (flag set, `SI` = `DI` = data, `BX` = length > 32, needle in `AL`) -/
theorem avx_indexbytebody_correct (mem : Nat → UInt8) (base len : Nat) (c : UInt8) (s : St) (f : Nat)
    (h32 : 32 < len) (hb : base + len + 64 < 2 ^ 63) (havx : s.avx2 = true)
    (hSI : s.r .SI = base) (hDI : s.r .DI = base) (hBX : s.r .BX = len) (hAL : s.r .AX % 256 = c.toNat)
    (hmem : s.mem = mem) (hout : s.out = none) (hl : s.loads = []) (hf : 7 * len + 20 + 5 ≤ f) :
    (run Gen.Asm.body_indexbytebody f (block Gen.Asm.body_indexbytebody "avx2") s).out = some (specIndex (fun b => b == c) mem base len) ∧
    ∀ ld ∈ (run Gen.Asm.body_indexbytebody f (block Gen.Asm.body_indexbytebody "avx2") s).loads, base ≤ ld.1 ∧ ld.1 + ld.2 ≤ base + len := by
  have hW : W64 = 2 ^ 64 := rfl
  obtain ⟨g, rfl⟩ : ∃ g, f = g + 5 := ⟨f - 5, by omega⟩
  have alea : (base + len + dispN (-32)) % W64 = base + len - 32 := by rw [dispNm32, hW]; omega
  have hstep : ∃ s' : St, run Gen.Asm.body_indexbytebody (g + 5) (block Gen.Asm.body_indexbytebody "avx2") s =
        run Gen.Asm.body_indexbytebody g (Lavx Gen.Asm.body_indexbytebody) s' ∧
      s'.r .SI = base ∧ s'.r .DI = base + 0 ∧ s'.r .R11 = base + len - 32 ∧ (∀ j, s'.y .Y1 j = c) ∧
      s'.mem = mem ∧ s'.out = none ∧ s'.loads = [] := by
    refine ⟨?_, ?_, ?_, ?_, ?_, ?_, ?_, ?_, ?_⟩
    case refine_2 =>
      avx_step [Gen.Asm.body_indexbytebody, hSI, hBX, alea, havx]
      rfl
    case refine_6 => intro j; simp only [if_true]; exact movd_lane0 _ c hAL
    all_goals simp [hSI, hDI, hmem, hout, hl]
  obtain ⟨s', he, i1, i2, i3, i4, i5, i6, i7⟩ := hstep
  have hinv := avx_indexbytebody_inv mem base len c h32 hb len 0 s' g i1 i2 i3 i4 (fun _ => trivial) i5 i6 (by omega) (by omega) (by omega)
  have hcor := idxLoop_correct P32 ⟨rfl, rfl, by decide⟩ (fun b => b == c) mem base len (by show 32 ≤ len; omega) (len + 1) 0 (by omega)
    (by show len ≤ (len + 1) * 32 + 0; omega) (fun i hi => by omega)
  rw [he, hinv.1, hinv.2, hcor.1]
  refine ⟨rfl, ?_⟩
  intro ld hld
  simp only [i7, List.nil_append] at hld
  exact hcor.2 ld hld

set_option maxRecDepth 8000 in
set_option maxHeartbeats 8000000 in
theorem avx_indexbytebodyCase_inv (mem : Nat → UInt8) (base len : Nat) (c : UInt8) (h32 : 32 < len) (hb : base + len + 64 < 2 ^ 63) :
    ∀ (n di : Nat) (s : St) (f : Nat),
      s.r .SI = base → s.r .DI = base + di → s.r .R11 = base + len - 32 → (∀ j, s.y .Y1 j = c) → (∀ j, s.y .Y4 j = 0x20) →
      s.mem = mem → s.out = none →
      di < len - 32 → len ≤ n * 32 + di → 8 * n + 22 ≤ f →
      (run Gen.Asm.body_indexbytebodyCase f (Lavx Gen.Asm.body_indexbytebodyCase) s).out =
          some (idxLoop P32 (fun b => (b ||| 0x20) == c) mem base len (n + 1) di).1 ∧
      (run Gen.Asm.body_indexbytebodyCase f (Lavx Gen.Asm.body_indexbytebodyCase) s).loads =
          s.loads ++ (idxLoop P32 (fun b => (b ||| 0x20) == c) mem base len (n + 1) di).2 := by
  intro n
  induction n with
  | zero => intro di s f _ _ _ _ _ _ _ h1 h2; omega
  | succ n ih =>
    intro di s f hSI hDI hR11 hY1 hY4 hmem hout hlt hf hfuel
    have hW : W64 = 2 ^ 64 := rfl
    rw [idxLoop_succ32, if_pos hlt]
    have a0 : (base + di + 0 + dispN 0) % W64 = base + di := by rw [dispN0, hW]; omega
    have hfb := bsf_mask32 (fun j => if mem (base + di + j) ||| 32 = c then (255 : UInt8) else 0) (fun b => (b ||| 0x20) == c) mem (base + di)
      (fun j => by by_cases h : mem (base + di + j) ||| 32 = c <;> simp [h])
    have hzf := vptest_blk (fun j => if mem (base + di + j) ||| 32 = c then (255 : UInt8) else 0) (fun b => (b ||| 0x20) == c) mem (base + di)
      (fun j => by by_cases h : mem (base + di + j) ||| 32 = c <;> simp [h])
      (fun j => by by_cases h : mem (base + di + j) ||| 32 = c <;> simp [h])
    cases hblk : blk (fun b => (b ||| 0x20) == c) mem (base + di) 0 32 with
    | none =>
      rw [hblk] at hfb hzf
      simp only []
      have hadd : (base + di + 32 % W64) % W64 = base + (di + 32) := by rw [hW]; omega
      have s1 : sgn (base + (di + 32)) = ((base + (di + 32) : Nat) : Int) := sgn_small _ (by omega)
      have s2 : sgn (base + len - 32) = ((base + len - 32 : Nat) : Int) := sgn_small _ (by omega)
      by_cases hnext : di + 32 < len - 32
      · -- one full iteration, then the invariant again at di + 32
        have hcmp : decide (((base + (di + 32) : Nat) : Int) < ((base + len - 32 : Nat) : Int)) = true := decide_eq_true (by omega)
        obtain ⟨g, rfl⟩ : ∃ g, f = g + 8 := ⟨f - 8, by omega⟩
        have hstep : ∃ s' : St, run Gen.Asm.body_indexbytebodyCase (g + 8) (Lavx Gen.Asm.body_indexbytebodyCase) s =
              run Gen.Asm.body_indexbytebodyCase g (Lavx Gen.Asm.body_indexbytebodyCase) s' ∧
            s'.r .SI = base ∧ s'.r .DI = base + (di + 32) ∧ s'.r .R11 = base + len - 32 ∧ (∀ j, s'.y .Y1 j = c) ∧
            (∀ j, s'.y .Y4 j = 0x20) ∧ s'.mem = mem ∧ s'.out = none ∧ s'.loads = s.loads ++ [(base + di, 32)] := by
          refine ⟨?_, ?_, ?_, ?_, ?_, ?_, ?_, ?_, ?_, ?_⟩
          case refine_2 =>
            avx_step [Gen.Asm.body_indexbytebodyCase, hSI, hDI, hR11, hY1, hY4, hmem, a0, hzf, hadd, s1, s2, hcmp]
            rfl
          all_goals simp [hSI, hR11, hY1, hY4, hout]
        obtain ⟨s', he, i1, i2, i3, i4, i5, i6, i7, i8⟩ := hstep
        have := ih (di + 32) s' g i1 i2 i3 i4 i5 i6 i7 hnext (by omega) (by omega)
        rw [he, this.1, this.2, i8]
        exact ⟨rfl, by simp⟩
      · -- last iteration of the loop, then the final block at len - 32
        have hcmp : decide (((base + (di + 32) : Nat) : Int) < ((base + len - 32 : Nat) : Int)) = false := decide_eq_false (by omega)
        obtain ⟨m, rfl⟩ : ∃ m, n = m + 1 := ⟨n - 1, by omega⟩
        rw [idxLoop_succ32, if_neg hnext]
        have eaddr : base + (len - 32) = base + len - 32 := by omega
        rw [eaddr]
        have a1 : (base + len - 32 + 0 + dispN 0) % W64 = base + len - 32 := by rw [dispN0, hW]; omega
        have hfb' := bsf_mask32 (fun j => if mem (base + len - 32 + j) ||| 32 = c then (255 : UInt8) else 0) (fun b => (b ||| 0x20) == c) mem (base + len - 32)
          (fun j => by by_cases h : mem (base + len - 32 + j) ||| 32 = c <;> simp [h])
        have hzf' := vptest_blk (fun j => if mem (base + len - 32 + j) ||| 32 = c then (255 : UInt8) else 0) (fun b => (b ||| 0x20) == c) mem (base + len - 32)
          (fun j => by by_cases h : mem (base + len - 32 + j) ||| 32 = c <;> simp [h])
          (fun j => by by_cases h : mem (base + len - 32 + j) ||| 32 = c <;> simp [h])
        obtain ⟨g, rfl⟩ : ∃ g, f = g + 22 := ⟨f - 22, by omega⟩
        cases hblk' : blk (fun b => (b ||| 0x20) == c) mem (base + len - 32) 0 32 with
        | none =>
          rw [hblk'] at hfb' hzf'
          simp only []
          constructor <;> avx_step [Gen.Asm.body_indexbytebodyCase, hSI, hDI, hR11, hY1, hY4, hmem, hout, a0, a1, hzf, hzf', hadd, s1, s2, hcmp]
        | some k =>
          rw [hblk'] at hfb' hzf'
          obtain ⟨_, hk32, _, _⟩ := blk_some hblk'
          simp only []
          have hsub : (base + len - 32 + W64 - base % W64) % W64 = len - 32 := by rw [hW]; omega
          have haddk : (k + (len - 32)) % W64 = len - 32 + k := by rw [hW]; omega
          have h63 : len - 32 + k < 2 ^ 63 := by omega
          constructor <;> avx_step [Gen.Asm.body_indexbytebodyCase, hSI, hDI, hR11, hY1, hY4, hmem, hout, a0, a1, hzf, hzf', hfb', hadd, s1, s2, hcmp, hsub, haddk, h63]
    | some k =>
      rw [hblk] at hfb hzf
      obtain ⟨_, hk32, _, _⟩ := blk_some hblk
      simp only []
      have hsub : (base + di + W64 - base % W64) % W64 = di := by rw [hW]; omega
      have haddk : (k + di) % W64 = di + k := by rw [hW]; omega
      have h63 : di + k < 2 ^ 63 := by omega
      obtain ⟨g, rfl⟩ : ∃ g, f = g + 22 := ⟨f - 22, by omega⟩
      constructor <;> avx_step [Gen.Asm.body_indexbytebodyCase, hSI, hDI, hR11, hY1, hY4, hmem, hout, a0, hzf, hfb, hsub, haddk, h63]


set_option maxRecDepth 8000 in
set_option maxHeartbeats 8000000 in
/-- **`indexbytebodyCase`, AVX2 path, from label `avx2`** (flag set, `SI` = `DI` = data, `BX` = length > 32, needle in `AL`) -/
theorem avx_indexbytebodyCase_correct (mem : Nat → UInt8) (base len : Nat) (c : UInt8) (s : St) (f : Nat)
    (h32 : 32 < len) (hb : base + len + 64 < 2 ^ 63) (havx : s.avx2 = true)
    (hSI : s.r .SI = base) (hDI : s.r .DI = base) (hBX : s.r .BX = len) (hAL : s.r .AX % 256 = c.toNat) (hX2 : ∀ j, s.x .X2 j = 0x20)
    (hmem : s.mem = mem) (hout : s.out = none) (hl : s.loads = []) (hf : 8 * len + 22 + 6 ≤ f) :
    (run Gen.Asm.body_indexbytebodyCase f (block Gen.Asm.body_indexbytebodyCase "avx2") s).out = some (specIndex (fun b => (b ||| 0x20) == c) mem base len) ∧
    ∀ ld ∈ (run Gen.Asm.body_indexbytebodyCase f (block Gen.Asm.body_indexbytebodyCase "avx2") s).loads, base ≤ ld.1 ∧ ld.1 + ld.2 ≤ base + len := by
  have hW : W64 = 2 ^ 64 := rfl
  obtain ⟨g, rfl⟩ : ∃ g, f = g + 6 := ⟨f - 6, by omega⟩
  have alea : (base + len + dispN (-32)) % W64 = base + len - 32 := by rw [dispNm32, hW]; omega
  have hstep : ∃ s' : St, run Gen.Asm.body_indexbytebodyCase (g + 6) (block Gen.Asm.body_indexbytebodyCase "avx2") s =
        run Gen.Asm.body_indexbytebodyCase g (Lavx Gen.Asm.body_indexbytebodyCase) s' ∧
      s'.r .SI = base ∧ s'.r .DI = base + 0 ∧ s'.r .R11 = base + len - 32 ∧ (∀ j, s'.y .Y1 j = c) ∧ (∀ j, s'.y .Y4 j = 0x20) ∧
      s'.mem = mem ∧ s'.out = none ∧ s'.loads = [] := by
    refine ⟨?_, ?_, ?_, ?_, ?_, ?_, ?_, ?_, ?_, ?_⟩
    case refine_2 =>
      avx_step [Gen.Asm.body_indexbytebodyCase, hSI, hBX, alea, havx]
      rfl
    case refine_6 => intro j; simp only [if_true]; exact movd_lane0 _ c hAL
    all_goals simp [hSI, hDI, hmem, hout, hl, hX2]
  obtain ⟨s', he, i1, i2, i3, i4, i4b, i5, i6, i7⟩ := hstep
  have hinv := avx_indexbytebodyCase_inv mem base len c h32 hb len 0 s' g i1 i2 i3 i4 i4b i5 i6 (by omega) (by omega) (by omega)
  have hcor := idxLoop_correct P32 ⟨rfl, rfl, by decide⟩ (fun b => (b ||| 0x20) == c) mem base len (by show 32 ≤ len; omega) (len + 1) 0 (by omega)
    (by show len ≤ (len + 1) * 32 + 0; omega) (fun i hi => by omega)
  rw [he, hinv.1, hinv.2, hcor.1]
  refine ⟨rfl, ?_⟩
  intro ld hld
  simp only [i7, List.nil_append] at hld
  exact hcor.2 ld hld


theorem and128_all : (List.range 256).all (fun n => decide (UInt8.ofNat n &&& 128 = 128) == decide (UInt8.ofNat n ≥ 0x80)) = true := by
  decide +kernel

theorem and128 (b : UInt8) : decide (b &&& 128 = 128) = decide (b ≥ 0x80) := by
  have h := List.all_eq_true.1 and128_all b.toNat (List.mem_range.2 b.toNat_lt)
  rw [Utf8.ofNat_toNat_id] at h
  exact eq_of_beq h

set_option maxRecDepth 8000 in
set_option maxHeartbeats 8000000 in
theorem avx_indexByteBodyNonASCII_inv (mem : Nat → UInt8) (base len : Nat) (h32 : 32 < len) (hb : base + len + 64 < 2 ^ 63) :
    ∀ (n di : Nat) (s : St) (f : Nat),
      s.r .SI = base → s.r .DI = base + di → s.r .R11 = base + len - 32 → (∀ j, s.y .Y1 j = 0x80) → (∀ j, s.y .Y4 j = 0x80) →
      s.mem = mem → s.out = none →
      di < len - 32 → len ≤ n * 32 + di → 8 * n + 22 ≤ f →
      (run Gen.Asm.body_indexByteBodyNonASCII f (Lavx Gen.Asm.body_indexByteBodyNonASCII) s).out =
          some (idxLoop P32 (fun b => decide (b ≥ 0x80)) mem base len (n + 1) di).1 ∧
      (run Gen.Asm.body_indexByteBodyNonASCII f (Lavx Gen.Asm.body_indexByteBodyNonASCII) s).loads =
          s.loads ++ (idxLoop P32 (fun b => decide (b ≥ 0x80)) mem base len (n + 1) di).2 := by
  intro n
  induction n with
  | zero => intro di s f _ _ _ _ _ _ _ h1 h2; omega
  | succ n ih =>
    intro di s f hSI hDI hR11 hY1 hY4 hmem hout hlt hf hfuel
    have hW : W64 = 2 ^ 64 := rfl
    rw [idxLoop_succ32, if_pos hlt]
    have a0 : (base + di + 0 + dispN 0) % W64 = base + di := by rw [dispN0, hW]; omega
    have hfb := bsf_mask32 (fun j => if mem (base + di + j) &&& 128 = 128 then (255 : UInt8) else 0) (fun b => decide (b ≥ 0x80)) mem (base + di)
      (fun j => by (try rw [← and128 (mem (base + di + j))]); by_cases h : mem (base + di + j) &&& 128 = 128 <;> simp [h])
    have hzf := vptest_blk (fun j => if mem (base + di + j) &&& 128 = 128 then (255 : UInt8) else 0) (fun b => decide (b ≥ 0x80)) mem (base + di)
      (fun j => by (try rw [← and128 (mem (base + di + j))]); by_cases h : mem (base + di + j) &&& 128 = 128 <;> simp [h])
      (fun j => by (try rw [← and128 (mem (base + di + j))]); by_cases h : mem (base + di + j) &&& 128 = 128 <;> simp [h])
    cases hblk : blk (fun b => decide (b ≥ 0x80)) mem (base + di) 0 32 with
    | none =>
      rw [hblk] at hfb hzf
      simp only []
      have hadd : (base + di + 32 % W64) % W64 = base + (di + 32) := by rw [hW]; omega
      have s1 : sgn (base + (di + 32)) = ((base + (di + 32) : Nat) : Int) := sgn_small _ (by omega)
      have s2 : sgn (base + len - 32) = ((base + len - 32 : Nat) : Int) := sgn_small _ (by omega)
      by_cases hnext : di + 32 < len - 32
      · -- one full iteration, then the invariant again at di + 32
        have hcmp : decide (((base + (di + 32) : Nat) : Int) < ((base + len - 32 : Nat) : Int)) = true := decide_eq_true (by omega)
        obtain ⟨g, rfl⟩ : ∃ g, f = g + 8 := ⟨f - 8, by omega⟩
        have hstep : ∃ s' : St, run Gen.Asm.body_indexByteBodyNonASCII (g + 8) (Lavx Gen.Asm.body_indexByteBodyNonASCII) s =
              run Gen.Asm.body_indexByteBodyNonASCII g (Lavx Gen.Asm.body_indexByteBodyNonASCII) s' ∧
            s'.r .SI = base ∧ s'.r .DI = base + (di + 32) ∧ s'.r .R11 = base + len - 32 ∧ (∀ j, s'.y .Y1 j = 0x80) ∧
            (∀ j, s'.y .Y4 j = 0x80) ∧ s'.mem = mem ∧ s'.out = none ∧ s'.loads = s.loads ++ [(base + di, 32)] := by
          refine ⟨?_, ?_, ?_, ?_, ?_, ?_, ?_, ?_, ?_, ?_⟩
          case refine_2 =>
            avx_step [Gen.Asm.body_indexByteBodyNonASCII, hSI, hDI, hR11, hY1, hY4, hmem, a0, hzf, hadd, s1, s2, hcmp]
            rfl
          all_goals simp [hSI, hR11, hY1, hY4, hout]
        obtain ⟨s', he, i1, i2, i3, i4, i5, i6, i7, i8⟩ := hstep
        have := ih (di + 32) s' g i1 i2 i3 i4 i5 i6 i7 hnext (by omega) (by omega)
        rw [he, this.1, this.2, i8]
        exact ⟨rfl, by simp⟩
      · -- last iteration of the loop, then the final block at len - 32
        have hcmp : decide (((base + (di + 32) : Nat) : Int) < ((base + len - 32 : Nat) : Int)) = false := decide_eq_false (by omega)
        obtain ⟨m, rfl⟩ : ∃ m, n = m + 1 := ⟨n - 1, by omega⟩
        rw [idxLoop_succ32, if_neg hnext]
        have eaddr : base + (len - 32) = base + len - 32 := by omega
        rw [eaddr]
        have a1 : (base + len - 32 + 0 + dispN 0) % W64 = base + len - 32 := by rw [dispN0, hW]; omega
        have hfb' := bsf_mask32 (fun j => if mem (base + len - 32 + j) &&& 128 = 128 then (255 : UInt8) else 0) (fun b => decide (b ≥ 0x80)) mem (base + len - 32)
          (fun j => by (try rw [← and128 (mem (base + len - 32 + j))]); by_cases h : mem (base + len - 32 + j) &&& 128 = 128 <;> simp [h])
        have hzf' := vptest_blk (fun j => if mem (base + len - 32 + j) &&& 128 = 128 then (255 : UInt8) else 0) (fun b => decide (b ≥ 0x80)) mem (base + len - 32)
          (fun j => by (try rw [← and128 (mem (base + len - 32 + j))]); by_cases h : mem (base + len - 32 + j) &&& 128 = 128 <;> simp [h])
          (fun j => by (try rw [← and128 (mem (base + len - 32 + j))]); by_cases h : mem (base + len - 32 + j) &&& 128 = 128 <;> simp [h])
        obtain ⟨g, rfl⟩ : ∃ g, f = g + 22 := ⟨f - 22, by omega⟩
        cases hblk' : blk (fun b => decide (b ≥ 0x80)) mem (base + len - 32) 0 32 with
        | none =>
          rw [hblk'] at hfb' hzf'
          simp only []
          constructor <;> avx_step [Gen.Asm.body_indexByteBodyNonASCII, hSI, hDI, hR11, hY1, hY4, hmem, hout, a0, a1, hzf, hzf', hadd, s1, s2, hcmp]
        | some k =>
          rw [hblk'] at hfb' hzf'
          obtain ⟨_, hk32, _, _⟩ := blk_some hblk'
          simp only []
          have hsub : (base + len - 32 + W64 - base % W64) % W64 = len - 32 := by rw [hW]; omega
          have haddk : (k + (len - 32)) % W64 = len - 32 + k := by rw [hW]; omega
          have h63 : len - 32 + k < 2 ^ 63 := by omega
          constructor <;> avx_step [Gen.Asm.body_indexByteBodyNonASCII, hSI, hDI, hR11, hY1, hY4, hmem, hout, a0, a1, hzf, hzf', hfb', hadd, s1, s2, hcmp, hsub, haddk, h63]
    | some k =>
      rw [hblk] at hfb hzf
      obtain ⟨_, hk32, _, _⟩ := blk_some hblk
      simp only []
      have hsub : (base + di + W64 - base % W64) % W64 = di := by rw [hW]; omega
      have haddk : (k + di) % W64 = di + k := by rw [hW]; omega
      have h63 : di + k < 2 ^ 63 := by omega
      obtain ⟨g, rfl⟩ : ∃ g, f = g + 22 := ⟨f - 22, by omega⟩
      constructor <;> avx_step [Gen.Asm.body_indexByteBodyNonASCII, hSI, hDI, hR11, hY1, hY4, hmem, hout, a0, hzf, hfb, hsub, haddk, h63]


set_option maxRecDepth 8000 in
set_option maxHeartbeats 8000000 in
/-- **`indexByteBodyNonASCII`, AVX2 path, from label `avx2`** (flag set, `SI` = `DI` = data, `BX` = length > 32, needle in `AL`) -/
theorem avx_indexByteBodyNonASCII_correct (mem : Nat → UInt8) (base len : Nat) (s : St) (f : Nat)
    (h32 : 32 < len) (hb : base + len + 64 < 2 ^ 63) (havx : s.avx2 = true)
    (hSI : s.r .SI = base) (hDI : s.r .DI = base) (hBX : s.r .BX = len) (hAL : s.r .AX % 256 = (0x80 : UInt8).toNat)
    (hmem : s.mem = mem) (hout : s.out = none) (hl : s.loads = []) (hf : 8 * len + 22 + 7 ≤ f) :
    (run Gen.Asm.body_indexByteBodyNonASCII f (block Gen.Asm.body_indexByteBodyNonASCII "avx2") s).out = some (specIndex (fun b => decide (b ≥ 0x80)) mem base len) ∧
    ∀ ld ∈ (run Gen.Asm.body_indexByteBodyNonASCII f (block Gen.Asm.body_indexByteBodyNonASCII "avx2") s).loads, base ≤ ld.1 ∧ ld.1 + ld.2 ≤ base + len := by
  have hW : W64 = 2 ^ 64 := rfl
  obtain ⟨g, rfl⟩ : ∃ g, f = g + 7 := ⟨f - 7, by omega⟩
  have alea : (base + len + dispN (-32)) % W64 = base + len - 32 := by rw [dispNm32, hW]; omega
  have hstep : ∃ s' : St, run Gen.Asm.body_indexByteBodyNonASCII (g + 7) (block Gen.Asm.body_indexByteBodyNonASCII "avx2") s =
        run Gen.Asm.body_indexByteBodyNonASCII g (Lavx Gen.Asm.body_indexByteBodyNonASCII) s' ∧
      s'.r .SI = base ∧ s'.r .DI = base + 0 ∧ s'.r .R11 = base + len - 32 ∧ (∀ j, s'.y .Y1 j = 0x80) ∧ (∀ j, s'.y .Y4 j = 0x80) ∧
      s'.mem = mem ∧ s'.out = none ∧ s'.loads = [] := by
    refine ⟨?_, ?_, ?_, ?_, ?_, ?_, ?_, ?_, ?_, ?_⟩
    case refine_2 =>
      avx_step [Gen.Asm.body_indexByteBodyNonASCII, hSI, hBX, alea, havx]
      rfl
    case refine_6 => intro j; simp only [if_true]; exact movd_lane0 _ 0x80 hAL
    case refine_7 => intro j; simp only [if_true]; exact movd_lane0 _ 0x80 hAL
    all_goals simp [hSI, hDI, hmem, hout, hl]
  obtain ⟨s', he, i1, i2, i3, i4, i4b, i5, i6, i7⟩ := hstep
  have hinv := avx_indexByteBodyNonASCII_inv mem base len h32 hb len 0 s' g i1 i2 i3 i4 i4b i5 i6 (by omega) (by omega) (by omega)
  have hcor := idxLoop_correct P32 ⟨rfl, rfl, by decide⟩ (fun b => decide (b ≥ 0x80)) mem base len (by show 32 ≤ len; omega) (len + 1) 0 (by omega)
    (by show len ≤ (len + 1) * 32 + 0; omega) (fun i hi => by omega)
  rw [he, hinv.1, hinv.2, hcor.1]
  refine ⟨rfl, ?_⟩
  intro ld hld
  simp only [i7, List.nil_append] at hld
  exact hcor.2 ld hld

end Asm
