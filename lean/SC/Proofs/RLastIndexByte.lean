import SC.Proofs.RRabinKarpRev
import SC.Proofs.KernGen
/-!
`LastIndexByte`: the last code point of `s` in the fold orbit of an ASCII byte (backward byte loops for
non-letters and plain letters, the mixed byte/rune loop for K k S s).
-/
namespace A
open Utf8 Fold

/-- greatest byte index whose byte satisfies `Q`, or −1 -/
def IsLastByte (Q : UInt8 → Bool) (s : Bytes) (res : Int) : Prop :=
  (res = -1 ∧ ∀ (i : Nat) (b : UInt8), s[i]? = some b → Q b = false) ∨
  (∃ (n : Nat) (b : UInt8), res = ((n : Nat) : Int) ∧ s[n]? = some b ∧ Q b = true ∧ ∀ (i : Nat) (b' : UInt8), n < i → s[i]? = some b' → Q b' = false)

theorem stdLastIndexByte_spec (c : UInt8) : ∀ (s : Bytes) (o : Nat),
    (stdLastIndexByte s c = -1 ∧ ∀ (i : Nat) (b : UInt8), s[i]? = some b → (b == c) = false) ∨
    (∃ (n : Nat) (b : UInt8), stdLastIndexByte s c = ((n : Nat) : Int) ∧ s[n]? = some b ∧ (b == c) = true ∧
        ∀ (i : Nat) (b' : UInt8), n < i → s[i]? = some b' → (b' == c) = false)
  | [], _ => Or.inl ⟨rfl, fun i b h => by simp at h⟩
  | a :: rest, o => by
    simp only [stdLastIndexByte]
    rcases stdLastIndexByte_spec c rest o with ⟨h1, hn⟩ | ⟨n, b, h1, hb, hq, hmax⟩
    · rw [h1]
      simp only [show ¬ ((-1 : Int) ≥ 0) by omega, if_false]
      by_cases hac : a = c
      · rw [if_pos hac]
        right
        refine ⟨0, a, rfl, by simp, by simp [hac], ?_⟩
        intro i b' hi hb'
        cases i with
        | zero => omega
        | succ i => exact hn i b' (by simpa using hb')
      · rw [if_neg hac]
        left; refine ⟨rfl, ?_⟩
        intro i b hb
        cases i with
        | zero => simp at hb; subst hb; simp [hac]
        | succ i => exact hn i b (by simpa using hb)
    · rw [h1]
      have : ((n : Nat) : Int) ≥ 0 := Int.natCast_nonneg _
      rw [if_pos this]
      right
      refine ⟨n + 1, b, by omega, by simpa using hb, hq, ?_⟩
      intro i b' hi hb'
      cases i with
      | zero => omega
      | succ i => exact hmax i b' (by omega) (by simpa using hb')

theorem lastLowerByte_spec (cl : UInt8) : ∀ (s : Bytes) (o : Nat),
    (lastLowerByte cl s o = -1 ∧ ∀ (i : Nat) (b : UInt8), s[i]? = some b → ((b ||| 0x20) == cl) = false) ∨
    (∃ (n : Nat) (b : UInt8), lastLowerByte cl s o = ((o + n : Nat) : Int) ∧ s[n]? = some b ∧ ((b ||| 0x20) == cl) = true ∧
        ∀ (i : Nat) (b' : UInt8), n < i → s[i]? = some b' → ((b' ||| 0x20) == cl) = false)
  | [], _ => Or.inl ⟨rfl, fun i b h => by simp at h⟩
  | a :: rest, o => by
    simp only [lastLowerByte]
    rcases lastLowerByte_spec cl rest (o + 1) with ⟨h1, hn⟩ | ⟨n, b, h1, hb, hq, hmax⟩
    · rw [h1]
      simp only [show ¬ ((-1 : Int) ≥ 0) by omega, if_false]
      by_cases hac : (a ||| 0x20) = cl
      · rw [if_pos hac]
        right
        refine ⟨0, a, rfl, by simp, by simp [hac], ?_⟩
        intro i b' hi hb'
        cases i with
        | zero => omega
        | succ i => exact hn i b' (by simpa using hb')
      · rw [if_neg hac]
        left; refine ⟨rfl, ?_⟩
        intro i b hb
        cases i with
        | zero => simp at hb; subst hb; simp [hac]
        | succ i => exact hn i b (by simpa using hb)
    · rw [h1]
      have : ((o + 1 + n : Nat) : Int) ≥ 0 := Int.natCast_nonneg _
      rw [if_pos this]
      right
      refine ⟨n + 1, b, by congr 1; omega, by simpa using hb, hq, ?_⟩
      intro i b' hi hb'
      cases i with
      | zero => omega
      | succ i => exact hmax i b' (by omega) (by simpa using hb')

/-- a last-byte search for ASCII bytes is a last-by search on code points -/
theorem lastByte_isLastBy (Q : UInt8 → Bool) (hQ : ∀ b, Q b = true → b < 0x80) (s : Bytes) (res : Int)
    (h : IsLastByte Q s res) : IsLastBy (fun x => decide (x < 0x80) && Q (UInt8.ofNat x)) s res := by
  -- the rune at a boundary is ASCII iff the byte there is, and then they agree
  have hrune : ∀ j, j < s.length → ∀ b, s[j]? = some b →
      ((decide ((decodeRune (s.drop j)).1 < 0x80) && Q (UInt8.ofNat (decodeRune (s.drop j)).1)) = true → Q b = true) := by
    intro j hjl b hb hP
    simp only [Bool.and_eq_true, decide_eq_true_eq] at hP
    have hne : s.drop j ≠ [] := by intro he; have := congrArg List.length he; simp at this; omega
    obtain ⟨b', rest, hy, hb', hd⟩ := decode_ascii_head _ hne hP.1
    have : s[j]? = some b' := by
      have := congrArg (fun l => l[0]?) hy
      simpa [List.getElem?_drop] using this
    rw [hb] at this
    have e : b = b' := Option.some.inj this
    rw [hd] at hP
    rw [e, ← ofNat_toNat_id b']; exact hP.2
  rcases h with ⟨h1, hn⟩ | ⟨n, b, h1, hb, hq, hmax⟩
  · left; refine ⟨h1, ?_⟩
    intro i _ hil
    cases hP : (decide ((decodeRune (s.drop i)).1 < 0x80) && Q (UInt8.ofNat (decodeRune (s.drop i)).1)) with
    | false => exact hP
    | true =>
      have := hrune i hil _ (List.getElem?_eq_getElem hil) hP
      rw [hn i _ (List.getElem?_eq_getElem hil)] at this; cases this
  · right
    have hbl : b < 0x80 := hQ b hq
    have hnl : n < s.length := (List.getElem?_eq_some_iff.mp hb).1
    have hbn : IsBoundary s n := start_is_boundary s.length s (Nat.le_refl _) n b hb (ascii_isStart b hbl)
    have hd : decodeRune (s.drop n) = (b.toNat, 1) := by
      cases hy : s.drop n with
      | nil => have := congrArg List.length hy; simp at this; omega
      | cons b' rest =>
        have : s[n]? = some b' := by
          have := congrArg (fun l => l[0]?) hy
          simpa [List.getElem?_drop] using this
        rw [hb] at this
        rw [← Option.some.inj this]
        simp [decodeRune, hbl]
    refine ⟨n, h1, hbn, hnl, ?_, ?_⟩
    · show (decide ((decodeRune (s.drop n)).1 < 0x80) && Q (UInt8.ofNat (decodeRune (s.drop n)).1)) = true
      rw [hd]
      simp only [Bool.and_eq_true, decide_eq_true_eq]
      exact ⟨lt80_toNat b hbl, by rw [ofNat_toNat_id]; exact hq⟩
    · intro j _ hlt hjl
      cases hP : (decide ((decodeRune (s.drop j)).1 < 0x80) && Q (UInt8.ofNat (decodeRune (s.drop j)).1)) with
      | false => exact hP
      | true =>
        have := hrune j hjl _ (List.getElem?_eq_getElem hjl) hP
        rw [hmax j _ hlt (List.getElem?_eq_getElem hjl)] at this; cases this

/-- a segment whose last byte is not ASCII does not hold an ASCII rune -/
theorem seg_last_nonascii (s : Bytes) (m : Nat) (hm1 : 1 ≤ m) (hm : m ≤ (dec s).length)
    (h : ¬ s.getD (offAt s m - 1) 0 < 0x80) : 0x80 ≤ ((dec s)[m - 1]'(by omega)).1 := by
  have hseg := seg_at s (m - 1) (by omega)
  have hsucc := offAt_succ s (m - 1) (by omega)
  have e : m - 1 + 1 = m := by omega
  rw [e] at hsucc
  have hle := offAt_le s m
  cases hy : s.drop (offAt s (m - 1)) with
  | nil =>
    have := congrArg List.length hy
    simp only [List.length_drop, List.length_nil] at this
    have := offAt_lt_succ s (m - 1) (by omega)
    rw [e] at this; omega
  | cons b0 rest =>
    rw [hy] at hseg
    by_cases hb : b0 < 0x80
    · exfalso
      have hd : decodeRune (b0 :: rest) = (b0.toNat, 1) := by simp [decodeRune, hb]
      rw [hd] at hseg
      rw [hseg] at hsucc
      have hget : s[offAt s (m - 1)]? = some b0 := by
        have := congrArg (fun l => l[0]?) hy
        simpa [List.getElem?_drop] using this
      have : s.getD (offAt s m - 1) 0 = b0 := by
        have e2 : offAt s m - 1 = offAt s (m - 1) := by simp at hsucc; omega
        rw [e2, List.getD_eq_getElem?_getD, hget]; rfl
      rw [this] at h; exact h hb
    · rw [hseg]; exact (non_ascii_segment b0 rest hb).1

/-- the predicate the mixed byte/rune loop of LastIndexByte tests -/
def mixedP (cl : UInt8) (r : Nat) (x : Nat) : Bool :=
  (decide (x < 0x80) && ((UInt8.ofNat x ||| 0x20) == cl)) || (x == r)

theorem lastByteOrRune_spec (cl : UInt8) (r : Nat) (hr : 0x80 ≤ r) (s : Bytes) :
    ∀ (fuel m : Nat) (hm : m ≤ (dec s).length), m < fuel →
    (lastByteOrRune cl r s fuel (offAt s m) = -1 ∧ ∀ k, ∀ hk : k < m, mixedP cl r ((dec s)[k]'(by omega)).1 = false) ∨
    (∃ k, ∃ hk : k < m, lastByteOrRune cl r s fuel (offAt s m) = ((offAt s k : Nat) : Int) ∧
        mixedP cl r ((dec s)[k]'(by omega)).1 = true ∧
        ∀ k', ∀ hk' : k' < m, k < k' → mixedP cl r ((dec s)[k']'(by omega)).1 = false) := by
  intro fuel
  induction fuel with
  | zero => intro m _ h; omega
  | succ fuel ih =>
    intro m hm hf
    simp only [lastByteOrRune]
    by_cases hm0 : m = 0
    · subst hm0
      rw [offAt_zero, if_neg (by omega)]
      left; exact ⟨rfl, fun k hk => by omega⟩
    · obtain ⟨hipos, hile, hq, hdl, hoff, hwle⟩ := last_before s m (by omega) hm
      rw [if_pos hipos, if_neg (by omega)]
      -- the verdict on the segment before `m`, and where the loop goes next
      have hstep : ∀ (res : Int), res = lastByteOrRune cl r s fuel (offAt s (m - 1)) →
          (if s.getD (offAt s m - 1) 0 < 0x80 then
              (if (s.getD (offAt s m - 1) 0 ||| 0x20) = cl then ((offAt s m - 1 : Nat) : Int)
               else lastByteOrRune cl r s fuel (offAt s m - 1))
            else
              (if (decodeLast (s.take (offAt s m))).1 = r then ((offAt s m - (decodeLast (s.take (offAt s m))).2 : Nat) : Int)
               else lastByteOrRune cl r s fuel (offAt s m - (decodeLast (s.take (offAt s m))).2))) =
          if mixedP cl r ((dec s)[m - 1]'(by omega)).1 = true then ((offAt s (m - 1) : Nat) : Int) else res := by
        intro res hres
        by_cases hl : s.getD (offAt s m - 1) 0 < 0x80
        · rw [if_pos hl] at hq ⊢
          have hseg : (dec s)[m - 1]'(by omega) = ((s.getD (offAt s m - 1) 0).toNat, 1) := hq.symm
          have h1 : offAt s m - 1 = offAt s (m - 1) := by rw [← hoff, hseg]
          have hP : mixedP cl r ((dec s)[m - 1]'(by omega)).1 = ((s.getD (offAt s m - 1) 0 ||| 0x20) == cl) := by
            rw [hseg]; unfold mixedP
            have hlt := lt80_toNat _ hl
            have hne : ((s.getD (offAt s m - 1) 0).toNat == r) = false := by
              apply beq_false_of_ne; omega
            simp only [hlt, decide_true, Bool.true_and, ofNat_toNat_id, hne, Bool.or_false]
          rw [hP, h1, hres]
          by_cases hc : (s.getD (offAt s (m - 1)) 0 ||| 0x20) = cl
          · rw [← h1] at hc ⊢
            simp [hc]
          · rw [← h1] at hc ⊢
            simp [hc]
        · rw [if_neg hl] at hq ⊢
          rw [hdl, hoff]
          have hge := seg_last_nonascii s m (by omega) hm hl
          have hP : mixedP cl r ((dec s)[m - 1]'(by omega)).1 = (((dec s)[m - 1]'(by omega)).1 == r) := by
            unfold mixedP
            have : ¬ (((dec s)[m - 1]'(by omega)).1 < 0x80) := by omega
            simp only [this, decide_false, Bool.false_and, Bool.false_or]
          rw [hP, hres]
          by_cases hc : ((dec s)[m - 1]'(by omega)).1 = r
          · simp [hc]
          · simp [hc]
      rw [hstep _ rfl]
      by_cases hp : mixedP cl r ((dec s)[m - 1]'(by omega)).1 = true
      · rw [if_pos hp]
        right
        exact ⟨m - 1, by omega, rfl, hp, fun k' hk' hlt => by omega⟩
      · rw [if_neg hp]
        have hp' : mixedP cl r ((dec s)[m - 1]'(by omega)).1 = false := by
          cases h : mixedP cl r ((dec s)[m - 1]'(by omega)).1 with
          | false => rfl
          | true => exact absurd h hp
        rcases ih (m - 1) (by omega) (by omega) with ⟨h1, hn⟩ | ⟨k, hk, h1, hpk, hmax⟩
        · left; refine ⟨h1, ?_⟩
          intro k hk
          by_cases hkm : k = m - 1
          · subst hkm; exact hp'
          · exact hn k (by omega)
        · right
          refine ⟨k, by omega, h1, hpk, ?_⟩
          intro k' hk' hlt
          by_cases hkm : k' = m - 1
          · subst hkm; exact hp'
          · exact hmax k' (by omega) hlt

/-- for a letter `c`, "ASCII and equal after OR 0x20" is the ASCII part of the orbit -/
theorem lowerTest_eq_asciiPart (c : UInt8) (hc : c < 0x80) (ha : isAlpha c = true) (x : Nat) :
    (decide (x < 0x80) && ((UInt8.ofNat x ||| 0x20) == (c ||| 0x20))) = asciiPart c x := by
  by_cases hx : x < 0x80
  · have hb : UInt8.ofNat x < 0x80 := by
      rw [UInt8.lt_iff_toNat_lt, ofNat_toNat_lt x (by omega)]; simpa using hx
    have h1 := Kern.byteEqFold_alpha c (UInt8.ofNat x) ha
    have h2 := byteEqFold_iff_asciiPart c (UInt8.ofNat x) hc hb
    rw [ofNat_toNat_lt x (by omega)] at h2
    simp only [hx, decide_true, Bool.true_and]
    rw [← h1, h2]
  · simp only [hx, decide_false, Bool.false_and]
    symm
    cases hq : asciiPart c x with
    | false => rfl
    | true =>
      exfalso
      unfold asciiPart at hq
      simp only [Bool.or_eq_true, beq_iff_eq, Bool.and_eq_true] at hq
      rcases hq with h | ⟨_, h⟩
      · have := lt80_toNat c hc; omega
      · have : ∀ c : UInt8, c < 0x80 → isAlpha c = true → (c ^^^ 0x20) < 0x80 := by decide +kernel
        have := lt80_toNat _ (this c hc ha); omega

theorem lower_or_ascii (c : UInt8) (hc : c < 0x80) (ha : isAlpha c = true) (b : UInt8)
    (h : ((b ||| 0x20) == (c ||| 0x20)) = true) : b < 0x80 := by
  have := Kern.byteEqFold_alpha c b ha
  exact byteEqFold_ascii c hc b (by rw [this]; exact h)

theorem special_alpha : ∀ c : UInt8, (c = 0x4B ∨ c = 0x6B ∨ c = 0x53 ∨ c = 0x73) → isAlpha c = true ∧ c < 0x80 := by
  decide +kernel

/-- C10: `LastIndexByte` on an ASCII byte returns the last code point in its fold orbit -/
theorem LastIndexByte_isLastBy (cfg : Cfg) (s : Bytes) (c : UInt8) (hc : c < 0x80) :
    IsLastBy (fun x => caseFold x == caseFold c.toNat) s (LastIndexByte cfg s c) := by
  apply isLastBy_congr (orbP c) _ (fun x => (ascii_orbit c hc x).symm)
  unfold LastIndexByte
  by_cases hs : s.length = 0
  · rw [if_pos hs]
    left; exact ⟨rfl, fun i _ hi => by omega⟩
  rw [if_neg hs]
  cases ha : isAlpha c with
  | false =>
    simp only [Bool.false_eq_true, not_false_eq_true, if_true]
    have hsr : specialRune c = 0 := by
      unfold specialRune
      have hk : ¬ (c = 0x4B ∨ c = 0x6B) := fun h => by
        have := (special_alpha c (by rcases h with h | h; exact Or.inl h; exact Or.inr (Or.inl h))).1
        rw [ha] at this; cases this
      have hs' : ¬ (c = 0x53 ∨ c = 0x73) := fun h => by
        have := (special_alpha c (by rcases h with h | h; exact Or.inr (Or.inr (Or.inl h)); exact Or.inr (Or.inr (Or.inr h)))).1
        rw [ha] at this; cases this
      rw [if_neg hk, if_neg hs']
    have hspec : IsLastByte (· == c) s (stdLastIndexByte s c) := stdLastIndexByte_spec c s 0
    have := lastByte_isLastBy (· == c) (fun b hb => by rw [beq_iff_eq.mp hb]; exact hc) s _ hspec
    apply isLastBy_congr _ _ _ s _ this
    intro x
    unfold orbP asciiPart
    rw [hsr, ha]
    simp only [Bool.false_and, Bool.or_false, bne_self_eq_false]
    by_cases hx : x = c.toNat
    · subst hx; simp [lt80_toNat c hc, ofNat_toNat_id]
    · have : (x == c.toNat) = false := beq_false_of_ne hx
      rw [this]
      by_cases hlt : x < 0x80
      · have hne : (UInt8.ofNat x == c) = false := by
          apply beq_false_of_ne
          intro he
          apply hx
          rw [← he, ofNat_toNat_lt x (by omega)]
        simp [hne]
      · simp [hlt]
  | true =>
    simp only [not_true_eq_false, if_false]
    by_cases hK : c = 0x4B ∨ c = 0x6B
    · rw [if_pos hK]
      have hsr : specialRune c = 0x212A := by unfold specialRune; rw [if_pos hK]
      have hsp := lastByteOrRune_spec (c ||| 0x20) 0x212A (by omega) s (s.length + 1) (dec s).length (Nat.le_refl _)
        (by have := dec_length_le s; omega)
      rw [offAt_length] at hsp
      have := lastBy_of_segments (mixedP (c ||| 0x20) 0x212A) s _ hsp
      apply isLastBy_congr _ _ _ s _ this
      intro x; unfold mixedP orbP
      rw [lowerTest_eq_asciiPart c hc ha, hsr]; simp
    · rw [if_neg hK]
      by_cases hS : c = 0x53 ∨ c = 0x73
      · rw [if_pos hS]
        have hsr : specialRune c = 0x17F := by unfold specialRune; rw [if_neg hK, if_pos hS]
        have hsp := lastByteOrRune_spec (c ||| 0x20) 0x17F (by omega) s (s.length + 1) (dec s).length (Nat.le_refl _)
          (by have := dec_length_le s; omega)
        rw [offAt_length] at hsp
        have := lastBy_of_segments (mixedP (c ||| 0x20) 0x17F) s _ hsp
        apply isLastBy_congr _ _ _ s _ this
        intro x; unfold mixedP orbP
        rw [lowerTest_eq_asciiPart c hc ha, hsr]; simp
      · rw [if_neg hS]
        have hsr : specialRune c = 0 := by unfold specialRune; rw [if_neg hK, if_neg hS]
        have hspec : IsLastByte (fun b => (b ||| 0x20) == (c ||| 0x20)) s (lastLowerByte (c ||| 0x20) s 0) := by
          rcases lastLowerByte_spec (c ||| 0x20) s 0 with ⟨h1, hn⟩ | ⟨n, b, h1, hb, hq, hmax⟩
          · exact Or.inl ⟨h1, hn⟩
          · exact Or.inr ⟨n, b, by rw [h1, Nat.zero_add], hb, hq, hmax⟩
        have := lastByte_isLastBy _ (fun b hb => lower_or_ascii c hc ha b hb) s _ hspec
        apply isLastBy_congr _ _ _ s _ this
        intro x; unfold orbP
        rw [lowerTest_eq_asciiPart c hc ha, hsr]; simp

end A
