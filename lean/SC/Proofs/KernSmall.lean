import SC.Proofs.Kern
namespace Kern

/-- one 16-byte load and what PCMPEQB/PMOVMSKB make of it: bit `j` set iff `p (mem (addr+j))` -/
def maskBit (p : UInt8 → Bool) (mem : Mem) (addr j : Nat) : Bool := p (mem (addr + j))

/-- `len < 16` path of indexbytebody, with the load it performs.
    Forward: load [base, base+16), first set bit, discard if ≥ len.
    End of page ((base+16) &&& 0xff0 = 0): load [base+len-16, base+len), shift the mask so that bit 0 is `base`. -/
def small (p : UInt8 → Bool) (mem : Mem) (base len : Nat) : Int × List (Nat × Nat) :=
  if len = 0 then (-1, [])
  else if (base + 16) % 4096 / 16 = 0 then
    -- endofpage: bits (16-len)..15 of the loaded block are the data; SHLL len / SHRL 16 moves them to 0..len-1
    ((match blk p mem (base + len - 16) (16 - len) len with
      | some j => ((j - (16 - len) : Nat) : Int)
      | none => -1), [(base + len - 16, 16)])
  else
    ((match blk p mem base 0 16 with
      | some j => if j < len then (j : Int) else -1
      | none => -1), [(base, 16)])

theorem small_correct (p : UInt8 → Bool) (mem : Mem) (base len : Nat) (hlen : len < 16) :
    (small p mem base len).1 = specIndex p mem base len := by
  unfold small
  by_cases h0 : len = 0
  · subst h0; simp [specIndex, blk]
  · rw [if_neg h0]
    by_cases hp : (base + 16) % 4096 / 16 = 0
    · rw [if_pos hp]
      simp only []
      -- the load starts 16-len bytes before base; positions (16-len)+i of the block are base+i
      have hbase : base + len - 16 + (16 - len) = base := by
        have : 16 ≤ base + len := by omega
        omega
      cases hb : blk p mem (base + len - 16) (16 - len) len with
      | some j =>
        obtain ⟨h1, h2, h3, h4⟩ := blk_some hb
        simp only []
        rw [specIndex_eq_of_first p mem base len (j - (16 - len)) (by omega)]
        · have : base + (j - (16 - len)) = base + len - 16 + j := by omega
          rw [this]; exact h3
        · intro i hi
          have := h4 (16 - len + i) (by omega) (by omega)
          have e : base + len - 16 + (16 - len + i) = base + i := by omega
          rwa [e] at this
      | none =>
        simp only []
        rw [specIndex_eq_neg]
        intro i hi
        have := blk_none hb (16 - len + i) (by omega) (by omega)
        have e : base + len - 16 + (16 - len + i) = base + i := by omega
        rwa [e] at this
    · rw [if_neg hp]
      simp only []
      cases hb : blk p mem base 0 16 with
      | some j =>
        obtain ⟨_, h2, h3, h4⟩ := blk_some hb
        simp only []
        by_cases hj : j < len
        · rw [if_pos hj]
          exact (specIndex_eq_of_first p mem base len j hj h3 (fun i hi => h4 i (by omega) hi)).symm
        · rw [if_neg hj]
          rw [specIndex_eq_neg]
          intro i hi
          exact h4 i (by omega) (by omega)
      | none =>
        simp only []
        rw [specIndex_eq_neg]
        intro i hi
        exact blk_none hb i (by omega) (by omega)

/-- every byte the small path loads lies in a 4096-byte page that contains a byte of the argument -/
theorem small_loads_safe (p : UInt8 → Bool) (mem : Mem) (base len : Nat) (hlen : len < 16) (h0 : 0 < len) :
    ∀ ld ∈ (small p mem base len).2, ∀ a, ld.1 ≤ a → a < ld.1 + ld.2 →
      ∃ b, base ≤ b ∧ b < base + len ∧ a / 4096 = b / 4096 := by
  unfold small
  rw [if_neg (by omega)]
  by_cases hp : (base + 16) % 4096 / 16 = 0
  · rw [if_pos hp]
    intro ld hld a h1 h2
    simp only [List.mem_singleton] at hld
    subst hld
    simp only [] at h1 h2
    -- base mod 4096 ≥ 4080, so the bytes before `base` that the load touches are in base's page;
    -- the bytes from `base` on are argument bytes themselves
    have hm : 4080 ≤ base % 4096 := by omega
    by_cases hab : base ≤ a
    · exact ⟨a, hab, by omega, rfl⟩
    · refine ⟨base, Nat.le_refl _, by omega, ?_⟩
      omega
  · rw [if_neg hp]
    intro ld hld a h1 h2
    simp only [List.mem_singleton] at hld
    subst hld
    simp only [] at h1 h2
    -- base mod 4096 < 4080, so [base, base+16) stays in base's page
    have hm : base % 4096 < 4080 := by omega
    refine ⟨base, Nat.le_refl _, by omega, ?_⟩
    omega
end Kern
