import SC.Proofs.SrcNames
/-!
The look-up facts of `SrcNames.lean` for the regenerated `bytcase/bytcase.go` (`Gen.Src.byt`).
-/
namespace GoSsa.Byt
open GoSsa Gen.Src

abbrev P := Gen.Src.byt

/-! ### look-up facts for the callees -/
theorem find_Compare : P.find? (fun fn => fn.name == "Compare") = some byt_Compare := by rfl
theorem nb_Compare (a h) : builtin true "Compare" a h = none := by rfl
theorem find_hasPrefixUnicode : P.find? (fun fn => fn.name == "hasPrefixUnicode") = some byt_hasPrefixUnicode := by rfl
theorem nb_hasPrefixUnicode (a h) : builtin true "hasPrefixUnicode" a h = none := by rfl
theorem find_hasSuffixUnicode : P.find? (fun fn => fn.name == "hasSuffixUnicode") = some byt_hasSuffixUnicode := by rfl
theorem nb_hasSuffixUnicode (a h) : builtin true "hasSuffixUnicode" a h = none := by rfl
theorem find_Index : P.find? (fun fn => fn.name == "Index") = some byt_Index := by rfl
theorem nb_Index (a h) : builtin true "Index" a h = none := by rfl
theorem find_IndexAny : P.find? (fun fn => fn.name == "IndexAny") = some byt_IndexAny := by rfl
theorem nb_IndexAny (a h) : builtin true "IndexAny" a h = none := by rfl
theorem find_IndexRune : P.find? (fun fn => fn.name == "IndexRune") = some byt_IndexRune := by rfl
theorem nb_IndexRune (a h) : builtin true "IndexRune" a h = none := by rfl
theorem find_indexRune : P.find? (fun fn => fn.name == "indexRune") = some byt_indexRune := by rfl
theorem nb_indexRune (a h) : builtin true "indexRune" a h = none := by rfl
theorem find_indexByte : P.find? (fun fn => fn.name == "indexByte") = some byt_indexByte := by rfl
theorem nb_indexByte (a h) : builtin true "indexByte" a h = none := by rfl
theorem find_TrimPrefix : P.find? (fun fn => fn.name == "TrimPrefix") = some byt_TrimPrefix := by rfl
theorem nb_TrimPrefix (a h) : builtin true "TrimPrefix" a h = none := by rfl
theorem find_indexRuneCase : P.find? (fun fn => fn.name == "indexRuneCase") = some byt_indexRuneCase := by rfl
theorem nb_indexRuneCase (a h) : builtin true "indexRuneCase" a h = none := by rfl

theorem find_clamp : P.find? (fun fn => fn.name == "clamp") = some byt_clamp := by rfl
theorem nb_clamp (a h) : builtin true "clamp" a h = none := by rfl


end GoSsa.Byt
