import SC.Proofs.RIndexAny6
/-!
C10, byte level: `IndexByte`, `IndexByteASCII`, `LastIndexByte` of the algorithm model equal the byte-level
specification (`S.indexByte` etc.: "byte `c`, or its other case, or the encoded non-ASCII relative starts here")
for **all 256** byte values.
-/
namespace A
open Utf8 Fold

theorem firstAt_congr (p q : Bytes → Bool) (h : ∀ b rest, p (b :: rest) = q (b :: rest)) :
    ∀ (s : Bytes) (o : Nat), S.firstAt p s o = S.firstAt q s o
  | [], _ => rfl
  | b :: rest, o => by
    simp only [S.firstAt, h b rest, firstAt_congr p q h rest (o + 1)]

theorem lastAt_congr (p q : Bytes → Bool) (h : ∀ b rest, p (b :: rest) = q (b :: rest)) :
    ∀ (s : Bytes) (o : Nat), S.lastAt p s o = S.lastAt q s o
  | [], _ => rfl
  | b :: rest, o => by
    simp only [S.lastAt, h b rest, lastAt_congr p q h rest (o + 1)]

/-- the relative of a byte, as the encoding of `specialRune` -/
theorem relative_eq : ∀ c : UInt8, S.relative c = if specialRune c = 0 then [] else encode (specialRune c) := by
  decide +kernel

theorem specialRune_valid (c : UInt8) : validRune (specialRune c) := by
  unfold specialRune; split
  · decide
  · split <;> decide

theorem specialRune_ne_fffd (c : UInt8) : specialRune c ≠ 0xFFFD := by
  unfold specialRune; split
  · decide
  · split <;> decide

theorem specialRune_zero_of_ge : ∀ c : UInt8, ¬ c < 0x80 → specialRune c = 0 := by decide +kernel

/-- without a relative, the match predicate is the kernel's byte test -/
theorem byteMatch_plain (u : Bool) (c : UInt8) (h : u = false ∨ specialRune c = 0) (b : UInt8) (rest : Bytes) :
    S.byteMatch u c (b :: rest) = S.byteEqFold c b := by
  unfold S.byteMatch
  rcases h with h | h
  · subst h; simp
  · have : S.relative c = [] := by rw [relative_eq, if_pos h]
    simp [this]

theorem IndexByteASCII_eq (cfg : Cfg) (s : Bytes) (c : UInt8) : IndexByteASCII cfg s c = S.indexByteASCII s c := by
  unfold IndexByteASCII kIndexByte S.kernIndexByte S.indexByteASCII
  exact firstAt_congr _ _ (fun b rest => by rw [byteMatch_plain false c (Or.inl rfl)]; rfl) s 0

/-- where the byte-level predicate holds: exactly at the boundaries whose code point is in the orbit -/
theorem byteMatch_pos (c : UInt8) (hc : c < 0x80) (s : Bytes) (j : Nat) (hj : j < s.length) :
    S.byteMatch true c (s.drop j) = true ↔ IsBoundary s j ∧ orbP c (decodeRune (s.drop j)).1 = true := by
  cases hy : s.drop j with
  | nil => have := congrArg List.length hy; simp at this; omega
  | cons b rest =>
    have hsj : s[j]? = some b := by
      have := congrArg (fun l => l[0]?) hy
      simpa [List.getElem?_drop] using this
    unfold S.byteMatch orbP
    simp only [Bool.true_and, Bool.or_eq_true, Bool.and_eq_true, decide_eq_true_eq, bne_iff_ne, ne_eq, beq_iff_eq]
    constructor
    · rintro (hbe | ⟨hrel, hpre⟩)
      · have hb : b < 0x80 := byteEqFold_ascii c hc b hbe
        have hd : decodeRune (b :: rest) = (b.toNat, 1) := by simp [decodeRune, hb]
        refine ⟨start_is_boundary s.length s (Nat.le_refl _) j b hsj (ascii_isStart b hb), Or.inl ?_⟩
        rw [hd, ← byteEqFold_iff_asciiPart c b hc hb]; exact hbe
      · rw [relative_eq] at hrel hpre
        by_cases h0 : specialRune c = 0
        · rw [if_pos h0] at hrel; exact absurd rfl hrel
        · rw [if_neg h0] at hpre
          unfold S.headIs at hpre
          obtain ⟨y', hy'⟩ := List.isPrefixOf_iff_prefix.mp hpre
          obtain ⟨b0, tl, he, hst⟩ := encode_head_start (specialRune c) (specialRune_valid c)
          have hb0 : b0 = b := by
            rw [he] at hy'; simp at hy'; exact hy'.1
          subst hb0
          refine ⟨start_is_boundary s.length s (Nat.le_refl _) j b0 hsj hst, Or.inr ⟨h0, ?_⟩⟩
          rw [← hy', decode_encode _ (specialRune_valid c)]
    · rintro ⟨_, (hap | ⟨h0, hx⟩)⟩
      · left
        have hlt : (decodeRune (b :: rest)).1 < 0x80 := by
          unfold asciiPart at hap
          simp only [Bool.or_eq_true, beq_iff_eq, Bool.and_eq_true] at hap
          rcases hap with h | ⟨ha, h⟩
          · rw [h]; exact lt80_toNat c hc
          · rw [h]; exact lt80_toNat _ (alpha_xor_lt c hc ha)
        obtain ⟨b', rest', hyy, hb', hd⟩ := decode_ascii_head (b :: rest) (by simp) hlt
        have : b = b' := by simp at hyy; exact hyy.1
        subst this
        rw [hd] at hap
        rw [byteEqFold_iff_asciiPart c b hc hb']; exact hap
      · right
        obtain ⟨_, htk⟩ := take_eq_encode (b :: rest) (specialRune c) (by simp) hx (specialRune_ne_fffd c)
        rw [relative_eq, if_neg h0]
        refine ⟨encode_ne_nil _, ?_⟩
        unfold S.headIs
        apply List.isPrefixOf_iff_prefix.mpr
        rw [← htk]; exact List.take_prefix _ _

/-- the byte-level specification of IndexByte is a first-by search for the orbit of `c` -/
theorem S_indexByte_firstBy (s : Bytes) (c : UInt8) (hc : c < 0x80) : ∃ w, IsFirstBy (orbP c) s (S.indexByte s c, w) := by
  unfold S.indexByte
  rcases firstAt_spec (S.byteMatch true c) s 0 with ⟨h1, hn⟩ | ⟨n, h1, hnl, hp, hmin⟩
  · refine ⟨0, Or.inl ⟨h1, ?_⟩⟩
    intro i hi hil
    cases hP : orbP c (decodeRune (s.drop i)).1 with
    | false => rfl
    | true =>
      have := (byteMatch_pos c hc s i hil).mpr ⟨hi, hP⟩
      rw [hn i hil] at this; cases this
  · obtain ⟨hb, ho⟩ := (byteMatch_pos c hc s n hnl).mp hp
    refine ⟨(decodeRune (s.drop n)).2, Or.inr ⟨n, by rw [h1, Nat.zero_add], hb, hnl, ho, rfl, ?_⟩⟩
    intro j hj hjn
    cases hP : orbP c (decodeRune (s.drop j)).1 with
    | false => rfl
    | true =>
      have := (byteMatch_pos c hc s j (by omega)).mpr ⟨hj, hP⟩
      rw [hmin j hjn] at this; cases this

/-- C10: `IndexByte` equals the byte-level specification for every byte value -/
theorem IndexByte_eq (cfg : Cfg) (s : Bytes) (c : UInt8) : IndexByte cfg s c = S.indexByte s c := by
  by_cases hks : c = 0x4B ∨ c = 0x53 ∨ c = 0x6B ∨ c = 0x73
  · have hc : c < 0x80 := by rcases hks with h | h | h | h <;> subst h <;> decide
    obtain ⟨w, hA⟩ := IndexByte_firstBy cfg s c hc
    obtain ⟨w', hS⟩ := S_indexByte_firstBy s c hc
    have hA' := isFirstBy_congr _ _ (ascii_orbit c hc) s _ hA
    exact isFirstBy_unique _ s _ _ hA' hS
  · unfold IndexByte
    rw [if_neg hks]
    have h0 : specialRune c = 0 := by
      unfold specialRune
      rw [if_neg (fun h => hks (by rcases h with h | h; exact Or.inl h; exact Or.inr (Or.inr (Or.inl h)))),
        if_neg (fun h => hks (by rcases h with h | h; exact Or.inr (Or.inl h); exact Or.inr (Or.inr (Or.inr h))))]
    unfold kIndexByte S.kernIndexByte S.indexByte
    exact firstAt_congr _ _ (fun b rest => by rw [byteMatch_plain true c (Or.inr h0)]; rfl) s 0

/-- general form of `S.lastAt` -/
theorem lastAt_spec_gen (p : Bytes → Bool) : ∀ (s : Bytes) (o : Nat),
    (S.lastAt p s o = -1 ∧ ∀ i, i < s.length → p (s.drop i) = false) ∨
    (∃ n, S.lastAt p s o = ((o + n : Nat) : Int) ∧ n < s.length ∧ p (s.drop n) = true ∧
        ∀ i, n < i → i < s.length → p (s.drop i) = false)
  | [], _ => Or.inl ⟨rfl, fun i hi => by simp at hi⟩
  | a :: rest, o => by
    have e : S.lastAt p (a :: rest) o =
        (if S.lastAt p rest (o + 1) ≥ 0 then S.lastAt p rest (o + 1) else if p (a :: rest) = true then (o : Int) else -1) := rfl
    rw [e]
    rcases lastAt_spec_gen p rest (o + 1) with ⟨h1, hn⟩ | ⟨n, h1, hnl, hq, hmax⟩
    · rw [h1, if_neg (show ¬ ((-1 : Int) ≥ 0) by omega)]
      by_cases hac : p (a :: rest) = true
      · rw [if_pos hac]
        right
        refine ⟨0, rfl, by simp, hac, ?_⟩
        intro i hi hil
        cases i with
        | zero => omega
        | succ i => exact hn i (by simpa using hil)
      · rw [if_neg hac]
        left; refine ⟨rfl, ?_⟩
        intro i hil
        cases i with
        | zero =>
          cases h : p (a :: rest) with
          | false => simpa using h
          | true => exact absurd h hac
        | succ i => exact hn i (by simpa using hil)
    · rw [h1, if_pos (Int.natCast_nonneg _)]
      right
      refine ⟨n + 1, by congr 1; omega, by simpa using hnl, hq, ?_⟩
      intro i hi hil
      cases i with
      | zero => omega
      | succ i => exact hmax i (by omega) (by simpa using hil)

theorem S_lastIndexByte_lastBy (s : Bytes) (c : UInt8) (hc : c < 0x80) : IsLastBy (orbP c) s (S.lastIndexByte s c) := by
  unfold S.lastIndexByte
  rcases lastAt_spec_gen (S.byteMatch true c) s 0 with ⟨h1, hn⟩ | ⟨n, h1, hnl, hp, hmax⟩
  · refine Or.inl ⟨h1, ?_⟩
    intro i hi hil
    cases hP : orbP c (decodeRune (s.drop i)).1 with
    | false => rfl
    | true =>
      have := (byteMatch_pos c hc s i hil).mpr ⟨hi, hP⟩
      rw [hn i hil] at this; cases this
  · obtain ⟨hb, ho⟩ := (byteMatch_pos c hc s n hnl).mp hp
    refine Or.inr ⟨n, by rw [h1, Nat.zero_add], hb, hnl, ho, ?_⟩
    intro j hj hnj hjl
    cases hP : orbP c (decodeRune (s.drop j)).1 with
    | false => rfl
    | true =>
      have := (byteMatch_pos c hc s j hjl).mpr ⟨hj, hP⟩
      rw [hmax j hnj hjl] at this; cases this

/-- strings.LastIndexByte as `S.lastAt` on the head byte -/
theorem stdLastIndexByte_lastAt (c : UInt8) : ∀ (s : Bytes) (o : Nat),
    S.lastAt (fun x => x.headD 0 == c) s o = (if stdLastIndexByte s c ≥ 0 then stdLastIndexByte s c + o else -1)
  | [], _ => rfl
  | b :: rest, o => by
    have e : S.lastAt (fun x => x.headD 0 == c) (b :: rest) o =
        (if S.lastAt (fun x => x.headD 0 == c) rest (o + 1) ≥ 0 then S.lastAt (fun x => x.headD 0 == c) rest (o + 1)
          else if (b == c) = true then (o : Int) else -1) := rfl
    rw [e, stdLastIndexByte_lastAt c rest (o + 1)]
    have hv : stdLastIndexByte (b :: rest) c =
        (if stdLastIndexByte rest c ≥ 0 then stdLastIndexByte rest c + 1 else if b = c then 0 else -1) := rfl
    by_cases hr : stdLastIndexByte rest c ≥ 0
    · have hv2 : stdLastIndexByte (b :: rest) c = stdLastIndexByte rest c + 1 := by rw [hv, if_pos hr]
      rw [hv2, if_pos hr, if_pos (by omega), if_pos (by omega)]
      simp only [Int.natCast_add, Int.natCast_one]; omega
    · rw [if_neg hr, if_neg (by omega)]
      by_cases hbc : b = c
      · have hv2 : stdLastIndexByte (b :: rest) c = 0 := by rw [hv, if_neg hr, if_pos hbc]
        rw [hv2, if_pos (beq_iff_eq.mpr hbc), if_pos (by omega)]; simp
      · have hv2 : stdLastIndexByte (b :: rest) c = -1 := by rw [hv, if_neg hr, if_neg hbc]
        rw [hv2, if_neg (by simpa using hbc), if_neg (by omega)]

/-- C10: `LastIndexByte` equals the byte-level specification for every byte value -/
theorem LastIndexByte_eq (cfg : Cfg) (s : Bytes) (c : UInt8) : LastIndexByte cfg s c = S.lastIndexByte s c := by
  by_cases hc : c < 0x80
  · have hA := LastIndexByte_isLastBy cfg s c hc
    have hA' := isLastBy_congr _ _ (ascii_orbit c hc) s _ hA
    exact isLastBy_unique _ s _ _ hA' (S_lastIndexByte_lastBy s c hc)
  · have hna : isAlpha c = false := by
      have : ∀ c : UInt8, ¬ c < 0x80 → isAlpha c = false := by decide +kernel
      exact this c hc
    unfold LastIndexByte
    by_cases hs : s.length = 0
    · rw [if_pos hs]
      have : s = [] := List.length_eq_zero_iff.mp hs
      subst this; rfl
    · rw [if_neg hs, hna]
      simp only [Bool.false_eq_true, not_false_eq_true, if_true]
      unfold S.lastIndexByte
      have h0 := specialRune_zero_of_ge c hc
      rw [lastAt_congr (S.byteMatch true c) (fun x => x.headD 0 == c)
        (fun b rest => by
          rw [byteMatch_plain true c (Or.inr h0)]
          have : S.isAlpha c = false := hna
          simp [S.byteEqFold, this]) s 0,
        stdLastIndexByte_lastAt]
      by_cases hr : stdLastIndexByte s c ≥ 0
      · rw [if_pos hr]; simp
      · rw [if_neg hr]
        have : ∀ (s : Bytes), -1 ≤ stdLastIndexByte s c := by
          intro s
          induction s with
          | nil => simp [stdLastIndexByte]
          | cons b rest ih => simp only [stdLastIndexByte]; repeat' split <;> omega
        have := this s; omega

end A
