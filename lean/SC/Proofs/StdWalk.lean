import SC.Model.Std
import SC.Proofs.Orbit
/-!
`strings.EqualFold`'s orbit walk over `unicode.SimpleFold` decides fold-equality of two code points:
`Std.runeEq sr tr = some (caseFold sr == caseFold tr)` for all naturals.
-/
namespace Std
open Utf8 Fold

/-- the `SimpleFold` iterates of `u` starting at `r`, up to (excluding) the return to `u` -/
def chainFrom (u : Nat) : Nat → Nat → List Nat
  | 0, _ => []
  | f+1, r => if r = u then [] else r :: chainFrom u f (next r)

def closes (u : Nat) : Nat → Nat → Bool
  | 0, _ => false
  | f+1, r => r == u || closes u f (next r)

def walkL (hi : Nat) : List Nat → Bool
  | [] => false
  | r :: rest => if r < hi then walkL hi rest else r == hi

theorem walk_chain (u hi : Nat) (hne : hi ≠ u) : ∀ (f r g : Nat), closes u f r = true → f ≤ g →
    walk u hi g r = some (walkL hi (chainFrom u f r)) := by
  intro f
  induction f with
  | zero => intro r g h; simp [closes] at h
  | succ f ih =>
    intro r g hc hg
    cases g with
    | zero => omega
    | succ g =>
      simp only [walk, chainFrom]
      by_cases hru : r = u
      · subst hru
        rw [if_neg (by simp), if_pos rfl]
        simp only [walkL]
        congr 1
        exact beq_eq_false_iff_ne.mpr (Ne.symm hne)
      · rw [if_neg hru]
        simp only [closes, Bool.or_eq_true, beq_iff_eq] at hc
        have hc' : closes u f (next r) = true := by
          rcases hc with h | h
          · exact absurd h hru
          · exact h
        simp only [walkL]
        by_cases hlt : r < hi
        · rw [if_pos ⟨hru, hlt⟩, if_pos hlt]
          exact ih (next r) g hc' (by omega)
        · rw [if_neg (fun h => hlt h.2), if_neg hlt]

/-- members greater than `u` come in increasing order, before any smaller member -/
def ordOK (u : Nat) : List Nat → Bool
  | [] => true
  | r :: rest => rest.all (fun x => !(decide (u < x)) || decide (r < x)) && ordOK u rest

theorem walkL_contains (u hi : Nat) (h : u < hi) : ∀ l, ordOK u l = true → walkL hi l = l.contains hi
  | [], _ => rfl
  | r :: rest, hok => by
    simp only [ordOK, Bool.and_eq_true, List.all_eq_true, Bool.or_eq_true, Bool.not_eq_true', decide_eq_false_iff_not,
      decide_eq_true_eq] at hok
    simp only [walkL, List.contains_cons]
    by_cases hlt : r < hi
    · rw [if_pos hlt, walkL_contains u hi h rest hok.2]
      have : (hi == r) = false := beq_eq_false_iff_ne.mpr (by omega)
      rw [this, Bool.false_or]
    · rw [if_neg hlt]
      have hrest : rest.contains hi = false := by
        cases hc : rest.contains hi with
        | false => rfl
        | true =>
          have hm := List.contains_iff_mem.mp hc
          rcases hok.1 hi hm with h1 | h1
          · exact absurd h h1
          · exact absurd h1 hlt
      rw [hrest, Bool.or_false, Bool.beq_comm]

def walkOK (u : Nat) : Bool :=
  forceNat (next u) fun r1 => forceNat (orbMin u) fun m =>
  closes u 4 r1 && ordOK u (chainFrom u 4 r1) &&
  (cls m).all (fun v => v == u || (chainFrom u 4 r1).contains v) && (chainFrom u 4 r1).all (fun v => (cls m).contains v)

theorem walkOK_all : orbKeys.all walkOK = true := by decide +kernel

/-- the walk from a member of a non-trivial orbit reaches `hi > u` iff `hi` is in the orbit -/
theorem walk_key (u hi : Nat) (hu : u ∈ orbKeys) (h : u < hi) :
    walk u hi 8 (next u) = some (caseFold hi == caseFold u) := by
  have hok := List.all_eq_true.mp walkOK_all u hu
  unfold walkOK at hok
  rw [forceNat_eq, forceNat_eq] at hok
  simp only [Bool.and_eq_true, List.all_eq_true, Bool.or_eq_true, beq_iff_eq, List.contains_iff_mem] at hok
  obtain ⟨⟨⟨hcl, hord⟩, hsub⟩, hsup⟩ := hok
  rw [walk_chain u hi (by omega) 4 (next u) 8 hcl (by omega), walkL_contains u hi h _ hord]
  congr 1
  have hiff := orbit_iff_cls u hi hu
  cases hc : (chainFrom u 4 (next u)).contains hi with
  | true =>
    have := hsup hi (List.contains_iff_mem.mp hc)
    symm; exact beq_iff_eq.mpr (hiff.mpr this)
  | false =>
    symm; apply beq_eq_false_iff_ne.mpr
    intro he
    rcases hsub hi (hiff.mp he) with h1 | h1
    · omega
    · rw [List.contains_iff_mem.mpr h1] at hc; cases hc

theorem nextKeys_ok : Gen.Uni.nextTree.toList.all (fun e => inK e.1) = true := by decide +kernel

theorem next_of_not_key (u : Nat) (h : u ∉ orbKeys) : next u = u := by
  unfold next
  rcases T.get_mem Gen.Uni.nextTree u with h0 | hm
  · rw [h0]; simp
  · generalize hg : Gen.Uni.nextTree.get u = p at hm ⊢
    obtain ⟨a, b⟩ := p
    simp only []
    split
    · have := List.all_eq_true.mp nextKeys_ok _ hm
      exact absurd ((inK_iff u).mp this) h
    · rfl

theorem ascii_pairs : ∀ a b : Fin 128, a.val < b.val →
    (caseFold a.val == caseFold b.val) = decide (0x41 ≤ a.val ∧ a.val ≤ 0x5A ∧ b.val = a.val + 0x20) := by
  decide +kernel

/-- ordered form -/
theorem runeEq_lt (lo hi : Nat) (h : lo < hi) :
    (if hi < 0x80 then some (decide (0x41 ≤ lo ∧ lo ≤ 0x5A ∧ hi = lo + 0x20)) else walk lo hi 8 (next lo)) =
      some (caseFold lo == caseFold hi) := by
  by_cases h80 : hi < 0x80
  · rw [if_pos h80]
    have := ascii_pairs ⟨lo, by omega⟩ ⟨hi, h80⟩ h
    simp only [] at this
    rw [this]
  · rw [if_neg h80]
    by_cases hk : lo ∈ orbKeys
    · rw [walk_key lo hi hk h, Bool.beq_comm]
    · rw [next_of_not_key lo hk]
      simp only [walk]
      rw [if_neg (by simp)]
      congr 1
      have h1 : (lo == hi) = false := beq_eq_false_iff_ne.mpr (by omega)
      rw [h1]
      symm; apply beq_eq_false_iff_ne.mpr
      intro he
      have := (orbit_trivial lo hi hk).mp he.symm
      omega

/-- the rune comparison of `strings.EqualFold` decides fold-equality, for all pairs of naturals -/
theorem runeEq_spec (sr tr : Nat) : runeEq sr tr = some (caseFold sr == caseFold tr) := by
  unfold runeEq
  by_cases he : tr = sr
  · subst he; rw [if_pos rfl]; simp
  · rw [if_neg he]
    simp only []
    by_cases hlt : tr < sr
    · simp only [if_pos hlt]
      rw [runeEq_lt tr sr hlt, Bool.beq_comm]
    · simp only [if_neg hlt]
      exact runeEq_lt sr tr (by omega)

end Std
