import SC.Proofs.Lift
import SC.Model.Algo
namespace Utf8
open A

theorem bytesIndex_ge (s pat : Bytes) : -1 ≤ bytesIndex s pat := by
  induction s with
  | nil => simp only [bytesIndex]; split <;> omega
  | cons b s ih =>
    simp only [bytesIndex]
    split
    · omega
    · split <;> omega

theorem bytesIndex_neg (s pat : Bytes) (h : bytesIndex s pat < 0) : ∀ i, i ≤ s.length → ¬ pat <+: s.drop i := by
  induction s with
  | nil =>
    intro i hi hp
    simp only [bytesIndex] at h
    split at h
    · omega
    · rename_i hne
      have : i = 0 := by simpa using hi
      subst this
      simp only [List.drop_nil, List.prefix_nil] at hp
      exact hne hp
  | cons b s ih =>
    simp only [bytesIndex] at h
    split at h
    · omega
    · rename_i hnp
      split at h
      · rename_i hr
        intro i hi hp
        cases i with
        | zero => exact hnp (List.isPrefixOf_iff_prefix.mpr (by simpa using hp))
        | succ i => exact ih hr i (by simpa using hi) (by simpa using hp)
      · omega

theorem bytesIndex_nonneg (s pat : Bytes) (h : 0 ≤ bytesIndex s pat) :
    (bytesIndex s pat).toNat ≤ s.length ∧ pat <+: s.drop (bytesIndex s pat).toNat ∧
    ∀ i, i < (bytesIndex s pat).toNat → ¬ pat <+: s.drop i := by
  induction s with
  | nil =>
    simp only [bytesIndex] at h ⊢
    split
    · rename_i hp; subst hp; simp
    · rename_i hp; rw [if_neg hp] at h; omega
  | cons b s ih =>
    by_cases hp : pat.isPrefixOf (b :: s) = true
    · have e : bytesIndex (b :: s) pat = 0 := by simp [bytesIndex, hp]
      rw [e]
      exact ⟨by simp, by simpa using List.isPrefixOf_iff_prefix.mp hp, fun i hi => by simp at hi⟩
    · by_cases hr : bytesIndex s pat < 0
      · have e : bytesIndex (b :: s) pat = -1 := by simp [bytesIndex, hp, hr]
        rw [e] at h; omega
      · have e : bytesIndex (b :: s) pat = bytesIndex s pat + 1 := by simp [bytesIndex, hp, hr]
        rw [e]
        obtain ⟨h1, h2, h3⟩ := ih (by omega)
        have e2 : (bytesIndex s pat + 1).toNat = (bytesIndex s pat).toNat + 1 := by omega
        rw [e2]
        refine ⟨by simp only [List.length_cons]; omega, by simpa using h2, ?_⟩
        intro i hi
        cases i with
        | zero => intro hp0; exact hp (List.isPrefixOf_iff_prefix.mpr (by simpa using hp0))
        | succ i => simpa using h3 i (by omega)

/-- what a case-sensitive rune search must return: the first boundary whose segment is `(r, |encode r|)` -/
def IsFirstRune (s : Bytes) (r : Nat) (res : Int) : Prop :=
  (res = -1 ∧ ∀ i, IsBoundary s i → i < s.length → decodeRune (s.drop i) ≠ (r, (encode r).length)) ∨
  (∃ i : Nat, res = (i : Int) ∧ IsBoundary s i ∧ i < s.length ∧ decodeRune (s.drop i) = (r, (encode r).length) ∧
      ∀ j, IsBoundary s j → j < i → decodeRune (s.drop j) ≠ (r, (encode r).length))

/-- C10 bridge: searching for the bytes of `encode r` is searching for the rune `r`
    (arbitrary haystack bytes; this is what `indexRuneCase`, `lastIndexRune` and C20 rest on) -/
theorem bytesIndex_isFirstRune (s : Bytes) (r : Nat) (hv : validRune r) :
    IsFirstRune s r (bytesIndex s (encode r)) := by
  have hge := bytesIndex_ge s (encode r)
  by_cases hneg : bytesIndex s (encode r) < 0
  · left
    refine ⟨by omega, ?_⟩
    intro i hb hi hd
    exact bytesIndex_neg s _ hneg i (by omega) ((occurs_iff_rune_at s r hv i).mpr ⟨hb, hi, hd⟩)
  · right
    obtain ⟨h1, h2, h3⟩ := bytesIndex_nonneg s (encode r) (by omega)
    obtain ⟨hb, hi, hd⟩ := (occurs_iff_rune_at s r hv _).mp h2
    refine ⟨(bytesIndex s (encode r)).toNat, by omega, hb, hi, hd, ?_⟩
    intro j hbj hj hdj
    have hjl : j < s.length := by omega
    exact h3 j hj ((occurs_iff_rune_at s r hv j).mpr ⟨hbj, hjl, hdj⟩)
#print axioms bytesIndex_isFirstRune
end Utf8
