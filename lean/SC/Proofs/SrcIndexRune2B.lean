import SC.Proofs.SrcIndexByteB
import SC.Proofs.SrcCountRuneB
import SC.Proofs.SrcIndexRune2
/-!
`indexRune2` (first occurrence of a lower/upper-case pair) on the regenerated program text of `bytcase/bytcase.go`, relative to `indexRuneCase`
(and through `SrcIndexByte` for an ASCII pair): the 32-bit `lower|upper < RuneSelf` test, the search for `lower`, the re-slice `s[:n]`, the
search for `upper` in it and the choice between the two candidates with their widths.
-/
open GoSsa Gen.Src Utf8

namespace GoSsa.Byt

macro "ir2b_run" "[" ds:Lean.Parser.Tactic.simpLemma,* "]" : tactic =>
  `(tactic| src_run [byt_indexRune2, byt_indexRune2_b0, byt_indexRune2_b1, byt_indexRune2_b2, byt_indexRune2_b3, byt_indexRune2_b4, byt_indexRune2_b5,
      byt_indexRune2_b6, byt_indexRune2_b7, byt_indexRune2_b8, byt_indexRune2_b9, byt_indexRune2_b10, byt_indexRune2_b11, Str.run_call_unfold, bi_RuneLen,
      nb_indexRuneCase, find_indexRuneCase, nb_indexByte, find_indexByte, intOf, $ds,*])

set_option maxHeartbeats 4000000 in
/-- `indexRune2` on the program text, relative to `indexRuneCase` -/
theorem indexRune2 (s : Bytes) (root off : Nat) (lower upper : Nat) (hvl : validRune lower) (hvu : validRune upper) (h : Heap)
    (hls : s.length < 4611686018427387904)
    (hI : ∀ (s' : Bytes) (r : Int), ∃ N, ∀ fuel, N ≤ fuel →
      run P true fuel (Frame.entry byt_indexRuneCase [.str s' root off, .int r]) h = .ok [.int (A.indexRuneCase (cfg true) s' r)] h) :
    Ret P true byt_indexRune2 [.str s root off, .int lower, .int upper] h
      [.int (A.indexRune2 (cfg true) s lower upper).1, .int (A.indexRune2 (cfg true) s lower upper).2] h := by
  have hl31 : lower < 2147483648 := by rcases hvl with a | ⟨_, a⟩ <;> omega
  have hu31 : upper < 2147483648 := by rcases hvu with a | ⟨_, a⟩ <;> omega
  have hor31 : lower ||| upper < 2147483648 := Nat.or_lt_two_pow (n := 31) hl31 hu31
  have htl := Str.toU_i32_nat lower hl31
  have htu := Str.toU_i32_nat upper hu31
  have hwor : wrap .i32 ((lower ||| upper : Nat) : Int) = ((lower ||| upper : Nat) : Int) := Str.wrap_i32_small _ (by omega) (by omega)
  have hrl := Str.runeLenGo_valid lower hvl
  have hru := Str.runeLenGo_valid upper hvu
  unfold A.indexRune2
  by_cases hasc : (lower ||| upper) < 0x80
  · -- both ASCII: the byte search
    have hand : lower &&& 127 < 128 := by have := @Nat.and_le_right lower 127; omega
    have ht127 : toU .i32 (127 : Int) = 127 := by decide
    have hwand : wrap .i32 ((lower &&& 127 : Nat) : Int) = ((lower &&& 127 : Nat) : Int) := Str.wrap_i32_small _ (by omega) (by omega)
    have hwu8 : wrap .u8 ((lower &&& 127 : Nat) : Int) = ((lower &&& 127 : Nat) : Int) := by
      unfold wrap toU bits signed
      have e8 : ((2 ^ 8 : Nat) : Int) = 256 := by decide
      simp only [Bool.false_and, Bool.false_eq_true, if_false, e8]; omega
    have hc : (UInt8.ofNat (lower &&& 0x7F)).toNat = lower &&& 127 := by
      show (UInt8.ofNat (lower &&& 127)).toNat = lower &&& 127
      rw [UInt8.toNat_ofNat']
      exact Nat.mod_eq_of_lt (by have : (2 : Nat) ^ 8 = 256 := by decide
                                 omega)
    obtain ⟨N, hN⟩ := Byt.indexByte s root off (UInt8.ofNat (lower &&& 0x7F)) h hls hI
    rw [hc] at hN
    refine ⟨N + 12, fun fuel hf => ?_⟩
    obtain ⟨m, rfl⟩ : ∃ m, fuel = N + m + 12 := ⟨fuel - (N + 12), by omega⟩
    rw [Frame.entry]
    have hasc' : ((lower ||| upper : Nat) : Int) < 128 := by omega
    simp only [hasc, if_true]
    ir2b_run [htl, htu, hwor, hasc', ht127, hwand, hwu8, hN]
  · have hasc' : ¬ (((lower ||| upper : Nat) : Int) < 128) := by omega
    simp only [hasc, if_false]
    obtain ⟨N1, hN1⟩ := hI s lower
    obtain ⟨N2, hN2⟩ := hI s upper
    obtain ⟨N3, hN3⟩ := hI (s.take (A.indexRuneCase (cfg true) s lower).toNat) upper
    generalize hgn : A.indexRuneCase (cfg true) s (lower : Int) = n at hN1 hN3 ⊢
    refine ⟨N1 + N2 + N3 + 40, fun fuel hf => ?_⟩
    obtain ⟨m, rfl⟩ : ∃ m, fuel = N1 + N2 + N3 + m + 40 := ⟨fuel - (N1 + N2 + N3 + 40), by omega⟩
    rw [Frame.entry]
    by_cases hn0 : n = 0
    · subst hn0
      simp
      ir2b_run [htl, htu, hwor, hasc', hN1, hrl]
    · by_cases hlu : lower = upper
      · subst hlu
        simp only [Nat.or_self] at hwor hasc'
        simp [hn0]
        ir2b_run [htl, hwor, hasc', hN1, hrl, hn0]
      · have hlu2 : ¬ ((lower : Int) = (upper : Int)) := by omega
        simp only [hn0, hlu, ne_eq, not_false_eq_true, and_self, if_true]
        by_cases hn1 : 0 ≤ n
        · by_cases hn2 : n < s.length
          · have hnle : n ≤ s.length := by omega
            have hm1 : ¬ (n = -1) := by omega
            simp only [hn1, hn2, and_self, if_true, hm1, false_or]
            by_cases ho0 : 0 ≤ A.indexRuneCase (cfg true) (s.take n.toNat) (upper : Int)
            · by_cases hon : A.indexRuneCase (cfg true) (s.take n.toNat) (upper : Int) < n <;>
              ir2b_run [htl, htu, hwor, hasc', hN1, hN3, hrl, hru, hn0, hlu2, hn1, hn2, hnle, hm1, ho0, hon]
            · ir2b_run [htl, htu, hwor, hasc', hN1, hN3, hrl, hru, hn0, hlu2, hn1, hn2, hnle, hm1, ho0]
          · have hm1 : ¬ (n = -1) := by omega
            simp only [hn1, hn2, and_false, if_false, hm1, false_or]
            by_cases ho0 : 0 ≤ A.indexRuneCase (cfg true) s (upper : Int)
            · by_cases hon : A.indexRuneCase (cfg true) s (upper : Int) < n <;>
              ir2b_run [htl, htu, hwor, hasc', hN1, hN2, hrl, hru, hn0, hlu2, hn1, hn2, hm1, ho0, hon]
            · ir2b_run [htl, htu, hwor, hasc', hN1, hN2, hrl, hru, hn0, hlu2, hn1, hn2, hm1, ho0]
        · simp only [hn1, false_and, if_false]
          by_cases hm1 : n = -1
          · subst hm1
            simp
            ir2b_run [htl, htu, hwor, hasc', hN1, hN2, hrl, hru, hlu2]
          · simp only [hm1, false_or]
            by_cases ho0 : 0 ≤ A.indexRuneCase (cfg true) s (upper : Int)
            · have hon : ¬ (A.indexRuneCase (cfg true) s (upper : Int) < n) := by omega
              ir2b_run [htl, htu, hwor, hasc', hN1, hN2, hrl, hru, hn0, hlu2, hn1, hm1, ho0, hon]
            · ir2b_run [htl, htu, hwor, hasc', hN1, hN2, hrl, hru, hn0, hlu2, hn1, hm1, ho0]

end GoSsa.Byt
