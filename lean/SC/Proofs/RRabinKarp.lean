import SC.Proofs.RK
import SC.Proofs.RPrefix
import SC.Proofs.SpecIndex
/-!
`indexRabinKarpUnicode` (hashStrUnicode incl. the repeated-squaring `pow`, the first-window phase, the
rolling phase with verification by `HasPrefix`) returns the leftmost match — every pair of byte
strings with a non-empty needle, both packages.
-/
namespace A
open Utf8 Fold RK

theorem hfold_eq (r : Nat) : hfold r = caseFold r := by
  unfold hfold
  split
  · rename_i h
    have hb : UInt8.ofNat r < 0x80 := by
      rw [UInt8.lt_iff_toNat_lt, ofNat_toNat_lt r (by omega)]; simpa using h
    have := caseFold_lower (UInt8.ofNat r) hb
    rw [ofNat_toNat_lt r (by omega)] at this
    exact this.symm
  · rfl

/-! ### the hash and `pow` -/

theorem foldl_hash (P : UInt32) : ∀ (l : List Nat) (acc : UInt32),
    l.foldl (fun h r => h * P + u32 r) acc = hashList P (l.map UInt32.ofNat) acc
  | [], _ => rfl
  | r :: l, acc => by
    have ih := foldl_hash P l (acc * P + u32 r)
    simp only [List.foldl_cons, List.map_cons, hashList]
    exact ih

theorem powP_add (P : UInt32) (a b : Nat) : powP P (a + b) = powP P a * powP P b := by
  induction b with
  | zero => simp [powP]
  | succ b ih => rw [← Nat.add_assoc]; simp only [powP, ih]; grind

theorem powP_sq (P : UInt32) (q : Nat) : powP (P * P) q = powP P (2 * q) := by
  induction q with
  | zero => rfl
  | succ q ih =>
    have : 2 * (q + 1) = 2 * q + 1 + 1 := by omega
    rw [this]; simp only [powP, ih]; grind

theorem powLoop_spec : ∀ (fuel i : Nat) (pow sq : UInt32), i < 2 ^ fuel → powLoop fuel i pow sq = pow * powP sq i := by
  intro fuel
  induction fuel with
  | zero =>
    intro i pow sq hi
    have : i = 0 := by simpa using hi
    subst this; simp [powLoop, powP]
  | succ fuel ih =>
    intro i pow sq hi
    simp only [powLoop]
    by_cases h0 : i > 0
    · rw [if_pos h0, ih (i / 2) _ _ (by rw [Nat.pow_succ] at hi; omega)]
      rw [powP_sq]
      by_cases hodd : i % 2 ≠ 0
      · rw [if_pos hodd]
        have e : i = 2 * (i / 2) + 1 := by omega
        conv => rhs; rw [e]
        simp only [powP]; grind
      · rw [if_neg hodd]
        have e : i = 2 * (i / 2) := by omega
        conv => rhs; rw [e]
    · rw [if_neg h0]
      have : i = 0 := by omega
      subst this; simp [powP]

theorem lt_two_pow_succ (n : Nat) : n < 2 ^ (n + 1) := by
  induction n with
  | zero => simp
  | succ n ih => rw [Nat.pow_succ]; omega

/-- hashStrUnicode: (hash of the folded runes, P^n, n) -/
theorem hashStrUnicode_spec (cfg : Cfg) (sep : Bytes) :
    hashStrUnicode cfg sep =
      (hashRunes (u32 cfg.primeRK) (fdec caseFold sep), powP (u32 cfg.primeRK) (dec sep).length, (dec sep).length) := by
  unfold hashStrUnicode
  simp only []
  have hm : (dec sep).map (fun p => hfold p.1) = fdec caseFold sep := by
    unfold fdec; apply List.map_congr_left; intro p _; exact hfold_eq p.1
  rw [hm, foldl_hash, powLoop_spec _ _ _ _ (lt_two_pow_succ _)]
  simp [hashRunes, fdec]

/-! ### first window -/

theorem rkInit_spec (P : UInt32) : ∀ (fuel : Nat) (s : Bytes) (h : UInt32) (j m : Nat), 1 ≤ m → s.length < fuel →
    rkInit P fuel s h j (m : Int) =
      if m ≤ (dec s).length
      then (hashList P (((fdec caseFold s).take m).map UInt32.ofNat) h, j + offAt s m, 0)
      else (hashList P ((fdec caseFold s).map UInt32.ofNat) h, j + s.length, ((m - (dec s).length : Nat) : Int)) := by
  intro fuel
  induction fuel with
  | zero => intro s h j m _ hf; omega
  | succ fuel ih =>
    intro s h j m hm hf
    cases s with
    | nil =>
      simp only [rkInit, dec_nil, List.length_nil]
      rw [if_neg (by omega)]
      simp [fdec, dec_nil, hashList]
    | cons b rest =>
      simp only [rkInit]
      have hw := decodeRune_width_pos b rest
      have hwl := decodeRune_width_le (b :: rest)
      have hdec : dec (b :: rest) = decodeRune (b :: rest) :: dec ((b :: rest).drop (decodeRune (b :: rest)).2) := dec_cons b rest
      have hfd : fdec caseFold (b :: rest) = caseFold (decodeRune (b :: rest)).1 :: fdec caseFold ((b :: rest).drop (decodeRune (b :: rest)).2) := by
        simp [fdec, hdec]
      have hlen : (dec (b :: rest)).length = (dec ((b :: rest).drop (decodeRune (b :: rest)).2)).length + 1 := by
        rw [hdec]; simp
      by_cases hm1 : (m : Int) - 1 = 0
      · have : m = 1 := by omega
        subst this
        rw [if_pos hm1, if_pos (by omega)]
        rw [hfd]
        simp only [List.take_succ_cons, List.take_zero, List.map_cons, List.map_nil, hashList, hfold_eq, u32]
        rw [offAt_succ_cons, offAt_zero]
        simp
      · rw [if_neg hm1]
        have hcast : (m : Int) - 1 = ((m - 1 : Nat) : Int) := by omega
        rw [hcast, ih _ _ _ (m - 1) (by omega) (by simp only [List.length_drop] at hf ⊢; omega)]
        obtain ⟨m', rfl⟩ : ∃ m', m = m' + 1 := ⟨m - 1, by omega⟩
        simp only [Nat.add_sub_cancel]
        by_cases hle : m' ≤ (dec ((b :: rest).drop (decodeRune (b :: rest)).2)).length
        · rw [if_pos hle, if_pos (by omega), hfd]
          simp only [List.take_succ_cons, List.map_cons, hashList, hfold_eq, u32]
          rw [offAt_succ_cons]
          simp only [Prod.mk.injEq, and_true, true_and]
          omega
        · rw [if_neg hle, if_neg (by omega), hfd]
          simp only [List.map_cons, hashList, hfold_eq, u32, List.length_drop, Prod.mk.injEq, true_and]
          constructor
          · omega
          · congr 1; omega

/-! ### rolling phase = the rune-level `slide` -/

theorem isPrefixOf_take_len {α : Type} [DecidableEq α] (fp l : List α) :
    fp.isPrefixOf (l.take fp.length) = fp.isPrefixOf l := by
  cases h : fp.isPrefixOf l with
  | true =>
    have hp := List.isPrefixOf_iff_prefix.mp h
    apply List.isPrefixOf_iff_prefix.mpr
    rw [List.prefix_iff_eq_take] at hp ⊢
    rw [List.take_take, Nat.min_self]
    exact hp
  | false =>
    cases h2 : fp.isPrefixOf (l.take fp.length) with
    | false => rfl
    | true =>
      have := (List.isPrefixOf_iff_prefix.mp h2).trans (List.take_prefix _ _)
      rw [List.isPrefixOf_iff_prefix.mpr this] at h; cases h

theorem window_fdec (s sub : Bytes) (a : Nat) :
    fdec caseFold ((s.drop (offAt s a)).take (offAt (s.drop (offAt s a)) (dec sub).length)) =
      ((fdec caseFold s).drop a).take (fdec caseFold sub).length := by
  unfold fdec
  rw [dec_take_offAt, dec_drop_offAt, List.map_take, List.map_drop, List.length_map]

theorem hasPrefix_of_fdec (cfg : Cfg) (w sub : Bytes) (fs : List Nat) (h : fdec caseFold w = fs.take (fdec caseFold sub).length) :
    HasPrefix cfg w sub = (fdec caseFold sub).isPrefixOf fs := by
  rw [HasPrefix_eq]
  unfold S.hasPrefix S.prefixLen S.fruns S.fold
  rw [h, isPrefixOf_take_len]
  generalize (fdec caseFold sub).isPrefixOf fs = b
  cases b <;> rfl

/-- verifying the window `s[o_a : o_{a+n}]` is testing the folded runes from `a` on -/
theorem hasPrefix_window (cfg : Cfg) (s sub : Bytes) (a : Nat) (ha : a + (dec sub).length ≤ (dec s).length) :
    HasPrefix cfg ((s.drop (offAt s a)).take (offAt s (a + (dec sub).length) - offAt s a)) sub =
      (fdec caseFold sub).isPrefixOf ((fdec caseFold s).drop a) := by
  have e : offAt s (a + (dec sub).length) - offAt s a = offAt (s.drop (offAt s a)) (dec sub).length :=
    (offAt_drop s a _ ha).symm
  rw [e]
  exact hasPrefix_of_fdec cfg _ sub _ (window_fdec s sub a)

theorem slide_cons (P pw hs : UInt32) (fp : List Nat) (o nw : Nat) (old' new' : List Nat) (h : UInt32) (k : Nat) :
    slide P pw hs fp (o :: old') (nw :: new') h k =
      if h * P + UInt32.ofNat nw - pw * UInt32.ofNat o = hs ∧ fp.isPrefixOf old' = true then some (k + 1)
      else slide P pw hs fp old' new' (h * P + UInt32.ofNat nw - pw * UInt32.ofNat o) (k + 1) := rfl

theorem rkRoll_slide (cfg : Cfg) (P pw hs : UInt32) (s sub : Bytes) (hn : 1 ≤ (dec sub).length) :
    ∀ (fuel k : Nat) (h : UInt32), k + (dec sub).length ≤ (dec s).length →
      (dec s).length + 1 ≤ fuel + (k + (dec sub).length) →
      rkRoll cfg P pw hs s sub fuel h (offAt s k) (offAt s (k + (dec sub).length)) =
        (match slide P pw hs (fdec caseFold sub) ((fdec caseFold s).drop k)
            ((fdec caseFold s).drop (k + (dec sub).length)) h k with
          | some k' => ((offAt s k' : Nat) : Int)
          | none => -1) := by
  intro fuel
  induction fuel with
  | zero => intro k h hk hf; omega
  | succ fuel ih =>
    intro k h hk hf
    simp only [rkRoll]
    by_cases hend : k + (dec sub).length = (dec s).length
    · -- the window touches the end: nothing left to roll in
      have hj : offAt s (k + (dec sub).length) = s.length := by rw [hend, offAt_length]
      rw [if_neg (by omega)]
      have : (fdec caseFold s).drop (k + (dec sub).length) = [] := by
        apply List.drop_eq_nil_of_le; rw [fdec_length]; omega
      rw [this]
      cases (fdec caseFold s).drop k <;> rfl
    · have hlt : k + (dec sub).length < (dec s).length := by omega
      have hklt : k < (dec s).length := by omega
      have hj : offAt s (k + (dec sub).length) < s.length := by
        have h1 := offAt_lt_succ s _ hlt
        have h2 := offAt_le s (k + (dec sub).length + 1)
        omega
      rw [if_pos hj]
      -- the two runes entering and leaving the window
      have hpj : decodeRune (s.drop (offAt s (k + (dec sub).length))) = (dec s)[k + (dec sub).length] := (seg_at s _ hlt).symm
      have hpi : decodeRune (s.drop (offAt s k)) = (dec s)[k] := (seg_at s _ hklt).symm
      have hold : (fdec caseFold s).drop k = caseFold ((dec s)[k]).1 :: (fdec caseFold s).drop (k + 1) := by
        rw [List.drop_eq_getElem_cons (by rw [fdec_length]; exact hklt)]
        simp [fdec]
      have hnew : (fdec caseFold s).drop (k + (dec sub).length) =
          caseFold ((dec s)[k + (dec sub).length]).1 :: (fdec caseFold s).drop (k + (dec sub).length + 1) := by
        rw [List.drop_eq_getElem_cons (by rw [fdec_length]; exact hlt)]
        simp [fdec]
      rw [hold, hnew]
      rw [slide_cons, hpj, hpi, hfold_eq, hfold_eq]
      unfold u32
      have hj' : offAt s (k + (dec sub).length) + ((dec s)[k + (dec sub).length]).2 = offAt s (k + 1 + (dec sub).length) := by
        rw [show k + 1 + (dec sub).length = k + (dec sub).length + 1 by omega, offAt_succ s _ hlt]
      have hi' : offAt s k + ((dec s)[k]).2 = offAt s (k + 1) := by rw [offAt_succ s _ hklt]
      rw [hj', hi']
      have hle1 := offAt_le_of_le s (k + 1) (k + 1 + (dec sub).length) (by omega) (by omega)
      have hle2 := offAt_le s (k + 1 + (dec sub).length)
      rw [if_neg (by omega)]
      rw [hasPrefix_window cfg s sub (k + 1) (by omega)]
      generalize h * P + UInt32.ofNat (caseFold ((dec s)[k + (dec sub).length]).1) - pw * UInt32.ofNat (caseFold ((dec s)[k]).1) = h'
      by_cases hc : h' = hs ∧ (fdec caseFold sub).isPrefixOf ((fdec caseFold s).drop (k + 1)) = true
      · rw [if_pos hc, if_pos hc]
      · rw [if_neg hc, if_neg hc]
        have := ih (k + 1) h' (by omega) (by omega)
        rw [show k + 1 + (dec sub).length = k + (dec sub).length + 1 by omega] at this
        rw [show k + 1 + (dec sub).length = k + (dec sub).length + 1 by omega]
        exact this

/-- strcase, haystack with fewer runes than the needle: the loop runs on an empty window and finds nothing -/
theorem rkRoll_empty (cfg : Cfg) (P pw hs : UInt32) (s sub : Bytes) (hsub : sub ≠ []) :
    ∀ (fuel k : Nat) (h : UInt32), k ≤ (dec s).length → (dec s).length + 1 ≤ fuel + k →
      rkRoll cfg P pw hs s sub fuel h (offAt s k) (offAt s k) = -1 := by
  intro fuel
  induction fuel with
  | zero => intro k h hk hf; omega
  | succ fuel ih =>
    intro k h hk hf
    simp only [rkRoll]
    by_cases hend : k = (dec s).length
    · rw [hend, offAt_length, if_neg (by omega)]
    · have hklt : k < (dec s).length := by omega
      have hj : offAt s k < s.length := by
        have h1 := offAt_lt_succ s _ hklt
        have h2 := offAt_le s (k + 1)
        omega
      rw [if_pos hj]
      have hpi : decodeRune (s.drop (offAt s k)) = (dec s)[k] := (seg_at s _ hklt).symm
      rw [hpi]
      have hi' : offAt s k + ((dec s)[k]).2 = offAt s (k + 1) := by rw [offAt_succ s _ hklt]
      rw [hi']
      have hle2 := offAt_le s (k + 1)
      rw [if_neg (by omega)]
      have hw : HasPrefix cfg ((s.drop (offAt s (k + 1))).take (offAt s (k + 1) - offAt s (k + 1))) sub = false := by
        rw [Nat.sub_self, List.take_zero, HasPrefix_eq]
        unfold S.hasPrefix S.prefixLen S.fruns
        have hne : fdec S.fold sub ≠ [] := by
          intro he
          have : dec sub = [] := by simpa [fdec] using he
          exact hsub ((dec_eq_nil sub).mp this)
        have : (fdec S.fold sub).isPrefixOf (fdec S.fold []) = false := by
          simp only [fdec, dec_nil, List.map_nil]
          cases hx : List.map (fun p => S.fold p.1) (dec sub) with
          | nil => exact absurd hx (by simpa [fdec] using hne)
          | cons a l => rfl
        rw [this]; rfl
      rw [hw]
      simp only [Bool.false_eq_true, and_false, if_false]
      exact ih (k + 1) _ (by omega) (by omega)

theorem dec_length_le (s : Bytes) : (dec s).length ≤ s.length := by
  have : ∀ k, k ≤ (dec s).length → k ≤ offAt s k := by
    intro k
    induction k with
    | zero => intro _; omega
    | succ k ih => intro hk; have := offAt_lt_succ s k (by omega); have := ih (by omega); omega
  have h2 := this _ (Nat.le_refl _)
  have := offAt_length s
  omega

theorem not_prefix_of_longer {α : Type} (fp fs : List α) (h : fs.length < fp.length) (d : Nat) : ¬ fp <+: fs.drop d := by
  intro hp
  have := hp.length_le
  simp only [List.length_drop] at this
  omega

/-- C01: `indexRabinKarpUnicode` returns the leftmost match (non-empty needle; all byte strings; both packages) -/
theorem indexRabinKarpUnicode_isIndex (cfg : Cfg) (s sub : Bytes) (hsub : sub ≠ []) :
    IsIndex caseFold s sub (indexRabinKarpUnicode cfg s sub) := by
  have hn : 1 ≤ (dec sub).length := by
    cases sub with
    | nil => exact absurd rfl hsub
    | cons c p => rw [dec_cons]; simp
  -- translate a rune-level verdict into the byte-level contract
  have hnone : (∀ d, ¬ fdec caseFold sub <+: (fdec caseFold s).drop d) →
      ∀ i, IsBoundary s i → ¬ Match caseFold (s.drop i) sub := by
    intro h i hi hm
    obtain ⟨k, _, rfl⟩ := hi
    unfold Match at hm
    rw [fdec_drop_offAt] at hm
    exact h k hm
  unfold indexRabinKarpUnicode
  simp only []
  rw [hashStrUnicode_spec]
  simp only []
  rw [rkInit_spec _ _ _ _ _ _ hn (by omega)]
  by_cases hle : (dec sub).length ≤ (dec s).length
  · rw [if_pos hle]
    simp only [Nat.zero_add, if_true, ite_self]
    have hh0 : hashList (u32 cfg.primeRK) (((fdec caseFold s).take (dec sub).length).map UInt32.ofNat) 0 =
        hashRunes (u32 cfg.primeRK) ((fdec caseFold s).take (fdec caseFold sub).length) := by
      rw [fdec_length]; rfl
    by_cases hfirst : hashList (u32 cfg.primeRK) (((fdec caseFold s).take (dec sub).length).map UInt32.ofNat) 0 =
        hashRunes (u32 cfg.primeRK) (fdec caseFold sub) ∧ HasPrefix cfg s sub = true
    · rw [if_pos hfirst]
      right
      refine ⟨0, rfl, isBoundary_zero s, ?_, fun j _ hj => by omega⟩
      have := (hasPrefixUnicode_contract cfg s sub).1.mp hfirst.2
      simpa [Match] using this
    · rw [if_neg hfirst]
      have hnp : (fdec caseFold sub).isPrefixOf (fdec caseFold s) = false := by
        cases hp : (fdec caseFold sub).isPrefixOf (fdec caseFold s) with
        | false => rfl
        | true =>
          exfalso; apply hfirst
          constructor
          · rw [hh0, isPrefixOf_take_eq _ _ hp]
          · exact (hasPrefixUnicode_contract cfg s sub).1.mpr (List.isPrefixOf_iff_prefix.mp hp)
      have hroll := rkRoll_slide cfg (u32 cfg.primeRK) (powP (u32 cfg.primeRK) (dec sub).length)
        (hashRunes (u32 cfg.primeRK) (fdec caseFold sub)) s sub hn (s.length + 1) 0
        (hashList (u32 cfg.primeRK) (((fdec caseFold s).take (dec sub).length).map UInt32.ofNat) 0)
        (by omega) (by have := dec_length_le s; omega)
      simp only [offAt_zero, Nat.zero_add, List.drop_zero] at hroll
      rw [hroll]
      have hsl := slide_correct (u32 cfg.primeRK) (fdec caseFold sub) (by rw [fdec_length]; exact hn)
        (fdec caseFold s) ((fdec caseFold s).drop (fdec caseFold sub).length)
        (hashList (u32 cfg.primeRK) (((fdec caseFold s).take (dec sub).length).map UInt32.ofNat) 0) 0
        (slide (u32 cfg.primeRK) (powP (u32 cfg.primeRK) (fdec caseFold sub).length) (hashRunes (u32 cfg.primeRK) (fdec caseFold sub))
          (fdec caseFold sub) (fdec caseFold s) ((fdec caseFold s).drop (fdec caseFold sub).length)
          (hashList (u32 cfg.primeRK) (((fdec caseFold s).take (dec sub).length).map UInt32.ofNat) 0) 0)
        rfl (by rw [fdec_length, fdec_length]; exact hle) hh0 hnp rfl
      rw [fdec_length caseFold sub] at hsl
      rcases hsl with ⟨hres, hno⟩ | ⟨d, hres, hm, hmin⟩
      · rw [hres]
        left; exact ⟨rfl, hnone hno⟩
      · rw [hres]
        simp only [Nat.zero_add]
        have hdl : d ≤ (dec s).length := by
          have := hm.length_le
          simp only [List.length_drop, fdec_length] at this
          omega
        right
        refine ⟨offAt s d, rfl, ⟨d, hdl, rfl⟩, ?_, ?_⟩
        · unfold Match; rw [fdec_drop_offAt]; exact hm
        · rintro j ⟨kj, hkj, rfl⟩ hlt hmj
          have hkk : kj < d := by
            rcases Nat.lt_or_ge kj d with h | h
            · exact h
            · have := offAt_le_of_le s d kj h hkj; omega
          unfold Match at hmj
          rw [fdec_drop_offAt] at hmj
          exact hmin kj hkk hmj
  · -- fewer runes in s than in the needle: nothing can match
    rw [if_neg hle]
    simp only [Nat.zero_add]
    have hno : ∀ d, ¬ fdec caseFold sub <+: (fdec caseFold s).drop d :=
      not_prefix_of_longer _ _ (by rw [fdec_length, fdec_length]; omega)
    have hhp : HasPrefix cfg s sub = false := by
      cases hp : HasPrefix cfg s sub with
      | false => rfl
      | true =>
        have := (hasPrefixUnicode_contract cfg s sub).1.mp hp
        exact absurd (by simpa using this) (hno 0)
    rw [hhp]
    simp only [Bool.false_eq_true, and_false, if_false]
    have hcast : ¬ (((dec sub).length - (dec s).length : Nat) : Int) = 0 := by omega
    left
    refine ⟨?_, hnone hno⟩
    cases hb : isByt cfg with
    | true =>
      simp only [if_true]
      simp only [rkRoll, Nat.lt_irrefl, if_false]
    | false =>
      simp only [Bool.false_eq_true, if_false, if_neg hcast]
      have := rkRoll_empty cfg (u32 cfg.primeRK) (powP (u32 cfg.primeRK) (dec sub).length)
        (hashRunes (u32 cfg.primeRK) (fdec caseFold sub)) s sub hsub (s.length + 1) 0
        (hashList (u32 cfg.primeRK) ((fdec caseFold s).map UInt32.ofNat) 0) (by omega)
        (by have := dec_length_le s; omega)
      rw [offAt_zero] at this
      exact this

end A
