import SC.Proofs.SrcBase
import SC.Gen.Src.byt_Compare
import SC.Gen.Src.byt_clamp
/-!
`bytcase.Compare` on the regenerated program text (`Gen.Src.byt`), part 1: the rune loop, which differs from strcase's — both
arguments are decoded and folded eagerly (`s[0] < RuneSelf ? _lower[s[0]] : CaseFold(DecodeRune(s))` on each side): four decode
combinations times three outcomes.
-/
open GoSsa Gen.Src Utf8

namespace GoSsa.Byt

section
-- the program the function lives in: any program whose `clamp` is the regenerated one
variable (p : Prog) (hfc : p.find? (fun fn => fn.name == "clamp") = some byt_clamp)

theorem clamp_run (n : Int) (h : Heap) (fuel : Nat) (hf : 6 ≤ fuel) :
    run p true fuel (Frame.entry byt_clamp [.int n]) h = .ok [.int (Utf8.clamp n)] h := by
  obtain ⟨m, rfl⟩ : ∃ m, fuel = m + 6 := ⟨fuel - 6, by omega⟩
  rw [Frame.entry]
  by_cases h1 : n < 0
  · src_run [byt_clamp, byt_clamp_b0, byt_clamp_b1, byt_clamp_b2, byt_clamp_b3, byt_clamp_b4, Utf8.clamp, h1]
  · by_cases h2 : 0 < n <;>
      src_run [byt_clamp, byt_clamp_b0, byt_clamp_b1, byt_clamp_b2, byt_clamp_b3, byt_clamp_b4, Utf8.clamp, h1, h2]

theorem lowerLoad (b : UInt8) : Gen.Consts.bytLower[b.toNat]?.getD 0 = (lower b).toNat := by
  rw [Utf8.bytLower_eq]
  have hb := b.toNat_lt
  simp [List.getElem?_map, List.getElem?_range hb, Utf8.ofNat_toNat_id]
theorem lowerLen : Gen.Consts.bytLower.length = 256 := by decide +kernel

theorem bi_DecodeRune (b : Bytes) (r o : Nat) (h : Heap) :
    builtin true "unicode/utf8.DecodeRune" [.str b r o] h = some (.ok [.int (decodeRune b).1, .int (decodeRune b).2] h) := rfl
theorem bi_CaseFold (i : Int) (h : Heap) :
    builtin true "tables.CaseFold" [.int i] h =
      some (.ok [.int (if Fold.caseFold (toU32 i) = toU32 i then i else (Fold.caseFold (toU32 i) : Int))] h) := rfl

section
variable (fold : Nat → Nat)
theorem cmpRunesB_nil (k : Nat) (t : Bytes) : A.cmpRunesB fold k [] t = if t = [] then 0 else -1 := by
  cases t <;> cases k <;> simp [A.cmpRunesB]
theorem cmpRunesB_cons_nil (k : Nat) (a : UInt8) (s : Bytes) : A.cmpRunesB fold (k + 1) (a :: s) [] = 1 := by
  simp [A.cmpRunesB]
theorem cmpRunesB_cons_cons (k : Nat) (a : UInt8) (s : Bytes) (b : UInt8) (t' : Bytes) :
    A.cmpRunesB fold (k + 1) (a :: s) (b :: t') =
      if (if a < 0x80 then (lower a).toNat else fold (decodeRune (a :: s)).1) = (if b < 0x80 then (lower b).toNat else fold (decodeRune (b :: t')).1) ∨
         fold (if a < 0x80 then (lower a).toNat else fold (decodeRune (a :: s)).1) = (if b < 0x80 then (lower b).toNat else fold (decodeRune (b :: t')).1) then
        A.cmpRunesB fold k (if a < 0x80 then s else (a :: s).drop (decodeRune (a :: s)).2) (if b < 0x80 then t' else (b :: t').drop (decodeRune (b :: t')).2)
      else Utf8.clamp ((fold (if a < 0x80 then (lower a).toNat else fold (decodeRune (a :: s)).1) : Int) -
            ((if b < 0x80 then (lower b).toNat else fold (decodeRune (b :: t')).1 : Nat) : Int)) := by
  simp [A.cmpRunesB]
end


macro "cmpb_run" "[" ds:Lean.Parser.Tactic.simpLemma,* "]" : tactic =>
  `(tactic| src_run [byt_Compare, byt_Compare_b0, byt_Compare_b1, byt_Compare_b2, byt_Compare_b3, byt_Compare_b4, byt_Compare_b5, byt_Compare_b6, byt_Compare_b7, byt_Compare_b8, byt_Compare_b9, byt_Compare_b10, byt_Compare_b11, byt_Compare_b12, byt_Compare_b13, byt_Compare_b14, byt_Compare_b15, byt_Compare_b16, byt_Compare_b17, byt_Compare_b18, byt_Compare_b19, byt_Compare_b20, byt_Compare_b21, byt_Compare_b22, byt_Compare_b23, byt_Compare_b24, byt_Compare_b25, byt_Compare_b26, Str.run_call_unfold, bi_DecodeRune, bi_CaseFold,
      globalArr, lowerLoad, lowerLen, intOf, $ds,*])

include hfc in
set_option maxHeartbeats 8000000 in
theorem cmp_runesB (h : Heap) :
    ∀ (k : Nat) (sb tb : Bytes) (rs os rt ot : Nat) (env : Array (List Val)), sb.length ≤ k →
      sb.length < 4611686018427387904 → tb.length < 4611686018427387904 → env.size = 80 →
      env.getD 36 [] = [.str sb rs os] → env.getD 37 [] = [.str tb rt ot] →
      ∀ fuel, 60 * k + 60 ≤ fuel →
      run p true fuel ⟨byt_Compare, env, 14, [.len 38 (.r 36), .bin 39 .ne .i64 (.r 38) (.c 0)], .cond (.r 39) 12 13⟩ h
        = .ok [.int (A.cmpRunesB Fold.caseFold k sb tb)] h := by
  intro k
  induction k with
  | zero =>
    intro sb tb rs os rt ot env hk hsl htl hsz h36 h37 fuel hf
    simp [hsz] at h36 h37
    have hsb : sb = [] := List.eq_nil_of_length_eq_zero (by omega)
    subst hsb
    rw [cmpRunesB_nil]
    obtain ⟨m, rfl⟩ : ∃ m, fuel = m + 20 := ⟨fuel - 20, by omega⟩
    cases tb with
    | nil => cmpb_run [Str.nb_clamp_byt, hfc, clamp_run p, hsz, h36, h37]
    | cons b t' =>
      have hl : ¬ ((t'.length : Int) + 1 = 0) := by omega
      cmpb_run [Str.nb_clamp_byt, hfc, clamp_run p, hsz, h36, h37, hl]
  | succ k ih =>
    intro sb tb rs os rt ot env hk hsl htl hsz h36 h37 fuel hf
    simp [hsz] at h36 h37
    simp only [byt_Compare, byt_Compare_b0, byt_Compare_b1, byt_Compare_b2, byt_Compare_b3, byt_Compare_b4, byt_Compare_b5, byt_Compare_b6, byt_Compare_b7, byt_Compare_b8, byt_Compare_b9, byt_Compare_b10, byt_Compare_b11, byt_Compare_b12, byt_Compare_b13, byt_Compare_b14, byt_Compare_b15, byt_Compare_b16, byt_Compare_b17, byt_Compare_b18, byt_Compare_b19, byt_Compare_b20, byt_Compare_b21, byt_Compare_b22, byt_Compare_b23, byt_Compare_b24, byt_Compare_b25, byt_Compare_b26] at ih
    cases sb with
    | nil =>
      rw [cmpRunesB_nil]
      obtain ⟨m, rfl⟩ : ∃ m, fuel = m + 20 := ⟨fuel - 20, by omega⟩
      cases tb with
      | nil => cmpb_run [Str.nb_clamp_byt, hfc, clamp_run p, hsz, h36, h37]
      | cons b t' =>
        have hl : ¬ ((t'.length : Int) + 1 = 0) := by omega
        cmpb_run [Str.nb_clamp_byt, hfc, clamp_run p, hsz, h36, h37, hl]
    | cons a s' =>
      have hl1 : ¬ ((s'.length : Int) + 1 = 0) := by omega
      have hl3 : (1 : Int) ≤ (s'.length : Int) + 1 := by omega
      cases tb with
      | nil =>
        rw [cmpRunesB_cons_nil]
        obtain ⟨m, rfl⟩ : ∃ m, fuel = m + 20 := ⟨fuel - 20, by omega⟩
        cmpb_run [Str.nb_clamp_byt, hfc, clamp_run p, hsz, h36, h37, hl1]
      | cons b t' =>
        have hl2 : ¬ ((t'.length : Int) + 1 = 0) := by omega
        have hl4 : (1 : Int) ≤ (t'.length : Int) + 1 := by omega
        have hka : a.toNat < 256 := a.toNat_lt
        have hkb : b.toNat < 256 := b.toNat_lt
        have hka' : (a.toNat : Int) < 256 := by omega
        have hkb' : (b.toNat : Int) < 256 := by omega
        rw [cmpRunesB_cons_cons]
        by_cases ha : a < 0x80 <;> by_cases hb : b < 0x80
        · -- a ASCII, b ASCII
          simp only [ha, hb, if_true, if_false]
          have ha1 : (a.toNat : Int) < 128 := by have : a.toNat < 128 := ha; omega
          have hwa : wrap .i32 ((lower a).toNat : Int) = ((lower a).toNat : Int) := Str.wrap_i32_small _ (by have := (lower a).toNat_lt; omega) (by have := (lower a).toNat_lt; omega)
          have hsra : (lower a).toNat < 0x200000 := by have := (lower a).toNat_lt; omega
          generalize hSa : (lower a).toNat = Sa at hwa hsra ⊢
          have hb1 : (b.toNat : Int) < 128 := by have : b.toNat < 128 := hb; omega
          have hwb : wrap .i32 ((lower b).toNat : Int) = ((lower b).toNat : Int) := Str.wrap_i32_small _ (by have := (lower b).toNat_lt; omega) (by have := (lower b).toNat_lt; omega)
          have hsrb : (lower b).toNat < 0x200000 := by have := (lower b).toNat_lt; omega
          generalize hSb : (lower b).toNat = Sb at hwb hsrb ⊢
          have htus := Str.toU32_nat _ hsra
          have hcbs := Str.caseFold_builtin _ hsra
          have hcls := Str.caseFold_lt _ hsra
          rw [htus] at hcbs
          generalize hFs : Fold.caseFold Sa = Fs at hcbs hcls ⊢
          by_cases e1 : Sa = Sb
          · obtain ⟨m, rfl⟩ : ∃ m, fuel = m + 30 := ⟨fuel - 30, by omega⟩
            subst e1
            cmpb_run [Str.nb_clamp_byt, hfc, clamp_run p, hsz, h36, h37, hl1, hl2, hl3, hl4, hka, hkb, hka', hkb', ha1, hwa, hSa, hb1, hwb, hSb]
            rw [ih s' t' rs (os + 1) rt (ot + 1) _ (by simp at hk ⊢; omega) (by simp at hsl ⊢; omega) (by simp at htl ⊢; omega) (by simp [hsz]) (by simp [hsz]) (by simp [hsz]) _ (by omega)]
          · have e1' : ¬ ((Sa : Int) = (Sb : Int)) := by omega
            have e1s : ¬ (Sb = Sa) := fun x => e1 x.symm
            by_cases e2 : Fs = Sb
            · obtain ⟨m, rfl⟩ : ∃ m, fuel = m + 33 := ⟨fuel - 33, by omega⟩
              subst e2
              cmpb_run [Str.nb_clamp_byt, hfc, clamp_run p, hsz, h36, h37, hl1, hl2, hl3, hl4, hka, hkb, hka', hkb', ha1, hwa, hSa, hb1, hwb, hSb, e1, e1s, e1', htus, hcbs, hFs]
              rw [ih s' t' rs (os + 1) rt (ot + 1) _ (by simp at hk ⊢; omega) (by simp at hsl ⊢; omega) (by simp at htl ⊢; omega) (by simp [hsz]) (by simp [hsz]) (by simp [hsz]) _ (by omega)]
            · have e2' : ¬ ((Fs : Int) = (Sb : Int)) := by omega
              have e2s : ¬ (Sb = Fs) := fun x => e2 x.symm
              obtain ⟨m, rfl⟩ : ∃ m, fuel = m + 59 := ⟨fuel - 59, by omega⟩
              have hw1' : wrap .i64 (Fs : Int) = (Fs : Int) := Str.wrap_i64_small _ (by omega) (by omega)
              have hw2' : wrap .i64 (Sb : Int) = (Sb : Int) := Str.wrap_i64_small _ (by omega) (by omega)
              have hw3' : wrap .i64 ((Fs : Int) - (Sb : Int)) = (Fs : Int) - (Sb : Int) := Str.wrap_i64_small _ (by omega) (by omega)
              cmpb_run [Str.nb_clamp_byt, hfc, clamp_run p, hsz, h36, h37, hl1, hl2, hl3, hl4, hka, hkb, hka', hkb', ha1, hwa, hSa, hb1, hwb, hSb, e1, e1s, e1', htus, hcbs, hFs, e2, e2s, e2', hw1', hw2', hw3']
        · -- a ASCII, b multi-byte
          simp only [ha, hb, if_true, if_false]
          have ha1 : (a.toNat : Int) < 128 := by have : a.toNat < 128 := ha; omega
          have hwa : wrap .i32 ((lower a).toNat : Int) = ((lower a).toNat : Int) := Str.wrap_i32_small _ (by have := (lower a).toNat_lt; omega) (by have := (lower a).toNat_lt; omega)
          have hsra : (lower a).toNat < 0x200000 := by have := (lower a).toNat_lt; omega
          generalize hSa : (lower a).toNat = Sa at hwa hsra ⊢
          have hb1 : ¬ ((b.toNat : Int) < 128) := by intro x; apply hb; show b.toNat < 128; omega
          have hrb := Str.decodeRune_rune_lt (b :: t')
          have hqb1 : 1 ≤ (decodeRune (b :: t')).2 := decodeRune_width_pos _ _
          have hqb2 : (decodeRune (b :: t')).2 ≤ t'.length + 1 := by have := decodeRune_width_le (b :: t'); simpa using this
          have hqb3 : ((decodeRune (b :: t')).2 : Int) ≤ (t'.length : Int) + 1 := by omega
          have htkb : List.take (t'.length + 1 - (decodeRune (b :: t')).2) (List.drop (decodeRune (b :: t')).2 (b :: t')) = List.drop (decodeRune (b :: t')).2 (b :: t') :=
            List.take_of_length_le (by simp)
          have htub := Str.toU32_nat _ hrb
          have hcbb := Str.caseFold_builtin _ hrb
          have hsrb := Str.caseFold_lt _ hrb
          rw [htub] at hcbb
          generalize hSb : Fold.caseFold (decodeRune (b :: t')).1 = Sb at hcbb hsrb ⊢
          have htus := Str.toU32_nat _ hsra
          have hcbs := Str.caseFold_builtin _ hsra
          have hcls := Str.caseFold_lt _ hsra
          rw [htus] at hcbs
          generalize hFs : Fold.caseFold Sa = Fs at hcbs hcls ⊢
          by_cases e1 : Sa = Sb
          · obtain ⟨m, rfl⟩ : ∃ m, fuel = m + 29 := ⟨fuel - 29, by omega⟩
            subst e1
            cmpb_run [Str.nb_clamp_byt, hfc, clamp_run p, hsz, h36, h37, hl1, hl2, hl3, hl4, hka, hkb, hka', hkb', ha1, hwa, hSa, hb1, hqb3, htkb, htub, hcbb, hSb]
            rw [ih s' (List.drop (decodeRune (b :: t')).2 (b :: t')) rs (os + 1) rt (ot + (decodeRune (b :: t')).2) _ (by simp at hk ⊢; omega) (by simp at hsl ⊢; omega) (by simp at htl ⊢; omega) (by simp [hsz]) (by simp [hsz]) (by simp [hsz]) _ (by omega)]
          · have e1' : ¬ ((Sa : Int) = (Sb : Int)) := by omega
            have e1s : ¬ (Sb = Sa) := fun x => e1 x.symm
            by_cases e2 : Fs = Sb
            · obtain ⟨m, rfl⟩ : ∃ m, fuel = m + 32 := ⟨fuel - 32, by omega⟩
              subst e2
              cmpb_run [Str.nb_clamp_byt, hfc, clamp_run p, hsz, h36, h37, hl1, hl2, hl3, hl4, hka, hkb, hka', hkb', ha1, hwa, hSa, hb1, hqb3, htkb, htub, hcbb, hSb, e1, e1s, e1', htus, hcbs, hFs]
              rw [ih s' (List.drop (decodeRune (b :: t')).2 (b :: t')) rs (os + 1) rt (ot + (decodeRune (b :: t')).2) _ (by simp at hk ⊢; omega) (by simp at hsl ⊢; omega) (by simp at htl ⊢; omega) (by simp [hsz]) (by simp [hsz]) (by simp [hsz]) _ (by omega)]
            · have e2' : ¬ ((Fs : Int) = (Sb : Int)) := by omega
              have e2s : ¬ (Sb = Fs) := fun x => e2 x.symm
              obtain ⟨m, rfl⟩ : ∃ m, fuel = m + 59 := ⟨fuel - 59, by omega⟩
              have hw1' : wrap .i64 (Fs : Int) = (Fs : Int) := Str.wrap_i64_small _ (by omega) (by omega)
              have hw2' : wrap .i64 (Sb : Int) = (Sb : Int) := Str.wrap_i64_small _ (by omega) (by omega)
              have hw3' : wrap .i64 ((Fs : Int) - (Sb : Int)) = (Fs : Int) - (Sb : Int) := Str.wrap_i64_small _ (by omega) (by omega)
              cmpb_run [Str.nb_clamp_byt, hfc, clamp_run p, hsz, h36, h37, hl1, hl2, hl3, hl4, hka, hkb, hka', hkb', ha1, hwa, hSa, hb1, hqb3, htkb, htub, hcbb, hSb, e1, e1s, e1', htus, hcbs, hFs, e2, e2s, e2', hw1', hw2', hw3']
        · -- a multi-byte, b ASCII
          simp only [ha, hb, if_true, if_false]
          have ha1 : ¬ ((a.toNat : Int) < 128) := by intro x; apply ha; show a.toNat < 128; omega
          have hra := Str.decodeRune_rune_lt (a :: s')
          have hqa1 : 1 ≤ (decodeRune (a :: s')).2 := decodeRune_width_pos _ _
          have hqa2 : (decodeRune (a :: s')).2 ≤ s'.length + 1 := by have := decodeRune_width_le (a :: s'); simpa using this
          have hqa3 : ((decodeRune (a :: s')).2 : Int) ≤ (s'.length : Int) + 1 := by omega
          have htka : List.take (s'.length + 1 - (decodeRune (a :: s')).2) (List.drop (decodeRune (a :: s')).2 (a :: s')) = List.drop (decodeRune (a :: s')).2 (a :: s') :=
            List.take_of_length_le (by simp)
          have htua := Str.toU32_nat _ hra
          have hcba := Str.caseFold_builtin _ hra
          have hsra := Str.caseFold_lt _ hra
          rw [htua] at hcba
          generalize hSa : Fold.caseFold (decodeRune (a :: s')).1 = Sa at hcba hsra ⊢
          have hb1 : (b.toNat : Int) < 128 := by have : b.toNat < 128 := hb; omega
          have hwb : wrap .i32 ((lower b).toNat : Int) = ((lower b).toNat : Int) := Str.wrap_i32_small _ (by have := (lower b).toNat_lt; omega) (by have := (lower b).toNat_lt; omega)
          have hsrb : (lower b).toNat < 0x200000 := by have := (lower b).toNat_lt; omega
          generalize hSb : (lower b).toNat = Sb at hwb hsrb ⊢
          have htus := Str.toU32_nat _ hsra
          have hcbs := Str.caseFold_builtin _ hsra
          have hcls := Str.caseFold_lt _ hsra
          rw [htus] at hcbs
          generalize hFs : Fold.caseFold Sa = Fs at hcbs hcls ⊢
          by_cases e1 : Sa = Sb
          · obtain ⟨m, rfl⟩ : ∃ m, fuel = m + 29 := ⟨fuel - 29, by omega⟩
            subst e1
            cmpb_run [Str.nb_clamp_byt, hfc, clamp_run p, hsz, h36, h37, hl1, hl2, hl3, hl4, hka, hkb, hka', hkb', ha1, hqa3, htka, htua, hcba, hSa, hb1, hwb, hSb]
            rw [ih (List.drop (decodeRune (a :: s')).2 (a :: s')) t' rs (os + (decodeRune (a :: s')).2) rt (ot + 1) _ (by simp at hk ⊢; omega) (by simp at hsl ⊢; omega) (by simp at htl ⊢; omega) (by simp [hsz]) (by simp [hsz]) (by simp [hsz]) _ (by omega)]
          · have e1' : ¬ ((Sa : Int) = (Sb : Int)) := by omega
            have e1s : ¬ (Sb = Sa) := fun x => e1 x.symm
            by_cases e2 : Fs = Sb
            · obtain ⟨m, rfl⟩ : ∃ m, fuel = m + 32 := ⟨fuel - 32, by omega⟩
              subst e2
              cmpb_run [Str.nb_clamp_byt, hfc, clamp_run p, hsz, h36, h37, hl1, hl2, hl3, hl4, hka, hkb, hka', hkb', ha1, hqa3, htka, htua, hcba, hSa, hb1, hwb, hSb, e1, e1s, e1', htus, hcbs, hFs]
              rw [ih (List.drop (decodeRune (a :: s')).2 (a :: s')) t' rs (os + (decodeRune (a :: s')).2) rt (ot + 1) _ (by simp at hk ⊢; omega) (by simp at hsl ⊢; omega) (by simp at htl ⊢; omega) (by simp [hsz]) (by simp [hsz]) (by simp [hsz]) _ (by omega)]
            · have e2' : ¬ ((Fs : Int) = (Sb : Int)) := by omega
              have e2s : ¬ (Sb = Fs) := fun x => e2 x.symm
              obtain ⟨m, rfl⟩ : ∃ m, fuel = m + 59 := ⟨fuel - 59, by omega⟩
              have hw1' : wrap .i64 (Fs : Int) = (Fs : Int) := Str.wrap_i64_small _ (by omega) (by omega)
              have hw2' : wrap .i64 (Sb : Int) = (Sb : Int) := Str.wrap_i64_small _ (by omega) (by omega)
              have hw3' : wrap .i64 ((Fs : Int) - (Sb : Int)) = (Fs : Int) - (Sb : Int) := Str.wrap_i64_small _ (by omega) (by omega)
              cmpb_run [Str.nb_clamp_byt, hfc, clamp_run p, hsz, h36, h37, hl1, hl2, hl3, hl4, hka, hkb, hka', hkb', ha1, hqa3, htka, htua, hcba, hSa, hb1, hwb, hSb, e1, e1s, e1', htus, hcbs, hFs, e2, e2s, e2', hw1', hw2', hw3']
        · -- a multi-byte, b multi-byte
          simp only [ha, hb, if_true, if_false]
          have ha1 : ¬ ((a.toNat : Int) < 128) := by intro x; apply ha; show a.toNat < 128; omega
          have hra := Str.decodeRune_rune_lt (a :: s')
          have hqa1 : 1 ≤ (decodeRune (a :: s')).2 := decodeRune_width_pos _ _
          have hqa2 : (decodeRune (a :: s')).2 ≤ s'.length + 1 := by have := decodeRune_width_le (a :: s'); simpa using this
          have hqa3 : ((decodeRune (a :: s')).2 : Int) ≤ (s'.length : Int) + 1 := by omega
          have htka : List.take (s'.length + 1 - (decodeRune (a :: s')).2) (List.drop (decodeRune (a :: s')).2 (a :: s')) = List.drop (decodeRune (a :: s')).2 (a :: s') :=
            List.take_of_length_le (by simp)
          have htua := Str.toU32_nat _ hra
          have hcba := Str.caseFold_builtin _ hra
          have hsra := Str.caseFold_lt _ hra
          rw [htua] at hcba
          generalize hSa : Fold.caseFold (decodeRune (a :: s')).1 = Sa at hcba hsra ⊢
          have hb1 : ¬ ((b.toNat : Int) < 128) := by intro x; apply hb; show b.toNat < 128; omega
          have hrb := Str.decodeRune_rune_lt (b :: t')
          have hqb1 : 1 ≤ (decodeRune (b :: t')).2 := decodeRune_width_pos _ _
          have hqb2 : (decodeRune (b :: t')).2 ≤ t'.length + 1 := by have := decodeRune_width_le (b :: t'); simpa using this
          have hqb3 : ((decodeRune (b :: t')).2 : Int) ≤ (t'.length : Int) + 1 := by omega
          have htkb : List.take (t'.length + 1 - (decodeRune (b :: t')).2) (List.drop (decodeRune (b :: t')).2 (b :: t')) = List.drop (decodeRune (b :: t')).2 (b :: t') :=
            List.take_of_length_le (by simp)
          have htub := Str.toU32_nat _ hrb
          have hcbb := Str.caseFold_builtin _ hrb
          have hsrb := Str.caseFold_lt _ hrb
          rw [htub] at hcbb
          generalize hSb : Fold.caseFold (decodeRune (b :: t')).1 = Sb at hcbb hsrb ⊢
          have htus := Str.toU32_nat _ hsra
          have hcbs := Str.caseFold_builtin _ hsra
          have hcls := Str.caseFold_lt _ hsra
          rw [htus] at hcbs
          generalize hFs : Fold.caseFold Sa = Fs at hcbs hcls ⊢
          by_cases e1 : Sa = Sb
          · obtain ⟨m, rfl⟩ : ∃ m, fuel = m + 28 := ⟨fuel - 28, by omega⟩
            subst e1
            cmpb_run [Str.nb_clamp_byt, hfc, clamp_run p, hsz, h36, h37, hl1, hl2, hl3, hl4, hka, hkb, hka', hkb', ha1, hqa3, htka, htua, hcba, hSa, hb1, hqb3, htkb, htub, hcbb, hSb]
            rw [ih (List.drop (decodeRune (a :: s')).2 (a :: s')) (List.drop (decodeRune (b :: t')).2 (b :: t')) rs (os + (decodeRune (a :: s')).2) rt (ot + (decodeRune (b :: t')).2) _ (by simp at hk ⊢; omega) (by simp at hsl ⊢; omega) (by simp at htl ⊢; omega) (by simp [hsz]) (by simp [hsz]) (by simp [hsz]) _ (by omega)]
          · have e1' : ¬ ((Sa : Int) = (Sb : Int)) := by omega
            have e1s : ¬ (Sb = Sa) := fun x => e1 x.symm
            by_cases e2 : Fs = Sb
            · obtain ⟨m, rfl⟩ : ∃ m, fuel = m + 31 := ⟨fuel - 31, by omega⟩
              subst e2
              cmpb_run [Str.nb_clamp_byt, hfc, clamp_run p, hsz, h36, h37, hl1, hl2, hl3, hl4, hka, hkb, hka', hkb', ha1, hqa3, htka, htua, hcba, hSa, hb1, hqb3, htkb, htub, hcbb, hSb, e1, e1s, e1', htus, hcbs, hFs]
              rw [ih (List.drop (decodeRune (a :: s')).2 (a :: s')) (List.drop (decodeRune (b :: t')).2 (b :: t')) rs (os + (decodeRune (a :: s')).2) rt (ot + (decodeRune (b :: t')).2) _ (by simp at hk ⊢; omega) (by simp at hsl ⊢; omega) (by simp at htl ⊢; omega) (by simp [hsz]) (by simp [hsz]) (by simp [hsz]) _ (by omega)]
            · have e2' : ¬ ((Fs : Int) = (Sb : Int)) := by omega
              have e2s : ¬ (Sb = Fs) := fun x => e2 x.symm
              obtain ⟨m, rfl⟩ : ∃ m, fuel = m + 59 := ⟨fuel - 59, by omega⟩
              have hw1' : wrap .i64 (Fs : Int) = (Fs : Int) := Str.wrap_i64_small _ (by omega) (by omega)
              have hw2' : wrap .i64 (Sb : Int) = (Sb : Int) := Str.wrap_i64_small _ (by omega) (by omega)
              have hw3' : wrap .i64 ((Fs : Int) - (Sb : Int)) = (Fs : Int) - (Sb : Int) := Str.wrap_i64_small _ (by omega) (by omega)
              cmpb_run [Str.nb_clamp_byt, hfc, clamp_run p, hsz, h36, h37, hl1, hl2, hl3, hl4, hka, hkb, hka', hkb', ha1, hqa3, htka, htua, hcba, hSa, hb1, hqb3, htkb, htub, hcbb, hSb, e1, e1s, e1', htus, hcbs, hFs, e2, e2s, e2', hw1', hw2', hw3']

end
end GoSsa.Byt
