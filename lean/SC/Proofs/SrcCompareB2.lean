import SC.Proofs.SrcCompareB
/-!
`bytcase.Compare` on the regenerated program text, part 2: the byte loop (the shape of strcase's, with `[]byte` indexing through
`indexAddr`/`load`), its hand-over to the rune loop, and the whole function.
-/
open GoSsa Gen.Src Utf8
namespace GoSsa.Byt

section
variable (p : Prog) (hfc : p.find? (fun fn => fn.name == "clamp") = some byt_clamp)

macro "cmplb_run" "[" ds:Lean.Parser.Tactic.simpLemma,* "]" : tactic =>
  `(tactic| src_run [byt_Compare, byt_Compare_b0, byt_Compare_b1, byt_Compare_b2, byt_Compare_b3, byt_Compare_b4, byt_Compare_b5, byt_Compare_b6, byt_Compare_b7, byt_Compare_b8, byt_Compare_b9, byt_Compare_b10, byt_Compare_b11, byt_Compare_b12, byt_Compare_b13, byt_Compare_b14, byt_Compare_b15, byt_Compare_b16, byt_Compare_b17, byt_Compare_b18, byt_Compare_b19, byt_Compare_b20, byt_Compare_b21, byt_Compare_b22, byt_Compare_b23, byt_Compare_b24, byt_Compare_b25, byt_Compare_b26, $ds,*])

include hfc in
set_option maxHeartbeats 4000000 in
theorem cmp_loopB (s t : Bytes) (r0 o0 r1 o1 : Nat) (h : Heap) (hls : s.length < 4611686018427387904) (hlt : t.length < 4611686018427387904) :
    ∀ (d i : Nat) (env : Array (List Val)), s.length - i = d → i ≤ s.length → i ≤ t.length → env.size = 80 →
      (env.getD 0 [] = [.str s r0 o0]) → (env.getD 1 [] = [.str t r1 o1]) → (env.getD 13 [] = [.int i]) →
      ∀ fuel, 30 * d + 60 * s.length + 160 ≤ fuel →
        run p true fuel ⟨byt_Compare, env, 3, [.len 14 (.r 0), .bin 15 .lt .i64 (.r 13) (.r 14)], .cond (.r 15) 4 2⟩ h
        = .ok [.int (A.cmpAsciiB Fold.caseFold (s.drop i) (t.drop i))] h := by
  intro d
  induction d with
  | zero =>
    intro i env hd hi hit hsz h0 h1 h11 fuel hf
    simp [hsz] at h0 h1 h11
    have hi' : i = s.length := by omega
    subst hi'
    obtain ⟨m, rfl⟩ : ∃ m, fuel = m + 40 := ⟨fuel - 40, by omega⟩
    have hw : wrap .i64 ((s.length : Int) - (t.length : Int)) = (s.length : Int) - (t.length : Int) := Str.wrap_i64_small _ (by omega) (by omega)
    have hA : A.cmpAsciiB Fold.caseFold [] (t.drop s.length) = Utf8.clamp ((s.length : Int) - (t.length : Int)) := by
      cases hdt : t.drop s.length with
      | nil =>
        have : t.length ≤ s.length := by
          have := congrArg List.length hdt; simp at this; omega
        simp [A.cmpAsciiB]; congr 1; omega
      | cons b t' =>
        have : (t.drop s.length).length = t'.length + 1 := by rw [hdt]; rfl
        simp at this
        simp [A.cmpAsciiB]; congr 1; omega
    src_run [byt_Compare, byt_Compare_b2, hsz, h0, h1, h11, hw, run_call_fn (hb := Str.nb_clamp_byt) (hf := hfc), clamp_run p, hA]
  | succ d ih =>
    intro i env hd hi hit hsz h0 h1 h11 fuel hf
    simp [hsz] at h0 h1 h11
    have hlt1 : i < s.length := by omega
    have hlt1' : (i : Int) < s.length := by omega
    have hds : s.drop i = s[i] :: s.drop (i + 1) := List.drop_eq_getElem_cons hlt1
    simp only [byt_Compare, byt_Compare_b0, byt_Compare_b1, byt_Compare_b2, byt_Compare_b3, byt_Compare_b4, byt_Compare_b5, byt_Compare_b6, byt_Compare_b7, byt_Compare_b8, byt_Compare_b9, byt_Compare_b10, byt_Compare_b11, byt_Compare_b12, byt_Compare_b13, byt_Compare_b14, byt_Compare_b15, byt_Compare_b16, byt_Compare_b17, byt_Compare_b18, byt_Compare_b19, byt_Compare_b20, byt_Compare_b21, byt_Compare_b22, byt_Compare_b23, byt_Compare_b24, byt_Compare_b25, byt_Compare_b26] at ih
    by_cases hit2 : i < t.length
    · have hit2' : (i : Int) < t.length := by omega
      have hdt : t.drop i = t[i] :: t.drop (i + 1) := List.drop_eq_getElem_cons hit2
      have hw : wrap .i64 ((i : Int) + 1) = (i : Int) + 1 := Str.wrap_i64_small _ (by omega) (by omega)
      by_cases hna : (s[i] ||| t[i]) &&& 0x80 = 0
      · have hasc : wrap .u8 ((toU .u8 (wrap .u8 ((toU .u8 (s[i].toNat : Int) ||| toU .u8 (t[i].toNat : Int) : Nat) : Int)) &&& toU .u8 128 : Nat) : Int) = 0 ∧
            (s[i] ||| t[i]) &&& 0x80 = 0 := ⟨(Str.orand_bridge _ _).mpr hna, hna⟩
        rw [hds, hdt]
        simp only [A.cmpAsciiB, hasc.2, ne_eq, not_true_eq_false, if_false]
        by_cases hab : s[i] = t[i]
        · obtain ⟨m, rfl⟩ : ∃ m, fuel = m + 18 := ⟨fuel - 18, by omega⟩
          have hab' := (Str.toNat_int_inj s[i] t[i]).mpr hab
          have hz := hasc.1
          rw [hab] at hz
          simp only [Nat.or_self] at hz
          cmplb_run [hsz, h0, h1, h11, hlt1, hlt1', hit2, hit2', hw, hz, hab']
          rw [ih (i + 1) _ (by omega) (by omega) (by omega) (by simp [hsz]) (by simp [hsz, h0]) (by simp [hsz, h1]) (by simp [hsz, hw]) _ (by omega)]
          simp [hab]
        · have hab' : ¬ ((s[i].toNat : Int) = t[i].toNat) := fun e => hab ((Str.toNat_int_inj _ _).mp e)
          by_cases hlo : lower s[i] = lower t[i]
          · obtain ⟨m, rfl⟩ : ∃ m, fuel = m + 24 := ⟨fuel - 24, by omega⟩
            have hlo' := (Str.toNat_int_inj (lower s[i]) (lower t[i])).mpr hlo
            have hk1 : s[i].toNat < 256 := s[i].toNat_lt
            have hk2 : t[i].toNat < 256 := t[i].toNat_lt
            have hk1' : (s[i].toNat : Int) < 256 := by omega
            have hk2' : (t[i].toNat : Int) < 256 := by omega
            cmplb_run [hsz, h0, h1, h11, hlt1, hlt1', hit2, hit2', hw, hasc.1, hab, hab', globalArr, lowerLoad, lowerLen, hk1, hk2, hk1', hk2', hlo']
            rw [ih (i + 1) _ (by omega) (by omega) (by omega) (by simp [hsz]) (by simp [hsz, h0]) (by simp [hsz, h1]) (by simp [hsz, hw]) _ (by omega)]
            simp [hab, hlo]
          · have hlo' : ¬ (((lower s[i]).toNat : Int) = (lower t[i]).toNat) := fun e => hlo ((Str.toNat_int_inj _ _).mp e)
            have hk1 : s[i].toNat < 256 := s[i].toNat_lt
            have hk2 : t[i].toNat < 256 := t[i].toNat_lt
            have hk1' : (s[i].toNat : Int) < 256 := by omega
            have hk2' : (t[i].toNat : Int) < 256 := by omega
            obtain ⟨m, rfl⟩ : ∃ m, fuel = m + 30 := ⟨fuel - 30, by omega⟩
            by_cases hl : lower s[i] < lower t[i]
            · have hl' := (Str.toNat_int_lt _ _).mpr hl
              cmplb_run [hsz, h0, h1, h11, hlt1, hlt1', hit2, hit2', hw, hasc.1, hab, hab', globalArr, lowerLoad, lowerLen, hk1, hk2, hk1', hk2', hlo, hlo', hl, hl']
            · have hl' : ¬ (((lower s[i]).toNat : Int) < (lower t[i]).toNat) := fun e => hl ((Str.toNat_int_lt _ _).mp e)
              cmplb_run [hsz, h0, h1, h11, hlt1, hlt1', hit2, hit2', hw, hasc.1, hab, hab', globalArr, lowerLoad, lowerLen, hk1, hk2, hk1', hk2', hlo, hlo', hl, hl']
      · -- a non-ASCII byte: the rune loop on `s[i:]`, `t[i:]`
        have hg : ¬ (wrap .u8 ((toU .u8 (wrap .u8 ((toU .u8 (s[i].toNat : Int) ||| toU .u8 (t[i].toNat : Int) : Nat) : Int)) &&& toU .u8 128 : Nat) : Int) = 0) :=
          fun x => hna ((Str.orand_bridge _ _).mp x)
        have hA : A.cmpAsciiB Fold.caseFold (s.drop i) (t.drop i) = A.cmpRunesB Fold.caseFold (s.drop i).length (s.drop i) (t.drop i) := by
          rw [hds, hdt]
          simp only [A.cmpAsciiB, ne_eq, hna, not_false_eq_true, if_true, List.length_cons]
        rw [hA]
        obtain ⟨m, rfl⟩ : ∃ m, fuel = m + 17 := ⟨fuel - 17, by omega⟩
        have hr := cmp_runesB p hfc h (s.drop i).length (s.drop i) (t.drop i) r0 (o0 + i) r1 (o1 + i)
        simp only [byt_Compare, byt_Compare_b0, byt_Compare_b1, byt_Compare_b2, byt_Compare_b3, byt_Compare_b4, byt_Compare_b5, byt_Compare_b6, byt_Compare_b7, byt_Compare_b8, byt_Compare_b9, byt_Compare_b10, byt_Compare_b11, byt_Compare_b12, byt_Compare_b13, byt_Compare_b14, byt_Compare_b15, byt_Compare_b16, byt_Compare_b17, byt_Compare_b18, byt_Compare_b19, byt_Compare_b20, byt_Compare_b21, byt_Compare_b22, byt_Compare_b23, byt_Compare_b24, byt_Compare_b25, byt_Compare_b26, List.drop_zero] at hr
        have htk1 : List.take (s.length - i) (List.drop i s) = List.drop i s := List.take_of_length_le (by simp)
        have htk2 : List.take (t.length - i) (List.drop i t) = List.drop i t := List.take_of_length_le (by simp)
        have hi0 : (0 : Int) ≤ i := by omega
        have hile : (i : Int) ≤ s.length := by omega
        have hile2 : (i : Int) ≤ t.length := by omega
        cmplb_run [hsz, h0, h1, h11, hlt1, hlt1', hit2, hit2', hg, intOf, htk1, htk2, hi0, hile, hile2]
        rw [hr _ (by simp) (by simp; omega) (by simp; omega) (by simp [hsz]) (by simp [hsz]) (by simp [hsz]) _ (by simp; omega)]
        simp
    · -- `t` is exhausted first
      have hit3 : t.length = i := by omega
      have hit2' : ¬ ((i : Int) < t.length) := by omega
      have hdt : t.drop i = [] := List.drop_eq_nil_of_le (by omega)
      have hw : wrap .i64 ((s.length : Int) - (t.length : Int)) = (s.length : Int) - (t.length : Int) := Str.wrap_i64_small _ (by omega) (by omega)
      obtain ⟨m, rfl⟩ : ∃ m, fuel = m + 30 := ⟨fuel - 30, by omega⟩
      rw [hdt]
      have hA : A.cmpAsciiB Fold.caseFold (s.drop i) [] = Utf8.clamp ((s.length : Int) - (t.length : Int)) := by
        rw [hds]; simp [A.cmpAsciiB]; congr 1; omega
      src_run [byt_Compare, byt_Compare_b2, byt_Compare_b4, hsz, h0, h1, h11, hlt1, hlt1', hit2, hit2', hw, run_call_fn (hb := Str.nb_clamp_byt) (hf := hfc), clamp_run p, hA]

include hfc in
/-- `bytcase.Compare`: the regenerated program text returns the algorithm model's value, for all byte strings shorter than 2^62 bytes -/
theorem Compare (s t : Bytes) (r0 o0 r1 o1 : Nat) (h : Heap) (hls : s.length < 4611686018427387904) (hlt : t.length < 4611686018427387904) :
    Ret p true byt_Compare [.str s r0 o0, .str t r1 o1] h [.int (A.Compare (cfg true) s t)] h := by
  refine ⟨90 * s.length + 161, fun fuel hf => ?_⟩
  obtain ⟨m, rfl⟩ : ∃ m, fuel = (90 * s.length + 160 + m) + 1 := ⟨fuel - (90 * s.length + 161), by omega⟩
  rw [Frame.entry]
  have hl := cmp_loopB p hfc s t r0 o0 r1 o1 h hls hlt s.length 0
  simp only [byt_Compare, byt_Compare_b0, byt_Compare_b1, byt_Compare_b2, byt_Compare_b3, byt_Compare_b4, byt_Compare_b5, byt_Compare_b6, byt_Compare_b7, byt_Compare_b8, byt_Compare_b9, byt_Compare_b10, byt_Compare_b11, byt_Compare_b12, byt_Compare_b13, byt_Compare_b14, byt_Compare_b15, byt_Compare_b16, byt_Compare_b17, byt_Compare_b18, byt_Compare_b19, byt_Compare_b20, byt_Compare_b21, byt_Compare_b22, byt_Compare_b23, byt_Compare_b24, byt_Compare_b25, byt_Compare_b26] at hl
  cmplb_run []
  rw [hl _ (by omega) (by omega) (by omega) (by simp) (by simp) (by simp) (by simp) _ (by omega)]
  rfl


end
end GoSsa.Byt
