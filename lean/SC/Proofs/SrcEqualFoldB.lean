import SC.Proofs.SrcNamesB
/-!
`EqualFold` of the regenerated `bytcase/bytcase.go`, relative to `Compare` (see `SrcEqualFold.lean`).
-/
namespace GoSsa.Byt
open GoSsa Gen.Src

/-- `EqualFold(s, t) = Compare(s, t) == 0` -/
theorem EqualFold_of_Compare (s t : Val) (h h' : Heap) (c : Int) (hC : Ret P true byt_Compare [s, t] h [.int c] h') :
    Ret P true byt_EqualFold [s, t] h [.bool (decide (c = 0))] h' := by
  obtain ⟨n, hn⟩ := hC
  refine ⟨n + 3, fun fuel hf => ?_⟩
  obtain ⟨m, rfl⟩ : ∃ m, fuel = m + 3 := ⟨fuel - 3, by omega⟩
  have hC' := hn (m + 2) (by omega)
  rw [Frame.entry]
  src_run [byt_EqualFold, byt_EqualFold_b0, run_call_fn (hb := nb_Compare) (hf := find_Compare), hC']


end GoSsa.Byt
