import SC.Proofs.Utf8Last
namespace Utf8

theorem isBoundary_zero (s : Bytes) : IsBoundary s 0 := ⟨0, Nat.zero_le _, offAt_zero s⟩

theorem isBoundary_le (s : Bytes) (i : Nat) (h : IsBoundary s i) : i ≤ s.length := by
  obtain ⟨k, _, hk⟩ := h; rw [← hk]; exact offAt_le s k

/-- index of a boundary below the end is a proper segment index -/
theorem boundary_index_lt (s : Bytes) (k : Nat) (hk : k ≤ (dec s).length) (h : offAt s k < s.length) :
    k < (dec s).length := by
  rcases Nat.lt_or_ge k (dec s).length with h' | h'
  · exact h'
  · have : k = (dec s).length := by omega
    rw [this, offAt_length] at h; omega

/-- the segment starting at the k-th boundary is the decode of the suffix there -/
theorem seg_at (s : Bytes) (k : Nat) (hk : k < (dec s).length) :
    (dec s)[k] = decodeRune (s.drop (offAt s k)) := by
  have h := dec_drop_offAt s k
  rw [List.drop_eq_getElem_cons hk] at h
  cases hx : s.drop (offAt s k) with
  | nil => rw [hx, dec_nil] at h; cases h
  | cons c rest => rw [hx, dec_cons] at h; exact (List.cons.inj h).1.symm

/-- b2: the next boundary -/
theorem isBoundary_next (s : Bytes) (i : Nat) (h : IsBoundary s i) (hi : i < s.length) :
    IsBoundary s (i + (decodeRune (s.drop i)).2) := by
  obtain ⟨k, hk1, hk2⟩ := h
  have hk : k < (dec s).length := boundary_index_lt s k hk1 (by rw [hk2]; exact hi)
  refine ⟨k + 1, by omega, ?_⟩
  rw [offAt_succ s k hk, seg_at s k hk, hk2]

theorem offAt_strict (s : Bytes) : ∀ d k, k + (d + 1) ≤ (dec s).length → offAt s k < offAt s (k + (d + 1)) := by
  intro d k h
  have h1 := offAt_lt_succ s k (by omega)
  have h2 := offAt_mono s d (k + 1) (by omega)
  have : k + (d + 1) = k + 1 + d := by omega
  rw [this]; omega

/-- b5: no boundary strictly inside a segment -/
theorem no_boundary_inside (s : Bytes) (i j : Nat) (h : IsBoundary s i) (hi : i < s.length)
    (h1 : i < j) (h2 : j < i + (decodeRune (s.drop i)).2) : ¬ IsBoundary s j := by
  intro hj
  obtain ⟨k, hk1, hk2⟩ := h
  obtain ⟨k', hk1', hk2'⟩ := hj
  have hk : k < (dec s).length := boundary_index_lt s k hk1 (by rw [hk2]; exact hi)
  have hnext : offAt s (k + 1) = i + (decodeRune (s.drop i)).2 := by
    rw [offAt_succ s k hk, seg_at s k hk, hk2]
  rcases Nat.lt_trichotomy k' k with hlt | heq | hgt
  · have := offAt_mono s (k - k') k' (by omega)
    have e : k' + (k - k') = k := by omega
    rw [e] at this; omega
  · subst heq; omega
  · have := offAt_mono s (k' - (k + 1)) (k + 1) (by omega)
    have e : k + 1 + (k' - (k + 1)) = k' := by omega
    rw [e] at this; omega

/-- offsets of the suffix at a boundary -/
theorem offAt_drop (s : Bytes) (k j : Nat) (hkj : k + j ≤ (dec s).length) :
    offAt (s.drop (offAt s k)) j = offAt s (k + j) - offAt s k := by
  induction j with
  | zero => simp [offAt_zero]
  | succ j ih =>
    have hd := dec_drop_offAt s k
    have hj : j < (dec (s.drop (offAt s k))).length := by rw [hd]; simp; omega
    rw [offAt_succ _ j hj, ih (by omega)]
    have hseg : (dec (s.drop (offAt s k)))[j] = (dec s)[k + j]'(by omega) := by
      simp [hd]
    rw [hseg, ← Nat.add_assoc, offAt_succ s (k + j) (by omega)]
    have := offAt_mono s j k (by omega)
    omega

/-- b3 -/
theorem isBoundary_drop_add (s : Bytes) (i j : Nat) (hi : IsBoundary s i) (hj : IsBoundary (s.drop i) j) :
    IsBoundary s (i + j) := by
  obtain ⟨k, hk1, hk2⟩ := hi
  obtain ⟨k', hk1', hk2'⟩ := hj
  subst hk2
  rw [dec_drop_offAt, List.length_drop] at hk1'
  refine ⟨k + k', by omega, ?_⟩
  rw [offAt_drop s k k' (by omega)] at hk2'
  have := offAt_mono s k' k (by omega)
  omega

/-- b4 -/
theorem isBoundary_drop_sub (s : Bytes) (i j : Nat) (hi : IsBoundary s i) (hj : IsBoundary s j) (hij : i ≤ j) :
    IsBoundary (s.drop i) (j - i) := by
  obtain ⟨k, hk1, hk2⟩ := hi
  obtain ⟨k', hk1', hk2'⟩ := hj
  subst hk2; subst hk2'
  have hkk : k ≤ k' := by
    rcases Nat.lt_or_ge k' k with h | h
    · have := offAt_strict s (k - k' - 1) k' (by omega)
      have e : k' + (k - k' - 1 + 1) = k := by omega
      rw [e] at this; omega
    · exact h
  refine ⟨k' - k, ?_, ?_⟩
  · rw [dec_drop_offAt, List.length_drop]; omega
  · rw [offAt_drop s k (k' - k) (by omega)]
    have : k + (k' - k) = k' := by omega
    rw [this]
end Utf8
