import SC.Proofs.StdWalk
import SC.Proofs.Skel
/-!
C02: the transliteration of `strings.EqualFold` / `bytes.EqualFold` equals the specification
`S.equalFold` (equality of the folded rune sequences) on every pair of byte strings.
-/
namespace Std
open Utf8 Fold

theorem fruns_cons (b : UInt8) (x : Bytes) :
    S.fruns (b :: x) = caseFold (decodeRune (b :: x)).1 :: S.fruns ((b :: x).drop (decodeRune (b :: x)).2) := by
  unfold S.fruns; rw [fdec_cons']; rfl

theorem fruns_nil : S.fruns [] = [] := by simp [S.fruns, fdec, dec_nil]

theorem equalFold_nil_left (t : Bytes) : S.equalFold [] t = (t.length == 0) := by
  unfold S.equalFold
  cases t with
  | nil => rw [fruns_nil]; rfl
  | cons c t => rw [fruns_nil, fruns_cons]; rfl

theorem equalFold_nil_right (a : UInt8) (s : Bytes) : S.equalFold (a :: s) [] = false := by
  unfold S.equalFold; rw [fruns_nil, fruns_cons]; rfl

theorem equalFold_cons (a c : UInt8) (s t : Bytes) :
    S.equalFold (a :: s) (c :: t) =
      ((caseFold (decodeRune (a :: s)).1 == caseFold (decodeRune (c :: t)).1) &&
        S.equalFold ((a :: s).drop (decodeRune (a :: s)).2) ((c :: t).drop (decodeRune (c :: t)).2)) := by
  unfold S.equalFold
  rw [fruns_cons a s, fruns_cons c t, List.cons_beq_cons]

theorem runeLoopS_spec : ∀ (f : Nat) (s t : Bytes), s.length < f → runeLoopS f s t = some (S.equalFold s t) := by
  intro f
  induction f with
  | zero => intro s t h; omega
  | succ f ih =>
    intro s t hf
    cases s with
    | nil => simp only [runeLoopS]; rw [equalFold_nil_left]
    | cons a s =>
      cases t with
      | nil => simp only [runeLoopS]; rw [equalFold_nil_right]
      | cons c t =>
        simp only [runeLoopS]
        rw [runeEq_spec, equalFold_cons]
        have hw := decodeRune_width_pos a s
        cases hq : (caseFold (decodeRune (a :: s)).1 == caseFold (decodeRune (c :: t)).1) with
        | false => rfl
        | true =>
          simp only [Bool.true_and]
          exact ih _ _ (by simp only [List.length_drop, List.length_cons] at hf ⊢; omega)

theorem runeLoopB_spec : ∀ (f : Nat) (s t : Bytes), s.length < f → runeLoopB f s t = some (S.equalFold s t) := by
  intro f
  induction f with
  | zero => intro s t h; omega
  | succ f ih =>
    intro s t hf
    cases s with
    | nil =>
      have : runeLoopB (f + 1) [] t = some (([] : Bytes).length == t.length) := by cases t <;> rfl
      rw [this, equalFold_nil_left]
      cases t <;> rfl
    | cons a s =>
      cases t with
      | nil =>
        have : runeLoopB (f + 1) (a :: s) [] = some ((a :: s).length == ([] : Bytes).length) := rfl
        rw [this, equalFold_nil_right]; rfl
      | cons c t =>
        simp only [runeLoopB]
        rw [runeEq_spec, equalFold_cons]
        have hw := decodeRune_width_pos a s
        cases hq : (caseFold (decodeRune (a :: s)).1 == caseFold (decodeRune (c :: t)).1) with
        | false => rfl
        | true =>
          simp only [Bool.true_and]
          exact ih _ _ (by simp only [List.length_drop, List.length_cons] at hf ⊢; omega)

/-- the byte-level ASCII comparison of the fast path -/
theorem ascii_pairs_bytes : ∀ a b : Fin 128, a ≠ b →
    (caseFold a.val == caseFold b.val) =
      decide (0x41 ≤ (if UInt8.ofNat b.val < UInt8.ofNat a.val then UInt8.ofNat b.val else UInt8.ofNat a.val) ∧
        (if UInt8.ofNat b.val < UInt8.ofNat a.val then UInt8.ofNat b.val else UInt8.ofNat a.val) ≤ 0x5A ∧
        (if UInt8.ofNat b.val < UInt8.ofNat a.val then UInt8.ofNat a.val else UInt8.ofNat b.val) =
          (if UInt8.ofNat b.val < UInt8.ofNat a.val then UInt8.ofNat b.val else UInt8.ofNat a.val) + 0x20) := by
  decide +kernel

theorem or_lt (b c : UInt8) (h : ¬ (b ||| c) ≥ 0x80) : b < 0x80 ∧ c < 0x80 := by
  have h1 : (b ||| c).toNat < 128 := by
    have := UInt8.not_le.mp h
    have := UInt8.lt_iff_toNat_lt.mp this; simpa using this
  rw [UInt8.toNat_or] at h1
  have hb : b.toNat ≤ b.toNat ||| c.toNat := Nat.left_le_or
  have hc : c.toNat ≤ b.toNat ||| c.toNat := Nat.right_le_or
  constructor
  · rw [UInt8.lt_iff_toNat_lt]; show b.toNat < 128; omega
  · rw [UInt8.lt_iff_toNat_lt]; show c.toNat < 128; omega

theorem asciiLoop_spec (rl : Bytes → Bytes → Option Bool) (n : Nat)
    (hrl : ∀ s t : Bytes, s.length ≤ n → rl s t = some (S.equalFold s t)) :
    ∀ (s t : Bytes), s.length ≤ n → asciiLoop rl s t = some (S.equalFold s t)
  | [], t, _ => by
    have : asciiLoop rl [] t = some (([] : Bytes).length == t.length) := by cases t <;> rfl
    rw [this, equalFold_nil_left]; cases t <;> rfl
  | b :: s, [], _ => by
    have : asciiLoop rl (b :: s) [] = some ((b :: s).length == ([] : Bytes).length) := rfl
    rw [this, equalFold_nil_right]; rfl
  | b :: s, c :: t, hn => by
    simp only [asciiLoop]
    by_cases h80 : (b ||| c) ≥ 0x80
    · rw [if_pos h80]; exact hrl _ _ hn
    · rw [if_neg h80]
      obtain ⟨hb, hc⟩ := or_lt b c h80
      have hdb : decodeRune (b :: s) = (b.toNat, 1) := by simp [decodeRune, hb]
      have hdc : decodeRune (c :: t) = (c.toNat, 1) := by simp [decodeRune, hc]
      rw [equalFold_cons, hdb, hdc]
      simp only [List.drop_succ_cons, List.drop_zero]
      have ih := asciiLoop_spec rl n hrl s t (by simp only [List.length_cons] at hn; omega)
      by_cases hcb : c = b
      · rw [if_pos hcb, hcb, ih]; simp
      · rw [if_neg hcb]
        have hbn : b.toNat < 128 := by have := UInt8.lt_iff_toNat_lt.mp hb; simpa using this
        have hcn : c.toNat < 128 := by have := UInt8.lt_iff_toNat_lt.mp hc; simpa using this
        have hne : (⟨b.toNat, hbn⟩ : Fin 128) ≠ ⟨c.toNat, hcn⟩ := by
          intro h; apply hcb
          have : b.toNat = c.toNat := by simpa using h
          exact (UInt8.toNat_inj.mp this).symm
        have key := ascii_pairs_bytes ⟨b.toNat, hbn⟩ ⟨c.toNat, hcn⟩ hne
        simp only [UInt8.ofNat_toNat] at key
        rw [key]
        by_cases hcond : 0x41 ≤ (if c < b then c else b) ∧ (if c < b then c else b) ≤ 0x5A ∧
            (if c < b then b else c) = (if c < b then c else b) + 0x20
        · rw [if_pos hcond, decide_eq_true hcond, Bool.true_and]; exact ih
        · rw [if_neg hcond, decide_eq_false hcond, Bool.false_and]

/-- C02: `strings.EqualFold` (as transliterated) computes the specification, on all byte strings -/
theorem equalFoldS_eq (s t : Bytes) : equalFoldS s t = some (S.equalFold s t) :=
  asciiLoop_spec _ s.length (fun s' t' h => runeLoopS_spec _ s' t' (by omega)) s t (Nat.le_refl _)

theorem equalFoldB_eq (s t : Bytes) : equalFoldB s t = some (S.equalFold s t) :=
  asciiLoop_spec _ s.length (fun s' t' h => runeLoopB_spec _ s' t' (by omega)) s t (Nat.le_refl _)

end Std
