/-! C18, the schedule-independent part: if no step writes the shared memory, every interleaving gives
    every call the result it has when run alone.  `M` is the shared memory (all argument backing arrays
    and package tables), a call is a function of it, threads are lists of calls, a schedule is any list of
    thread ids. -/
namespace Sched
variable {M R : Type}

/-- run a schedule; `pc t` is the number of calls thread `t` has completed.  The memory is passed
    unchanged to the next step — this is exactly the extracted fact "no Store/MapUpdate/Send to shared
    state" — so it is not even part of the evolving state. -/
def run (mem : M) (prog : Nat → List (M → R)) : List Nat → (Nat → Nat) → List (Nat × Nat × R)
  | [], _ => []
  | t :: sched, pc =>
    match (prog t)[pc t]? with
    | none => run mem prog sched pc
    | some call =>
      (t, pc t, call mem) :: run mem prog sched (fun u => if u = t then pc t + 1 else pc u)

/-- every recorded result is the result of that call run alone on the same memory -/
theorem run_result (mem : M) (prog : Nat → List (M → R)) (sched : List Nat) (pc : Nat → Nat) :
    ∀ e ∈ run mem prog sched pc, ∃ call, (prog e.1)[e.2.1]? = some call ∧ e.2.2 = call mem := by
  induction sched generalizing pc with
  | nil => intro e he; simp [run] at he
  | cons t sched ih =>
    intro e he
    simp only [run] at he
    cases hc : (prog t)[pc t]? with
    | none => rw [hc] at he; exact ih pc e he
    | some call =>
      rw [hc] at he
      rcases List.mem_cons.mp he with h | h
      · subst h; exact ⟨call, hc, rfl⟩
      · exact ih _ e h

/-- two schedules record the same result for the same call: results are deterministic -/
theorem run_deterministic (mem : M) (prog : Nat → List (M → R)) (s1 s2 : List Nat) (pc1 pc2 : Nat → Nat)
    (e1 e2 : Nat × Nat × R) (h1 : e1 ∈ run mem prog s1 pc1) (h2 : e2 ∈ run mem prog s2 pc2)
    (ht : e1.1 = e2.1) (hk : e1.2.1 = e2.2.1) : e1.2.2 = e2.2.2 := by
  obtain ⟨c1, hc1, hr1⟩ := run_result mem prog s1 pc1 e1 h1
  obtain ⟨c2, hc2, hr2⟩ := run_result mem prog s2 pc2 e2 h2
  rw [ht, hk, hc2] at hc1
  cases hc1
  rw [hr1, hr2]
#print axioms run_deterministic
end Sched
