namespace Kern
abbrev Mem := Nat → UInt8

/-- least `j < w` with `p (mem (addr + j))` — what PCMPEQB/PMOVMSKB/BSF compute on one block -/
def blk (p : UInt8 → Bool) (mem : Mem) (addr : Nat) : Nat → Nat → Option Nat   -- start j, remaining
  | _, 0 => none
  | j, n+1 => if p (mem (addr + j)) then some j else blk p mem addr (j+1) n

/-- scalar definition: least `i < len` with `p (mem (base+i))`, else -1 -/
def specIndex (p : UInt8 → Bool) (mem : Mem) (base len : Nat) : Int :=
  match blk p mem base 0 len with
  | some i => i
  | none => -1

theorem blk_none {p mem addr} : ∀ {j n}, blk p mem addr j n = none → ∀ i, j ≤ i → i < j + n → p (mem (addr + i)) = false := by
  intro j n
  induction n generalizing j with
  | zero => intro _ i h1 h2; omega
  | succ n ih =>
    intro h i h1 h2
    simp only [blk] at h
    split at h
    · simp at h
    · rename_i hp
      by_cases hij : i = j
      · subst hij; simpa using hp
      · exact ih h i (by omega) (by omega)

theorem blk_some {p mem addr} : ∀ {j n k}, blk p mem addr j n = some k →
    j ≤ k ∧ k < j + n ∧ p (mem (addr + k)) = true ∧ ∀ i, j ≤ i → i < k → p (mem (addr + i)) = false := by
  intro j n
  induction n generalizing j with
  | zero => intro k h; simp [blk] at h
  | succ n ih =>
    intro k h
    simp only [blk] at h
    split at h
    · rename_i hp
      cases h
      exact ⟨Nat.le_refl _, by omega, hp, fun i h1 h2 => by omega⟩
    · rename_i hp
      obtain ⟨h1, h2, h3, h4⟩ := ih h
      refine ⟨by omega, by omega, h3, ?_⟩
      intro i hi1 hi2
      by_cases hij : i = j
      · subst hij; simpa using hp
      · exact h4 i (by omega) hi2

/-- characterisation used to conclude: a found position with nothing before it is the spec -/
theorem specIndex_eq_of_first (p : UInt8 → Bool) (mem : Mem) (base len k : Nat)
    (hk : k < len) (hp : p (mem (base + k)) = true) (hmin : ∀ i, i < k → p (mem (base + i)) = false) :
    specIndex p mem base len = k := by
  unfold specIndex
  cases h : blk p mem base 0 len with
  | none =>
    have := blk_none h k (by omega) (by omega)
    rw [hp] at this; cases this
  | some i =>
    obtain ⟨_, h2, h3, h4⟩ := blk_some h
    have : i = k := by
      rcases Nat.lt_trichotomy i k with hlt | heq | hgt
      · have := hmin i hlt; rw [h3] at this; cases this
      · exact heq
      · have := h4 k (by omega) hgt; rw [hp] at this; cases this
    simp [this]

theorem specIndex_eq_neg (p : UInt8 → Bool) (mem : Mem) (base len : Nat)
    (hno : ∀ i, i < len → p (mem (base + i)) = false) : specIndex p mem base len = -1 := by
  unfold specIndex
  cases h : blk p mem base 0 len with
  | none => rfl
  | some i =>
    obtain ⟨_, h2, h3, _⟩ := blk_some h
    have := hno i (by omega); rw [h3] at this; cases this

/-- SSE loop of indexbytebody: `di` is the offset (DI − SI) of the current block, `last = len − 16`.
    sseloopentry: CMPQ DI, AX; JB sseloop; else last block at AX. -/
def sseLoop (p : UInt8 → Bool) (mem : Mem) (base last : Nat) : Nat → Nat → Int
  | 0, _ => -2                        -- out of fuel (unreachable)
  | fuel+1, di =>
    if di < last then
      match blk p mem (base + di) 0 16 with
      | some j => (di + j : Nat)
      | none => sseLoop p mem base last fuel (di + 16)
    else
      match blk p mem (base + last) 0 16 with
      | some j => (last + j : Nat)
      | none => -1

theorem sseLoop_correct (p : UInt8 → Bool) (mem : Mem) (base len : Nat) (hlen : 16 ≤ len) :
    ∀ fuel di, di < len → len ≤ fuel * 16 + di → (∀ i, i < di → i < len → p (mem (base + i)) = false) →
      sseLoop p mem base (len - 16) fuel di = specIndex p mem base len := by
  intro fuel
  induction fuel with
  | zero => intro di h1 h2; omega
  | succ fuel ih =>
    intro di hdl hf hno
    simp only [sseLoop]
    split
    · rename_i hdi
      cases hb : blk p mem (base + di) 0 16 with
      | some j =>
        obtain ⟨_, h2, h3, h4⟩ := blk_some hb
        simp only []
        rw [specIndex_eq_of_first p mem base len (di + j) (by omega) (by rw [← Nat.add_assoc]; exact h3)]
        intro i hi
        by_cases h : i < di
        · exact hno i h (by omega)
        · have := h4 (i - di) (by omega) (by omega)
          have e : base + di + (i - di) = base + i := by omega
          rwa [e] at this
      | none =>
        simp only []
        apply ih (di + 16) (by omega) (by omega)
        intro i hi hil
        by_cases h : i < di
        · exact hno i h hil
        · have := blk_none hb (i - di) (by omega) (by omega)
          have e : base + di + (i - di) = base + i := by omega
          rwa [e] at this
    · rename_i hdi
      cases hb : blk p mem (base + (len - 16)) 0 16 with
      | some j =>
        obtain ⟨_, h2, h3, h4⟩ := blk_some hb
        simp only []
        rw [specIndex_eq_of_first p mem base len (len - 16 + j) (by omega) (by rw [← Nat.add_assoc]; exact h3)]
        intro i hi
        by_cases h : i < len - 16
        · exact hno i (by omega) (by omega)
        · have := h4 (i - (len - 16)) (by omega) (by omega)
          have e : base + (len - 16) + (i - (len - 16)) = base + i := by omega
          rwa [e] at this
      | none =>
        simp only []
        rw [specIndex_eq_neg]
        intro i hi
        by_cases h : i < len - 16
        · exact hno i (by omega) hi
        · have := blk_none hb (i - (len - 16)) (by omega) (by omega)
          have e : base + (len - 16) + (i - (len - 16)) = base + i := by omega
          rwa [e] at this
end Kern
