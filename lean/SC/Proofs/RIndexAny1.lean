import SC.Proofs.RLastIndex
/-!
IndexAny / LastIndexAny, part 1: the membership predicate, the per-haystack-rune strategy
(`IndexRune(chars, r)` for each rune of `s`), and the per-char strategy (`IndexRune(s, r)` for each rune of
`chars` on a shrinking haystack).
-/
namespace A
open Utf8 Fold

/-- "fold-equal to some code point of `cs`" -/
def anyP (cs : Bytes) (x : Nat) : Bool := (fdec caseFold cs).contains (caseFold x)

/-- `IndexRune(chars, r) ≥ 0` decides membership of `r` in the folded set of `chars` -/
theorem IndexRune_mem (cfg : Cfg) (cs : Bytes) (r : Nat) (hv : validRune r) :
    decide (IndexRune cfg cs (r : Int) ≥ 0) = anyP cs r := by
  have hvi : S.validRuneI (r : Int) = true := by
    simp only [S.validRuneI, decide_eq_true_eq]
    exact ⟨by omega, by simpa using hv⟩
  obtain ⟨w, hfb⟩ := (IndexRune_spec cfg cs (r : Int)).2 hvi
  simp only [Int.toNat_natCast] at hfb
  generalize IndexRune cfg cs (r : Int) = res at hfb ⊢
  unfold anyP
  rcases hfb with ⟨h1, hn⟩ | ⟨i, h1, hb, hl, hp, _, _⟩
  · simp only [] at h1
    rw [h1]
    symm
    have : ¬ ((-1 : Int) ≥ 0) := by omega
    simp only [this, decide_false]
    cases hq : (fdec caseFold cs).contains (caseFold r) with
    | false => rfl
    | true =>
      exfalso
      have hm := List.contains_iff_mem.mp hq
      unfold fdec at hm
      obtain ⟨p, hp, hpe⟩ := List.mem_map.mp hm
      obtain ⟨j, hbj, hjl, rfl⟩ := mem_dec_boundary cs p hp
      have := hn j hbj hjl
      simp only [beq_eq_false_iff_ne, ne_eq] at this
      exact this hpe
  · simp only [] at h1
    rw [h1]
    have : ((i : Nat) : Int) ≥ 0 := Int.natCast_nonneg _
    simp only [this, decide_true]
    symm
    apply List.contains_iff_mem.mpr
    unfold fdec
    obtain ⟨k, hk, hki⟩ := hb
    have hklt := boundary_index_lt cs k hk (by rw [hki]; exact hl)
    refine List.mem_map.mpr ⟨(dec cs)[k], List.getElem_mem hklt, ?_⟩
    rw [seg_at cs k hklt, hki]
    exact beq_iff_eq.mp hp

/-- third strategy: for each rune of `s`, `IndexRune(chars, r)` -/
theorem anyByHay_spec (cfg : Cfg) (cs : Bytes) : ∀ (fuel : Nat) (s : Bytes) (o : Nat), s.length < fuel →
    (anyByHay cfg cs fuel s o = -1 ∧ ∀ i, IsBoundary s i → i < s.length → anyP cs (decodeRune (s.drop i)).1 = false) ∨
    (∃ i, anyByHay cfg cs fuel s o = ((o + i : Nat) : Int) ∧ IsBoundary s i ∧ i < s.length ∧
        anyP cs (decodeRune (s.drop i)).1 = true ∧ ∀ j, IsBoundary s j → j < i → anyP cs (decodeRune (s.drop j)).1 = false) := by
  intro fuel
  induction fuel with
  | zero => intro s o h; omega
  | succ fuel ih =>
    intro s o hf
    cases s with
    | nil => left; exact ⟨rfl, fun i _ hi => by simp at hi⟩
    | cons b rest =>
      simp only [anyByHay]
      have hw := decodeRune_width_pos b rest
      have hwl := decodeRune_width_le (b :: rest)
      have hv := decodeRune_valid (b :: rest) (by simp)
      have hmem := IndexRune_mem cfg cs (decodeRune (b :: rest)).1 hv
      by_cases hp : IndexRune cfg cs ((decodeRune (b :: rest)).1 : Int) ≥ 0
      · rw [if_pos hp]
        right
        refine ⟨0, rfl, isBoundary_zero _, by simp, ?_, fun j _ hj => by omega⟩
        rw [List.drop_zero, ← hmem]; simpa using hp
      · rw [if_neg hp]
        have hp0 : anyP cs (decodeRune (b :: rest)).1 = false := by rw [← hmem]; simpa using hp
        have hb1 : IsBoundary (b :: rest) (decodeRune (b :: rest)).2 := by
          have := isBoundary_next (b :: rest) 0 (isBoundary_zero _) (by simp)
          simpa using this
        have hshift : ∀ j, IsBoundary (b :: rest) j → 0 < j →
            (decodeRune (b :: rest)).2 ≤ j ∧ IsBoundary ((b :: rest).drop (decodeRune (b :: rest)).2) (j - (decodeRune (b :: rest)).2) := by
          intro j hj hpos
          have hge : (decodeRune (b :: rest)).2 ≤ j := by
            rcases Nat.lt_or_ge j (decodeRune (b :: rest)).2 with h | h
            · have := no_boundary_inside (b :: rest) 0 j (isBoundary_zero _) (by simp) hpos (by simpa using h)
              exact absurd hj this
            · exact h
          exact ⟨hge, isBoundary_drop_sub _ _ _ hb1 hj hge⟩
        rcases ih ((b :: rest).drop (decodeRune (b :: rest)).2) (o + (decodeRune (b :: rest)).2)
            (by simp only [List.length_drop, List.length_cons] at hf ⊢; omega) with ⟨hr, hnone⟩ | ⟨k, hr, hbk, hkl, hpk, hmin⟩
        · left
          refine ⟨hr, ?_⟩
          intro j hj hjl
          by_cases hj0 : j = 0
          · subst hj0; simpa using hp0
          · obtain ⟨hge, hb'⟩ := hshift j hj (by omega)
            have := hnone _ hb' (by simp only [List.length_drop]; omega)
            rw [List.drop_drop] at this
            have e : (decodeRune (b :: rest)).2 + (j - (decodeRune (b :: rest)).2) = j := by omega
            rwa [e] at this
        · right
          simp only [List.length_drop] at hkl
          refine ⟨(decodeRune (b :: rest)).2 + k, ?_, isBoundary_drop_add _ _ _ hb1 hbk, by omega, ?_, ?_⟩
          · rw [hr]; exact congrArg (fun m : Nat => (m : Int)) (by omega)
          · rw [List.drop_drop] at hpk; exact hpk
          · intro j hj hjk
            by_cases hj0 : j = 0
            · subst hj0; simpa using hp0
            · obtain ⟨hge, hb'⟩ := hshift j hj (by omega)
              have := hmin _ hb' (by omega)
              rw [List.drop_drop] at this
              have e : (decodeRune (b :: rest)).2 + (j - (decodeRune (b :: rest)).2) = j := by omega
              rwa [e] at this

end A
