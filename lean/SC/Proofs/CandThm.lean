import SC.Proofs.Cand
namespace Fold

theorem keyLaw_of_mem (r : Nat) (h : r ∈ orbKeys) :
    inK (orbMin r) = true ∧ r ∈ cls (orbMin r) ∧ (∀ x ∈ cls (orbMin r), orbMin x = orbMin r) ∧
    (∀ x ∈ cls (orbMin r), cand r x = true) ∧
    (∀ c, cand r c = true → c ∈ cls (orbMin r)) := by
  have hk : keyLaw r = true := List.all_eq_true.mp keyLaw_all r h
  have hk2 : keyLawOf r (orbMin r) (cls (orbMin r)) (ulOf r) (foldsExcl r) (inK (orbMin r))
      ((cls (orbMin r)).all (fun x => orbMin x == orbMin r)) = true :=
    (forceNat_eq (orbMin r) _).symm.trans hk
  obtain ⟨h1, h2, h3, h4, h5⟩ := keyLawOf_spec _ _ _ _ _ _ _ hk2
  refine ⟨h1, h2, ?_, h4, h5⟩
  intro x hx
  have := List.all_eq_true.mp h3 x hx
  exact beq_iff_eq.mp this

theorem not_inK (r : Nat) (h : r ∉ orbKeys) : inK r = false := by
  cases hi : inK r with
  | false => rfl
  | true => exact absurd ((inK_iff r).mp hi) h

/-- outside every orbit the two table functions are trivial (up to the self-folds stored for İ and ı) -/
theorem foldsExcl_trivial (r : Nat) (h : r ∉ orbKeys) : foldsExcl r = (0, 0) ∨ foldsExcl r = (r, r) := by
  unfold foldsExcl
  rw [forceNat_eq]
  rcases T3.get_mem Gen.T121.fmeTree (hashFME r) with h0 | hm
  · rw [h0]; simp only []; split <;> simp
  · generalize hg : Gen.T121.fmeTree.get (hashFME r) = g at hm ⊢
    obtain ⟨k, a0, a1⟩ := g
    simp only [] at hm ⊢
    split
    · rename_i hk
      subst hk
      have := List.all_eq_true.mp fmeShapeOK_true _ hm
      simp only [Bool.or_eq_true, Bool.and_eq_true, beq_iff_eq] at this
      rcases this with h1 | ⟨h1, h2⟩
      · rw [not_inK k h] at h1; cases h1
      · right; rw [h1, h2]
    · left; rfl

theorem toUpperLower_trivial (r : Nat) (h : r ∉ orbKeys) (h1 : r ≠ 0x130) (h2 : r ≠ 0x131) :
    (toUpperLower r).1 = r ∧ (toUpperLower r).2.1 = r := by
  unfold toUpperLower
  by_cases hr : r ≤ 0x80
  · rw [if_pos hr]
    have hmem : r ∈ List.range 129 := List.mem_range.mpr (by omega)
    have := List.all_eq_true.mp asciiShapeOK_true r hmem
    rw [not_inK r h] at this
    simp only [Bool.or_false, Bool.not_eq_true', Bool.or_eq_false_iff, Bool.and_eq_false_imp, decide_eq_true_eq,
      decide_eq_false_iff_not] at this
    have n1 : ¬ (0x41 ≤ r ∧ r ≤ 0x5A) := fun hh => this.1 hh.1 hh.2
    have n2 : ¬ (0x61 ≤ r ∧ r ≤ 0x7A) := fun hh => this.2 hh.1 hh.2
    rw [if_neg n1, if_neg n2]; exact ⟨rfl, rfl⟩
  · rw [if_neg hr, forceNat_eq]
    have hsp : (toUpperLowerSpecial r).1 = r ∧ (toUpperLowerSpecial r).2.1 = r := by
      have hs := specialsOK
      unfold toUpperLowerSpecial
      by_cases e1 : r = 0x1C5
      · subst e1; rw [not_inK _ h] at hs; exact absurd hs.1 (by simp)
      by_cases e2 : r = 0x1C8
      · subst e2; rw [not_inK _ h] at hs; exact absurd hs.2.1 (by simp)
      by_cases e3 : r = 0x1CB
      · subst e3; rw [not_inK _ h] at hs; exact absurd hs.2.2.1 (by simp)
      by_cases e4 : r = 0x1F2
      · subst e4; rw [not_inK _ h] at hs; exact absurd hs.2.2.2 (by simp)
      simp [e1, e2, e3, e4]
    rcases T.get_mem Gen.T121.ulTree (hashUL r) with h0 | hm
    · rw [h0]; simp only []
      have : ¬ ((0 : Nat) = r ∨ (0 : Nat) = r) := by omega
      rw [if_neg this]; exact hsp
    · generalize hg : Gen.T121.ulTree.get (hashUL r) = g at hm ⊢
      obtain ⟨p0, p1⟩ := g
      simp only [] at hm ⊢
      by_cases hhit : p0 = r ∨ p1 = r
      · exfalso
        have := List.all_eq_true.mp ulShapeOK_true _ hm
        simp only [Bool.or_eq_true, Bool.and_eq_true, beq_iff_eq] at this
        rcases this with (⟨k1, k2⟩ | k1) | k1
        · rcases hhit with e | e
          · subst e; rw [not_inK _ h] at k1; cases k1
          · subst e; rw [not_inK _ h] at k2; cases k2
        · -- the İ entry (0x130, 0x69)
          have hI : Gen.T121.ulTree.toList.all (fun e => !(e.2.1 == 0x130) || e.2.2 == 0x69) = true := by decide +kernel
          have := List.all_eq_true.mp hI _ hm
          simp only [k1, beq_self_eq_true, Bool.not_true, Bool.false_or, beq_iff_eq] at this
          rcases hhit with e | e
          · exact h1 (by rw [← e, k1])
          · omega
        · -- the ı entry (0x49, 0x131)
          have hI : Gen.T121.ulTree.toList.all (fun e => !(e.2.2 == 0x131) || e.2.1 == 0x49) = true := by decide +kernel
          have := List.all_eq_true.mp hI _ hm
          simp only [k1, beq_self_eq_true, Bool.not_true, Bool.false_or, beq_iff_eq] at this
          rcases hhit with e | e
          · omega
          · exact h2 (by rw [← e, k1])
      · rw [if_neg hhit]; exact hsp

theorem candOf_self (r c : Nat) (fe : Nat × Nat) (hf : fe = (0, 0) ∨ fe = (r, r)) :
    candOf (r, r) fe c = true ↔ c = r := by
  rcases hf with hf | hf <;> subst hf <;> simp [candOf]

theorem cand_trivial (r c : Nat) (h : r ∉ orbKeys) : cand r c = true ↔ c = r := by
  have hul : ulOf r = (r, r) := by
    unfold ulOf
    by_cases hh : r = 0x130 ∨ r = 0x131
    · rw [if_pos hh]
    · rw [if_neg hh]
      have := toUpperLower_trivial r h (fun e => hh (Or.inl e)) (fun e => hh (Or.inr e))
      rw [this.1, this.2]
  show candOf (ulOf r) (foldsExcl r) c = true ↔ c = r
  rw [hul]
  exact candOf_self r c _ (foldsExcl_trivial r h)

/-- candidate completeness: the candidate set the search code builds for a needle rune is exactly its
    fold class — for every rune value, with the real tables -/
theorem cand_iff (r c : Nat) : cand r c = true ↔ caseFold c = caseFold r := by
  rw [caseFold_eq_iff_orbMin_eq]
  by_cases hr : r ∈ orbKeys
  · obtain ⟨k1, k2, k3, k4, k5⟩ := keyLaw_of_mem r hr
    constructor
    · intro hc; exact k3 c (k5 c hc)
    · intro hm
      have hcK : c ∈ orbKeys := by
        refine Classical.byContradiction fun hc => ?_
        rw [orbMin_of_not_key c hc] at hm
        rw [← hm] at k1
        exact hc ((inK_iff c).mp k1)
      obtain ⟨_, c2, _, _, _⟩ := keyLaw_of_mem c hcK
      rw [hm] at c2
      exact k4 c c2
  · rw [cand_trivial r c hr, orbMin_of_not_key r hr]
    constructor
    · intro e; rw [e, orbMin_of_not_key r hr]
    · intro hm
      refine Classical.byContradiction fun hne => ?_
      by_cases hcK : c ∈ orbKeys
      · obtain ⟨c1, _, _, _, _⟩ := keyLaw_of_mem c hcK
        rw [hm] at c1
        exact hr ((inK_iff r).mp c1)
      · rw [orbMin_of_not_key c hcK] at hm; exact hne hm
#print axioms cand_iff
end Fold
