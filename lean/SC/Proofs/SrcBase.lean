import SC.Proofs.SrcExec
import SC.Proofs.FoldFacts
import SC.Proofs.FoldOrb
import SC.Proofs.Basic
import SC.Proofs.Enc2
/-!
What the source-level proofs share and what does **not** depend on the shape of any one function: the symbolic-execution macro, the look-up
facts "the program has a function of this name", integer wrap-around lemmas, the bridges between the interpreter's integer rendering of a
byte / rune and the models' `UInt8` / `Nat` (each a single kernel evaluation over 256 values or over the regenerated fold table), the
interpreter's `tables.CaseFold` on decoder output.  Every per-function file (`SrcFuns`, `SrcLoops`, `SrcCompare`, `SrcIndexByte`, …) imports
only this, so an edit of one Go function breaks only the theorems about that function.
-/
namespace GoSsa.Str
open GoSsa Utf8

/-- symbolic execution of the function under study; calls into other functions stay folded -/
macro "src_run" "[" ds:Lean.Parser.Tactic.simpLemma,* "]" : tactic =>
  `(tactic| simp (disch := first | assumption | omega | simp) [run_step, run_jump, run_ret, run_cond, run_panic, step, Frame.val, Frame.set, Frame.setL, Frame.goto, splitPhis, edgeOpd,
      binop, $ds,*])

theorem nb_Compare (a h) : builtin false "Compare" a h = none := by rfl
theorem nb_hasPrefixUnicode (a h) : builtin false "hasPrefixUnicode" a h = none := by rfl
theorem nb_hasSuffixUnicode (a h) : builtin false "hasSuffixUnicode" a h = none := by rfl
theorem nb_Index (a h) : builtin false "Index" a h = none := by rfl
theorem nb_IndexAny (a h) : builtin false "IndexAny" a h = none := by rfl
theorem nb_IndexRune (a h) : builtin false "IndexRune" a h = none := by rfl
theorem nb_indexRune (a h) : builtin false "indexRune" a h = none := by rfl
theorem nb_indexByte (a h) : builtin false "indexByte" a h = none := by rfl
theorem nb_TrimPrefix (a h) : builtin false "TrimPrefix" a h = none := by rfl
theorem nb_indexRuneCase (a h) : builtin false "indexRuneCase" a h = none := by rfl
theorem nb_clamp (a h) : builtin false "clamp" a h = none := by rfl

theorem nb_clamp_byt (a h) : builtin true "clamp" a h = none := by rfl

theorem wrap_i64_small (v : Int) (h1 : -9223372036854775808 ≤ v) (h2 : v < 9223372036854775808) : wrap .i64 v = v := by
  unfold wrap toU bits signed
  simp only [Bool.true_and]
  have e : ((2 ^ 64 : Nat) : Int) = 18446744073709551616 := by decide
  have e2 : (2 ^ (64 - 1) : Nat) = 9223372036854775808 := by decide
  rw [e, e2]
  split <;> rename_i hh <;> simp at hh <;> omega


theorem toNat_int_inj (a b : UInt8) : ((a.toNat : Int) = (b.toNat : Int)) ↔ a = b := by
  constructor
  · intro hh
    have hn : a.toNat = b.toNat := by omega
    rw [← Utf8.ofNat_toNat_id a, ← Utf8.ofNat_toNat_id b, hn]
  · intro hh; rw [hh]

theorem toNat_int_lt (a b : UInt8) : ((a.toNat : Int) < (b.toNat : Int)) ↔ a < b := by
  rw [UInt8.lt_iff_toNat_lt]; omega

theorem toU_u8_byte (a : UInt8) : toU .u8 (a.toNat : Int) = a.toNat := by
  unfold toU bits
  have := a.toNat_lt
  have e : ((2 ^ 8 : Nat) : Int) = 256 := by decide
  rw [e]; omega

theorem orand_byte_all : (List.range 256).all (fun n =>
    decide (wrap .u8 ((toU .u8 (wrap .u8 ((n : Nat) : Int)) &&& toU .u8 128 : Nat) : Int) = 0) == ((UInt8.ofNat n) &&& 0x80 == 0)) = true := by
  decide +kernel

/-- the source's test `(a|b) & 0x80 != 0` against the model's, for all pairs of bytes -/
theorem orand_bridge (a b : UInt8) :
    wrap .u8 ((toU .u8 (wrap .u8 ((toU .u8 (a.toNat : Int) ||| toU .u8 (b.toNat : Int) : Nat) : Int)) &&& toU .u8 128 : Nat) : Int) = 0 ↔
      (a ||| b) &&& 0x80 = 0 := by
  rw [toU_u8_byte, toU_u8_byte, ← UInt8.toNat_or]
  have h := List.all_eq_true.1 orand_byte_all (a ||| b).toNat (List.mem_range.2 (a ||| b).toNat_lt)
  rw [Utf8.ofNat_toNat_id] at h
  have h2 := eq_of_beq h
  constructor
  · intro hh
    rw [hh] at h2
    simpa using h2.symm
  · intro hh
    rw [hh] at h2
    simpa using h2

theorem run_call_unfold (p : Prog) (byt : Bool) (fuel : Nat) (fn : Fn) (env : Array (List Val)) (cur d : Nat) (f : String) (args : List Opd)
    (rest : List Instr) (term : Term) (h : Heap) :
    run p byt (fuel + 1) ⟨fn, env, cur, .call d f args :: rest, term⟩ h =
      match builtin byt f (args.map (Frame.val ⟨fn, env, cur, .call d f args :: rest, term⟩)) h with
      | some (.ok vs h') => run p byt fuel { (Frame.setL ⟨fn, env, cur, .call d f args :: rest, term⟩ d vs) with code := rest } h'
      | some e => e
      | none =>
        match p.find? (fun fn => fn.name == f) with
        | none => .stuck ("no such function: " ++ f)
        | some g =>
          match run p byt fuel (Frame.entry g (args.map (Frame.val ⟨fn, env, cur, .call d f args :: rest, term⟩))) h with
          | .ok vs h' => run p byt fuel { (Frame.setL ⟨fn, env, cur, .call d f args :: rest, term⟩ d vs) with code := rest } h'
          | e => e := by
  rfl

theorem bi_DecodeRuneInString (b : Bytes) (r o : Nat) (h : Heap) :
    builtin false "unicode/utf8.DecodeRuneInString" [.str b r o] h = some (.ok [.int (decodeRune b).1, .int (decodeRune b).2] h) := rfl
theorem bi_CaseFold (i : Int) (h : Heap) :
    builtin false "tables.CaseFold" [.int i] h =
      some (.ok [.int (if Fold.caseFold (toU32 i) = toU32 i then i else (Fold.caseFold (toU32 i) : Int))] h) := rfl
theorem bi_IndexNonASCII (b : Bytes) (r o : Nat) (h : Heap) :
    builtin false "bytealg.IndexNonASCII" [.str b r o] h = some (.ok [.int (A.kIndexNonASCII b)] h) := rfl

theorem wrap_i32_small (v : Int) (h1 : -2147483648 ≤ v) (h2 : v < 2147483648) : wrap .i32 v = v := by
  unfold wrap toU bits signed
  simp only [Bool.true_and]
  have e : ((2 ^ 32 : Nat) : Int) = 4294967296 := by decide
  have e2 : (2 ^ (32 - 1) : Nat) = 2147483648 := by decide
  rw [e, e2]
  split <;> rename_i hh <;> simp at hh <;> omega

theorem and_le_mask (x m : Nat) : x &&& m ≤ m := Nat.and_le_right

theorem decodeRune_rune_lt (s : Bytes) : (decodeRune s).1 < 0x200000 := by
  unfold decodeRune
  split
  · decide
  · rename_i b0 rest
    have hb0 := b0.toNat_lt
    split
    · show b0.toNat < _; omega
    split
    · decide
    split
    · split
      · split
        · show _ ||| _ < _
          have h1 : (b0.toNat &&& 0x1F) ≤ 0x1F := Nat.and_le_right
          have h2 : ((b0.toNat &&& 0x1F) <<< 6) < 2 ^ 21 := by rw [Nat.shiftLeft_eq]; omega
          rename_i b1 _ _
          have h3 : (b1.toNat &&& 0x3F) < 2 ^ 21 := by have := @Nat.and_le_right b1.toNat 0x3F; omega
          exact Nat.or_lt_two_pow h2 h3
        · decide
      · decide
    split
    · split
      · split
        · rename_i b1 b2 _ _
          have h1 : ((b0.toNat &&& 0x0F) <<< 12) < 2 ^ 21 := by
            have := @Nat.and_le_right b0.toNat 0x0F; rw [Nat.shiftLeft_eq]; omega
          have h2 : ((b1.toNat &&& 0x3F) <<< 6) < 2 ^ 21 := by
            have := @Nat.and_le_right b1.toNat 0x3F; rw [Nat.shiftLeft_eq]; omega
          have h3 : (b2.toNat &&& 0x3F) < 2 ^ 21 := by have := @Nat.and_le_right b2.toNat 0x3F; omega
          exact Nat.or_lt_two_pow (Nat.or_lt_two_pow h1 h2) h3
        · decide
      · decide
    split
    · split
      · split
        · rename_i b1 b2 b3 _ _
          have h0 : ((b0.toNat &&& 0x07) <<< 18) < 2 ^ 21 := by
            have := @Nat.and_le_right b0.toNat 0x07; rw [Nat.shiftLeft_eq]; omega
          have h1 : ((b1.toNat &&& 0x3F) <<< 12) < 2 ^ 21 := by
            have := @Nat.and_le_right b1.toNat 0x3F; rw [Nat.shiftLeft_eq]; omega
          have h2 : ((b2.toNat &&& 0x3F) <<< 6) < 2 ^ 21 := by
            have := @Nat.and_le_right b2.toNat 0x3F; rw [Nat.shiftLeft_eq]; omega
          have h3 : (b3.toNat &&& 0x3F) < 2 ^ 21 := by have := @Nat.and_le_right b3.toNat 0x3F; omega
          exact Nat.or_lt_two_pow (Nat.or_lt_two_pow (Nat.or_lt_two_pow h0 h1) h2) h3
        · decide
      · decide
    · decide

def cfValsOK : Bool := Gen.T121.cfTree.toList.all fun e => e.2.2 < 0x200000
theorem cfValsOK_true : cfValsOK = true := by decide +kernel

theorem caseFold_lt (r : Nat) (h : r < 0x200000) : Fold.caseFold r < 0x200000 := by
  by_cases hr : Fold.caseFold r = r
  · rw [hr]; exact h
  · unfold Fold.caseFold at hr ⊢
    rw [forceNat_eq] at hr ⊢
    have hm := Fold.lookupOr_ne Gen.T121.cfTree (Fold.hashCF r) r hr
    have := List.all_eq_true.mp cfValsOK_true _ hm
    simpa using this

theorem toU32_nat (r : Nat) (h : r < 0x200000) : toU32 (r : Int) = r := by
  unfold toU32; omega

/-- the value `tables.CaseFold(r)` returns in the interpreter, for a rune a decoder produced -/
theorem caseFold_builtin (r : Nat) (h : r < 0x200000) :
    (if Fold.caseFold (toU32 (r : Int)) = toU32 (r : Int) then (r : Int) else (Fold.caseFold (toU32 (r : Int)) : Int)) = (Fold.caseFold r : Int) := by
  rw [toU32_nat r h]
  split
  · rename_i e; rw [e]
  · rfl


end GoSsa.Str
