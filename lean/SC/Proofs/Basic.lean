import SC.Model.Utf8
namespace Utf8






theorem decodeRune_width_pos (b : UInt8) (s : Bytes) : 1 ≤ (decodeRune (b :: s)).2 := by
  simp only [decodeRune]
  repeat' split
  all_goals simp
theorem decodeRune_width_le (s : Bytes) : (decodeRune s).2 ≤ s.length := by
  unfold decodeRune
  split
  · simp
  · repeat' split
    all_goals simp
theorem decSkip_eq (k : Nat) (s : Bytes) : decSkip k s = dec (s.drop k) := by
  induction s generalizing k with
  | nil => simp [dec, decSkip]
  | cons b rest ih =>
    cases k with
    | zero => simp [dec]
    | succ k => simp [decSkip, ih]

theorem dec_cons (b : UInt8) (s : Bytes) :
    dec (b :: s) = decodeRune (b :: s) :: dec ((b :: s).drop (decodeRune (b :: s)).2) := by
  have h := decodeRune_width_pos b s
  conv => lhs; unfold dec decSkip
  simp only [decSkip_eq]
  congr 1
  obtain ⟨w, hw⟩ : ∃ w, (decodeRune (b :: s)).2 = w + 1 := ⟨(decodeRune (b :: s)).2 - 1, by omega⟩
  simp [hw]

theorem dec_ascii (b : UInt8) (s : Bytes) (h : b < 0x80) : dec (b :: s) = (b.toNat, 1) :: dec s := by
  rw [dec_cons]
  have : decodeRune (b :: s) = (b.toNat, 1) := by simp [decodeRune, h]
  simp [this]

example : dec [0x61, 0xE4, 0xB8, 0x96, 0xFF, 0xE2, 0x84, 0xAA] = [(0x61,1),(0x4E16,3),(0xFFFD,1),(0x212A,3)] := by decide
end Utf8
