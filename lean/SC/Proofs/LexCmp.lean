import SC.Proofs.Cmp
namespace Utf8
open A

/-! C04 at the level of the specification: lexCmp is a total preorder compatible with equality -/

theorem lexCmp_range (a b : List Nat) : lexCmp a b = -1 ∨ lexCmp a b = 0 ∨ lexCmp a b = 1 := by
  induction a generalizing b with
  | nil => cases b <;> simp [lexCmp]
  | cons x a ih =>
    cases b with
    | nil => simp [lexCmp]
    | cons y b =>
      simp only [lexCmp]
      split
      · exact ih b
      · split <;> simp

theorem lexCmp_eq_zero (a b : List Nat) : lexCmp a b = 0 ↔ a = b := by
  induction a generalizing b with
  | nil => cases b <;> simp [lexCmp]
  | cons x a ih =>
    cases b with
    | nil => simp [lexCmp]
    | cons y b =>
      simp only [lexCmp]
      split
      · rename_i h; subst h; rw [ih b]; simp
      · rename_i h
        constructor
        · intro h0; split at h0 <;> omega
        · intro h0; exact absurd (List.cons.inj h0).1 h

theorem lexCmp_antisymm (a b : List Nat) : lexCmp a b = - lexCmp b a := by
  induction a generalizing b with
  | nil => cases b <;> simp [lexCmp]
  | cons x a ih =>
    cases b with
    | nil => simp [lexCmp]
    | cons y b =>
      simp only [lexCmp]
      by_cases h : x = y
      · subst h; simp only [if_true]; exact ih b
      · have h' : ¬ y = x := fun e => h e.symm
        rw [if_neg h, if_neg h']
        by_cases hlt : x < y
        · have : ¬ y < x := by omega
          rw [if_pos hlt, if_neg this]
        · have : y < x := by omega
          rw [if_neg hlt, if_pos this]; omega

theorem lexCmp_trans (a b c : List Nat) (h1 : lexCmp a b ≤ 0) (h2 : lexCmp b c ≤ 0) : lexCmp a c ≤ 0 := by
  induction a generalizing b c with
  | nil => cases c <;> simp [lexCmp]
  | cons x a ih =>
    cases b with
    | nil => simp [lexCmp] at h1
    | cons y b =>
      cases c with
      | nil => simp [lexCmp] at h2
      | cons z c =>
        simp only [lexCmp] at h1 h2 ⊢
        by_cases hxy : x = y
        · subst hxy
          simp only [if_true] at h1
          by_cases hxz : x = z
          · subst hxz; simp only [if_true] at h2 ⊢; exact ih b c h1 h2
          · rw [if_neg hxz] at h2 ⊢
            split at h2
            · rename_i hlt; rw [if_pos hlt]; omega
            · omega
        · rw [if_neg hxy] at h1
          have hlt : x < y := by
            split at h1
            · assumption
            · omega
          by_cases hyz : y = z
          · subst hyz
            rw [if_neg hxy, if_pos hlt]; omega
          · rw [if_neg hyz] at h2
            have hlt2 : y < z := by
              split at h2
              · assumption
              · omega
            have : ¬ x = z := by omega
            rw [if_neg this, if_pos (by omega : x < z)]; omega

section
variable (fold : Nat → Nat)
variable (hidem : ∀ r, fold (fold r) = fold r)
variable (hascii : ∀ b : UInt8, b < 0x80 → fold b.toNat = (lower b).toNat)

include hidem hascii in
/-- C04 for the model of strcase.Compare, all byte strings -/
theorem compare_laws (s t u : Bytes) :
    (cmpAscii fold s t = 0 ↔ fdec fold s = fdec fold t) ∧
    cmpAscii fold s t = - cmpAscii fold t s ∧
    (cmpAscii fold s t ≤ 0 → cmpAscii fold t u ≤ 0 → cmpAscii fold s u ≤ 0) ∧
    (fdec fold s = fdec fold t → cmpAscii fold s u = cmpAscii fold t u) := by
  simp only [cmpAscii_spec fold hidem hascii]
  exact ⟨lexCmp_eq_zero _ _, lexCmp_antisymm _ _, lexCmp_trans _ _ _, fun h => by rw [h]⟩
end
#print axioms compare_laws
end Utf8
