import SC.Model.Spec
namespace Spec
variable {α : Type} [DecidableEq α]


theorem isPrefixOf_iff (t s : List α) : t.isPrefixOf s = true ↔ t <+: s := by
  simp [List.isPrefixOf_iff_prefix]

theorem findSub_some_iff (s t : List α) (k : Nat) :
    findSub s t = some k ↔ (t <+: s.drop k ∧ k ≤ s.length ∧ ∀ j < k, ¬ t <+: s.drop j) := by
  induction s generalizing k with
  | nil =>
    simp only [findSub]
    by_cases ht : t = []
    · subst ht; simp; constructor
      · intro h; subst h; simp
      · intro h; exact h.1.symm
    · simp [ht]
  | cons a s ih =>
    simp only [findSub]
    by_cases hp : t.isPrefixOf (a :: s) = true
    · rw [if_pos hp]
      have hp' := (isPrefixOf_iff _ _).mp hp
      constructor
      · intro h; cases h; simp [hp']
      · rintro ⟨_, _, hmin⟩
        cases k with
        | zero => rfl
        | succ k => exact absurd hp' (by simpa using hmin 0 (by omega))
    · rw [if_neg hp]
      have hp' : ¬ t <+: a :: s := fun h => hp ((isPrefixOf_iff _ _).mpr h)
      cases k with
      | zero => simp [hp']
      | succ k =>
        simp only [Option.map_eq_some_iff, Nat.add_right_cancel_iff, exists_eq_right, List.drop_succ_cons,
          List.length_cons, Nat.add_le_add_iff_right]
        rw [ih k]
        constructor
        · rintro ⟨h1, h2, h3⟩
          refine ⟨h1, h2, ?_⟩
          intro j hj
          cases j with
          | zero => simpa using hp'
          | succ j => simpa using h3 j (by omega)
        · rintro ⟨h1, h2, h3⟩
          refine ⟨h1, h2, ?_⟩
          intro j hj
          simpa using h3 (j+1) (by omega)

/-- C19, first implication, at the level of rune lists -/
theorem findSub_append_right (s y t : List α) (k : Nat) (h : findSub s t = some k) :
    findSub (s ++ y) t = some k := by
  rw [findSub_some_iff] at h ⊢
  obtain ⟨hp, hk, hmin⟩ := h
  have hlen : k + t.length ≤ s.length := by
    have := hp.length_le; simp at this; omega
  refine ⟨?_, by simp; omega, ?_⟩
  · rw [List.drop_append_of_le_length hk]
    exact hp.trans (List.prefix_append _ _)
  · intro j hj hpj
    apply hmin j hj
    rw [List.drop_append_of_le_length (by omega)] at hpj
    -- t is a prefix of (s.drop j ++ y) and t.length ≤ (s.drop j).length
    have hl : t.length ≤ (s.drop j).length := by simp; omega
    exact List.prefix_of_prefix_length_le hpj (List.prefix_append _ _) hl
end Spec
