import SC.Proofs.IndexRuneCase
import SC.Proofs.HasPrefixFull
import SC.Proofs.SpecIndex
/-!
Refinement of the prefix family: `A.hasPrefixUnicode` (both packages, with its length pre-check and
`containsKelvin`), `A.HasPrefix`, `A.TrimPrefix`, `A.CutPrefix` equal the specification on every
pair of byte strings.
-/
namespace A
open Utf8 Fold

/-- every segment of `s` is the decode at one of its boundaries -/
theorem mem_dec_boundary (s : Bytes) (q : Nat × Nat) (hq : q ∈ dec s) :
    ∃ i, IsBoundary s i ∧ i < s.length ∧ q = decodeRune (s.drop i) := by
  obtain ⟨k, hk, rfl⟩ := List.getElem_of_mem hq
  refine ⟨offAt s k, ⟨k, by omega, rfl⟩, ?_, seg_at s k hk⟩
  have h1 := offAt_lt_succ s k hk
  have h2 := offAt_le s (k + 1)
  omega

/-- `containsKelvin` (after the D5/D6 repair) answers `false` only if the string holds neither U+212A nor
    U+FFFD / an ill-formed byte -/
theorem containsKelvin_false (cfg : Cfg) (p : Bytes) (h : containsKelvin cfg p = false) :
    ∀ q ∈ dec p, q.1 ≠ 0x212A ∧ q.1 ≠ 0xFFFD := by
  intro q hq
  obtain ⟨i, hb, hil, rfl⟩ := mem_dec_boundary p q hq
  unfold containsKelvin at h
  have hlen : decide (p.length > 0) = true := by simp; omega
  rw [hlen, Bool.true_and] at h
  simp only [Bool.or_eq_false_iff, bne_eq_false_iff_eq] at h
  obtain ⟨hk, hf⟩ := h
  constructor
  · intro hr
    have hspec := indexRuneCase_isFirstRune cfg p 0x212A (by decide) (by decide)
    have hk' : indexRuneCase cfg p ((0x212A : Nat) : Int) = -1 := hk
    rw [hk'] at hspec
    rcases hspec with ⟨_, hnone⟩ | ⟨j, hj, _⟩
    · have hne : p.drop i ≠ [] := by
        intro he; have := congrArg List.length he; simp at this; omega
      exact hnone i hb hil (decode_of_rune _ _ hne hr (by decide))
    · omega
  · intro hr
    have hf' : firstRuneError p (p.length + 1) 0 = -1 := by
      have : indexRuneCase cfg p 0xFFFD = firstRuneError p (p.length + 1) 0 := by
        unfold indexRuneCase; simp
      rw [← this]; exact hf
    rcases firstRuneError_correct (p.length + 1) p 0 (by omega) with ⟨_, hnone⟩ | ⟨k, hk2, _⟩
    · exact hnone i hb hil hr
    · rw [hf'] at hk2; omega

section
variable (fold : Nat → Nat)
variable (hidem : ∀ r, fold (fold r) = fold r)
variable (hascii : ∀ b : UInt8, b < 0x80 → fold b.toNat = (lower b).toNat)

include hidem hascii in
/-- bytcase lower-cases an ASCII needle rune before comparing; the verdict is the same -/
theorem hp_cond (byt : Bool) (c : UInt8) (r sr : Nat) (hc : c < 0x80 → r = c.toNat) :
    ((if byt && c < 0x80 then (lower c).toNat else r) = sr ∨ fold (if byt && c < 0x80 then (lower c).toNat else r) = fold sr) ↔
    (r = sr ∨ fold r = fold sr) := by
  by_cases hb : (byt && decide (c < 0x80)) = true
  · rw [if_pos hb]
    have hc' : c < 0x80 := by simp at hb; exact hb.2
    have e : r = c.toNat := hc hc'
    have hl : fold (lower c).toNat = fold r := by
      rw [e, hascii c hc', ← hascii c hc', hidem]
    constructor
    · rintro (h | h)
      · right; rw [← hl, h]
      · right; rw [← hl]; exact h
    · rintro (h | h)
      · right; rw [hl, h]
      · right; rw [hl]; exact h
  · rw [if_neg hb]

include hidem hascii in
theorem hpRunes_eq (byt : Bool) : ∀ (fuel : Nat) (s p : Bytes), hpRunes fold byt fuel s p = Utf8.hpRunes fold fuel s p := by
  intro fuel
  induction fuel with
  | zero => intro s p; cases p <;> rfl
  | succ fuel ih =>
    intro s p
    cases p with
    | nil => rfl
    | cons c p =>
      cases s with
      | nil => rfl
      | cons a s' =>
        simp only [hpRunes, Utf8.hpRunes]
        have hcond := hp_cond fold hidem hascii byt c (decodeRune (c :: p)).1
          (if a < 0x80 then (lower a).toNat else (decodeRune (a :: s')).1)
          (fun hc => by simp [decodeRune, hc])
        by_cases h : (decodeRune (c :: p)).1 = (if a < 0x80 then (lower a).toNat else (decodeRune (a :: s')).1) ∨
            fold (decodeRune (c :: p)).1 = fold (if a < 0x80 then (lower a).toNat else (decodeRune (a :: s')).1)
        · rw [if_pos (hcond.mpr h), if_pos h, ih]
        · rw [if_neg (fun hh => h (hcond.mp hh)), if_neg h]

include hidem hascii in
theorem hpAscii_eq (byt : Bool) : ∀ (s p : Bytes), hpAscii fold byt s p = Utf8.hpAscii fold s p
  | [], _ => by cases ‹Bytes› <;> rfl
  | _ :: _, [] => rfl
  | a :: s, c :: p => by
    simp only [hpAscii, Utf8.hpAscii, hpRunes_eq fold hidem hascii byt, hpAscii_eq byt s p]
end

theorem hasPrefixUnicode_eq (cfg : Cfg) (s p : Bytes) :
    hasPrefixUnicode cfg s p = Utf8.hasPrefixUnicode (containsKelvin cfg) s p := by
  unfold hasPrefixUnicode Utf8.hasPrefixUnicode
  rw [hpAscii_eq caseFold caseFold_idem' caseFold_lower]

/-- the verifier's contract for the algorithm model (both packages, arbitrary bytes) -/
theorem hasPrefixUnicode_contract (cfg : Cfg) (s p : Bytes) :
    ((hasPrefixUnicode cfg s p).1 = true ↔ fdec caseFold p <+: fdec caseFold s) ∧
    ((hasPrefixUnicode cfg s p).1 = false → (hasPrefixUnicode cfg s p).2 = true →
        ∀ k, ¬ fdec caseFold p <+: (fdec caseFold s).drop k) := by
  rw [hasPrefixUnicode_eq]
  exact hasPrefixUnicode_spec (containsKelvin cfg) (containsKelvin_false cfg) s p

/-- C09: `HasPrefix` of the algorithm model is the specification, for all byte strings -/
theorem HasPrefix_eq (cfg : Cfg) (s p : Bytes) : HasPrefix cfg s p = S.hasPrefix s p := by
  have h := (hasPrefixUnicode_contract cfg s p).1
  unfold HasPrefix S.hasPrefix S.prefixLen S.fruns S.fold
  by_cases hp : (fdec caseFold p).isPrefixOf (fdec caseFold s) = true
  · rw [if_pos hp]; exact h.mpr (List.isPrefixOf_iff_prefix.mp hp)
  · rw [if_neg hp]
    cases hh : (hasPrefixUnicode cfg s p).1 with
    | false => rfl
    | true => exact absurd (List.isPrefixOf_iff_prefix.mpr (h.mp hh)) hp
end A
