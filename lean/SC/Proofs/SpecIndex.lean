import SC.Proofs.Skel
import SC.Proofs.FindLast
/-!
The specification `S.index` meets the search contract `IsIndex` (leftmost decode boundary at
which the needle's folded runes are a prefix of the haystack's), and `IsIndex` determines its
result: every algorithm proved to meet `IsIndex` therefore *equals* `S.index`.
-/
namespace Utf8
open Spec

theorem fdec_length (fold : Nat → Nat) (s : Bytes) : (fdec fold s).length = (dec s).length := by
  simp [fdec]

theorem fdec_drop_offAt (fold : Nat → Nat) (s : Bytes) (k : Nat) :
    fdec fold (s.drop (offAt s k)) = (fdec fold s).drop k := by
  simp [fdec, dec_drop_offAt]

theorem offAt_le_of_le (s : Bytes) (a b : Nat) (hab : a ≤ b) (hb : b ≤ (dec s).length) :
    offAt s a ≤ offAt s b := by
  have := offAt_mono s (b - a) a (by omega)
  have e : a + (b - a) = b := by omega
  rwa [e] at this

theorem S_index_isIndex (s sub : Bytes) : IsIndex S.fold s sub (S.index s sub) := by
  unfold S.index S.indexK S.fruns
  cases h : findSub (fdec S.fold s) (fdec S.fold sub) with
  | none =>
    left
    refine ⟨rfl, ?_⟩
    rintro i ⟨k, hk, rfl⟩ hm
    rw [findSub_none_iff] at h
    apply h k (by rw [fdec_length]; exact hk)
    unfold Match at hm
    rwa [fdec_drop_offAt] at hm
  | some k =>
    right
    rw [findSub_some_iff] at h
    obtain ⟨hp, hk, hmin⟩ := h
    rw [fdec_length] at hk
    refine ⟨offAt s k, rfl, ⟨k, hk, rfl⟩, ?_, ?_⟩
    · unfold Match; rwa [fdec_drop_offAt]
    · rintro j ⟨k', hk', rfl⟩ hlt hm
      have hkk : k' < k := by
        rcases Nat.lt_or_ge k' k with h | h
        · exact h
        · have := offAt_le_of_le s k k' h hk'; omega
      apply hmin k' hkk
      unfold Match at hm
      rwa [fdec_drop_offAt] at hm

theorem isIndex_unique (fold : Nat → Nat) (s sub : Bytes) (a b : Int)
    (ha : IsIndex fold s sub a) (hb : IsIndex fold s sub b) : a = b := by
  rcases ha with ⟨ha, hna⟩ | ⟨i, ha, hbi, hmi, hmini⟩ <;> rcases hb with ⟨hb, hnb⟩ | ⟨j, hb, hbj, hmj, hminj⟩
  · rw [ha, hb]
  · exact absurd hmj (hna j hbj)
  · exact absurd hmi (hnb i hbi)
  · subst ha; subst hb
    rcases Nat.lt_trichotomy i j with h | h | h
    · exact absurd hmi (hminj i hbi h)
    · rw [h]
    · exact absurd hmj (hmini j hbj h)

/-- an algorithm result that meets the search contract equals the specification -/
theorem eq_S_index_of_isIndex (s sub : Bytes) (r : Int) (h : IsIndex S.fold s sub r) : r = S.index s sub :=
  isIndex_unique S.fold s sub r _ h (S_index_isIndex s sub)

end Utf8
