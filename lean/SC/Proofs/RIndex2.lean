import SC.Proofs.RIndex1
/-!
Index, part 2: the width pre-checks and the non-letter-ASCII fast path (exact byte search).
-/
namespace A
open Utf8 Fold

/-- a match forces the length relations the pre-checks test -/
theorem match_widths (cfg : Cfg) (x sub : Bytes) (h : Match caseFold x sub) :
    sub.length ≤ 3 * x.length ∧ (containsKelvin cfg sub = false → sub.length ≤ 2 * x.length) := by
  have h1 : (hasPrefixUnicode cfg x sub).1 = true := (hasPrefixUnicode_contract cfg x sub).1.mpr h
  unfold hasPrefixUnicode at h1
  by_cases hpc : sub.length > x.length * 3 ∨ (sub.length > x.length * 2 ∧ containsKelvin cfg sub = false)
  · rw [if_pos hpc] at h1; cases h1
  · constructor
    · rcases Nat.lt_or_ge (x.length * 3) sub.length with h | h
      · exact absurd (Or.inl h) hpc
      · omega
    · intro hk
      rcases Nat.lt_or_ge (x.length * 2) sub.length with h | h
      · exact absurd (Or.inr ⟨h, hk⟩) hpc
      · omega

/-! ### non-letter ASCII needles: exact byte search -/

theorem nonLetter_byte : ∀ b : UInt8,
    (let c := b ||| 0x20; !(c &&& 0x80 != 0 || (0x61 ≤ c && c ≤ 0x7A))) = true →
    b < 0x80 ∧ isAlpha b = false ∧ b ≠ 0x4B ∧ b ≠ 0x6B ∧ b ≠ 0x53 ∧ b ≠ 0x73 ∧ lower b = b := by decide +kernel

/-- a non-letter ASCII byte is fold-equal only to itself and folds to itself -/
theorem nonLetter_orbit (b : UInt8) (hb : b < 0x80) (ha : isAlpha b = false)
    (hk : b ≠ 0x4B ∧ b ≠ 0x6B ∧ b ≠ 0x53 ∧ b ≠ 0x73) (hl : lower b = b) (r : Nat) :
    caseFold r = caseFold b.toNat ↔ r = b.toNat := by
  have h := ascii_orbit b hb r
  have hsr : specialRune b = 0 := by
    unfold specialRune
    rw [if_neg (fun h => by rcases h with h | h; exact hk.1 h; exact hk.2.1 h),
        if_neg (fun h => by rcases h with h | h; exact hk.2.2.1 h; exact hk.2.2.2 h)]
  unfold orbP asciiPart at h
  rw [hsr, ha] at h
  simp only [Bool.false_and, Bool.or_false, bne_self_eq_false] at h
  constructor
  · intro he
    have : (caseFold r == caseFold b.toNat) = true := beq_iff_eq.mpr he
    rw [h] at this; exact beq_iff_eq.mp this
  · intro he; rw [he]

theorem nonLetter_match : ∀ (sub : Bytes), nonLetterASCII sub = true → ∀ x : Bytes, Match caseFold x sub ↔ sub <+: x
  | [], _, x => by simp [Match, fdec, dec_nil]
  | c :: p, hnl, x => by
    unfold nonLetterASCII at hnl
    rw [List.all_cons, Bool.and_eq_true] at hnl
    obtain ⟨hb, ha, hk1, hk2, hk3, hk4, hl⟩ := nonLetter_byte c hnl.1
    have ih := nonLetter_match p hnl.2
    have hfc : caseFold c.toNat = c.toNat := by rw [caseFold_lower c hb, hl]
    unfold Match
    have hds : fdec caseFold (c :: p) = c.toNat :: fdec caseFold p := by
      simp [fdec, dec_ascii c p hb, hfc]
    rw [hds]
    cases x with
    | nil => simp [fdec, dec_nil]
    | cons b x' =>
      rw [fdec_cons']
      simp only [List.cons_prefix_cons]
      constructor
      · rintro ⟨h1, h2⟩
        have hr : (decodeRune (b :: x')).1 = c.toNat := by
          apply (nonLetter_orbit c hb ha ⟨hk1, hk2, hk3, hk4⟩ hl _).mp
          rw [hfc]; exact h1.symm
        obtain ⟨b', rest, hy, hb', hd⟩ := decode_ascii_head (b :: x') (by simp) (by rw [hr]; exact lt80_toNat c hb)
        simp only [List.cons.injEq] at hy
        obtain ⟨rfl, rfl⟩ := hy
        rw [hd] at hr h2
        simp only [List.drop_succ_cons, List.drop_zero] at h2
        have hbc : b = c := UInt8.toNat_inj.mp hr
        exact ⟨hbc.symm, (ih x').mp h2⟩
      · rintro ⟨rfl, h2⟩
        have hd : decodeRune (c :: x') = (c.toNat, 1) := by simp [decodeRune, hb]
        rw [hd]
        simp only [List.drop_succ_cons, List.drop_zero]
        exact ⟨hfc.symm, (ih x').mpr h2⟩

/-- C01/C20: for a non-letter ASCII needle the exact byte search is the case-insensitive Index -/
theorem bytesIndex_isIndex (s sub : Bytes) (hne : sub ≠ []) (hnl : nonLetterASCII sub = true) :
    IsIndex caseFold s sub (bytesIndex s sub) := by
  have hm := nonLetter_match sub hnl
  -- an occurrence starts with an ASCII byte, hence at a boundary
  have hocc_b : ∀ k, k ≤ s.length → sub <+: s.drop k → IsBoundary s k := by
    intro k _ hk
    cases hs : sub with
    | nil => exact absurd hs hne
    | cons c p =>
      have hc : c < 0x80 := by
        unfold nonLetterASCII at hnl
        rw [hs, List.all_cons, Bool.and_eq_true] at hnl
        exact (nonLetter_byte c hnl.1).1
      have hsk : s[k]? = some c := by
        have := occ_getElem s sub k hk 0 (by rw [hs]; simp)
        simpa [hs] using this
      exact start_is_boundary s.length s (Nat.le_refl _) k c hsk (ascii_isStart c hc)
  rcases bytesIndex_isFirstOcc s sub with ⟨h1, hn⟩ | ⟨k, h1, hkl, hocc, hmin⟩
  · left; refine ⟨h1, ?_⟩
    intro i hi hmi
    exact hn i (isBoundary_le s i hi) ((hm _).mp hmi)
  · right
    refine ⟨k, h1, hocc_b k hkl hocc, (hm _).mpr hocc, ?_⟩
    intro j _ hjk hmj
    exact hmin j hjk ((hm _).mp hmj)

end A
