import SC.Proofs.SrcNamesB
import SC.Proofs.SrcIndexByte
import SC.Proofs.RIndexByte
/-!
`indexByte` (the core of `IndexByte` for `K k S s`) on the regenerated program text of `bytcase/bytcase.go`, relative to `indexRuneCase`:
the letter dispatch, the call of the byte kernel, the `s[:n]` re-slice (in range because the kernel's answer is) and the comparison of the two candidates.
-/
namespace GoSsa.Byt
open GoSsa Gen.Src Utf8

/-- the part of `indexByte` after the letter dispatch: `n` is what the byte kernel returned, `r`/`sz` the non-ASCII relative and its width -/
theorem indexByte_tail (s : Bytes) (root off : Nat) (h : Heap) (n : Int) (r : Int) (sz : Nat) (hsz0 : 0 < sz) (hszs : sz < 10)
    (hn : n = -1 ∨ (0 ≤ n ∧ n < s.length)) (hls : s.length < 4611686018427387904)
    (o1 o2 : Int)
    (hI1 : ∃ N, ∀ fuel, N ≤ fuel → run P true fuel (Frame.entry byt_indexRuneCase [.str s root off, .int r]) h = .ok [.int o1] h)
    (hI2 : ∃ N, ∀ fuel, N ≤ fuel → run P true fuel (Frame.entry byt_indexRuneCase [.str (s.take n.toNat) root off, .int r]) h = .ok [.int o2] h) :
    ∃ N, ∀ (env : Array (List Val)), env.size = 19 → env.getD 0 [] = [.str s root off] → env.getD 4 [] = [.int n] →
      env.getD 6 [] = [.int r] → env.getD 7 [] = [.int sz] → ∀ fuel, N ≤ fuel →
      run P true fuel ⟨byt_indexByte, env, 3, [.bin 8 .gt .i64 (.r 4) (.c 0)], .cond (.r 8) 10 11⟩ h =
        .ok (if n > 0 ∧ n < sz then [.int n, .int 1]
             else
               let o := if n > 0 then o2 else o1
               if n = -1 ∨ (o ≠ -1 ∧ o < n) then [.int o, .int sz] else [.int n, .int 1]) h := by
  obtain ⟨N1, hN1⟩ := hI1
  obtain ⟨N2, hN2⟩ := hI2
  refine ⟨N1 + N2 + 30, fun env hsz h0 h4 h6 h7 fuel hf => ?_⟩
  simp [hsz] at h0 h4 h6 h7
  obtain ⟨m, rfl⟩ : ∃ m, fuel = N1 + N2 + m + 30 := ⟨fuel - (N1 + N2 + 30), by omega⟩
  by_cases hpos : n > 0
  · have hn' : 0 ≤ n ∧ n < s.length := by rcases hn with h | h <;> omega
    by_cases hlt : n < sz
    · src_run [byt_indexByte, byt_indexByte_b10, byt_indexByte_b12, hsz, h0, h4, h6, h7, hpos, hlt]
    · have hne : ¬ n = -1 := by omega
      by_cases ho : o2 = -1
      · src_run [byt_indexByte, byt_indexByte_b10, byt_indexByte_b11, byt_indexByte_b12, byt_indexByte_b13, byt_indexByte_b14, byt_indexByte_b15,
          byt_indexByte_b16, byt_indexByte_b17, hsz, h0, h4, h6, h7, hpos, hlt, hne, ho, intOf, hn'.1, hn'.2, Int.le_of_lt hn'.2,
          run_call_fn (hb := nb_indexRuneCase) (hf := find_indexRuneCase), hN2]
      · by_cases hol : o2 < n <;>
        src_run [byt_indexByte, byt_indexByte_b10, byt_indexByte_b11, byt_indexByte_b12, byt_indexByte_b13, byt_indexByte_b14, byt_indexByte_b15,
          byt_indexByte_b16, byt_indexByte_b17, hsz, h0, h4, h6, h7, hpos, hlt, hne, ho, hol, intOf, hn'.1, hn'.2, Int.le_of_lt hn'.2,
          run_call_fn (hb := nb_indexRuneCase) (hf := find_indexRuneCase), hN2]
  · have hlt : ¬ (n > 0 ∧ n < sz) := fun x => hpos x.1
    by_cases hne : n = -1
    · src_run [byt_indexByte, byt_indexByte_b10, byt_indexByte_b11, byt_indexByte_b12, byt_indexByte_b13, byt_indexByte_b14, byt_indexByte_b15,
          byt_indexByte_b16, byt_indexByte_b17, hsz, h0, h4, h6, h7, hpos, hne,
          run_call_fn (hb := nb_indexRuneCase) (hf := find_indexRuneCase), hN1]
    · have hn0 : n = 0 := by rcases hn with h | h <;> omega
      subst hn0
      by_cases ho : o1 = -1
      · src_run [byt_indexByte, byt_indexByte_b10, byt_indexByte_b11, byt_indexByte_b12, byt_indexByte_b13, byt_indexByte_b14, byt_indexByte_b15,
          byt_indexByte_b16, byt_indexByte_b17, hsz, h0, h4, h6, h7, ho,
          run_call_fn (hb := nb_indexRuneCase) (hf := find_indexRuneCase), hN1]
      · by_cases hol : o1 < 0 <;>
        src_run [byt_indexByte, byt_indexByte_b10, byt_indexByte_b11, byt_indexByte_b12, byt_indexByte_b13, byt_indexByte_b14, byt_indexByte_b15,
          byt_indexByte_b16, byt_indexByte_b17, hsz, h0, h4, h6, h7, ho, hol,
          run_call_fn (hb := nb_indexRuneCase) (hf := find_indexRuneCase), hN1]

set_option maxHeartbeats 1000000 in
/-- `indexByte` on the program text, relative to `indexRuneCase` -/
theorem indexByte (s : Bytes) (root off : Nat) (c : UInt8) (h : Heap) (hls : s.length < 4611686018427387904)
    (hI : ∀ (s' : Bytes) (r : Int), ∃ N, ∀ fuel, N ≤ fuel →
      run P true fuel (Frame.entry byt_indexRuneCase [.str s' root off, .int r]) h = .ok [.int (A.indexRuneCase (cfg true) s' r)] h) :
    Ret P true byt_indexByte [.str s root off, .int c.toNat] h
      [.int (A.indexByte (cfg true) s c).1, .int (A.indexByte (cfg true) s c).2] h := by
  by_cases hs0 : s.length = 0
  · refine ⟨10, fun fuel hf => ?_⟩
    obtain ⟨m, rfl⟩ : ∃ m, fuel = m + 10 := ⟨fuel - 10, by omega⟩
    rw [Frame.entry]
    have hs0' : (s.length : Int) = 0 := by omega
    src_run [byt_indexByte, byt_indexByte_b0, byt_indexByte_b1, A.indexByte, hs0, hs0']
  · have hs0' : ¬ (s.length : Int) = 0 := by omega
    have hn := Str.kIndexByte_range s c
    have hb : builtin true "bytealg.IndexByte" [.str s root off, .int c.toNat] h = some (.ok [.int (A.kIndexByte s c)] h) := by
      show some (Res.ok [Val.int (A.kIndexByte s (UInt8.ofNat (c.toNat : Int).toNat))] h) = _
      simp [Utf8.ofNat_toNat_id]
    -- the tail, for the relative of K/k and of S/s
    have tailK := indexByte_tail s root off h (A.kIndexByte s c) 8490 3 (by omega) (by omega) hn hls _ _ (hI s 8490) (hI (s.take (A.kIndexByte s c).toNat) 8490)
    have tailS := indexByte_tail s root off h (A.kIndexByte s c) 383 2 (by omega) (by omega) hn hls _ _ (hI s 383) (hI (s.take (A.kIndexByte s c).toNat) 383)
    obtain ⟨NK, hNK⟩ := tailK
    obtain ⟨NS, hNS⟩ := tailS
    simp only [byt_indexByte, byt_indexByte_b0, byt_indexByte_b1, byt_indexByte_b2, byt_indexByte_b3, byt_indexByte_b4, byt_indexByte_b5, byt_indexByte_b6,
      byt_indexByte_b7, byt_indexByte_b8, byt_indexByte_b9, byt_indexByte_b10, byt_indexByte_b11, byt_indexByte_b12, byt_indexByte_b13, byt_indexByte_b14,
      byt_indexByte_b15, byt_indexByte_b16, byt_indexByte_b17] at hNK hNS
    refine ⟨NK + NS + 20, fun fuel hf => ?_⟩
    rw [Frame.entry]
    by_cases hK : c = 0x4B
    · subst hK
      obtain ⟨m, rfl⟩ : ∃ m, fuel = m + 7 := ⟨fuel - 7, by omega⟩
      src_run [byt_indexByte, byt_indexByte_b0, byt_indexByte_b1, byt_indexByte_b2, byt_indexByte_b3, byt_indexByte_b4, byt_indexByte_b5, byt_indexByte_b6,
        byt_indexByte_b7, byt_indexByte_b8, byt_indexByte_b9, byt_indexByte_b10, byt_indexByte_b11, byt_indexByte_b12, byt_indexByte_b13, byt_indexByte_b14,
        byt_indexByte_b15, byt_indexByte_b16, byt_indexByte_b17, hs0, hs0']
      rw [run_call_ext (hb := by simpa [Frame.val] using hb)]
      src_run []
      rw [hNK _ (by simp) (by simp) (by simp) (by simp) (by simp) _ (by omega)]
      simp only [A.indexByte, hs0, if_false]
      by_cases hp : 0 < A.kIndexByte s 0x4B <;> by_cases hq : A.kIndexByte s 0x4B < 3 <;> by_cases hq2 : A.kIndexByte s 0x4B < 2 <;>
        by_cases hm : A.kIndexByte s 0x4B = -1 <;> simp [hp, hq, hq2, hm] <;> (try split) <;> simp_all
    by_cases hk : c = 0x6B
    · subst hk
      obtain ⟨m, rfl⟩ : ∃ m, fuel = m + 9 := ⟨fuel - 9, by omega⟩
      src_run [byt_indexByte, byt_indexByte_b0, byt_indexByte_b1, byt_indexByte_b2, byt_indexByte_b3, byt_indexByte_b4, byt_indexByte_b5, byt_indexByte_b6,
        byt_indexByte_b7, byt_indexByte_b8, byt_indexByte_b9, byt_indexByte_b10, byt_indexByte_b11, byt_indexByte_b12, byt_indexByte_b13, byt_indexByte_b14,
        byt_indexByte_b15, byt_indexByte_b16, byt_indexByte_b17, hs0, hs0']
      rw [run_call_ext (hb := by simpa [Frame.val] using hb)]
      src_run []
      rw [hNK _ (by simp) (by simp) (by simp) (by simp) (by simp) _ (by omega)]
      simp only [A.indexByte, hs0, if_false]
      by_cases hp : 0 < A.kIndexByte s 0x6B <;> by_cases hq : A.kIndexByte s 0x6B < 3 <;> by_cases hq2 : A.kIndexByte s 0x6B < 2 <;>
        by_cases hm : A.kIndexByte s 0x6B = -1 <;> simp [hp, hq, hq2, hm] <;> (try split) <;> simp_all
    by_cases hS : c = 0x53
    · subst hS
      obtain ⟨m, rfl⟩ : ∃ m, fuel = m + 11 := ⟨fuel - 11, by omega⟩
      src_run [byt_indexByte, byt_indexByte_b0, byt_indexByte_b1, byt_indexByte_b2, byt_indexByte_b3, byt_indexByte_b4, byt_indexByte_b5, byt_indexByte_b6,
        byt_indexByte_b7, byt_indexByte_b8, byt_indexByte_b9, byt_indexByte_b10, byt_indexByte_b11, byt_indexByte_b12, byt_indexByte_b13, byt_indexByte_b14,
        byt_indexByte_b15, byt_indexByte_b16, byt_indexByte_b17, hs0, hs0']
      rw [run_call_ext (hb := by simpa [Frame.val] using hb)]
      src_run []
      rw [hNS _ (by simp) (by simp) (by simp) (by simp) (by simp) _ (by omega)]
      simp only [A.indexByte, hs0, if_false]
      by_cases hp : 0 < A.kIndexByte s 0x53 <;> by_cases hq : A.kIndexByte s 0x53 < 3 <;> by_cases hq2 : A.kIndexByte s 0x53 < 2 <;>
        by_cases hm : A.kIndexByte s 0x53 = -1 <;> simp [hp, hq, hq2, hm] <;> (try split) <;> simp_all
    by_cases hs : c = 0x73
    · subst hs
      obtain ⟨m, rfl⟩ : ∃ m, fuel = m + 13 := ⟨fuel - 13, by omega⟩
      src_run [byt_indexByte, byt_indexByte_b0, byt_indexByte_b1, byt_indexByte_b2, byt_indexByte_b3, byt_indexByte_b4, byt_indexByte_b5, byt_indexByte_b6,
        byt_indexByte_b7, byt_indexByte_b8, byt_indexByte_b9, byt_indexByte_b10, byt_indexByte_b11, byt_indexByte_b12, byt_indexByte_b13, byt_indexByte_b14,
        byt_indexByte_b15, byt_indexByte_b16, byt_indexByte_b17, hs0, hs0']
      rw [run_call_ext (hb := by simpa [Frame.val] using hb)]
      src_run []
      rw [hNS _ (by simp) (by simp) (by simp) (by simp) (by simp) _ (by omega)]
      simp only [A.indexByte, hs0, if_false]
      by_cases hp : 0 < A.kIndexByte s 0x73 <;> by_cases hq : A.kIndexByte s 0x73 < 3 <;> by_cases hq2 : A.kIndexByte s 0x73 < 2 <;>
        by_cases hm : A.kIndexByte s 0x73 = -1 <;> simp [hp, hq, hq2, hm] <;> (try split) <;> simp_all
    -- any other byte: the kernel's answer
    obtain ⟨m, rfl⟩ : ∃ m, fuel = m + 13 := ⟨fuel - 13, by omega⟩
    have e : ∀ k : UInt8, ((c.toNat : Int) = (k.toNat : Int) ↔ c = k) := fun k => Str.toNat_int_inj c k
    have h1 : ¬ (c.toNat : Int) = 75 := fun x => hK ((e 0x4B).mp x)
    have h2 : ¬ (c.toNat : Int) = 107 := fun x => hk ((e 0x6B).mp x)
    have h3 : ¬ (c.toNat : Int) = 83 := fun x => hS ((e 0x53).mp x)
    have h4 : ¬ (c.toNat : Int) = 115 := fun x => hs ((e 0x73).mp x)
    src_run [byt_indexByte, byt_indexByte_b0, byt_indexByte_b1, byt_indexByte_b2, byt_indexByte_b3, byt_indexByte_b4, byt_indexByte_b5, byt_indexByte_b6,
        byt_indexByte_b7, byt_indexByte_b8, byt_indexByte_b9, byt_indexByte_b10, byt_indexByte_b11, byt_indexByte_b12, byt_indexByte_b13, byt_indexByte_b14,
        byt_indexByte_b15, byt_indexByte_b16, byt_indexByte_b17, hs0, hs0']
    rw [run_call_ext (hb := by simpa [Frame.val] using hb)]
    src_run [h1, h2, h3, h4]
    simp [A.indexByte, hs0, hK, hk, hS, hs]

end GoSsa.Byt
