import SC.Proofs.Utf8Last
namespace Utf8



-- one-variable byte facts (kernel-decided)
theorem lead2 : ∀ b : UInt8, ¬ b < 0xC2 → b < 0xE0 → b.toNat &&& 0x1F = b.toNat - 0xC0 := by decide +kernel
theorem lead3 : ∀ b : UInt8, ¬ b < 0xE0 → b < 0xF0 → b.toNat &&& 0x0F = b.toNat - 0xE0 := by decide +kernel
theorem lead4 : ∀ b : UInt8, ¬ b < 0xF0 → b < 0xF5 → b.toNat &&& 0x07 = b.toNat - 0xF0 := by decide +kernel
theorem cont6 : ∀ b : UInt8, isCont b = true → b.toNat &&& 0x3F = b.toNat - 0x80 ∧ 0x80 ≤ b.toNat ∧ b.toNat < 0xC0 := by decide +kernel

theorem or_shift6 (a b : Nat) (hb : b < 64) : (a <<< 6) ||| b = a * 64 + b := by
  rw [← Nat.shiftLeft_add_eq_or_of_lt (by simpa using hb), Nat.shiftLeft_eq]

/-- value of a 2-byte decode, arithmetically -/
theorem decode2_val (b0 b1 : UInt8) (h0 : ¬ b0 < 0xC2) (h1 : b0 < 0xE0) (hc : isCont b1 = true) :
    ((b0.toNat &&& 0x1F) <<< 6) ||| (b1.toNat &&& 0x3F) = (b0.toNat - 0xC0) * 64 + (b1.toNat - 0x80) := by
  rw [lead2 b0 h0 h1, (cont6 b1 hc).1]
  have := cont6 b1 hc
  exact or_shift6 _ _ (by omega)

theorem ofNat_toNat_lt (n : Nat) (h : n < 256) : (UInt8.ofNat n).toNat = n := by
  simp [UInt8.toNat_ofNat, Nat.mod_eq_of_lt h]

/-- E1 (2-byte case): decoding an encoded rune gives it back, whatever follows -/
theorem decode_encode2 (r : Nat) (h1 : 0x80 ≤ r) (h2 : r < 0x800) (y : Bytes) :
    decodeRune (encode r ++ y) = (r, 2) := by
  have e : encode r = [UInt8.ofNat (0xC0 + r / 64), UInt8.ofNat (0x80 + r % 64)] := by
    simp [encode, show ¬ r < 0x80 by omega, h2]
  rw [e]
  have t0 := ofNat_toNat_lt (0xC0 + r / 64) (by omega)
  have t1 := ofNat_toNat_lt (0x80 + r % 64) (by omega)
  generalize UInt8.ofNat (0xC0 + r / 64) = B0 at t0 ⊢
  generalize UInt8.ofNat (0x80 + r % 64) = B1 at t1 ⊢
  have hb0a : ¬ B0 < 0x80 := by rw [UInt8.lt_iff_toNat_lt, t0]; simp; omega
  have hb0b : ¬ B0 < 0xC2 := by rw [UInt8.lt_iff_toNat_lt, t0]; simp; omega
  have hb0c : B0 < 0xE0 := by rw [UInt8.lt_iff_toNat_lt, t0]; simp; omega
  have hc : isCont B1 = true := by
    simp only [isCont, Bool.and_eq_true, decide_eq_true_eq, UInt8.le_iff_toNat_le, t1]; simp; omega
  simp only [List.cons_append, List.nil_append, decodeRune, hb0a, hb0b, hb0c, hc, if_true, if_false]
  have hv := decode2_val B0 B1 hb0b hb0c hc
  have hr : (B0.toNat &&& 0x1F) <<< 6 ||| B1.toNat &&& 0x3F = r := hv.trans (by omega)
  exact congrArg (fun v => (v, 2)) hr
end Utf8

namespace Utf8

theorem or_shift12 (a b : Nat) (hb : b < 4096) : (a <<< 12) ||| b = a * 4096 + b := by
  rw [← Nat.shiftLeft_add_eq_or_of_lt (by simpa using hb), Nat.shiftLeft_eq]
theorem or_shift18 (a b : Nat) (hb : b < 262144) : (a <<< 18) ||| b = a * 262144 + b := by
  rw [← Nat.shiftLeft_add_eq_or_of_lt (by simpa using hb), Nat.shiftLeft_eq]
theorem shift6 (a : Nat) : a <<< 6 = a * 64 := by rw [Nat.shiftLeft_eq]
theorem shift12 (a : Nat) : a <<< 12 = a * 4096 := by rw [Nat.shiftLeft_eq]

/-- value of a 3-byte decode, arithmetically -/
theorem decode3_val (b0 b1 b2 : UInt8) (h0 : ¬ b0 < 0xE0) (h1 : b0 < 0xF0) (hc1 : isCont b1 = true) (hc2 : isCont b2 = true) :
    ((b0.toNat &&& 0x0F) <<< 12) ||| ((b1.toNat &&& 0x3F) <<< 6) ||| (b2.toNat &&& 0x3F)
      = (b0.toNat - 0xE0) * 4096 + (b1.toNat - 0x80) * 64 + (b2.toNat - 0x80) := by
  rw [lead3 b0 h0 h1, (cont6 b1 hc1).1, (cont6 b2 hc2).1]
  have c1 := cont6 b1 hc1
  have c2 := cont6 b2 hc2
  have e1 : ((b0.toNat - 0xE0) <<< 12) ||| ((b1.toNat - 0x80) <<< 6) = (b0.toNat - 0xE0) * 4096 + (b1.toNat - 0x80) * 64 := by
    rw [or_shift12 _ _ (by rw [shift6]; omega), shift6]
  have e2 : (b0.toNat - 0xE0) * 4096 + (b1.toNat - 0x80) * 64 = ((b0.toNat - 0xE0) * 64 + (b1.toNat - 0x80)) <<< 6 := by
    rewrite [shift6]; omega
  rw [e1, e2, or_shift6 _ _ (by omega)]
  omega
end Utf8

namespace Utf8

theorem uint8_eq_of_toNat (a b : UInt8) (h : a.toNat = b.toNat) : a = b := UInt8.toNat_inj.mp h

/-- `accept` in terms of `toNat` (no byte enumeration) -/
theorem accept_of_toNat (b0 b1 : UInt8)
    (hlo : (if b0.toNat = 0xE0 then 0xA0 else if b0.toNat = 0xF0 then 0x90 else 0x80) ≤ b1.toNat)
    (hhi : b1.toNat ≤ (if b0.toNat = 0xED then 0x9F else if b0.toNat = 0xF4 then 0x8F else 0xBF)) :
    accept b0 b1 = true := by
  have beq_iff : ∀ (c : UInt8), (b0 == c) = true ↔ b0.toNat = c.toNat := by
    intro c; rw [beq_iff_eq]; exact ⟨fun h => by rw [h], fun h => uint8_eq_of_toNat _ _ h⟩
  simp only [accept, Bool.and_eq_true, decide_eq_true_eq, UInt8.le_iff_toNat_le]
  constructor
  · by_cases h1 : b0.toNat = 0xE0
    · have : (b0 == 0xE0) = true := (beq_iff 0xE0).mpr (by simpa using h1)
      simp only [this, if_true]; simp only [h1, if_true] at hlo; simpa using hlo
    · have n1 : ¬ (b0 == 0xE0) = true := fun h => h1 (by simpa using (beq_iff 0xE0).mp h)
      by_cases h2 : b0.toNat = 0xF0
      · have : (b0 == 0xF0) = true := (beq_iff 0xF0).mpr (by simpa using h2)
        simp only [n1, this, if_true, if_false]; simp only [h1, h2, if_true, if_false] at hlo; simpa using hlo
      · have n2 : ¬ (b0 == 0xF0) = true := fun h => h2 (by simpa using (beq_iff 0xF0).mp h)
        simp only [n1, n2, if_false]; simp only [h1, h2, if_false] at hlo; simpa using hlo
  · by_cases h1 : b0.toNat = 0xED
    · have : (b0 == 0xED) = true := (beq_iff 0xED).mpr (by simpa using h1)
      simp only [this, if_true]; simp only [h1, if_true] at hhi; simpa using hhi
    · have n1 : ¬ (b0 == 0xED) = true := fun h => h1 (by simpa using (beq_iff 0xED).mp h)
      by_cases h2 : b0.toNat = 0xF4
      · have : (b0 == 0xF4) = true := (beq_iff 0xF4).mpr (by simpa using h2)
        simp only [n1, this, if_true, if_false]; simp only [h1, h2, if_true, if_false] at hhi; simpa using hhi
      · have n2 : ¬ (b0 == 0xF4) = true := fun h => h2 (by simpa using (beq_iff 0xF4).mp h)
        simp only [n1, n2, if_false]; simp only [h1, h2, if_false] at hhi; simpa using hhi

theorem isCont_of_toNat (b : UInt8) (h1 : 0x80 ≤ b.toNat) (h2 : b.toNat ≤ 0xBF) : isCont b = true := by
  simp only [isCont, Bool.and_eq_true, decide_eq_true_eq, UInt8.le_iff_toNat_le]
  exact ⟨by simpa using h1, by simpa using h2⟩

/-- E1 (3-byte case) -/
theorem decode_encode3 (r : Nat) (h1 : 0x800 ≤ r) (h2 : r < 0x10000) (hs : r < 0xD800 ∨ 0xDFFF < r) (y : Bytes) :
    decodeRune (encode r ++ y) = (r, 3) := by
  have e : encode r = [UInt8.ofNat (0xE0 + r / 4096), UInt8.ofNat (0x80 + r / 64 % 64), UInt8.ofNat (0x80 + r % 64)] := by
    simp [encode, show ¬ r < 0x80 by omega, show ¬ r < 0x800 by omega, h2]
  rw [e]
  have t0 := ofNat_toNat_lt (0xE0 + r / 4096) (by omega)
  have t1 := ofNat_toNat_lt (0x80 + r / 64 % 64) (by omega)
  have t2 := ofNat_toNat_lt (0x80 + r % 64) (by omega)
  generalize UInt8.ofNat (0xE0 + r / 4096) = B0 at t0 ⊢
  generalize UInt8.ofNat (0x80 + r / 64 % 64) = B1 at t1 ⊢
  generalize UInt8.ofNat (0x80 + r % 64) = B2 at t2 ⊢
  have c1 : ¬ B0 < 0x80 := by rw [UInt8.lt_iff_toNat_lt, t0]; simp; omega
  have c2 : ¬ B0 < 0xC2 := by rw [UInt8.lt_iff_toNat_lt, t0]; simp; omega
  have c3 : ¬ B0 < 0xE0 := by rw [UInt8.lt_iff_toNat_lt, t0]; simp
  have c4 : B0 < 0xF0 := by rw [UInt8.lt_iff_toNat_lt, t0]; simp; omega
  have hacc : accept B0 B1 = true := by
    apply accept_of_toNat
    · rw [t0, t1]; split
      · omega
      · split <;> omega
    · rw [t0, t1]; split
      · rcases hs with hs | hs <;> omega
      · split <;> omega
  have hc1 : isCont B1 = true := isCont_of_toNat _ (by omega) (by omega)
  have hc2 : isCont B2 = true := isCont_of_toNat _ (by omega) (by omega)
  have hcond : (accept B0 B1 && isCont B2) = true := by rw [hacc, hc2]; rfl
  simp only [List.cons_append, List.nil_append, decodeRune, c1, c2, c3, c4, hcond, if_true, if_false]
  have hv := decode3_val B0 B1 B2 c3 c4 hc1 hc2
  have hr : (B0.toNat &&& 0x0F) <<< 12 ||| (B1.toNat &&& 0x3F) <<< 6 ||| B2.toNat &&& 0x3F = r := hv.trans (by omega)
  exact congrArg (fun v => (v, 3)) hr
end Utf8

namespace Utf8

theorem shift18 (a : Nat) : a <<< 18 = a * 262144 := by rw [Nat.shiftLeft_eq]

theorem or4 (a b c d : Nat) (hb : b < 64) (hc : c < 64) (hd : d < 64) :
    (a <<< 18) ||| (b <<< 12) ||| (c <<< 6) ||| d = a * 262144 + b * 4096 + c * 64 + d := by
  have e1 : (a <<< 18) ||| (b <<< 12) = (a * 64 + b) <<< 12 := by
    rw [or_shift18 _ _ (by rewrite [shift12]; omega)]
    rewrite [shift12, shift12]; omega
  have e3 : ((a * 64 + b) <<< 12) ||| (c <<< 6) = ((a * 64 + b) * 64 + c) <<< 6 := by
    rw [or_shift12 _ _ (by rewrite [shift6]; omega)]
    rewrite [shift6, shift6]; omega
  rw [e1, e3, or_shift6 _ _ hd]
  omega

/-- value of a 4-byte decode, arithmetically -/
theorem decode4_val (b0 b1 b2 b3 : UInt8) (h0 : ¬ b0 < 0xF0) (h1 : b0 < 0xF5)
    (hc1 : isCont b1 = true) (hc2 : isCont b2 = true) (hc3 : isCont b3 = true) :
    ((b0.toNat &&& 0x07) <<< 18) ||| ((b1.toNat &&& 0x3F) <<< 12) ||| ((b2.toNat &&& 0x3F) <<< 6) ||| (b3.toNat &&& 0x3F)
      = (b0.toNat - 0xF0) * 262144 + (b1.toNat - 0x80) * 4096 + (b2.toNat - 0x80) * 64 + (b3.toNat - 0x80) := by
  rw [lead4 b0 h0 h1, (cont6 b1 hc1).1, (cont6 b2 hc2).1, (cont6 b3 hc3).1]
  have c1 := cont6 b1 hc1
  have c2 := cont6 b2 hc2
  have c3 := cont6 b3 hc3
  exact or4 _ _ _ _ (by omega) (by omega) (by omega)

/-- E1 (4-byte case) -/
theorem decode_encode4 (r : Nat) (h1 : 0x10000 ≤ r) (h2 : r ≤ 0x10FFFF) (y : Bytes) :
    decodeRune (encode r ++ y) = (r, 4) := by
  have e : encode r = [UInt8.ofNat (0xF0 + r / 262144), UInt8.ofNat (0x80 + r / 4096 % 64),
      UInt8.ofNat (0x80 + r / 64 % 64), UInt8.ofNat (0x80 + r % 64)] := by
    simp [encode, show ¬ r < 0x80 by omega, show ¬ r < 0x800 by omega, show ¬ r < 0x10000 by omega]
  rw [e]
  have t0 := ofNat_toNat_lt (0xF0 + r / 262144) (by omega)
  have t1 := ofNat_toNat_lt (0x80 + r / 4096 % 64) (by omega)
  have t2 := ofNat_toNat_lt (0x80 + r / 64 % 64) (by omega)
  have t3 := ofNat_toNat_lt (0x80 + r % 64) (by omega)
  generalize UInt8.ofNat (0xF0 + r / 262144) = B0 at t0 ⊢
  generalize UInt8.ofNat (0x80 + r / 4096 % 64) = B1 at t1 ⊢
  generalize UInt8.ofNat (0x80 + r / 64 % 64) = B2 at t2 ⊢
  generalize UInt8.ofNat (0x80 + r % 64) = B3 at t3 ⊢
  have c1 : ¬ B0 < 0x80 := by rw [UInt8.lt_iff_toNat_lt, t0]; simp; omega
  have c2 : ¬ B0 < 0xC2 := by rw [UInt8.lt_iff_toNat_lt, t0]; simp; omega
  have c3 : ¬ B0 < 0xE0 := by rw [UInt8.lt_iff_toNat_lt, t0]; simp; omega
  have c4 : ¬ B0 < 0xF0 := by rw [UInt8.lt_iff_toNat_lt, t0]; simp
  have c5 : B0 < 0xF5 := by rw [UInt8.lt_iff_toNat_lt, t0]; simp; omega
  have hacc : accept B0 B1 = true := by
    apply accept_of_toNat
    · rw [t0, t1]; split
      · omega
      · split <;> omega
    · rw [t0, t1]; split
      · omega
      · split <;> omega
  have hc1 : isCont B1 = true := isCont_of_toNat _ (by omega) (by omega)
  have hc2 : isCont B2 = true := isCont_of_toNat _ (by omega) (by omega)
  have hc3 : isCont B3 = true := isCont_of_toNat _ (by omega) (by omega)
  have hcond : (accept B0 B1 && isCont B2 && isCont B3) = true := by rw [hacc, hc2, hc3]; rfl
  simp only [List.cons_append, List.nil_append, decodeRune, c1, c2, c3, c4, c5, hcond, if_true, if_false]
  have hv := decode4_val B0 B1 B2 B3 c4 c5 hc1 hc2 hc3
  have hr : (B0.toNat &&& 0x07) <<< 18 ||| (B1.toNat &&& 0x3F) <<< 12 ||| (B2.toNat &&& 0x3F) <<< 6 ||| B3.toNat &&& 0x3F = r :=
    hv.trans (by omega)
  exact congrArg (fun v => (v, 4)) hr

theorem decode_encode1 (r : Nat) (h : r < 0x80) (y : Bytes) : decodeRune (encode r ++ y) = (r, 1) := by
  have e : encode r = [UInt8.ofNat r] := by simp [encode, h]
  rw [e]
  have t0 := ofNat_toNat_lt r (by omega)
  generalize UInt8.ofNat r = B0 at t0 ⊢
  have c1 : B0 < 0x80 := by rw [UInt8.lt_iff_toNat_lt, t0]; simpa using h
  simp only [List.cons_append, List.nil_append, decodeRune, c1, if_true, t0]

/-- E1: a valid rune decodes back from its encoding, whatever follows -/
theorem decode_encode (r : Nat) (hv : validRune r) (y : Bytes) :
    decodeRune (encode r ++ y) = (r, (encode r).length) := by
  by_cases h1 : r < 0x80
  · rw [decode_encode1 r h1]; simp [encode, h1]
  by_cases h2 : r < 0x800
  · rw [decode_encode2 r (by omega) h2]; simp [encode, h1, h2]
  by_cases h3 : r < 0x10000
  · rw [decode_encode3 r (by omega) h3 (by rcases hv with h | h; exact Or.inl h; exact Or.inr h.1)]
    simp [encode, h1, h2, h3]
  · rw [decode_encode4 r (by omega) (by rcases hv with h | h; omega; exact h.2)]
    simp [encode, h1, h2, h3]
#print axioms decode_encode
end Utf8
