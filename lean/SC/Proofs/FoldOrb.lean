import SC.Model.Fold

theorem forceNat_eq {α : Type} (n : Nat) (k : Nat → α) : forceNat n k = k n := by
  cases n <;> rfl



/-- whatever `get` returns is the default or a stored entry under that key -/
theorem T.get_mem (t : T) (h : Nat) : t.get h = (0, 0) ∨ (h, (t.get h).1, (t.get h).2) ∈ t.toList := by
  induction t with
  | leaf => simp [T.get]
  | node l k a b r ihl ihr =>
    simp only [T.get, T.toList]
    split
    · rcases ihl with h0 | hm
      · exact Or.inl h0
      · exact Or.inr (by simp [hm])
    · split
      · rcases ihr with h0 | hm
        · exact Or.inl h0
        · exact Or.inr (by simp [hm])
      · have : h = k := by omega
        subst this; right; simp


namespace Fold


theorem lookupOr_ne (t : T) (h u : Nat) (hne : lookupOr t h u ≠ u) : (h, u, lookupOr t h u) ∈ t.toList := by
  unfold lookupOr at hne ⊢
  rcases T.get_mem t h with h0 | hm
  · rw [h0] at hne; simp only [] at hne
    split at hne
    · rename_i h0u; exact absurd h0u.symm (fun h => hne (by omega))
    · exact absurd rfl hne
  · generalize hg : t.get h = p at hm hne ⊢
    obtain ⟨a, b⟩ := p
    simp only [] at hm hne ⊢
    split at hne
    · rename_i hau; subst hau; rw [if_pos rfl]; exact hm
    · exact absurd rfl hne



def cfKeys : List Nat := Gen.T121.cfTree.toList.map (·.2.1)
def orbKeys : List Nat := Gen.Uni.orbTree.toList.map (·.1)

theorem caseFold_of_not_key (u : Nat) (h : u ∉ cfKeys) : caseFold u = u := by
  unfold caseFold
  rw [forceNat_eq]
  refine Classical.byContradiction fun hne => h ?_
  have := lookupOr_ne Gen.T121.cfTree (hashCF u) u hne
  exact List.mem_map.mpr ⟨_, this, rfl⟩

theorem orbMin_of_not_key (u : Nat) (h : u ∉ orbKeys) : orbMin u = u := by
  unfold orbMin
  rcases T.get_mem Gen.Uni.orbTree u with h0 | hm
  · rw [h0]; simp
  · generalize hg : Gen.Uni.orbTree.get u = p at hm ⊢
    obtain ⟨a, b⟩ := p
    simp only []
    split
    · exact absurd (List.mem_map.mpr ⟨_, hm, rfl⟩) h
    · rfl

def law (c : Nat) : Bool :=
  forceNat (caseFold c) fun f => forceNat (orbMin c) fun g => orbMin f == g && caseFold g == f

theorem law_cfKeys : cfKeys.all law = true := by decide +kernel
theorem law_orbKeys : orbKeys.all law = true := by decide +kernel

theorem law_all (c : Nat) : orbMin (caseFold c) = orbMin c ∧ caseFold (orbMin c) = caseFold c := by
  have key : law c = true := by
    by_cases h1 : c ∈ cfKeys
    · exact List.all_eq_true.mp law_cfKeys c h1
    · by_cases h2 : c ∈ orbKeys
      · exact List.all_eq_true.mp law_orbKeys c h2
      · simp [law, forceNat_eq, caseFold_of_not_key c h1, orbMin_of_not_key c h2]
  simpa [law, forceNat_eq] using key

/-- C03 core: the package's code-point equivalence is exactly the toolchain's orbit equivalence,
    for every value of the look-up domain (no bound on `a`, `b`). -/
theorem caseFold_eq_iff_orbMin_eq (a b : Nat) : caseFold a = caseFold b ↔ orbMin a = orbMin b := by
  have ha := law_all a
  have hb := law_all b
  constructor
  · intro h; rw [← ha.1, ← hb.1, h]
  · intro h; rw [← ha.2, ← hb.2, h]

example : caseFold 0x212A = 0x6B ∧ caseFold 0x4B = 0x6B ∧ caseFold 0x17F = 0x73 ∧ caseFold 0x130 = 0x130 := by decide +kernel
#print axioms caseFold_eq_iff_orbMin_eq
end Fold
