import SC.Proofs.FoldOrb
import SC.Proofs.Cmp
import SC.Gen.Consts
/-!
Facts about `tables.CaseFold` that every refinement proof uses, proved from the regenerated
table: idempotence, agreement with `_lower` on ASCII, and the tie between the `_lower` tables of
the two packages and the arithmetic `lower` the models use.
-/
namespace Utf8
open Fold

theorem caseFold_idem' (r : Nat) : caseFold (caseFold r) = caseFold r := by
  by_cases h : caseFold r = r
  · rw [h, h]
  · -- the value of a changed look-up is a fixed point: checked over the entries
    have hfix : Gen.T121.cfTree.toList.all (fun e => caseFold e.2.2 == e.2.2) = true := by decide +kernel
    unfold caseFold at h
    rw [forceNat_eq] at h
    have hm := lookupOr_ne Gen.T121.cfTree (hashCF r) r h
    have := List.all_eq_true.mp hfix _ hm
    simp only [beq_iff_eq] at this
    have e : caseFold r = lookupOr Gen.T121.cfTree (hashCF r) r := by unfold caseFold; rw [forceNat_eq]
    rw [e]; exact this

theorem caseFold_lower : ∀ b : UInt8, b < 0x80 → caseFold b.toNat = (lower b).toNat := by decide +kernel


/-- the `_lower` table of strcase.go is the function `lower` the models use -/
theorem strLower_eq : Gen.Consts.strLower = (List.range 256).map (fun i => (lower (UInt8.ofNat i)).toNat) := by
  decide +kernel
/-- the `_lower` table of bytcase.go is the function `lower` the models use -/
theorem bytLower_eq : Gen.Consts.bytLower = (List.range 256).map (fun i => (lower (UInt8.ofNat i)).toNat) := by
  decide +kernel

end Utf8
