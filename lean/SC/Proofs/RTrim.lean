import SC.Proofs.RPrefix
/-!
`TrimPrefix` / `CutPrefix` (a separate implementation from `hasPrefixUnicode` in the Go code) equal
the specification on every pair of byte strings, both packages.
-/
namespace A
open Utf8 Fold

/-- what TrimPrefix's loops must return: the rest of `s` after the matched code points, or `none` -/
def trimSpec (fold : Nat → Nat) (s p : Bytes) : Option Bytes :=
  if (fdec fold p).isPrefixOf (fdec fold s) then some (s.drop (offAt s (dec p).length)) else none

section
variable (fold : Nat → Nat)
variable (hidem : ∀ r, fold (fold r) = fold r)
variable (hascii : ∀ b : UInt8, b < 0x80 → fold b.toNat = (lower b).toNat)

theorem trimSpec_nil_p (s : Bytes) : trimSpec fold s [] = some s := by
  simp [trimSpec, fdec, dec_nil, offAt_zero]

theorem trimSpec_nil_s (c : UInt8) (p : Bytes) : trimSpec fold [] (c :: p) = none := by
  simp [trimSpec, fdec, dec_nil, dec_cons c p]

/-- one step of the specification on two non-empty strings -/
theorem trimSpec_cons (a c : UInt8) (s p : Bytes) :
    trimSpec fold (a :: s) (c :: p) =
      if fold (decodeRune (c :: p)).1 = fold (decodeRune (a :: s)).1
      then trimSpec fold ((a :: s).drop (decodeRune (a :: s)).2) ((c :: p).drop (decodeRune (c :: p)).2)
      else none := by
  unfold trimSpec
  have hdp : fdec fold (c :: p) = fold (decodeRune (c :: p)).1 :: fdec fold ((c :: p).drop (decodeRune (c :: p)).2) := by
    simp [fdec, dec_cons c p]
  have hds : fdec fold (a :: s) = fold (decodeRune (a :: s)).1 :: fdec fold ((a :: s).drop (decodeRune (a :: s)).2) := by
    simp [fdec, dec_cons a s]
  rw [hdp, hds]
  by_cases heq : fold (decodeRune (c :: p)).1 = fold (decodeRune (a :: s)).1
  · rw [if_pos heq]
    simp only [List.isPrefixOf, heq, beq_self_eq_true, Bool.true_and]
    have hl : (dec (c :: p)).length = (dec ((c :: p).drop (decodeRune (c :: p)).2)).length + 1 := by
      rw [dec_cons c p]; simp
    rw [hl, offAt_succ_cons, ← List.drop_drop]
  · rw [if_neg heq]
    simp [List.isPrefixOf, heq]

include hidem hascii in
theorem tpRunes_spec (byt : Bool) : ∀ (fuel : Nat) (s p : Bytes), p.length ≤ fuel →
    tpRunes fold byt fuel s p = trimSpec fold s p := by
  intro fuel
  induction fuel with
  | zero =>
    intro s p hf
    have : p = [] := by cases p <;> simp_all
    subst this
    rw [trimSpec_nil_p]; cases s <;> rfl
  | succ fuel ih =>
    intro s p hf
    cases p with
    | nil => rw [trimSpec_nil_p]; rfl
    | cons c p =>
      cases s with
      | nil => rw [trimSpec_nil_s]; rfl
      | cons a s =>
        have hw := decodeRune_width_pos c p
        have hlen : ((c :: p).drop (decodeRune (c :: p)).2).length ≤ fuel := by
          simp at hf ⊢; omega
        rw [trimSpec_cons]
        simp only [tpRunes]
        -- the haystack rune as the code has it is the folded decode
        have hsr : (if a < 0x80 then (lower a).toNat else fold (decodeRune (a :: s)).1) = fold (decodeRune (a :: s)).1 := by
          split
          · rename_i ha
            have : decodeRune (a :: s) = (a.toNat, 1) := by simp [decodeRune, ha]
            rw [this, hascii _ ha]
          · rfl
        have hsrest : (if a < 0x80 then s else (a :: s).drop (decodeRune (a :: s)).2) = (a :: s).drop (decodeRune (a :: s)).2 := by
          split
          · rename_i ha
            have : decodeRune (a :: s) = (a.toNat, 1) := by simp [decodeRune, ha]
            rw [this]; simp
          · rfl
        -- the needle rune: raw (strcase) or folded (bytcase)
        have htr : fold (if byt then (if c < 0x80 then (lower c).toNat else fold (decodeRune (c :: p)).1) else (decodeRune (c :: p)).1)
            = fold (decodeRune (c :: p)).1 := by
          cases byt with
          | false => rfl
          | true =>
            simp only [if_true]
            split
            · rename_i hc
              have : decodeRune (c :: p) = (c.toNat, 1) := by simp [decodeRune, hc]
              rw [this, ← hascii _ hc, hidem]
            · rw [hidem]
        rw [hsr, hsrest]
        generalize htrdef : (if byt then (if c < 0x80 then (lower c).toNat else fold (decodeRune (c :: p)).1) else (decodeRune (c :: p)).1) = tr at htr
        by_cases heq : fold (decodeRune (c :: p)).1 = fold (decodeRune (a :: s)).1
        · have hcond : tr = fold (decodeRune (a :: s)).1 ∨ fold tr = fold (decodeRune (a :: s)).1 := by
            right; rw [htr]; exact heq
          rw [if_pos hcond, if_pos heq]
          exact ih _ _ hlen
        · have hcond : ¬ (tr = fold (decodeRune (a :: s)).1 ∨ fold tr = fold (decodeRune (a :: s)).1) := by
            rintro (h | h)
            · apply heq; rw [← htr, h, hidem]
            · apply heq; rw [← htr]; exact h
          rw [if_neg hcond, if_neg heq]

include hidem hascii in
theorem tpAscii_spec (byt : Bool) : ∀ (s p : Bytes), tpAscii fold byt s p = trimSpec fold s p
  | [], [] => by rw [trimSpec_nil_p]; rfl
  | [], c :: p => by rw [trimSpec_nil_s]; rfl
  | a :: s, [] => by rw [trimSpec_nil_p]; rfl
  | a :: s, c :: p => by
    simp only [tpAscii]
    by_cases hu : (a ||| c) &&& 0x80 ≠ 0
    · rw [if_pos hu]
      exact tpRunes_spec fold hidem hascii byt _ _ _ (by simp)
    · rw [if_neg hu]
      have hab := or_and_high a c hu
      have ha : a < 0x80 := hab.1
      have hc : c < 0x80 := hab.2
      have hda : decodeRune (a :: s) = (a.toNat, 1) := by simp [decodeRune, ha]
      have hdc : decodeRune (c :: p) = (c.toNat, 1) := by simp [decodeRune, hc]
      rw [trimSpec_cons, hda, hdc]
      simp only [List.drop_succ_cons, List.drop_zero, hascii a ha, hascii c hc]
      by_cases h1 : lower a = lower c
      · rw [if_pos (Or.inr h1), if_pos (by rw [h1])]
        exact tpAscii_spec byt s p
      · have : ¬ (c = a ∨ lower a = lower c) := by
          rintro (h | h)
          · exact h1 (by rw [h])
          · exact h1 h
        rw [if_neg this, if_neg (fun h => h1 (UInt8.toNat_inj.mp h).symm)]
end

/-- the length pre-check of TrimPrefix only rejects pairs that cannot match -/
theorem trim_precheck_sound (cfg : Cfg) (s p : Bytes)
    (h : s.length * 3 < p.length ∨ (s.length * 2 < p.length ∧ containsKelvin cfg p = false)) :
    ¬ fdec caseFold p <+: fdec caseFold s := by
  intro hp
  have hc := hasPrefixUnicode_contract cfg s p
  have h1 : (hasPrefixUnicode cfg s p).1 = true := hc.1.mpr hp
  unfold hasPrefixUnicode at h1
  have : p.length > s.length * 3 ∨ (p.length > s.length * 2 ∧ containsKelvin cfg p = false) := by
    rcases h with h | ⟨h, hk⟩
    · exact Or.inl h
    · exact Or.inr ⟨h, hk⟩
  rw [if_pos this] at h1
  cases h1

/-- C09: `TrimPrefix` of the algorithm model is the specification, for all byte strings, both packages -/
theorem TrimPrefix_eq (cfg : Cfg) (s p : Bytes) : TrimPrefix cfg s p = S.trimPrefix s p := by
  unfold TrimPrefix S.trimPrefix S.prefixLen S.fruns S.fold S.nrunes
  by_cases hpc : s.length * 3 < p.length ∨ (s.length * 2 < p.length ∧ containsKelvin cfg p = false)
  · rw [if_pos hpc]
    have := trim_precheck_sound cfg s p hpc
    rw [if_neg (fun h => this (List.isPrefixOf_iff_prefix.mp h))]
  · rw [if_neg hpc, tpAscii_spec caseFold caseFold_idem' caseFold_lower]
    unfold trimSpec
    by_cases hp : (fdec caseFold p).isPrefixOf (fdec caseFold s) = true
    · rw [if_pos hp, if_pos hp]
      simp only [List.length_drop]
      have := offAt_le s (dec p).length
      congr 1; omega
    · rw [if_neg hp, if_neg hp]

/-- C09: `CutPrefix` likewise -/
theorem CutPrefix_eq (cfg : Cfg) (s p : Bytes) : CutPrefix cfg s p = S.cutPrefix s p := by
  unfold CutPrefix
  rw [TrimPrefix_eq]
  unfold S.cutPrefix S.trimPrefix
  by_cases hp0 : p.length = 0
  · have : p = [] := List.length_eq_zero_iff.mp hp0
    subst this
    have e : S.prefixLen s [] = some 0 := by
      simp [S.prefixLen, S.fruns, fdec, dec_nil, S.nrunes, offAt_zero]
    simp [e]
  · rw [if_neg hp0]
    cases hq : S.prefixLen s p with
    | none => simp
    | some j =>
      simp only []
      -- a non-empty prefix that matches removes at least one byte
      have hj : 0 < j := by
        unfold S.prefixLen at hq
        split at hq
        · rename_i hpre
          have hj' := Option.some.inj hq
          have hn : 0 < S.nrunes p := by
            unfold S.nrunes
            cases p with
            | nil => simp at hp0
            | cons c p => rw [dec_cons]; simp
          have hle : S.nrunes p ≤ (dec s).length := by
            have := (List.isPrefixOf_iff_prefix.mp hpre).length_le
            simpa [S.fruns, fdec, S.nrunes] using this
          have := offAt_strict s (S.nrunes p - 1) 0 (by omega)
          rw [offAt_zero] at this
          have e : 0 + (S.nrunes p - 1 + 1) = S.nrunes p := by omega
          rw [e] at this; omega
        · cases hq
      have hjl : j ≤ s.length := by
        unfold S.prefixLen at hq
        split at hq
        · rw [← Option.some.inj hq]; exact offAt_le _ _
        · cases hq
      rw [if_pos (by omega)]
end A
