import SC.Proofs.RBrute
/-!
The skip loop of `Index` (first-rune search with `indexRune`/`indexRune2`, second-rune test, verification with
`hasPrefixUnicode` and its `exhausted` flag, hand-over to Rabin-Karp) returns the leftmost match.
-/
namespace A
open Utf8 Fold

def Env.toU (E : Env) : Utf8.Env := ⟨E.cand0, E.cand1, E.idxFirst, E.hp, E.rk, E.t, E.cut⟩

theorem skipLoop_bridge (E : Env) (s : Bytes) (ht : E.t ≤ s.length) :
    ∀ fuel i fails, Utf8.skipLoop E.toU s fuel i fails ≠ -2 → skipLoop E s fuel i fails = Utf8.skipLoop E.toU s fuel i fails := by
  obtain ⟨c0, c1, ix, hp, rk, t, cut⟩ := E
  dsimp only [Env.toU] at ht ⊢
  generalize hE : (⟨c0, c1, ix, hp, rk, t, cut⟩ : Env) = E
  generalize hU : (⟨c0, c1, ix, hp, rk, t, cut⟩ : Utf8.Env) = U
  have e0 : U.cand0 = E.cand0 := by rw [← hE, ← hU]
  have e1 : U.cand1 = E.cand1 := by rw [← hE, ← hU]
  have e2 : U.idxFirst = E.idxFirst := by rw [← hE, ← hU]
  have e3 : U.hp = E.hp := by rw [← hE, ← hU]
  have e4 : U.rk = E.rk := by rw [← hE, ← hU]
  have e5 : U.t = E.t := by rw [← hE, ← hU]
  have e6 : U.cut = E.cut := by rw [← hE, ← hU]
  have ht : E.t ≤ s.length := by rw [← hE]; exact ht
  clear hE hU
  intro fuel
  induction fuel with
  | zero => intro i fails h; simp [Utf8.skipLoop] at h
  | succ fuel ih =>
    intro i fails h
    simp only [skipLoop, Utf8.skipLoop, e0, e1, e2, e3, e4, e5, e6] at h ⊢
    by_cases hit : i < E.t
    · rw [if_pos hit] at h
      rw [if_pos hit, if_pos hit, if_neg (by omega)]
      generalize hj : (if E.cand0 (decodeRune (s.drop i)).1 = true then some (i, (decodeRune (s.drop i)).2)
          else if (E.idxFirst (s.drop (i + (decodeRune (s.drop i)).2))).1 < 0 then none
          else some (i + (decodeRune (s.drop i)).2 + (E.idxFirst (s.drop (i + (decodeRune (s.drop i)).2))).1.toNat,
                     (E.idxFirst (s.drop (i + (decodeRune (s.drop i)).2))).2)) = jump at h ⊢
      cases jump with
      | none => rfl
      | some p =>
        obtain ⟨i', n0⟩ := p
        simp only [] at h ⊢
        by_cases hge : i' + n0 ≥ E.t
        · rw [if_pos hge, if_pos hge]
        · rw [if_neg hge] at h
          rw [if_neg hge, if_neg hge, if_neg (by omega)]
          generalize hv : (if E.cand1 (decodeRune (s.drop (i' + n0))).1 = true then
              (if (E.hp (s.drop (i' + n0 + (decodeRune (s.drop (i' + n0))).2))).1 = true then some (i' : Int)
               else if (E.hp (s.drop (i' + n0 + (decodeRune (s.drop (i' + n0))).2))).2 = true then some (-1) else none)
              else none : Option Int) = verdict at h ⊢
          cases verdict with
          | some r => rfl
          | none =>
            simp only [] at h ⊢
            by_cases hc : E.cut (fails + 1) (i' + n0) = true ∧ i' + n0 < E.t
            · rw [if_pos hc, if_pos hc]
            · rw [if_neg hc] at h
              rw [if_neg hc, if_neg hc]
              exact ih _ _ h
    · rw [if_neg hit, if_neg hit]

/-- an `IsFirstBy` result in the shape the skip-loop proof consumes -/
theorem firstBy_to_hI (P : Nat → Bool) (x : Bytes) (res : Int × Nat) (h : IsFirstBy P x res) :
    (res.1 < 0 → ∀ j, IsBoundary x j → j < x.length → P (decodeRune (x.drop j)).1 = false) ∧
    (0 ≤ res.1 → IsBoundary x res.1.toNat ∧ res.1.toNat < x.length ∧ P (decodeRune (x.drop res.1.toNat)).1 = true ∧
        res.2 = (decodeRune (x.drop res.1.toNat)).2 ∧
        ∀ j, IsBoundary x j → j < res.1.toNat → P (decodeRune (x.drop j)).1 = false) := by
  rcases h with ⟨h1, hn⟩ | ⟨i, h1, hb, hl, hp, hw, hmin⟩
  · exact ⟨fun _ => hn, fun h0 => by omega⟩
  · refine ⟨fun h0 => by omega, fun _ => ?_⟩
    have : res.1.toNat = i := by rw [h1]; simp
    rw [this]; exact ⟨hb, hl, hp, hw, hmin⟩

/-- C01: the main path of `Index` (first two needle runes valid) returns the leftmost match -/
theorem indexSkip_isIndex (cfg : Cfg) (s sub : Bytes) (h2 : (decodeRune sub).2 < sub.length)
    (hu0 : (decodeRune sub).1 ≠ 0xFFFD) :
    IsIndex caseFold s sub (indexSkip cfg s sub) := by
  have hsne : sub ≠ [] := by intro h; subst h; simp at h2
  have hsplit := needle_split sub h2
  unfold indexSkip
  rw [if_neg (by omega)]
  generalize hE : skipEnv cfg s sub = E
  have hc0 : ∀ r, E.cand0 r = cand (decodeRune sub).1 r := by intro r; rw [← hE]; rfl
  have hc1 : ∀ r, E.cand1 r = cand (decodeRune (sub.drop (decodeRune sub).2)).1 r := by intro r; rw [← hE]; rfl
  have hEt : E.t = min s.length (s.length + 2 - sub.length / 3) := by rw [← hE]; rfl
  have hEhp : E.hp = fun y => hasPrefixUnicode cfg y (sub.drop ((decodeRune sub).2 + (decodeRune (sub.drop (decodeRune sub).2)).2)) := by rw [← hE]; rfl
  have hErk : E.rk = fun x => indexRabinKarpUnicode cfg x sub := by rw [← hE]; rfl
  have hEix : E.idxFirst = fun x => if (foldsExcl (decodeRune sub).1).1 = 0
        then indexRune2 cfg x (ulHack (decodeRune sub).1).2 (ulHack (decodeRune sub).1).1
        else indexRune cfg x ((ulHack (decodeRune sub).1).2 : Int) := by rw [← hE]; rfl
  -- the two candidates u0, l0 are fold partners of the first needle rune
  have hv0 : validRune (decodeRune sub).1 := decodeRune_valid sub hsne
  have hcu : cand (decodeRune sub).1 (ulHack (decodeRune sub).1).1 = true := by
    rw [← cand_variant3]; simp
  have hcl : cand (decodeRune sub).1 (ulHack (decodeRune sub).1).2 = true := by
    rw [← cand_variant3]; simp
  have hfu := (cand_iff _ _).mp hcu
  have hfl := (cand_iff _ _).mp hcl
  obtain ⟨hvu, hvu'⟩ := orbit_valid _ _ hv0 hu0 hfu
  obtain ⟨hvl, hvl'⟩ := orbit_valid _ _ hv0 hu0 hfl
  have hfirst : ∀ x, IsFirstBy E.cand0 x (E.idxFirst x) := by
    intro x
    rw [hEix]
    simp only []
    have hcongr : ∀ r, (caseFold r == caseFold (ulHack (decodeRune sub).1).2) = E.cand0 r := by
      intro r
      rw [hc0, hfl]
      cases hcd : cand (decodeRune sub).1 r with
      | true => exact beq_iff_eq.mpr ((cand_iff _ _).mp hcd)
      | false =>
        cases hb : caseFold r == caseFold (decodeRune sub).1 with
        | false => rfl
        | true => rw [(cand_iff _ _).mpr (beq_iff_eq.mp hb)] at hcd; cases hcd
    by_cases hf : (foldsExcl (decodeRune sub).1).1 = 0
    · rw [if_pos hf]
      apply isFirstBy_congr _ _ hcongr
      apply indexRune2_firstBy cfg x _ _ hvl hvl' hvu hvu'
      intro r
      rw [hcongr, hc0, ← cand_variant3, hf]
      simp [Bool.or_comm]
    · rw [if_neg hf]
      apply isFirstBy_congr _ _ hcongr
      exact indexRune_firstBy cfg x _ hvl hvl'
  have H : Utf8.Hyp caseFold E.toU s sub (caseFold (decodeRune sub).1) (caseFold (decodeRune (sub.drop (decodeRune sub).2)).1)
      (fdec caseFold (sub.drop ((decodeRune sub).2 + (decodeRune (sub.drop (decodeRune sub).2)).2))) := by
    refine ⟨?_, hsplit, ?_, ?_, ?_, ?_, ?_, ?_⟩
    · show E.t ≤ s.length; rw [hEt]; exact Nat.min_le_left _ _
    · intro r; show E.cand0 r = true ↔ _; rw [hc0]; exact cand_iff _ _
    · intro r; show E.cand1 r = true ↔ _; rw [hc1]; exact cand_iff _ _
    · intro i hi hm
      show _ < E.t
      rw [hEt]; exact window_bound' s sub _ _ _ hsplit i hi hm
    · intro x
      exact firstBy_to_hI E.cand0 x (E.idxFirst x) (hfirst x)
    · intro y
      have he : E.toU.hp y = hasPrefixUnicode cfg y (sub.drop ((decodeRune sub).2 + (decodeRune (sub.drop (decodeRune sub).2)).2)) := by
        show E.hp y = _; rw [hEhp]
      rw [he]; exact hasPrefixUnicode_contract cfg y _
    · intro x
      have he : E.toU.rk x = indexRabinKarpUnicode cfg x sub := by show E.rk x = _; rw [hErk]
      rw [he]; exact indexRabinKarpUnicode_isIndex cfg x sub hsne
  have hcorrect := Utf8.skipLoop_correct H (s.length + 2) 0 0 (isBoundary_zero s) (by omega) (fun j _ hj => by omega)
  rw [skipLoop_bridge E s (by rw [hEt]; exact Nat.min_le_left _ _) _ _ _ (isIndex_ne_m2 _ _ _ _ hcorrect)]
  exact hcorrect

end A
