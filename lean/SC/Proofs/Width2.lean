import SC.Proofs.Width
namespace Utf8
open A
open Fold

/-- a 3-byte decode is a BMP rune ≥ 0x800 -/
theorem decodeRune_w3 (x : Bytes) (h : (decodeRune x).2 = 3) :
    0x800 ≤ (decodeRune x).1 ∧ (decodeRune x).1 < 0x10000 := by
  have k0 : ∀ b0 : UInt8, b0.toNat &&& 0x0F < 16 := by decide +kernel
  have k1 : ∀ b : UInt8, b.toNat &&& 0x3F < 64 := by decide +kernel
  have ke0 : ∀ b0 : UInt8, ¬ b0 < 0xE0 → b0 < 0xF0 → (b0 == 0xE0) = false → 1 ≤ b0.toNat &&& 0x0F := by decide +kernel
  have ka0 : ∀ b1 : UInt8, 0xA0 ≤ b1 → 0x20 ≤ b1.toNat &&& 0x3F ∨ 0xC0 ≤ b1 := by decide +kernel
  have kc : ∀ b1 : UInt8, isCont b1 = true → ¬ 0xC0 ≤ b1 := by decide +kernel
  match x with
  | [] => simp [decodeRune] at h
  | [a] => have := decodeRune_width_le [a]; simp at this; omega
  | [a, b] => have := decodeRune_width_le [a, b]; simp at this; omega
  | b0 :: b1 :: b2 :: tl =>
    have hdef : decodeRune (b0 :: b1 :: b2 :: tl) =
        if b0 < 0x80 then (b0.toNat, 1)
        else if b0 < 0xC2 then (runeError, 1)
        else if b0 < 0xE0 then (if isCont b1 then (((b0.toNat &&& 0x1F) <<< 6) ||| (b1.toNat &&& 0x3F), 2) else (runeError, 1))
        else if b0 < 0xF0 then
          (if accept b0 b1 && isCont b2 then
            (((b0.toNat &&& 0x0F) <<< 12) ||| ((b1.toNat &&& 0x3F) <<< 6) ||| (b2.toNat &&& 0x3F), 3)
           else (runeError, 1))
        else decodeRune (b0 :: b1 :: b2 :: tl) := by
      by_cases c1 : b0 < 0x80 <;> by_cases c2 : b0 < 0xC2 <;> by_cases c3 : b0 < 0xE0 <;> by_cases c4 : b0 < 0xF0 <;>
        simp [decodeRune, c1, c2, c3, c4]
    by_cases c1 : b0 < 0x80
    · rw [hdef] at h; simp [c1] at h
    by_cases c2 : b0 < 0xC2
    · rw [hdef] at h; simp [c1, c2] at h
    by_cases c3 : b0 < 0xE0
    · rw [hdef] at h; simp only [c1, c2, c3, if_true, if_false] at h; split at h <;> simp at h
    by_cases c4 : b0 < 0xF0
    · rw [hdef] at h ⊢
      simp only [c1, c2, c3, c4, if_true, if_false] at h ⊢
      by_cases hc : (accept b0 b1 && isCont b2) = true
      · simp only [hc, if_true] at h ⊢
        simp only [Bool.and_eq_true] at hc
        have hb1c := accept_isCont _ _ hc.1
        have h0 := k0 b0; have h1 := k1 b1; have h2 := k1 b2
        constructor
        · -- lower bound
          by_cases he0 : (b0 == 0xE0) = true
          · have e : b0 = 0xE0 := by simpa using he0
            have hlo : (0xA0 : UInt8) ≤ b1 := by
              have hacc := hc.1
              simp only [accept, Bool.and_eq_true, decide_eq_true_eq] at hacc
              have := hacc.1; subst e; simpa using this
            rcases ka0 b1 hlo with h3 | h3
            · have : 0x20 <<< 6 ≤ (b1.toNat &&& 0x3F) <<< 6 := by
                simp only [Nat.shiftLeft_eq]; exact Nat.mul_le_mul_right _ h3
              have hA : (b1.toNat &&& 63) <<< 6 ≤ (b0.toNat &&& 15) <<< 12 ||| (b1.toNat &&& 63) <<< 6 := Nat.right_le_or
              have hB : (b0.toNat &&& 15) <<< 12 ||| (b1.toNat &&& 63) <<< 6 ≤ ((b0.toNat &&& 15) <<< 12 ||| (b1.toNat &&& 63) <<< 6) ||| (b2.toNat &&& 63) := Nat.left_le_or
              have : (0x20 : Nat) <<< 6 = 0x800 := by decide
              omega
            · exact absurd h3 (kc b1 hb1c)
          · have he0' : (b0 == 0xE0) = false := by simpa using he0
            have h3 := ke0 b0 c3 c4 he0'
            have : 1 <<< 12 ≤ (b0.toNat &&& 0x0F) <<< 12 := by
              simp only [Nat.shiftLeft_eq]; exact Nat.mul_le_mul_right _ h3
            have hA : (b0.toNat &&& 15) <<< 12 ≤ (b0.toNat &&& 15) <<< 12 ||| (b1.toNat &&& 63) <<< 6 := Nat.left_le_or
            have hB : (b0.toNat &&& 15) <<< 12 ||| (b1.toNat &&& 63) <<< 6 ≤ ((b0.toNat &&& 15) <<< 12 ||| (b1.toNat &&& 63) <<< 6) ||| (b2.toNat &&& 63) := Nat.left_le_or
            have : (1 : Nat) <<< 12 = 0x1000 := by decide
            omega
        · -- upper bound: all three parts are below 2^16
          apply Nat.or_lt_two_pow (n := 16)
          · apply Nat.or_lt_two_pow (n := 16)
            · have : (b0.toNat &&& 15) <<< 12 = (b0.toNat &&& 15) * 4096 := by simp [Nat.shiftLeft_eq]
              omega
            · have : (b1.toNat &&& 63) <<< 6 = (b1.toNat &&& 63) * 64 := by simp [Nat.shiftLeft_eq]
              omega
          · omega
      · simp [hc] at h
    · -- b0 ≥ 0xF0: width is 1 or 4
      exfalso
      have hw : (decodeRune (b0 :: b1 :: b2 :: tl)).2 = 1 ∨ (decodeRune (b0 :: b1 :: b2 :: tl)).2 = 4 := by
        simp only [decodeRune, c1, c2, c3, c4, if_false]
        repeat' split
        all_goals simp
      omega

/-- table facts for the ×2 relation -/
def cfEntriesOK2 : Bool :=
  Gen.T121.cfTree.toList.all fun e =>
    -- a BMP rune ≥ 0x800 folding to ASCII is the Kelvin sign; nothing folds to U+FFFD; 1/2-byte runes never fold to ≥ 0x10000
    (!(0x800 ≤ e.2.1 && e.2.1 < 0x10000 && e.2.2 < 0x80) || e.2.1 == 0x212A) && e.2.2 != 0xFFFD

theorem cfEntriesOK2_true : cfEntriesOK2 = true := by decide +kernel

theorem caseFold_entry2 (r : Nat) (h : caseFold r ≠ r) :
    (0x800 ≤ r → r < 0x10000 → caseFold r < 0x80 → r = 0x212A) ∧ caseFold r ≠ 0xFFFD := by
  unfold caseFold at h ⊢
  rw [forceNat_eq] at h ⊢
  have hm := lookupOr_ne Gen.T121.cfTree (hashCF r) r h
  have := List.all_eq_true.mp cfEntriesOK2_true _ hm
  simp only [Bool.and_eq_true, Bool.or_eq_true, Bool.not_eq_true', Bool.and_eq_false_imp, decide_eq_true_eq,
    decide_eq_false_iff_not, beq_iff_eq, bne_iff_ne, ne_eq] at this
  constructor
  · intro h1 h2 h3
    rcases this.1 with h4 | h4
    · exact absurd h3 (h4 ⟨h1, h2⟩)
    · exact h4
  · exact this.2

/-- W (×2): outside the Kelvin sign and U+FFFD, fold-equal segments differ in width by at most a factor 2 -/
theorem widthRel2_caseFold (s sub : Bytes) :
    ∀ p ∈ dec sub, ∀ q ∈ dec s, caseFold p.1 = caseFold q.1 → p.1 ≠ 0x212A → p.1 ≠ 0xFFFD → p.2 ≤ 2 * q.2 := by
  intro p hp q hq hpq hk hf
  have h3 := widthRel_caseFold s sub p hp q hq hpq
  obtain ⟨y, hy, hpy⟩ := mem_dec_decode _ sub (Nat.le_refl _) p hp
  obtain ⟨z, hz, hqz⟩ := mem_dec_decode _ s (Nat.le_refl _) q hq
  have hp4 : p.2 ≤ 4 := by rw [hpy]; exact decodeRune_width_le4 y
  have hq1 : 1 ≤ q.2 := by
    rw [hqz]; cases z with
    | nil => exact absurd rfl hz
    | cons c z => exact decodeRune_width_pos c z
  by_cases hq2 : 2 ≤ q.2
  · omega
  · have hq1' : q.2 = 1 := by omega
    by_cases hp3 : p.2 = 3
    · exfalso
      have hr := decodeRune_w3 y (by rw [← hpy]; exact hp3)
      rw [← hpy] at hr
      rcases (by rw [hqz]; exact decodeRune_w1 z (by rw [← hqz]; exact hq1') : q.1 < 0x80 ∨ q.1 = 0xFFFD) with h1 | h1
      · have hfa := caseFold_ascii _ h1
        by_cases hpr : caseFold p.1 = p.1
        · rw [hpr] at hpq; omega
        · exact hk ((caseFold_entry2 p.1 hpr).1 hr.1 hr.2 (by rw [hpq]; exact hfa))
      · rw [h1, caseFold_runeError] at hpq
        by_cases hpr : caseFold p.1 = p.1
        · rw [hpr] at hpq; exact hf hpq
        · exact (caseFold_entry2 p.1 hpr).2 hpq
    · omega
end Utf8
