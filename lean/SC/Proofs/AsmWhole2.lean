import SC.Proofs.AsmAvx
/-!
The three search bodies from their first instruction for **every** configuration: CPU flag off (SSE loop), or on
(AVX2 loop beyond 32 bytes).  Removes the `hcfg` restriction of `AsmWhole`.
-/
namespace Asm
open Kern

set_option maxRecDepth 8000 in
set_option maxHeartbeats 8000000 in
theorem full_indexbytebody (mem : Nat → UInt8) (base len : Nat) (c : UInt8) (s : St) (f : Nat)
    (hb : base + len + 64 < 2 ^ 62)
    (hSI : s.r .SI = base) (hBX : s.r .BX = len) (hAL : s.r .AX % 256 = c.toNat)
    (hmem : s.mem = mem) (hout : s.out = none) (hl : s.loads = [])
    (hf : 9 * (len + 1) + 40 ≤ f) :
    (run Gen.Asm.body_indexbytebody f (block Gen.Asm.body_indexbytebody "entry") s).out =
        some (specIndex (fun b => b == c) mem base len) ∧
    Safe base len (run Gen.Asm.body_indexbytebody f (block Gen.Asm.body_indexbytebody "entry") s).loads := by
  by_cases hcfg : s.avx2 = false ∨ len ≤ 32
  · exact whole_indexbytebody mem base len c s f (by omega) hSI hBX hAL hmem hout hl hcfg hf
  · have havx : s.avx2 = true := by
      cases h : s.avx2 with
      | false => exact absurd (Or.inl h) hcfg
      | true => rfl
    have h32 : 32 < len := by
      have : ¬ len ≤ 32 := fun h => hcfg (Or.inr h)
      omega
    have e16 : 16 % W64 = 16 := by decide
    have e32 : 32 % W64 = 32 := by decide
    have s16 : sgn 16 = 16 := by decide
    have slen : sgn len = (len : Int) := sgn_small len (by omega)
    have hlt : decide ((len : Int) < 16) = false := decide_eq_false (by omega)
    have hcf : (decide (len < 32) || (len == 32)) = false := by
      have h1 : ¬ len < 32 := by omega
      have h2 : ¬ len = 32 := by omega
      simp [h1, h2]
    obtain ⟨g, rfl⟩ : ∃ g, f = g + 9 := ⟨f - 9, by omega⟩
    have hstep : ∃ s' : St, run Gen.Asm.body_indexbytebody (g + 9) (block Gen.Asm.body_indexbytebody "entry") s =
          run Gen.Asm.body_indexbytebody g (block Gen.Asm.body_indexbytebody "avx2") s' ∧
        s'.avx2 = true ∧ s'.r .SI = base ∧ s'.r .DI = base ∧ s'.r .BX = len ∧ s'.r .AX % 256 = c.toNat ∧
        s'.mem = mem ∧ s'.out = none ∧ s'.loads = [] := by
      refine ⟨?_, ?_, ?_, ?_, ?_, ?_, ?_, ?_, ?_, ?_⟩
      case refine_2 =>
        asm_exec [Gen.Asm.body_indexbytebody, hSI, hBX, e16, e32, s16, slen, hlt, hcf]
        rfl
      all_goals simp [hSI, hBX, hmem, hout, hl, havx, hAL]
    obtain ⟨s', he, i0, i1, i2, i3, i4, i5, i6, i7⟩ := hstep
    rw [he]
    have hlp := avx_indexbytebody_correct mem base len c s' g h32 (by omega) i0 i1 i2 i3 i4 i5 i6 i7 (by omega)
    exact ⟨hlp.1, safe_of_inside base len _ hlp.2⟩

set_option maxRecDepth 8000 in
set_option maxHeartbeats 8000000 in
theorem full_indexbytebodyCase (mem : Nat → UInt8) (base len : Nat) (c : UInt8) (s : St) (f : Nat)
    (hb : base + len + 64 < 2 ^ 62)
    (hSI : s.r .SI = base) (hBX : s.r .BX = len) (hAL : s.r .AX % 256 = c.toNat)
    (hmem : s.mem = mem) (hout : s.out = none) (hl : s.loads = [])
    (hf : 9 * (len + 1) + 50 ≤ f) :
    (run Gen.Asm.body_indexbytebodyCase f (block Gen.Asm.body_indexbytebodyCase "entry") s).out =
        some (specIndex (fun b => (b ||| 0x20) == (c ||| 0x20)) mem base len) ∧
    Safe base len (run Gen.Asm.body_indexbytebodyCase f (block Gen.Asm.body_indexbytebodyCase "entry") s).loads := by
  by_cases hcfg : s.avx2 = false ∨ len ≤ 32
  · exact whole_indexbytebodyCase mem base len c s f (by omega) hSI hBX hAL hmem hout hl hcfg hf
  · have havx : s.avx2 = true := by
      cases h : s.avx2 with
      | false => exact absurd (Or.inl h) hcfg
      | true => rfl
    have h32 : 32 < len := by
      have : ¬ len ≤ 32 := fun h => hcfg (Or.inr h)
      omega
    have e16 : 16 % W64 = 16 := by decide
    have e32 : 32 % W64 = 32 := by decide
    have s16 : sgn 16 = 16 := by decide
    have slen : sgn len = (len : Int) := sgn_small len (by omega)
    have hlt : decide ((len : Int) < 16) = false := decide_eq_false (by omega)
    have hcf : (decide (len < 32) || (len == 32)) = false := by
      have h1 : ¬ len < 32 := by omega
      have h2 : ¬ len = 32 := by omega
      simp [h1, h2]
    obtain ⟨g, rfl⟩ : ∃ g, f = g + 15 := ⟨f - 15, by omega⟩
    have hstep : ∃ s' : St, run Gen.Asm.body_indexbytebodyCase (g + 15) (block Gen.Asm.body_indexbytebodyCase "entry") s =
          run Gen.Asm.body_indexbytebodyCase g (block Gen.Asm.body_indexbytebodyCase "avx2") s' ∧
        s'.avx2 = true ∧ s'.r .SI = base ∧ s'.r .DI = base ∧ s'.r .BX = len ∧ s'.r .AX % 256 = (c ||| 0x20).toNat ∧
        (∀ j, s'.x .X2 j = 0x20) ∧ s'.mem = mem ∧ s'.out = none ∧ s'.loads = [] := by
      refine ⟨?_, ?_, ?_, ?_, ?_, ?_, ?_, ?_, ?_, ?_, ?_⟩
      case refine_2 =>
        asm_exec [Gen.Asm.body_indexbytebodyCase, hSI, hBX, e16, e32, s16, slen, hlt, hcf]
        rfl
      case refine_7 => simp only [if_true, reduceCtorEq, if_false]; exact orl_lane _ c hAL
      case refine_8 => intro j; simp only [if_true]; exact broadcast_lane8 _ 0x20 (by decide) j
      all_goals simp [hSI, hBX, hmem, hout, hl, havx]
    obtain ⟨s', he, i0, i1, i2, i3, i4, ix2, i5, i6, i7⟩ := hstep
    rw [he]
    have hlp := avx_indexbytebodyCase_correct mem base len (c ||| 0x20) s' g h32 (by omega) i0 i1 i2 i3 i4 ix2 i5 i6 i7 (by omega)
    exact ⟨hlp.1, safe_of_inside base len _ hlp.2⟩

set_option maxRecDepth 8000 in
set_option maxHeartbeats 8000000 in
theorem full_indexByteBodyNonASCII (mem : Nat → UInt8) (base len : Nat) (c : UInt8) (s : St) (f : Nat)
    (hb : base + len + 64 < 2 ^ 62)
    (hSI : s.r .SI = base) (hBX : s.r .BX = len)
    (hmem : s.mem = mem) (hout : s.out = none) (hl : s.loads = [])
    (hf : 9 * (len + 1) + 40 ≤ f) :
    (run Gen.Asm.body_indexByteBodyNonASCII f (block Gen.Asm.body_indexByteBodyNonASCII "entry") s).out =
        some (specIndex (fun b => decide (b ≥ 0x80)) mem base len) ∧
    Safe base len (run Gen.Asm.body_indexByteBodyNonASCII f (block Gen.Asm.body_indexByteBodyNonASCII "entry") s).loads := by
  by_cases hcfg : s.avx2 = false ∨ len ≤ 32
  · exact whole_indexByteBodyNonASCII mem base len c s f (by omega) hSI hBX hmem hout hl hcfg hf
  · have havx : s.avx2 = true := by
      cases h : s.avx2 with
      | false => exact absurd (Or.inl h) hcfg
      | true => rfl
    have h32 : 32 < len := by
      have : ¬ len ≤ 32 := fun h => hcfg (Or.inr h)
      omega
    have e16 : 16 % W64 = 16 := by decide
    have e32 : 32 % W64 = 32 := by decide
    have s16 : sgn 16 = 16 := by decide
    have slen : sgn len = (len : Int) := sgn_small len (by omega)
    have hlt : decide ((len : Int) < 16) = false := decide_eq_false (by omega)
    have hcf : (decide (len < 32) || (len == 32)) = false := by
      have h1 : ¬ len < 32 := by omega
      have h2 : ¬ len = 32 := by omega
      simp [h1, h2]
    obtain ⟨g, rfl⟩ : ∃ g, f = g + 10 := ⟨f - 10, by omega⟩
    have hstep : ∃ s' : St, run Gen.Asm.body_indexByteBodyNonASCII (g + 10) (block Gen.Asm.body_indexByteBodyNonASCII "entry") s =
          run Gen.Asm.body_indexByteBodyNonASCII g (block Gen.Asm.body_indexByteBodyNonASCII "avx2") s' ∧
        s'.avx2 = true ∧ s'.r .SI = base ∧ s'.r .DI = base ∧ s'.r .BX = len ∧ s'.r .AX % 256 = (0x80 : UInt8).toNat ∧
        s'.mem = mem ∧ s'.out = none ∧ s'.loads = [] := by
      refine ⟨?_, ?_, ?_, ?_, ?_, ?_, ?_, ?_, ?_, ?_⟩
      case refine_2 =>
        asm_exec [Gen.Asm.body_indexByteBodyNonASCII, hSI, hBX, e16, e32, s16, slen, hlt, hcf]
        rfl
      case refine_7 => simp only [if_true, reduceCtorEq, if_false]; decide
      all_goals simp [hSI, hBX, hmem, hout, hl, havx]
    obtain ⟨s', he, i0, i1, i2, i3, i4, i5, i6, i7⟩ := hstep
    rw [he]
    have hlp := avx_indexByteBodyNonASCII_correct mem base len s' g h32 (by omega) i0 i1 i2 i3 i4 i5 i6 i7 (by omega)
    exact ⟨hlp.1, safe_of_inside base len _ hlp.2⟩

end Asm
