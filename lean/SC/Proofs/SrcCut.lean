import SC.Proofs.SrcNames
import SC.Proofs.Basic
/-!
`Cut` on the regenerated program text of `strcase.go`, relative to `Index`: the call, the `before` slice, the loop that skips one code point
of `s` per code point of `sep` (`range` over `sep`, the ASCII shortcut / `DecodeRuneInString` on `after`), the offsets of the returned slices.
-/
open GoSsa Gen.Src GoSsa.Str Utf8

namespace GoSsa.Str

/-- what is left of `s` after skipping `o` code points; `none` if `s` runs out first (the source then indexes `after[0]` of an empty string) -/
def skipR : Nat → Bytes → Option Bytes
  | 0, s => some s
  | _+1, [] => none
  | o+1, b :: rest => skipR o ((b :: rest).drop (decodeRune (b :: rest)).2)

theorem skipR_length_le : ∀ (o : Nat) (s rest : Bytes), skipR o s = some rest → rest.length ≤ s.length
  | 0, s, rest, h => by simp [skipR] at h; subst h; exact Nat.le_refl _
  | o+1, [], rest, h => by simp [skipR] at h
  | o+1, b :: r, rest, h => by
    simp only [skipR] at h
    have := skipR_length_le o _ rest h
    simp at this ⊢; omega

theorem decodeRune_ascii_w (b : UInt8) (rest : Bytes) (hb : b < 0x80) : (decodeRune (b :: rest)).2 = 1 := by
  simp [decodeRune, hb]

theorem bi_DecodeRuneInString' (b : Bytes) (r o : Nat) (h : Heap) :
    builtin false "unicode/utf8.DecodeRuneInString" [.str b r o] h = some (.ok [.int (decodeRune b).1, .int (decodeRune b).2] h) := rfl

macro "cut_run" "[" ds:Lean.Parser.Tactic.simpLemma,* "]" : tactic =>
  `(tactic| src_run [str_Cut, str_Cut_b0, str_Cut_b1, str_Cut_b2, str_Cut_b3, str_Cut_b4, str_Cut_b5, str_Cut_b6, str_Cut_b7, run_call_unfold,
      bi_DecodeRuneInString', intOf, $ds,*])

/-- what the loop of `Cut` returns from its head -/
def cutRes (s : Bytes) (r0 o0 : Nat) (i : Nat) (h : Heap) (after : Bytes) (off : Nat) : Option Bytes → Res
  | some rest => .ok [.str (s.take i) r0 o0, .str rest r0 (off + (after.length - rest.length)), .bool true] h
  | none => .panic

set_option maxHeartbeats 2000000 in
theorem cut_loop (s sep : Bytes) (r0 o0 : Nat) (i : Nat) (hi : i ≤ s.length) (h : Heap) :
    ∀ (o pos : Nat) (after : Bytes) (off : Nat) (env : Array (List Val)), (dec (sep.drop pos)).length = o → pos ≤ sep.length →
      after.length < 4611686018427387904 → env.size = 17 →
      env.getD 0 [] = [.str s r0 o0] → env.getD 2 [] = [.int i] → env.getD 5 [] = [.iter sep pos] → env.getD 6 [] = [.str after r0 off] →
      ∀ fuel, 20 * o + 20 ≤ fuel →
      run P false fuel ⟨str_Cut, env, 3, [.next 7 (.r 5), .extract 8 (.r 7) 0], .cond (.r 8) 4 5⟩ h
        = cutRes s r0 o0 i h after off (skipR o after) := by
  intro o
  induction o with
  | zero =>
    intro pos after off env ho hpos hal hsz h0 h2 h5 h6 fuel hf
    simp [hsz] at h0 h2 h5 h6
    have hpe : pos = sep.length := by
      rcases Nat.lt_or_ge pos sep.length with hlt | hge
      · rw [List.drop_eq_getElem_cons hlt, dec_cons] at ho; simp at ho
      · omega
    subst hpe
    obtain ⟨m, rfl⟩ : ∃ m, fuel = m + 20 := ⟨fuel - 20, by omega⟩
    have hi' : (i : Int) ≤ s.length := by omega
    cut_run [hsz, h0, h2, h5, h6, skipR, cutRes, hi']
  | succ o ih =>
    intro pos after off env ho hpos hal hsz h0 h2 h5 h6 fuel hf
    simp [hsz] at h0 h2 h5 h6
    simp only [str_Cut, str_Cut_b0, str_Cut_b1, str_Cut_b2, str_Cut_b3, str_Cut_b4, str_Cut_b5, str_Cut_b6, str_Cut_b7] at ih
    have hlt : pos < sep.length := by
      rcases Nat.lt_or_ge pos sep.length with hlt | hge
      · exact hlt
      · rw [List.drop_eq_nil_of_le hge] at ho; simp [dec_nil] at ho
    have hnge : ¬ (sep.length ≤ pos) := by omega
    have hw1 : 1 ≤ (decodeRune (sep.drop pos)).2 := by
      rw [List.drop_eq_getElem_cons hlt]; exact decodeRune_width_pos _ _
    have hw2 : (decodeRune (sep.drop pos)).2 ≤ sep.length - pos := by
      have := decodeRune_width_le (sep.drop pos); simpa using this
    have ho' : (dec (sep.drop (pos + (decodeRune (sep.drop pos)).2))).length = o := by
      have e := ho
      rw [List.drop_eq_getElem_cons hlt, dec_cons] at e
      rw [← List.drop_eq_getElem_cons hlt, List.drop_drop] at e
      simpa using e
    cases after with
    | nil =>
      obtain ⟨m, rfl⟩ : ∃ m, fuel = m + 20 := ⟨fuel - 20, by omega⟩
      cut_run [hsz, h0, h2, h5, h6, hlt, hnge, skipR, cutRes]
    | cons b rest' =>
      have hl1 : (1 : Int) ≤ (rest'.length : Int) + 1 := by omega
      have hl0 : (0 : Int) < (rest'.length : Int) + 1 := by omega
      by_cases hb : b < 0x80
      · have hb' : (b.toNat : Int) < 128 := by have : b.toNat < 128 := hb; omega
        obtain ⟨m, rfl⟩ : ∃ m, fuel = m + 8 := ⟨fuel - 8, by omega⟩
        cut_run [hsz, h0, h2, h5, h6, hlt, hnge, hl1, hl0, hb']
        rw [ih (pos + (decodeRune (sep.drop pos)).2) rest' (off + 1) _ ho' (by omega) (by simp at hal; omega) (by simp [hsz]) (by simp [hsz, h0]) (by simp [hsz, h2])
          (by simp [hsz]) (by simp [hsz]) _ (by omega)]
        have e : skipR (o + 1) (b :: rest') = skipR o rest' := by
          simp [skipR, decodeRune_ascii_w b rest' hb]
        rw [e]
        cases hs : skipR o rest' with
        | none => rfl
        | some r =>
          have := skipR_length_le o rest' r hs
          simp only [cutRes, List.length_cons]
          have e2 : off + 1 + (rest'.length - r.length) = off + (rest'.length + 1 - r.length) := by omega
          rw [e2]
      · have hb' : ¬ ((b.toNat : Int) < 128) := by intro x; apply hb; show b.toNat < 128; omega
        have hq2 : (decodeRune (b :: rest')).2 ≤ rest'.length + 1 := by have := decodeRune_width_le (b :: rest'); simpa using this
        have hq3 : ((decodeRune (b :: rest')).2 : Int) ≤ (rest'.length : Int) + 1 := by omega
        have htk : List.take (rest'.length + 1 - (decodeRune (b :: rest')).2) (List.drop (decodeRune (b :: rest')).2 (b :: rest')) = List.drop (decodeRune (b :: rest')).2 (b :: rest') :=
          List.take_of_length_le (by simp)
        obtain ⟨m, rfl⟩ : ∃ m, fuel = m + 11 := ⟨fuel - 11, by omega⟩
        cut_run [hsz, h0, h2, h5, h6, hlt, hnge, hl1, hl0, hb', hq3, htk]
        rw [ih (pos + (decodeRune (sep.drop pos)).2) (List.drop (decodeRune (b :: rest')).2 (b :: rest')) (off + (decodeRune (b :: rest')).2) _ ho' (by omega)
          (by simp at hal ⊢; omega) (by simp [hsz]) (by simp [hsz, h0]) (by simp [hsz, h2]) (by simp [hsz]) (by simp [hsz]) _ (by omega)]
        have e : skipR (o + 1) (b :: rest') = skipR o (List.drop (decodeRune (b :: rest')).2 (b :: rest')) := by simp [skipR]
        rw [e]
        cases hs : skipR o (List.drop (decodeRune (b :: rest')).2 (b :: rest')) with
        | none => rfl
        | some r =>
          have := skipR_length_le o _ r hs
          simp only [List.length_drop, List.length_cons] at this
          simp only [cutRes, List.length_cons, List.length_drop]
          have e2 : off + (decodeRune (b :: rest')).2 + (rest'.length + 1 - (decodeRune (b :: rest')).2 - r.length) = off + (rest'.length + 1 - r.length) := by omega
          rw [e2]


/-- `Cut` on the program text, relative to `Index`: given that `Index(s, sep)` returns `i` (−1 or an offset within `s`),
    a negative `i` returns `(s, "", false)`; otherwise `before = s[:i]` and `after` is `s[i:]` with as many code points skipped as `sep` has —
    a sub-slice of `s` at the offset where it lies; if `s` runs out first the program panics (`after[0]` on an empty string) -/
theorem Cut (s sep : Bytes) (r0 o0 r1 o1 : Nat) (h h' : Heap) (i : Int) (hi : -1 ≤ i ∧ i ≤ s.length) (hls : s.length < 4611686018427387904)
    (hC : Ret P false str_Index [.str s r0 o0, .str sep r1 o1] h [.int i] h') :
    ∃ n, ∀ fuel, n ≤ fuel → run P false fuel (Frame.entry str_Cut [.str s r0 o0, .str sep r1 o1]) h =
      if i < 0 then .ok [.str s r0 o0, .str [] 99 0, .bool false] h'
      else cutRes s r0 o0 i.toNat h' (s.drop i.toNat) (o0 + i.toNat) (skipR (dec sep).length (s.drop i.toNat)) := by
  obtain ⟨n, hn⟩ := hC
  refine ⟨n + 20 * (dec sep).length + 30, fun fuel hf => ?_⟩
  rw [Frame.entry]
  by_cases hneg : i < 0
  · obtain ⟨m, rfl⟩ : ∃ m, fuel = n + m + 6 := ⟨fuel - (n + 6), by omega⟩
    have hge : ¬ (0 ≤ i) := by omega
    src_run [str_Cut, str_Cut_b0, str_Cut_b2, run_call_fn (hb := nb_Index) (hf := find_Index), hn, hneg, hge]
  · obtain ⟨m, rfl⟩ : ∃ m, fuel = (n + 20 * (dec sep).length + 20 + m) + 6 := ⟨fuel - (n + 20 * (dec sep).length + 26), by omega⟩
    have hge : 0 ≤ i := by omega
    obtain ⟨k, rfl⟩ : ∃ k : Nat, i = k := ⟨i.toNat, by omega⟩
    have hk : k ≤ s.length := by omega
    have hk' : (k : Int) ≤ s.length := by omega
    have hl := cut_loop s sep r0 o0 k hk h' (dec sep).length 0 (s.drop k) (o0 + k)
    simp only [str_Cut, str_Cut_b0, str_Cut_b1, str_Cut_b2, str_Cut_b3, str_Cut_b4, str_Cut_b5, str_Cut_b6, str_Cut_b7, List.drop_zero] at hl
    have htk : List.take (s.length - k) (List.drop k s) = List.drop k s := List.take_of_length_le (by simp)
    src_run [str_Cut, str_Cut_b0, str_Cut_b1, str_Cut_b2, str_Cut_b3, str_Cut_b4, str_Cut_b5, str_Cut_b6, str_Cut_b7,
      run_call_fn (hb := nb_Index) (hf := find_Index), hn, hneg, hge, intOf, hk', htk]
    rw [hl _ trivial (by omega) (by simp; omega) (by simp) (by simp) (by simp) (by simp) (by simp) _ (by omega)]

end GoSsa.Str
