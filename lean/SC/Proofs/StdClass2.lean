import SC.Proofs.StdClass
import SC.Proofs.RByteLevel
/-!
C20, single-character searches: `IndexRune`, `ContainsRune`, `IndexByte`, `LastIndexByte`, `IndexByteASCII`
against the standard-library namesakes on the two classes.
-/
namespace Std
open Utf8 Spec Fold

/-- the first code point equal to an ASCII value is the first byte equal to it (any bytes) -/
theorem findIdx_ascii (x : Bytes) (ρ : Nat) (hρ : ρ < 0x80) :
    (match (Utf8.runes x).findIdx? (· == ρ) with | some k => ((offAt x k : Nat) : Int) | none => -1) =
      Std.indexByte x (UInt8.ofNat ρ) := by
  obtain ⟨w, h1⟩ := A.findIdx_firstBy (fun v => v == ρ) x
  have h2 := A.firstByte_isFirstBy (fun b => b == UInt8.ofNat ρ)
    (fun b hb => by
      rw [beq_iff_eq.mp hb, UInt8.lt_iff_toNat_lt, ofNat_toNat_lt ρ (by omega)]
      show ρ < 128; omega) x
  have h2' : A.IsFirstBy (fun v => v == ρ) x (S.firstAt (fun y => y.headD 0 == UInt8.ofNat ρ) x 0, 1) := by
    apply A.isFirstBy_congr _ _ _ x _ h2
    intro v
    by_cases hv : v < 0x80
    · rw [decide_eq_true hv, Bool.true_and]
      by_cases he : v = ρ
      · subst he; simp
      · have : ¬ UInt8.ofNat v = UInt8.ofNat ρ := fun h => he (by
          have := congrArg UInt8.toNat h
          rwa [ofNat_toNat_lt v (by omega), ofNat_toNat_lt ρ (by omega)] at this)
        rw [beq_eq_false_iff_ne.mpr this, beq_eq_false_iff_ne.mpr he]
    · rw [decide_eq_false hv, Bool.false_and]
      symm; exact beq_eq_false_iff_ne.mpr (by omega)
  have := A.isFirstBy_unique _ x _ _ h1 h2'
  simp only [] at this
  unfold Std.indexByte
  rw [← this]
  unfold Utf8.runes
  rw [A.findIdx_map]
  rfl

theorem findSub_single {α : Type} [DecidableEq α] (a : α) : ∀ l : List α, findSub l [a] = l.findIdx? (· == a)
  | [] => by simp [findSub]
  | b :: l => by
    simp only [findSub, List.findIdx?_cons]
    by_cases hb : b = a
    · subst hb; simp [List.isPrefixOf]
    · have : ([a].isPrefixOf (b :: l)) = false := by simp [List.isPrefixOf, Ne.symm hb]
      rw [this]
      simp only [Bool.false_eq_true, if_false]
      rw [findSub_single a l]
      simp [hb]

theorem valid_encode (ρ : Nat) (hv : validRune ρ) (hne : ρ ≠ 0xFFFD) : Valid (encode ρ) ∧ Utf8.runes (encode ρ) = [ρ] := by
  have hd := decode_encode ρ hv []
  rw [List.append_nil] at hd
  have hdec : dec (encode ρ) = [(ρ, (encode ρ).length)] := by
    cases he : encode ρ with
    | nil => exact absurd he (encode_ne_nil ρ)
    | cons b y =>
      rw [dec_cons, ← he, hd]
      simp [dec_nil]
  refine ⟨?_, by unfold Utf8.runes; rw [hdec]; rfl⟩
  intro p hp
  rw [hdec] at hp
  simp only [List.mem_singleton] at hp
  rw [hp]
  intro h; exact hne (congrArg Prod.fst h)

/-- on valid text, the first code point equal to a valid non-ASCII rune is the first occurrence of its encoding -/
theorem findIdx_encode (x : Bytes) (hx : Valid x) (ρ : Nat) (hv : validRune ρ) (hne : ρ ≠ 0xFFFD) :
    (match (Utf8.runes x).findIdx? (· == ρ) with | some k => ((offAt x k : Nat) : Int) | none => -1) =
      Std.index x (encode ρ) := by
  obtain ⟨hve, hre⟩ := valid_encode ρ hv hne
  unfold Std.index
  rw [findSub_valid x (encode ρ) hx hve, hre, findSub_single]
  cases (Utf8.runes x).findIdx? (· == ρ) <;> rfl

/-- IndexRune under a class: `r` searched in `s` is `ρ` searched in `φ s`, when `fold r = ρ` -/
theorem cls_indexRune {φ : Bytes → Bytes} {s : Bytes} (hs : Cls φ s) (r ρ : Int)
    (hv : S.validRuneI r = S.validRuneI ρ) (hf : S.validRuneI r = true → caseFold r.toNat = ρ.toNat) :
    S.indexRune s r = Std.indexRune (φ s) ρ := by
  unfold S.indexRune Std.indexRune
  cases hvr : S.validRuneI r with
  | false =>
    rw [hvr] at hv
    have hρ : ¬ (0 ≤ ρ ∧ validRune ρ.toNat) := by
      intro h
      have : S.validRuneI ρ = true := by simp only [S.validRuneI, decide_eq_true_eq]; exact h
      rw [this] at hv; cases hv
    simp only [Bool.false_eq_true, if_false]
    have h1 : ¬ (0 ≤ ρ ∧ ρ < 0x80) := fun h => hρ ⟨h.1, Or.inl (by omega)⟩
    have h2 : ¬ ρ = 0xFFFD := fun h => hρ (by subst h; decide)
    rw [if_neg h1, if_neg h2, if_pos hρ]
  | true =>
    rw [hvr] at hv
    have hρ : 0 ≤ ρ ∧ validRune ρ.toNat := by
      have := hv.symm
      simp only [S.validRuneI, decide_eq_true_eq] at this; exact this
    have hfold := hf hvr
    simp only [if_true]
    have hfi : (Utf8.runes (φ s)).findIdx? (· == ρ.toNat) = (S.fruns s).findIdx? (· == S.fold r.toNat) := by
      rw [hs.2.1]
      show _ = (Utf8.runes (φ s)).findIdx? (· == caseFold r.toNat)
      rw [hfold]
    have fin : ∀ o : Option Nat,
        (match o with | some k => ((offAt s k : Nat) : Int) | none => -1) =
        (match o with | some k => ((offAt (φ s) k : Nat) : Int) | none => -1) := by
      intro o; cases o with
      | none => rfl
      | some k => simp only []; rw [hs.offAt_eq]
    by_cases h80 : ρ < 0x80
    · rw [if_pos ⟨hρ.1, h80⟩, ← findIdx_ascii (φ s) ρ.toNat (by omega), hfi]
      exact fin _
    · rw [if_neg (fun h => h80 h.2)]
      by_cases hfd : ρ = 0xFFFD
      · rw [if_pos hfd]
        have : (Std.runes (φ s)).findIdx? (· == 0xFFFD) = (S.fruns s).findIdx? (· == S.fold r.toNat) := by
          rw [← hfi, hfd]; rfl
        rw [this]
        exact fin _
      · rw [if_neg hfd, if_neg (fun h => h hρ), ← findIdx_encode (φ s) hs.1 ρ.toNat hρ.2 (by omega), hfi]
        exact fin _

/-! Byte searches. -/

theorem not_alpha_special : ∀ c : UInt8, S.isAlpha c = false → A.specialRune c = 0 := by decide +kernel

/-- a byte that is not an ASCII letter: `IndexByte`, `IndexByteASCII`, `LastIndexByte` are the plain byte searches, on any bytes -/
theorem indexByte_plain (s : Bytes) (c : UInt8) (hc : S.isAlpha c = false) :
    S.indexByte s c = Std.indexByte s c ∧ S.indexByteASCII s c = Std.indexByte s c ∧ S.lastIndexByte s c = Std.lastIndexByte s c := by
  have h0 := not_alpha_special c hc
  have e : ∀ (u : Bool) (b : UInt8) (rest : Bytes), S.byteMatch u c (b :: rest) = ((b :: rest).headD 0 == c) := by
    intro u b rest
    rw [A.byteMatch_plain u c (Or.inr h0)]
    simp [S.byteEqFold, hc]
  exact ⟨A.firstAt_congr _ _ (e true) s 0, A.firstAt_congr _ _ (e false) s 0, A.lastAt_congr _ _ (e true) s 0⟩

theorem lower_eq_iff : ∀ c b : Fin 128,
    S.byteEqFold (UInt8.ofNat c.val) (UInt8.ofNat b.val) = (lower (UInt8.ofNat b.val) == lower (UInt8.ofNat c.val)) := by
  decide +kernel

theorem firstAt_map (f : UInt8 → UInt8) (p q : Bytes → Bool) :
    ∀ (s : Bytes) (o : Nat), (∀ i, i < s.length → p (s.drop i) = q ((s.map f).drop i)) → S.firstAt p s o = S.firstAt q (s.map f) o
  | [], _, _ => rfl
  | b :: rest, o, h => by
    have h0 := h 0 (by simp)
    simp only [List.drop_zero] at h0
    simp only [List.map_cons] at h0 ⊢
    simp only [S.firstAt, h0]
    rw [firstAt_map f p q rest (o + 1) (fun i hi => by
      have := h (i + 1) (by simpa using hi)
      simpa using this)]

theorem lastAt_map (f : UInt8 → UInt8) (p q : Bytes → Bool) :
    ∀ (s : Bytes) (o : Nat), (∀ i, i < s.length → p (s.drop i) = q ((s.map f).drop i)) → S.lastAt p s o = S.lastAt q (s.map f) o
  | [], _, _ => rfl
  | b :: rest, o, h => by
    have h0 := h 0 (by simp)
    simp only [List.drop_zero] at h0
    simp only [List.map_cons] at h0 ⊢
    simp only [S.lastAt, h0]
    rw [lastAt_map f p q rest (o + 1) (fun i hi => by
      have := h (i + 1) (by simpa using hi)
      simpa using this)]

/-- ASCII text, ASCII byte: the byte searches are the plain searches for `ToLower(c)` in `ToLower(s)` -/
theorem indexByte_ascii (s : Bytes) (c : UInt8) (hs : ∀ b ∈ s, b < 0x80) (hc : c < 0x80) :
    S.indexByte s c = Std.indexByte (s.map lower) (lower c) ∧ S.indexByteASCII s c = Std.indexByte (s.map lower) (lower c) ∧
    S.lastIndexByte s c = Std.lastIndexByte (s.map lower) (lower c) := by
  have e : ∀ (u : Bool) (i : Nat), i < s.length → S.byteMatch u c (s.drop i) = (((s.map lower).drop i).headD 0 == lower c) := by
    intro u i hi
    cases hy : s.drop i with
    | nil => have := congrArg List.length hy; simp at this; omega
    | cons b rest =>
      have hb : b < 0x80 := hs b (List.mem_of_mem_drop (by rw [hy]; exact List.mem_cons_self ..))
      rw [← List.map_drop, hy, List.map_cons, List.headD_cons]
      have hbn : b.toNat < 128 := by have := UInt8.lt_iff_toNat_lt.mp hb; simpa using this
      have hcn : c.toNat < 128 := by have := UInt8.lt_iff_toNat_lt.mp hc; simpa using this
      have key := lower_eq_iff ⟨c.toNat, hcn⟩ ⟨b.toNat, hbn⟩
      simp only [UInt8.ofNat_toNat] at key
      show (S.byteEqFold c b || (u && decide (S.relative c ≠ []) && S.headIs (S.relative c) (b :: rest))) = _
      rw [key]
      -- the non-ASCII relative cannot start at an ASCII byte
      have hrel : (u && decide (S.relative c ≠ []) && S.headIs (S.relative c) (b :: rest)) = false := by
        cases hq : (u && decide (S.relative c ≠ []) && S.headIs (S.relative c) (b :: rest)) with
        | false => rfl
        | true =>
          exfalso
          simp only [Bool.and_eq_true, decide_eq_true_eq] at hq
          obtain ⟨⟨_, hne⟩, hh⟩ := hq
          unfold S.headIs at hh
          obtain ⟨z, hz⟩ := List.isPrefixOf_iff_prefix.mp hh
          have : ∀ c : UInt8, ∀ b0 ∈ (S.relative c).head?, ¬ b0 < 0x80 := by decide +kernel
          cases hr : S.relative c with
          | nil => exact hne hr
          | cons b0 tl =>
            rw [hr] at hz
            simp only [List.cons_append, List.cons.injEq] at hz
            have := this c b0 (by rw [hr]; rfl)
            rw [hz.1] at this; exact this hb
      rw [hrel, Bool.or_false]
  refine ⟨?_, ?_, ?_⟩
  · exact firstAt_map lower _ _ s 0 (e true)
  · exact firstAt_map lower _ _ s 0 (e false)
  · exact lastAt_map lower _ _ s 0 (e true)

end Std
