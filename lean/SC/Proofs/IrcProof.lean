import SC.Proofs.Irc
namespace A
open Utf8

def Occ (s : Bytes) (c0 c1 : UInt8) (k : Nat) : Prop := s[k]? = some c0 ∧ s[k+1]? = some c1

theorem stdIndexByte_neg (s : Bytes) (c : UInt8) (h : stdIndexByte s c < 0) : ∀ j : Nat, s[j]? ≠ some c := by
  induction s with
  | nil => intro j; simp
  | cons b s ih =>
    simp only [stdIndexByte] at h
    split at h
    · omega
    · rename_i hb
      split at h
      · rename_i hr
        intro j
        cases j with
        | zero => simpa using hb
        | succ j => simpa using ih hr j
      · omega

theorem stdIndexByte_nonneg (s : Bytes) (c : UInt8) (h : 0 ≤ stdIndexByte s c) :
    s[(stdIndexByte s c).toNat]? = some c ∧ ∀ j, j < (stdIndexByte s c).toNat → s[j]? ≠ some c := by
  induction s with
  | nil => simp [stdIndexByte] at h
  | cons b s ih =>
    by_cases hb : b = c
    · have e : stdIndexByte (b :: s) c = 0 := by simp [stdIndexByte, hb]
      rw [e]; subst hb; simp
    · by_cases hr : stdIndexByte s c < 0
      · have e : stdIndexByte (b :: s) c = -1 := by simp [stdIndexByte, hb, hr]
        rw [e] at h; omega
      · have e : stdIndexByte (b :: s) c = stdIndexByte s c + 1 := by simp [stdIndexByte, hb, hr]
        rw [e]
        obtain ⟨h1, h2⟩ := ih (by omega)
        have : (stdIndexByte s c + 1).toNat = (stdIndexByte s c).toNat + 1 := by omega
        rw [this]
        refine ⟨by simpa using h1, ?_⟩
        intro j hj
        cases j with
        | zero => simpa using hb
        | succ j => simpa using h2 j (by omega)

theorem stdIndex2_none (s : Bytes) (c0 c1 : UInt8) (h : ∀ j, ¬ Occ s c0 c1 j) : stdIndex2 s c0 c1 = -1 := by
  induction s with
  | nil => simp [stdIndex2]
  | cons a s ih =>
    cases s with
    | nil => simp [stdIndex2]
    | cons b s =>
      simp only [stdIndex2]
      have h0 := h 0
      simp only [Occ, List.getElem?_cons_zero, List.getElem?_cons_succ, Option.some.injEq] at h0
      rw [if_neg h0]
      have : stdIndex2 (b :: s) c0 c1 = -1 := ih (fun j hj => h (j+1) (by simpa [Occ] using hj))
      simp [this]

theorem stdIndex2_some (s : Bytes) (c0 c1 : UInt8) (k : Nat) (hk : Occ s c0 c1 k)
    (hmin : ∀ j, j < k → ¬ Occ s c0 c1 j) : stdIndex2 s c0 c1 = k := by
  induction s generalizing k with
  | nil => simp [Occ] at hk
  | cons a s ih =>
    cases s with
    | nil => simp [Occ] at hk
    | cons b s =>
      simp only [stdIndex2]
      cases k with
      | zero =>
        simp only [Occ, List.getElem?_cons_zero, List.getElem?_cons_succ, Option.some.injEq] at hk
        rw [if_pos hk]; rfl
      | succ k =>
        have h0 := hmin 0 (by omega)
        simp only [Occ, List.getElem?_cons_zero, List.getElem?_cons_succ, Option.some.injEq] at h0
        rw [if_neg h0]
        have : stdIndex2 (b :: s) c0 c1 = k :=
          ih k (by simpa [Occ] using hk) (fun j hj hocc => hmin (j+1) (by omega) (by simpa [Occ] using hocc))
        rw [this]
        have : ¬ ((k : Int) < 0) := by omega
        simp [this]


theorem stdIndex2_ge (s : Bytes) (c0 c1 : UInt8) : -1 ≤ stdIndex2 s c0 c1 := by
  induction s with
  | nil => simp [stdIndex2]
  | cons a s ih =>
    cases s with
    | nil => simp [stdIndex2]
    | cons b s =>
      simp only [stdIndex2]
      split
      · omega
      · split <;> omega

theorem stdIndex2_neg_spec (s : Bytes) (c0 c1 : UInt8) (h : stdIndex2 s c0 c1 < 0) : ∀ j, ¬ Occ s c0 c1 j := by
  induction s with
  | nil => intro j hj; simp [Occ] at hj
  | cons a s ih =>
    cases s with
    | nil => intro j hj; simp [Occ] at hj
    | cons b s =>
      simp only [stdIndex2] at h
      split at h
      · omega
      · rename_i hab
        split at h
        · rename_i hr
          intro j hj
          cases j with
          | zero =>
            simp only [Occ, List.getElem?_cons_zero, List.getElem?_cons_succ, Option.some.injEq] at hj
            exact hab hj
          | succ j => exact ih hr j (by simpa [Occ] using hj)
        · omega

theorem stdIndex2_nonneg_spec (s : Bytes) (c0 c1 : UInt8) (h : 0 ≤ stdIndex2 s c0 c1) :
    Occ s c0 c1 (stdIndex2 s c0 c1).toNat ∧ ∀ j, j < (stdIndex2 s c0 c1).toNat → ¬ Occ s c0 c1 j := by
  induction s with
  | nil => simp [stdIndex2] at h
  | cons a s ih =>
    cases s with
    | nil => simp [stdIndex2] at h
    | cons b s =>
      by_cases hab : a = c0 ∧ b = c1
      · have e : stdIndex2 (a :: b :: s) c0 c1 = 0 := by simp [stdIndex2, hab]
        rw [e]
        refine ⟨by simp [Occ, hab.1, hab.2], fun j hj => by simp at hj⟩
      · by_cases hr : stdIndex2 (b :: s) c0 c1 < 0
        · have e : stdIndex2 (a :: b :: s) c0 c1 = -1 := by simp [stdIndex2, hab, hr]
          rw [e] at h; omega
        · have e : stdIndex2 (a :: b :: s) c0 c1 = stdIndex2 (b :: s) c0 c1 + 1 := by simp [stdIndex2, hab, hr]
          rw [e]
          obtain ⟨h1, h2⟩ := ih (by omega)
          have e2 : (stdIndex2 (b :: s) c0 c1 + 1).toNat = (stdIndex2 (b :: s) c0 c1).toNat + 1 := by omega
          rw [e2]
          refine ⟨by simpa [Occ] using h1, ?_⟩
          intro j hj
          cases j with
          | zero =>
            intro hocc
            simp only [Occ, List.getElem?_cons_zero, List.getElem?_cons_succ, Option.some.injEq] at hocc
            exact hab hocc
          | succ j => intro hocc; exact h2 j (by omega) (by simpa [Occ] using hocc)

theorem occ_drop (s : Bytes) (c0 c1 : UInt8) (i k : Nat) : Occ (s.drop i) c0 c1 k ↔ Occ s c0 c1 (i + k) := by
  simp [Occ, List.getElem?_drop, Nat.add_assoc]

theorem irc2_correct (c0 c1 : UInt8) (cut : Nat → Nat) (s : Bytes) (hne : c0 ≠ c1) :
    ∀ fuel i fails, 1 ≤ i → i ≤ s.length + 1 → s.length + 2 ≤ fuel + i →
      (∀ j, j + 1 < i → ¬ Occ s c0 c1 j) →
      irc2 c0 c1 cut s fuel i fails = .ok (stdIndex2 s c0 c1) := by
  intro fuel
  induction fuel with
  | zero => intro i fails h1 h2 h3; omega
  | succ fuel ih =>
    intro i fails h1 h2 h3 hno
    simp only [irc2]
    by_cases hi : i < s.length
    · rw [if_pos hi]
      rw [List.getElem?_eq_getElem hi]
      simp only []
      -- the common tail after the skip, for a position i' with s[i'] = c1 and nothing before i'-1
      have tail : ∀ i', i ≤ i' → (hi' : i' < s.length) → s[i'] = c1 →
          (∀ j, j + 1 < i' → ¬ Occ s c0 c1 j) →
          (match s[i'-1]? with
            | none => Except.error Fault.index
            | some p =>
              if p = c0 then Except.ok ((i':Int) - 1)
              else
                if fails + 1 > cut (i' + 1) ∧ i' + 1 < s.length then
                  if stdIndex2 (s.drop (i' + 1)) c0 c1 ≠ -1 then Except.ok (↑(i' + 1) + stdIndex2 (s.drop (i' + 1)) c0 c1) else Except.ok (-1)
                else irc2 c0 c1 cut s fuel (i' + 1) (fails + 1)) = Except.ok (stdIndex2 s c0 c1) := by
        intro i' hii' hi' hc1 hno'
        have hpos : i' - 1 < s.length := by omega
        rw [List.getElem?_eq_getElem hpos]
        simp only []
        by_cases hp : s[i' - 1] = c0
        · rw [if_pos hp]
          have hocc : Occ s c0 c1 (i' - 1) := by
            refine ⟨by rw [List.getElem?_eq_getElem hpos, hp], ?_⟩
            have : i' - 1 + 1 = i' := by omega
            rw [this, List.getElem?_eq_getElem hi', hc1]
          rw [stdIndex2_some s c0 c1 (i' - 1) hocc (fun j hj => hno' j (by omega))]
          congr 1; omega
        · rw [if_neg hp]
          -- no occurrence at i'-1 (first byte wrong) and none at i' (s[i'] = c1 ≠ c0)
          have hno'' : ∀ j, j + 1 < i' + 1 + 1 → ¬ Occ s c0 c1 j := by
            intro j hj hocc
            by_cases hj1 : j + 1 < i'
            · exact hno' j hj1 hocc
            · by_cases hj2 : j = i' - 1
              · subst hj2
                have := hocc.1
                rw [List.getElem?_eq_getElem hpos] at this
                exact hp (Option.some.inj this)
              · have : j = i' := by omega
                subst this
                have := hocc.1
                rw [List.getElem?_eq_getElem hi', hc1] at this
                exact hne (Option.some.inj this).symm
          by_cases hcut : fails + 1 > cut (i' + 1) ∧ i' + 1 < s.length
          · rw [if_pos hcut]
            by_cases hj : stdIndex2 (s.drop (i' + 1)) c0 c1 ≠ -1
            · rw [if_pos hj]
              have hge := stdIndex2_ge (s.drop (i' + 1)) c0 c1
              have hnn : 0 ≤ stdIndex2 (s.drop (i' + 1)) c0 c1 := by omega
              obtain ⟨ho, hm⟩ := stdIndex2_nonneg_spec _ c0 c1 hnn
              rw [occ_drop] at ho
              have := stdIndex2_some s c0 c1 _ ho (by
                intro j hjlt
                by_cases hji : j + 1 < i' + 1 + 1
                · exact hno'' j hji
                · intro hocc
                  have := hm (j - (i' + 1)) (by omega)
                  rw [occ_drop] at this
                  have e : i' + 1 + (j - (i' + 1)) = j := by omega
                  rw [e] at this; exact this hocc)
              rw [this]; congr 1; omega
            · rw [if_neg hj]
              have hneg : stdIndex2 (s.drop (i' + 1)) c0 c1 < 0 := by
                have : stdIndex2 (s.drop (i' + 1)) c0 c1 = -1 := Classical.not_not.mp hj
                omega
              have hnone := stdIndex2_neg_spec _ c0 c1 hneg
              rw [stdIndex2_none s c0 c1]
              intro j hocc
              by_cases hji : j + 1 < i' + 1 + 1
              · exact hno'' j hji hocc
              · have := hnone (j - (i' + 1))
                rw [occ_drop] at this
                have e : i' + 1 + (j - (i' + 1)) = j := by omega
                rw [e] at this; exact this hocc
          · rw [if_neg hcut]
            exact ih (i' + 1) (fails + 1) (by omega) (by omega) (by omega) (fun j hj => hno'' j (by omega))
      by_cases hb : s[i] ≠ c1
      · rw [if_pos hb]
        rw [if_pos (by omega)]
        have hsi : s[i]? = some s[i] := List.getElem?_eq_getElem hi
        by_cases ho : stdIndexByte (s.drop (i + 1)) c1 < 0
        · rw [if_pos ho]
          simp only []
          -- c1 never occurs at or after i, so no occurrence at or after i-1
          have hnever := stdIndexByte_neg _ c1 ho
          rw [stdIndex2_none s c0 c1]
          intro j hocc
          by_cases hj1 : j + 1 < i
          · exact hno j hj1 hocc
          · have h2 := hocc.2
            by_cases hj2 : j + 1 = i
            · rw [hj2, hsi] at h2; exact hb (Option.some.inj h2)
            · have := hnever (j + 1 - (i + 1))
              rw [List.getElem?_drop] at this
              have e : i + 1 + (j + 1 - (i + 1)) = j + 1 := by omega
              rw [e] at this; exact this h2
        · rw [if_neg ho]
          simp only []
          have hnn : 0 ≤ stdIndexByte (s.drop (i + 1)) c1 := by omega
          obtain ⟨hf, hbefore⟩ := stdIndexByte_nonneg _ c1 hnn
          rw [List.getElem?_drop] at hf
          have hi'' : i + 1 + (stdIndexByte (s.drop (i + 1)) c1).toNat < s.length := by
            rcases Nat.lt_or_ge (i + 1 + (stdIndexByte (s.drop (i + 1)) c1).toNat) s.length with h | h
            · exact h
            · rw [List.getElem?_eq_none h] at hf; cases hf
          have e0 : i + (stdIndexByte (s.drop (i + 1)) c1).toNat + 1 = i + 1 + (stdIndexByte (s.drop (i + 1)) c1).toNat := by omega
          rw [e0]
          apply tail _ (by omega) hi''
          · rw [List.getElem?_eq_getElem hi''] at hf; exact Option.some.inj hf
          · intro j hjlt hocc
            by_cases hj1 : j + 1 < i
            · exact hno j hj1 hocc
            · have h2 := hocc.2
              by_cases hj2 : j + 1 = i
              · rw [hj2, hsi] at h2; exact hb (Option.some.inj h2)
              · have := hbefore (j + 1 - (i + 1)) (by omega)
                rw [List.getElem?_drop] at this
                have e : i + 1 + (j + 1 - (i + 1)) = j + 1 := by omega
                rw [e] at this; exact this h2
      · rw [if_neg hb]
        simp only []
        exact tail i (Nat.le_refl _) hi (by simpa using hb) hno
    · rw [if_neg hi]
      rw [stdIndex2_none]
      intro j hocc
      by_cases hj : j + 1 < i
      · exact hno j hj hocc
      · have := hocc.2
        have hlen : s.length ≤ j + 1 := by omega
        rw [List.getElem?_eq_none hlen] at this
        simp at this
end A
