import SC.Proofs.EmbedBytes
import SC.Proofs.Enc2
/-!
Valid UTF-8: searching the rune sequence and searching the bytes are the same thing
(self-synchronisation).  Used by C20 to relate the rune-level specification `S` to the byte-level
semantics of package `strings` / `bytes` on the two classes of the property.
-/
namespace Utf8
open Spec

/-- the code points of `x` -/
def runes (x : Bytes) : List Nat := (dec x).map (·.1)
/-- UTF-8 encoding of a code point sequence -/
def enc (rs : List Nat) : Bytes := rs.flatMap encode

theorem runes_nil : runes [] = [] := by simp [runes, dec_nil]
theorem runes_length (x : Bytes) : (runes x).length = (dec x).length := by simp [runes]

/-- the first segment of a valid string is the encoding of its code point -/
theorem valid_head (b : UInt8) (x : Bytes) (h : Valid (b :: x)) :
    (b :: x).take (decodeRune (b :: x)).2 = encode (decodeRune (b :: x)).1 := by
  have hne := (valid_cons b x h).1
  have hw := decodeRune_width_pos b x
  have hgood : 2 ≤ (decodeRune (b :: x)).2 ∨ (decodeRune (b :: x)).1 < 0x80 := by
    by_cases h2 : 2 ≤ (decodeRune (b :: x)).2
    · exact Or.inl h2
    · right
      have hw1 : (decodeRune (b :: x)).2 = 1 := by omega
      by_cases hb : b < 0x80
      · have hd : decodeRune (b :: x) = (b.toNat, 1) := by simp [decodeRune, hb]
        have hlt : b.toNat < 0x80 := by have := UInt8.lt_iff_toNat_lt.mp hb; simpa using this
        rw [hd]; exact hlt
      · exact absurd (decodeRune_w1_high b x hb hw1) hne
  exact (encode_decode (b :: x) _ _ rfl hgood).1

/-- a valid string is the encoding of its code points -/
theorem valid_eq_enc : ∀ (n : Nat) (x : Bytes), x.length ≤ n → Valid x → x = enc (runes x) := by
  intro n
  induction n with
  | zero =>
    intro x hx _
    have : x = [] := List.length_eq_zero_iff.mp (by omega)
    subst this; simp [enc, runes_nil]
  | succ n ih =>
    intro x hx hv
    cases x with
    | nil => simp [enc, runes_nil]
    | cons b x =>
      have hw := decodeRune_width_pos b x
      have hvc := valid_cons b x hv
      have hrec := ih ((b :: x).drop (decodeRune (b :: x)).2)
        (by simp only [List.length_drop, List.length_cons] at hx ⊢; omega) hvc.2
      unfold runes enc at hrec ⊢
      rw [dec_cons]
      simp only [List.map_cons, List.flatMap_cons]
      rw [← hrec, ← valid_head b x hv, List.take_append_drop]

theorem valid_drop (x : Bytes) (k : Nat) (h : Valid x) : Valid (x.drop (offAt x k)) := by
  intro p hp
  rw [dec_drop_offAt] at hp
  exact h p (List.mem_of_mem_drop hp)

theorem valid_take (x : Bytes) (k : Nat) (h : Valid x) : Valid (x.take (offAt x k)) := by
  intro p hp
  rw [dec_take_offAt] at hp
  exact h p (List.mem_of_mem_take hp)

theorem runes_drop (x : Bytes) (k : Nat) : runes (x.drop (offAt x k)) = (runes x).drop k := by
  unfold runes; rw [dec_drop_offAt, List.map_drop]

theorem runes_append (x y : Bytes) (hx : Valid x) : runes (x ++ y) = runes x ++ runes y := by
  unfold runes; rw [dec_append_valid x.length x y (Nat.le_refl _) hx, List.map_append]

/-- L1: prefix on bytes ⇔ prefix on code points -/
theorem prefix_iff (x y : Bytes) (hx : Valid x) (hy : Valid y) : y <+: x ↔ runes y <+: runes x := by
  constructor
  · rintro ⟨z, rfl⟩
    rw [runes_append y z hy]; exact List.prefix_append _ _
  · rintro ⟨rs, h⟩
    rw [valid_eq_enc _ x (Nat.le_refl _) hx, valid_eq_enc _ y (Nat.le_refl _) hy, ← h]
    unfold enc; rw [List.flatMap_append]; exact List.prefix_append _ _

theorem not_start_bad : ∀ b : UInt8, isStart b = false → ¬ b < 0x80 ∧ b < 0xC2 := by decide +kernel

/-- a valid string starts with a rune-start byte -/
theorem valid_start (b : UInt8) (y : Bytes) (h : Valid (b :: y)) : isStart b = true := by
  cases hs : isStart b with
  | true => rfl
  | false =>
    exfalso
    obtain ⟨c1, c2⟩ := not_start_bad b hs
    have hd : decodeRune (b :: y) = (runeError, 1) := by simp [decodeRune, c1, c2]
    exact (valid_cons b y h).1 hd

/-- an occurrence of a non-empty valid string starts on a decode boundary -/
theorem boundary_of_prefix (x y : Bytes) (j : Nat) (hy : Valid y) (hne : y ≠ []) (h : y <+: x.drop j) :
    IsBoundary x j := by
  cases y with
  | nil => exact absurd rfl hne
  | cons b y' =>
    obtain ⟨z, hz⟩ := h
    have hxj : x[j]? = some b := by
      have := congrArg (fun l => l[0]?) hz
      simp only [List.cons_append, List.getElem?_cons_zero, List.getElem?_drop, Nat.add_zero] at this
      exact this.symm
    exact start_is_boundary x.length x (Nat.le_refl _) j b hxj (valid_start b y' hy)

/-- L2: the first occurrence on bytes is the first occurrence on code points -/
theorem findSub_valid (x y : Bytes) (hx : Valid x) (hy : Valid y) :
    findSub x y = (findSub (runes x) (runes y)).map (offAt x) := by
  by_cases hne : y = []
  · subst hne
    have h1 : findSub x [] = some 0 := (findSub_some_iff x [] 0).mpr ⟨List.nil_prefix, Nat.zero_le _, fun j hj => by omega⟩
    have h2 : findSub (runes x) [] = some 0 :=
      (findSub_some_iff (runes x) [] 0).mpr ⟨List.nil_prefix, Nat.zero_le _, fun j hj => by omega⟩
    rw [runes_nil, h1, h2]; simp [offAt_zero]
  · -- an occurrence at byte `j` is an occurrence at the code point index of the boundary `j`
    have key : ∀ j, y <+: x.drop j → ∃ k, k ≤ (dec x).length ∧ offAt x k = j ∧ runes y <+: (runes x).drop k := by
      intro j hp
      obtain ⟨k, hk, rfl⟩ := boundary_of_prefix x y j hy hne hp
      refine ⟨k, hk, rfl, ?_⟩
      rw [← runes_drop]
      exact (prefix_iff _ y (valid_drop x k hx) hy).mp hp
    cases hf : findSub (runes x) (runes y) with
    | none =>
      rw [Option.map_none]
      apply (findSub_none_iff x y).mpr
      intro j _ hp
      obtain ⟨k, hk, _, hpk⟩ := key j hp
      exact (findSub_none_iff _ _).mp hf k (by rw [runes_length]; exact hk) hpk
    | some k =>
      rw [Option.map_some]
      obtain ⟨hp, hk, hmin⟩ := (findSub_some_iff _ _ _).mp hf
      rw [runes_length] at hk
      apply (findSub_some_iff x y _).mpr
      refine ⟨?_, offAt_le x k, ?_⟩
      · apply (prefix_iff _ y (valid_drop x k hx) hy).mpr
        rw [runes_drop]; exact hp
      · intro j hj hpj
        obtain ⟨k', hk', rfl, hpk'⟩ := key j hpj
        have : k' < k := by
          rcases Nat.lt_or_ge k' k with h | h
          · exact h
          · have := offAt_le_of_le x k k' h hk'; omega
        exact hmin k' this hpk'

/-- L3: the last occurrence likewise -/
theorem findSubLast_valid (x y : Bytes) (hx : Valid x) (hy : Valid y) :
    findSubLast x y = (findSubLast (runes x) (runes y)).map (offAt x) := by
  by_cases hne : y = []
  · subst hne
    have h1 : findSubLast x [] = some x.length :=
      (findSubLast_some_iff x [] _).mpr ⟨List.nil_prefix, Nat.le_refl _, fun j hj hjl => by omega⟩
    have h2 : findSubLast (runes x) [] = some (runes x).length :=
      (findSubLast_some_iff (runes x) [] _).mpr ⟨List.nil_prefix, Nat.le_refl _, fun j hj hjl => by omega⟩
    rw [runes_nil, h1, h2, runes_length]; simp [offAt_length]
  · have key : ∀ j, y <+: x.drop j → ∃ k, k ≤ (dec x).length ∧ offAt x k = j ∧ runes y <+: (runes x).drop k := by
      intro j hp
      obtain ⟨k, hk, rfl⟩ := boundary_of_prefix x y j hy hne hp
      refine ⟨k, hk, rfl, ?_⟩
      rw [← runes_drop]
      exact (prefix_iff _ y (valid_drop x k hx) hy).mp hp
    cases hf : findSubLast (runes x) (runes y) with
    | none =>
      rw [Option.map_none]
      apply (findSubLast_none_iff x y).mpr
      intro j _ hp
      obtain ⟨k, hk, _, hpk⟩ := key j hp
      exact (findSubLast_none_iff _ _).mp hf k (by rw [runes_length]; exact hk) hpk
    | some k =>
      rw [Option.map_some]
      obtain ⟨hp, hk, hmax⟩ := (findSubLast_some_iff _ _ _).mp hf
      rw [runes_length] at hk
      apply (findSubLast_some_iff x y _).mpr
      refine ⟨?_, offAt_le x k, ?_⟩
      · apply (prefix_iff _ y (valid_drop x k hx) hy).mpr
        rw [runes_drop]; exact hp
      · intro j hj hjl hpj
        obtain ⟨k', hk', rfl, hpk'⟩ := key j hpj
        have : k < k' := by
          rcases Nat.lt_or_ge k k' with h | h
          · exact h
          · have := offAt_le_of_le x k' k h hk; omega
        exact hmax k' this (by rw [runes_length]; exact hk') hpk'

end Utf8
