import SC.Proofs.ValidBytes2
import SC.Model.Std
/-!
C20, generic part.  `Cls φ s`: `φ s` is valid UTF-8 with the same segment widths as `s`, and the folded code
points of `s` are the code points of `φ s`.  (Instances: `φ = id` on caseless valid text, `φ = ToLower` on
ASCII text.)  Under it every specification function is the standard-library namesake applied to `φ`-images,
with positions taken in the original.
-/
namespace Std
open Utf8 Spec

theorem runes_eq (s : Bytes) : Std.runes s = Utf8.runes s := rfl

def Cls (φ : Bytes → Bytes) (s : Bytes) : Prop :=
  Valid (φ s) ∧ S.fruns s = Utf8.runes (φ s) ∧ (dec (φ s)).map (·.2) = (dec s).map (·.2)

variable {φ : Bytes → Bytes}

theorem Cls.offAt_eq {s : Bytes} (h : Cls φ s) (k : Nat) : offAt s k = offAt (φ s) k := by
  unfold offAt
  rw [List.map_take, List.map_take, h.2.2]

theorem Cls.dec_len {s : Bytes} (h : Cls φ s) : (dec (φ s)).length = (dec s).length := by
  have := congrArg List.length h.2.2
  simpa using this

theorem Cls.len {s : Bytes} (h : Cls φ s) : (φ s).length = s.length := by
  rw [← offAt_length (φ s), ← offAt_length s, h.dec_len, h.offAt_eq]

theorem Cls.nil_iff {s : Bytes} (h : Cls φ s) : s = [] ↔ φ s = [] := by
  have := h.len
  constructor
  · intro e; subst e; exact List.length_eq_zero_iff.mp (by simpa using this)
  · intro e; rw [e] at this; exact List.length_eq_zero_iff.mp (by simpa using this.symm)

section
variable {s t : Bytes} (hs : Cls φ s) (ht : Cls φ t)
include hs ht

theorem cls_index : S.index s t = Std.index (φ s) (φ t) := by
  unfold S.index S.indexK Std.index
  rw [hs.2.1, ht.2.1, findSub_valid (φ s) (φ t) hs.1 ht.1]
  cases findSub (Utf8.runes (φ s)) (Utf8.runes (φ t)) with
  | none => rfl
  | some k => simp only [Option.map_some]; rw [hs.offAt_eq]

theorem cls_lastIndex : S.lastIndex s t = Std.lastIndex (φ s) (φ t) := by
  unfold S.lastIndex S.lastIndexK Std.lastIndex
  rw [hs.2.1, ht.2.1, findSubLast_valid (φ s) (φ t) hs.1 ht.1]
  cases findSubLast (Utf8.runes (φ s)) (Utf8.runes (φ t)) with
  | none => rfl
  | some k => simp only [Option.map_some]; rw [hs.offAt_eq]

theorem cls_contains : S.contains s t = Std.contains (φ s) (φ t) := by
  unfold S.contains S.indexK Std.contains
  rw [hs.2.1, ht.2.1, findSub_valid (φ s) (φ t) hs.1 ht.1]
  cases findSub (Utf8.runes (φ s)) (Utf8.runes (φ t)) <;> rfl

theorem cls_prefix_iff : (S.fruns t).isPrefixOf (S.fruns s) = (φ t).isPrefixOf (φ s) := by
  rw [hs.2.1, ht.2.1]
  have := prefix_iff (φ s) (φ t) hs.1 ht.1
  cases h1 : (Utf8.runes (φ t)).isPrefixOf (Utf8.runes (φ s)) with
  | true =>
    symm; exact (isPrefixOf_iff _ _).mpr (this.mpr ((isPrefixOf_iff _ _).mp h1))
  | false =>
    symm
    cases h2 : (φ t).isPrefixOf (φ s) with
    | false => rfl
    | true =>
      have := (isPrefixOf_iff _ _).mpr (this.mp ((isPrefixOf_iff _ _).mp h2))
      rw [h1] at this; cases this

theorem cls_hasPrefix : S.hasPrefix s t = Std.hasPrefix (φ s) (φ t) := by
  unfold S.hasPrefix S.prefixLen Std.hasPrefix
  rw [cls_prefix_iff hs ht]
  cases (φ t).isPrefixOf (φ s) <;> rfl

/-- the end of a matched prefix is `len t` -/
theorem cls_prefixLen : S.prefixLen s t = if (φ t).isPrefixOf (φ s) then some t.length else none := by
  unfold S.prefixLen
  rw [cls_prefix_iff hs ht]
  cases hp : (φ t).isPrefixOf (φ s) with
  | false => rfl
  | true =>
    simp only [if_true]
    obtain ⟨z, hz⟩ := (isPrefixOf_iff _ _).mp hp
    congr 1
    rw [hs.offAt_eq, ← hz, S.nrunes, ← ht.dec_len, offAt_append_valid (φ t) z ht.1 _ (Nat.le_refl _), offAt_length, ht.len]

theorem cls_trimPrefix : S.trimPrefix s t = Std.trimPrefix (φ s) (φ t) ∧ S.cutPrefix s t = Std.cutPrefix (φ s) (φ t) := by
  unfold S.trimPrefix S.cutPrefix Std.trimPrefix Std.cutPrefix Std.hasPrefix
  rw [cls_prefixLen hs ht, hs.len, ht.len]
  cases (φ t).isPrefixOf (φ s) <;> exact ⟨rfl, rfl⟩

theorem cls_suffixStart : S.suffixStart s t = if (φ t).isSuffixOf (φ s) then some (s.length - t.length) else none := by
  unfold S.suffixStart
  simp only []
  obtain ⟨hiff, hoff⟩ := suffix_iff (φ s) (φ t) hs.1 ht.1
  rw [hs.2.1, ht.2.1]
  by_cases hsuf : (φ t) <:+ (φ s)
  · have hr := hiff.mp hsuf
    rw [if_pos (List.isSuffixOf_iff_suffix.mpr hsuf)]
    have hle := hr.length_le
    have hd : (Utf8.runes (φ s)).drop ((Utf8.runes (φ s)).length - (Utf8.runes (φ t)).length) = Utf8.runes (φ t) := by
      obtain ⟨p, hp⟩ := hr
      rw [← hp, List.length_append, Nat.add_sub_cancel, List.drop_left]
    rw [if_pos ⟨hle, by rw [hd]; exact beq_self_eq_true _⟩, hs.offAt_eq, hoff hsuf, hs.len, ht.len]
  · rw [if_neg (fun h => hsuf (List.isSuffixOf_iff_suffix.mp h))]
    rw [if_neg]
    rintro ⟨hle, hd⟩
    apply hsuf
    apply hiff.mpr
    rw [← beq_iff_eq.mp hd]
    exact List.drop_suffix _ _

theorem cls_hasSuffix : S.hasSuffix s t = Std.hasSuffix (φ s) (φ t) ∧ S.trimSuffix s t = Std.trimSuffix (φ s) (φ t) ∧
    S.cutSuffix s t = Std.cutSuffix (φ s) (φ t) := by
  unfold S.hasSuffix S.trimSuffix S.cutSuffix Std.hasSuffix Std.trimSuffix Std.cutSuffix Std.hasSuffix
  rw [cls_suffixStart hs ht, hs.len, ht.len]
  cases (φ t).isSuffixOf (φ s) <;> exact ⟨rfl, rfl, rfl⟩

theorem cls_count : S.count s t = Std.count (φ s) (φ t) := by
  by_cases h0 : t = []
  · have h0' := (ht.nil_iff).mp h0
    unfold S.count Std.count
    rw [if_pos h0, if_pos h0', S.nrunes, hs.dec_len]
  · have h0' : φ t ≠ [] := fun h => h0 ((ht.nil_iff).mpr h)
    rw [A.count_eq_cnt s t h0, hs.2.1, ht.2.1, ← cnt_valid (φ s) (φ t) hs.1 ht.1 h0']
    unfold Std.count cnt
    rw [if_neg h0']

theorem cls_cut : S.cut s t = Std.cut (φ s) (φ t) := by
  unfold S.cut S.indexK Std.cut
  rw [hs.2.1, ht.2.1, findSub_valid (φ s) (φ t) hs.1 ht.1]
  cases hk : findSub (Utf8.runes (φ s)) (Utf8.runes (φ t)) with
  | none => simp only [Option.map_none]; rw [hs.len]
  | some k =>
    simp only [Option.map_some]
    have hp := ((findSub_some_iff _ _ _).mp hk).1
    have hkl := ((findSub_some_iff _ _ _).mp hk).2.1
    have hlen := hp.length_le
    simp only [List.length_drop, runes_length] at hlen hkl
    have hpb : (φ t) <+: (φ s).drop (offAt (φ s) k) := by
      apply (prefix_iff _ (φ t) (valid_drop (φ s) k hs.1) ht.1).mpr
      rw [runes_drop]; exact hp
    obtain ⟨z, hz⟩ := hpb
    have hoff : offAt (φ s) (k + S.nrunes t) = offAt (φ s) k + (φ t).length := by
      have h1 := offAt_drop (φ s) k (dec (φ t)).length (by omega)
      rw [← hz, offAt_append_valid (φ t) z ht.1 _ (Nat.le_refl _), offAt_length] at h1
      have h2 := offAt_mono (φ s) (dec (φ t)).length k (by omega)
      rw [S.nrunes, ← ht.dec_len]; omega
    rw [hs.offAt_eq, hs.offAt_eq, hoff, hs.len]

theorem cls_indexAny : S.indexAny s t = Std.indexAny (φ s) (φ t) ∧ S.lastIndexAny s t = Std.lastIndexAny (φ s) (φ t) ∧
    S.containsAny s t = Std.containsAny (φ s) (φ t) := by
  have e1 : S.indexAny s t = Std.indexAny (φ s) (φ t) := by
    unfold S.indexAny Std.indexAny
    simp only [hs.2.1, ht.2.1, runes_eq]
    cases (Utf8.runes (φ s)).findIdx? (fun x => (Utf8.runes (φ t)).contains x) with
    | none => rfl
    | some k => simp only []; rw [hs.offAt_eq]
  refine ⟨e1, ?_, by unfold S.containsAny Std.containsAny; rw [e1]⟩
  unfold S.lastIndexAny Std.lastIndexAny
  simp only [hs.2.1, ht.2.1, runes_eq]
  cases (Utf8.runes (φ s)).reverse.findIdx? (fun x => (Utf8.runes (φ t)).contains x) with
  | none => rfl
  | some k => simp only []; rw [hs.offAt_eq]

end
end Std
