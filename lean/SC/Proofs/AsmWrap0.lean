import SC.Proofs.AsmAvxCount
import SC.Model.Spec
/-!
The ABI wrappers (`TEXT ·IndexByte`, `·IndexByteString`, `·Count`, `·CountString`, `·IndexByteNonASCII`, `·IndexNonASCII`) at
instruction level: they load `SI`/`BX`/`AL`/`R8` from the caller's frame, test whether the needle is an ASCII letter
(`LEAL -65(AX), CX; CMPB CL, $25; JLS …; ADDL $-97, AX; CMPB AL, $25; JHI …`) and tail-call the letter body or the exact body.
The upper bits of `AX` are junk throughout (only `AL` is ever loaded).
-/
namespace Asm
open Kern

theorem disp32_m65 : disp32 (-65) = W32 - 65 := by decide
theorem disp32_m97 : disp32 (-97) = W32 - 97 := by decide

theorem lowbyte_add (x c d : Nat) (hc : c < 256) (hd : d ≤ 256) :
    ((x / 256 * 256 + c) % W32 + (W32 - d)) % W32 % 256 = (c + 256 - d) % 256 := by
  unfold W32; omega

theorem lowbyte_add2 (x c d e : Nat) :
    (((x / 256 * 256 + c) % W32 + (W32 - d)) % W32 / 256 * 256 + e) % 256 = e % 256 := by
  omega

/-- the final `MOVB c, AL` puts the needle back in the low byte, whatever `ADDL` left above it -/
theorem lowbyte_set (y e : Nat) : (y / 256 * 256 + e % 256) % 256 = e % 256 := by omega

def letter (v : Nat) : Bool := (decide (65 ≤ v) && decide (v ≤ 90)) || (decide (97 ≤ v) && decide (v ≤ 122))

theorem letter_isAlpha : ∀ c : UInt8, letter c.toNat = S.isAlpha c := by decide +kernel


end Asm
