import SC.Model.Kern
import SC.Proofs.Cmp
/-! the portable implementations equal the scalar definitions, for every input -/
namespace Kern
open Utf8

theorem firstAt_congr (p q : Bytes → Bool) (h : ∀ x, p x = q x) : ∀ s i, S.firstAt p s i = S.firstAt q s i
  | [], _ => rfl
  | b :: rest, i => by simp only [S.firstAt, h, firstAt_congr p q h rest (i + 1)]

theorem stdIndexByte_eq (c : UInt8) : ∀ (s : Bytes) (i : Nat),
    S.firstAt (fun x => x.headD 0 == c) s i = if A.stdIndexByte s c < 0 then -1 else A.stdIndexByte s c + i
  | [], i => by simp [S.firstAt, A.stdIndexByte]
  | b :: rest, i => by
    simp only [S.firstAt, A.stdIndexByte, List.headD_cons]
    by_cases hb : b = c
    · simp [hb]
    · have ih := stdIndexByte_eq c rest (i + 1)
      simp only [beq_iff_eq, hb, if_false, ih]
      by_cases hr : A.stdIndexByte rest c < 0
      · simp [hr]
      · simp only [hr, if_false]
        have : ¬ (A.stdIndexByte rest c + 1 < 0) := by omega
        simp only [this, if_false]; omega

theorem stdIndexByte_ge (c : UInt8) : ∀ s : Bytes, -1 ≤ A.stdIndexByte s c
  | [] => by simp [A.stdIndexByte]
  | b :: rest => by
    have := stdIndexByte_ge c rest
    simp only [A.stdIndexByte]; split <;> try split
    all_goals omega

theorem loopIndexOr_eq (c : UInt8) : ∀ (s : Bytes) (i : Nat),
    loopIndexOr c s i = S.firstAt (fun x => (x.headD 0 ||| 0x20) == c) s i
  | [], _ => rfl
  | b :: rest, i => by simp [loopIndexOr, S.firstAt, loopIndexOr_eq c rest (i + 1)]

theorem byteEqFold_alpha (c b : UInt8) (h : A.isAlpha c = true) :
    S.byteEqFold c b = ((b ||| 0x20) == (c ||| 0x20)) := by
  have e : S.isAlpha c = true := h
  unfold S.byteEqFold
  rw [e]
  by_cases hb : b = c
  · subst hb; simp
  · simp [hb]

theorem byteEqFold_nonalpha (c b : UInt8) (h : A.isAlpha c = false) : S.byteEqFold c b = (b == c) := by
  have e : S.isAlpha c = A.isAlpha c := rfl
  simp [S.byteEqFold, e, h]

/-- indexbyte_generic.go = scalar definition -/
theorem genIndexByte_eq (s : Bytes) (c : UInt8) : genIndexByte s c = S.kernIndexByte s c := by
  unfold genIndexByte S.kernIndexByte
  cases h : A.isAlpha c with
  | true =>
    simp only [not_true_eq_false, if_false]
    rw [loopIndexOr_eq]
    exact firstAt_congr _ _ (fun x => (byteEqFold_alpha c _ h).symm) s 0
  | false =>
    simp only [Bool.false_eq_true, not_false_eq_true, if_true]
    rw [firstAt_congr _ (fun x => x.headD 0 == c) (fun x => byteEqFold_nonalpha c _ h) s 0, stdIndexByte_eq]
    have := stdIndexByte_ge c s
    split <;> omega

/-- count_generic.go / countGeneric = scalar definition -/
theorem genCount_eq (s : Bytes) (c : UInt8) : genCount s c = S.kernCount s c := by
  unfold genCount S.kernCount
  cases h : A.isAlpha c with
  | true =>
    simp only [if_true]
    congr 1; apply List.filter_congr; intro b _; exact (byteEqFold_alpha c b h).symm
  | false =>
    simp only [Bool.false_eq_true, if_false]
    congr 1; apply List.filter_congr; intro b _; exact (byteEqFold_nonalpha c b h).symm

theorem high_bit_iff : ∀ b : UInt8, (b &&& 0x80 ≠ 0) ↔ b ≥ 0x80 := by decide +kernel

/-- index_non_ascii_generic.go = scalar definition -/
theorem genIndexNonASCII_eq : ∀ (s : Bytes) (i : Nat),
    genIndexNonASCII s i = S.firstAt (fun x => x.headD 0 ≥ 0x80) s i
  | [], _ => rfl
  | b :: rest, i => by
    simp only [genIndexNonASCII, S.firstAt, List.headD_cons, genIndexNonASCII_eq rest (i + 1)]
    by_cases hb : b ≥ 0x80
    · simp [hb, (high_bit_iff b).mpr hb]
    · have : ¬ (b &&& 0x80 ≠ 0) := fun h => hb ((high_bit_iff b).mp h)
      simp [hb, this]

end Kern
