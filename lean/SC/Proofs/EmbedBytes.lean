import SC.Proofs.Embed
import SC.Proofs.Valid
import SC.Proofs.RCountByte
/-!
C19 on byte strings: LastIndex under embedding, Count under embedding, and the converse clauses.
-/
namespace A
open Utf8 Fold Spec

theorem fruns_app (x y : Bytes) (hx : Valid x) : S.fruns (x ++ y) = S.fruns x ++ S.fruns y :=
  fdec_append_valid S.fold x y hx

theorem fruns_len (s : Bytes) : (S.fruns s).length = (dec s).length := fdec_length _ _

theorem dec_app3 (x s y : Bytes) (hx : Valid x) (hs : Valid s) : dec (x ++ s ++ y) = dec x ++ dec s ++ dec y := by
  rw [dec_append_valid _ (x ++ s) y (Nat.le_refl _) (valid_append x s hx hs),
    dec_append_valid _ x s (Nat.le_refl _) hx]

/-- LastIndex(s,t) = i ≥ 0 ⇒ LastIndex(x+s, t) = len(x)+i -/
theorem lastIndex_append_left (x s t : Bytes) (hx : Valid x) (i : Nat) (h : S.lastIndex s t = (i : Int)) :
    S.lastIndex (x ++ s) t = ((x.length + i : Nat) : Int) := by
  unfold S.lastIndex S.lastIndexK at h ⊢
  cases hk : findSubLast (S.fruns s) (S.fruns t) with
  | none => rw [hk] at h; simp at h
  | some k =>
    rw [hk] at h
    simp only [Int.natCast_inj] at h
    have := findSubLast_append_left (S.fruns x) (S.fruns s) (S.fruns t) k hk
    rw [fruns_app x s hx, this, fruns_len]
    simp only
    rw [offAt_append_valid_right x s hx k, h]

/-- LastIndex(s,t) = i ≥ 0 ⇒ LastIndex(s+y, t) ≥ i -/
theorem lastIndex_append_right (s y t : Bytes) (hs : Valid s) (i : Nat) (h : S.lastIndex s t = (i : Int)) :
    (i : Int) ≤ S.lastIndex (s ++ y) t := by
  unfold S.lastIndex S.lastIndexK at h ⊢
  cases hk : findSubLast (S.fruns s) (S.fruns t) with
  | none => rw [hk] at h; simp at h
  | some k =>
    rw [hk] at h
    simp only [Int.natCast_inj] at h
    obtain ⟨k', hkk, hk'⟩ := findSubLast_append_right (S.fruns s) (S.fruns y) (S.fruns t) k hk
    have hkl := ((findSubLast_some_iff _ _ _).mp hk).2.1
    rw [fruns_len] at hkl
    have hk'l := ((findSubLast_some_iff _ _ _).mp hk').2.1
    rw [← fruns_app s y hs, fruns_len] at hk'l
    rw [fruns_app s y hs, hk']
    simp only
    have := offAt_le_of_le (s ++ y) k k' hkk hk'l
    rw [offAt_append_valid s y hs k hkl, h] at this
    exact_mod_cast this

theorem count_eq_cnt (s t : Bytes) (ht : t ≠ []) : S.count s t = cnt (S.fruns t) (S.fruns s) := by
  have hne : S.fruns t ≠ [] := by
    cases t with
    | nil => exact absurd rfl ht
    | cons b x => unfold S.fruns; rw [fdec_cons']; simp
  unfold S.count cnt
  rw [if_neg ht]
  apply countFrom_fuel _ hne
  · rw [fruns_len]; have := dec_length_le s; omega
  · omega

/-- Count(x+s+y, t) ≥ Count(s, t) -/
theorem count_embed (x s y t : Bytes) (hx : Valid x) (hs : Valid s) : S.count s t ≤ S.count (x ++ s ++ y) t := by
  by_cases ht : t = []
  · subst ht
    simp only [S.count, if_true, S.nrunes]
    rw [dec_app3 x s y hx hs]
    simp only [List.length_append]; omega
  · rw [count_eq_cnt s t ht, count_eq_cnt _ t ht, fruns_app (x ++ s) y (valid_append x s hx hs), fruns_app x s hx]
    apply cnt_embed
    cases t with
    | nil => exact absurd rfl ht
    | cons b x => unfold S.fruns; rw [fdec_cons']; simp

/-- rune index of an offset of `x+s+y` known to lie in the `s` part -/
theorem embedded_index (x s y : Bytes) (hx : Valid x) (hs : Valid s) (K m : Nat)
    (hK : K + m ≤ (dec (x ++ s ++ y)).length)
    (hstart : x.length ≤ offAt (x ++ s ++ y) K)
    (hend : offAt (x ++ s ++ y) (K + m) ≤ x.length + s.length) :
    (dec x).length ≤ K ∧ K + m ≤ (dec x).length + (dec s).length ∧
    offAt (x ++ s ++ y) K = x.length + offAt s (K - (dec x).length) := by
  have hd := dec_app3 x s y hx hs
  have hx0 : offAt (x ++ s ++ y) (dec x).length = x.length := by
    rw [List.append_assoc]
    have := offAt_append_valid_right x (s ++ y) hx 0
    rw [offAt_zero] at this; simpa using this
  have hxs : offAt (x ++ s ++ y) ((dec x).length + (dec s).length) = x.length + s.length := by
    rw [List.append_assoc, offAt_append_valid_right x (s ++ y) hx, offAt_append_valid s y hs _ (Nat.le_refl _),
      offAt_length]
  have h1 : (dec x).length ≤ K := by
    rcases Nat.lt_or_ge K (dec x).length with hlt | hge
    · have := offAt_strict' (x ++ s ++ y) K (dec x).length hlt (by rw [hd]; simp)
      omega
    · exact hge
  have h2 : K + m ≤ (dec x).length + (dec s).length := by
    rcases Nat.lt_or_ge ((dec x).length + (dec s).length) (K + m) with hlt | hge
    · have := offAt_strict' (x ++ s ++ y) _ (K + m) hlt hK
      omega
    · exact hge
  refine ⟨h1, h2, ?_⟩
  have e : K = (dec x).length + (K - (dec x).length) := by omega
  rw [List.append_assoc]
  conv => lhs; rw [e]
  rw [offAt_append_valid_right x (s ++ y) hx, offAt_append_valid s y hs _ (by omega)]

/-- converse: the first match of `x+s+y`, if it lies wholly inside `s`, is the first match of `s` -/
theorem index_of_embedded (x s y t : Bytes) (hx : Valid x) (hs : Valid s) (K : Nat)
    (h : S.indexK (x ++ s ++ y) t = some K)
    (hstart : x.length ≤ offAt (x ++ s ++ y) K)
    (hend : offAt (x ++ s ++ y) (K + S.nrunes t) ≤ x.length + s.length) :
    S.index s t = ((offAt (x ++ s ++ y) K - x.length : Nat) : Int) := by
  unfold S.indexK at h
  have hk := (findSub_some_iff _ _ _).mp h
  have hKm : K + S.nrunes t ≤ (dec (x ++ s ++ y)).length := by
    have := hk.1.length_le
    simp only [List.length_drop, fruns_len] at this
    have := hk.2.1; rw [fruns_len] at this
    unfold S.nrunes; omega
  obtain ⟨h1, h2, h3⟩ := embedded_index x s y hx hs K (S.nrunes t) hKm hstart hend
  rw [fruns_app (x ++ s) y (valid_append x s hx hs), fruns_app x s hx] at h
  have e : K = (S.fruns x).length + (K - (dec x).length) := by rw [fruns_len]; omega
  rw [e] at h
  have := findSub_of_embedded (S.fruns x) (S.fruns s) (S.fruns y) (S.fruns t) _ h
    (by rw [fruns_len, fruns_len]; unfold S.nrunes at h2; omega)
  unfold S.index S.indexK
  rw [this, h3]
  simp

theorem lastIndex_of_embedded (x s y t : Bytes) (hx : Valid x) (hs : Valid s) (K : Nat)
    (h : S.lastIndexK (x ++ s ++ y) t = some K)
    (hstart : x.length ≤ offAt (x ++ s ++ y) K)
    (hend : offAt (x ++ s ++ y) (K + S.nrunes t) ≤ x.length + s.length) :
    S.lastIndex s t = ((offAt (x ++ s ++ y) K - x.length : Nat) : Int) := by
  unfold S.lastIndexK at h
  have hk := (findSubLast_some_iff _ _ _).mp h
  have hKm : K + S.nrunes t ≤ (dec (x ++ s ++ y)).length := by
    have := hk.1.length_le
    simp only [List.length_drop, fruns_len] at this
    have := hk.2.1; rw [fruns_len] at this
    unfold S.nrunes; omega
  obtain ⟨h1, h2, h3⟩ := embedded_index x s y hx hs K (S.nrunes t) hKm hstart hend
  rw [fruns_app (x ++ s) y (valid_append x s hx hs), fruns_app x s hx] at h
  have e : K = (S.fruns x).length + (K - (dec x).length) := by rw [fruns_len]; omega
  rw [e] at h
  have := findSubLast_of_embedded (S.fruns x) (S.fruns s) (S.fruns y) (S.fruns t) _ h
    (by rw [fruns_len, fruns_len]; unfold S.nrunes at h2; omega)
  unfold S.lastIndex S.lastIndexK
  rw [this, h3]
  simp

end A
