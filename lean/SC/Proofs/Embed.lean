import SC.Proofs.CountIdx
/-!
C19 at the level of lists: last match under embedding, greedy count is monotone under embedding,
and the converse (a match of the embedding that lies inside the part is a match of the part).
-/
namespace Spec
variable {α : Type} [DecidableEq α]

theorem findSubLast_append_left (x s t : List α) (k : Nat) (h : findSubLast s t = some k) :
    findSubLast (x ++ s) t = some (x.length + k) := by
  rw [findSubLast_some_iff] at h ⊢
  obtain ⟨hp, hk, hmax⟩ := h
  refine ⟨?_, by simp; omega, ?_⟩
  · rw [List.drop_append]
    simp only [List.drop_eq_nil_of_le (Nat.le_add_right _ _), Nat.add_sub_cancel_left, List.nil_append]
    exact hp
  · intro j hj hjl hpj
    have e : (x ++ s).drop j = s.drop (j - x.length) := by
      rw [List.drop_append, List.drop_eq_nil_of_le (by omega), List.nil_append]
    rw [e] at hpj
    simp only [List.length_append] at hjl
    exact hmax (j - x.length) (by omega) (by omega) hpj

theorem findSubLast_append_right (s y t : List α) (k : Nat) (h : findSubLast s t = some k) :
    ∃ k', k ≤ k' ∧ findSubLast (s ++ y) t = some k' := by
  obtain ⟨hp, hk, _⟩ := (findSubLast_some_iff _ _ _).mp h
  have hp' : t <+: (s ++ y).drop k := by
    rw [List.drop_append_of_le_length hk]; exact hp.trans (List.prefix_append _ _)
  cases hf : findSubLast (s ++ y) t with
  | none => exact absurd hp' ((findSubLast_none_iff _ _).mp hf k (by simp; omega))
  | some k' =>
    refine ⟨k', ?_, rfl⟩
    obtain ⟨_, _, hmax⟩ := (findSubLast_some_iff _ _ _).mp hf
    rcases Nat.lt_or_ge k' k with hlt | hge
    · exact absurd hp' (hmax k hlt (by simp; omega))
    · exact hge

/-- converse: a first match of the embedding that lies inside `s` is the first match of `s` -/
theorem findSub_of_embedded (x s y t : List α) (k : Nat) (h : findSub (x ++ s ++ y) t = some (x.length + k))
    (hin : k + t.length ≤ s.length) : findSub s t = some k := by
  rw [findSub_some_iff] at h ⊢
  obtain ⟨hp, _, hmin⟩ := h
  have e : ∀ j, j ≤ s.length → (x ++ s ++ y).drop (x.length + j) = s.drop j ++ y := by
    intro j hj
    rw [List.append_assoc, List.drop_append, List.drop_eq_nil_of_le (Nat.le_add_right _ _), Nat.add_sub_cancel_left,
      List.nil_append, List.drop_append_of_le_length hj]
  refine ⟨?_, by omega, ?_⟩
  · rw [e k (by omega)] at hp
    exact List.prefix_of_prefix_length_le hp (List.prefix_append _ _) (by simp; omega)
  · intro j hj hpj
    apply hmin (x.length + j) (by omega)
    rw [e j (by omega)]
    exact hpj.trans (List.prefix_append _ _)

theorem findSubLast_of_embedded (x s y t : List α) (k : Nat) (h : findSubLast (x ++ s ++ y) t = some (x.length + k))
    (hin : k + t.length ≤ s.length) : findSubLast s t = some k := by
  rw [findSubLast_some_iff] at h ⊢
  obtain ⟨hp, _, hmax⟩ := h
  have e : ∀ j, j ≤ s.length → (x ++ s ++ y).drop (x.length + j) = s.drop j ++ y := by
    intro j hj
    rw [List.append_assoc, List.drop_append, List.drop_eq_nil_of_le (Nat.le_add_right _ _), Nat.add_sub_cancel_left,
      List.nil_append, List.drop_append_of_le_length hj]
  refine ⟨?_, by omega, ?_⟩
  · rw [e k (by omega)] at hp
    exact List.prefix_of_prefix_length_le hp (List.prefix_append _ _) (by simp; omega)
  · intro j hj hjl hpj
    apply hmax (x.length + j) (by omega) (by simp; omega)
    rw [e j hjl]
    exact hpj.trans (List.prefix_append _ _)

/-! ### the greedy count is monotone under embedding -/

theorem countFrom_fuel (t : List α) (ht : t ≠ []) : ∀ (f f' : Nat) (s : List α), s.length < f → s.length < f' →
    countFrom f s t = countFrom f' s t := by
  intro f
  induction f with
  | zero => intro f' s h; omega
  | succ f ih =>
    intro f' s h h'
    cases f' with
    | zero => omega
    | succ f' =>
      cases s with
      | nil => simp [countFrom]
      | cons a s =>
        have hl : 1 ≤ t.length := by cases t with | nil => exact absurd rfl ht | cons _ _ => simp
        simp only [countFrom]
        by_cases hp : t.isPrefixOf (a :: s) = true
        · rw [if_pos hp, if_pos hp]
          congr 1
          apply ih <;> (simp only [List.length_drop, List.length_cons] at h h' ⊢; omega)
        · rw [if_neg hp, if_neg hp]
          apply ih <;> (simp only [List.length_cons] at h h'; omega)

/-- fuel-free greedy count -/
def cnt (t s : List α) : Nat := countFrom (s.length + 1) s t

theorem cnt_nil (t : List α) : cnt t [] = 0 := by simp [cnt, countFrom]

theorem cnt_cons (t : List α) (ht : t ≠ []) (a : α) (s : List α) :
    cnt t (a :: s) = if t.isPrefixOf (a :: s) then 1 + cnt t ((a :: s).drop t.length) else cnt t s := by
  have hl : 1 ≤ t.length := by cases t with | nil => exact absurd rfl ht | cons _ _ => simp
  unfold cnt
  simp only [List.length_cons, countFrom]
  by_cases hp : t.isPrefixOf (a :: s) = true
  · rw [if_pos hp, if_pos hp]
    congr 1
    apply countFrom_fuel t ht <;> (simp only [List.length_drop, List.length_cons]; omega)
  · rw [if_neg hp, if_neg hp]

/-- dropping a prefix never increases the count, and dropping at most `|t|` elements loses at most one match -/
theorem cnt_drop (t : List α) (ht : t ≠ []) : ∀ (n : Nat) (s : List α), s.length ≤ n →
    (∀ j, cnt t (s.drop j) ≤ cnt t s) ∧ (∀ j, j ≤ t.length → cnt t s ≤ cnt t (s.drop j) + 1) := by
  have hl : 1 ≤ t.length := by cases t with | nil => exact absurd rfl ht | cons _ _ => simp
  intro n
  induction n with
  | zero =>
    intro s hs
    have : s = [] := List.length_eq_zero_iff.mp (by omega)
    subst this
    simp [cnt_nil]
  | succ n ih =>
    intro s hs
    cases s with
    | nil => simp [cnt_nil]
    | cons a s' =>
      have hs' : s'.length ≤ n := by simp only [List.length_cons] at hs; omega
      obtain ⟨M', D'⟩ := ih s' hs'
      -- one step: c(s') ≤ c(a :: s')
      have step : cnt t s' ≤ cnt t (a :: s') := by
        rw [cnt_cons t ht]
        by_cases hp : t.isPrefixOf (a :: s') = true
        · rw [if_pos hp]
          have e : (a :: s').drop t.length = s'.drop (t.length - 1) := by
            have : t.length = (t.length - 1) + 1 := by omega
            rw [this, List.drop_succ_cons]; simp
          rw [e]
          have := D' (t.length - 1) (by omega)
          omega
        · rw [if_neg hp]; exact Nat.le_refl _
      constructor
      · intro j
        cases j with
        | zero => simp
        | succ j =>
          rw [List.drop_succ_cons]
          exact Nat.le_trans (M' j) step
      · intro j hj
        cases j with
        | zero => simp
        | succ j =>
          rw [List.drop_succ_cons, cnt_cons t ht]
          by_cases hp : t.isPrefixOf (a :: s') = true
          · rw [if_pos hp]
            have e : (a :: s').drop t.length = (s'.drop j).drop (t.length - 1 - j) := by
              have : t.length = (t.length - 1) + 1 := by omega
              rw [this, List.drop_succ_cons, List.drop_drop]
              congr 1; omega
            rw [e]
            have := (ih (s'.drop j) (by simp only [List.length_drop]; omega)).1 (t.length - 1 - j)
            omega
          · rw [if_neg hp]
            exact D' j (by omega)

theorem cnt_append_left (t : List α) (ht : t ≠ []) (x s : List α) : cnt t s ≤ cnt t (x ++ s) := by
  have := (cnt_drop t ht (x ++ s).length (x ++ s) (Nat.le_refl _)).1 x.length
  rw [List.drop_left] at this
  exact this

theorem cnt_append_right (t : List α) (ht : t ≠ []) (y : List α) : ∀ (n : Nat) (s : List α), s.length ≤ n →
    cnt t s ≤ cnt t (s ++ y) := by
  have hl : 1 ≤ t.length := by cases t with | nil => exact absurd rfl ht | cons _ _ => simp
  intro n
  induction n with
  | zero =>
    intro s hs
    have : s = [] := List.length_eq_zero_iff.mp (by omega)
    subst this
    simp [cnt_nil]
  | succ n ih =>
    intro s hs
    cases s with
    | nil => simp [cnt_nil]
    | cons a s' =>
      rw [cnt_cons t ht, List.cons_append, cnt_cons t ht]
      by_cases hp : t.isPrefixOf (a :: s') = true
      · have hp' := (isPrefixOf_iff _ _).mp hp
        have hp2 : t.isPrefixOf (a :: (s' ++ y)) = true :=
          (isPrefixOf_iff _ _).mpr (by rw [← List.cons_append]; exact hp'.trans (List.prefix_append _ _))
        rw [if_pos hp, if_pos hp2]
        have hle := hp'.length_le
        have e : (a :: (s' ++ y)).drop t.length = (a :: s').drop t.length ++ y := by
          rw [← List.cons_append, List.drop_append_of_le_length hle]
        rw [e]
        have := ih ((a :: s').drop t.length) (by simp only [List.length_drop, List.length_cons] at hs ⊢; omega)
        omega
      · rw [if_neg hp]
        have h1 := ih s' (by simp only [List.length_cons] at hs; omega)
        have h2 : cnt t (s' ++ y) ≤ cnt t (a :: (s' ++ y)) := cnt_append_left t ht [a] (s' ++ y)
        rw [cnt_cons t ht] at h2
        exact Nat.le_trans h1 h2

/-- Count(x + s + y, t) ≥ Count(s, t), on lists -/
theorem cnt_embed (t : List α) (ht : t ≠ []) (x s y : List α) : cnt t s ≤ cnt t (x ++ s ++ y) := by
  have h1 := cnt_append_right t ht y s.length s (Nat.le_refl _)
  have h2 := cnt_append_left t ht x (s ++ y)
  rw [List.append_assoc]
  exact Nat.le_trans h1 h2

end Spec
