import SC.Proofs.RIndexAny4
/-!
C11: `A.IndexAny` / `A.ContainsAny` equal the specification on every pair of byte strings.
-/
namespace A
open Utf8 Fold

/-- the specification meets the first-by contract for the folded-set predicate -/
theorem S_indexAny_firstBy (s cs : Bytes) : ∃ w, IsFirstBy (anyP cs) s (S.indexAny s cs, w) := by
  obtain ⟨w, h⟩ := findIdx_firstBy (anyP cs) s
  refine ⟨w, ?_⟩
  have e : S.indexAny s cs =
      (match (dec s).findIdx? (fun p => anyP cs p.1) with | some k => ((offAt s k : Nat) : Int) | none => -1) := by
    unfold S.indexAny S.fruns fdec S.fold
    dsimp only
    rw [findIdx_map]
    rfl
  rw [e]; exact h

theorem eq_S_indexAny (s cs : Bytes) (res : Int) (w : Nat) (h : IsFirstBy (anyP cs) s (res, w)) :
    res = S.indexAny s cs := by
  obtain ⟨w', h'⟩ := S_indexAny_firstBy s cs
  exact isFirstBy_unique _ s _ _ h h'

theorem setOf_lt (chars : Bytes) (hasc : ∀ c ∈ chars, c < 0x80) (b : UInt8) (h : setOf chars b = true) : b < 0x80 := by
  unfold setOf at h
  obtain ⟨c, hc, hcb⟩ := List.any_eq_true.mp h
  simp only [Bool.or_eq_true, beq_iff_eq, Bool.and_eq_true] at hcb
  rcases hcb with h | ⟨ha, h⟩
  · rw [h]; exact hasc c hc
  · rw [h]; exact alpha_xor_lt c (hasc c hc) ha

/-- the ASCII-set strategy -/
theorem anySet_firstBy (s chars : Bytes) (hok : (makeASCIISet s chars).2 = true) :
    IsFirstBy (anyP chars) s (S.firstAt (fun x => (makeASCIISet s chars).1 (x.headD 0)) s 0, 1) := by
  obtain ⟨hasc, hset, hks⟩ := makeASCIISet_ok s chars hok
  have hfun : (makeASCIISet s chars).1 = setOf chars := funext hset
  rw [hfun]
  have := firstByte_isFirstBy (setOf chars) (setOf_lt chars hasc) s
  exact isFirstBy_congr_on _ _ s _ (anyP_eq_set s chars hasc hks) this

theorem anyP_nil (x : Nat) : anyP [] x = false := by
  unfold anyP; simp [fdec, dec_nil]

theorem anyP_single (c : UInt8) (x : Nat) :
    anyP [c] x = (caseFold x == caseFold (if c ≥ 0x80 then 0xFFFD else c.toNat)) := by
  unfold anyP
  rw [fdec_single [c] (by simp) (by
    by_cases hc : c < 0x80
    · simp [decodeRune, hc]
    · rw [decodeRune_single c hc]; rfl)]
  by_cases hc : c < 0x80
  · have : ¬ c ≥ 0x80 := UInt8.not_le.mpr hc
    rw [if_neg this]
    have : decodeRune [c] = (c.toNat, 1) := by simp [decodeRune, hc]
    rw [this]; simp [List.contains_cons, Bool.beq_comm]; first | rfl | exact (beq_eq_decide _ _).symm
  · have h2 : c ≥ 0x80 := UInt8.not_lt.mp hc
    rw [if_pos h2, decodeRune_single c hc]
    simp [List.contains_cons, runeError, Bool.beq_comm]; first | rfl | exact (beq_eq_decide _ _).symm

/-- C11: `IndexAny` of the algorithm model equals the specification, for all byte strings, both packages -/
theorem IndexAny_eq (cfg : Cfg) (s chars : Bytes) : IndexAny cfg s chars = S.indexAny s chars := by
  unfold IndexAny
  by_cases h0 : chars.length = 0
  · rw [if_pos h0]
    have : chars = [] := List.length_eq_zero_iff.mp h0
    subst this
    exact eq_S_indexAny s [] (-1) 0 (Or.inl ⟨rfl, fun i _ _ => anyP_nil _⟩)
  rw [if_neg h0]
  by_cases h1 : chars.length = 1
  · rw [if_pos h1]
    cases chars with
    | nil => simp at h0
    | cons c p =>
      have hp : p = [] := by
        simp only [List.length_cons] at h1
        exact List.length_eq_zero_iff.mp (by omega)
      subst hp
      show IndexRune cfg s (if c ≥ 0x80 then (0xFFFD : Int) else (c.toNat : Int)) = S.indexAny s [c]
      have hcast : ((if c ≥ 0x80 then 0xFFFD else (c.toNat : Int)) : Int) =
          (((if c ≥ 0x80 then 0xFFFD else c.toNat : Nat)) : Int) := by
        split <;> rfl
      rw [hcast]
      generalize hr : (if c ≥ 0x80 then 0xFFFD else c.toNat : Nat) = r
      have hv : validRune r := by
        rw [← hr]; split
        · decide
        · have := UInt8.toNat_lt c; unfold validRune; omega
      have hvi : S.validRuneI (r : Int) = true := by
        simp only [S.validRuneI, decide_eq_true_eq]
        exact ⟨by omega, by simpa using hv⟩
      obtain ⟨w, hfb⟩ := (IndexRune_spec cfg s (r : Int)).2 hvi
      simp only [Int.toNat_natCast] at hfb
      generalize IndexRune cfg s (r : Int) = res at hfb ⊢
      apply eq_S_indexAny s [c] res w
      apply isFirstBy_congr _ _ _ s _ hfb
      intro x; rw [anyP_single, hr]
  rw [if_neg h1]
  by_cases hset : s.length > 8 ∧ (makeASCIISet s chars).2 = true
  · simp only [hset.1, hset.2, if_true]
    exact eq_S_indexAny s chars _ 1 (anySet_firstBy s chars hset.2)
  · have hnone : (if s.length > 8 then
          (if (makeASCIISet s chars).2 = true then
            some (S.firstAt (fun x => (makeASCIISet s chars).1 (x.headD 0)) s 0) else none) else (none : Option Int)) = none := by
      by_cases h8 : s.length > 8
      · rw [if_pos h8, if_neg (fun h => hset ⟨h8, h⟩)]
      · rw [if_neg h8]
    simp only [hnone]
    by_cases hl : s.length > chars.length * 2
    · rw [if_pos hl]
      obtain ⟨w, h⟩ := anyByChars_spec cfg s chars
      exact eq_S_indexAny s chars _ w h
    · rw [if_neg hl]
      rcases anyByHay_spec cfg chars (s.length + 1) s 0 (by omega) with ⟨h1, hn⟩ | ⟨i, h1, hb, hil, hp, hmin⟩
      · exact eq_S_indexAny s chars _ 0 (Or.inl ⟨h1, hn⟩)
      · exact eq_S_indexAny s chars _ (decodeRune (s.drop i)).2
          (Or.inr ⟨i, by rw [h1]; simp, hb, hil, hp, rfl, hmin⟩)

theorem ContainsAny_eq (cfg : Cfg) (s chars : Bytes) : ContainsAny cfg s chars = S.containsAny s chars := by
  unfold ContainsAny S.containsAny; rw [IndexAny_eq]

end A
