import SC.Proofs.AsmSmall
/-!
The SSE search loop of `indexbytebody` at instruction level: running the regenerated instructions from
label `sse` computes the block-level loop `Kern.idxLoop ⟨16,16,16⟩` — result and loads — for every memory,
base, length ≥ 16 and needle byte.  The proof is a loop invariant over machine states (`SI` = base,
`DI` = base + di, `AX` = address of the last block, `X0` = needle lanes), by induction on the number of
blocks still to examine.
-/
namespace Asm
open Kern

def P16 : LoopP := ⟨16, 16, 16⟩

/-- program text from label `sseloopentry` on -/
def Lentry (p : Prog) : List Instr := block p "sseloopentry"

macro "asm_step" "[" ts:Lean.Parser.Tactic.simpLemma,* "]" : tactic =>
  `(tactic| simp only [Lentry, block, String.reduceBEq, List.map, List.flatten, List.append_eq, List.append_nil, List.cons_append,
      List.nil_append, run, step, setR, setX, addr, reduceCtorEq, if_false, if_true, Bool.false_eq_true, decide_true, decide_false,
      List.append_assoc, $ts,*])

macro "asm_step_at" h:ident "[" ts:Lean.Parser.Tactic.simpLemma,* "]" : tactic =>
  `(tactic| simp only [Lentry, block, String.reduceBEq, List.map, List.flatten, List.append_eq, List.append_nil, List.cons_append,
      List.nil_append, run, step, setR, setX, addr, reduceCtorEq, if_false, if_true, Bool.false_eq_true, decide_true, decide_false,
      List.append_assoc, $ts,*] at $h:ident)

theorem idxLoop_succ16 (p : UInt8 → Bool) (mem : Mem) (base len n di : Nat) :
    idxLoop P16 p mem base len (n + 1) di =
      if di < len - 16 then
        (match blk p mem (base + di) 0 16 with
          | some j => (((di + j : Nat) : Int), [(base + di, 16)])
          | none => ((idxLoop P16 p mem base len n (di + 16)).1, (base + di, 16) :: (idxLoop P16 p mem base len n (di + 16)).2))
      else
        (match blk p mem (base + (len - 16)) 0 16 with
          | some j => (((len - 16 + j : Nat) : Int), [(base + (len - 16), 16)])
          | none => (-1, [(base + (len - 16), 16)])) := rfl

set_option maxRecDepth 8000 in
set_option maxHeartbeats 8000000 in
theorem sse_indexbytebody_inv (mem : Nat → UInt8) (base len : Nat) (c : UInt8) (h16 : 16 ≤ len) (hb : base + len + 32 < 2 ^ 63) :
    ∀ (n di : Nat) (s : St) (f : Nat),
      s.r .SI = base → s.r .DI = base + di → s.r .AX = base + len - 16 → (∀ j, s.x .X0 j = c) → (∀ _j : Nat, True) →
      s.mem = mem → s.out = none →
      di < len → len ≤ n * 16 + di → 8 * n + 12 ≤ f →
      (run Gen.Asm.body_indexbytebody f (Lentry Gen.Asm.body_indexbytebody) s).out =
          some (idxLoop P16 (fun b => b == c) mem base len n di).1 ∧
      (run Gen.Asm.body_indexbytebody f (Lentry Gen.Asm.body_indexbytebody) s).loads =
          s.loads ++ (idxLoop P16 (fun b => b == c) mem base len n di).2 := by
  intro n
  induction n with
  | zero => intro di s f _ _ _ _ _ _ _ h1 h2; omega
  | succ n ih =>
    intro di s f hSI hDI hAX hX0 hX2 hmem hout hdl hf hfuel
    have hW : W64 = 2 ^ 64 := rfl
    rw [idxLoop_succ16]
    by_cases hlt : di < len - 16
    · rw [if_pos hlt]
      have hcf : decide (base + di < base + len - 16) = true := decide_eq_true (by omega)
      have a0 : (base + di + 0 + dispN 0) % W64 = base + di := by rw [dispN0, hW]; omega
      have hfb := bsf_mask (fun j => if mem (base + di + j) = c then (255 : UInt8) else 0) (fun b => b == c) mem (base + di)
        (fun j => by by_cases h : mem (base + di + j) = c <;> simp [h])
      cases hblk : blk (fun b => b == c) mem (base + di) 0 16 with
      | none =>
        rw [hblk] at hfb
        simp only []
        -- one full iteration, then the invariant again at di + 16
        have hadd : (base + di + 16 % W64) % W64 = base + (di + 16) := by rw [hW]; omega
        obtain ⟨g, rfl⟩ : ∃ g, f = g + 8 := ⟨f - 8, by omega⟩
        have hstep : ∃ s' : St, run Gen.Asm.body_indexbytebody (g + 8) (Lentry Gen.Asm.body_indexbytebody) s =
              run Gen.Asm.body_indexbytebody g (Lentry Gen.Asm.body_indexbytebody) s' ∧
            s'.r .SI = base ∧ s'.r .DI = base + (di + 16) ∧ s'.r .AX = base + len - 16 ∧ (∀ j, s'.x .X0 j = c) ∧
            (∀ _j : Nat, True) ∧ s'.mem = mem ∧ s'.out = none ∧ s'.loads = s.loads ++ [(base + di, 16)] := by
          refine ⟨?_, ?_, ?_, ?_, ?_, ?_, ?_, ?_, ?_, ?_⟩
          case refine_2 =>
            asm_step [Gen.Asm.body_indexbytebody, hSI, hDI, hAX, hX0, hX2, hmem, hcf, a0, hfb, hadd]
            rfl
          all_goals simp [hSI, hAX, hX0, hX2, hout]
        obtain ⟨s', he, i1, i2, i3, i4, i5, i6, i7, i8⟩ := hstep
        have := ih (di + 16) s' g i1 i2 i3 i4 i5 i6 i7 (by omega) (by omega) (by omega)
        rw [he, this.1, this.2, i8]
        exact ⟨rfl, by simp⟩
      | some k =>
        rw [hblk] at hfb
        obtain ⟨_, hk16, _, _⟩ := blk_some hblk
        simp only []
        have hsub : (base + di + W64 - base % W64) % W64 = di := by rw [hW]; omega
        have haddk : (di + k) % W64 = di + k := by rw [hW]; omega
        have h63 : di + k < 2 ^ 63 := by omega
        obtain ⟨g, rfl⟩ : ∃ g, f = g + 12 := ⟨f - 12, by omega⟩
        constructor <;> asm_step [Gen.Asm.body_indexbytebody, hSI, hDI, hAX, hX0, hX2, hmem, hout, hcf, a0, hfb, hsub, haddk, h63]
    · rw [if_neg hlt]
      have hcf : decide (base + di < base + len - 16) = false := decide_eq_false (by omega)
      have a0 : (base + len - 16 + 0 + dispN 0) % W64 = base + len - 16 := by rw [dispN0, hW]; omega
      have hfb := bsf_mask (fun j => if mem (base + len - 16 + j) = c then (255 : UInt8) else 0) (fun b => b == c) mem (base + len - 16)
        (fun j => by by_cases h : mem (base + len - 16 + j) = c <;> simp [h])
      have eaddr : base + (len - 16) = base + len - 16 := by omega
      rw [eaddr]
      cases hblk : blk (fun b => b == c) mem (base + len - 16) 0 16 with
      | none =>
        rw [hblk] at hfb
        simp only []
        obtain ⟨g, rfl⟩ : ∃ g, f = g + 12 := ⟨f - 12, by omega⟩
        constructor <;> asm_step [Gen.Asm.body_indexbytebody, hSI, hDI, hAX, hX0, hX2, hmem, hout, hcf, a0, hfb]
      | some k =>
        rw [hblk] at hfb
        obtain ⟨_, hk16, _, _⟩ := blk_some hblk
        simp only []
        have hsub : (base + len - 16 + W64 - base % W64) % W64 = len - 16 := by rw [hW]; omega
        have haddk : (len - 16 + k) % W64 = len - 16 + k := by rw [hW]; omega
        have h63 : len - 16 + k < 2 ^ 63 := by omega
        obtain ⟨g, rfl⟩ : ∃ g, f = g + 12 := ⟨f - 12, by omega⟩
        constructor <;> asm_step [Gen.Asm.body_indexbytebody, hSI, hDI, hAX, hX0, hX2, hmem, hout, hcf, a0, hfb, hsub, haddk, h63]

set_option maxRecDepth 8000 in
set_option maxHeartbeats 8000000 in
/-- **`indexbytebody`, SSE loop, from label `sse`** (`SI` = `DI` = data, `BX` = length ≥ 16, needle lanes in `X0`, 0x20 lanes in `X2`):
    the regenerated instructions compute the block-level loop — and hence the scalar definition — with every load inside the
    argument -/
theorem sse_indexbytebody_correct (mem : Nat → UInt8) (base len : Nat) (c : UInt8) (s : St) (f : Nat)
    (h16 : 16 ≤ len) (hb : base + len + 32 < 2 ^ 63)
    (hSI : s.r .SI = base) (hDI : s.r .DI = base) (hBX : s.r .BX = len) (hX0 : ∀ j, s.x .X0 j = c) (hX2 : ∀ _j : Nat, True)
    (hmem : s.mem = mem) (hout : s.out = none) (hl : s.loads = []) (hf : 8 * (len + 1) + 12 + 2 ≤ f) :
    (run Gen.Asm.body_indexbytebody f (block Gen.Asm.body_indexbytebody "sse") s).out = some (specIndex (fun b => b == c) mem base len) ∧
    ∀ ld ∈ (run Gen.Asm.body_indexbytebody f (block Gen.Asm.body_indexbytebody "sse") s).loads, base ≤ ld.1 ∧ ld.1 + ld.2 ≤ base + len := by
  have hW : W64 = 2 ^ 64 := rfl
  obtain ⟨g, rfl⟩ : ∃ g, f = g + 2 := ⟨f - 2, by omega⟩
  have alea : (base + len + dispN (-16)) % W64 = base + len - 16 := by rw [dispNm16, hW]; omega
  have hinv := sse_indexbytebody_inv mem base len c h16 hb (len + 1) 0
    { s with r := fun q => if q = Reg.AX then base + len - 16 else s.r q } g
    (by simp [hSI]) (by simp [hDI]) (by simp) hX0 hX2 hmem hout (by omega) (by omega) (by omega)
  have hcor := idxLoop_correct P16 ⟨rfl, rfl, by decide⟩ (fun b => b == c) mem base len h16 (len + 1) 0 (by omega)
    (by show len ≤ (len + 1) * 16 + 0; omega) (fun i hi => by omega)
  have e : run Gen.Asm.body_indexbytebody (g + 2) (block Gen.Asm.body_indexbytebody "sse") s =
      run Gen.Asm.body_indexbytebody g (Lentry Gen.Asm.body_indexbytebody)
        { s with r := fun q => if q = Reg.AX then base + len - 16 else s.r q } := by
    asm_step [Gen.Asm.body_indexbytebody, hSI, hBX, alea]
  rw [e, hinv.1, hinv.2, hcor.1]
  refine ⟨rfl, ?_⟩
  intro ld hld
  simp only [hl, List.nil_append] at hld
  exact hcor.2 ld hld

set_option maxRecDepth 8000 in
set_option maxHeartbeats 8000000 in
theorem sse_indexbytebodyCase_inv (mem : Nat → UInt8) (base len : Nat) (c : UInt8) (h16 : 16 ≤ len) (hb : base + len + 32 < 2 ^ 63) :
    ∀ (n di : Nat) (s : St) (f : Nat),
      s.r .SI = base → s.r .DI = base + di → s.r .AX = base + len - 16 → (∀ j, s.x .X0 j = c) → (∀ j, s.x .X2 j = 0x20) →
      s.mem = mem → s.out = none →
      di < len → len ≤ n * 16 + di → 9 * n + 14 ≤ f →
      (run Gen.Asm.body_indexbytebodyCase f (Lentry Gen.Asm.body_indexbytebodyCase) s).out =
          some (idxLoop P16 (fun b => (b ||| 0x20) == c) mem base len n di).1 ∧
      (run Gen.Asm.body_indexbytebodyCase f (Lentry Gen.Asm.body_indexbytebodyCase) s).loads =
          s.loads ++ (idxLoop P16 (fun b => (b ||| 0x20) == c) mem base len n di).2 := by
  intro n
  induction n with
  | zero => intro di s f _ _ _ _ _ _ _ h1 h2; omega
  | succ n ih =>
    intro di s f hSI hDI hAX hX0 hX2 hmem hout hdl hf hfuel
    have hW : W64 = 2 ^ 64 := rfl
    rw [idxLoop_succ16]
    by_cases hlt : di < len - 16
    · rw [if_pos hlt]
      have hcf : decide (base + di < base + len - 16) = true := decide_eq_true (by omega)
      have a0 : (base + di + 0 + dispN 0) % W64 = base + di := by rw [dispN0, hW]; omega
      have hfb := bsf_mask (fun j => if mem (base + di + j) ||| 32 = c then (255 : UInt8) else 0) (fun b => (b ||| 0x20) == c) mem (base + di)
        (fun j => by by_cases h : mem (base + di + j) ||| 32 = c <;> simp [h])
      cases hblk : blk (fun b => (b ||| 0x20) == c) mem (base + di) 0 16 with
      | none =>
        rw [hblk] at hfb
        simp only []
        -- one full iteration, then the invariant again at di + 16
        have hadd : (base + di + 16 % W64) % W64 = base + (di + 16) := by rw [hW]; omega
        obtain ⟨g, rfl⟩ : ∃ g, f = g + 9 := ⟨f - 9, by omega⟩
        have hstep : ∃ s' : St, run Gen.Asm.body_indexbytebodyCase (g + 9) (Lentry Gen.Asm.body_indexbytebodyCase) s =
              run Gen.Asm.body_indexbytebodyCase g (Lentry Gen.Asm.body_indexbytebodyCase) s' ∧
            s'.r .SI = base ∧ s'.r .DI = base + (di + 16) ∧ s'.r .AX = base + len - 16 ∧ (∀ j, s'.x .X0 j = c) ∧
            (∀ j, s'.x .X2 j = 0x20) ∧ s'.mem = mem ∧ s'.out = none ∧ s'.loads = s.loads ++ [(base + di, 16)] := by
          refine ⟨?_, ?_, ?_, ?_, ?_, ?_, ?_, ?_, ?_, ?_⟩
          case refine_2 =>
            asm_step [Gen.Asm.body_indexbytebodyCase, hSI, hDI, hAX, hX0, hX2, hmem, hcf, a0, hfb, hadd]
            rfl
          all_goals simp [hSI, hAX, hX0, hX2, hout]
        obtain ⟨s', he, i1, i2, i3, i4, i5, i6, i7, i8⟩ := hstep
        have := ih (di + 16) s' g i1 i2 i3 i4 i5 i6 i7 (by omega) (by omega) (by omega)
        rw [he, this.1, this.2, i8]
        exact ⟨rfl, by simp⟩
      | some k =>
        rw [hblk] at hfb
        obtain ⟨_, hk16, _, _⟩ := blk_some hblk
        simp only []
        have hsub : (base + di + W64 - base % W64) % W64 = di := by rw [hW]; omega
        have haddk : (di + k) % W64 = di + k := by rw [hW]; omega
        have h63 : di + k < 2 ^ 63 := by omega
        obtain ⟨g, rfl⟩ : ∃ g, f = g + 14 := ⟨f - 14, by omega⟩
        constructor <;> asm_step [Gen.Asm.body_indexbytebodyCase, hSI, hDI, hAX, hX0, hX2, hmem, hout, hcf, a0, hfb, hsub, haddk, h63]
    · rw [if_neg hlt]
      have hcf : decide (base + di < base + len - 16) = false := decide_eq_false (by omega)
      have a0 : (base + len - 16 + 0 + dispN 0) % W64 = base + len - 16 := by rw [dispN0, hW]; omega
      have hfb := bsf_mask (fun j => if mem (base + len - 16 + j) ||| 32 = c then (255 : UInt8) else 0) (fun b => (b ||| 0x20) == c) mem (base + len - 16)
        (fun j => by by_cases h : mem (base + len - 16 + j) ||| 32 = c <;> simp [h])
      have eaddr : base + (len - 16) = base + len - 16 := by omega
      rw [eaddr]
      cases hblk : blk (fun b => (b ||| 0x20) == c) mem (base + len - 16) 0 16 with
      | none =>
        rw [hblk] at hfb
        simp only []
        obtain ⟨g, rfl⟩ : ∃ g, f = g + 14 := ⟨f - 14, by omega⟩
        constructor <;> asm_step [Gen.Asm.body_indexbytebodyCase, hSI, hDI, hAX, hX0, hX2, hmem, hout, hcf, a0, hfb]
      | some k =>
        rw [hblk] at hfb
        obtain ⟨_, hk16, _, _⟩ := blk_some hblk
        simp only []
        have hsub : (base + len - 16 + W64 - base % W64) % W64 = len - 16 := by rw [hW]; omega
        have haddk : (len - 16 + k) % W64 = len - 16 + k := by rw [hW]; omega
        have h63 : len - 16 + k < 2 ^ 63 := by omega
        obtain ⟨g, rfl⟩ : ∃ g, f = g + 14 := ⟨f - 14, by omega⟩
        constructor <;> asm_step [Gen.Asm.body_indexbytebodyCase, hSI, hDI, hAX, hX0, hX2, hmem, hout, hcf, a0, hfb, hsub, haddk, h63]

set_option maxRecDepth 8000 in
set_option maxHeartbeats 8000000 in
/-- **`indexbytebodyCase`, SSE loop, from label `sse`** (`SI` = `DI` = data, `BX` = length ≥ 16, needle lanes in `X0`, 0x20 lanes in `X2`):
    the regenerated instructions compute the block-level loop — and hence the scalar definition — with every load inside the
    argument -/
theorem sse_indexbytebodyCase_correct (mem : Nat → UInt8) (base len : Nat) (c : UInt8) (s : St) (f : Nat)
    (h16 : 16 ≤ len) (hb : base + len + 32 < 2 ^ 63)
    (hSI : s.r .SI = base) (hDI : s.r .DI = base) (hBX : s.r .BX = len) (hX0 : ∀ j, s.x .X0 j = c) (hX2 : ∀ j, s.x .X2 j = 0x20)
    (hmem : s.mem = mem) (hout : s.out = none) (hl : s.loads = []) (hf : 9 * (len + 1) + 14 + 2 ≤ f) :
    (run Gen.Asm.body_indexbytebodyCase f (block Gen.Asm.body_indexbytebodyCase "sse") s).out = some (specIndex (fun b => (b ||| 0x20) == c) mem base len) ∧
    ∀ ld ∈ (run Gen.Asm.body_indexbytebodyCase f (block Gen.Asm.body_indexbytebodyCase "sse") s).loads, base ≤ ld.1 ∧ ld.1 + ld.2 ≤ base + len := by
  have hW : W64 = 2 ^ 64 := rfl
  obtain ⟨g, rfl⟩ : ∃ g, f = g + 2 := ⟨f - 2, by omega⟩
  have alea : (base + len + dispN (-16)) % W64 = base + len - 16 := by rw [dispNm16, hW]; omega
  have hinv := sse_indexbytebodyCase_inv mem base len c h16 hb (len + 1) 0
    { s with r := fun q => if q = Reg.AX then base + len - 16 else s.r q } g
    (by simp [hSI]) (by simp [hDI]) (by simp) hX0 hX2 hmem hout (by omega) (by omega) (by omega)
  have hcor := idxLoop_correct P16 ⟨rfl, rfl, by decide⟩ (fun b => (b ||| 0x20) == c) mem base len h16 (len + 1) 0 (by omega)
    (by show len ≤ (len + 1) * 16 + 0; omega) (fun i hi => by omega)
  have e : run Gen.Asm.body_indexbytebodyCase (g + 2) (block Gen.Asm.body_indexbytebodyCase "sse") s =
      run Gen.Asm.body_indexbytebodyCase g (Lentry Gen.Asm.body_indexbytebodyCase)
        { s with r := fun q => if q = Reg.AX then base + len - 16 else s.r q } := by
    asm_step [Gen.Asm.body_indexbytebodyCase, hSI, hBX, alea]
  rw [e, hinv.1, hinv.2, hcor.1]
  refine ⟨rfl, ?_⟩
  intro ld hld
  simp only [hl, List.nil_append] at hld
  exact hcor.2 ld hld

set_option maxRecDepth 8000 in
set_option maxHeartbeats 8000000 in
theorem sse_indexByteBodyNonASCII_inv (mem : Nat → UInt8) (base len : Nat) (c : UInt8) (h16 : 16 ≤ len) (hb : base + len + 32 < 2 ^ 63) :
    ∀ (n di : Nat) (s : St) (f : Nat),
      s.r .SI = base → s.r .DI = base + di → s.r .AX = base + len - 16 → (∀ _j : Nat, True) → (∀ _j : Nat, True) →
      s.mem = mem → s.out = none →
      di < len → len ≤ n * 16 + di → 8 * n + 12 ≤ f →
      (run Gen.Asm.body_indexByteBodyNonASCII f (Lentry Gen.Asm.body_indexByteBodyNonASCII) s).out =
          some (idxLoop P16 (fun b => decide (b ≥ 0x80)) mem base len n di).1 ∧
      (run Gen.Asm.body_indexByteBodyNonASCII f (Lentry Gen.Asm.body_indexByteBodyNonASCII) s).loads =
          s.loads ++ (idxLoop P16 (fun b => decide (b ≥ 0x80)) mem base len n di).2 := by
  intro n
  induction n with
  | zero => intro di s f _ _ _ _ _ _ _ h1 h2; omega
  | succ n ih =>
    intro di s f hSI hDI hAX hX0 hX2 hmem hout hdl hf hfuel
    have hW : W64 = 2 ^ 64 := rfl
    rw [idxLoop_succ16]
    by_cases hlt : di < len - 16
    · rw [if_pos hlt]
      have hcf : decide (base + di < base + len - 16) = true := decide_eq_true (by omega)
      have a0 : (base + di + 0 + dispN 0) % W64 = base + di := by rw [dispN0, hW]; omega
      have hfb := bsf_mask (fun j => mem (base + di + j)) (fun b => decide (b ≥ 0x80)) mem (base + di)
        (fun j => rfl)
      cases hblk : blk (fun b => decide (b ≥ 0x80)) mem (base + di) 0 16 with
      | none =>
        rw [hblk] at hfb
        simp only []
        -- one full iteration, then the invariant again at di + 16
        have hadd : (base + di + 16 % W64) % W64 = base + (di + 16) := by rw [hW]; omega
        obtain ⟨g, rfl⟩ : ∃ g, f = g + 8 := ⟨f - 8, by omega⟩
        have hstep : ∃ s' : St, run Gen.Asm.body_indexByteBodyNonASCII (g + 8) (Lentry Gen.Asm.body_indexByteBodyNonASCII) s =
              run Gen.Asm.body_indexByteBodyNonASCII g (Lentry Gen.Asm.body_indexByteBodyNonASCII) s' ∧
            s'.r .SI = base ∧ s'.r .DI = base + (di + 16) ∧ s'.r .AX = base + len - 16 ∧ (∀ _j : Nat, True) ∧
            (∀ _j : Nat, True) ∧ s'.mem = mem ∧ s'.out = none ∧ s'.loads = s.loads ++ [(base + di, 16)] := by
          refine ⟨?_, ?_, ?_, ?_, ?_, ?_, ?_, ?_, ?_, ?_⟩
          case refine_2 =>
            asm_step [Gen.Asm.body_indexByteBodyNonASCII, hSI, hDI, hAX, hX2, hmem, hcf, a0, hfb, hadd]
            rfl
          all_goals simp [hSI, hAX, hX2, hout]
        obtain ⟨s', he, i1, i2, i3, i4, i5, i6, i7, i8⟩ := hstep
        have := ih (di + 16) s' g i1 i2 i3 i4 i5 i6 i7 (by omega) (by omega) (by omega)
        rw [he, this.1, this.2, i8]
        exact ⟨rfl, by simp⟩
      | some k =>
        rw [hblk] at hfb
        obtain ⟨_, hk16, _, _⟩ := blk_some hblk
        simp only []
        have hsub : (base + di + W64 - base % W64) % W64 = di := by rw [hW]; omega
        have haddk : (di + k) % W64 = di + k := by rw [hW]; omega
        have h63 : di + k < 2 ^ 63 := by omega
        obtain ⟨g, rfl⟩ : ∃ g, f = g + 12 := ⟨f - 12, by omega⟩
        constructor <;> asm_step [Gen.Asm.body_indexByteBodyNonASCII, hSI, hDI, hAX, hX2, hmem, hout, hcf, a0, hfb, hsub, haddk, h63]
    · rw [if_neg hlt]
      have hcf : decide (base + di < base + len - 16) = false := decide_eq_false (by omega)
      have a0 : (base + len - 16 + 0 + dispN 0) % W64 = base + len - 16 := by rw [dispN0, hW]; omega
      have hfb := bsf_mask (fun j => mem (base + len - 16 + j)) (fun b => decide (b ≥ 0x80)) mem (base + len - 16)
        (fun j => rfl)
      have eaddr : base + (len - 16) = base + len - 16 := by omega
      rw [eaddr]
      cases hblk : blk (fun b => decide (b ≥ 0x80)) mem (base + len - 16) 0 16 with
      | none =>
        rw [hblk] at hfb
        simp only []
        obtain ⟨g, rfl⟩ : ∃ g, f = g + 12 := ⟨f - 12, by omega⟩
        constructor <;> asm_step [Gen.Asm.body_indexByteBodyNonASCII, hSI, hDI, hAX, hX2, hmem, hout, hcf, a0, hfb]
      | some k =>
        rw [hblk] at hfb
        obtain ⟨_, hk16, _, _⟩ := blk_some hblk
        simp only []
        have hsub : (base + len - 16 + W64 - base % W64) % W64 = len - 16 := by rw [hW]; omega
        have haddk : (len - 16 + k) % W64 = len - 16 + k := by rw [hW]; omega
        have h63 : len - 16 + k < 2 ^ 63 := by omega
        obtain ⟨g, rfl⟩ : ∃ g, f = g + 12 := ⟨f - 12, by omega⟩
        constructor <;> asm_step [Gen.Asm.body_indexByteBodyNonASCII, hSI, hDI, hAX, hX2, hmem, hout, hcf, a0, hfb, hsub, haddk, h63]

set_option maxRecDepth 8000 in
set_option maxHeartbeats 8000000 in
/-- **`indexByteBodyNonASCII`, SSE loop, from label `sse`** (`SI` = `DI` = data, `BX` = length ≥ 16, needle lanes in `X0`, 0x20 lanes in `X2`):
    the regenerated instructions compute the block-level loop — and hence the scalar definition — with every load inside the
    argument -/
theorem sse_indexByteBodyNonASCII_correct (mem : Nat → UInt8) (base len : Nat) (c : UInt8) (s : St) (f : Nat)
    (h16 : 16 ≤ len) (hb : base + len + 32 < 2 ^ 63)
    (hSI : s.r .SI = base) (hDI : s.r .DI = base) (hBX : s.r .BX = len) (hX0 : ∀ _j : Nat, True) (hX2 : ∀ _j : Nat, True)
    (hmem : s.mem = mem) (hout : s.out = none) (hl : s.loads = []) (hf : 8 * (len + 1) + 12 + 2 ≤ f) :
    (run Gen.Asm.body_indexByteBodyNonASCII f (block Gen.Asm.body_indexByteBodyNonASCII "sse") s).out = some (specIndex (fun b => decide (b ≥ 0x80)) mem base len) ∧
    ∀ ld ∈ (run Gen.Asm.body_indexByteBodyNonASCII f (block Gen.Asm.body_indexByteBodyNonASCII "sse") s).loads, base ≤ ld.1 ∧ ld.1 + ld.2 ≤ base + len := by
  have hW : W64 = 2 ^ 64 := rfl
  obtain ⟨g, rfl⟩ : ∃ g, f = g + 2 := ⟨f - 2, by omega⟩
  have alea : (base + len + dispN (-16)) % W64 = base + len - 16 := by rw [dispNm16, hW]; omega
  have hinv := sse_indexByteBodyNonASCII_inv mem base len c h16 hb (len + 1) 0
    { s with r := fun q => if q = Reg.AX then base + len - 16 else s.r q } g
    (by simp [hSI]) (by simp [hDI]) (by simp) hX0 hX2 hmem hout (by omega) (by omega) (by omega)
  have hcor := idxLoop_correct P16 ⟨rfl, rfl, by decide⟩ (fun b => decide (b ≥ 0x80)) mem base len h16 (len + 1) 0 (by omega)
    (by show len ≤ (len + 1) * 16 + 0; omega) (fun i hi => by omega)
  have e : run Gen.Asm.body_indexByteBodyNonASCII (g + 2) (block Gen.Asm.body_indexByteBodyNonASCII "sse") s =
      run Gen.Asm.body_indexByteBodyNonASCII g (Lentry Gen.Asm.body_indexByteBodyNonASCII)
        { s with r := fun q => if q = Reg.AX then base + len - 16 else s.r q } := by
    asm_step [Gen.Asm.body_indexByteBodyNonASCII, hSI, hBX, alea]
  rw [e, hinv.1, hinv.2, hcor.1]
  refine ⟨rfl, ?_⟩
  intro ld hld
  simp only [hl, List.nil_append] at hld
  exact hcor.2 ld hld

end Asm
