import SC.Proofs.SrcLoops
import SC.Proofs.FoldFacts
/-!
`strcase.Compare` on the regenerated program text: the byte loop (`for i := 0; i < len(s) && i < len(t); i++`) with its three exits
(`clamp(len(s)-len(t))`, the `_lower` comparison, the jump to the rune loop), by a loop invariant over interpreter frames.
For ASCII-only arguments the rune loop is unreachable and the whole function is proved; the rune loop itself
(`range` iterator, `DecodeRuneInString`, `tables.CaseFold`) is still open at this level.
-/
namespace GoSsa.Str
open GoSsa Gen.Src Utf8

theorem find_clamp : P.find? (fun fn => fn.name == "clamp") = some str_clamp := by rfl
theorem nb_clamp (a h) : builtin false "clamp" a h = none := by rfl

theorem clamp_run (n : Int) (h : Heap) (fuel : Nat) (hf : 6 ≤ fuel) :
    run P false fuel (Frame.entry str_clamp [.int n]) h = .ok [.int (Utf8.clamp n)] h := by
  obtain ⟨k, hk⟩ := Str.clamp n h
  -- the bound inside `Str.clamp` is 6; re-prove at this fuel directly
  obtain ⟨m, rfl⟩ : ∃ m, fuel = m + 6 := ⟨fuel - 6, by omega⟩
  rw [Frame.entry]
  by_cases h1 : n < 0
  · src_run [str_clamp, str_clamp_b0, str_clamp_b1, str_clamp_b2, str_clamp_b3, str_clamp_b4, Utf8.clamp, h1]
  · by_cases h2 : 0 < n <;>
      src_run [str_clamp, str_clamp_b0, str_clamp_b1, str_clamp_b2, str_clamp_b3, str_clamp_b4, Utf8.clamp, h1, h2]

/-- the load `_lower[b]` of the source is the model's `lower b` -/
theorem lowerLoad (b : UInt8) : Gen.Consts.strLower[b.toNat]?.getD 0 = (lower b).toNat := by
  rw [Utf8.strLower_eq]
  have hb := b.toNat_lt
  simp [List.getElem?_map, List.getElem?_range hb, Utf8.ofNat_toNat_id]

theorem lowerLen : Gen.Consts.strLower.length = 256 := by decide +kernel

/-- two ASCII bytes: the source's non-ASCII test `(a|b) & 0x80 != 0` fails, and so does the model's -/
theorem ascii_or_all : (List.range 128).all (fun a => (List.range 128).all fun b =>
    decide (wrap .u8 ((toU .u8 (wrap .u8 ((toU .u8 (a : Int) ||| toU .u8 (b : Int) : Nat) : Int)) &&& toU .u8 128 : Nat) : Int) = 0) &&
    ((UInt8.ofNat a ||| UInt8.ofNat b) &&& 0x80 == 0)) = true := by decide +kernel

theorem ascii_or (a b : UInt8) (ha : a < 0x80) (hb : b < 0x80) :
    wrap .u8 ((toU .u8 (wrap .u8 ((toU .u8 (a.toNat : Int) ||| toU .u8 (b.toNat : Int) : Nat) : Int)) &&& toU .u8 128 : Nat) : Int) = 0 ∧
    (a ||| b) &&& 0x80 = 0 := by
  have ha' : a.toNat < 128 := ha
  have hb' : b.toNat < 128 := hb
  have h1 := List.all_eq_true.1 ascii_or_all a.toNat (List.mem_range.2 ha')
  have h2 := List.all_eq_true.1 h1 b.toNat (List.mem_range.2 hb')
  rw [Utf8.ofNat_toNat_id, Utf8.ofNat_toNat_id] at h2
  simp only [Bool.and_eq_true, decide_eq_true_eq, beq_iff_eq] at h2
  exact h2

theorem toNat_int_inj (a b : UInt8) : ((a.toNat : Int) = (b.toNat : Int)) ↔ a = b := by
  constructor
  · intro hh
    have hn : a.toNat = b.toNat := by omega
    rw [← Utf8.ofNat_toNat_id a, ← Utf8.ofNat_toNat_id b, hn]
  · intro hh; rw [hh]

theorem toNat_int_lt (a b : UInt8) : ((a.toNat : Int) < (b.toNat : Int)) ↔ a < b := by
  rw [UInt8.lt_iff_toNat_lt]; omega

set_option maxHeartbeats 1000000 in
theorem cmp_loop (s t : Bytes) (r0 o0 r1 o1 : Nat) (h : Heap) (hls : s.length < 4611686018427387904) (hlt : t.length < 4611686018427387904)
    (hs : ∀ b ∈ s, b < 0x80) (ht : ∀ b ∈ t, b < 0x80) :
    ∀ (d i : Nat) (env : Array (List Val)), s.length - i = d → i ≤ s.length → i ≤ t.length → env.size = 61 →
      (env.getD 0 [] = [.str s r0 o0]) → (env.getD 1 [] = [.str t r1 o1]) → (env.getD 11 [] = [.int i]) →
      ∀ fuel, 30 * d + 40 ≤ fuel →
        run P false fuel ⟨str_Compare, env, 3, [.len 12 (.r 0), .bin 13 .lt .i64 (.r 11) (.r 12)], .cond (.r 13) 4 2⟩ h
        = .ok [.int (A.cmpAscii Fold.caseFold (s.drop i) (t.drop i))] h := by
  intro d
  induction d with
  | zero =>
    intro i env hd hi hit hsz h0 h1 h11 fuel hf
    simp [hsz] at h0 h1 h11
    have hi' : i = s.length := by omega
    subst hi'
    obtain ⟨m, rfl⟩ : ∃ m, fuel = m + 40 := ⟨fuel - 40, by omega⟩
    have hw : wrap .i64 ((s.length : Int) - (t.length : Int)) = (s.length : Int) - (t.length : Int) := wrap_i64_small _ (by omega) (by omega)
    have hA : A.cmpAscii Fold.caseFold [] (t.drop s.length) = Utf8.clamp ((s.length : Int) - (t.length : Int)) := by
      cases hdt : t.drop s.length with
      | nil =>
        have : t.length ≤ s.length := by
          have := congrArg List.length hdt; simp at this; omega
        simp [A.cmpAscii]; congr 1; omega
      | cons b t' =>
        have : (t.drop s.length).length = t'.length + 1 := by rw [hdt]; rfl
        simp at this
        simp [A.cmpAscii]; congr 1; omega
    src_run [str_Compare, str_Compare_b2, hsz, h0, h1, h11, hw, run_call_fn (hb := nb_clamp) (hf := find_clamp), clamp_run, hA]
  | succ d ih =>
    intro i env hd hi hit hsz h0 h1 h11 fuel hf
    simp [hsz] at h0 h1 h11
    have hlt1 : i < s.length := by omega
    have hlt1' : (i : Int) < s.length := by omega
    have hds : s.drop i = s[i] :: s.drop (i + 1) := List.drop_eq_getElem_cons hlt1
    simp only [str_Compare, str_Compare_b0, str_Compare_b1, str_Compare_b2, str_Compare_b3, str_Compare_b4, str_Compare_b5, str_Compare_b6,
      str_Compare_b7, str_Compare_b8, str_Compare_b9, str_Compare_b10, str_Compare_b11] at ih
    by_cases hit2 : i < t.length
    · have hit2' : (i : Int) < t.length := by omega
      have hdt : t.drop i = t[i] :: t.drop (i + 1) := List.drop_eq_getElem_cons hit2
      have hasc := ascii_or s[i] t[i] (hs _ (List.getElem_mem hlt1)) (ht _ (List.getElem_mem hit2))
      have hw : wrap .i64 ((i : Int) + 1) = (i : Int) + 1 := wrap_i64_small _ (by omega) (by omega)
      rw [hds, hdt]
      simp only [A.cmpAscii, hasc.2, ne_eq, not_true_eq_false, if_false]
      by_cases hab : s[i] = t[i]
      · obtain ⟨m, rfl⟩ : ∃ m, fuel = m + 16 := ⟨fuel - 16, by omega⟩
        have hab' := (toNat_int_inj s[i] t[i]).mpr hab
        have hz := hasc.1
        rw [hab] at hz
        simp only [Nat.or_self] at hz
        src_run [str_Compare, str_Compare_b0, str_Compare_b1, str_Compare_b2, str_Compare_b3, str_Compare_b4, str_Compare_b5, str_Compare_b6,
          str_Compare_b7, str_Compare_b8, str_Compare_b9, str_Compare_b10, str_Compare_b11, hsz, h0, h1, h11, hlt1, hlt1', hit2, hit2', hw, hz, hab']
        rw [ih (i + 1) _ (by omega) (by omega) (by omega) (by simp [hsz]) (by simp [hsz, h0]) (by simp [hsz, h1]) (by simp [hsz, hw]) _ (by omega)]
        simp [hab]
      · have hab' : ¬ ((s[i].toNat : Int) = t[i].toNat) := fun e => hab ((toNat_int_inj _ _).mp e)
        by_cases hlo : lower s[i] = lower t[i]
        · obtain ⟨m, rfl⟩ : ∃ m, fuel = m + 22 := ⟨fuel - 22, by omega⟩
          have hlo' := (toNat_int_inj (lower s[i]) (lower t[i])).mpr hlo
          have hk1 : s[i].toNat < 256 := s[i].toNat_lt
          have hk2 : t[i].toNat < 256 := t[i].toNat_lt
          have hk1' : (s[i].toNat : Int) < 256 := by omega
          have hk2' : (t[i].toNat : Int) < 256 := by omega
          src_run [str_Compare, str_Compare_b0, str_Compare_b1, str_Compare_b2, str_Compare_b3, str_Compare_b4, str_Compare_b5, str_Compare_b6,
            str_Compare_b7, str_Compare_b8, str_Compare_b9, str_Compare_b10, str_Compare_b11, hsz, h0, h1, h11, hlt1, hlt1', hit2, hit2', hw, hasc.1, hab, hab',
            globalArr, lowerLoad, lowerLen, hk1, hk2, hk1', hk2', hlo']
          rw [ih (i + 1) _ (by omega) (by omega) (by omega) (by simp [hsz]) (by simp [hsz, h0]) (by simp [hsz, h1]) (by simp [hsz, hw]) _ (by omega)]
          simp [hab, hlo]
        · have hlo' : ¬ (((lower s[i]).toNat : Int) = (lower t[i]).toNat) := fun e => hlo ((toNat_int_inj _ _).mp e)
          have hk1 : s[i].toNat < 256 := s[i].toNat_lt
          have hk2 : t[i].toNat < 256 := t[i].toNat_lt
          have hk1' : (s[i].toNat : Int) < 256 := by omega
          have hk2' : (t[i].toNat : Int) < 256 := by omega
          obtain ⟨m, rfl⟩ : ∃ m, fuel = m + 30 := ⟨fuel - 30, by omega⟩
          by_cases hl : lower s[i] < lower t[i]
          · have hl' := (toNat_int_lt _ _).mpr hl
            src_run [str_Compare, str_Compare_b0, str_Compare_b1, str_Compare_b2, str_Compare_b3, str_Compare_b4, str_Compare_b5, str_Compare_b6,
              str_Compare_b7, str_Compare_b8, str_Compare_b9, str_Compare_b10, str_Compare_b11, hsz, h0, h1, h11, hlt1, hlt1', hit2, hit2', hw, hasc.1, hab, hab',
              globalArr, lowerLoad, lowerLen, hk1, hk2, hk1', hk2', hlo, hlo', hl, hl']
          · have hl' : ¬ (((lower s[i]).toNat : Int) < (lower t[i]).toNat) := fun e => hl ((toNat_int_lt _ _).mp e)
            src_run [str_Compare, str_Compare_b0, str_Compare_b1, str_Compare_b2, str_Compare_b3, str_Compare_b4, str_Compare_b5, str_Compare_b6,
              str_Compare_b7, str_Compare_b8, str_Compare_b9, str_Compare_b10, str_Compare_b11, hsz, h0, h1, h11, hlt1, hlt1', hit2, hit2', hw, hasc.1, hab, hab',
              globalArr, lowerLoad, lowerLen, hk1, hk2, hk1', hk2', hlo, hlo', hl, hl']
    · -- `t` is exhausted first
      have hit3 : t.length = i := by omega
      have hit2' : ¬ ((i : Int) < t.length) := by omega
      have hdt : t.drop i = [] := List.drop_eq_nil_of_le (by omega)
      have hw : wrap .i64 ((s.length : Int) - (t.length : Int)) = (s.length : Int) - (t.length : Int) := wrap_i64_small _ (by omega) (by omega)
      obtain ⟨m, rfl⟩ : ∃ m, fuel = m + 30 := ⟨fuel - 30, by omega⟩
      rw [hdt]
      have hA : A.cmpAscii Fold.caseFold (s.drop i) [] = Utf8.clamp ((s.length : Int) - (t.length : Int)) := by
        rw [hds]; simp [A.cmpAscii]; congr 1; omega
      src_run [str_Compare, str_Compare_b2, str_Compare_b4, hsz, h0, h1, h11, hlt1, hlt1', hit2, hit2', hw, run_call_fn (hb := nb_clamp) (hf := find_clamp), clamp_run, hA]

/-- `strcase.Compare` on ASCII-only arguments: the regenerated program text returns the algorithm model's value -/
theorem Compare_ascii (s t : Bytes) (r0 o0 r1 o1 : Nat) (h : Heap) (hls : s.length < 4611686018427387904) (hlt : t.length < 4611686018427387904)
    (hs : ∀ b ∈ s, b < 0x80) (ht : ∀ b ∈ t, b < 0x80) :
    Ret P false str_Compare [.str s r0 o0, .str t r1 o1] h [.int (A.Compare (cfg false) s t)] h := by
  refine ⟨30 * s.length + 41, fun fuel hf => ?_⟩
  obtain ⟨m, rfl⟩ : ∃ m, fuel = (30 * s.length + 40 + m) + 1 := ⟨fuel - (30 * s.length + 41), by omega⟩
  rw [Frame.entry]
  have hl := cmp_loop s t r0 o0 r1 o1 h hls hlt hs ht s.length 0
  simp only [str_Compare, str_Compare_b0, str_Compare_b1, str_Compare_b2, str_Compare_b3, str_Compare_b4, str_Compare_b5, str_Compare_b6,
      str_Compare_b7, str_Compare_b8, str_Compare_b9, str_Compare_b10, str_Compare_b11] at hl
  src_run [str_Compare, str_Compare_b0, str_Compare_b1, str_Compare_b2, str_Compare_b3, str_Compare_b4, str_Compare_b5, str_Compare_b6,
      str_Compare_b7, str_Compare_b8, str_Compare_b9, str_Compare_b10, str_Compare_b11]
  rw [hl _ (by omega) (by omega) (by omega) (by simp) (by simp) (by simp) (by simp) _ (by omega)]
  rfl

end GoSsa.Str
